import Blue.Model.Huffman
import Blue.Proofs.Wavelet
/-! Proofs about `Blue/Model/Huffman.lean`: the canonical code built from ANY binary tree over
    distinct symbols is a prefix-free (`Blue.Wavelet.prefixFreeB`), complete (Kraft sum one) code
    book over exactly those symbols; depth bound; the deterministic merge loop and every
    nondeterministic outcome deliver such a tree. -/
namespace Blue.Huffman
open Blue.Wavelet (Entry CodeBook prefixFreeB pairsOk preB)

/-! ### insertion sort -/

theorem insertBy_perm {α : Type} (le : α → α → Bool) (x : α) (l : List α) :
    (insertBy le x l).Perm (x :: l) := by
  induction l with
  | nil => exact List.Perm.refl _
  | cons y ys ih =>
    simp only [insertBy]
    split
    · exact List.Perm.refl _
    · exact ((List.Perm.cons y ih).trans (List.Perm.swap x y ys))

theorem sortBy_perm {α : Type} (le : α → α → Bool) (l : List α) : (sortBy le l).Perm l := by
  induction l with
  | nil => exact List.Perm.refl _
  | cons x xs ih => exact (insertBy_perm le x _).trans (List.Perm.cons x ih)

theorem insertBy_sorted {α : Type} (le : α → α → Bool) (key : α → Nat)
    (h1 : ∀ x y, le x y = true → key x ≤ key y) (h2 : ∀ x y, le x y = false → key y ≤ key x)
    (x : α) (l : List α) (hl : l.Pairwise (fun a b => key a ≤ key b)) :
    (insertBy le x l).Pairwise (fun a b => key a ≤ key b) := by
  induction l with
  | nil => simp [insertBy]
  | cons y ys ih =>
    rw [List.pairwise_cons] at hl
    simp only [insertBy]
    cases hle : le x y with
    | true =>
      simp only [if_true]
      refine List.pairwise_cons.2 ⟨?_, List.pairwise_cons.2 hl⟩
      intro a ha
      have hxy := h1 x y hle
      rcases List.mem_cons.1 ha with rfl | ha
      · exact hxy
      · exact Nat.le_trans hxy (hl.1 a ha)
    | false =>
      simp only [Bool.false_eq_true, if_false]
      refine List.pairwise_cons.2 ⟨?_, ih hl.2⟩
      intro a ha
      rcases List.mem_cons.1 ((insertBy_perm le x ys).mem_iff.1 ha) with rfl | ha
      · exact h2 _ _ hle
      · exact hl.1 a ha

theorem sortBy_sorted {α : Type} (le : α → α → Bool) (key : α → Nat)
    (h1 : ∀ x y, le x y = true → key x ≤ key y) (h2 : ∀ x y, le x y = false → key y ≤ key x)
    (l : List α) : (sortBy le l).Pairwise (fun a b => key a ≤ key b) := by
  induction l with
  | nil => exact List.Pairwise.nil
  | cons x xs ih => exact insertBy_sorted le key h1 h2 x _ ih

theorem lePair_key1 (x y : Nat × Nat) (h : lePair x y = true) : x.1 ≤ y.1 := by
  simp only [lePair, Bool.or_eq_true, Bool.and_eq_true, decide_eq_true_eq, beq_iff_eq] at h
  omega

theorem lePair_key2 (x y : Nat × Nat) (h : lePair x y = false) : y.1 ≤ x.1 := by
  simp only [lePair, Bool.or_eq_false_iff, decide_eq_false_iff_not] at h
  omega

/-! ### bit reversal -/

theorem rev_lt (c l : Nat) : rev c l < 2 ^ l := by
  induction l generalizing c with
  | zero => simp [rev]
  | succ l ih =>
    have h1 := ih (c / 2)
    have h2 : c % 2 < 2 := Nat.mod_lt _ (by decide)
    have h3 : (c % 2) * 2 ^ l ≤ 1 * 2 ^ l := Nat.mul_le_mul_right _ (by omega)
    simp only [rev, Nat.pow_succ]
    omega

/-- the low `k` bits of the reversed `l`-bit word are the reversed top `k` bits -/
theorem rev_mod (d l k : Nat) (hk : k ≤ l) : rev d l % 2 ^ k = rev (d / 2 ^ (l - k)) k := by
  induction l generalizing d with
  | zero =>
    have : k = 0 := by omega
    subst this; simp [rev]
  | succ l ih =>
    by_cases hkl : k = l + 1
    · subst hkl
      rw [Nat.mod_eq_of_lt (rev_lt _ _)]; simp
    · have hk' : k ≤ l := by omega
      have e1 : l + 1 - k = (l - k) + 1 := by omega
      have e2 : (2 : Nat) ^ l = 2 ^ k * 2 ^ (l - k) := by rw [← Nat.pow_add]; congr 1; omega
      simp only [rev]
      rw [e2, show d % 2 * (2 ^ k * 2 ^ (l - k)) = 2 ^ k * (d % 2 * 2 ^ (l - k)) from by
        rw [Nat.mul_left_comm], Nat.mul_add_mod, ih (d / 2) hk', e1, Nat.pow_succ,
        Nat.div_div_eq_div_mul, Nat.mul_comm 2]

theorem rev_inj (k c c' : Nat) (hc : c < 2 ^ k) (hc' : c' < 2 ^ k) (h : rev c k = rev c' k) : c = c' := by
  induction k generalizing c c' with
  | zero => simp at hc hc'; omega
  | succ k ih =>
    simp only [rev] at h
    rw [Nat.pow_succ] at hc hc'
    have r1 := rev_lt (c / 2) k
    have r2 := rev_lt (c' / 2) k
    have hh : c / 2 = c' / 2 ∧ c % 2 = c' % 2 := by
      rcases Nat.mod_two_eq_zero_or_one c with h0 | h0 <;>
        rcases Nat.mod_two_eq_zero_or_one c' with h1 | h1 <;> rw [h0, h1] at h
      · exact ⟨ih _ _ (by omega) (by omega) (by omega), by omega⟩
      · exfalso; omega
      · exfalso; omega
      · exact ⟨ih _ _ (by omega) (by omega) (by omega), by omega⟩
    omega

/-- a reversed `k`-bit word is a least-significant-first prefix of a reversed `l`-bit word exactly
    when it is the top `k` bits -/
theorem preB_rev (c k d l : Nat) (hc : c < 2 ^ k) (hd : d < 2 ^ l) :
    preB (rev c k, k) (rev d l, l) = true ↔ (k ≤ l ∧ d / 2 ^ (l - k) = c) := by
  simp only [preB, Bool.and_eq_true, decide_eq_true_eq, beq_iff_eq]
  constructor
  · rintro ⟨hkl, h⟩
    refine ⟨hkl, ?_⟩
    rw [rev_mod d l k hkl] at h
    refine rev_inj k _ _ ?_ hc h
    rw [Nat.div_lt_iff_lt_mul (Nat.two_pow_pos _), ← Nat.pow_add]
    rw [show k + (l - k) = l from by omega]; exact hd
  · rintro ⟨hkl, h⟩
    exact ⟨hkl, by rw [rev_mod d l k hkl, h]⟩

/-! ### the canonical assignment -/

theorem assignRaw_syms (code prev : Nat) (l : List (Nat × Nat)) :
    (assignRaw code prev l).map (·.1) = l.map (·.2) := by
  induction l generalizing code prev with
  | nil => rfl
  | cons p rest ih => obtain ⟨len, sym⟩ := p; simp [assignRaw, ih]

theorem assignRaw_lens (code prev : Nat) (l : List (Nat × Nat)) :
    (assignRaw code prev l).map (·.2.2) = l.map (·.1) := by
  induction l generalizing code prev with
  | nil => rfl
  | cons p rest ih => obtain ⟨len, sym⟩ := p; simp [assignRaw, ih]

/-- every later code is at least the running code, scaled to its length -/
theorem assignRaw_lower (l : List (Nat × Nat)) (code prev : Nat)
    (hs : l.Pairwise (fun a b => a.1 ≤ b.1)) (hp : ∀ p ∈ l, prev ≤ p.1) :
    ∀ e ∈ assignRaw code prev l, prev ≤ e.2.2 ∧ code * 2 ^ (e.2.2 - prev) ≤ e.2.1 ∧ (e.2.2, e.1) ∈ l := by
  induction l generalizing code prev with
  | nil => intro e he; simp [assignRaw] at he
  | cons p rest ih =>
    obtain ⟨len, sym⟩ := p
    rw [List.pairwise_cons] at hs
    have hpl : prev ≤ len := hp (len, sym) (List.mem_cons_self ..)
    intro e he
    simp only [assignRaw, List.mem_cons] at he
    rcases he with rfl | he
    · exact ⟨hpl, by simp [Nat.shiftLeft_eq], by simp⟩
    · obtain ⟨h1, h2, h3⟩ := ih (code <<< (len - prev) + 1) len hs.2 (fun p hp' => hs.1 p hp') e he
      refine ⟨by omega, ?_, List.mem_cons_of_mem _ h3⟩
      rw [Nat.shiftLeft_eq] at h2
      have e1 : e.2.2 - prev = (len - prev) + (e.2.2 - len) := by omega
      rw [e1, Nat.pow_add, ← Nat.mul_assoc]
      refine Nat.le_trans (Nat.mul_le_mul_right _ (Nat.le_succ _)) h2

/-- Σ 2^(L - len) over `(len, sym)` pairs -/
def ksum (L : Nat) : List (Nat × Nat) → Nat
  | [] => 0
  | p :: ps => 2 ^ (L - p.1) + ksum L ps

theorem ksum_append (L : Nat) (a b : List (Nat × Nat)) : ksum L (a ++ b) = ksum L a + ksum L b := by
  induction a with
  | nil => simp [ksum]
  | cons p ps ih => simp [ksum, ih, Nat.add_assoc]

theorem ksum_eq_sum (L : Nat) (l : List (Nat × Nat)) : ksum L l = (l.map (fun p => 2 ^ (L - p.1))).sum := by
  induction l with
  | nil => rfl
  | cons p ps ih => simp [ksum, ih]

theorem ksum_perm (L : Nat) {a b : List (Nat × Nat)} (h : a.Perm b) : ksum L a = ksum L b := by
  rw [ksum_eq_sum, ksum_eq_sum]; exact (h.map _).sum_nat

/-- within the Kraft budget every code fits its length -/
theorem assignRaw_upper (L : Nat) (l : List (Nat × Nat)) (code prev : Nat)
    (hs : l.Pairwise (fun a b => a.1 ≤ b.1)) (hp : ∀ p ∈ l, prev ≤ p.1) (hL : ∀ p ∈ l, p.1 ≤ L)
    (hb : code * 2 ^ (L - prev) + ksum L l ≤ 2 ^ L) :
    ∀ e ∈ assignRaw code prev l, e.2.1 < 2 ^ e.2.2 := by
  induction l generalizing code prev with
  | nil => intro e he; simp [assignRaw] at he
  | cons p rest ih =>
    obtain ⟨len, sym⟩ := p
    rw [List.pairwise_cons] at hs
    have hpl : prev ≤ len := hp (len, sym) (List.mem_cons_self ..)
    have hlL : len ≤ L := hL (len, sym) (List.mem_cons_self ..)
    have e1 : L - prev = (len - prev) + (L - len) := by omega
    have e2 : (2 : Nat) ^ L = 2 ^ len * 2 ^ (L - len) := by rw [← Nat.pow_add]; congr 1; omega
    have hc : code <<< (len - prev) * 2 ^ (L - len) = code * 2 ^ (L - prev) := by
      rw [Nat.shiftLeft_eq, e1, Nat.pow_add, Nat.mul_assoc]
    simp only [ksum] at hb
    have hb2 : (code <<< (len - prev) + 1) * 2 ^ (L - len) + ksum L rest ≤ 2 ^ L := by
      rw [Nat.add_mul, hc, Nat.one_mul]; omega
    intro e he
    simp only [assignRaw, List.mem_cons] at he
    rcases he with rfl | he
    · show code <<< (len - prev) < 2 ^ len
      have : (code <<< (len - prev) + 1) * 2 ^ (L - len) ≤ 2 ^ len * 2 ^ (L - len) := by
        rw [← e2]; omega
      have := Nat.le_of_mul_le_mul_right this (Nat.two_pow_pos _)
      omega
    · exact ih _ len hs.2 (fun p hp' => hs.1 p hp') (fun p hp' => hL p (List.mem_cons_of_mem _ hp')) hb2 e he

/-- the relation `pairsOk` checks between two entries -/
def Rel (a b : Entry) : Prop := (a.1 != b.1 && !preB a.2 b.2 && !preB b.2 a.2) = true

theorem Rel_symm {a b : Entry} (h : Rel a b) : Rel b a := by
  simp only [Rel, Bool.and_eq_true, bne_iff_ne, ne_eq, Bool.not_eq_true'] at h ⊢
  exact ⟨⟨fun e => h.1.1 e.symm, h.2⟩, h.1.2⟩

theorem pairsOk_iff (cb : CodeBook) : pairsOk cb = true ↔ cb.Pairwise Rel := by
  induction cb with
  | nil => simp [pairsOk]
  | cons en rest ih =>
    simp only [pairsOk, Bool.and_eq_true, List.all_eq_true, List.pairwise_cons, ih, Rel]

theorem assign_pairwise (L : Nat) (l : List (Nat × Nat)) (code prev : Nat)
    (hs : l.Pairwise (fun a b => a.1 ≤ b.1)) (hp : ∀ p ∈ l, prev ≤ p.1) (hL : ∀ p ∈ l, p.1 ≤ L)
    (hb : code * 2 ^ (L - prev) + ksum L l ≤ 2 ^ L) (hnd : (l.map (·.2)).Nodup) :
    ((assignRaw code prev l).map flip).Pairwise Rel := by
  induction l generalizing code prev with
  | nil => simp [assignRaw]
  | cons p rest ih =>
    have hup := assignRaw_upper L (p :: rest) code prev hs hp hL hb
    obtain ⟨len, sym⟩ := p
    have hs0 := hs
    rw [List.pairwise_cons] at hs
    have hpl : prev ≤ len := hp (len, sym) (List.mem_cons_self ..)
    have hlL : len ≤ L := hL (len, sym) (List.mem_cons_self ..)
    have e1 : L - prev = (len - prev) + (L - len) := by omega
    have hc : code <<< (len - prev) * 2 ^ (L - len) = code * 2 ^ (L - prev) := by
      rw [Nat.shiftLeft_eq, e1, Nat.pow_add, Nat.mul_assoc]
    simp only [ksum] at hb
    have hb2 : (code <<< (len - prev) + 1) * 2 ^ (L - len) + ksum L rest ≤ 2 ^ L := by
      rw [Nat.add_mul, hc, Nat.one_mul]; omega
    simp only [List.map_cons, List.nodup_cons] at hnd
    simp only [assignRaw, List.map_cons]
    refine List.pairwise_cons.2 ⟨?_, ih _ len hs.2 (fun p hp' => hs.1 p hp')
      (fun p hp' => hL p (List.mem_cons_of_mem _ hp')) hb2 hnd.2⟩
    intro e' he'
    obtain ⟨e, he, rfl⟩ := List.mem_map.1 he'
    obtain ⟨h1, h2, h3⟩ := assignRaw_lower rest (code <<< (len - prev) + 1) len hs.2
      (fun p hp' => hs.1 p hp') e he
    have hce : e.2.1 < 2 ^ e.2.2 := hup e (by simp only [assignRaw, List.mem_cons]; exact Or.inr he)
    have hch : code <<< (len - prev) < 2 ^ len :=
      hup (sym, code <<< (len - prev), len) (by simp [assignRaw])
    have hpos : 0 < 2 ^ (e.2.2 - len) := Nat.two_pow_pos _
    have hge : code <<< (len - prev) + 1 ≤ e.2.1 / 2 ^ (e.2.2 - len) :=
      (Nat.le_div_iff_mul_le hpos).2 h2
    simp only [Rel, flip, Bool.and_eq_true, bne_iff_ne, ne_eq, Bool.not_eq_true']
    refine ⟨⟨?_, ?_⟩, ?_⟩
    · intro hsym
      exact hnd.1 (List.mem_map.2 ⟨(e.2.2, e.1), h3, hsym.symm⟩)
    · cases hpb : preB (rev (code <<< (len - prev)) len, len) (rev e.2.1 e.2.2, e.2.2) with
      | false => rfl
      | true =>
        have := ((preB_rev _ _ _ _ hch hce).1 hpb).2
        omega
    · cases hpb : preB (rev e.2.1 e.2.2, e.2.2) (rev (code <<< (len - prev)) len, len) with
      | false => rfl
      | true =>
        obtain ⟨hle, heq⟩ := (preB_rev _ _ _ _ hce hch).1 hpb
        have hel : e.2.2 = len := by omega
        rw [hel] at hge heq
        simp at hge heq
        omega

/-! ### trees -/

theorem depths_syms (t : HTree) (d : Nat) : (depths t d).map (·.2) = leaves t := by
  induction t generalizing d with
  | leaf s => rfl
  | node l r ihl ihr => simp [depths, leaves, ihl, ihr]

theorem depths_ge (t : HTree) (d : Nat) : ∀ p ∈ depths t d, d ≤ p.1 ∧ p.1 ≤ d + height t := by
  induction t generalizing d with
  | leaf s => intro p hp; simp [depths] at hp; subst hp; simp [height]
  | node l r ihl ihr =>
    intro p hp
    simp only [depths, List.mem_append] at hp
    simp only [height]
    rcases hp with hp | hp
    · have := ihl (d + 1) p hp; omega
    · have := ihr (d + 1) p hp; omega

theorem ksum_depths (L : Nat) (t : HTree) (d : Nat) (h : d + height t ≤ L) :
    ksum L (depths t d) = 2 ^ (L - d) := by
  induction t generalizing d with
  | leaf s => simp [depths, ksum]
  | node l r ihl ihr =>
    simp only [height] at h
    simp only [depths, ksum_append]
    rw [ihl (d + 1) (by omega), ihr (d + 1) (by omega)]
    rw [show L - d = (L - (d + 1)) + 1 from by omega, Nat.pow_succ]; omega

theorem height_lt_leaves (t : HTree) : height t + 1 ≤ (leaves t).length := by
  induction t with
  | leaf s => simp [height, leaves]
  | node l r ihl ihr => simp only [height, leaves, List.length_append]; omega

theorem symbolsOf_syms (t : HTree) : (symbolsOf t).map (·.2) = leaves t := by
  cases t with
  | leaf s => rfl
  | node l r => exact depths_syms _ 0

/-- the height of the tree as the code book sees it (a lone leaf has the one-bit code) -/
def bookHeight (t : HTree) : Nat := max 1 (height t)

theorem symbolsOf_bounds (t : HTree) : ∀ p ∈ symbolsOf t, 1 ≤ p.1 ∧ p.1 ≤ bookHeight t := by
  cases t with
  | leaf s =>
    intro p hp; simp [symbolsOf] at hp; subst hp
    refine ⟨Nat.le_refl 1, ?_⟩
    show 1 ≤ max 1 _
    omega
  | node l r =>
    intro p hp
    simp only [symbolsOf, depths, List.mem_append] at hp
    simp only [bookHeight, height]
    rcases hp with hp | hp
    · have := depths_ge l 1 p hp; omega
    · have := depths_ge r 1 p hp; omega

theorem ksum_symbolsOf (L : Nat) (t : HTree) (h : bookHeight t ≤ L) :
    ksum L (symbolsOf t) = (match t with | .leaf _ => 2 ^ (L - 1) | _ => 2 ^ L) := by
  cases t with
  | leaf s => simp [symbolsOf, ksum]
  | node l r =>
    have : 0 + height (HTree.node l r) ≤ L := by simp only [bookHeight] at h; omega
    show ksum L (depths (HTree.node l r) 0) = 2 ^ L
    simpa using ksum_depths L (HTree.node l r) 0 this

theorem ksum_symbolsOf_le (L : Nat) (t : HTree) (h : bookHeight t ≤ L) : ksum L (symbolsOf t) ≤ 2 ^ L := by
  rw [ksum_symbolsOf L t h]
  cases t with
  | leaf s => exact Nat.pow_le_pow_right (by decide) (by omega)
  | node l r => exact Nat.le_refl _

/-! ### the code book of a tree -/

theorem sorted_symbols (t : HTree) : (sortBy lePair (symbolsOf t)).Pairwise (fun a b => a.1 ≤ b.1) :=
  sortBy_sorted lePair (·.1) lePair_key1 lePair_key2 _

/-- the book before the final sort by symbol -/
def rawBook (t : HTree) : CodeBook := (assignRaw 0 1 (sortBy lePair (symbolsOf t))).map flip

theorem codeBook_perm (t : HTree) : (codeBook t).Perm (rawBook t) := sortBy_perm _ _

theorem rawBook_syms (t : HTree) : ((rawBook t).map (·.1)).Perm (leaves t) := by
  have : (rawBook t).map (·.1) = (sortBy lePair (symbolsOf t)).map (·.2) := by
    simp only [rawBook, List.map_map]
    rw [← assignRaw_syms 0 1]; simp [flip, Function.comp_def]
  rw [this, ← symbolsOf_syms t]
  exact (sortBy_perm _ _).map _

theorem rawBook_lens (t : HTree) : (rawBook t).map (·.2.2) = (sortBy lePair (symbolsOf t)).map (·.1) := by
  simp only [rawBook, List.map_map]
  rw [← assignRaw_lens 0 1]; simp [flip, Function.comp_def]

/-- **symbols**: the code book of a tree has exactly the tree's leaf symbols, each as often -/
theorem codeBook_syms (t : HTree) : ((codeBook t).map (·.1)).Perm (leaves t) :=
  ((codeBook_perm t).map _).trans (rawBook_syms t)

theorem rawBook_len_bounds (t : HTree) : ∀ en ∈ rawBook t, 1 ≤ en.2.2 ∧ en.2.2 ≤ bookHeight t := by
  intro en hen
  have : en.2.2 ∈ (rawBook t).map (·.2.2) := List.mem_map.2 ⟨en, hen, rfl⟩
  rw [rawBook_lens] at this
  obtain ⟨p, hp, hpe⟩ := List.mem_map.1 this
  have := symbolsOf_bounds t p ((sortBy_perm _ _).mem_iff.1 hp)
  omega

theorem codeBook_len_bounds (t : HTree) : ∀ en ∈ codeBook t, 1 ≤ en.2.2 ∧ en.2.2 ≤ bookHeight t :=
  fun en hen => rawBook_len_bounds t en ((codeBook_perm t).mem_iff.1 hen)

/-- **prefix free**, in the form the wavelet-tree theorems take: for every binary tree with
    distinct leaf symbols -/
theorem codeBook_prefixFree (t : HTree) (hnd : (leaves t).Nodup) : prefixFreeB (codeBook t) = true := by
  simp only [prefixFreeB, Bool.and_eq_true, List.all_eq_true, decide_eq_true_eq]
  constructor
  · intro en hen
    refine ⟨(codeBook_len_bounds t en hen).1, ?_⟩
    obtain ⟨e, _, rfl⟩ := List.mem_map.1 ((codeBook_perm t).mem_iff.1 hen)
    exact rev_lt _ _
  · rw [pairsOk_iff]
    refine (codeBook_perm t).symm.pairwise ?_ Rel_symm
    have hperm := sortBy_perm lePair (symbolsOf t)
    have hbd : ∀ p ∈ sortBy lePair (symbolsOf t), 1 ≤ p.1 ∧ p.1 ≤ bookHeight t :=
      fun p hp => symbolsOf_bounds t p (hperm.mem_iff.1 hp)
    refine assign_pairwise (bookHeight t) _ 0 1 (sorted_symbols t) (fun p hp => (hbd p hp).1)
      (fun p hp => (hbd p hp).2) ?_ ?_
    · rw [ksum_perm _ hperm]; simpa using ksum_symbolsOf_le _ t (Nat.le_refl _)
    · rw [(hperm.map _).nodup_iff, symbolsOf_syms]; exact hnd

theorem kraftSum_perm (L : Nat) {a b : CodeBook} (h : a.Perm b) : kraftSum L a = kraftSum L b :=
  (h.map _).sum_nat

/-- **Kraft equality**: a tree with at least two leaves gives a complete code -/
theorem codeBook_kraft (l r : HTree) (L : Nat) (hL : height (.node l r) ≤ L) :
    kraftSum L (codeBook (.node l r)) = 2 ^ L := by
  rw [kraftSum_perm L (codeBook_perm _)]
  have h1 : kraftSum L (rawBook (.node l r)) = ksum L (sortBy lePair (symbolsOf (.node l r))) := by
    rw [ksum_eq_sum, kraftSum]
    have := rawBook_lens (.node l r)
    rw [show (rawBook (.node l r)).map (fun en => 2 ^ (L - en.2.2))
          = ((rawBook (.node l r)).map (·.2.2)).map (fun n => 2 ^ (L - n)) from by simp [List.map_map, Function.comp_def],
        this]
    simp [List.map_map, Function.comp_def]
  rw [h1, ksum_perm _ (sortBy_perm _ _)]
  have := ksum_symbolsOf L (.node l r) (by simp only [bookHeight]; simp only [height] at hL ⊢; omega)
  simpa using this

/-- **depth bound**: no code word is longer than the number of symbols minus one (two symbols or
    more; a single symbol has the one-bit code) -/
theorem codeBook_depth_bound (t : HTree) : ∀ en ∈ codeBook t, en.2.2 ≤ max 1 ((leaves t).length - 1) := by
  intro en hen
  have h1 := (codeBook_len_bounds t en hen).2
  have h2 := height_lt_leaves t
  simp only [bookHeight] at h1
  omega

/-! ### the merge loop delivers a tree over the input symbols -/

def forestLeaves (q : List WTree) : List Nat := q.flatMap (fun a => leaves a.2)

theorem forestLeaves_perm {a b : List WTree} (h : a.Perm b) : (forestLeaves a).Perm (forestLeaves b) :=
  h.flatMap_right _

theorem insertBy_length {α : Type} (le : α → α → Bool) (x : α) (l : List α) :
    (insertBy le x l).length = l.length + 1 := (insertBy_perm le x l).length_eq

theorem mergeLoop_spec (f : Nat) (q : List WTree) (hne : q ≠ []) (hf : q.length ≤ f + 1) :
    ∃ t, mergeLoop f q = some t ∧ (leaves t).Perm (forestLeaves q) := by
  induction f generalizing q with
  | zero =>
    match q, hne, hf with
    | [a], _, _ => exact ⟨a.2, rfl, by simp [forestLeaves]⟩
  | succ f ih =>
    match q, hne, hf with
    | [a], _, _ => exact ⟨a.2, by simp [mergeLoop], by simp [forestLeaves]⟩
    | a :: b :: rest, _, hf =>
      have hlen : (insertBy ltW (a.1 + b.1, HTree.node a.2 b.2) rest).length ≤ f + 1 := by
        rw [insertBy_length]; simp at hf; omega
      have hne' : insertBy ltW (a.1 + b.1, HTree.node a.2 b.2) rest ≠ [] := by
        intro h; have := insertBy_length ltW (a.1 + b.1, HTree.node a.2 b.2) rest
        rw [h] at this; simp at this
      obtain ⟨t, ht, hp⟩ := ih _ hne' hlen
      refine ⟨t, by simpa [mergeLoop] using ht, hp.trans ?_⟩
      refine (forestLeaves_perm (insertBy_perm ltW _ rest)).trans ?_
      simp [forestLeaves, leaves]

theorem forestLeaves_initial (freqs : List (Nat × Nat)) : forestLeaves (initial freqs) = freqs.map (·.1) := by
  induction freqs with
  | nil => rfl
  | cons p ps ih =>
    simp only [forestLeaves, initial, List.map_cons, List.flatMap_cons, leaves] at ih ⊢
    rw [ih]; rfl

theorem buildTree_spec (freqs : List (Nat × Nat)) (hne : freqs ≠ []) :
    ∃ t, buildTree freqs = some t ∧ (leaves t).Perm (freqs.map (·.1)) := by
  have hp := sortBy_perm ltW (initial freqs)
  have hlen : (sortBy ltW (initial freqs)).length = freqs.length := by
    rw [hp.length_eq]; simp [initial]
  have hne' : sortBy ltW (initial freqs) ≠ [] := by
    intro h; rw [h] at hlen
    cases freqs with
    | nil => exact hne rfl
    | cons _ _ => simp at hlen
  obtain ⟨t, ht, hpt⟩ := mergeLoop_spec freqs.length _ hne' (by omega)
  refine ⟨t, ht, hpt.trans ?_⟩
  rw [← forestLeaves_initial]
  exact forestLeaves_perm hp

/-- every outcome of the nondeterministic construction is a tree over the forest's symbols -/
theorem outcome_leaves {q : List WTree} {t : HTree} (h : Outcome q t) : (leaves t).Perm (forestLeaves q) := by
  induction h with
  | done a => simp [forestLeaves]
  | merge q rest q' a b t hq _ _ hq' _ ih =>
    refine ih.trans ((forestLeaves_perm hq').trans ?_)
    refine List.Perm.trans ?_ (forestLeaves_perm hq).symm
    simp [forestLeaves, leaves]


/-! ### every tree over the symbols: the four properties at once -/

theorem node_of_two_leaves (t : HTree) (h : 2 ≤ (leaves t).length) : ∃ l r, t = .node l r := by
  cases t with
  | leaf s => simp [leaves] at h
  | node l r => exact ⟨l, r, rfl⟩

/-- the code book of ANY binary tree whose leaves are the (distinct) symbols `syms` -/
theorem tree_code_book (t : HTree) (syms : List Nat) (hperm : (leaves t).Perm syms) (hnd : syms.Nodup) :
    ((codeBook t).map (·.1)).Perm syms
    ∧ prefixFreeB (codeBook t) = true
    ∧ (2 ≤ syms.length → ∀ L, syms.length ≤ L + 1 → kraftSum L (codeBook t) = 2 ^ L)
    ∧ (∀ en ∈ codeBook t, 1 ≤ en.2.2 ∧ en.2.2 ≤ max 1 (syms.length - 1)) := by
  have hlen := hperm.length_eq
  refine ⟨(codeBook_syms t).trans hperm, codeBook_prefixFree t (hperm.nodup_iff.2 hnd), ?_, ?_⟩
  · intro h2 L hL
    obtain ⟨l, r, rfl⟩ := node_of_two_leaves t (by omega)
    have := height_lt_leaves (.node l r)
    exact codeBook_kraft l r L (by omega)
  · intro en hen
    have := codeBook_depth_bound t en hen
    exact ⟨(codeBook_len_bounds t en hen).1, by omega⟩

theorem huffman_eq (freqs : List (Nat × Nat)) (hne : freqs ≠ []) :
    ∃ t, huffman freqs = codeBook t ∧ (leaves t).Perm (freqs.map (·.1)) := by
  obtain ⟨t, ht, hp⟩ := buildTree_spec freqs hne
  exact ⟨t, by simp [huffman, ht], hp⟩

theorem huffman_nil : huffman [] = [] := rfl

/-- exactly one symbol: the one-bit code `0` (not the empty code) -/
theorem huffman_single (s w : Nat) : huffman [(s, w)] = [(s, 0, 1)] := rfl

/-- the code book has exactly the input symbols (with distinct input symbols: each once) -/
theorem huffman_symbols (freqs : List (Nat × Nat)) : ((huffman freqs).map (·.1)).Perm (freqs.map (·.1)) := by
  cases hf : freqs with
  | nil => exact List.Perm.refl _
  | cons p ps =>
    obtain ⟨t, ht, hp⟩ := huffman_eq (p :: ps) (by simp)
    rw [ht]; exact (codeBook_syms t).trans hp

theorem huffman_prefix_free (freqs : List (Nat × Nat)) (hnd : (freqs.map (·.1)).Nodup) :
    prefixFreeB (huffman freqs) = true := by
  cases hf : freqs with
  | nil => rfl
  | cons p ps =>
    subst hf
    obtain ⟨t, ht, hp⟩ := huffman_eq (p :: ps) (by simp)
    rw [ht]; exact (tree_code_book t _ hp hnd).2.1

theorem huffman_kraft (freqs : List (Nat × Nat)) (hnd : (freqs.map (·.1)).Nodup) (h2 : 2 ≤ freqs.length)
    (L : Nat) (hL : freqs.length ≤ L + 1) : kraftSum L (huffman freqs) = 2 ^ L := by
  obtain ⟨t, ht, hp⟩ := huffman_eq freqs (by intro h; subst h; simp at h2)
  rw [ht]; exact (tree_code_book t _ hp hnd).2.2.1 (by simpa using h2) L (by simpa using hL)

theorem huffman_depth_bound (freqs : List (Nat × Nat)) (hnd : (freqs.map (·.1)).Nodup) :
    ∀ en ∈ huffman freqs, 1 ≤ en.2.2 ∧ en.2.2 ≤ max 1 (freqs.length - 1) := by
  cases hf : freqs with
  | nil => intro en hen; simp [huffman_nil] at hen
  | cons p ps =>
    subst hf
    obtain ⟨t, ht, hp⟩ := huffman_eq (p :: ps) (by simp)
    rw [ht]; simpa using (tree_code_book t _ hp hnd).2.2.2

/-- the same for every outcome of the nondeterministic construction (whatever the tie-breaking) -/
theorem outcome_code_book (freqs : List (Nat × Nat)) (hnd : (freqs.map (·.1)).Nodup) (t : HTree)
    (h : Outcome (initial freqs) t) :
    ((codeBook t).map (·.1)).Perm (freqs.map (·.1))
    ∧ prefixFreeB (codeBook t) = true
    ∧ (2 ≤ freqs.length → ∀ L, freqs.length ≤ L + 1 → kraftSum L (codeBook t) = 2 ^ L)
    ∧ (∀ en ∈ codeBook t, 1 ≤ en.2.2 ∧ en.2.2 ≤ max 1 (freqs.length - 1)) := by
  have hp : (leaves t).Perm (freqs.map (·.1)) := by
    rw [← forestLeaves_initial]; exact outcome_leaves h
  simpa using tree_code_book t _ hp hnd

/-! ### the deterministic loop is one of the outcomes -/

theorem ltW_key1 (x y : WTree) (h : ltW x y = true) : x.1 ≤ y.1 := by
  simp only [ltW, decide_eq_true_eq] at h; omega

theorem ltW_key2 (x y : WTree) (h : ltW x y = false) : y.1 ≤ x.1 := by
  simp only [ltW, decide_eq_false_iff_not] at h; omega

theorem mergeLoop_outcome (f : Nat) (q : List WTree) (hs : q.Pairwise (fun a b => a.1 ≤ b.1)) (t : HTree)
    (h : mergeLoop f q = some t) : Outcome q t := by
  induction f generalizing q with
  | zero =>
    match q, h with
    | [a], h => simp [mergeLoop] at h; subst h; exact Outcome.done a
  | succ f ih =>
    match q, hs, h with
    | [a], _, h => simp [mergeLoop] at h; subst h; exact Outcome.done a
    | a :: b :: rest, hs, h =>
      simp only [mergeLoop] at h
      rw [List.pairwise_cons] at hs
      obtain ⟨ha, hs⟩ := hs
      rw [List.pairwise_cons] at hs
      refine Outcome.merge (a :: b :: rest) rest _ a b t (List.Perm.refl _) ?_ hs.1
        (insertBy_perm ltW _ rest) (ih _ (insertBy_sorted ltW (·.1) ltW_key1 ltW_key2 _ _ hs.2) h)
      intro c hc
      rcases List.mem_cons.1 hc with rfl | hc
      · exact Nat.le_refl _
      · exact ha c hc

theorem outcome_of_perm {q q' : List WTree} {t : HTree} (h : Outcome q t) (hp : q'.Perm q) : Outcome q' t := by
  cases h with
  | done a => rw [List.perm_singleton.1 hp]; exact Outcome.done a
  | merge _ rest q'' a b _ hq ha hb hq' ho =>
    exact Outcome.merge q' rest q'' a b t (hp.trans hq) (fun c hc => ha c (hp.mem_iff.1 hc)) hb hq' ho

theorem buildTree_outcome (freqs : List (Nat × Nat)) (t : HTree) (h : buildTree freqs = some t) :
    Outcome (initial freqs) t :=
  outcome_of_perm (mergeLoop_outcome _ _ (sortBy_sorted ltW (·.1) ltW_key1 ltW_key2 (initial freqs)) t h)
    (sortBy_perm ltW (initial freqs)).symm

/-! ### the wavelet tree over a Huffman code book -/

theorem encode_isSome (cb : CodeBook) (q : Nat) (h : q ∈ cb.map (·.1)) : (Blue.Wavelet.encode cb q).isSome = true := by
  obtain ⟨en, hen, rfl⟩ := List.mem_map.1 h
  have : (cb.find? (fun e => e.1 == en.1)).isSome = true := List.find?_isSome.2 ⟨en, hen, by simp⟩
  unfold Blue.Wavelet.encode
  cases hf : cb.find? (fun e => e.1 == en.1) with
  | none => rw [hf] at this; simp at this
  | some e => rfl

theorem inBook_of_syms (cb : CodeBook) (text : List Nat) (h : ∀ q ∈ text, q ∈ cb.map (·.1)) :
    Blue.Wavelet.inBookB cb text = true := by
  simp only [Blue.Wavelet.inBookB, List.all_eq_true]
  exact fun q hq => encode_isSome cb q (h q hq)

/-- the headline wavelet-tree theorem with the prefix-code hypothesis DISCHARGED: over the code book
    any binary tree over distinct symbols yields -/
theorem wavelet_tree_over_tree (t : HTree) (hnd : (leaves t).Nodup) (text : List Nat)
    (hin : ∀ q ∈ text, q ∈ leaves t) :
    ∃ w, Blue.Wavelet.construct (codeBook t) text = some w ∧ Blue.Wavelet.len w = text.length
      ∧ (∀ x, Blue.Wavelet.access w x = Blue.WaveletRef.access text x)
      ∧ (∀ q, q ∈ text → ∀ x, Blue.Wavelet.rankQ w q x = Blue.WaveletRef.rankQ text q x
          ∧ Blue.Wavelet.selectQ w q x = Blue.WaveletRef.selectQ text q x) := by
  have hpf := codeBook_prefixFree t hnd
  have hib := inBook_of_syms (codeBook t) text (fun q hq => (codeBook_syms t).mem_iff.2 (hin q hq))
  obtain ⟨w, hw, hl, _⟩ := Blue.Wavelet.construct_ok (codeBook t) text hpf hib
  exact ⟨w, hw, hl, fun x => Blue.Wavelet.access_eq _ text hpf hib w hw x,
    fun q hq x => ⟨Blue.Wavelet.rankQ_eq _ text hpf hib w hw q hq x, Blue.Wavelet.selectQ_eq _ text hpf hib w hw q hq x⟩⟩

theorem wavelet_tree_over_huffman (freqs : List (Nat × Nat)) (hnd : (freqs.map (·.1)).Nodup) (text : List Nat)
    (hin : ∀ q ∈ text, q ∈ freqs.map (·.1)) :
    ∃ w, Blue.Wavelet.construct (huffman freqs) text = some w ∧ Blue.Wavelet.len w = text.length
      ∧ (∀ x, Blue.Wavelet.access w x = Blue.WaveletRef.access text x)
      ∧ (∀ q, q ∈ text → ∀ x, Blue.Wavelet.rankQ w q x = Blue.WaveletRef.rankQ text q x
          ∧ Blue.Wavelet.selectQ w q x = Blue.WaveletRef.selectQ text q x) := by
  have hpf := huffman_prefix_free freqs hnd
  have hib := inBook_of_syms (huffman freqs) text (fun q hq => (huffman_symbols freqs).mem_iff.2 (hin q hq))
  obtain ⟨w, hw, hl, _⟩ := Blue.Wavelet.construct_ok (huffman freqs) text hpf hib
  exact ⟨w, hw, hl, fun x => Blue.Wavelet.access_eq _ text hpf hib w hw x,
    fun q hq x => ⟨Blue.Wavelet.rankQ_eq _ text hpf hib w hw q hq x, Blue.Wavelet.selectQ_eq _ text hpf hib w hw q hq x⟩⟩


/-! ### decoding the concatenated code words -/

theorem rel_of_mem {cb : CodeBook} (h : cb.Pairwise Rel) {x y : Entry} (hx : x ∈ cb) (hy : y ∈ cb) :
    x = y ∨ Rel x y := by
  induction cb with
  | nil => simp at hx
  | cons en rest ih =>
    rw [List.pairwise_cons] at h
    rcases List.mem_cons.1 hx with hx' | hx' <;> rcases List.mem_cons.1 hy with hy' | hy'
    · exact Or.inl (hx'.trans hy'.symm)
    · rw [hx']; exact Or.inr (h.1 _ hy')
    · rw [hy']; exact Or.inr (Rel_symm (h.1 _ hx'))
    · exact ih h.2 hx' hy' 

theorem decodeBits_word (cb : CodeBook) (hpf : prefixFreeB cb = true) (q c l : Nat) (hen : (q, c, l) ∈ cb)
    (rest : List Bool) : ∀ n sz, sz + n = l → 1 ≤ n →
      decodeBits cb (c % 2 ^ sz) sz (bitsLE (c / 2 ^ sz) n ++ rest) = q :: decodeBits cb 0 0 rest := by
  simp only [prefixFreeB, Bool.and_eq_true, List.all_eq_true, decide_eq_true_eq] at hpf
  have hpw : cb.Pairwise Rel := (pairsOk_iff cb).1 hpf.2
  have hcl : c < 2 ^ l := (hpf.1 _ hen).2
  intro n
  induction n with
  | zero => intro sz _ h; omega
  | succ n ih =>
    intro sz hsz _
    have he : c % 2 ^ sz + (if (c / 2 ^ sz % 2 == 1) = true then 2 ^ sz else 0) = c % 2 ^ (sz + 1) := by
      rw [Nat.mod_pow_succ]
      rcases Nat.mod_two_eq_zero_or_one (c / 2 ^ sz) with h | h <;> simp [h]
    simp only [bitsLE, List.cons_append, decodeBits]
    rw [he]
    cases hf : cb.find? (fun en => en.2.1 == c % 2 ^ (sz + 1) && en.2.2 == sz + 1) with
    | some en =>
      have hp := List.find?_some hf
      have hm := List.mem_of_find?_eq_some hf
      simp only [Bool.and_eq_true, beq_iff_eq] at hp
      have hpre : preB en.2 (c, l) = true := by
        simp only [preB, Bool.and_eq_true, decide_eq_true_eq, beq_iff_eq, hp.1, hp.2]
        exact ⟨by omega, trivial⟩
      rcases rel_of_mem hpw hm hen with heq | hrel
      · subst heq
        have : n = 0 := by simp at hp; omega
        subst this; simp [bitsLE]
      · exfalso
        simp only [Rel, Bool.and_eq_true, Bool.not_eq_true'] at hrel
        rw [hpre] at hrel; simp at hrel
    | none =>
      have hn : 1 ≤ n := by
        rcases Nat.eq_zero_or_pos n with h0 | h
        · exfalso
          subst h0
          refine List.find?_eq_none.1 hf (q, c, l) hen ?_
          simp only [Bool.and_eq_true, beq_iff_eq]
          refine ⟨?_, by omega⟩
          rw [show sz + 1 = l from by omega, Nat.mod_eq_of_lt hcl]
        · exact h
      have := ih (sz + 1) (by omega) hn
      rw [Nat.pow_succ, ← Nat.div_div_eq_div_mul] at this
      exact this

/-- over any prefix-free book: decoding the concatenated code words of a symbol list returns it -/
theorem decode_encode_book (cb : CodeBook) (hpf : prefixFreeB cb = true) (text : List Nat)
    (hin : ∀ q ∈ text, q ∈ cb.map (·.1)) : decodeBits cb 0 0 (encodeBits cb text) = text := by
  induction text with
  | nil => rfl
  | cons q qs ih =>
    have hq := encode_isSome cb q (hin q (List.mem_cons_self ..))
    cases henc : Blue.Wavelet.encode cb q with
    | none => rw [henc] at hq; simp at hq
    | some cl =>
      obtain ⟨c, l⟩ := cl
      have hm : (q, c, l) ∈ cb := by
        unfold Blue.Wavelet.encode at henc
        cases hf : cb.find? (fun en => en.1 == q) with
        | none => rw [hf] at henc; simp at henc
        | some en =>
          rw [hf] at henc
          have hp := List.find?_some hf
          have hm := List.mem_of_find?_eq_some hf
          simp only [beq_iff_eq] at hp
          simp only [Option.some.injEq] at henc
          obtain ⟨s, c', l'⟩ := en
          simp only [Prod.mk.injEq] at henc
          simp only at hp
          obtain ⟨rfl, rfl⟩ := henc
          subst hp; exact hm
      have hl : 1 ≤ l := by
        simp only [prefixFreeB, Bool.and_eq_true, List.all_eq_true, decide_eq_true_eq] at hpf
        exact (hpf.1 _ hm).1
      have := decodeBits_word cb hpf q c l hm (encodeBits cb qs) l 0 (by omega) hl
      simp only [Nat.pow_zero, Nat.mod_one, Nat.div_one] at this
      have e : encodeBits cb (q :: qs) = bitsLE c l ++ encodeBits cb qs := by
        simp only [encodeBits, List.flatMap_cons, henc]
      rw [e, this, ih (fun q hq => hin q (List.mem_cons_of_mem _ hq))]

theorem decode_encode (freqs : List (Nat × Nat)) (hnd : (freqs.map (·.1)).Nodup) (text : List Nat)
    (hin : ∀ q ∈ text, q ∈ freqs.map (·.1)) :
    decodeBits (huffman freqs) 0 0 (encodeBits (huffman freqs) text) = text :=
  decode_encode_book _ (huffman_prefix_free freqs hnd) text
    (fun q hq => (huffman_symbols freqs).mem_iff.2 (hin q hq))

/-! ### Fibonacci frequencies: the deepest tree, whatever the tie-breaking -/

def fib : Nat → Nat
  | 0 => 0
  | 1 => 1
  | n + 2 => fib n + fib (n + 1)

theorem fib_add_two (n : Nat) : fib (n + 2) = fib n + fib (n + 1) := by simp [fib]

theorem fib_pos (n : Nat) : 0 < fib (n + 1) := by
  induction n with
  | zero => simp [fib]
  | succ n ih => rw [fib_add_two]; omega

/-- the leaves of the symbols `k .. n-1` with their weights -/
def fibLeaves (k n : Nat) : List WTree := initial (fibPairs (n - k) k (fib (k + 1)) (fib (k + 2)))

theorem fibLeaves_nil (n : Nat) : fibLeaves n n = [] := by simp [fibLeaves, fibPairs, initial]

theorem fibLeaves_cons (k n : Nat) (h : k < n) :
    fibLeaves k n = (fib (k + 1), .leaf k) :: fibLeaves (k + 1) n := by
  unfold fibLeaves
  rw [show n - k = (n - (k + 1)) + 1 from by omega]
  simp only [fibPairs, initial, List.map_cons, fib_add_two (k + 1)]

theorem fibPairs_bounds (m s a b : Nat) (hab : a ≤ b) : ∀ p ∈ fibPairs m s a b, a ≤ p.2 ∧ s ≤ p.1 := by
  induction m generalizing s a b with
  | zero => intro p hp; simp [fibPairs] at hp
  | succ m ih =>
    intro p hp
    simp only [fibPairs, List.mem_cons] at hp
    rcases hp with rfl | hp
    · exact ⟨Nat.le_refl _, Nat.le_refl _⟩
    · have := ih (s + 1) b (a + b) (by omega) p hp; omega

theorem fibPairs_length (m s a b : Nat) : (fibPairs m s a b).length = m := by
  induction m generalizing s a b with
  | zero => rfl
  | succ m ih => simp [fibPairs, ih]

theorem fibLeaves_bounds (k n : Nat) : ∀ c ∈ fibLeaves k n, fib (k + 1) ≤ c.1 := by
  intro c hc
  simp only [fibLeaves, initial, List.mem_map] at hc
  obtain ⟨p, hp, rfl⟩ := hc
  exact (fibPairs_bounds _ _ _ _ (by rw [fib_add_two]; omega) p hp).1

theorem pick_second {b Z : WTree} {rest O : List WTree} (hp : (b :: rest).Perm (Z :: O))
    (hmin : ∀ c ∈ rest, b.1 ≤ c.1) (hO : ∀ c ∈ O, Z.1 < c.1) : b = Z ∧ rest.Perm O := by
  have hZ : Z ∈ b :: rest := hp.symm.subset (List.mem_cons_self ..)
  have hb : b ∈ Z :: O := hp.subset (List.mem_cons_self ..)
  have : b = Z := by
    rcases List.mem_cons.1 hb with h | h
    · exact h
    · rcases List.mem_cons.1 hZ with h' | h'
      · exact h'.symm
      · have := hmin Z h'; have := hO b h; omega
  subst this; exact ⟨rfl, hp.cons_inv⟩

/-- from the forest "one tree of height `k - 1` over the symbols `< k`, weight `fib (k+2) - 1`, and
    the leaves `k .. n-1`" EVERY outcome has height `n - 1`: the two minimal nodes are always that
    tree and the leaf `k` -/
theorem fib_outcome (n : Nat) {q : List WTree} {t : HTree} (h : Outcome q t) :
    ∀ k T, 1 ≤ k → k ≤ n → q.Perm ((fib (k + 2) - 1, T) :: fibLeaves k n) → height T = k - 1 →
      height t = n - 1 := by
  induction h with
  | done a =>
    intro k T hk hkn hp hT
    have hlen := hp.length_eq
    have : k = n := by
      rcases Nat.lt_or_ge k n with h | h
      · rw [fibLeaves_cons k n h] at hlen; simp at hlen
      · omega
    subst this
    rw [fibLeaves_nil] at hp
    have := List.singleton_perm.1 hp
    simp only [List.cons.injEq, and_true] at this
    rw [this]; exact hT
  | merge q rest q' a b t hq ha hb hq' ho ih =>
    intro k T hk hkn hp hT
    have hlt : k < n := by
      rcases Nat.lt_or_ge k n with h | h
      · exact h
      · have : k = n := by omega
        subst this
        rw [fibLeaves_nil] at hp
        have := (hq.symm.trans hp).length_eq
        simp at this
    rw [fibLeaves_cons k n hlt] at hp
    have hO : ∀ c ∈ fibLeaves (k + 1) n, fib (k + 2) ≤ c.1 := fibLeaves_bounds (k + 1) n
    have f1 : 0 < fib (k + 2) := fib_pos _
    have f2 : fib (k + 1) < fib (k + 2) := by
      have := fib_pos (k - 1)
      rw [show k - 1 + 1 = k from by omega] at this
      rw [fib_add_two]; omega
    have f3 : fib (k + 1 + 2) = fib (k + 1) + fib (k + 2) := fib_add_two (k + 1)
    have haq : a ∈ q := hq.symm.subset (List.mem_cons_self ..)
    have haX := ha _ (hp.symm.subset (List.mem_cons_self ..))
    simp only at haX
    rcases List.mem_cons.1 (hp.subset haq) with hax | h
    · subst hax
      have h2 : (b :: rest).Perm ((fib (k + 1), .leaf k) :: fibLeaves (k + 1) n) :=
        (hq.symm.trans hp).cons_inv
      obtain ⟨hbY, hrest⟩ := pick_second h2 hb (fun c hc => by have := hO c hc; simp only; omega)
      subst hbY
      refine ih (k + 1) (.node T (.leaf k)) (by omega) (by omega) ?_ ?_
      · refine hq'.trans ?_
        have : fib (k + 2) - 1 + fib (k + 1) = fib (k + 1 + 2) - 1 := by omega
        simp only []
        rw [this]; exact List.Perm.cons _ hrest
      · simp only [height]; omega
    · rcases List.mem_cons.1 h with hay | h
      · subst hay
        have h2 : (b :: rest).Perm ((fib (k + 2) - 1, T) :: fibLeaves (k + 1) n) :=
          (hq.symm.trans (hp.trans (List.Perm.swap _ _ _))).cons_inv
        obtain ⟨hbX, hrest⟩ := pick_second h2 hb (fun c hc => by have := hO c hc; simp only; omega)
        subst hbX
        refine ih (k + 1) (.node (.leaf k) T) (by omega) (by omega) ?_ ?_
        · refine hq'.trans ?_
          have : fib (k + 1) + (fib (k + 2) - 1) = fib (k + 1 + 2) - 1 := by omega
          simp only []
          rw [this]; exact List.Perm.cons _ hrest
        · simp only [height]; omega
      · exfalso; have := hO a h; omega

theorem initial_fibTable (n : Nat) (h : 1 ≤ n) :
    initial (fibTable n) = (fib (1 + 2) - 1, .leaf 0) :: fibLeaves 1 n := by
  unfold fibTable fibLeaves
  rw [show n = (n - 1) + 1 from by omega]
  simp [fibPairs, initial, fib]

theorem fib_outcome_height (n : Nat) (hn : 1 ≤ n) (t : HTree) (h : Outcome (initial (fibTable n)) t) :
    height t = n - 1 :=
  fib_outcome n h 1 (.leaf 0) (Nat.le_refl _) hn (by rw [initial_fibTable n hn]) rfl

theorem depths_max (t : HTree) (d : Nat) : ∃ p ∈ depths t d, p.1 = d + height t := by
  induction t generalizing d with
  | leaf s => exact ⟨(d, s), by simp [depths], by simp [height]⟩
  | node l r ihl ihr =>
    simp only [depths, height, List.mem_append]
    rcases Nat.le_total (height r) (height l) with h | h
    · obtain ⟨p, hp, e⟩ := ihl (d + 1); exact ⟨p, Or.inl hp, by omega⟩
    · obtain ⟨p, hp, e⟩ := ihr (d + 1); exact ⟨p, Or.inr hp, by omega⟩

theorem codeBook_has_height (l r : HTree) : ∃ en ∈ codeBook (.node l r), en.2.2 = height (.node l r) := by
  obtain ⟨p, hp, e⟩ := depths_max (.node l r) 0
  have h1 : p.1 ∈ (sortBy lePair (symbolsOf (.node l r))).map (·.1) :=
    List.mem_map.2 ⟨p, (sortBy_perm _ _).mem_iff.2 hp, rfl⟩
  rw [← rawBook_lens] at h1
  obtain ⟨en, hen, hl⟩ := List.mem_map.1 h1
  exact ⟨en, (codeBook_perm _).mem_iff.2 hen, by rw [hl, e]; omega⟩

/-- EVERY outcome of the construction on the Fibonacci table of `n ≥ 2` symbols has a code word of
    length `n - 1` -/
theorem outcome_fibonacci_depth (n : Nat) (hn : 2 ≤ n) (t : HTree) (h : Outcome (initial (fibTable n)) t) :
    ∃ en ∈ codeBook t, en.2.2 = n - 1 := by
  have hh := fib_outcome_height n (by omega) t h
  cases t with
  | leaf s => simp [height] at hh; omega
  | node l r => rw [← hh]; exact codeBook_has_height l r

theorem huffman_fibonacci_depth (n : Nat) (hn : 2 ≤ n) : ∃ en ∈ huffman (fibTable n), en.2.2 = n - 1 := by
  have hne : fibTable n ≠ [] := by
    intro h; have := fibPairs_length n 0 1 1; unfold fibTable at h; rw [h] at this; simp at this; omega
  obtain ⟨t, ht, _⟩ := buildTree_spec (fibTable n) hne
  have : huffman (fibTable n) = codeBook t := by simp [huffman, ht]
  rw [this]
  exact outcome_fibonacci_depth n hn t (buildTree_outcome _ t ht)

theorem fibTable_syms (n : Nat) : ((fibTable n).map (·.1)).Nodup ∧ (fibTable n).length = n := by
  refine ⟨?_, fibPairs_length _ _ _ _⟩
  unfold fibTable
  suffices ∀ m s a b, a ≤ b → ((fibPairs m s a b).map (·.1)).Nodup from this n 0 1 1 (Nat.le_refl _)
  intro m
  induction m with
  | zero => intro s a b _; simp [fibPairs]
  | succ m ih =>
    intro s a b hab
    simp only [fibPairs, List.map_cons, List.nodup_cons]
    refine ⟨?_, ih _ _ _ (by omega)⟩
    intro hmem
    obtain ⟨p, hp, e⟩ := List.mem_map.1 hmem
    have := (fibPairs_bounds m (s + 1) b (a + b) (by omega) p hp).2
    omega


/-! ### the `BinaryHeap` model: every operation permutes, so the loop delivers a tree over the symbols -/

theorem swapL_perm (l : List WTree) (i j : Nat) : (swapL l i j).Perm l := by
  unfold swapL
  split
  · rename_i h; exact List.set_set_perm h.1 h.2
  · exact List.Perm.refl _

theorem siftUp_perm (f : Nat) (d : List WTree) (start pos : Nat) : (siftUp f d start pos).Perm d := by
  induction f generalizing d pos with
  | zero => exact List.Perm.refl _
  | succ f ih =>
    simp only [siftUp]
    split
    · split
      · split
        · exact List.Perm.refl _
        · exact (ih _ _).trans (swapL_perm _ _ _)
      · exact List.Perm.refl _
    · exact List.Perm.refl _

theorem siftDownBottom_perm (f : Nat) (d : List WTree) (pos : Nat) : (siftDownBottom f d pos).1.Perm d := by
  induction f generalizing d pos with
  | zero => exact List.Perm.refl _
  | succ f ih =>
    simp only [siftDownBottom]
    split
    · split
      · exact (ih _ _).trans (swapL_perm _ _ _)
      · exact List.Perm.refl _
    · split
      · exact swapL_perm _ _ _
      · exact List.Perm.refl _

theorem heapPush_perm (d : List WTree) (x : WTree) : (heapPush d x).Perm (x :: d) :=
  (siftUp_perm _ _ _ _).trans (List.perm_append_comm (l₁ := d) (l₂ := [x]))

theorem heapPop_perm (d : List WTree) (a : WTree) (d' : List WTree) (h : heapPop d = some (a, d')) :
    d.Perm (a :: d') := by
  unfold heapPop at h
  cases hl : d.getLast? with
  | none => rw [hl] at h; simp at h
  | some item =>
    rw [hl] at h
    have hd : d.dropLast ++ [item] = d := by
      obtain ⟨ys, rfl⟩ := List.getLast?_eq_some_iff.1 hl
      rw [List.dropLast_concat]
    cases hdl : d.dropLast with
    | nil =>
      rw [hdl] at h hd
      simp only [Option.some.injEq, Prod.mk.injEq] at h
      obtain ⟨rfl, rfl⟩ := h
      rw [← hd]; exact List.Perm.refl _
    | cons top tl =>
      rw [hdl] at h hd
      simp only [Option.some.injEq, Prod.mk.injEq] at h
      obtain ⟨rfl, rfl⟩ := h
      rw [← hd]
      refine List.Perm.trans ?_ (List.Perm.cons _ ((siftUp_perm _ _ _ _).trans (siftDownBottom_perm _ _ _)).symm)
      exact (List.perm_append_comm (l₁ := top :: tl) (l₂ := [item])).trans (List.Perm.swap _ _ _)

theorem heapPop_some (d : List WTree) (hne : d ≠ []) : ∃ a d', heapPop d = some (a, d') := by
  unfold heapPop
  cases hl : d.getLast? with
  | none => exact absurd (List.getLast?_eq_none_iff.1 hl) hne
  | some item =>
    cases d.dropLast with
    | nil => exact ⟨_, _, rfl⟩
    | cons top tl => exact ⟨_, _, rfl⟩

theorem heapLoop_spec (f : Nat) (q : List WTree) (hne : q ≠ []) (hf : q.length ≤ f + 1) :
    ∃ t, heapLoop f q = some t ∧ (leaves t).Perm (forestLeaves q) := by
  induction f generalizing q with
  | zero =>
    match q, hne, hf with
    | [a], _, _ => exact ⟨a.2, rfl, by simp [forestLeaves]⟩
  | succ f ih =>
    match q, hne, hf with
    | [a], _, _ => exact ⟨a.2, by simp [heapLoop], by simp [forestLeaves]⟩
    | x :: y :: rest, _, hf =>
      obtain ⟨a, d1, h1⟩ := heapPop_some (x :: y :: rest) (by simp)
      have p1 := heapPop_perm _ _ _ h1
      have l1 := p1.length_eq
      have hd1 : d1 ≠ [] := by intro h; subst h; simp at l1
      obtain ⟨b, d2, h2⟩ := heapPop_some d1 hd1
      have p2 := heapPop_perm _ _ _ h2
      have l2 := p2.length_eq
      have pp := heapPush_perm d2 (a.1 + b.1, HTree.node a.2 b.2)
      have lp := pp.length_eq
      simp only [List.length_cons] at l1 l2 lp hf
      obtain ⟨t, ht, hp⟩ := ih (heapPush d2 (a.1 + b.1, HTree.node a.2 b.2))
        (by intro h; rw [h] at lp; simp at lp) (by omega)
      refine ⟨t, by simp only [heapLoop, h1, h2]; exact ht, hp.trans ?_⟩
      refine (forestLeaves_perm pp).trans ?_
      refine List.Perm.trans ?_ (forestLeaves_perm (p1.trans (List.Perm.cons _ p2))).symm
      simp [forestLeaves, leaves]

theorem foldl_heapPush_perm (l acc : List WTree) : (l.foldl heapPush acc).Perm (acc ++ l) := by
  induction l generalizing acc with
  | nil => simp
  | cons x xs ih =>
    simp only [List.foldl_cons]
    refine (ih _).trans ?_
    refine ((heapPush_perm acc x).append_right xs).trans ?_
    simpa using (List.perm_middle (a := x) (l₁ := acc) (l₂ := xs)).symm

theorem heapTree_spec (freqs : List (Nat × Nat)) (hne : freqs ≠ []) :
    ∃ t, heapTree freqs = some t ∧ (leaves t).Perm (freqs.map (·.1)) := by
  have hp : ((initial freqs).foldl heapPush []).Perm (initial freqs) := by
    simpa using foldl_heapPush_perm (initial freqs) []
  have hlen : ((initial freqs).foldl heapPush []).length = freqs.length := by
    rw [hp.length_eq]; simp [initial]
  have hne' : (initial freqs).foldl heapPush [] ≠ [] := by
    intro h; rw [h] at hlen
    cases freqs with
    | nil => exact hne rfl
    | cons _ _ => simp at hlen
  obtain ⟨t, ht, hpt⟩ := heapLoop_spec freqs.length _ hne' (by omega)
  refine ⟨t, ht, hpt.trans ?_⟩
  rw [← forestLeaves_initial]
  exact forestLeaves_perm hp

theorem huffmanHeap_eq (freqs : List (Nat × Nat)) (hne : freqs ≠ []) :
    ∃ t, huffmanHeap freqs = codeBook t ∧ (leaves t).Perm (freqs.map (·.1)) := by
  obtain ⟨t, ht, hp⟩ := heapTree_spec freqs hne
  exact ⟨t, by simp [huffmanHeap, ht], hp⟩

/-- the code book with the `BinaryHeap`'s tie-breaking: symbols, prefix freedom, Kraft equality,
    depth bound -/
theorem huffmanHeap_code_book (freqs : List (Nat × Nat)) (hnd : (freqs.map (·.1)).Nodup) :
    ((huffmanHeap freqs).map (·.1)).Perm (freqs.map (·.1))
    ∧ prefixFreeB (huffmanHeap freqs) = true
    ∧ (2 ≤ freqs.length → ∀ L, freqs.length ≤ L + 1 → kraftSum L (huffmanHeap freqs) = 2 ^ L)
    ∧ (∀ en ∈ huffmanHeap freqs, 1 ≤ en.2.2 ∧ en.2.2 ≤ max 1 (freqs.length - 1)) := by
  cases hf : freqs with
  | nil => exact ⟨List.Perm.refl _, rfl, fun h => by simp at h, fun en hen => by simp [huffmanHeap, heapTree, initial, heapLoop] at hen⟩
  | cons p ps =>
    subst hf
    obtain ⟨t, ht, hp⟩ := huffmanHeap_eq (p :: ps) (by simp)
    rw [ht]; simpa using tree_code_book t _ hp hnd

theorem wavelet_tree_over_huffmanHeap (freqs : List (Nat × Nat)) (hnd : (freqs.map (·.1)).Nodup) (text : List Nat)
    (hin : ∀ q ∈ text, q ∈ freqs.map (·.1)) :
    ∃ w, Blue.Wavelet.construct (huffmanHeap freqs) text = some w ∧ Blue.Wavelet.len w = text.length
      ∧ (∀ x, Blue.Wavelet.access w x = Blue.WaveletRef.access text x)
      ∧ (∀ q, q ∈ text → ∀ x, Blue.Wavelet.rankQ w q x = Blue.WaveletRef.rankQ text q x
          ∧ Blue.Wavelet.selectQ w q x = Blue.WaveletRef.selectQ text q x) := by
  obtain ⟨hs, hpf, _, _⟩ := huffmanHeap_code_book freqs hnd
  have hib := inBook_of_syms (huffmanHeap freqs) text (fun q hq => hs.mem_iff.2 (hin q hq))
  obtain ⟨w, hw, hl, _⟩ := Blue.Wavelet.construct_ok (huffmanHeap freqs) text hpf hib
  exact ⟨w, hw, hl, fun x => Blue.Wavelet.access_eq _ text hpf hib w hw x,
    fun q hq x => ⟨Blue.Wavelet.rankQ_eq _ text hpf hib w hw q hq x, Blue.Wavelet.selectQ_eq _ text hpf hib w hw q hq x⟩⟩


/-! ### from the text: `E::construct(symbols)` then the tree over the same symbols (prefix.rs:350) -/

theorem mem_dedup (l : List Nat) : ∀ a, a ∈ dedup l ↔ a ∈ l := by
  induction l with
  | nil => intro a; simp [dedup]
  | cons x xs ih =>
    simp only [dedup]
    by_cases h : (dedup xs).contains x = true
    · rw [if_pos h]
      have hx : x ∈ dedup xs := by simpa using h
      intro a
      rw [ih a]
      constructor
      · exact List.mem_cons_of_mem _
      · intro ha
        rcases List.mem_cons.1 ha with rfl | ha
        · exact (ih a).1 hx
        · exact ha
    · rw [if_neg h]; intro a; simp only [List.mem_cons, ih a]

theorem nodup_dedup (l : List Nat) : (dedup l).Nodup := by
  induction l with
  | nil => simp [dedup]
  | cons x xs ih =>
    simp only [dedup]
    by_cases h : (dedup xs).contains x = true
    · rw [if_pos h]; exact ih
    · rw [if_neg h]; exact List.nodup_cons.2 ⟨by simpa using h, ih⟩

theorem freqsOf_syms (text : List Nat) :
    ((freqsOf text).map (·.1)).Nodup ∧ ∀ q ∈ text, q ∈ (freqsOf text).map (·.1) := by
  have e : (freqsOf text).map (·.1) = sortBy (fun a b => decide (a ≤ b)) (dedup text) := by
    simp [freqsOf, List.map_map, Function.comp_def]
  rw [e]
  have hp := sortBy_perm (fun a b => decide (a ≤ b)) (dedup text)
  exact ⟨hp.nodup_iff.2 (nodup_dedup text), fun q hq => hp.mem_iff.2 ((mem_dedup text q).2 hq)⟩

/-- no hypothesis left: the encoder is built from the text the tree is built over -/
theorem wavelet_tree_of_text (text : List Nat) :
    ∃ w, Blue.Wavelet.construct (bookOfText text) text = some w ∧ Blue.Wavelet.len w = text.length
      ∧ (∀ x, Blue.Wavelet.access w x = Blue.WaveletRef.access text x)
      ∧ (∀ q, q ∈ text → ∀ x, Blue.Wavelet.rankQ w q x = Blue.WaveletRef.rankQ text q x
          ∧ Blue.Wavelet.selectQ w q x = Blue.WaveletRef.selectQ text q x) :=
  wavelet_tree_over_huffmanHeap (freqsOf text) (freqsOf_syms text).1 text (freqsOf_syms text).2

end Blue.Huffman
