import Blue.Proofs.ConcLog
import Blue.Proofs.LogCut
import Blue.Proofs.LogTrunc
/-! **C02 with concurrent writers**, on top of `Blue.ConcLog` (the composed model of
    `ConcurrentLogBuilder::append`).

    `KeyValueStore::write` (lsmtk/src/kvs/mod.rs): every client builds ONE log batch of all entries
    of its `WriteBatch` (`log_batch.insert` per entry) and calls `log.append(log_batch)` — caller `i`
    of the model, `s.bufs[i]` its buffer.  The write core MERGES the buffers of the callers a leader
    took (`WriteBatch::merge` = `extend_from_slice`: concatenation) into ONE log record, so a record
    on disk holds the entries of several client batches; a crash keeps or loses a RECORD as a whole
    (C12).  "All-or-nothing per client batch" follows from all-or-nothing per record because a
    client's buffer lies wholly inside exactly one record (`client_batch_in_one_record`).

    Entries are opaque here, as in C12: a client batch is its buffer (a byte list); what
    `recover_one` replays (`log_to_builder`: the entries of each delivered record in order) is the
    concatenation of the delivered records, `(delivered P s t).flatten`; decoding buffers into
    entries is the driver's. -/
namespace Blue.ConcWriters
open Blue.Log Blue.ConcLog
open Blue.LogCrash hiding Ev acked

variable {P : Params} {lim : Nat}

/-- number of callers in the leaders' batches before batch `r` (= index of the first caller of
    batch `r` in write-queue link order) -/
def gstart (s : St) (r : Nat) : Nat := (s.groups.take r).flatten.length

/-- buffer `b` lies wholly inside `record` at byte offset `off` -/
abbrev LiesAt (b record : List Nat) (off : Nat) : Prop :=
  (record.drop off).take b.length = b ∧ off + b.length ≤ record.length

/-- what the reopened `LogIterator` delivers from the crash image in which `t` of the bytes written
    since the last successful `fdatasync` survive (`t = 0`: persistence model (b);
    `t ≥ |pending|`: model (a); in between: a torn write) -/
def delivered (P : Params) (s : St) (t : Nat) : List (List Nat) :=
  (readSome P (s.file.synced ++ s.file.pending.take t) ((merged s).length + 1) 0).1

/-- … and whether it ends with an error (`log_to_builder` returns it with `?`: `open` fails) -/
def readerError (P : Params) (s : St) (t : Nat) : Bool :=
  (readSome P (s.file.synced ++ s.file.pending.take t) ((merged s).length + 1) 0).2

/-! ### lists -/

theorem lt_of_getElem?_some {α : Type} {l : List α} {i : Nat} {a : α} (h : l[i]? = some a) : i < l.length := by
  rcases Nat.lt_or_ge i l.length with h1 | h1
  · exact h1
  · rw [List.getElem?_eq_none h1] at h; cases h

theorem take_flatten_len_mono {α : Type} (L : List (List α)) (a b : Nat) (h : a ≤ b) :
    (L.take a).flatten.length ≤ (L.take b).flatten.length := by
  have : L.take b = L.take a ++ (L.take b).drop a := by
    have h1 : (L.take b).take a = L.take a := by rw [List.take_take, Nat.min_eq_left h]
    rw [← h1, List.take_append_drop]
  rw [this, List.flatten_append, List.length_append]
  omega

theorem take_succ_flatten {α : Type} : ∀ (L : List (List α)) (r : Nat) (g : List α), L[r]? = some g →
    (L.take (r + 1)).flatten = (L.take r).flatten ++ g
  | [], r, g, h => by simp at h
  | a :: L, 0, g, h => by
    have : a = g := by simpa using h
    subst this; simp
  | a :: L, r + 1, g, h => by
    have h' : L[r]? = some g := by simpa using h
    have ih := take_succ_flatten L r g h'
    simp only [List.take_succ_cons, List.flatten_cons, ih, List.append_assoc]

theorem flatten_getElem_group {α : Type} : ∀ (L : List (List α)) (r : Nat) (g : List α), L[r]? = some g →
    ∀ p, p < g.length → L.flatten[(L.take r).flatten.length + p]? = g[p]?
  | [], r, g, h => by simp at h
  | a :: L, 0, g, h => by
    intro p hp
    have : a = g := by simpa using h
    subst this
    simp only [List.take_zero, List.flatten_nil, List.length_nil, Nat.zero_add, List.flatten_cons]
    exact List.getElem?_append_left hp
  | a :: L, r + 1, g, h => by
    intro p hp
    have h' : L[r]? = some g := by simpa using h
    have ih := flatten_getElem_group L r g h' p hp
    simp only [List.take_succ_cons, List.flatten_cons, List.length_append]
    rw [List.getElem?_append_right (by omega)]
    have : a.length + (L.take r).flatten.length + p - a.length = (L.take r).flatten.length + p := by omega
    rw [this]; exact ih

theorem group_lies : ∀ (g : List (List Nat)) (p : Nat) (b : List Nat), g[p]? = some b →
    LiesAt b g.flatten (g.take p).flatten.length
  | [], p, b, h => by simp at h
  | a :: g, 0, b, h => by
    have : a = b := by simpa using h
    subst this
    refine ⟨?_, ?_⟩
    · simp
    · simp
  | a :: g, p + 1, b, h => by
    have h' : g[p]? = some b := by simpa using h
    obtain ⟨i1, i2⟩ := group_lies g p b h'
    refine ⟨?_, ?_⟩
    · simp only [List.take_succ_cons, List.flatten_cons, List.length_append]
      rw [List.drop_append]
      have hd : a.drop (a.length + (g.take p).flatten.length) = [] :=
        List.drop_eq_nil_of_le (by omega)
      rw [hd, List.nil_append]
      have : a.length + (g.take p).flatten.length - a.length = (g.take p).flatten.length := by omega
      rw [this]; exact i1
    · simp only [List.take_succ_cons, List.flatten_cons, List.length_append]
      omega

/-! ### where a caller's buffer is -/

theorem gstart_mono (s : St) (a b : Nat) (h : a ≤ b) : gstart s a ≤ gstart s b :=
  take_flatten_len_mono s.groups a b h

theorem gstart_succ (s : St) (r : Nat) (grp : List (List Nat)) (h : s.groups[r]? = some grp) :
    gstart s (r + 1) = gstart s r + grp.length := by
  unfold gstart
  rw [take_succ_flatten s.groups r grp h, List.length_append]

/-- the callers a leader took are consecutive in link order: caller `i`, answered with round
    `w.round`, is among the callers `gstart … w.round` onwards of that leader's batch -/
structure InvD (s : St) : Prop where
  pos : ∀ (i : Nat) (w : WRet), s.wrets[i]? = some w →
    ∃ grp, s.groups[w.round]? = some grp ∧ gstart s w.round ≤ i ∧ i < gstart s w.round + grp.length

theorem invD_init : InvD init := ⟨by intro i w h; simp [init] at h⟩

theorem invD_step (s : St) (e : Ev) (hA : InvA P lim s) (h : InvD s) : InvD (step P lim s e) := by
  cases e with
  | link buf =>
    simp only [step, stepLink]
    split
    · exact h
    · exact ⟨h.pos⟩
  | write n =>
    simp only [step, stepWrite]
    split
    · exact h
    · rename_i hc
      have hk : s.wrets.length + n ≤ s.bufs.length := by
        rcases Nat.lt_or_ge s.bufs.length (s.wrets.length + n) with h1 | h1
        · exact absurd (Or.inr (Or.inl h1)) hc
        · exact h1
      generalize hg : (s.bufs.drop s.wrets.length).take n = g
      have hglen : g.length = n := by
        rw [← hg, List.length_take, List.length_drop]; omega
      have htot : s.groups.flatten.length = s.wrets.length := by
        rw [hA.grp, List.length_take]; have := hA.wlen; omega
      refine ⟨?_⟩
      intro i w hw
      have hw' : (s.wrets ++ List.replicate n (⟨s.groups.length, s.written + g.flatten.length⟩ : WRet))[i]? = some w := hw
      show ∃ grp, (s.groups ++ [g])[w.round]? = some grp
        ∧ ((s.groups ++ [g]).take w.round).flatten.length ≤ i
        ∧ i < ((s.groups ++ [g]).take w.round).flatten.length + grp.length
      rcases Nat.lt_or_ge i s.wrets.length with hi | hi
      · rw [List.getElem?_append_left hi] at hw'
        obtain ⟨grp, h1, h2, h3⟩ := h.pos i w hw'
        have hr : w.round < s.groups.length := lt_of_getElem?_some h1
        refine ⟨grp, getElem?_append_some h1, ?_, ?_⟩
        · rw [List.take_append_of_le_length (by omega)]; exact h2
        · rw [List.take_append_of_le_length (by omega)]; exact h3
      · rw [List.getElem?_append_right hi, List.getElem?_replicate] at hw'
        split at hw'
        · rename_i hj
          cases hw'
          refine ⟨g, by simp, ?_, ?_⟩
          · show ((s.groups ++ [g]).take s.groups.length).flatten.length ≤ i
            rw [List.take_append_of_le_length (Nat.le_refl _), List.take_length, htot]; exact hi
          · show i < ((s.groups ++ [g]).take s.groups.length).flatten.length + g.length
            rw [List.take_append_of_le_length (Nat.le_refl _), List.take_length, htot, hglen]; omega
        · cases hw'
  | flink i =>
    simp only [step, stepFlink]
    split
    · exact h
    · split
      · exact h
      · exact ⟨h.pos⟩
  | fenter n =>
    simp only [step, stepFenter]
    split
    · exact h
    · split
      · exact ⟨h.pos⟩
      · split
        · exact ⟨h.pos⟩
        · exact h
  | fret ok =>
    simp only [step, stepFret]
    split
    · exact h
    · exact ⟨h.pos⟩

theorem invAD_run (evs : List Ev) : InvA P lim (run P lim evs) ∧ InvD (run P lim evs) :=
  run_induction (motive := fun s => InvA P lim s ∧ InvD s) ⟨invA_init, invD_init⟩
    (fun s e h => ⟨invA_step s e h.1, invD_step s e h.1 h.2⟩) evs

/-- what `InvA` and `InvD` give for one caller handed to the write core -/
theorem caller_in_record {s : St} (hA : InvA P lim s) (hD : InvD s) (i : Nat) (w : WRet) (hw : s.wrets[i]? = some w) :
    ∃ (grp : List (List Nat)) (b : List Nat),
      s.groups[w.round]? = some grp ∧ s.bufs[i]? = some b ∧ (merged s)[w.round]? = some grp.flatten
      ∧ gstart s w.round ≤ i ∧ i < gstart s (w.round + 1)
      ∧ grp[i - gstart s w.round]? = some b
      ∧ LiesAt b grp.flatten (grp.take (i - gstart s w.round)).flatten.length
      ∧ ∀ r', gstart s r' ≤ i → i < gstart s (r' + 1) → r' = w.round := by
  obtain ⟨grp, h1, h2, h3⟩ := hD.pos i w hw
  have hi : i < s.wrets.length := lt_of_getElem?_some hw
  have hib : i < s.bufs.length := Nat.lt_of_lt_of_le hi hA.wlen
  have hsucc := gstart_succ s w.round grp h1
  have hgb : grp[i - gstart s w.round]? = some s.bufs[i] := by
    have hp : i - gstart s w.round < grp.length := by omega
    have := flatten_getElem_group s.groups w.round grp h1 (i - gstart s w.round) hp
    rw [← this]
    have hidx : (s.groups.take w.round).flatten.length + (i - gstart s w.round) = i := by
      show gstart s w.round + (i - gstart s w.round) = i; omega
    rw [hidx, hA.grp, List.getElem?_take, if_pos hi]
    exact List.getElem?_eq_getElem hib
  refine ⟨grp, s.bufs[i], h1, List.getElem?_eq_getElem hib, ?_, h2, by omega, hgb, group_lies grp _ _ hgb, ?_⟩
  · simp [merged, h1]
  · intro r' a1 a2
    rcases Nat.lt_trichotomy r' w.round with hlt | heq | hgt
    · have := gstart_mono s (r' + 1) w.round (by omega); omega
    · exact heq
    · have := gstart_mono s (w.round + 1) r' (by omega); omega

/-- **(1) a client batch lies wholly inside exactly one log record.**  In every run, for every
    caller `i` the write core has answered (`w`): the leader's batch `groups[w.round]` holds the
    callers `gstart s w.round, …` in link order, caller `i` is member number `i - gstart s w.round`
    of it, the log record `merged[w.round]` is the concatenation of the members' buffers, and the
    caller's buffer lies in it wholly, at the byte offset that is the total length of the members
    before it; no other record holds caller `i` (the batches partition the callers: `r'` with
    `gstart r' ≤ i < gstart (r'+1)` is `w.round`) -/
theorem client_batch_in_one_record (evs : List Ev) (i : Nat) (w : WRet)
    (hw : (run P lim evs).wrets[i]? = some w) :
    let s := run P lim evs
    ∃ (grp : List (List Nat)) (b : List Nat),
      s.groups[w.round]? = some grp ∧ s.bufs[i]? = some b ∧ (merged s)[w.round]? = some grp.flatten
      ∧ gstart s w.round ≤ i ∧ i < gstart s (w.round + 1)
      ∧ grp[i - gstart s w.round]? = some b
      ∧ LiesAt b grp.flatten (grp.take (i - gstart s w.round)).flatten.length
      ∧ ∀ r', gstart s r' ≤ i → i < gstart s (r' + 1) → r' = w.round := by
  intro s
  obtain ⟨hA, hD⟩ : InvA P lim s ∧ InvD s := invAD_run evs
  exact caller_in_record hA hD i w hw

/-! ### what a crash leaves -/

/-- the crash image delivers exactly the first `j` records -/
theorem delivered_is_take (g : Good P) (hlim : lim ≤ P.tableFull) (evs : List Ev) (t : Nat) :
    ∃ j, j ≤ (run P lim evs).groups.length ∧ delivered P (run P lim evs) t = (merged (run P lim evs)).take j := by
  generalize hs : run P lim evs = s
  have hA : InvA P lim s := by rw [← hs]; exact invA_run evs
  have hsurv : s.file.synced ++ s.file.pending.take t
      = (writeAll P (merged s) 0).take (s.file.synced.length + t) := by
    rw [← hA.file, List.take_length_add_append]
  obtain ⟨j, _, j2, j3⟩ := cut_delivers_exactly g (merged s) 0 (s.file.synced.length + t)
    (fun m hm => Nat.le_trans (hA.sz m hm).2 hlim) (by simp [writeAll])
  refine ⟨j, by rw [← merged_length]; exact j2, ?_⟩
  unfold delivered
  rw [hsurv]; exact j3

/-- the first `j` leaders' batches are the first `gstart s j` callers -/
theorem prefix_callers {s : St} (hA : InvA P lim s) (j : Nat) :
    (s.groups.take j).flatten = s.bufs.take (gstart s j) ∧ gstart s j ≤ s.wrets.length := by
  have hsplit : s.groups.flatten = (s.groups.take j).flatten ++ (s.groups.drop j).flatten := by
    rw [← List.flatten_append, List.take_append_drop]
  have htot : s.groups.flatten.length = s.wrets.length := by
    rw [hA.grp, List.length_take]; have := hA.wlen; omega
  have hle : gstart s j ≤ s.wrets.length := by
    rw [← htot, hsplit, List.length_append]; unfold gstart; omega
  refine ⟨?_, hle⟩
  have h1 : (s.groups.take j).flatten = s.groups.flatten.take (gstart s j) := by
    rw [hsplit]; unfold gstart; rw [List.take_left']; rfl
  rw [h1, hA.grp, List.take_take, Nat.min_eq_left hle]

theorem round_lt_iff {s : St} (hA : InvA P lim s) (hD : InvD s) (i : Nat) (w : WRet) (hw : s.wrets[i]? = some w) (j : Nat) :
    w.round < j ↔ i < gstart s j := by
  obtain ⟨grp, b, _, _, _, h4, h5, _⟩ := caller_in_record hA hD i w hw
  constructor
  · intro h
    have := gstart_mono s (w.round + 1) j (by omega); omega
  · intro h
    rcases Nat.lt_or_ge w.round j with h1 | h1
    · exact h1
    · have := gstart_mono s j w.round h1; omega

theorem take_map_flatten (L : List (List (List Nat))) (j : Nat) :
    (L.map List.flatten).take j = (L.take j).map List.flatten := by
  rw [List.map_take]

/-- **(2) acknowledged writes of concurrent writers survive any crash.**  For every run (any number
    of client writers, any coalescing by the two cores, any interleaving, failing `fdatasync`s) and
    every crash image (`t` of the pending bytes survive: both persistence models and every torn
    write in between) there is `j` such that the reopened iterator delivers exactly the first `j`
    link-order merged records; these are the buffers of exactly the first `gstart s j` callers of
    the write queue's link order, each whole (what `recover_one` replays — the entries of each
    delivered record in order — is the concatenation of the buffers of the callers
    `0 … gstart s j - 1`, nothing else); and every ACKNOWLEDGED caller is among them: its record
    `w.round < j` is delivered, and holds its buffer wholly at the stated offset -/
theorem concurrent_acked_writes_survive_crash (g : Good P) (hlim : lim ≤ P.tableFull) (evs : List Ev) (t : Nat) :
    let s := run P lim evs
    ∃ j, j ≤ s.groups.length
      ∧ delivered P s t = (merged s).take j
      ∧ delivered P s t = (s.groups.take j).map List.flatten
      ∧ (s.groups.take j).flatten = s.bufs.take (gstart s j)
      ∧ gstart s j ≤ s.wrets.length
      ∧ (delivered P s t).flatten = (s.bufs.take (gstart s j)).flatten
      ∧ ∀ i, acked s i = true →
          i < gstart s j
          ∧ ∃ (w : WRet) (grp : List (List Nat)) (b : List Nat),
              s.wrets[i]? = some w ∧ w.round < j ∧ s.groups[w.round]? = some grp ∧ s.bufs[i]? = some b
              ∧ (delivered P s t)[w.round]? = some grp.flatten
              ∧ LiesAt b grp.flatten (grp.take (i - gstart s w.round)).flatten.length := by
  intro s
  obtain ⟨hA, hD⟩ : InvA P lim s ∧ InvD s := invAD_run evs
  obtain ⟨j, j1, j2⟩ : ∃ j, j ≤ s.groups.length ∧ delivered P s t = (merged s).take j :=
    delivered_is_take g hlim evs t
  obtain ⟨p1, p2⟩ := prefix_callers hA j
  have j2' : delivered P s t = (s.groups.take j).map List.flatten := by
    rw [j2]; exact take_map_flatten _ _
  refine ⟨j, j1, j2, j2', p1, p2, ?_, ?_⟩
  · rw [j2', map_flatten_flatten, p1]
  · intro i hack
    obtain ⟨w, _, _, ji, w1', _, _, _, _, w6, w7', w8'⟩ := conc_log_ack_is_durable g hlim evs i hack t
    have w1 : s.wrets[i]? = some w := w1'
    have w7 : ji ≤ (merged s).length := w7'
    have w8 : delivered P s t = (merged s).take ji := w8'
    have hjj : ji = j := by
      have h1 : (merged s).take ji = (merged s).take j := by rw [← w8]; exact j2
      have h2 := congrArg List.length h1
      rw [List.length_take, List.length_take, merged_length] at h2
      have : ji ≤ s.groups.length := by rw [← merged_length]; exact w7
      omega
    have hr : w.round < j := by omega
    obtain ⟨grp, b, c1, c2, c3, _, _, _, c7, _⟩ := caller_in_record hA hD i w w1
    refine ⟨(round_lt_iff hA hD i w w1 j).1 hr, w, grp, b, w1, hr, c1, c2, ?_, c7⟩
    rw [j2, List.getElem?_take, if_pos hr]; exact c3

/-- **all-or-nothing per client batch**, acknowledged or not: with the same `j`, every caller `i`
    that entered the write queue is either among the first `gstart s j` — then the record holding
    its buffer is delivered and the buffer lies in it WHOLLY — or not — then the record that holds
    (or would hold) it is not delivered at all: NOTHING of the caller is replayed.  (A caller the
    write core has not yet taken has nothing in the file: `gstart s j ≤ s.wrets.length ≤ i`.) -/
theorem concurrent_batches_all_or_nothing (g : Good P) (hlim : lim ≤ P.tableFull) (evs : List Ev) (t : Nat) :
    let s := run P lim evs
    ∃ j, delivered P s t = (merged s).take j ∧ j ≤ s.groups.length
      ∧ (delivered P s t).flatten = (s.bufs.take (gstart s j)).flatten
      ∧ ∀ (i : Nat) (b : List Nat), s.bufs[i]? = some b →
        (i < gstart s j ∧ ∃ (w : WRet) (grp : List (List Nat)),
            s.wrets[i]? = some w ∧ w.round < j ∧ (delivered P s t)[w.round]? = some grp.flatten
            ∧ LiesAt b grp.flatten (grp.take (i - gstart s w.round)).flatten.length)
        ∨ (gstart s j ≤ i ∧ ∀ w, s.wrets[i]? = some w → j ≤ w.round ∧ (delivered P s t)[w.round]? = none) := by
  intro s
  obtain ⟨hA, hD⟩ : InvA P lim s ∧ InvD s := invAD_run evs
  obtain ⟨j, j1, j2⟩ : ∃ j, j ≤ s.groups.length ∧ delivered P s t = (merged s).take j :=
    delivered_is_take g hlim evs t
  obtain ⟨p1, p2⟩ := prefix_callers hA j
  have j2' : delivered P s t = (s.groups.take j).map List.flatten := by
    rw [j2]; exact take_map_flatten _ _
  refine ⟨j, j2, j1, ?_, ?_⟩
  · rw [j2', map_flatten_flatten, p1]
  · intro i b hb
    rcases Nat.lt_or_ge i (gstart s j) with hi | hi
    · left
      have hiw : i < s.wrets.length := by omega
      have hw : s.wrets[i]? = some s.wrets[i] := List.getElem?_eq_getElem hiw
      obtain ⟨grp, b', _, c2, c3, _, _, _, c7, _⟩ := caller_in_record hA hD i _ hw
      have hbb : b' = b := by rw [hb] at c2; exact (Option.some.inj c2).symm
      have hr := (round_lt_iff hA hD i _ hw j).2 hi
      refine ⟨hi, s.wrets[i], grp, hw, hr, ?_, by rw [← hbb]; exact c7⟩
      rw [j2, List.getElem?_take, if_pos hr]; exact c3
    · right
      refine ⟨hi, ?_⟩
      intro w hw
      have hr : j ≤ w.round := by
        rcases Nat.lt_or_ge w.round j with h1 | h1
        · have := (round_lt_iff hA hD i w hw j).1 h1; omega
        · exact h1
      refine ⟨hr, ?_⟩
      rw [j2]
      apply List.getElem?_eq_none
      rw [List.length_take]; omega

/-- **nothing no client wrote**: every delivered record is the concatenation of the buffers of one
    leader's batch, and every one of those buffers is the buffer some caller linked with -/
theorem no_invented_batches (g : Good P) (hlim : lim ≤ P.tableFull) (evs : List Ev) (t : Nat) :
    let s := run P lim evs
    ∀ record ∈ delivered P s t, ∃ grp ∈ s.groups, record = grp.flatten ∧ ∀ b ∈ grp, b ∈ s.bufs := by
  intro s record hrec
  have hA : InvA P lim s := invA_run evs
  obtain ⟨j, _, j2⟩ : ∃ j, j ≤ s.groups.length ∧ delivered P s t = (merged s).take j :=
    delivered_is_take g hlim evs t
  have hm : record ∈ merged s := by
    have : record ∈ (merged s).take j := by rw [← j2]; exact hrec
    exact List.mem_of_mem_take this
  obtain ⟨grp, hg, hgr⟩ := List.mem_map.1 hm
  refine ⟨grp, hg, hgr.symm, ?_⟩
  intro b hb
  have : b ∈ s.groups.flatten := List.mem_flatten.2 ⟨grp, hg, hb⟩
  rw [hA.grp] at this
  exact List.mem_of_mem_take this

/-- a buffer of the write queue is the argument of a `link` event: a client's `append` -/
theorem bufs_from_link : ∀ (evs : List Ev) (s0 : St) (b : List Nat),
    b ∈ (evs.foldl (step P lim) s0).bufs → b ∈ s0.bufs ∨ Ev.link b ∈ evs := by
  intro evs
  induction evs with
  | nil => intro s0 b h; exact Or.inl h
  | cons e es ih =>
    intro s0 b h
    rcases ih (step P lim s0 e) b h with h1 | h1
    · have hstep : b ∈ s0.bufs ∨ e = .link b := by
        cases e with
        | link buf =>
          simp only [step, stepLink] at h1
          split at h1
          · exact Or.inl h1
          · have h1' : b ∈ s0.bufs ++ [buf] := h1
            rcases List.mem_append.1 h1' with h2 | h2
            · exact Or.inl h2
            · simp at h2; subst h2; exact Or.inr rfl
        | write n => simp only [step, stepWrite] at h1; split at h1 <;> exact Or.inl h1
        | flink i =>
          simp only [step, stepFlink] at h1
          split at h1
          · exact Or.inl h1
          · split at h1 <;> exact Or.inl h1
        | fenter n =>
          simp only [step, stepFenter] at h1
          split at h1
          · exact Or.inl h1
          · split at h1
            · exact Or.inl h1
            · split at h1 <;> exact Or.inl h1
        | fret ok => simp only [step, stepFret] at h1; split at h1 <;> exact Or.inl h1
      rcases hstep with h2 | h2
      · exact Or.inl h2
      · subst h2; exact Or.inr List.mem_cons_self
    · exact Or.inr (List.mem_cons_of_mem _ h1)

theorem delivered_buffers_are_clients (g : Good P) (hlim : lim ≤ P.tableFull) (evs : List Ev) (t : Nat) :
    ∀ record ∈ delivered P (run P lim evs) t, ∃ grp : List (List Nat), record = grp.flatten ∧ ∀ b ∈ grp, Ev.link b ∈ evs := by
  intro record hrec
  obtain ⟨grp, _, h2, h3⟩ := no_invented_batches g hlim evs t record hrec
  refine ⟨grp, h2, ?_⟩
  intro b hb
  rcases bufs_from_link evs init b (h3 b hb) with h | h
  · simp [init] at h
  · exact h

/-! ### a writer whose `fdatasync` failed -/

theorem answered_has_wret {s : St} (hB : InvB P s) (hC : InvC s) (i : Nat) (a : Bool) (h : (i, a) ∈ s.answers) :
    ∃ w, s.wrets[i]? = some w := by
  have h1 : i ∈ s.answers.map Prod.fst ++ s.fmem.map Prod.fst :=
    List.mem_append_left _ (List.mem_map.2 ⟨(i, a), h, rfl⟩)
  rw [hC.part] at h1
  obtain ⟨e, he, hei⟩ := List.mem_map.1 h1
  obtain ⟨w, w1, _⟩ := hB.fqw e (List.mem_of_mem_take he)
  exact ⟨w, by rw [← hei]; exact w1⟩

/-- **(3) a writer whose covering `fdatasync` failed is not acknowledged, yet its record may
    survive**: caller `i` was answered `Err(corruption_fsync_failed)`.  It is not acknowledged (and
    never will be: `conc_log_answered_once`, `conc_log_answer_persists`); its buffer was written — it
    lies wholly in record `w.round` of the file; if all written bytes survive (model (a):
    `t ≥ |pending|`) the reopened iterator delivers every record, this one included; and at EVERY
    crash image the record is delivered whole or not at all.  (That it need not be delivered — model
    (b) right after the failure — and that it is in model (a): closed run in Props/C02.) -/
theorem failed_sync_writer_not_acked_but_may_survive (g : Good P) (hlim : lim ≤ P.tableFull) (evs : List Ev) (i : Nat)
    (hf : failed (run P lim evs) i = true) :
    let s := run P lim evs
    acked s i = false
    ∧ ∃ (w : WRet) (grp : List (List Nat)) (b : List Nat),
        s.wrets[i]? = some w ∧ s.groups[w.round]? = some grp ∧ s.bufs[i]? = some b
        ∧ (merged s)[w.round]? = some grp.flatten
        ∧ LiesAt b grp.flatten (grp.take (i - gstart s w.round)).flatten.length
        ∧ (∀ t, s.file.pending.length ≤ t →
            delivered P s t = merged s ∧ readerError P s t = false
            ∧ (delivered P s t)[w.round]? = some grp.flatten)
        ∧ (∀ t, (delivered P s t)[w.round]? = some grp.flatten ∨ (delivered P s t)[w.round]? = none) := by
  intro s
  obtain ⟨hA, hD⟩ : InvA P lim s ∧ InvD s := invAD_run evs
  have hB : InvB P s := (invAB_run evs).2
  have hC : InvC s := invC_run evs
  have hmem : (i, false) ∈ s.answers := by simpa [failed] using hf
  refine ⟨(conc_log_failed_sync_not_acked (P := P) (lim := lim) evs).2.1 i hf, ?_⟩
  obtain ⟨w, hw⟩ := answered_has_wret hB hC i false hmem
  obtain ⟨grp, b, c1, c2, c3, _, _, _, c7, _⟩ := caller_in_record hA hD i w hw
  refine ⟨w, grp, b, hw, c1, c2, c3, c7, ?_, ?_⟩
  · intro t ht
    have hall := (conc_log_file_is_sequential g hlim evs).2.2.2
    have hrs := readSome_of_readAll _ _ _ _ hall
    have hfile : s.file.synced ++ s.file.pending.take t = crashA s.file := by
      rw [List.take_of_length_le ht]; rfl
    have hd : delivered P s t = merged s := by
      unfold delivered; rw [hfile]; exact congrArg Prod.fst hrs
    refine ⟨hd, ?_, by rw [hd]; exact c3⟩
    unfold readerError; rw [hfile]; exact congrArg Prod.snd hrs
  · intro t
    obtain ⟨j, _, j2⟩ : ∃ j, j ≤ s.groups.length ∧ delivered P s t = (merged s).take j :=
      delivered_is_take g hlim evs t
    rcases Nat.lt_or_ge w.round j with h1 | h1
    · left; rw [j2, List.getElem?_take, if_pos h1]; exact c3
    · right; rw [j2]; apply List.getElem?_eq_none; rw [List.length_take]; omega

/-! ### (4) the crash images are crash images of a SEQUENTIAL history -/

/-- what is durable ends at a record boundary: an `fdatasync` covers the file as it was when the
    call was issued, and the write core writes a record with one `write` -/
structure InvE (P : Params) (s : St) : Prop where
  bnd : ∃ k, k ≤ (merged s).length ∧ s.file.synced.length = (writeAll P ((merged s).take k) 0).length

theorem invE_init : InvE P init := ⟨⟨0, by simp [init, merged], by simp [init, merged, writeAll]⟩⟩

theorem invE_step (s : St) (e : Ev) (hB : InvB P s) (h : InvE P s) : InvE P (step P lim s e) := by
  cases e with
  | link buf =>
    simp only [step, stepLink]
    split
    · exact h
    · exact ⟨h.bnd⟩
  | write n =>
    simp only [step, stepWrite]
    split
    · exact h
    · generalize (s.bufs.drop s.wrets.length).take n = g
      obtain ⟨k, k1, k2⟩ := h.bnd
      have k1' : k ≤ (s.groups.map List.flatten).length := k1
      refine ⟨⟨k, ?_, ?_⟩⟩
      · show k ≤ ((s.groups ++ [g]).map List.flatten).length
        rw [List.map_append, List.length_append]; omega
      · show s.file.synced.length = (writeAll P (((s.groups ++ [g]).map List.flatten).take k) 0).length
        rw [List.map_append, List.take_append_of_le_length k1']; exact k2
  | flink i =>
    simp only [step, stepFlink]
    split
    · exact h
    · split
      · exact h
      · exact ⟨h.bnd⟩
  | fenter n =>
    simp only [step, stepFenter]
    split
    · exact h
    · split
      · exact ⟨h.bnd⟩
      · split
        · exact ⟨h.bnd⟩
        · exact h
  | fret ok =>
    simp only [step, stepFret]
    split
    · exact h
    · rename_i a ha
      obtain ⟨f, r1, _, _, _, _, _⟩ := ret_facts s.fs ok a ha
      obtain ⟨_, f2, kf, kf1, _, kf3⟩ := hB.fl f r1
      obtain ⟨k, k1, k2⟩ := h.bnd
      refine ⟨?_⟩
      show ∃ k, k ≤ (merged s).length
        ∧ (if a.ok = true then syncUpto s.file s.fpos else s.file).synced.length
            = (writeAll P ((merged s).take k) 0).length
      cases a.ok with
      | false => exact ⟨k, k1, k2⟩
      | true =>
        rw [if_pos rfl]
        have hs : (syncUpto s.file s.fpos).synced.length
            = s.file.synced.length + min (s.fpos - s.file.synced.length) s.file.pending.length := by
          simp [syncUpto]
        simp only [flen] at f2
        rcases Nat.le_total s.fpos s.file.synced.length with hle | hle
        · exact ⟨k, k1, by rw [hs, ← k2]; omega⟩
        · exact ⟨kf, kf1, by rw [hs, kf3]; omega⟩

theorem invE_run (evs : List Ev) : InvE P (run P lim evs) :=
  (run_induction (motive := fun s => (InvA P lim s ∧ InvB P s) ∧ InvE P s) ⟨⟨invA_init, invB_init⟩, invE_init⟩
    (fun s e h => ⟨⟨invA_step s e h.1.1, invB_step s e h.1.1 h.1.2⟩, invE_step s e h.1.2 h.2⟩) evs).2

/-- the durable part of the file is the whole frames of the first `k` records -/
theorem synced_is_whole_records (evs : List Ev) :
    ∃ k, k ≤ (merged (run P lim evs)).length
      ∧ (run P lim evs).file.synced = writeAll P ((merged (run P lim evs)).take k) 0 := by
  generalize hs : run P lim evs = s
  have hA : InvA P lim s := by rw [← hs]; exact invA_run evs
  have hE : InvE P s := by rw [← hs]; exact invE_run evs
  obtain ⟨k, k1, k2⟩ := hE.bnd
  refine ⟨k, k1, ?_⟩
  have hW : writeAll P (merged s) 0 = writeAll P ((merged s).take k) 0
      ++ writeAll P ((merged s).drop k) (0 + (writeAll P ((merged s).take k) 0).length) := by
    rw [← writeAll_append, List.take_append_drop]
  have := hA.file
  rw [hW] at this
  exact (List.append_inj this k2).1

/-- more fuel does not change a drain that ended without an error -/
theorem readSome_fuel_mono (file : List Nat) : ∀ (f off : Nat) (bs : List (List Nat)),
    readSome P file f off = (bs, false) → ∀ f', f ≤ f' → readSome P file f' off = (bs, false) := by
  intro f
  induction f with
  | zero => intro off bs h; simp [readSome] at h
  | succ f ih =>
    intro off bs h f' hf
    cases f' with
    | zero => omega
    | succ f' =>
      rw [readSome_succ] at h ⊢
      cases hb : nextBatch P file 2 off with
      | eof => rw [hb] at h; exact h
      | err => rw [hb] at h; simp at h
      | ok r =>
        obtain ⟨b, off'⟩ := r
        rw [hb] at h
        simp only at h ⊢
        have h1 : (readSome P file f off').2 = false := congrArg Prod.snd h
        have h2 : b :: (readSome P file f off').1 = bs := congrArg Prod.fst h
        have h3 : readSome P file f off' = ((readSome P file f off').1, false) := by rw [← h1]
        rw [ih off' _ h3 f' (by omega)]
        simp only; rw [h2]

/-- the frames of whole records read back, and the reader ends cleanly -/
theorem read_whole_records (g : Good P) (recs : List (List Nat)) (hsz : ∀ b ∈ recs, b.length ≤ P.tableFull)
    (F : Nat) (hF : recs.length + 1 ≤ F) :
    readSome P (writeAll P recs 0) F 0 = (recs, false) := by
  have hr := log_roundtrip_any g recs [] hsz
  simp only [List.nil_append, List.length_nil] at hr
  exact readSome_fuel_mono _ _ _ _ (readSome_of_readAll _ _ _ _ hr) F hF

/-- the file of the SEQUENTIAL writer `write; fdatasync; acknowledge` (`Blue.LogCrash.protocol`,
    the log half of a `put` block of `Blue.StoreCrash`) appending the records `recs` one after the
    other, stopped after `n` of its events -/
def seqRun (P : Params) (recs : List (List Nat)) (n : Nat) : FileSt :=
  ((protocol P recs 0 0).take n).foldl FileSt.apply ⟨[], []⟩

theorem protocol_rounds : ∀ (recs : List (List Nat)) (k pos i : Nat) (st : FileSt),
    st.pending = [] → st.synced.length = pos → k ≤ recs.length →
    (((protocol P recs pos i).take (3 * k)).foldl FileSt.apply st).synced = st.synced ++ writeAll P (recs.take k) pos
    ∧ (((protocol P recs pos i).take (3 * k)).foldl FileSt.apply st).pending = []
    ∧ Blue.LogCrash.acked ((protocol P recs pos i).take (3 * k)) = k := by
  intro recs
  induction recs with
  | nil =>
    intro k pos i st hp _ hk
    have : k = 0 := by simpa using hk
    subst this
    simp [protocol, writeAll, hp, Blue.LogCrash.acked]
  | cons b bs ih =>
    intro k pos i st hp hl hk
    cases k with
    | zero => simp [writeAll, hp, Blue.LogCrash.acked]
    | succ k =>
      have h3 : 3 * (k + 1) = 3 * k + 1 + 1 + 1 := by omega
      have hk' : k ≤ bs.length := by simpa using hk
      obtain ⟨i1, i2, i3⟩ := ih k (pos + (appendAt P 2 pos b).length) (i + 1)
        ⟨st.synced ++ (st.pending ++ appendAt P 2 pos b), []⟩ rfl
        (by simp only [hp, List.nil_append, List.length_append]; omega) hk'
      rw [h3]
      simp only [protocol, List.take_succ_cons, List.foldl_cons, FileSt.apply]
      refine ⟨?_, i2, ?_⟩
      · rw [i1]; simp [hp, writeAll]
      · simp only [Blue.LogCrash.acked, List.filter_cons] at i3 ⊢
        simp only [Bool.false_eq_true, if_false, if_true, List.length_cons]
        omega

theorem seqRun_rounds (recs : List (List Nat)) (k : Nat) (hk : k ≤ recs.length) :
    (seqRun P recs (3 * k)).synced = writeAll P (recs.take k) 0
    ∧ (seqRun P recs (3 * k)).pending = []
    ∧ Blue.LogCrash.acked ((protocol P recs 0 0).take (3 * k)) = k := by
  have := protocol_rounds (P := P) recs k 0 0 ⟨[], []⟩ rfl rfl hk
  simpa [seqRun] using this

/-- **(4) every crash image of a concurrent run is a crash image of a sequential history.**
    Let `recs` be the link-order merged records of the run.  There is `k`:
    * the power-loss image (model (b), `crashB`) of the concurrent run is, BYTE FOR BYTE, the file
      of the sequential writer `write; fdatasync; acknowledge` of `recs` stopped after `k` complete
      rounds (where both persistence models leave the same file, with `k` acknowledgements issued);
    * every acknowledged caller's record is among those `k`;
    * the model (a) image is, byte for byte, the file of that writer after all its rounds;
    * so under both models the reopened iterator delivers `recs.take k` / `recs` and ENDS WITHOUT AN
      ERROR — same file bytes, same recovery: what `open` does with the log is a function of the
      bytes, `crash_recover` (whose `put` block is that protocol, with batch `b` := record `b`)
      speaks about this file;
    * with a torn write in between (`t` of the pending bytes) the DELIVERED RECORDS are those of the
      sequential history stopped after `j ≥ k` complete rounds, but the reader may end with an error
      there (`readerError`; then `log_to_builder` returns it and `open` fails without touching the
      log: the torn tail is an error of the reader in the sequential case too, C12
      `crash_torn_prefix`) -/
theorem concurrent_run_is_some_sequential_history (g : Good P) (hlim : lim ≤ P.tableFull) (evs : List Ev) :
    let s := run P lim evs
    let recs := merged s
    ∃ k, k ≤ recs.length
      ∧ crashB s.file = crashB (seqRun P recs (3 * k))
      ∧ crashB (seqRun P recs (3 * k)) = crashA (seqRun P recs (3 * k))
      ∧ Blue.LogCrash.acked ((protocol P recs 0 0).take (3 * k)) = k
      ∧ (∀ i, acked s i = true → ∃ w, s.wrets[i]? = some w ∧ w.round < k)
      ∧ crashA s.file = crashA (seqRun P recs (3 * recs.length))
      ∧ (delivered P s 0 = recs.take k ∧ readerError P s 0 = false)
      ∧ (∀ t, s.file.pending.length ≤ t → delivered P s t = recs ∧ readerError P s t = false)
      ∧ ∀ t, ∃ j, k ≤ j ∧ j ≤ recs.length ∧ delivered P s t = recs.take j
          ∧ delivered P s t = (readSome P (crashB (seqRun P recs (3 * j))) (recs.length + 1) 0).1 := by
  intro s recs
  have hA : InvA P lim s := invA_run evs
  have hsz : ∀ m ∈ recs, m.length ≤ P.tableFull := fun m hm => Nat.le_trans (hA.sz m hm).2 hlim
  have hszt : ∀ j, ∀ m ∈ recs.take j, m.length ≤ P.tableFull := fun j m hm => hsz m (List.mem_of_mem_take hm)
  obtain ⟨k, k1, k2⟩ : ∃ k, k ≤ recs.length ∧ s.file.synced = writeAll P (recs.take k) 0 :=
    synced_is_whole_records evs
  obtain ⟨q1, q2, q3⟩ := seqRun_rounds (P := P) recs k k1
  obtain ⟨a1, a2, _⟩ := seqRun_rounds (P := P) recs recs.length (Nat.le_refl _)
  have hd0 : delivered P s 0 = recs.take k ∧ readerError P s 0 = false := by
    have hr := read_whole_records g (recs.take k) (hszt k) (recs.length + 1)
      (by rw [List.length_take]; omega)
    unfold delivered readerError
    rw [List.take_zero, List.append_nil, k2]
    exact ⟨congrArg Prod.fst hr, congrArg Prod.snd hr⟩
  have hall : ∀ t, s.file.pending.length ≤ t → delivered P s t = recs ∧ readerError P s t = false := by
    intro t ht
    have hr := read_whole_records g recs hsz (recs.length + 1) (Nat.le_refl _)
    unfold delivered readerError
    rw [List.take_of_length_le ht, hA.file]
    exact ⟨congrArg Prod.fst hr, congrArg Prod.snd hr⟩
  refine ⟨k, k1, ?_, ?_, q3, ?_, ?_, hd0, hall, ?_⟩
  · show s.file.synced = _
    rw [k2]; exact q1.symm
  · show (seqRun P recs (3 * k)).synced = (seqRun P recs (3 * k)).synced ++ (seqRun P recs (3 * k)).pending
    rw [q2, List.append_nil]
  · intro i hack
    obtain ⟨w, _, _, ji, w1, _, _, _, _, w6, w7, w8⟩ := conc_log_ack_is_durable g hlim evs i hack 0
    have w8' : delivered P s 0 = recs.take ji := w8
    have w7' : ji ≤ recs.length := w7
    refine ⟨w, w1, ?_⟩
    have h1 : recs.take ji = recs.take k := by rw [← w8']; exact hd0.1
    have h2 := congrArg List.length h1
    rw [List.length_take, List.length_take] at h2
    omega
  · show s.file.synced ++ s.file.pending = (seqRun P recs (3 * recs.length)).synced ++ (seqRun P recs (3 * recs.length)).pending
    rw [a1, a2, List.append_nil, List.take_length]; exact hA.file
  · intro t
    have hsurv : s.file.synced ++ s.file.pending.take t
        = (writeAll P recs 0).take (s.file.synced.length + t) := by
      rw [← hA.file, List.take_length_add_append]
    obtain ⟨j, j1, j2, j3⟩ := cut_delivers_exactly g recs k (s.file.synced.length + t) hsz
      (by rw [k2]; omega)
    rw [Nat.min_eq_left k1] at j1
    have hd : delivered P s t = recs.take j := by
      unfold delivered; rw [hsurv]; exact j3
    refine ⟨j, j1, j2, hd, ?_⟩
    obtain ⟨b1, _, _⟩ := seqRun_rounds (P := P) recs j j2
    have hr := read_whole_records g (recs.take j) (hszt j) (recs.length + 1)
      (by rw [List.length_take]; omega)
    show _ = (readSome P (seqRun P recs (3 * j)).synced (recs.length + 1) 0).1
    rw [hd, b1, hr]

/-! ### a closed run (the one of Props/C12 `concToyRun`, same parameters as its `toyParams`) -/

def toyP : Params where
  B := 16
  H := 4
  tableFull := 1000
  encH := fun h => [h.size, h.disc, h.crc]
  decH := fun bs => match bs with | [a, b, c] => some ⟨a, b, c⟩ | _ => none
  crc := fun _ => 0

theorem good_toyP : Good toyP where
  hH := by decide
  hB := by decide
  crc_lt := fun _ => by show (0 : Nat) < 4294967296; omega
  tf_lt := by decide
  dec_enc := fun _ _ _ _ => rfl
  enc_len := fun _ _ _ _ => ⟨by show 1 ≤ 3; omega, by show 3 + 1 ≤ 4; omega⟩

/-- three client writers; callers 0 and 1 are coalesced into ONE record `[1,2,3,4,5]` and overtake
    each other between the write queue and the fsync queue; ONE `fdatasync` covers the two; caller
    2's record `[6,7,8,9]` is written while that call is in flight; the call returns successfully
    (event 9: callers 0 and 1 acknowledged); caller 2 then leads its own call, which FAILS -/
def toyRun : List Ev :=
  [.link [1, 2, 3], .link [4, 5], .link [6, 7, 8, 9], .write 2, .flink 1, .flink 0, .fenter 2, .write 1,
   .fret true, .flink 2, .fenter 1, .fret false]

end Blue.ConcWriters

#print axioms Blue.ConcWriters.client_batch_in_one_record
#print axioms Blue.ConcWriters.concurrent_acked_writes_survive_crash
#print axioms Blue.ConcWriters.concurrent_batches_all_or_nothing
#print axioms Blue.ConcWriters.no_invented_batches
#print axioms Blue.ConcWriters.delivered_buffers_are_clients
#print axioms Blue.ConcWriters.failed_sync_writer_not_acked_but_may_survive
#print axioms Blue.ConcWriters.concurrent_run_is_some_sequential_history
