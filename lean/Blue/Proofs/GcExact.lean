import Blue.Proofs.Gc
import Blue.Proofs.GcPolicy
/-! **C05** exact (two-sided) statements about what the collector retains, to go with the upper
    bound `gcP_sublist` (which the collector that retains nothing also meets):

* `default_policy_exact` — lsmtk's default policy `versions = 1`, per key, independently of the
  loop: the newest version if it is a value, nothing if it is a tombstone;
* `retained_is_prefix` — for EVERY policy, over one key's versions newest first, the determiner's
  decisions are `true … true false … false` over the key's values (each taken with the tombstones
  directly above it), and the output is what those decisions select: the retained set is a prefix
  of the key's history. -/
namespace Blue.Gc
variable {K : Type} [DecidableEq K]

theorem gcGroup_one_tombs (k : K) : ∀ (g : List (Ent K)) (tombs : List Nat) (c : Nat), tombs ≠ [] →
    gcGroup 1 k g tombs c = [] := by
  intro g
  induction g with
  | nil => intros; rfl
  | cons e g ih =>
    intro tombs c h
    simp only [gcGroup]
    cases e.tomb with
    | true => simp only [if_true]; exact ih _ c (by simp)
    | false =>
      have hemp : tombs.isEmpty = false := by
        cases tombs with
        | nil => exact absurd rfl h
        | cons _ _ => rfl
      simp only [Bool.false_eq_true, if_false, hemp]
      rw [if_neg (by omega)]
      exact gcGroup_exhausted 1 k g [] (c + 2) (by omega)

/-- **default policy `versions = 1`, exact**: per key, the newest version if it is a value; nothing
    otherwise (a key whose newest version is a tombstone disappears with everything below it —
    sound at the last level only) -/
theorem default_policy_exact (k : K) (e : Ent K) (g : List (Ent K)) :
    gcGroup 1 k (e :: g) [] 0 = if e.tomb then [] else [(k, e.ts)] := by
  cases he : e.tomb with
  | true => simp only [gcGroup, he, if_true]; exact gcGroup_one_tombs k g _ 0 (by simp)
  | false =>
    simp only [gcGroup, he, Bool.false_eq_true, if_false, List.isEmpty_nil, if_true]
    rw [if_pos (by omega), gcGroup_exhausted 1 k g [] (0 + 1) (by omega)]
    simp [emit]

/-- **the retained set is a prefix, for every policy**: one key's versions `g`, newest first.  The
    output is what the determiner's decisions select among the key's values (`callsOf`: each value
    with the tombstones directly above it), and the decisions are monotone — once a value is let go,
    every older one is -/
theorem retained_is_prefix (k : K) (g : List (Ent K)) (hall : AllKey k g)
    (hts : g.Pairwise (fun a b => b.ts < a.ts)) (d : Det K) :
    gcLoopD g k [] d = emitAll (callsOf g k []) (d.run (callsOf g k []))
      ∧ ∀ i j, i ≤ j → (d.run (callsOf g k [])).getD j false = true →
          (d.run (callsOf g k [])).getD i false = true :=
  ⟨gcLoopD_eq_emitAll g k [] d,
   run_mono k _ (callsOf_keys k g hall k []) (callsOf_tsDesc g hts k []) d⟩

end Blue.Gc

#print axioms Blue.Gc.default_policy_exact
#print axioms Blue.Gc.retained_is_prefix
