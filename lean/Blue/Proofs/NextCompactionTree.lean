import Blue.Proofs.NextCompactionExpand
import Blue.Proofs.TrivialMove
import Blue.Proofs.ExpandClosed
/-! **C01** the tree of the function model `Blue.NextCompaction` seen as the search-ordered,
    tagged component list of `Blue.Spec.Closed`: the tree invariant the selector relies on (`Inv`:
    files well-formed, levels below level 0 sorted by key — I1 — and file ids distinct), the
    search order (level 0 by descending newest timestamp as `Version::load` sorts it, then the
    levels), the tagging of a compaction's inputs by file id, and the bridge from a tagging by a
    predicate on key ranges (`Blue.Spec.tagBy`) to the tagging by id. -/
namespace Blue.NextCompaction
open Blue.Spec

def toT (f : File) : TFile := ⟨f.first, f.last, f.vers⟩

/-- what the selector relies on -/
structure Inv (t : Tree) : Prop where
  /-- a file's range is non-empty and holds its versions -/
  wf : ∀ l ∈ t, ∀ f ∈ l, f.first ≤ f.last ∧ ∀ v ∈ f.vers, f.first ≤ v.1 ∧ v.1 ≤ f.last
  /-- I1: every level below level 0 is sorted by key, ranges at most touching -/
  sorted : ∀ l ∈ t.tail, SortedLevel l
  /-- file ids (setsums) are distinct -/
  ids : (t.flatten.map (·.id)).Nodup

theorem sortedB_sound : ∀ (l : List File), sortedB l = true → SortedLevel l
  | [], _ => List.Pairwise.nil
  | a :: r, h => by
    unfold sortedB at h
    rw [Bool.and_eq_true, List.all_eq_true] at h
    refine List.Pairwise.cons ?_ (sortedB_sound r h.2)
    intro b hb
    simpa using h.1 b hb

theorem nodupB_sound : ∀ (l : List Nat), nodupB l = true → l.Nodup
  | [], _ => List.nodup_nil
  | a :: r, h => by
    unfold nodupB at h
    rw [Bool.and_eq_true] at h
    rw [List.nodup_cons]
    exact ⟨by simpa using h.1, nodupB_sound r h.2⟩

/-- the driver's decidable check is sound for `Inv` -/
theorem invB_sound {t : Tree} (h : invB t = true) : Inv t := by
  unfold invB at h
  simp only [Bool.and_eq_true, List.all_eq_true] at h
  obtain ⟨⟨h1, h2⟩, h3⟩ := h
  refine ⟨?_, fun l hl => sortedB_sound l (h2 l hl), nodupB_sound _ h3⟩
  intro l hl f hf
  have := h1 l hl f hf
  unfold wfB at this
  simp only [Bool.and_eq_true, decide_eq_true_eq, List.all_eq_true] at this
  exact ⟨this.1, fun v hv => this.2 v hv⟩

theorem mem_level {t : Tree} {i : Nat} {f : File} (h : f ∈ level t i) : ∃ l, t[i]? = some l ∧ f ∈ l := by
  unfold level at h
  rw [List.getD_eq_getElem?_getD] at h
  cases ht : t[i]? with
  | none => rw [ht] at h; cases h
  | some l => rw [ht] at h; exact ⟨l, rfl, h⟩

theorem level_of_get {t : Tree} {i : Nat} {l : List File} (h : t[i]? = some l) : level t i = l := by
  unfold level
  rw [List.getD_eq_getElem?_getD, h]; rfl

theorem Inv.wf_level {t : Tree} (h : Inv t) (i : Nat) : WfLevel (level t i) := by
  intro f hf
  obtain ⟨l, hl, hfl⟩ := mem_level hf
  exact (h.wf l (List.mem_of_getElem? hl) f hfl).1

theorem Inv.wfT {t : Tree} (h : Inv t) {i : Nat} {f : File} (hf : f ∈ level t i) : (toT f).Wf := by
  obtain ⟨l, hl, hfl⟩ := mem_level hf
  exact h.wf l (List.mem_of_getElem? hl) f hfl

theorem Inv.sorted_level {t : Tree} (h : Inv t) {i : Nat} (hi : 1 ≤ i) : SortedLevel (level t i) := by
  cases ht : t[i]? with
  | none =>
    have : level t i = [] := by unfold level; rw [List.getD_eq_getElem?_getD, ht]; rfl
    rw [this]; exact List.Pairwise.nil
  | some l =>
    rw [level_of_get ht]
    apply h.sorted
    cases t with
    | nil => simp at ht
    | cons x xs =>
      obtain ⟨j, rfl⟩ : ∃ j, i = j + 1 := ⟨i - 1, by omega⟩
      simp only [List.getElem?_cons_succ] at ht
      exact List.mem_of_getElem? ht

theorem inj_of_nodup_map {α β : Type} (f : α → β) : ∀ (l : List α), (l.map f).Nodup →
    ∀ x ∈ l, ∀ y ∈ l, f x = f y → x = y
  | [], _, x, hx, _, _, _ => by cases hx
  | a :: as, hn, x, hx, y, hy, he => by
    rw [List.map_cons, List.nodup_cons] at hn
    rcases List.mem_cons.mp hx with rfl | hx'
    · rcases List.mem_cons.mp hy with rfl | hy'
      · rfl
      · exact absurd (List.mem_map.mpr ⟨y, hy', he.symm⟩) hn.1
    · rcases List.mem_cons.mp hy with rfl | hy'
      · exact absurd (List.mem_map.mpr ⟨x, hx', he⟩) hn.1
      · exact inj_of_nodup_map f as hn.2 x hx' y hy' he

theorem ids_unique_aux : ∀ (ls : List (List File)), (ls.flatten.map (·.id)).Nodup →
    ∀ (i j : Nat) (li lj : List File) (f g : File), ls[i]? = some li → ls[j]? = some lj → f ∈ li → g ∈ lj →
    f.id = g.id → i = j ∧ f = g
  | [], _, i, _, _, _, _, _, hi, _, _, _, _ => by simp at hi
  | l :: tl, hn, i, j, li, lj, f, g, hi, hj, hf, hg, he => by
    rw [List.flatten_cons, List.map_append, List.nodup_append] at hn
    obtain ⟨h1, h2, h3⟩ := hn
    have inrest : ∀ (k : Nat) (lk : List File) (x : File), tl[k]? = some lk → x ∈ lk → x.id ∈ tl.flatten.map (·.id) := by
      intro k lk x hk hx
      exact List.mem_map.mpr ⟨x, List.mem_flatten.mpr ⟨lk, List.mem_of_getElem? hk, hx⟩, rfl⟩
    cases i with
    | zero =>
      simp only [List.getElem?_cons_zero, Option.some.injEq] at hi
      subst hi
      cases j with
      | zero =>
        simp only [List.getElem?_cons_zero, Option.some.injEq] at hj
        subst hj
        exact ⟨rfl, inj_of_nodup_map (·.id) _ h1 f hf g hg he⟩
      | succ j =>
        simp only [List.getElem?_cons_succ] at hj
        exact absurd he (h3 _ (List.mem_map.mpr ⟨f, hf, rfl⟩) _ (inrest j lj g hj hg))
    | succ i =>
      simp only [List.getElem?_cons_succ] at hi
      cases j with
      | zero =>
        simp only [List.getElem?_cons_zero, Option.some.injEq] at hj
        subst hj
        exact absurd he.symm (h3 _ (List.mem_map.mpr ⟨g, hg, rfl⟩) _ (inrest i li f hi hf))
      | succ j =>
        simp only [List.getElem?_cons_succ] at hj
        obtain ⟨e1, e2⟩ := ids_unique_aux tl h2 i j li lj f g hi hj hf hg he
        exact ⟨by omega, e2⟩

/-- a file id names one file at one level -/
theorem Inv.ids_unique {t : Tree} (h : Inv t) {i j : Nat} {f g : File} (hf : f ∈ level t i) (hg : g ∈ level t j)
    (he : f.id = g.id) : i = j ∧ f = g := by
  obtain ⟨li, hi, hfl⟩ := mem_level hf
  obtain ⟨lj, hj, hgl⟩ := mem_level hg
  exact ids_unique_aux t h.ids i j li lj f g hi hj hfl hgl he

/-! ## search order -/

/-- level 0 as `Version::load` searches it: `sort_by_key(biggest_timestamp)` (stable), reversed —
    the same list as `Blue.Kvs.l0Order` -/
def l0Search (l0 : List File) : List File := (l0.mergeSort (fun a b => decide (a.bts ≤ b.bts))).reverse

theorem mem_l0Search {l0 : List File} {f : File} : f ∈ l0Search l0 ↔ f ∈ l0 := by
  unfold l0Search
  rw [List.mem_reverse, List.mem_mergeSort]

/-- the levels `0 ..= upper` in search order, numbered -/
def numLevels (t : Tree) (upper : Nat) : List (Nat × List File) :=
  (0, l0Search (level t 0)) :: (List.range upper).map (fun i => (i + 1, level t (i + 1)))

theorem mem_numLevels {t : Tree} {upper : Nat} {l : Nat × List File} (h : l ∈ numLevels t upper) :
    l.1 ≤ upper ∧ ∀ f, f ∈ l.2 ↔ f ∈ level t l.1 := by
  unfold numLevels at h
  rcases List.mem_cons.mp h with rfl | h'
  · exact ⟨Nat.zero_le _, fun f => mem_l0Search⟩
  · obtain ⟨i, hi, rfl⟩ := List.mem_map.mp h'
    rw [List.mem_range] at hi
    exact ⟨by dsimp only; omega, fun f => Iff.rfl⟩

theorem numLevels_pairwise (t : Tree) (upper : Nat) : (numLevels t upper).Pairwise (fun a b => a.1 < b.1) := by
  unfold numLevels
  rw [List.pairwise_cons]
  constructor
  · intro b hb
    obtain ⟨i, _, rfl⟩ := List.mem_map.mp hb
    exact Nat.succ_pos _
  · rw [List.pairwise_map]
    exact (List.pairwise_lt_range (n := upper)).imp (fun h => by dsimp only; omega)

/-- the components down to the output level of `c` in search order, tagged "is an input of `c`" -/
def tagIds (ids : List Nat) (levels : List (Nat × List File)) : Tagged Nat :=
  (levels.map (fun l => l.2.map (fun f => (ids.contains f.id, f.vers)))).flatten

def tagTree (t : Tree) (c : Core) : Tagged Nat := tagIds c.inputs (numLevels t c.upper)

/-- the levels as `Blue.Spec` sees them -/
def toTL (levels : List (Nat × List File)) : List (Nat × List TFile) := levels.map (fun l => (l.1, l.2.map toT))

/-- a tagging by a predicate on (level, key range, versions) that agrees with membership of the
    file id in `ids` is the tagging by id -/
theorem tag_bridge (inp : Nat → TFile → Bool) (ids : List Nat) (levels : List (Nat × List File))
    (h : ∀ l ∈ levels, ∀ f ∈ l.2, inp l.1 (toT f) = ids.contains f.id) :
    tagBy inp (toTL levels) = tagIds ids levels := by
  unfold tagBy toTL tagIds
  rw [List.map_map]
  congr 1
  apply List.map_congr_left
  intro l hl
  simp only [Function.comp, List.map_map]
  apply List.map_congr_left
  intro f hf
  simp only [Function.comp]
  rw [h l hl f hf]
  rfl

theorem toTL_pairwise {levels : List (Nat × List File)} (h : levels.Pairwise (fun a b => a.1 < b.1)) :
    (toTL levels).Pairwise (fun a b => a.1 < b.1) := by
  unfold toTL
  rw [List.pairwise_map]
  exact h

theorem mem_toTL {levels : List (Nat × List File)} {l : Nat × List TFile} (h : l ∈ toTL levels) :
    ∃ l' ∈ levels, l.1 = l'.1 ∧ l.2 = l'.2.map toT := by
  unfold toTL at h
  obtain ⟨l', hl', rfl⟩ := List.mem_map.mp h
  exact ⟨l', hl', rfl, rfl⟩

/-! ## the oldest file of level 0 is searched last -/

def older (m x : File) : File := if x.bts < m.bts then x else m

theorem oldest_cons (f : File) (fs : List File) : oldest (f :: fs) = some (fs.foldl older f) := rfl

theorem older_assoc (a x y : File) : older (older a x) y = older a (older x y) := by
  unfold older
  by_cases h1 : x.bts < a.bts <;> by_cases h2 : y.bts < x.bts <;> by_cases h3 : y.bts < a.bts <;>
    simp [h1, h2, h3] <;> omega

theorem foldl_older_assoc : ∀ (xs : List File) (a x : File),
    xs.foldl older (older a x) = older a (xs.foldl older x)
  | [], _, _ => rfl
  | y :: ys, a, x => by
    simp only [List.foldl_cons]
    rw [older_assoc, foldl_older_assoc ys a (older x y)]

theorem foldl_older_stay : ∀ (xs : List File) (m : File), (∀ x ∈ xs, m.bts ≤ x.bts) → xs.foldl older m = m
  | [], _, _ => rfl
  | y :: ys, m, h => by
    simp only [List.foldl_cons]
    have : older m y = m := by
      unfold older
      have := h y List.mem_cons_self
      rw [if_neg (by omega)]
    rw [this]
    exact foldl_older_stay ys m (fun x hx => h x (List.mem_cons_of_mem _ hx))

theorem bts_trans (a b c : File) : decide (a.bts ≤ b.bts) = true → decide (b.bts ≤ c.bts) = true → decide (a.bts ≤ c.bts) = true := by
  simp only [decide_eq_true_eq]; omega

theorem bts_total (a b : File) : (decide (a.bts ≤ b.bts) || decide (b.bts ≤ a.bts)) = true := by
  simp only [Bool.or_eq_true, decide_eq_true_eq]; omega

/-- `min_by(biggest_timestamp)` (the first minimum) is the head of the stable sort -/
theorem mergeSort_head_oldest : ∀ (l : List File),
    (l.mergeSort (fun a b => decide (a.bts ≤ b.bts))).head? = oldest l
  | [] => by simp [oldest]
  | a :: l' => by
    obtain ⟨l₁, l₂, h₁, h₂, h₃⟩ := List.mergeSort_cons (le := fun a b : File => decide (a.bts ≤ b.bts)) bts_trans bts_total a l'
    have ih := mergeSort_head_oldest l'
    rw [h₁, oldest_cons]
    cases l₁ with
    | nil =>
      simp only [List.nil_append, List.head?_cons, Option.some.injEq]
      symm
      apply foldl_older_stay
      intro x hx
      have hs := List.pairwise_mergeSort (le := fun a b : File => decide (a.bts ≤ b.bts)) bts_trans bts_total (a :: l')
      rw [h₁, List.nil_append, List.pairwise_cons] at hs
      have hx' : x ∈ l₂ := by
        have : x ∈ l'.mergeSort (fun a b => decide (a.bts ≤ b.bts)) := List.mem_mergeSort.mpr hx
        rw [h₂] at this; simpa using this
      simpa using hs.1 x hx'
    | cons b l₁' =>
      simp only [List.cons_append, List.head?_cons, Option.some.injEq]
      rw [h₂] at ih
      simp only [List.cons_append, List.head?_cons] at ih
      have hb := h₃ b List.mem_cons_self
      simp only [Bool.not_eq_true', decide_eq_false_iff_not, Nat.not_le] at hb
      cases l' with
      | nil => simp [oldest] at ih
      | cons x xs =>
        rw [oldest_cons, Option.some.injEq] at ih
        simp only [List.foldl_cons]
        rw [foldl_older_assoc, ← ih]
        unfold older
        rw [if_pos hb]

theorem l0Search_oldest {l0 : List File} {f : File} (h : oldest l0 = some f) : ∃ init, l0Search l0 = init ++ [f] := by
  have := mergeSort_head_oldest l0
  rw [h] at this
  unfold l0Search
  cases hm : l0.mergeSort (fun a b => decide (a.bts ≤ b.bts)) with
  | nil => rw [hm] at this; cases this
  | cons x rest =>
    rw [hm] at this
    simp only [List.head?_cons, Option.some.injEq] at this
    subst this
    exact ⟨rest.reverse, by simp⟩

/-! ## slices of a sorted level -/

theorem no_meet_of_eq {l : List File} (hs : SortedLevel l) (hw : WfLevel l) {a b : Nat}
    (h : lowerBound l a = upperBound l b) : ∀ g ∈ l, ¬ (g.first ≤ b ∧ a ≤ g.last) := by
  intro g hg ⟨h1, h2⟩
  obtain ⟨i, hi, rfl⟩ := List.getElem_of_mem hg
  have := (ub_idx hs hw b i hi).mp h1
  have := (lb_idx hs hw a i hi).mpr (by omega)
  omega

theorem alone_of_succ {l : List File} (hs : SortedLevel l) (hw : WfLevel l) {f : File} (hf : f ∈ l)
    (h : lowerBound l f.first + 1 = upperBound l f.last) : ∀ g ∈ l, g.first ≤ f.last → f.first ≤ g.last → g = f := by
  have pos : ∀ g ∈ l, g.first ≤ f.last → f.first ≤ g.last → ∃ (hi : lowerBound l f.first < l.length), l[lowerBound l f.first] = g := by
    intro g hg h1 h2
    obtain ⟨i, hi, rfl⟩ := List.getElem_of_mem hg
    have a := (ub_idx hs hw f.last i hi).mp h1
    have b := mt (lb_idx hs hw f.first i hi).mpr (by omega : ¬ l[i].last < f.first)
    have : i = lowerBound l f.first := by omega
    subst this
    exact ⟨hi, rfl⟩
  intro g hg h1 h2
  have hwf := hw f hf
  obtain ⟨_, e1⟩ := pos g hg h1 h2
  obtain ⟨_, e2⟩ := pos f hf hwf (by omega)
  exact e1.symm.trans e2

end Blue.NextCompaction
