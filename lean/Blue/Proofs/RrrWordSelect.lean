import Blue.Proofs.RrrWordBits
import Blue.Proofs.BitVecLaws
/-! `u63::select_word` (six halving steps) is the reference `select` of the word's bits; `select0` is
    the reference `select0` of the word padded to 63 bits. -/
namespace Blue.Rrr
open Blue.BitArr

/-- position `j` holds the `x`-th set bit of `l` -/
def SelP (l : List Bool) (x j : Nat) : Prop := l[j]? = some true ∧ (l.take j).count true + 1 = x

/-- the state of `select_word` before a halving step: the current word is a `W`-bit window `l`, the
    `x`-th set bit of the window exists and sits `idx` positions into the original -/
def SelInv (orig : List Bool) (x0 W : Nat) (st : Nat × Nat × Nat) : Prop :=
  ∃ l : List Bool, st.1 = ofBits l ∧ l.length = W ∧ 1 ≤ st.2.1 ∧ st.2.1 ≤ l.count true ∧
    ∀ j, SelP l st.2.1 j → SelP orig x0 (st.2.2 + j)

theorem selStep_eq (st : Nat × Nat × Nat) (s : Nat) :
    selStep st s = if st.2.1 > popcount (st.1 % 2 ^ s)
      then (st.1 / 2 ^ s, st.2.1 - popcount (st.1 % 2 ^ s), st.2.2 + s) else (st.1 % 2 ^ s, st.2.1, st.2.2) := rfl

theorem selP_drop (l : List Bool) (s x j : Nat) (hx : (l.take s).count true ≤ x)
    (h : SelP (l.drop s) (x - (l.take s).count true) j) : SelP l x (s + j) := by
  obtain ⟨h1, h2⟩ := h
  constructor
  · rw [List.getElem?_drop] at h1; exact h1
  · rw [List.take_add, List.count_append]; omega

theorem selP_take (l : List Bool) (s x j : Nat) (h : SelP (l.take s) x j) : SelP l x j := by
  obtain ⟨h1, h2⟩ := h
  have hj : j < s := by
    apply Nat.lt_of_not_le
    intro hle
    rw [List.getElem?_eq_none (by rw [List.length_take]; omega)] at h1
    cases h1
  constructor
  · rw [List.getElem?_take_of_lt hj] at h1; exact h1
  · rw [List.take_take, Nat.min_eq_left (by omega)] at h2; exact h2

theorem selStep_inv (orig : List Bool) (x0 s : Nat) (st : Nat × Nat × Nat) (hs : 2 * s ≤ 64)
    (h : SelInv orig x0 (2 * s) st) : SelInv orig x0 s (selStep st s) := by
  obtain ⟨l, hw, hl, hx1, hx2, hP⟩ := h
  have hcnt : popcount (st.1 % 2 ^ s) = (l.take s).count true := by
    rw [hw, ofBits_mod, popcount_ofBits' _ (by rw [List.length_take]; omega)]
  have hsplit : l.count true = (l.take s).count true + (l.drop s).count true := by
    rw [← List.count_append, List.take_append_drop]
  rw [selStep_eq, hcnt]
  by_cases hgt : st.2.1 > (l.take s).count true
  · rw [if_pos hgt]
    refine ⟨l.drop s, ?_, ?_, ?_, ?_, ?_⟩
    · show st.1 / 2 ^ s = _
      rw [hw, ofBits_div]
    · rw [List.length_drop]; omega
    · show 1 ≤ st.2.1 - _; omega
    · show st.2.1 - _ ≤ _; omega
    · intro j hj
      have := hP (s + j) (selP_drop l s st.2.1 j (by omega) hj)
      rw [← Nat.add_assoc] at this
      exact this
  · rw [if_neg hgt]
    refine ⟨l.take s, ?_, ?_, hx1, ?_, ?_⟩
    · show st.1 % 2 ^ s = _
      rw [hw, ofBits_mod]
    · rw [List.length_take]; omega
    · show st.2.1 ≤ _; omega
    · intro j hj
      exact hP j (selP_take l s st.2.1 j hj)

theorem selInv_final (orig : List Bool) (x0 : Nat) (st : Nat × Nat × Nat) (h : SelInv orig x0 1 st) :
    SelP orig x0 st.2.2 := by
  obtain ⟨l, _, hl, hx1, hx2, hP⟩ := h
  match l, hl with
  | [b], _ =>
    cases b
    · simp at hx2; omega
    · have hx : st.2.1 = 1 := by simp at hx2; omega
      have := hP 0 (by rw [hx]; exact ⟨rfl, rfl⟩)
      rw [Nat.add_zero] at this
      exact this

/-- `select_word` on a 64-bit window, `1 ≤ x ≤` number of set bits -/
theorem selectWord_window (l : List Bool) (x : Nat) (hl : l.length = 64) (hx1 : 1 ≤ x) (hx2 : x ≤ l.count true) :
    ∃ j, selectWord (ofBits l) x = some (j + 1) ∧ SelP l x j := by
  have hpc : popcount (ofBits l) = l.count true := popcount_ofBits' l (by omega)
  unfold selectWord
  rw [if_neg (by omega), if_neg (by omega)]
  refine ⟨_, rfl, ?_⟩
  simp only [List.foldl_cons, List.foldl_nil]
  have h0 : SelInv l x (2 * 32) (ofBits l, x, 0) :=
    ⟨l, rfl, hl, hx1, hx2, fun j hj => by rw [Nat.zero_add]; exact hj⟩
  have h1 := selStep_inv l x 32 _ (by omega) h0
  have h2 := selStep_inv l x 16 _ (by omega) h1
  have h3 := selStep_inv l x 8 _ (by omega) h2
  have h4 := selStep_inv l x 4 _ (by omega) h3
  have h5 := selStep_inv l x 2 _ (by omega) h4
  have h6 := selStep_inv l x 1 _ (by omega) h5
  exact selInv_final l x _ h6

theorem selP_of_pad (ch : List Bool) (k x j : Nat) (h : SelP (ch ++ List.replicate k false) x j) : SelP ch x j := by
  obtain ⟨h1, h2⟩ := h
  have hj : j < ch.length := by
    apply Nat.lt_of_not_le
    intro hle
    rw [List.getElem?_append_right hle, List.getElem?_replicate] at h1
    split at h1 <;> cases h1
  constructor
  · rw [List.getElem?_append_left hj] at h1; exact h1
  · rw [List.take_append_of_le_length (by omega)] at h2; exact h2

theorem count_pad (ch : List Bool) (k : Nat) : (ch ++ List.replicate k false).count true = ch.count true := by
  rw [List.count_append, List.count_replicate]; simp

/-- `select_word` of the word of a chunk is the reference `select` of the chunk -/
theorem selectWord_ofBits (ch : List Bool) (x : Nat) (h : ch.length ≤ 64) :
    selectWord (ofBits ch) x = Blue.BitVec.select ch x := by
  have hpc : popcount (ofBits ch) = ch.count true := popcount_ofBits' ch h
  by_cases hx0 : x = 0
  · subst hx0
    unfold selectWord
    rw [if_pos rfl]
    exact (Blue.BitVec.select_complete ch 0 0 (by omega) rfl (fun q hq => by omega)).symm
  · by_cases hlt : ch.count true < x
    · unfold selectWord
      rw [if_neg hx0, if_pos (by omega)]
      cases hs : Blue.BitVec.select ch x with
      | none => rfl
      | some p =>
        have := (Blue.BitVec.select_defined_iff ch x).mp (by rw [hs]; rfl)
        omega
    · obtain ⟨j, h1, h2⟩ := selectWord_window (ch ++ List.replicate (64 - ch.length) false) x
        (by rw [List.length_append, List.length_replicate]; omega) (by omega) (by rw [count_pad]; omega)
      rw [ofBits_pad] at h1
      obtain ⟨h3, h4⟩ := selP_of_pad ch _ x j h2
      have hj : j < ch.length := by
        apply Nat.lt_of_not_le
        intro hle
        rw [List.getElem?_eq_none hle] at h3
        cases h3
      rw [h1, ← h4, Blue.BitVec.select_rank_of_set ch j hj h3]

theorem select1_ofBits (ch : List Bool) (x : Nat) (h : ch.length ≤ 63) :
    select1 (ofBits ch) x = Blue.BitVec.select ch x :=
  selectWord_ofBits ch x (by omega)

/-! ### `select0` -/

theorem count_map_not (l : List Bool) : (l.map (!·)).count true = l.count false := by
  induction l with
  | nil => rfl
  | cons b t ih => cases b <;> simp [ih]

theorem rank_map_not (l : List Bool) (x : Nat) : Blue.BitVec.rank (l.map (!·)) x = Blue.BitVec.rank0 l x := by
  by_cases h : x ≤ l.length
  · rw [Blue.BitVec.rank0_spec l x h, Blue.BitVec.rank_some _ x (by rw [List.length_map]; exact h),
      ← List.map_take, count_map_not]
  · unfold Blue.BitVec.rank0 Blue.BitVec.rank
    rw [if_neg (by rw [List.length_map]; exact h), if_neg h]
    rfl

/-- `select` over the complemented bits is `select0` -/
theorem select_map_not (l : List Bool) (x : Nat) :
    Blue.BitVec.select (l.map (!·)) x = Blue.BitVec.select0 l x := by
  unfold Blue.BitVec.select Blue.BitVec.select0
  simp only [rank_map_not, List.length_map]

theorem select0_ofBits (ch : List Bool) (x : Nat) (h : ch.length ≤ 63) :
    select0 (ofBits ch) x = Blue.BitVec.select0 (ch ++ List.replicate (63 - ch.length) false) x := by
  have hl : (ch ++ List.replicate (63 - ch.length) false).length = 63 := by
    rw [List.length_append, List.length_replicate]; omega
  have hw := ofBits_map_not (ch ++ List.replicate (63 - ch.length) false)
  rw [hl, ofBits_pad] at hw
  unfold select0
  rw [← hw, selectWord_ofBits _ x (by rw [List.length_map, hl]; omega), select_map_not]

end Blue.Rrr
