import Blue.Generated.Consts
import Blue.Model.SkipML
/-! The skiplist's constants regenerated from the Rust source (`skipfree/src/lib.rs`), tied to the
    model (C17): `Blue.SkipML` takes `MAX_HEIGHT` as a parameter of the state (the harness
    instantiates the const generic with 1, 2, 3, 4 and the source's default) and its theorems need
    it positive; the harness draws tower heights with the source's branching factor. -/
namespace Blue.ConstsTie

theorem skipfree_default_max_height : Blue.SkipML.defaultMaxHeight = Blue.Generated.skipfreeDefaultMaxHeight := by decide
theorem skipfree_default_max_height_pos : 0 < Blue.Generated.skipfreeDefaultMaxHeight := by decide
theorem skipfree_branching : Blue.Generated.skipfreeBranching = 4 := by decide

end Blue.ConstsTie
