import Blue.Model.SstBuild
import Blue.Proofs.Block
import Blue.Proofs.SstCur
/-! `divide_keys` and `minimal_successor_key` (sst/src/lib.rs): the dividing key lies in
    `[lhs, rhs)` of the `KeyRef` order, and index entries chosen this way — for *any* cut of a
    sorted entry list into non-empty blocks — are separating dividers in the sense of `DivOk`,
    the hypothesis of `sst_cursor_refines`, for every seek target. -/
namespace Blue.Sst
open Blue.Block Blue.Cursor

/-! ### the byte-string order -/
theorem keyLt_irrefl : ∀ (x : List Nat), keyLt x x = false
  | [] => rfl
  | a :: x => by simp [keyLt, keyLt_irrefl x]

theorem keyLt_cons_same (a : Nat) (x y : List Nat) : keyLt (a :: x) (a :: y) = keyLt x y := by
  simp [keyLt]

theorem keyLt_cons_lt {a b : Nat} (h : a < b) (x y : List Nat) : keyLt (a :: x) (b :: y) = true := by
  simp [keyLt, h]

theorem keyLt_append_left : ∀ (p x y : List Nat), keyLt (p ++ x) (p ++ y) = keyLt x y
  | [], _, _ => rfl
  | a :: p, x, y => by simp only [List.cons_append, keyLt_cons_same]; exact keyLt_append_left p x y

theorem keyLt_trans : ∀ (x y z : List Nat), keyLt x y = true → keyLt y z = true → keyLt x z = true
  | [], [], _, h, _ => by simp [keyLt] at h
  | [], _ :: _, [], _, h => by simp [keyLt] at h
  | [], _ :: _, _ :: _, _, _ => rfl
  | _ :: _, [], _, h, _ => by simp [keyLt] at h
  | _ :: _, _ :: _, [], _, h => by simp [keyLt] at h
  | a :: x, b :: y, c :: z, h1, h2 => by
    rcases Nat.lt_trichotomy a b with hab | hab | hab
    · rcases Nat.lt_trichotomy b c with hbc | hbc | hbc
      · exact keyLt_cons_lt (by omega) _ _
      · subst hbc; exact keyLt_cons_lt hab _ _
      · have : ¬ b < c := by omega
        simp [keyLt, this, hbc] at h2
    · subst hab
      rcases Nat.lt_trichotomy a c with hbc | hbc | hbc
      · exact keyLt_cons_lt hbc _ _
      · subst hbc
        rw [keyLt_cons_same] at h1 h2 ⊢
        exact keyLt_trans x y z h1 h2
      · have : ¬ a < c := by omega
        simp [keyLt, this, hbc] at h2
    · have : ¬ a < b := by omega
      simp [keyLt, this, hab] at h1

theorem keyLt_total : ∀ (x y : List Nat), x ≠ y → keyLt x y = true ∨ keyLt y x = true
  | [], [], h => absurd rfl h
  | [], _ :: _, _ => Or.inl rfl
  | _ :: _, [], _ => Or.inr rfl
  | a :: x, b :: y, h => by
    rcases Nat.lt_trichotomy a b with hab | hab | hab
    · exact Or.inl (keyLt_cons_lt hab _ _)
    · subst hab
      have hxy : x ≠ y := fun e => h (by rw [e])
      rw [keyLt_cons_same, keyLt_cons_same]
      exact keyLt_total x y hxy
    · exact Or.inr (keyLt_cons_lt hab _ _)

theorem keyLt_asymm (x y : List Nat) (h : keyLt x y = true) : keyLt y x = false := by
  cases hyx : keyLt y x with
  | false => rfl
  | true => have := keyLt_trans x y x h hyx; rw [keyLt_irrefl] at this; cases this

/-- negative transitivity: `x ≤ y ≤ z → x ≤ z`, written with "not less" -/
theorem keyLt_ntrans (x y z : List Nat) (h1 : keyLt y x = false) (h2 : keyLt z y = false) :
    keyLt z x = false := by
  cases hzx : keyLt z x with
  | false => rfl
  | true =>
    by_cases hyz : y = z
    · subst hyz; rw [hzx] at h1; cases h1
    · rcases keyLt_total y z hyz with h | h
      · have := keyLt_trans y z x h hzx; rw [this] at h1; cases h1
      · rw [h] at h2; cases h2

/-! ### the `KeyRef` order -/
theorem keyRefLt_irrefl (k : List Nat) (t : Nat) : keyRefLt k t k t = false := by
  simp [keyRefLt, keyLt_irrefl]

/-- the key part of `a < b` in the `KeyRef` order: `b.key` is not before `a.key` -/
theorem keyRefLt_key {k1 k2 : List Nat} {t1 t2 : Nat} (h : keyRefLt k1 t1 k2 t2 = true) :
    keyLt k2 k1 = false := by
  unfold keyRefLt at h
  cases h12 : keyLt k1 k2 with
  | true => exact keyLt_asymm _ _ h12
  | false =>
    rw [h12] at h
    simp only [Bool.false_or, Bool.and_eq_true, Bool.not_eq_true'] at h
    exact h.1

/-- the key part of `¬ a < b`: `a.key` is not before `b.key` -/
theorem not_keyRefLt_key {k1 k2 : List Nat} {t1 t2 : Nat} (h : keyRefLt k1 t1 k2 t2 = false) :
    keyLt k1 k2 = false := by
  unfold keyRefLt at h
  cases h12 : keyLt k1 k2 with
  | true => rw [h12] at h; simp at h
  | false => rfl

theorem keyRefLt_trans {k1 k2 k3 : List Nat} {t1 t2 t3 : Nat}
    (h1 : keyRefLt k1 t1 k2 t2 = true) (h2 : keyRefLt k2 t2 k3 t3 = true) : keyRefLt k1 t1 k3 t3 = true := by
  unfold keyRefLt at h1 h2 ⊢
  cases a : keyLt k1 k2 with
  | true =>
    cases b : keyLt k2 k3 with
    | true => simp [keyLt_trans _ _ _ a b]
    | false =>
      rw [b] at h2
      simp only [Bool.false_or, Bool.and_eq_true, Bool.not_eq_true', decide_eq_true_eq] at h2
      -- k2 = k3 as keys
      have e : k2 = k3 := by
        false_or_by_contra
        rename_i hne
        rcases keyLt_total k2 k3 hne with h | h
        · rw [h] at b; cases b
        · rw [h] at h2; cases h2.1
      subst e; simp [a]
  | false =>
    rw [a] at h1
    simp only [Bool.false_or, Bool.and_eq_true, Bool.not_eq_true', decide_eq_true_eq] at h1
    have e : k1 = k2 := by
      false_or_by_contra
      rename_i hne
      rcases keyLt_total k1 k2 hne with h | h
      · rw [h] at a; cases a
      · rw [h] at h1; cases h1.1
    subst e
    cases b : keyLt k1 k3 with
    | true => simp
    | false =>
      rw [b] at h2
      simp only [Bool.false_or, Bool.and_eq_true, Bool.not_eq_true', decide_eq_true_eq] at h2
      simp only [Bool.false_or, Bool.and_eq_true, Bool.not_eq_true', decide_eq_true_eq]
      exact ⟨h2.1, by omega⟩

/-! ### `divide_keys` -/
theorem sharedLen_split : ∀ (kl kr : List Nat) (a b : Nat),
    kl[sharedLen kl kr]? = some a → kr[sharedLen kl kr]? = some b →
    a ≠ b ∧ ∃ p x y, kl = p ++ a :: x ∧ kr = p ++ b :: y ∧ p = kl.take (sharedLen kl kr)
  | [], _, _, _, h, _ => by simp [sharedLen] at h
  | _ :: _, [], _, _, _, h => by simp [sharedLen] at h
  | u :: kl, v :: kr, a, b, h1, h2 => by
    by_cases huv : u = v
    · subst huv
      simp only [sharedLen, if_true, List.getElem?_cons_succ] at h1 h2
      obtain ⟨hne, p, x, y, e1, e2, e3⟩ := sharedLen_split kl kr a b h1 h2
      refine ⟨hne, u :: p, x, y, by rw [e1]; rfl, by rw [e2]; rfl, ?_⟩
      simp only [sharedLen, if_true, List.take_succ_cons, e3]
    · simp only [sharedLen, huv, if_false, List.getElem?_cons_zero, Option.some.injEq] at h1 h2
      subst h1; subst h2
      exact ⟨huv, [], kl, kr, rfl, rfl, by simp [sharedLen, huv]⟩

/-- **C10** `divide_keys`: for `lhs < rhs` the dividing key `d` satisfies `lhs ≤ d < rhs` in the
    `KeyRef` order (what the code `assert!`s at run time, here for all inputs) -/
theorem divideKeys_between (kl : List Nat) (tl : Nat) (kr : List Nat) (tr : Nat)
    (h : keyRefLt kl tl kr tr = true) :
    keyRefLt (divideKeys kl tl kr tr).1 (divideKeys kl tl kr tr).2 kl tl = false
    ∧ keyRefLt (divideKeys kl tl kr tr).1 (divideKeys kl tl kr tr).2 kr tr = true := by
  unfold divideKeys
  simp only
  cases ha : kl[sharedLen kl kr]? with
  | none => simp only; exact ⟨keyRefLt_irrefl _ _, h⟩
  | some a =>
    cases hb : kr[sharedLen kl kr]? with
    | none => simp only; exact ⟨keyRefLt_irrefl _ _, h⟩
    | some b =>
      simp only
      by_cases hab : a + 1 < b
      · simp only [hab, if_true]
        obtain ⟨_, p, x, y, e1, e2, e3⟩ := sharedLen_split kl kr a b ha hb
        rw [← e3]
        -- lhs < d on the keys, d < rhs on the keys
        have h1 : keyLt kl (p ++ [a + 1]) = true := by
          rw [e1, keyLt_append_left]; exact keyLt_cons_lt (by omega) _ _
        have h2 : keyLt (p ++ [a + 1]) kr = true := by
          rw [e2, keyLt_append_left]; exact keyLt_cons_lt hab _ _
        constructor
        · unfold keyRefLt; rw [keyLt_asymm _ _ h1, h1]; simp
        · unfold keyRefLt; rw [h2]; simp
      · simp only [hab, if_false]
        exact ⟨keyRefLt_irrefl _ _, h⟩

/-- **C10** `minimal_successor_key` is a strict successor (so `divide_keys` may be called with
    it at `seal`, and the last divider is at or after the last entry) -/
theorem minimalSuccessor_gt (k : List Nat) (t : Nat) :
    keyRefLt k t (minimalSuccessor k t).1 (minimalSuccessor k t).2 = true := by
  unfold minimalSuccessor
  by_cases ht : t = 0
  · simp only [ht, if_true]
    have : keyLt k (k ++ [0]) = true := by
      have := keyLt_append_left k [] [0]
      simp only [List.append_nil] at this
      rw [this]; rfl
    unfold keyRefLt; rw [this]; simp
  · simp only [ht, if_false]
    unfold keyRefLt
    simp only [keyLt_irrefl, Bool.false_or, Bool.not_false, Bool.true_and, decide_eq_true_eq]
    omega

/-! ### dividers of a cut -/
def dividerOf (l : KV) (nk : List Nat) (nt : Nat) : KV :=
  let d := divideKeys l.key l.ts nk nt
  ⟨d.1, d.2, none⟩

/-- the index keys `SstBuilder` computes for a cut of the entries into blocks: between the last
    entry of a block and the first entry of the next; after the last block, between its last
    entry and that entry's minimal successor -/
def dividersOf : List (List KV) → List KV
  | [] => []
  | [b] =>
    match b.getLast? with
    | some l => let n := minimalSuccessor l.key l.ts; [dividerOf l n.1 n.2]
    | none => []
  | b :: c :: rest =>
    match b.getLast?, c.head? with
    | some l, some f => dividerOf l f.key f.ts :: dividersOf (c :: rest)
    | _, _ => []

/-- what `seek` needs of the index, in the order itself: a divider is not before any entry of its
    block, and is before every entry of the next block -/
structure Separates (L : List (List KV)) (D : List KV) : Prop where
  len : D.length = L.length
  ge : ∀ (i : Nat) (d : KV) (blk : List KV) (e : KV), D[i]? = some d → L[i]? = some blk → e ∈ blk → KV.lt d e = false
  lt : ∀ (i : Nat) (d : KV) (blk : List KV) (e : KV), D[i]? = some d → L[i + 1]? = some blk → e ∈ blk → KV.lt d e = true

/-- **C10** separating dividers are `DivOk` for every seek target (`seek` compares keys only) -/
theorem separates_divOk {L : List (List KV)} {D : List KV} (h : Separates L D) (k : List Nat) :
    DivOk L D (atOrAfter k) := by
  refine ⟨h.len, ?_, ?_⟩
  · intro i d blk e hd hb he hp
    have hde := not_keyRefLt_key (h.ge i d blk e hd hb he)
    unfold atOrAfter at hp ⊢
    simp only [Bool.not_eq_true'] at hp ⊢
    -- k ≤ e.key ≤ d.key
    exact keyLt_ntrans k e.key d.key hp hde
  · intro i d blk e hd hp hb he
    have hde := keyRefLt_key (h.lt i d blk e hd hb he)
    unfold atOrAfter at hp ⊢
    simp only [Bool.not_eq_true'] at hp ⊢
    exact keyLt_ntrans k d.key e.key hp hde

/-- sortedness of the input, as the builders enforce it -/
def Sorted (es : List KV) : Prop := es.Pairwise (fun a b => KV.lt a b = true)

theorem kvlt_trans {a b c : KV} (h1 : KV.lt a b = true) (h2 : KV.lt b c = true) : KV.lt a c = true :=
  keyRefLt_trans h1 h2

theorem kvlt_irrefl (a : KV) : KV.lt a a = false := keyRefLt_irrefl _ _

/-- in a sorted list every entry is at or before the last one -/
theorem le_getLast {es : List KV} (hs : Sorted es) {l e : KV} (hl : es.getLast? = some l) (he : e ∈ es) :
    KV.lt l e = false := by
  induction es with
  | nil => cases he
  | cons x xs ih =>
    have hs' := List.pairwise_cons.mp hs
    cases xs with
    | nil =>
      simp only [List.getLast?_singleton, Option.some.injEq] at hl
      simp only [List.mem_singleton] at he
      subst hl; subst he; exact kvlt_irrefl _
    | cons y ys =>
      have hl' : (y :: ys).getLast? = some l := by rw [List.getLast?_cons_cons] at hl; exact hl
      rcases List.mem_cons.mp he with rfl | he'
      · -- e = x < l or x = l impossible: l ∈ y :: ys
        have hlm : l ∈ y :: ys := List.mem_of_getLast? hl'
        have := hs'.1 l hlm
        cases hle : KV.lt l e with
        | false => rfl
        | true => have := kvlt_trans this hle; rw [kvlt_irrefl] at this; cases this
      · exact ih hs'.2 hl' he'

theorem separates_cons {b : List KV} {L : List (List KV)} {d : KV} {D : List KV}
    (hrest : Separates L D)
    (hge : ∀ e ∈ b, KV.lt d e = false)
    (hlt : ∀ blk, L[0]? = some blk → ∀ e ∈ blk, KV.lt d e = true) :
    Separates (b :: L) (d :: D) := by
  refine ⟨by simp [hrest.len], ?_, ?_⟩
  · intro i d' blk e hd hb he
    cases i with
    | zero =>
      simp only [List.getElem?_cons_zero, Option.some.injEq] at hd hb
      subst hd; subst hb; exact hge e he
    | succ i =>
      simp only [List.getElem?_cons_succ] at hd hb
      exact hrest.ge i d' blk e hd hb he
  · intro i d' blk e hd hb he
    cases i with
    | zero =>
      simp only [List.getElem?_cons_zero, Option.some.injEq, Nat.zero_add, List.getElem?_cons_succ] at hd hb
      subst hd; exact hlt blk hb e he
    | succ i =>
      simp only [List.getElem?_cons_succ] at hd hb
      exact hrest.lt i d' blk e hd hb he

/-- **C10** `divide_keys` yields separating dividers: cut a sorted entry list into non-empty
    blocks *anywhere*; the index keys the builder computes (`dividersOf`) separate the blocks. -/
theorem dividersOf_separates : ∀ (L : List (List KV)), (∀ b ∈ L, b ≠ []) → Sorted L.flatten →
    Separates L (dividersOf L)
  | [], _, _ => ⟨rfl, by intro i d blk e hd; simp [dividersOf] at hd, by intro i d blk e hd; simp [dividersOf] at hd⟩
  | [b], hne, hs => by
    have hb : b ≠ [] := hne b (List.mem_singleton.mpr rfl)
    obtain ⟨l, hl⟩ : ∃ l, b.getLast? = some l := by
      cases h : b.getLast? with
      | none => exact absurd (List.getLast?_eq_none_iff.mp h) hb
      | some l => exact ⟨l, rfl⟩
    have hsb : Sorted b := by simpa [Sorted] using hs
    simp only [dividersOf, hl]
    refine separates_cons ⟨rfl, by intro i d blk e hd; simp at hd, by intro i d blk e hd; simp at hd⟩ ?_ ?_
    · intro e he
      -- d ≥ l ≥ e
      have hd := (divideKeys_between l.key l.ts _ _ (minimalSuccessor_gt l.key l.ts)).1
      have hle := le_getLast hsb hl he
      cases hlt : KV.lt (dividerOf l (minimalSuccessor l.key l.ts).1 (minimalSuccessor l.key l.ts).2) e with
      | false => rfl
      | true =>
        -- d < e ≤ l contradicts l ≤ d
        by_cases hel : e = l
        · subst hel; unfold KV.lt dividerOf at hlt; simp only at hlt; rw [hd] at hlt; cases hlt
        · have : KV.lt e l = true := by
            have hp := List.pairwise_iff_getElem.mp hsb
            -- e ≠ l, l ≤ e false → e < l by totality on sorted list: use membership order
            obtain ⟨i, hi, rfl⟩ := List.getElem_of_mem he
            have hlm := List.mem_of_getLast? hl
            obtain ⟨j, hj, rfl⟩ := List.getElem_of_mem hlm
            rcases Nat.lt_trichotomy i j with h | h | h
            · exact hp i j hi hj h
            · subst h; exact absurd rfl hel
            · have := hp j i hj hi h; rw [this] at hle; cases hle
          have := kvlt_trans hlt this
          unfold KV.lt dividerOf at this; simp only at this; rw [hd] at this; cases this
    · intro blk hb; simp at hb
  | b :: c :: rest, hne, hs => by
    have hb : b ≠ [] := hne b (List.mem_cons_self ..)
    have hc : c ≠ [] := hne c (List.mem_cons_of_mem _ (List.mem_cons_self ..))
    obtain ⟨l, hl⟩ : ∃ l, b.getLast? = some l := by
      cases h : b.getLast? with
      | none => exact absurd (List.getLast?_eq_none_iff.mp h) hb
      | some l => exact ⟨l, rfl⟩
    obtain ⟨f, hf⟩ : ∃ f, c.head? = some f := by
      cases c with
      | nil => exact absurd rfl hc
      | cons f _ => exact ⟨f, rfl⟩
    have hs2 : Sorted (b ++ (c :: rest).flatten) := by simpa [Sorted] using hs
    have hsp := List.pairwise_append.mp hs2
    have hsb : Sorted b := hsp.1
    have hlm : l ∈ b := List.mem_of_getLast? hl
    have hfm : f ∈ c := List.mem_of_head? hf
    have hlf : KV.lt l f = true := hsp.2.2 l hlm f (by simp [hfm])
    have hd := divideKeys_between l.key l.ts f.key f.ts hlf
    simp only [dividersOf, hl, hf]
    refine separates_cons (dividersOf_separates (c :: rest) (fun x hx => hne x (List.mem_cons_of_mem _ hx)) hsp.2.1) ?_ ?_
    · intro e he
      have hle := le_getLast hsb hl he
      cases hlt : KV.lt (dividerOf l f.key f.ts) e with
      | false => rfl
      | true =>
        by_cases hel : e = l
        · subst hel; unfold KV.lt dividerOf at hlt; simp only at hlt; rw [hd.1] at hlt; cases hlt
        · have : KV.lt e l = true := by
            have hp := List.pairwise_iff_getElem.mp hsb
            obtain ⟨i, hi, rfl⟩ := List.getElem_of_mem he
            obtain ⟨j, hj, rfl⟩ := List.getElem_of_mem hlm
            rcases Nat.lt_trichotomy i j with h | h | h
            · exact hp i j hi hj h
            · subst h; exact absurd rfl hel
            · have := hp j i hj hi h; rw [this] at hle; cases hle
          have := kvlt_trans hlt this
          unfold KV.lt dividerOf at this; simp only at this; rw [hd.1] at this; cases this
    · intro blk hblk e he
      simp only [List.getElem?_cons_zero, Option.some.injEq] at hblk
      subst hblk
      -- d < f ≤ e
      have hdf : KV.lt (dividerOf l f.key f.ts) f = true := by
        unfold KV.lt dividerOf; simp only; exact hd.2
      by_cases hef : e = f
      · subst hef; exact hdf
      · have hsc : Sorted c := by
          have := hsp.2.1
          have : Sorted (c ++ rest.flatten) := by simpa [Sorted] using this
          exact (List.pairwise_append.mp this).1
        have hfe : KV.lt f e = true := by
          cases c with
          | nil => cases he
          | cons x xs =>
            simp only [List.head?_cons, Option.some.injEq] at hf
            subst hf
            rcases List.mem_cons.mp he with rfl | he'
            · exact absurd rfl hef
            · exact (List.pairwise_cons.mp hsc).1 e he'
        exact kvlt_trans hdf hfe

/-- **C10** together: over any cut of a sorted entry list into non-empty blocks, with the index
    keys `divide_keys` / `minimal_successor_key` produce, every program of the table cursor shows
    what a cursor over the whole list shows. -/
theorem cut_cursor_refines (L : List (List KV)) (hne : ∀ b ∈ L, b ≠ []) (hs : Sorted L.flatten)
    (ops : List KOp) :
    SstCur.run ⟨L, dividersOf L, 0, none⟩ (ops.map KOp.toOp) = Ref.run ⟨L.flatten, 0⟩ (ops.map KOp.toOp) := by
  apply sst_cursor_refines (L := L) (D := dividersOf L) hne _ 0 none 0 SRel.first
  intro pred hp
  obtain ⟨op, _, hop⟩ := List.mem_map.mp hp
  cases op <;> simp [KOp.toOp] at hop
  subst hop
  exact separates_divOk (dividersOf_separates L hne hs) _

/-- the driver's table step is the generic step -/
theorem sstep_eq (c : SstCur KV) (op : KOp) : sstep c op = c.step op.toOp := by
  cases op <;> rfl

end Blue.Sst
