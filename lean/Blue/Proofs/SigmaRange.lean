import Blue.Proofs.SigmaBuckets
import Blue.Proofs.CsaDoc
/-! `Sigma::sa_range_for` on the bucket bit vector is the block of suffixes that start with the
    symbol (`Blue.CsaDoc.sigmaRange` of the index built over the translated text). -/
namespace Blue.Sigma
open Blue.BitVec Blue.Sampled Blue.Csa Blue.CsaDoc

/-- the `Sigma` of a text (what `construct` returns, `construct_eq`) -/
def sigOf (text : List Nat) : Sig :=
  ⟨(countsOf text).map (·.1),
   presentBits ((bucketsFrom 0 ((countsOf text).map (·.2))).getLastD 0 + 1) (bucketsFrom 0 ((countsOf text).map (·.2)))⟩

theorem construct_sigOf (text : List Nat) : construct text = some (sigOf text) := construct_eq text

theorem sigOf_sorted (text : List Nat) : (sigOf text).sigmaToChar.Pairwise (· < ·) := (table_countsOf text).keys

theorem sigOf_mem (text : List Nat) (t : Nat) : t ∈ (sigOf text).sigmaToChar ↔ t ∈ text :=
  (sigmaToChar_sorted text (sigOf text) (construct_sigOf text)).2 t

/-- the buckets of a text -/
def bucketsOf (text : List Nat) : List Nat := bucketsFrom 0 ((countsOf text).map (·.2))

theorem bucketsOf_last (text : List Nat) : (bucketsOf text).getLastD 0 = text.length := by
  unfold bucketsOf; rw [bucketsFrom_getLastD, sum_counts]; omega

theorem sigOf_columns (text : List Nat) : (sigOf text).columns = presentBits (text.length + 1) (bucketsOf text) := by
  have := bucketsOf_last text
  unfold bucketsOf at this
  unfold sigOf bucketsOf
  simp only
  rw [this]

theorem bucketsOf_pairwise (text : List Nat) : (bucketsOf text).Pairwise (· < ·) := by
  apply bucketsFrom_pairwise
  intro c hc
  obtain ⟨ac, hac, rfl⟩ := List.mem_map.mp hc
  exact (table_countsOf text).pos ac hac

theorem bucketsOf_lt (text : List Nat) : ∀ b ∈ bucketsOf text, b < text.length + 1 := by
  intro b hb
  have := bucketsFrom_le_last _ 0 b hb
  rw [sum_counts] at this
  omega

theorem bucketsOf_length (text : List Nat) : (bucketsOf text).length = (countsOf text).length + 1 := by
  unfold bucketsOf; rw [bucketsFrom_length]; simp

theorem bucketsOf_getElem (text : List Nat) (j : Nat) (hj : j < (bucketsOf text).length) :
    (bucketsOf text)[j] = (((countsOf text).map (·.2)).take j).sum := by
  have hj' : j ≤ ((countsOf text).map (·.2)).length := by
    rw [bucketsOf_length] at hj; simp; omega
  have := bucketsFrom_getElem? ((countsOf text).map (·.2)) 0 j hj'
  unfold bucketsOf at hj ⊢
  rw [List.getElem?_eq_getElem hj] at this
  have := Option.some.inj this
  omega

theorem bucketsOf_succ (text : List Nat) (j : Nat) (hj : j < (countsOf text).length) :
    (bucketsOf text)[j + 1]'(by rw [bucketsOf_length]; omega)
      = (bucketsOf text)[j]'(by rw [bucketsOf_length]; omega) + (countsOf text)[j].2 := by
  rw [bucketsOf_getElem, bucketsOf_getElem]
  have hj' : j < ((countsOf text).map (·.2)).length := by simpa using hj
  rw [List.take_succ_eq_append_getElem hj', List.sum_append]
  simp

/-- **C19** `sa_range_for_sigma(σ)` for the `σ`-th code point (`σ = j + 1`): one past the number of
    smaller symbols (the end marker counts) up to the number of symbols not greater -/
theorem saRangeForSigma_sigOf (text : List Nat) (j : Nat) (hj : j < (countsOf text).length) :
    saRangeForSigma (sigOf text) (j + 1)
      = some ((bucketsOf text)[j]'(by rw [bucketsOf_length]; omega) + 1,
              (bucketsOf text)[j + 1]'(by rw [bucketsOf_length]; omega)) := by
  unfold saRangeForSigma
  rw [sigOf_columns]
  rw [select_presentBits _ _ (bucketsOf_pairwise text) (bucketsOf_lt text) j (by rw [bucketsOf_length]; omega)]
  rw [select_presentBits _ _ (bucketsOf_pairwise text) (bucketsOf_lt text) (j + 1) (by rw [bucketsOf_length]; omega)]
  simp

/-! ### the translated text and its index -/

/-- the dense symbol of the `j`-th code point is `j + 1` -/
theorem charToSigma_key (text : List Nat) (j : Nat) (hj : j < (countsOf text).length) :
    charToSigma (sigOf text) (countsOf text)[j].1 = some (j + 1) := by
  rw [charToSigma_iff _ (sigOf_sorted text)]
  refine ⟨by omega, ?_⟩
  unfold sigmaToChar
  rw [if_neg (by omega), Nat.add_sub_cancel]
  unfold sigOf
  simp only
  rw [List.getElem?_map, List.getElem?_eq_getElem hj]
  rfl

/-- every symbol of the text has a dense symbol `j + 1`, `j` the position of its code point -/
theorem charToSigma_of_mem (text : List Nat) (t : Nat) (ht : t ∈ text) :
    ∃ j, ∃ hj : j < (countsOf text).length, (countsOf text)[j].1 = t ∧ charToSigma (sigOf text) t = some (j + 1) := by
  have hm := (sigOf_mem text t).mpr ht
  unfold sigOf at hm
  simp only at hm
  obtain ⟨j, hj, hjt⟩ := List.getElem_of_mem hm
  have hj' : j < (countsOf text).length := by simpa using hj
  have e : (countsOf text)[j].1 = t := by simpa using hjt
  exact ⟨j, hj', e, by rw [← e]; exact charToSigma_key text j hj'⟩

theorem needleSym_of_mem (text : List Nat) (t : Nat) (ht : t ∈ text) :
    charToSigma (sigOf text) t = some (needleSym (sigOf text) t) := by
  obtain ⟨j, hj, _, h⟩ := charToSigma_of_mem text t ht
  unfold needleSym; rw [h]; rfl

theorem needleSym_absent (text : List Nat) (t : Nat) (ht : t ∉ text) :
    needleSym (sigOf text) t = K (sigOf text) := by
  have : charToSigma (sigOf text) t = none := (charToSigma_none_iff _ t).mpr (fun h => ht ((sigOf_mem text t).mp h))
  unfold needleSym; rw [this]; rfl

theorem needleSym_pos (text : List Nat) (t : Nat) : needleSym (sigOf text) t ≠ 0 := by
  unfold needleSym
  cases h : charToSigma (sigOf text) t with
  | none => simp [K]
  | some σ => have := (charToSigma_range _ t σ h).1; simp; omega

theorem needleSym_le (text : List Nat) (t : Nat) : needleSym (sigOf text) t ≤ K (sigOf text) := by
  unfold needleSym
  cases h : charToSigma (sigOf text) t with
  | none => simp
  | some σ => have := (charToSigma_range _ t σ h).2; simp; omega

theorem needleSym_lt_of_mem (text : List Nat) (t : Nat) (ht : t ∈ text) : needleSym (sigOf text) t < K (sigOf text) := by
  have h := needleSym_of_mem text t ht
  exact (charToSigma_range _ t _ h).2

/-- the text as the index sees it -/
def translated (text : List Nat) : List Nat := text.map (needleSym (sigOf text)) ++ [0]

theorem allSome_map_some {α β : Type} (f : α → Option β) (g : α → β) : ∀ (xs : List α),
    (∀ x ∈ xs, f x = some (g x)) → allSome (xs.map f) = some (xs.map g)
  | [], _ => rfl
  | x :: t, h => by
    rw [List.map_cons, h x List.mem_cons_self]
    unfold allSome
    rw [allSome_map_some f g t (fun y hy => h y (List.mem_cons_of_mem _ hy))]
    rfl

/-- **C19** `translate_text` succeeds on the text the alphabet was built from -/
theorem translate_sigOf (text : List Nat) : translate (sigOf text) text = some (translated text) := by
  unfold translate translated
  rw [allSome_map_some (charToSigma (sigOf text)) (needleSym (sigOf text)) text (needleSym_of_mem text)]
  rfl

theorem translated_marked (text : List Nat) : Marked (translated text) := by
  simp [Marked, translated]

/-! ### heads of the suffixes -/

theorem heads_suffixes (T : List Nat) : (suffixes T).map (fun s => s.headD 0) = T := by
  apply List.ext_getElem
  · simp [suffixes]
  · intro i h1 h2
    simp only [suffixes, List.getElem_map, List.getElem_range]
    rw [List.drop_eq_getElem_cons h2]
    rfl

theorem countP_heads (T : List Nat) {l : List (List Nat)} (hperm : l.Perm (suffixes T)) (p : Nat → Bool) :
    l.countP (fun s => p (s.headD 0)) = T.countP p := by
  have h1 : l.countP (fun s => p (s.headD 0)) = (l.map (fun s => s.headD 0)).countP p := by
    rw [List.countP_map]; rfl
  rw [h1, (hperm.map _).countP_eq, heads_suffixes]

theorem countP_translated (text : List Nat) (p : Nat → Bool) :
    (translated text).countP p = text.countP (fun t => p (needleSym (sigOf text) t)) + (if p 0 then 1 else 0) := by
  unfold translated
  rw [List.countP_append, List.countP_map]
  congr 1
  cases h : p 0 <;> simp [h]

/-- **C19** on the index of the translated text, the block of suffixes starting with the `σ`-th code
    point is what `sa_range_for_sigma(σ)` reads off the bucket bit vector -/
theorem sigmaRange_key (text : List Nat) {l : List (List Nat)} (hperm : l.Perm (suffixes (translated text)))
    (j : Nat) (hj : j < (countsOf text).length) :
    some (sigmaRange l (j + 1)) = saRangeForSigma (sigOf text) (j + 1) := by
  rw [saRangeForSigma_sigOf text j hj]
  have hkey := charToSigma_key text j hj
  have hs := sigOf_sorted text
  -- smaller symbols
  have hlo : l.countP (fun s => decide (s.headD 0 < j + 1))
      = (bucketsOf text)[j]'(by rw [bucketsOf_length]; omega) + 1 := by
    rw [countP_heads _ hperm (fun c => decide (c < j + 1)), countP_translated]
    simp only [Nat.zero_lt_succ, decide_true, if_true]
    congr 1
    rw [bucketsOf_getElem, ← countP_lt_key text j hj]
    apply List.countP_congr
    intro t ht
    have h1 := needleSym_of_mem text t ht
    have := charToSigma_mono _ hs t (countsOf text)[j].1 _ _ h1 hkey
    simp only [decide_eq_true_eq]
    exact this.symm
  -- equal symbols
  have hcnt : l.countP (fun s => s.headD 0 == j + 1) = (countsOf text)[j].2 := by
    rw [countP_heads _ hperm (fun c => c == j + 1), countP_translated]
    have : ((0 : Nat) == j + 1) = false := by simp
    rw [this]
    simp only [Bool.false_eq_true, if_false, Nat.add_zero]
    rw [← countP_eq_key text j hj]
    apply List.countP_congr
    intro t ht
    have h1 := needleSym_of_mem text t ht
    simp only [beq_iff_eq]
    constructor
    · intro h
      rw [h] at h1
      have a := (charToSigma_iff _ hs t (j + 1)).mp h1
      have b := (charToSigma_iff _ hs (countsOf text)[j].1 (j + 1)).mp hkey
      rw [a.2] at b
      exact Option.some.inj b.2
    · intro h
      have h2 : charToSigma (sigOf text) t = some (j + 1) := by rw [h]; exact hkey
      rw [h2] at h1
      exact (Option.some.inj h1).symm
  have hpos := (table_countsOf text).pos _ (List.getElem_mem hj)
  unfold sigmaRange
  simp only
  rw [hlo, hcnt, if_neg (by omega), bucketsOf_succ text j hj]
  congr 2
  omega

/-- the first unused dense symbol has the empty range, like a code point that does not occur -/
theorem sigmaRange_K (text : List Nat) {l : List (List Nat)} (hperm : l.Perm (suffixes (translated text))) :
    sigmaRange l (K (sigOf text)) = (1, 0) := by
  have hcnt : l.countP (fun s => s.headD 0 == K (sigOf text)) = 0 := by
    rw [countP_heads _ hperm (fun c => c == K (sigOf text)), countP_translated]
    have : ((0 : Nat) == K (sigOf text)) = false := by simp [K]
    rw [this]
    simp only [Bool.false_eq_true, if_false, Nat.add_zero]
    rw [List.countP_eq_zero]
    intro t ht
    have := needleSym_lt_of_mem text t ht
    simp; omega
  unfold sigmaRange
  simp only
  rw [hcnt]
  simp

/-- **C19** `Sigma::sa_range_for(t)` on any code point — occurring or not — is the symbol range the
    index model uses for the needle symbol of `t` -/
theorem rangeForT_eq (text : List Nat) {l : List (List Nat)} (hperm : l.Perm (suffixes (translated text)))
    (t : Nat) : rangeForT (sigOf text) t = sigmaRange l (needleSym (sigOf text) t) := by
  unfold rangeForT saRangeFor
  by_cases ht : t ∈ text
  · obtain ⟨j, hj, _, h⟩ := charToSigma_of_mem text t ht
    have hn : needleSym (sigOf text) t = j + 1 := by unfold needleSym; rw [h]; rfl
    rw [h, hn]
    simp only
    rw [← sigmaRange_key text hperm j hj]
    rfl
  · have : charToSigma (sigOf text) t = none := (charToSigma_none_iff _ t).mpr (fun h => ht ((sigOf_mem text t).mp h))
    rw [this, needleSym_absent text t ht, sigmaRange_K text hperm]
    rfl

end Blue.Sigma
