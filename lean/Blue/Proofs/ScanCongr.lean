import Blue.Proofs.ScanSpec
/-! **C03 / C05** a range scan depends only on the *set* of versions the store holds: two strictly
    sorted lists with the same members are the same list, so the list `scan_spec` assigns to the
    store before and after a compaction that drops nothing is the same. -/
namespace Blue.Spec
open Blue.Cursor
variable {E : Type}

theorem sorted_ext {lt : E → E → Bool} (st : StrictTotal lt) :
    ∀ (a b : List E), a.Pairwise (fun x y => lt x y = true) → b.Pairwise (fun x y => lt x y = true) →
      (∀ e, e ∈ a ↔ e ∈ b) → a = b
  | [], [], _, _, _ => rfl
  | [], y :: ys, _, _, h => by have := (h y).mpr List.mem_cons_self; cases this
  | x :: xs, [], _, _, h => by have := (h x).mp List.mem_cons_self; cases this
  | x :: xs, y :: ys, ha, hb, h => by
    rw [List.pairwise_cons] at ha hb
    -- the heads are the minima
    have hxy : x = y := by
      have hx := (h x).mp List.mem_cons_self
      have hy := (h y).mpr List.mem_cons_self
      rcases List.mem_cons.mp hx with e | hx'
      · exact e
      · rcases List.mem_cons.mp hy with e | hy'
        · exact e.symm
        · have h1 := hb.1 x hx'
          have h2 := ha.1 y hy'
          have := st.trans _ _ _ h1 h2
          rw [st.irrefl] at this; cases this
    subst hxy
    congr 1
    apply sorted_ext st xs ys ha.2 hb.2
    intro e
    constructor
    · intro he
      have hne : e ≠ x := by
        intro e'; subst e'
        have := ha.1 e he; rw [st.irrefl] at this; cases this
      rcases List.mem_cons.mp ((h e).mp (List.mem_cons_of_mem _ he)) with e' | he'
      · exact absurd e' hne
      · exact he'
    · intro he
      have hne : e ≠ x := by
        intro e'; subst e'
        have := hb.1 e he; rw [st.irrefl] at this; cases this
      rcases List.mem_cons.mp ((h e).mpr (List.mem_cons_of_mem _ he)) with e' | he'
      · exact absurd e' hne
      · exact he'

variable {K : Type} [DecidableEq K]

/-- **C03 / C05** the list a scan shows is a function of the store's set of versions: if the merged
    lists of two families have the same members (a compaction that drops nothing; a flush; a
    trivial move), `scan_spec` assigns both the same list, at every timestamp and for all bounds -/
theorem scan_list_congr {klt : K → K → Bool} (st : StrictTotal klt) (M M' : List (Ver K))
    (hs : Sorted klt M) (hs' : Sorted klt M') (hsame : ∀ e, e ∈ M ↔ e ∈ M')
    (t : Nat) (tomb : Ver K → Bool) (sb eb : Bound K) :
    (M.filter (isLive M t tomb)).filter (inRange klt sb eb)
      = (M'.filter (isLive M' t tomb)).filter (inRange klt sb eb) := by
  have : M = M' := sorted_ext (vlt_strictTotal st) M M' hs hs' hsame
  rw [this]

end Blue.Spec

#print axioms Blue.Spec.sorted_ext
#print axioms Blue.Spec.scan_list_congr
