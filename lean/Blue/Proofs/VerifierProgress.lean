import Blue.Proofs.VerifierCrash
import Blue.Proofs.VerifierWitness
/-! Progress of the offline verifier (C08; the theorems of `Blue/Proofs/Verifier*.lean` are safety
    statements — a checker that never passes makes every pass empty).

    `Processable C g ents`: every entry of `ents` is processable, each in the directory the ones
    before it leave (`absStep`, the abstract one-step pass of `VerifierCrash`): the entry is not
    numbered below `M`, the files its edits read are in `trash/` or `sst/`, the checker passes it
    against the accumulator `O` of that moment, its `L` fields parse, and every name of its plan is in
    `trash/` (`processable_means`).  For EVERY number of entries and every contents:
    * `passFrom_progress` / `pass_progress`: from a directory with nothing pending the real pass
      (`possibly_complete_processing`, intent, unlink of the fragment, unlinks in `trash/`, clear —
      per entry) returns `Ok`, performs at least 3 durable actions per entry, the unlink of the
      fragment among them, and ends in the directory the abstract pass ends in: the processed
      fragments gone, nothing logged, `M` at the last processed number, `trash/` without exactly the
      names of the plans (`absFrom_trash`);
    * `pass_fixed_point`: the next pass has no entry and does nothing — one pass suffices.
    Pending intents (the leftover of a crash between the unlink of the last processable fragment and
    the unlinks of its files): `pending_finished_by_next_entry` — a pass over ANY sorted directory
    with the same `verify/` state and at least one entry, none numbered below `M`, starts with the
    actions that finish the intent, whatever the checker says about the entry;
    `leftover_stays_until_rollover` — with no entry, every pass is empty: the files stay in `trash/`
    (a leak until the next rollover, never a removal of something needed). -/
namespace Blue.Verifier
open Blue.Mani

variable {A : Type}

/-- nothing pending: nothing logged, and `M` (if any) is below every fragment left -/
def Clean (d : Dir A) : Prop := d.vstrs = [] ∧ ∀ m, d.vM = some m → ∀ f, f ∈ d.frags → m < f.1

/-- every entry of the list is processable, each in the directory the ones before it leave -/
def Processable (C : Checker A) : Dir A → List (Nat × List Edit) → Prop
  | _, [] => True
  | g, (n, es) :: rest => ∃ g', absStep C g n es = some g' ∧ Processable C g' rest

/-- what "processable" says of one entry, in primitive terms -/
theorem processable_means (C : Checker A) (g : Dir A) (n : Nat) (es : List Edit) (g' : Dir A) :
    absStep C g n es = some g' ↔
      outOfOrder g n = false ∧ ∃ o names, checkAll C g es = some o ∧ plan C.asWas (laterRm g n) es = some names
        ∧ (∀ x, x ∈ names → x ∈ g.trash) ∧ g' = finish (g.apply (Act.intent n es names o)) := by
  constructor
  · intro h
    unfold absStep at h
    cases ho : outOfOrder g n with
    | true => rw [ho] at h; simp at h
    | false =>
      rw [ho] at h
      simp only [Bool.false_eq_true, if_false] at h
      cases hck : checkAll C g es with
      | none => rw [hck] at h; simp at h
      | some o =>
        cases hp : plan C.asWas (laterRm g n) es with
        | none => rw [hck, hp] at h; simp at h
        | some names =>
          rw [hck, hp] at h
          simp only at h
          cases hall : names.all (fun x => g.trash.contains x) with
          | false => rw [hall] at h; simp at h
          | true =>
            rw [hall] at h
            simp only [if_true, Option.some.injEq] at h
            exact ⟨rfl, o, names, rfl, rfl,
              fun x hx => List.contains_iff_mem.mp (List.all_eq_true.mp hall x hx), h.symm⟩
  · rintro ⟨ho, o, names, hck, hp, ht, rfl⟩
    exact absStep_processed C g n es o names ho hck hp ht

theorem completeList_self_cons (d : Dir A) (n : Nat) (h : d.frags.any (fun f => f.1 == n) = true) :
    completeList d n n = Act.unlinkFrag n ::
      ((d.vstrs.filter (fun x => d.trash.contains x)).map Act.unlinkTrash ++ [Act.clear]) := by
  unfold completeList
  rw [if_pos ⟨rfl, h⟩]; rfl

theorem clean_finish {d : Dir A} (h : Clean d) : finish d = d :=
  finish_clean d h.1 (fun m hm f hf => Nat.ne_of_gt (h.2 m hm f hf))

/-- one processable entry, abstractly: the context and cleanliness pass to the next entry -/
theorem absStep_ctx (C : Checker A) {g : Dir A} {n : Nat} {es : List Edit} {rest tl : List (Nat × List Edit)}
    (hc : Ctx g ((n, es) :: rest) tl) {g' : Dir A} (h : absStep C g n es = some g') :
    Ctx g' rest tl ∧ Clean g' ∧ g'.vM = some n ∧ g'.sst = g.sst ∧ g'.live = g.live := by
  obtain ⟨_, o, names, _, _, _, rfl⟩ := (processable_means C g n es g').mp h
  have hc2 : Ctx (g.apply (Act.intent n es names o)) ((n, es) :: rest) tl :=
    ctx_same hc _ rfl (fun h => by cases h)
  have hcs := complete_self hc2 rfl
  refine ⟨ctx_tail hc2 _ hcs.2.1 rfl, ⟨rfl, ?_⟩, rfl, rfl, rfl⟩
  intro m hm f hf
  have hm' : some n = some m := hm
  cases hm'
  rw [hcs.2.1] at hf
  exact head_least hc f hf

/-- **the real pass over processable entries, every number of entries**: from a directory with
    nothing pending it returns `Ok`, ends where the abstract pass ends, makes at least 3 durable
    actions per entry (intent, unlink of the fragment, clear — plus the unlinks in `trash/`), and
    unlinks the fragment of every entry -/
theorem passFrom_progress (C : Checker A) : ∀ (ents : List (Nat × List Edit)) (d : Dir A) (tl : List (Nat × List Edit)),
    Ctx d ents tl → Clean d → Processable C d ents →
    (passFrom C d ents).2 = .ok ∧ run d (passFrom C d ents).1 = absFrom C d ents
      ∧ 3 * ents.length ≤ (passFrom C d ents).1.length
      ∧ ∀ f, f ∈ ents → Act.unlinkFrag f.1 ∈ (passFrom C d ents).1
  | [], d, _, _, _, _ => ⟨rfl, rfl, Nat.le_refl _, fun f hf => by cases hf⟩
  | (n, es) :: rest, d, tl, hc, hcl, ⟨g', hstep, hrest⟩ => by
    have hfin : finish d = d := clean_finish hcl
    have hnin : (n, es) ∈ d.frags := by rw [hc.frags]; exact List.mem_cons_self
    have hmne : d.vM ≠ some n := fun hm => Nat.lt_irrefl n (hcl.2 n hm (n, es) hnin)
    have hs := processOne_shape C d n es
    generalize hr : processOne C d n es = r at hs
    cases hs with
    | outOfOrder h1 =>
      obtain ⟨m, hm, hlt⟩ := completeActs_none_iff d n h1
      have hmn : m < n := hcl.2 m hm (n, es) hnin
      omega
    | resumed a1 h1 hm => exact absurd hm hmne
    | stopped a1 st h1 hm hne hreason =>
      have hco := complete_other hc a1 h1 hm
      rw [hco.1, hfin] at hreason
      have := absStep_stopped C d n es hcl.1 hreason
      rw [this] at hstep; cases hstep
    | processed a1 o names h1 hm hv hck hp ht =>
      have hco := complete_other hc a1 h1 hm
      have hrun : run d a1 = d := hco.1.trans hfin
      rw [hrun] at hck hp ht hr
      have hst : (processOne C d n es).2 = .ok := by rw [hr]
      have hg' : g' = finish (d.apply (Act.intent n es names o)) := by
        have := absStep_processed C d n es o names (outOfOrder_of_complete d n a1 h1) hck hp ht
        rw [this] at hstep
        exact (Option.some.inj hstep).symm
      have hctx := absStep_ctx C hc hstep
      have hc2 : Ctx (d.apply (Act.intent n es names o)) ((n, es) :: rest) tl :=
        ctx_same hc _ rfl (fun h => by cases h)
      have hcs := complete_self hc2 rfl
      have hrunall : run d (a1 ++ Act.intent n es names o :: completeList (d.apply (Act.intent n es names o)) n n) = g' := by
        rw [run_append, hrun, run_cons, hcs.1, hg']
      obtain ⟨ih1, ih2, ih3, ih4⟩ := passFrom_progress C rest g' tl hctx.1 hctx.2.1 hrest
      have hany : (d.apply (Act.intent n es names o)).frags.any (fun f => f.1 == n) = true := by
        show d.frags.any (fun f => f.1 == n) = true
        rw [hc.frags, List.cons_append, List.any_cons]; simp
      have hcl2 := completeList_self_cons (d.apply (Act.intent n es names o)) n hany
      rw [passFrom_ok C d n es rest hst, hr]
      simp only
      rw [hrunall]
      refine ⟨ih1, ?_, ?_, ?_⟩
      · rw [run_append, hrunall, ih2, absFrom_cons, hstep]
      · rw [List.length_append, List.length_append, List.length_cons, hcl2]
        simp only [List.length_cons, List.length_append, List.length_map, List.length_nil]
        omega
      · intro f hf
        rcases List.mem_cons.mp hf with rfl | hf
        · refine List.mem_append_left _ (List.mem_append_right _ (List.mem_cons_of_mem _ ?_))
          rw [hcl2]; exact List.mem_cons_self
        · exact List.mem_append_right _ (ih4 f hf)

/-- the abstract pass over processable entries: the processed fragments are gone, nothing is
    pending, `sst/` and `MANIFEST` are those of the start -/
theorem absFrom_processable (C : Checker A) : ∀ (ents : List (Nat × List Edit)) (g : Dir A) (tl : List (Nat × List Edit)),
    Ctx g ents tl → Clean g → Processable C g ents →
    (absFrom C g ents).frags = tl ∧ Clean (absFrom C g ents)
      ∧ (absFrom C g ents).vM = (match ents.getLast? with | some f => some f.1 | none => g.vM)
      ∧ (absFrom C g ents).sst = g.sst ∧ (absFrom C g ents).live = g.live
  | [], g, tl, hc, hcl, _ => ⟨by show g.frags = tl; simpa using hc.frags, hcl, rfl, rfl, rfl⟩
  | (n, es) :: rest, g, tl, hc, _, ⟨g', hstep, hrest⟩ => by
    obtain ⟨hc', hcl', hm', hs', hl'⟩ := absStep_ctx C hc hstep
    obtain ⟨i1, i2, i3, i4, i5⟩ := absFrom_processable C rest g' tl hc' hcl' hrest
    rw [absFrom_cons, hstep]
    refine ⟨i1, i2, ?_, i4.trans hs', i5.trans hl'⟩
    rw [i3]
    cases rest with
    | nil => exact hm'
    | cons f r =>
      cases hgl : (f :: r).getLast? with
      | none => simp at hgl
      | some y => rw [List.getLast?_cons_cons, hgl]

/-! ### which names leave `trash/` -/

theorem mem_insertStr_self (x : List Nat) : ∀ l : List (List Nat), x ∈ insertStr x l
  | [] => List.mem_cons_self
  | y :: t => by
    unfold insertStr
    split
    · rename_i h; rw [h]; exact List.mem_cons_self
    · split
      · exact List.mem_cons_self
      · exact List.mem_cons_of_mem _ (mem_insertStr_self x t)

theorem mem_insertStr_of_mem {x z : List Nat} : ∀ {l : List (List Nat)}, z ∈ l → z ∈ insertStr x l
  | [], h => by cases h
  | y :: t, h => by
    unfold insertStr
    split
    · exact h
    · split
      · exact List.mem_cons_of_mem _ h
      · rcases List.mem_cons.mp h with rfl | h
        · exact List.mem_cons_self
        · exact List.mem_cons_of_mem _ (mem_insertStr_of_mem h)

theorem mem_foldl_insertStr_iff {z : List Nat} : ∀ (xs acc : List (List Nat)),
    z ∈ xs.foldl (fun acc x => insertStr x acc) acc ↔ z ∈ xs ∨ z ∈ acc
  | [], acc => by simp
  | x :: xs, acc => by
    rw [List.foldl_cons, mem_foldl_insertStr_iff xs (insertStr x acc)]
    constructor
    · rintro (h | h)
      · exact Or.inl (List.mem_cons_of_mem _ h)
      · rcases Blue.Mani.mem_insertStr h with rfl | h
        · exact Or.inl List.mem_cons_self
        · exact Or.inr h
    · rintro (h | h)
      · rcases List.mem_cons.mp h with rfl | h
        · exact Or.inr (mem_insertStr_self _ _)
        · exact Or.inl h
      · exact Or.inr (mem_insertStr_of_mem h)

/-- the names of the plans of the entries, each computed in the directory the ones before leave -/
def plans (C : Checker A) : Dir A → List (Nat × List Edit) → List Name
  | _, [] => []
  | g, (n, es) :: rest =>
    match absStep C g n es, plan C.asWas (laterRm g n) es with
    | some g', some names => names ++ plans C g' rest
    | _, _ => []

/-- **`trash/` after the pass**: a name is there exactly when it was there and no plan names it -/
theorem absFrom_trash (C : Checker A) : ∀ (ents : List (Nat × List Edit)) (g : Dir A) (tl : List (Nat × List Edit)),
    Ctx g ents tl → Clean g → Processable C g ents →
    ∀ x, x ∈ (absFrom C g ents).trash ↔ x ∈ g.trash ∧ x ∉ plans C g ents
  | [], g, _, _, _, _ => fun x => ⟨fun h => ⟨h, fun h' => by cases h'⟩, fun h => h.1⟩
  | (n, es) :: rest, g, tl, hc, hcl, ⟨g', hstep, hrest⟩ => by
    intro x
    obtain ⟨hc', hcl', _, _, _⟩ := absStep_ctx C hc hstep
    obtain ⟨_, o, names, _, hp, _, hg'⟩ := (processable_means C g n es g').mp hstep
    have ih := absFrom_trash C rest g' tl hc' hcl' hrest x
    rw [absFrom_cons, hstep]
    simp only
    rw [ih]
    have hpl : plans C g ((n, es) :: rest) = names ++ plans C g' rest := by
      show (match absStep C g n es, plan C.asWas (laterRm g n) es with
        | some g', some names => names ++ plans C g' rest
        | _, _ => []) = _
      rw [hstep, hp]
    have htr : x ∈ g'.trash ↔ x ∈ g.trash ∧ x ∉ names := by
      rw [hg', finish_trash, List.mem_filter]
      show x ∈ g.trash ∧ (!(names.foldl (fun acc x => insertStr x acc) g.vstrs).contains x) = true ↔ _
      rw [hcl.1]
      constructor
      · rintro ⟨h1, h2⟩
        refine ⟨h1, fun hx => ?_⟩
        have : x ∈ names.foldl (fun acc x => insertStr x acc) [] :=
          (mem_foldl_insertStr_iff names []).mpr (Or.inl hx)
        rw [List.contains_iff_mem.mpr this] at h2
        cases h2
      · rintro ⟨h1, h2⟩
        refine ⟨h1, ?_⟩
        cases hcn : (names.foldl (fun acc x => insertStr x acc) []).contains x with
        | false => rfl
        | true =>
          rcases (mem_foldl_insertStr_iff names []).mp (List.contains_iff_mem.mp hcn) with h | h
          · exact absurd h h2
          · cases h
    rw [htr, hpl, List.mem_append]
    constructor
    · rintro ⟨⟨h1, h2⟩, h3⟩
      exact ⟨h1, fun h => h.elim h2 h3⟩
    · rintro ⟨h1, h2⟩
      exact ⟨⟨h1, fun h => h2 (Or.inl h)⟩, fun h => h2 (Or.inr h)⟩

/-- the later removals an entry's plan leaves alone are those of the ORIGINAL directory: processing
    an entry numbered below `n'` does not change what is numbered above `n'` -/
theorem laterRm_absStep (C : Checker A) {g : Dir A} {n : Nat} {es : List Edit} {rest tl : List (Nat × List Edit)}
    (hc : Ctx g ((n, es) :: rest) tl) {g' : Dir A} (h : absStep C g n es = some g') (n' : Nat) (hn : n < n') :
    laterRm g' n' = laterRm g n' := by
  obtain ⟨hc', _, _, _, hl⟩ := absStep_ctx C hc h
  unfold laterRm
  rw [hl, hc'.frags, hc.frags, List.cons_append, List.filter_cons]
  have : decide (n' < n) = false := decide_eq_false (by omega)
  simp only [this, Bool.false_eq_true, if_false]

/-- every name of `plans` is a name of the plan of one of the entries, computed against the later
    removals of the directory the pass started from -/
theorem plans_mem (C : Checker A) : ∀ (ents : List (Nat × List Edit)) (g : Dir A) (tl : List (Nat × List Edit)),
    Ctx g ents tl → ∀ x, x ∈ plans C g ents →
    ∃ f, f ∈ ents ∧ ∃ names, plan C.asWas (laterRm g f.1) f.2 = some names ∧ x ∈ names
  | [], _, _, _, x, hx => by cases hx
  | (n, es) :: rest, g, tl, hc, x, hx => by
    have hx' : x ∈ (match absStep C g n es, plan C.asWas (laterRm g n) es with
        | some g', some names => names ++ plans C g' rest
        | _, _ => []) := hx
    cases hstep : absStep C g n es with
    | none => rw [hstep] at hx'; cases hx'
    | some g' =>
      cases hp : plan C.asWas (laterRm g n) es with
      | none => rw [hstep, hp] at hx'; cases hx'
      | some names =>
        rw [hstep, hp] at hx'
        rcases List.mem_append.mp hx' with h | h
        · exact ⟨(n, es), List.mem_cons_self, names, hp, h⟩
        · obtain ⟨hc', _⟩ := absStep_ctx C hc hstep
          obtain ⟨f, hf, names', hp', hx''⟩ := plans_mem C rest g' tl hc' x h
          refine ⟨f, List.mem_cons_of_mem _ hf, names', ?_, hx''⟩
          rw [← laterRm_absStep C hc hstep f.1 (rest_gt hc f hf)]
          exact hp'

/-! ### whole passes -/

theorem ctx_entries (d : Dir A) (hs : Sorted d) (hn : NoneEmpty d) (hnil : d.frags ≠ []) :
    Ctx d (entries d) [d.frags.getLast hnil] :=
  ⟨(List.dropLast_concat_getLast hnil).symm, hs, hn⟩

/-- **`pass_progress`**: a whole pass (`LsmVerifier::verify`) over a sorted directory with nothing
    pending and all `n` entries processable -/
theorem pass_progress (C : Checker A) (d : Dir A) (hs : Sorted d) (hcl : Clean d) (hnil : d.frags ≠ [])
    (hp : Processable C d (entries d)) :
    (pass C d).2 = .ok
    ∧ 3 * (entries d).length ≤ (pass C d).1.length
    ∧ (∀ f, f ∈ entries d → Act.unlinkFrag f.1 ∈ (pass C d).1)
    ∧ (final C d).frags = [d.frags.getLast hnil]
    ∧ Clean (final C d)
    ∧ (final C d).vM = (match (entries d).getLast? with | some f => some f.1 | none => d.vM)
    ∧ (∀ x, x ∈ (final C d).trash ↔ x ∈ d.trash ∧ x ∉ plans C d (entries d))
    ∧ (final C d).sst = d.sst ∧ (final C d).live = d.live := by
  have hc := ctx_entries d hs (fun _ => hcl.1) hnil
  obtain ⟨h1, h2, h3, h4⟩ := passFrom_progress C (entries d) d _ hc hcl hp
  obtain ⟨a1, a2, a3, a4, a5⟩ := absFrom_processable C (entries d) d _ hc hcl hp
  have a6 := absFrom_trash C (entries d) d _ hc hcl hp
  have hf : final C d = absFrom C d (entries d) := h2
  rw [hf]
  exact ⟨h1, h3, h4, a1, a2, a3, a6, a4, a5⟩

/-- **`pass_fixed_point`**: after such a pass no entry is left; the next pass (and every pass after
    it, as long as the store adds no fragment) does nothing and returns `Ok` — one pass suffices -/
theorem pass_fixed_point (C : Checker A) (d : Dir A) (hs : Sorted d) (hcl : Clean d) (hnil : d.frags ≠ [])
    (hp : Processable C d (entries d)) :
    entries (final C d) = [] ∧ pass C (final C d) = ([], .ok) ∧ final C (final C d) = final C d := by
  have h := (pass_progress C d hs hcl hnil hp).2.2.2.1
  have he : entries (final C d) = [] := by unfold entries; rw [h]; rfl
  have hpass : pass C (final C d) = ([], .ok) := by unfold pass; rw [he]; rfl
  refine ⟨he, hpass, ?_⟩
  show run (final C d) (pass C (final C d)).1 = _
  rw [hpass]; rfl

/-- … and with crashes: the pass cut after any number `k` of its actions and restarted ends, once a
    still-pending intent is executed (`finish`), in the directory the uninterrupted pass ends in —
    which has nothing pending and no entry -/
theorem crashed_pass_restart_reaches_fixed_point (C : Checker A) (d : Dir A) (hs : Sorted d) (hcl : Clean d)
    (hnil : d.frags ≠ []) (hp : Processable C d (entries d)) (k : Nat) :
    finish (final C (run d ((pass C d).1.take k))) = final C d := by
  rw [crash_converges C d hs (fun _ => hcl.1) k]
  exact clean_finish (pass_progress C d hs hcl hnil hp).2.2.2.2.1

/-! ### a pending intent: who finishes it, and when -/

/-- a directory without an entry (at most one numbered fragment): every pass is empty — whatever is
    logged in `verify/` stays logged, whatever is in `trash/` stays there -/
theorem leftover_stays_until_rollover (C : Checker A) (d : Dir A) (h : entries d = []) :
    pass C d = ([], .ok) ∧ final C d = d := by
  have hpass : pass C d = ([], .ok) := by unfold pass; rw [h]; rfl
  refine ⟨hpass, ?_⟩
  show run d (pass C d).1 = d
  rw [hpass]; rfl

/-- **the first entry of a pass finishes what is pending**: in a sorted directory whose first entry
    is not numbered below `M`, the actions of the pass begin with a list `a1` — the
    `possibly_complete_processing` of the first entry — that ends in `finish d`: the fragment `M`
    names is unlinked if still there, every logged name is out of `trash/`, the log is cleared;
    whatever the checker says about the entry itself -/
theorem pending_finished_by_next_entry (C : Checker A) (d : Dir A) (n : Nat) (es : List Edit)
    (rest tl : List (Nat × List Edit)) (hc : Ctx d ((n, es) :: rest) tl)
    (hord : ∀ m, d.vM = some m → m ≤ n) :
    ∃ a1, a1 <+: (passFrom C d ((n, es) :: rest)).1 ∧ run d a1 = finish d := by
  have hs := processOne_shape C d n es
  generalize hr : processOne C d n es = r at hs
  cases hs with
  | outOfOrder h1 =>
    obtain ⟨m, hm, hlt⟩ := completeActs_none_iff d n h1
    have := hord m hm
    omega
  | resumed a1 h1 hm =>
    have hst : (processOne C d n es).2 = .ok := by rw [hr]
    have ha : a1 = completeList d n n := by
      rw [completeActs_self d n hm] at h1; cases h1; rfl
    subst ha
    rw [passFrom_ok C d n es rest hst, hr]
    exact ⟨_, List.prefix_append _ _, (complete_self hc hm).1⟩
  | stopped a1 st h1 hm hne _ =>
    have hst : (processOne C d n es).2 ≠ .ok := by rw [hr]; exact hne
    rw [passFrom_stop C d n es rest hst, hr]
    exact ⟨a1, List.prefix_refl _, (complete_other hc a1 h1 hm).1⟩
  | processed a1 o names h1 hm _ _ _ _ =>
    have hst : (processOne C d n es).2 = .ok := by rw [hr]
    rw [passFrom_ok C d n es rest hst, hr]
    exact ⟨a1, (List.prefix_append a1 _).trans (List.prefix_append _ _), (complete_other hc a1 h1 hm).1⟩

/-- **`crash_then_rollover_converges`**: let a pass over `d0` be cut after any number `k` of its
    actions (the directory `s`), and let `d'` be ANY sorted directory with the `verify/` state of `s`
    (the store does not write `verify/`) that has at least one entry — the store has rolled its
    manifest over — and no fragment numbered below `M` (the verifier unlinked those; the store numbers
    upwards).  Then the pass over `d'` reaches `finish d'` after some prefix of its actions, and in
    the directory it ends in no name that was logged at the crash is in `trash/`, and the fragment
    `M` named is gone. -/
theorem crash_then_rollover_converges (C : Checker A) (d0 : Dir A) (hs0 : Sorted d0) (hn0 : NoneEmpty d0) (k : Nat)
    (d' : Dir A) (hv : d'.vstrs = (run d0 ((pass C d0).1.take k)).vstrs)
    (hM : d'.vM = (run d0 ((pass C d0).1.take k)).vM) (hs : Sorted d')
    (hent : entries d' ≠ []) (hord : ∀ m, d'.vM = some m → ∀ f, f ∈ d'.frags → m ≤ f.1) :
    (∃ j, run d' ((pass C d').1.take j) = finish d')
    ∧ (∀ x, x ∈ (run d0 ((pass C d0).1.take k)).vstrs → x ∉ (final C d').trash)
    ∧ (∀ m, d'.vM = some m → ∀ f, f ∈ (final C d').frags → f.1 ≠ m) := by
  have hn' : NoneEmpty d' := by
    intro h
    rw [hv]
    exact (crash_keeps C d0 hs0 hn0 k).2.1 (hM ▸ h)
  have hnil : d'.frags ≠ [] := by
    intro h; apply hent; unfold entries; rw [h]; rfl
  have hc := ctx_entries d' hs hn' hnil
  cases he : entries d' with
  | nil => exact absurd he hent
  | cons f rest =>
    obtain ⟨n, es⟩ := f
    rw [he] at hc
    have hmem : (n, es) ∈ d'.frags := by rw [hc.frags]; exact List.mem_cons_self
    obtain ⟨a1, ⟨R, hsplit⟩, hrun⟩ := pending_finished_by_next_entry C d' n es rest _ hc
      (fun m hm => hord m hm (n, es) hmem)
    have hpass : (pass C d').1 = a1 ++ R := by unfold pass; rw [he]; exact hsplit.symm
    have hfinal : final C d' = run (finish d') R := by
      show run d' (pass C d').1 = _
      rw [hpass, run_append, hrun]
    refine ⟨⟨a1.length, by rw [hpass, List.take_left']; exact hrun; rfl⟩, ?_, ?_⟩
    · intro x hx ht
      rw [hfinal] at ht
      have := (run_trash_sublist R (finish d')).subset ht
      have hx' : x ∈ d'.vstrs := by rw [hv]; exact hx
      rw [finish_trash, List.mem_filter, List.contains_iff_mem.mpr hx'] at this
      exact absurd this.2 (by simp)
    · intro m hm f hf
      rw [hfinal] at hf
      have := (run_frags_sublist R (finish d')).subset hf
      rw [finish_frags] at this
      unfold fragsAfter at this
      rw [hm] at this
      have := (List.mem_filter.mp this).2
      simpa using this

/-! ### witnesses -/

def fW4 : List Edit := [rollW fW3]

/-- four chained fragments + MANIFEST: three entries, all processable -/
def dP : Dir Name :=
  { sst := [[99]], trash := [trashSst [97], trashSst [98]], frags := [(1, fW1), (2, fW2), (3, fW3), (4, fW4)],
    live := [rollW fW4], vstrs := [], vM := none, vO := [48], done := [] }

def decProcessable : (ents : List (Nat × List Edit)) → (g : Dir Name) → Decidable (Processable chainChecker g ents)
  | [], _ => isTrue trivial
  | (n, es) :: rest, g =>
    match h : absStep chainChecker g n es with
    | none => isFalse (fun ⟨g', hg, _⟩ => by rw [h] at hg; cases hg)
    | some g' =>
      match decProcessable rest g' with
      | isTrue hp => isTrue ⟨g', h, hp⟩
      | isFalse hp => isFalse (fun ⟨g'', hg, hp'⟩ => by rw [h] at hg; cases hg; exact hp hp')

instance (g : Dir Name) (ents : List (Nat × List Edit)) : Decidable (Processable chainChecker g ents) :=
  decProcessable ents g

theorem dP_hyps : Sorted dP ∧ Clean dP ∧ dP.frags ≠ [] ∧ (entries dP).length = 3
    ∧ Processable chainChecker dP (entries dP) :=
  ⟨by unfold Sorted; decide, ⟨rfl, fun m hm => by cases hm⟩, by decide, by decide, by decide⟩

theorem dW_clean : Sorted dW ∧ Clean dW ∧ dW.frags ≠ [] ∧ (entries dW).length = 2
    ∧ Processable chainChecker dW (entries dW) :=
  ⟨by unfold Sorted; decide, ⟨rfl, fun m hm => by cases hm⟩, by decide, by decide, by decide⟩

/-- `dCut` (the pass over `exD` cut between the unlink of fragment 1 and the unlink of its file: one
    fragment left, no entry, one name logged, the file in `trash/`) after the store has rolled its
    manifest over once more: fragment 3 appears (its contents play no role: the newest numbered
    fragment is never processed) -/
def dCutRolled : Dir Name := { dCut with frags := dCut.frags ++ [(3, [])] }

theorem dCut_leftover : entries dCut = [] ∧ dCut.vstrs = [trashSst [120]] ∧ dCut.trash = [trashSst [120]]
    ∧ dCut.vM = some 1 := by decide

theorem dCutRolled_hyps : dCutRolled.vstrs = dCut.vstrs ∧ dCutRolled.vM = dCut.vM ∧ Sorted dCutRolled
    ∧ entries dCutRolled ≠ [] ∧ (∀ m, dCutRolled.vM = some m → ∀ f, f ∈ dCutRolled.frags → m ≤ f.1) := by
  refine ⟨rfl, rfl, by unfold Sorted; decide, by decide, ?_⟩
  intro m hm
  have : m = 1 := by
    have h : dCutRolled.vM = some 1 := by decide
    rw [h] at hm; exact (Option.some.inj hm).symm
  subst this
  decide

theorem dCutRolled_pass : (final chainChecker dCutRolled).trash = [] ∧ (final chainChecker dCutRolled).vstrs = [] := by
  decide

end Blue.Verifier

#print axioms Blue.Verifier.pass_progress
#print axioms Blue.Verifier.pass_fixed_point
#print axioms Blue.Verifier.crashed_pass_restart_reaches_fixed_point
#print axioms Blue.Verifier.plans_mem
#print axioms Blue.Verifier.crash_then_rollover_converges
#print axioms Blue.Verifier.leftover_stays_until_rollover
#print axioms Blue.Verifier.pending_finished_by_next_entry
