import Blue.Model.Setsum
namespace Blue.Setsum

/-- what makes a modulus usable: the single conditional subtraction suffices for `u32` words -/
def GoodPrime (p : Nat) : Prop := 0 < p ∧ p < U32 ∧ U32 ≤ 2 * p

instance (p : Nat) : Decidable (GoodPrime p) := by unfold GoodPrime; infer_instance

theorem primes_good : ∀ i : Fin 8, GoodPrime primes[i] := by decide

theorem primes_good' (i : Nat) (h : i < 8) : GoodPrime primes[i] := primes_good ⟨i, h⟩

def Canonical (s : State) : Prop := ∀ (i : Nat) (h : i < 8), s[i] < primes[i]

/-! column lemmas -/
theorem addCol_lt {p a b : Nat} (hp : GoodPrime p) (ha : a < p) (hb : b < p) : addCol p a b < p := by
  unfold addCol GoodPrime U32 at *; simp only; split <;> omega

theorem addCol_eq_mod {p a b : Nat} (hp : GoodPrime p) (ha : a < p) (hb : b < p) :
    addCol p a b = (a + b) % p := by
  unfold addCol GoodPrime U32 at *; simp only
  split
  · have : (a + b) % p = a + b - p := by
      rw [Nat.mod_eq_sub_mod (by omega)]; exact Nat.mod_eq_of_lt (by omega)
    rw [this]; omega
  · rw [Nat.mod_eq_of_lt (a := a + b) (b := p) (by omega)]; omega

theorem addCol_comm (p a b : Nat) : addCol p a b = addCol p b a := by
  unfold addCol; rw [Nat.add_comm]

theorem addCol_assoc {p a b c : Nat} (hp : GoodPrime p) (ha : a < p) (hb : b < p) (hc : c < p) :
    addCol p (addCol p a b) c = addCol p a (addCol p b c) := by
  rw [addCol_eq_mod hp (addCol_lt hp ha hb) hc, addCol_eq_mod hp ha (addCol_lt hp hb hc),
    addCol_eq_mod hp ha hb, addCol_eq_mod hp hb hc]
  rw [Nat.mod_add_mod, Nat.add_mod_mod, Nat.add_assoc]

theorem addCol_zero {p a : Nat} (hp : GoodPrime p) (ha : a < p) : addCol p a 0 = a := by
  unfold addCol GoodPrime U32 at *; simp only; split <;> omega

/-- adding the inverse gives zero — note `p - 0 = p` is not canonical, and is still absorbed -/
theorem addCol_inv {p a : Nat} (hp : GoodPrime p) (ha : a < p) : addCol p a (p - a) = 0 := by
  unfold addCol GoodPrime U32 at *; simp only; split <;> omega

theorem addCol_sub_cancel {p a b : Nat} (hp : GoodPrime p) (ha : a < p) (hb : b < p) :
    addCol p (addCol p a b) (p - b) = a := by
  unfold addCol GoodPrime U32 at *; simp only
  split <;> split <;> omega

theorem addCol_inv_lt {p a b : Nat} (hp : GoodPrime p) (ha : a < p) (hb : b < p) : addCol p a (p - b) < p := by
  unfold addCol GoodPrime U32 at *; simp only; split <;> omega

theorem reduceCol_lt {p n : Nat} (hp : GoodPrime p) (hn : n < U32) : reduceCol p n < p := by
  unfold reduceCol GoodPrime U32 at *; split <;> omega

theorem reduceCol_eq_mod {p n : Nat} (hp : GoodPrime p) (hn : n < U32) : reduceCol p n = n % p := by
  unfold reduceCol GoodPrime U32 at *
  split
  · rw [Nat.mod_eq_sub_mod (by omega)]; exact (Nat.mod_eq_of_lt (by omega)).symm
  · exact (Nat.mod_eq_of_lt (by omega)).symm

/-! state lemmas -/
@[simp] theorem addState_get (l r : State) (i : Nat) (h : i < 8) :
    (addState l r)[i] = addCol primes[i] l[i] r[i] := by
  unfold addState; simp

@[simp] theorem hashToState_get (w : Vector Nat 8) (i : Nat) (h : i < 8) :
    (hashToState w)[i] = reduceCol primes[i] w[i] := by
  unfold hashToState; simp

theorem zero_get (i : Nat) (h : i < 8) : zero[i] = 0 := by unfold zero; simp

theorem canonical_zero : Canonical zero := by
  intro i h; rw [zero_get]; exact (primes_good' i h).1

theorem canonical_add {a b : State} (ha : Canonical a) (hb : Canonical b) : Canonical (add a b) := by
  intro i h; unfold add; rw [addState_get]; exact addCol_lt (primes_good' i h) (ha i h) (hb i h)

theorem add_comm (a b : State) : add a b = add b a := by
  apply Vector.ext; intro i h; unfold add; rw [addState_get, addState_get, addCol_comm]

theorem add_assoc {a b c : State} (ha : Canonical a) (hb : Canonical b) (hc : Canonical c) :
    add (add a b) c = add a (add b c) := by
  apply Vector.ext; intro i h; unfold add
  simp only [addState_get]
  exact addCol_assoc (primes_good' i h) (ha i h) (hb i h) (hc i h)

theorem add_zero {a : State} (ha : Canonical a) : add a zero = a := by
  apply Vector.ext; intro i h; unfold add
  rw [addState_get, zero_get]; exact addCol_zero (primes_good' i h) (ha i h)

theorem add_right_comm {z x y : State} (hz : Canonical z) (hx : Canonical x) (hy : Canonical y) :
    add (add z x) y = add (add z y) x := by
  rw [add_assoc hz hx hy, add_comm x y, ← add_assoc hz hy hx]

theorem invertState_canonical {b : State} (hb : Canonical b) :
    invertState b = some (Vector.ofFn fun i => primes[i] - b[i]) := by
  unfold invertState
  rw [if_pos]
  intro i; exact Nat.le_of_lt (hb i.1 i.2)

/-- `a - b` never underflows on canonical values, and is canonical -/
theorem sub_canonical {a b : State} (ha : Canonical a) (hb : Canonical b) :
    ∃ c, sub a b = some c ∧ Canonical c := by
  unfold sub; rw [invertState_canonical hb]
  refine ⟨_, rfl, ?_⟩
  intro i h; rw [addState_get]; simp only [Vector.getElem_ofFn]
  exact addCol_inv_lt (primes_good' i h) (ha i h) (hb i h)

/-- subtraction undoes addition -/
theorem add_sub_cancel {a b : State} (ha : Canonical a) (hb : Canonical b) : sub (add a b) b = some a := by
  unfold sub; rw [invertState_canonical hb]
  simp only [Option.map_some, Option.some.injEq]
  apply Vector.ext; intro i h; unfold add
  simp only [addState_get, Vector.getElem_ofFn]
  exact addCol_sub_cancel (primes_good' i h) (ha i h) (hb i h)

theorem sub_self {a : State} (ha : Canonical a) : sub a a = some zero := by
  unfold sub; rw [invertState_canonical ha]
  simp only [Option.map_some, Option.some.injEq]
  apply Vector.ext; intro i h
  simp only [addState_get, Vector.getElem_ofFn, zero_get]
  exact addCol_inv (primes_good' i h) (ha i h)

/-- a hash is eight 32-bit words -/
def Words (w : Vector Nat 8) : Prop := ∀ (i : Nat) (h : i < 8), w[i] < U32

theorem canonical_hash {w : Vector Nat 8} (hw : Words w) : Canonical (hashToState w) := by
  intro i h; rw [hashToState_get]
  exact reduceCol_lt (primes_good' i h) (hw i h)

theorem canonical_insert {s : State} {w : Vector Nat 8} (hs : Canonical s) (hw : Words w) :
    Canonical (insert s w) := canonical_add hs (canonical_hash hw)

/-- removing an item undoes inserting it -/
theorem remove_insert {s : State} {w : Vector Nat 8} (hs : Canonical s) (hw : Words w) :
    remove (insert s w) w = some s := add_sub_cancel hs (canonical_hash hw)

/-! order independence -/
theorem perm_foldl_inv {α β : Type} {f : β → α → β} {Inv : β → Prop} {P : α → Prop}
    (hinv : ∀ z x, Inv z → P x → Inv (f z x))
    (comm : ∀ z x y, Inv z → P x → P y → f (f z x) y = f (f z y) x)
    {l₁ l₂ : List α} (p : l₁.Perm l₂) :
    (∀ x ∈ l₁, P x) → ∀ init, Inv init → l₁.foldl f init = l₂.foldl f init := by
  induction p with
  | nil => intros; rfl
  | cons x _ ih =>
    intro hP init hi
    simp only [List.foldl_cons]
    exact ih (fun y hy => hP y (List.mem_cons_of_mem _ hy)) _ (hinv _ _ hi (hP x (List.mem_cons_self ..)))
  | swap x y l =>
    intro hP init hi
    simp only [List.foldl_cons]
    rw [comm init y x hi (hP y (List.mem_cons_self ..)) (hP x (List.mem_cons_of_mem _ (List.mem_cons_self ..)))]
  | trans p₁ _ ih₁ ih₂ =>
    intro hP init hi
    rw [ih₁ hP init hi]
    exact ih₂ (fun x hx => hP x (p₁.symm.subset hx)) init hi

theorem canonical_foldl {items : List (Vector Nat 8)} (hw : ∀ w ∈ items, Words w) :
    ∀ {s : State}, Canonical s → Canonical (items.foldl insert s) := by
  induction items with
  | nil => intro s hs; exact hs
  | cons w t ih =>
    intro s hs
    simp only [List.foldl_cons]
    exact ih (fun x hx => hw x (List.mem_cons_of_mem _ hx)) (canonical_insert hs (hw w (List.mem_cons_self ..)))

theorem canonical_ofItems {items : List (Vector Nat 8)} (hw : ∀ w ∈ items, Words w) :
    Canonical (ofItems items) := canonical_foldl hw canonical_zero

/-- **C14** the setsum does not depend on insertion order -/
theorem order_independent {xs ys : List (Vector Nat 8)} (p : xs.Perm ys) (hw : ∀ w ∈ xs, Words w) :
    ofItems xs = ofItems ys := by
  unfold ofItems
  exact perm_foldl_inv (Inv := Canonical) (P := Words)
    (fun z x hz hx => canonical_insert hz hx)
    (fun z x y hz hx hy => add_right_comm hz (canonical_hash hx) (canonical_hash hy))
    p hw zero canonical_zero

theorem foldl_insert_add {ys : List (Vector Nat 8)} (hy : ∀ w ∈ ys, Words w) :
    ∀ {s t : State}, Canonical s → Canonical t →
      ys.foldl insert (add s t) = add s (ys.foldl insert t) := by
  induction ys with
  | nil => intros; rfl
  | cons w r ih =>
    intro s t hs ht
    simp only [List.foldl_cons]
    have hw := canonical_hash (hy w (List.mem_cons_self ..))
    have : insert (add s t) w = add s (insert t w) := add_assoc hs ht hw
    rw [this]
    exact ih (fun x hx => hy x (List.mem_cons_of_mem _ hx)) hs (canonical_add ht hw)

/-- **C14** the setsum of a union is the sum of the setsums -/
theorem union_is_sum {xs ys : List (Vector Nat 8)} (hx : ∀ w ∈ xs, Words w) (hy : ∀ w ∈ ys, Words w) :
    ofItems (xs ++ ys) = add (ofItems xs) (ofItems ys) := by
  unfold ofItems
  rw [List.foldl_append]
  have h1 := canonical_foldl hx canonical_zero
  have := foldl_insert_add hy h1 canonical_zero
  rw [add_zero h1] at this
  exact this

/-- column `i` of the setsum is the sum of the items' words modulo the `i`-th prime: the
    published definition -/
theorem matches_definition (items : List (Vector Nat 8)) (hw : ∀ w ∈ items, Words w) (i : Nat) (h : i < 8) :
    (ofItems items)[i] = (items.map (fun w => w[i])).sum % primes[i] := by
  have key : ∀ (items : List (Vector Nat 8)) (s : State), (∀ w ∈ items, Words w) → Canonical s →
      (items.foldl insert s)[i] = (s[i] + (items.map (fun w => w[i])).sum) % primes[i] := by
    intro items
    induction items with
    | nil => intro s _ hs; simp; exact (Nat.mod_eq_of_lt (hs i h)).symm
    | cons w t ih =>
      intro s hw hs
      have hww := hw w (List.mem_cons_self ..)
      simp only [List.foldl_cons, List.map_cons, List.sum_cons]
      rw [ih _ (fun x hx => hw x (List.mem_cons_of_mem _ hx)) (canonical_insert hs hww)]
      unfold insert
      rw [addState_get, addCol_eq_mod (primes_good' i h) (hs i h) (canonical_hash hww i h)]
      rw [hashToState_get, reduceCol_eq_mod (primes_good' i h) (hww i h)]
      rw [Nat.mod_add_mod]
      generalize s[i] = a, w[i] = b, (List.map (fun w => w[i]) t).sum = c, primes[i] = p
      have e : a + b % p + c = (a + c) + b % p := by omega
      rw [e, Nat.add_mod_mod]; congr 1; omega
  rw [show ofItems items = items.foldl insert zero from rfl, key items zero hw canonical_zero, zero_get]
  simp

end Blue.Setsum
