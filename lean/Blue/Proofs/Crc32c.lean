import Blue.Model.Crc32c
/-! The only fact the log theorems need of the checksum: it is a 32-bit value. -/
namespace Blue.Crc32c

theorem crc32c_lt (bs : List Nat) : crc32c bs < 4294967296 := UInt32.toNat_lt _

/-- the standard check value of CRC-32C: `crc32c("123456789") = 0xE3069283` -/
theorem crc32c_check : crc32c [49, 50, 51, 52, 53, 54, 55, 56, 57] = 0xE3069283 := by decide +kernel

end Blue.Crc32c
