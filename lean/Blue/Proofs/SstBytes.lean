import Blue.Proofs.SstRoundtrip
/-! What `SstBuilder` writes are byte strings when the keys and values it is given are: every
    payload of the file (data blocks, index block) consists of values below 256.  This discharges
    the last hypothesis of `sst_file_roundtrip_crc32c` about the *image* (`hbytes`) from a
    hypothesis about the *input* (`KVBytes` of the attempts, `Bytes` of the filter parameter). -/
namespace Blue.SstOpen
open Blue.Wire Blue.EntryCodec Blue.Block Blue.Sst Blue.Cursor

def Bytes (l : List Nat) : Prop := ∀ x ∈ l, x < 256

/-- keys and values are byte strings -/
def KVBytes (e : KV) : Prop := Bytes e.key ∧ ∀ v, e.val = some v → Bytes v

theorem bytes_nil : Bytes [] := by intro x h; cases h

theorem bytes_append {a b : List Nat} : Bytes (a ++ b) ↔ Bytes a ∧ Bytes b := by
  unfold Bytes
  constructor
  · intro h
    exact ⟨fun x hx => h x (List.mem_append_left _ hx), fun x hx => h x (List.mem_append_right _ hx)⟩
  · intro ⟨h1, h2⟩ x hx
    rcases List.mem_append.mp hx with h | h
    · exact h1 x h
    · exact h2 x h

theorem bytes_varint (x : Nat) : Bytes (encVarint x) := encVarint_bytes x
theorem bytes_tag (t : Tag) : Bytes (encTag t) := encVarint_bytes _

theorem bytes_le32 (n : Nat) : Bytes (le32 n) := by
  intro x hx
  simp only [le32, List.mem_cons, List.mem_nil_iff, or_false] at hx
  rcases hx with rfl | rfl | rfl | rfl <;> omega

theorem bytes_encBytes {b : List Nat} (h : Bytes b) : Bytes (encBytes b) :=
  bytes_append.mpr ⟨bytes_varint _, h⟩

theorem bytes_drop {l : List Nat} (h : Bytes l) (n : Nat) : Bytes (l.drop n) :=
  fun x hx => h x (List.mem_of_mem_drop hx)

theorem bytes_take {l : List Nat} (h : Bytes l) (n : Nat) : Bytes (l.take n) :=
  fun x hx => h x (List.mem_of_mem_take hx)

/-! ### blocks -/
theorem bytes_encEntry (shared : Nat) (e : KV) (h : KVBytes e) : Bytes (encEntry (wireEntry shared e)) := by
  unfold wireEntry
  cases hv : e.val with
  | none =>
    simp only [encEntry, encDel]
    refine bytes_append.mpr ⟨bytes_tag _, bytes_encBytes ?_⟩
    simp only [bytes_append]
    exact ⟨⟨⟨⟨⟨bytes_tag _, bytes_varint _⟩, bytes_tag _⟩, bytes_encBytes (bytes_drop h.1 _)⟩, bytes_tag _⟩, bytes_varint _⟩
  | some v =>
    simp only [encEntry, encPut]
    refine bytes_append.mpr ⟨bytes_tag _, bytes_encBytes ?_⟩
    simp only [bytes_append]
    exact ⟨⟨⟨⟨⟨⟨⟨bytes_tag _, bytes_varint _⟩, bytes_tag _⟩, bytes_encBytes (bytes_drop h.1 _)⟩, bytes_tag _⟩,
      bytes_varint _⟩, bytes_tag _⟩, bytes_encBytes (h.2 v hv)⟩

theorem bytes_foldl (o : Opts) : ∀ (es : List KV) (b : Builder), Bytes b.buffer → (∀ e ∈ es, KVBytes e) →
    Bytes (es.foldl (Builder.add o) b).buffer
  | [], _, hb, _ => hb
  | e :: es, b, hb, he => by
    simp only [List.foldl_cons]
    apply bytes_foldl o es (b.add o e) _ (fun x hx => he x (List.mem_cons_of_mem _ hx))
    rw [add_buffer]
    exact bytes_append.mpr ⟨hb, bytes_encEntry _ e (he e (List.mem_cons_self ..))⟩

theorem bytes_footer (rs : List Nat) : Bytes (footer rs) := by
  unfold footer
  simp only [bytes_append]
  refine ⟨⟨⟨⟨bytes_varint _, bytes_varint _⟩, ?_⟩, bytes_varint _⟩, bytes_le32 _⟩
  intro x hx
  obtain ⟨r, _, hr⟩ := List.mem_flatMap.mp hx
  exact bytes_le32 r x hr

/-- a sealed block of byte-string entries is a byte string -/
theorem bytes_seal (o : Opts) (es : List KV) (h : ∀ e ∈ es, KVBytes e) : Bytes (build o es).seal := by
  unfold Builder.seal build
  exact bytes_append.mpr ⟨bytes_foldl o es Builder.init bytes_nil h, bytes_footer _⟩

/-! ### the index block -/
theorem bytes_encBlockMeta (m : BlockMeta) : Bytes (encBlockMeta m) := by
  unfold encBlockMeta
  simp only [bytes_append]
  exact ⟨⟨⟨⟨⟨bytes_tag _, bytes_varint _⟩, bytes_tag _⟩, bytes_varint _⟩, bytes_tag _⟩, bytes_le32 _⟩

theorem bytes_divideKeys (kl : List Nat) (tl : Nat) (kr : List Nat) (tr : Nat) (hl : Bytes kl) (hr : Bytes kr) :
    Bytes (divideKeys kl tl kr tr).1 := by
  unfold divideKeys
  simp only
  split
  · rename_i a b ha hb
    split
    · apply bytes_append.mpr ⟨bytes_take hl _, ?_⟩
      intro x hx
      simp only [List.mem_singleton] at hx
      have := hr b (List.mem_of_getElem? hb)
      omega
    · exact hl
  · exact hl

theorem bytes_minimalSuccessor (k : List Nat) (t : Nat) (h : Bytes k) : Bytes (minimalSuccessor k t).1 := by
  unfold minimalSuccessor
  split
  · apply bytes_append.mpr ⟨h, ?_⟩
    intro x hx
    simp only [List.mem_singleton] at hx
    omega
  · exact h

/-- the builder has only seen byte strings: its index entries and its last key are byte strings -/
structure BInv (s : SB) : Prop where
  divs : ∀ d ∈ s.divE, KVBytes d
  last : Bytes s.lastKey
  acc : ∀ e ∈ s.accepted, KVBytes e

theorem binv_init : BInv SB.init :=
  ⟨by intro d h; simp [SB.init] at h, bytes_nil, by intro d h; simp [SB.init] at h⟩

theorem binv_flushed {s : SB} {c idx : CBuilder} {k : List Nat} {t : Nat} (h : BInv s) (hk : Bytes k) :
    BInv (flushed s c idx k t) := by
  refine ⟨?_, h.last, h.acc⟩
  intro d hd
  simp only [flushed, List.mem_append, List.mem_singleton] at hd
  rcases hd with hd | rfl
  · exact h.divs d hd
  · refine ⟨bytes_divideKeys _ _ _ _ h.last hk, ?_⟩
    intro v hv
    simp only [indexEntry, Option.some.injEq] at hv
    subst hv
    exact bytes_encBlockMeta _

theorem binv_afterPut {s1 : SB} {c' : CBuilder} {e : KV} (h : BInv s1) (he : KVBytes e) : BInv (afterPut s1 c' e) := by
  refine ⟨h.divs, he.1, ?_⟩
  intro x hx
  simp only [afterPut, List.mem_append, List.mem_singleton] at hx
  rcases hx with hx | rfl
  · exact h.acc x hx
  · exact he

theorem binv_put {o : SstOpts} {s s' : SB} {e : KV} (hi : BInv s) (he : KVBytes e) (h : s.put o e = .ok s') : BInv s' := by
  obtain ⟨_, hcase⟩ := put_ok h
  rcases hcase with ⟨_, c', _, rfl⟩ | ⟨c, _, _, c', _, rfl⟩ | ⟨c, _, _, sf, hf, c', _, rfl⟩
  · exact binv_afterPut (s1 := { s with cur := some CBuilder.init }) ⟨hi.divs, hi.last, hi.acc⟩ he
  · exact binv_afterPut hi he
  · obtain ⟨c2, idx, _, _, rfl⟩ := flush_ok hf
    have := binv_flushed (c := c2) (idx := idx) (k := e.key) (t := e.ts) hi he.1
    exact binv_afterPut (s1 := { flushed s c2 idx e.key e.ts with cur := some CBuilder.init })
      ⟨this.divs, this.last, this.acc⟩ he

theorem binv_putAll (o : SstOpts) : ∀ (atts : List KV) (s : SB), (∀ e ∈ atts, KVBytes e) → BInv s →
    BInv (SB.putAll o s atts).2
  | [], _, _, h => h
  | e :: es, s, hb, h => by
    simp only [SB.putAll]
    cases hp : s.put o e with
    | error err => exact binv_putAll o es s (fun x hx => hb x (List.mem_cons_of_mem _ hx)) h
    | ok s' =>
      exact binv_putAll o es s' (fun x hx => hb x (List.mem_cons_of_mem _ hx))
        (binv_put h (hb e (List.mem_cons_self ..)) hp)

theorem sealed_binv {o : SstOpts} {s s1 : SB} (hi : BInv s) (h : sealedState o s = .ok s1) : BInv s1 := by
  unfold sealedState at h
  cases hcur : s.cur with
  | some c =>
    rw [hcur] at h
    obtain ⟨c2, idx, _, _, rfl⟩ := flush_ok h
    exact binv_flushed hi (bytes_minimalSuccessor _ _ hi.last)
  | none => rw [hcur] at h; cases h; exact hi

/-- **C10** every payload of the sealed file is a byte string when the attempts' keys and values
    and the filter parameter are -/
theorem sealed_payload_bytes (o : SstOpts) (atts : List KV) (filter setsum : List Nat) (f : SstFile) (s1 : SB)
    (hs1 : sealedState o (SB.putAll o SB.init atts).2 = .ok s1)
    (hseal : (SB.putAll o SB.init atts).2.seal o filter setsum = .ok f)
    (hbE : ∀ e ∈ atts, KVBytes e) (hbF : Bytes filter) :
    ∀ b, b ∈ f.index :: f.filter :: f.blocks → ∀ x ∈ b, x < 256 := by
  have hi := sinv_putAll o atts SB.init (sinv_init o)
  have hb := binv_putAll o atts SB.init hbE binv_init
  generalize (SB.putAll o SB.init atts).2 = s at *
  obtain ⟨c1, c2, c3, c4, c5⟩ := sealed_cut hi hs1
  have hb1 := sealed_binv hb hs1
  obtain ⟨s1', hs1', fb, fi, ff, _⟩ := seal_eq hseal
  rw [hs1] at hs1'
  cases hs1'
  intro b hbm
  simp only [List.mem_cons] at hbm
  rcases hbm with rfl | rfl | hbm
  · rw [fi, c5]; exact bytes_seal o.blk s1.divE hb1.divs
  · rw [ff]; exact hbF
  · rw [fb, c4, List.mem_map] at hbm
    obtain ⟨es, hes, rfl⟩ := hbm
    apply bytes_seal o.blk es
    intro e he
    apply hb.acc e
    rw [← c1]
    exact List.mem_flatten.mpr ⟨es, hes, he⟩

/-- **C10** the round trip with the model's own CRC32C on both sides and no hypothesis about the
    image's bytes: the attempts' keys and values and the filter parameter are byte strings -/
theorem sst_file_roundtrip_bytes (o : SstOpts) (atts : List KV) (filter setsum : List Nat)
    (f : SstFile) (s1 : SB)
    (hs1 : sealedState o (SB.putAll o SB.init atts).2 = .ok s1)
    (hseal : (SB.putAll o SB.init atts).2.seal o filter setsum = .ok f)
    (hts : ∀ e ∈ atts, e.ts ≤ U64MAX)
    (hwfE : ∀ e ∈ (SB.putAll o SB.init atts).2.accepted, e.Wf) (hwfD : ∀ d ∈ s1.divE, d.Wf)
    (hfitE : ∀ es ∈ s1.cutE, Fits (build o.blk es)) (hfitD : Fits (build o.blk s1.divE))
    (hsetsum : setsum.length = 32)
    (hfilter : filter.length = filterLen (SB.putAll o SB.init atts).2.count o.bloomBits)
    (hsize : f.bytes.length < U64)
    (hbE : ∀ e ∈ atts, KVBytes e) (hbF : Bytes filter) :
    ∃ t, openSst crc32c f.bytes = .ok t
      ∧ (∀ ops : List KOp, t.run crc32c t.toFirst ops
          = (Ref.run ⟨(SB.putAll o SB.init atts).2.accepted, 0⟩ (ops.map KOp.toOp)).map .ok)
      ∧ (∀ (k : List Nat) (ts : Nat), t.load crc32c k ts = .ok (loadSpec (SB.putAll o SB.init atts).2.accepted k ts))
      ∧ t.metadata crc32c = .ok
          ⟨setsum,
           (match (SB.putAll o SB.init atts).2.accepted.head? with | some e => e.key | none => []),
           (match (SB.putAll o SB.init atts).2.accepted.getLast? with | some e => e.key | none => MAX_KEY),
           f.fin.smallest, f.fin.biggest, f.bytes.length⟩
      ∧ t.forward crc32c = ((SB.putAll o SB.init atts).2.accepted, none)
      ∧ t.backward crc32c = ((SB.putAll o SB.init atts).2.accepted.reverse, none) :=
  sst_file_roundtrip_crc32c o atts filter setsum f s1 hs1 hseal hts hwfE hwfD hfitE hfitD hsetsum hfilter hsize
    (sealed_payload_bytes o atts filter setsum f s1 hs1 hseal hbE hbF)

end Blue.SstOpen
