import Blue.Proofs.SkipMLInv
/-! Every step of every thread keeps the invariant of the multi-level skiplist. -/
namespace Blue.SkipML
open Blue.SkipList (Node keyOf nextOf setNextAt SChain)

theorem th_of_ths {s s' : St} {i : Nat} {t' : Th} (hi : i < s.ths.length) (hths : s'.ths = s.ths.set i t') :
    th s' i = t' ∧ ∀ j, j ≠ i → th s' j = th s j := by
  constructor
  · simp [th, hths, List.getD, List.getElem?_set_self hi]
  · intro j hj
    simp [th, hths, List.getD, List.getElem?_set_ne (fun e => hj e.symm)]

/-- put the pieces together: the structure after the step, the stepping thread's new obligations,
    and the other threads' old obligations in the new state -/
theorem minv_assemble {s s' : St} {ids ids' : Nat → List Nat} (h : MInv s ids) (i : Nat) (t' : Th)
    (hi : i < s.ths.length)
    (hH : s'.H = s.H) (hths : s'.ths = s.ths.set i t')
    (hhead : ∃ h0, s'.heap[0]? = some h0 ∧ h0.nexts.length = s.H)
    (hchains : ∀ l, l < s.H → SChain (proj l s'.heap) none (mnext s'.heap l 0) (ids' l))
    (hempty : ∀ l, s.H ≤ l → ids' l = [])
    (hnoHead : ∀ l, 0 ∉ ids' l)
    (hsub : ∀ l n, n ∈ ids' (l + 1) → n ∈ ids' l)
    (htall : ∀ l n, n ∈ ids' l → l < height s'.heap n)
    (hkeys : ∀ k, k ∈ s'.inserted ↔ ∃ n ∈ ids' 0, mkey s'.heap n = k)
    (hpure : Pure s.H t'.pc)
    (hown : ∀ o ∈ thObls s.H t', Holds s'.heap s'.inserted ids' o)
    (hothers : ∀ j, j ≠ i → ∀ o ∈ thObls s.H (th s j), Holds s'.heap s'.inserted ids' o)
    (hkey : ∀ k, pcKey t'.pc = some k → pcKey (th s i).pc = some k ∨ ∀ j, j ≠ i → pcKey (th s j).pc ≠ some k)
    (hnode : ∀ n, pcNode t'.pc = some n → pcNode (th s i).pc = some n ∨ ∀ j, j ≠ i → pcNode (th s j).pc ≠ some n) :
    MInv s' ids' := by
  obtain ⟨hsame, hother⟩ := th_of_ths hi hths
  refine ⟨by rw [hH]; exact h.hpos, by rw [hH]; exact hhead, by rw [hH]; exact hchains, by rw [hH]; exact hempty,
    hnoHead, hsub, htall, hkeys, ?_, ?_, ?_, ?_⟩
  · intro j
    rw [hH]
    by_cases hj : j = i
    · subst hj; rw [hsame]; exact hpure
    · rw [hother j hj]; exact h.pure j
  · intro j
    rw [hH]
    by_cases hj : j = i
    · subst hj; rw [hsame]; exact hown
    · rw [hother j hj]; exact hothers j hj
  · intro a b hab k ha hb
    by_cases hai : a = i
    · subst hai
      have hbi : b ≠ a := fun e => hab e.symm
      rw [hsame] at ha
      rw [hother b hbi] at hb
      rcases hkey k ha with h1 | h1
      · exact h.distinctKeys a b hab k h1 hb
      · exact h1 b hbi hb
    · rw [hother a hai] at ha
      by_cases hbi : b = i
      · subst hbi
        rw [hsame] at hb
        rcases hkey k hb with h1 | h1
        · exact h.distinctKeys a b hab k ha h1
        · exact h1 a hai ha
      · rw [hother b hbi] at hb
        exact h.distinctKeys a b hab k ha hb
  · intro a b hab n ha hb
    by_cases hai : a = i
    · subst hai
      have hbi : b ≠ a := fun e => hab e.symm
      rw [hsame] at ha
      rw [hother b hbi] at hb
      rcases hnode n ha with h1 | h1
      · exact h.distinctNodes a b hab n h1 hb
      · exact h1 b hbi hb
    · rw [hother a hai] at ha
      by_cases hbi : b = i
      · subst hbi
        rw [hsame] at hb
        rcases hnode n hb with h1 | h1
        · exact h.distinctNodes a b hab n ha h1
        · exact h1 a hai ha
      · rw [hother b hbi] at hb
        exact h.distinctNodes a b hab n ha hb

/-- a step that only changes the stepping thread's own record -/
theorem minv_pc_only {s : St} {ids : Nat → List Nat} (h : MInv s ids) (i : Nat) (t' : Th)
    (hi : i < s.ths.length)
    (hpure : Pure s.H t'.pc)
    (hown : ∀ o ∈ thObls s.H t', Holds s.heap s.inserted ids o)
    (hkey : ∀ k, pcKey t'.pc = some k → pcKey (th s i).pc = some k ∨ ∀ j, j ≠ i → pcKey (th s j).pc ≠ some k)
    (hnode : ∀ n, pcNode t'.pc = some n → pcNode (th s i).pc = some n) :
    MInv (setTh s i t') ids :=
  minv_assemble (s' := setTh s i t') h i t' hi rfl rfl h.head h.chains h.empty h.noHead h.sub h.tall h.keys hpure hown
    (fun j _ => h.threads j) hkey (fun n hn => Or.inl (hnode n hn))

/-- the same with only the program counter changed -/
theorem minv_setPc {s : St} {ids : Nat → List Nat} (h : MInv s ids) (i : Nat) (pc' : PC)
    (hi : i < s.ths.length)
    (hpure : Pure s.H pc')
    (hown : ∀ o ∈ obls s.H pc', Holds s.heap s.inserted ids o)
    (hkey : ∀ k, pcKey pc' = some k → pcKey (th s i).pc = some k ∨ ∀ j, j ≠ i → pcKey (th s j).pc ≠ some k)
    (hnode : ∀ n, pcNode pc' = some n → pcNode (th s i).pc = some n) :
    MInv (setPc s i pc') ids := by
  apply minv_pc_only h i _ hi hpure _ hkey hnode
  intro o ho
  simp only [thObls, List.mem_append] at ho
  rcases ho with ho | ho
  · exact hown o ho
  · exact h.threads i o (List.mem_append_right _ ho)

/-- the obligations of the stepping thread, by membership -/
theorem own_obl {s : St} {ids} (h : MInv s ids) (i : Nat) {pc : PC} (hpc : (th s i).pc = pc) (o : Obl)
    (ho : o ∈ obls s.H pc) : Holds s.heap s.inserted ids o :=
  h.threads i o (mem_thObls_pc (by rw [hpc]; exact ho))

theorem getD_set_same {α : Type} (l : List α) (i : Nat) (x d : α) (h : i < l.length) : (l.set i x).getD i d = x := by
  simp [List.getD, List.getElem?_set_self h]

theorem getD_set_ne {α : Type} (l : List α) (i j : Nat) (x d : α) (h : j ≠ i) : (l.set i x).getD j d = l.getD j d := by
  simp [List.getD, List.getElem?_set_ne (fun e => h e.symm)]

/-! ### the search of an insert -/

theorem inv_step_search {s : St} {ids} (h : MInv s ids) (i k hh x lvl : Nat) (prev : List Nat) (obs : List (Option Nat))
    (hpc : (th s i).pc = .search k hh x lvl prev obs) : MInv (step s i) ids := by
  have hi : i < s.ths.length := th_lt_of_pc (by rw [hpc]; simp)
  have hP := h.pure i
  rw [hpc] at hP
  obtain ⟨hh0, hhH, hlvl, hpl, hol⟩ := hP
  have hstand := own_obl h i hpc (.stand k lvl x) (by simp [obls])
  have hprevs := own_obl h i hpc (.prevs k (lvl + 1) s.H prev) (by simp [obls])
  have hobss := own_obl h i hpc (.obss k (lvl + 1) s.H obs) (by simp [obls])
  have hfresh := own_obl h i hpc (.fresh k) (by simp [obls])
  have hx : x = 0 ∨ x ∈ ids lvl := by
    rcases hstand with h1 | h1
    · exact Or.inl h1
    · exact Or.inr h1.1
  have hkeyk : ∀ k', pcKey (th s i).pc = some k' ↔ k' = k := by
    intro k'; rw [hpc]; simp [pcKey, eq_comm]
  -- what the load tells about the node loaded
  have hnext : ∀ n, mnext s.heap lvl x = some n → n ∈ ids lvl := fun n hn => minv_next h lvl x n hlvl hx hn
  have hobsn : ∀ n, mnext s.heap lvl x = some n → ¬ mkey s.heap n < k → n < s.heap.length ∧ k < mkey s.heap n := by
    intro n hn hnlt
    have hnids := hnext n hn
    have : mkey s.heap n ≠ k := fun e => hfresh (e ▸ minv_key_linked h lvl n hnids)
    exact ⟨minv_ids_lt h lvl n hnids, by omega⟩
  -- the obligations after the search has stopped at this level
  have hprevs' : ∀ j, lvl ≤ j → j < s.H → StandOk s.heap ids k j ((prev.set lvl x).getD j 0) := by
    intro j h1 h2
    by_cases hj : j = lvl
    · subst hj; rw [getD_set_same prev j x 0 (by omega)]; exact hstand
    · rw [getD_set_ne prev lvl j x 0 hj]; exact hprevs j (by omega) h2
  have hobss' : ∀ next, mnext s.heap lvl x = next → (∀ n, next = some n → ¬ mkey s.heap n < k) →
      ∀ j, lvl ≤ j → j < s.H → ∀ n, (obs.set lvl next).getD j none = some n → n < s.heap.length ∧ k < mkey s.heap n := by
    intro next hnx hstop j h1 h2 n hn
    by_cases hj : j = lvl
    · subst hj
      rw [getD_set_same obs j next none (by omega)] at hn
      exact hobsn n (by rw [hnx, hn]) (hstop n hn)
    · rw [getD_set_ne obs lvl j next none hj] at hn
      exact hobss j (by omega) h2 n hn
  have halloc : ∀ next, mnext s.heap lvl x = next → (∀ n, next = some n → ¬ mkey s.heap n < k) → lvl = 0 →
      MInv (setPc s i (.alloc k hh (prev.set lvl x) (obs.set lvl next))) ids := by
    intro next hnx hstop h0
    apply minv_setPc h i _ hi
    · exact ⟨hh0, hhH, by simp [hpl], by simp [hol]⟩
    · intro o ho
      simp only [obls, List.mem_cons, List.mem_nil_iff, or_false] at ho
      rcases ho with rfl | rfl | rfl
      · intro j h1 h2; exact hprevs' j (by omega) h2
      · intro j h1 h2; exact hobss' next hnx hstop j (by omega) h2
      · exact hfresh
    · intro k' hk'; simp only [pcKey, Option.some.injEq] at hk'; exact Or.inl ((hkeyk k').mpr hk'.symm)
    · intro n hn; simp [pcNode] at hn
  have hdown : ∀ next l, mnext s.heap lvl x = next → (∀ n, next = some n → ¬ mkey s.heap n < k) → lvl = l + 1 →
      MInv (setPc s i (.search k hh x l (prev.set lvl x) (obs.set lvl next))) ids := by
    intro next l hnx hstop hl
    apply minv_setPc h i _ hi
    · exact ⟨hh0, hhH, by omega, by simp [hpl], by simp [hol]⟩
    · intro o ho
      simp only [obls, List.mem_cons, List.mem_nil_iff, or_false] at ho
      rcases ho with rfl | rfl | rfl | rfl
      · rcases hstand with h1 | ⟨h1, h2⟩
        · exact Or.inl h1
        · exact Or.inr ⟨h.sub l x (hl ▸ h1), h2⟩
      · intro j h1 h2; exact hprevs' j (by omega) h2
      · intro j h1 h2; exact hobss' next hnx hstop j (by omega) h2
      · exact hfresh
    · intro k' hk'; simp only [pcKey, Option.some.injEq] at hk'; exact Or.inl ((hkeyk k').mpr hk'.symm)
    · intro n hn; simp [pcNode] at hn
  unfold step
  simp only [hpc]
  cases hnx : mnext s.heap lvl x with
  | none =>
    have hstop : ∀ n, (none : Option Nat) = some n → ¬ mkey s.heap n < k := fun n hn => by cases hn
    cases lvl with
    | zero => exact halloc none hnx hstop rfl
    | succ l => exact hdown none l hnx hstop rfl
  | some n =>
    by_cases hlt : mkey s.heap n < k
    · simp only [after, hlt, decide_true]
      apply minv_setPc h i _ hi
      · exact ⟨hh0, hhH, hlvl, hpl, hol⟩
      · intro o ho
        simp only [obls, List.mem_cons, List.mem_nil_iff, or_false] at ho
        rcases ho with rfl | rfl | rfl | rfl
        · exact Or.inr ⟨hnext n hnx, hlt⟩
        · exact hprevs
        · exact hobss
        · exact hfresh
      · intro k' hk'; simp only [pcKey, Option.some.injEq] at hk'; exact Or.inl ((hkeyk k').mpr hk'.symm)
      · intro n' hn'; simp [pcNode] at hn'
    · simp only [after, hlt, decide_false]
      have hstop : ∀ n', some n = some n' → ¬ mkey s.heap n' < k := fun n' hn' => by cases hn'; exact hlt
      cases lvl with
      | zero =>
        simp only
        have := (hobsn n hnx hlt).2
        rw [if_neg (by omega)]
        exact halloc (some n) hnx hstop rfl
      | succ l => exact hdown (some n) l hnx hstop rfl

/-! ### the iterator -/

/-- a reader finishing its operation with a new position (or the same) -/
theorem minv_reader_done {s : St} {ids} (h : MInv s ids) (i : Nat) (hi : i < s.ths.length) (t' : Th)
    (hpc : t'.pc = .idle) (hposn : ∀ x, t'.pos = some x → x = 0 ∨ x ∈ ids 0) :
    MInv (setTh s i t') ids := by
  apply minv_pc_only h i t' hi
  · rw [hpc]; trivial
  · intro o ho
    simp only [thObls, hpc, obls, List.nil_append] at ho
    cases hp : t'.pos with
    | none => rw [hp] at ho; simp [posObls] at ho
    | some x =>
      rw [hp] at ho
      simp only [posObls, List.mem_cons, List.mem_nil_iff, or_false] at ho
      subst ho
      exact hposn x hp
  · intro k hk; rw [hpc] at hk; simp [pcKey] at hk
  · intro n hn; rw [hpc] at hn; simp [pcNode] at hn

theorem pos_ok {s : St} {ids} (h : MInv s ids) (i x : Nat) (hp : (th s i).pos = some x) : x = 0 ∨ x ∈ ids 0 :=
  h.threads i (.on 0 x) (List.mem_append_right _ (by rw [hp]; simp [posObls]))

theorem inv_step_geq {s : St} {ids} (h : MInv s ids) (i k x lvl : Nat) (c : Bool)
    (hpc : (th s i).pc = .geq k x lvl c) : MInv (step s i) ids := by
  have hi : i < s.ths.length := th_lt_of_pc (by rw [hpc]; simp)
  have hlvl : lvl < s.H := by have := h.pure i; rw [hpc] at this; exact this
  have hstand := own_obl h i hpc (.stand k lvl x) (by simp [obls])
  have hx : x = 0 ∨ x ∈ ids lvl := by
    rcases hstand with h1 | h1
    · exact Or.inl h1
    · exact Or.inr h1.1
  have hnext : ∀ n, mnext s.heap lvl x = some n → n ∈ ids lvl := fun n hn => minv_next h lvl x n hlvl hx hn
  have hdone : ∀ next, mnext s.heap lvl x = next → lvl = 0 →
      MInv (if c then setTh s i { th s i with pc := .idle, found := (match next with
              | some n => decide (mkey s.heap n = k)
              | none => false) }
            else setTh s i { th s i with pc := .idle, pos := next }) ids := by
    intro next hnx h0
    split
    · exact minv_reader_done h i hi _ rfl (fun y hy => pos_ok h i y hy)
    · apply minv_reader_done h i hi _ rfl
      intro y hy
      simp only at hy
      exact Or.inr (h0 ▸ hnext y (by rw [hnx, hy]))
  have hdown : ∀ l, lvl = l + 1 → MInv (setPc s i (.geq k x l c)) ids := by
    intro l hl
    apply minv_setPc h i _ hi
    · show l < s.H; omega
    · intro o ho
      simp only [obls, List.mem_cons, List.mem_nil_iff, or_false] at ho
      subst ho
      rcases hstand with h1 | ⟨h1, h2⟩
      · exact Or.inl h1
      · exact Or.inr ⟨h.sub l x (hl ▸ h1), h2⟩
    · intro k' hk'; simp [pcKey] at hk'
    · intro n hn; simp [pcNode] at hn
  unfold step
  simp only [hpc]
  cases hnx : mnext s.heap lvl x with
  | none =>
    cases lvl with
    | zero => exact hdone none hnx rfl
    | succ l => exact hdown l rfl
  | some n =>
    by_cases hlt : mkey s.heap n < k
    · simp only [after, hlt, decide_true]
      apply minv_setPc h i _ hi
      · exact hlvl
      · intro o ho
        simp only [obls, List.mem_cons, List.mem_nil_iff, or_false] at ho
        subst ho
        exact Or.inr ⟨hnext n hnx, hlt⟩
      · intro k' hk'; simp [pcKey] at hk'
      · intro n' hn'; simp [pcNode] at hn'
    · simp only [after, hlt, decide_false]
      cases lvl with
      | zero => exact hdone (some n) hnx rfl
      | succ l => exact hdown l rfl

theorem inv_step_lt {s : St} {ids} (h : MInv s ids) (i k x lvl : Nat)
    (hpc : (th s i).pc = .lt k x lvl) : MInv (step s i) ids := by
  have hi : i < s.ths.length := th_lt_of_pc (by rw [hpc]; simp)
  have hlvl : lvl < s.H := by have := h.pure i; rw [hpc] at this; exact this
  have hstand := own_obl h i hpc (.stand k lvl x) (by simp [obls])
  have hx : x = 0 ∨ x ∈ ids lvl := by
    rcases hstand with h1 | h1
    · exact Or.inl h1
    · exact Or.inr h1.1
  have hnext : ∀ n, mnext s.heap lvl x = some n → n ∈ ids lvl := fun n hn => minv_next h lvl x n hlvl hx hn
  have hassert : ¬ (x ≠ 0 ∧ ¬ mkey s.heap x < k) := by
    intro ⟨h1, h2⟩
    rcases hstand with h3 | h3
    · exact h1 h3
    · exact h2 h3.2
  have hdone : lvl = 0 → MInv (setTh s i { th s i with pc := .idle, pos := some x }) ids := by
    intro h0
    apply minv_reader_done h i hi _ rfl
    intro y hy
    simp only [Option.some.injEq] at hy
    subst hy
    exact h0 ▸ hx
  have hdown : ∀ l, lvl = l + 1 → MInv (setPc s i (.lt k x l)) ids := by
    intro l hl
    apply minv_setPc h i _ hi
    · show l < s.H; omega
    · intro o ho
      simp only [obls, List.mem_cons, List.mem_nil_iff, or_false] at ho
      subst ho
      rcases hstand with h1 | ⟨h1, h2⟩
      · exact Or.inl h1
      · exact Or.inr ⟨h.sub l x (hl ▸ h1), h2⟩
    · intro k' hk'; simp [pcKey] at hk'
    · intro n hn; simp [pcNode] at hn
  unfold step
  simp only [hpc]
  rw [if_neg hassert]
  cases hnx : mnext s.heap lvl x with
  | none =>
    cases lvl with
    | zero => exact hdone rfl
    | succ l => exact hdown l rfl
  | some n =>
    by_cases hlt : mkey s.heap n < k
    · simp only [after, hlt, decide_true]
      apply minv_setPc h i _ hi
      · exact hlvl
      · intro o ho
        simp only [obls, List.mem_cons, List.mem_nil_iff, or_false] at ho
        subst ho
        exact Or.inr ⟨hnext n hnx, hlt⟩
      · intro k' hk'; simp [pcKey] at hk'
      · intro n' hn'; simp [pcNode] at hn'
    · simp only [after, hlt, decide_false]
      cases lvl with
      | zero => exact hdone rfl
      | succ l => exact hdown l rfl

theorem inv_step_last {s : St} {ids} (h : MInv s ids) (i x lvl : Nat)
    (hpc : (th s i).pc = .last x lvl) : MInv (step s i) ids := by
  have hi : i < s.ths.length := th_lt_of_pc (by rw [hpc]; simp)
  have hlvl : lvl < s.H := by have := h.pure i; rw [hpc] at this; exact this
  have hx : x = 0 ∨ x ∈ ids lvl := own_obl h i hpc (.on lvl x) (by simp [obls])
  unfold step
  simp only [hpc]
  cases hnx : mnext s.heap lvl x with
  | some n =>
    simp only
    apply minv_setPc h i _ hi
    · exact hlvl
    · intro o ho
      simp only [obls, List.mem_cons, List.mem_nil_iff, or_false] at ho
      subst ho
      exact Or.inr (minv_next h lvl x n hlvl hx hnx)
    · intro k' hk'; simp [pcKey] at hk'
    · intro n' hn'; simp [pcNode] at hn'
  | none =>
    simp only
    cases lvl with
    | zero =>
      simp only
      apply minv_reader_done h i hi _ rfl
      intro y hy
      simp only [Option.some.injEq] at hy
      subst hy
      exact hx
    | succ l =>
      simp only
      apply minv_setPc h i _ hi
      · show l < s.H; omega
      · intro o ho
        simp only [obls, List.mem_cons, List.mem_nil_iff, or_false] at ho
        subst ho
        rcases hx with h1 | h1
        · exact Or.inl h1
        · exact Or.inr (h.sub l x h1)
      · intro k' hk'; simp [pcKey] at hk'
      · intro n hn; simp [pcNode] at hn

theorem inv_step_nxt {s : St} {ids} (h : MInv s ids) (i x : Nat)
    (hpc : (th s i).pc = .nxt x) : MInv (step s i) ids := by
  have hi : i < s.ths.length := th_lt_of_pc (by rw [hpc]; simp)
  have hx : x = 0 ∨ x ∈ ids 0 := own_obl h i hpc (.on 0 x) (by simp [obls])
  unfold step
  simp only [hpc]
  apply minv_reader_done h i hi _ rfl
  intro y hy
  simp only at hy
  exact Or.inr (minv_next h 0 x y h.hpos hx hy)

end Blue.SkipML
