import Blue.Model.BitVec
namespace Blue.BitVec

/-- the binary search returns the partition point of any predicate that is true on a prefix of
    the searched range -/
theorem partitionBy_spec (pred : Nat → Bool) :
    ∀ (fuel l r : Nat), l ≤ r → r - l < fuel →
      (∀ i j, l ≤ i → i ≤ j → j < r → pred j = true → pred i = true) →
      l ≤ partitionBy pred fuel l r ∧ partitionBy pred fuel l r ≤ r
      ∧ (∀ i, l ≤ i → i < partitionBy pred fuel l r → pred i = true)
      ∧ (∀ i, partitionBy pred fuel l r ≤ i → i < r → pred i = false) := by
  intro fuel
  induction fuel with
  | zero => intro l r _ h; omega
  | succ f ih =>
    intro l r hlr hf hmono
    unfold partitionBy
    by_cases hlt : l < r
    · rw [if_pos hlt]
      simp only
      have hmid1 : l ≤ l + (r - l) / 2 := by omega
      have hmid2 : l + (r - l) / 2 < r := by omega
      cases hp : pred (l + (r - l) / 2) with
      | true =>
        simp only [if_true]
        obtain ⟨h1, h2, h3, h4⟩ := ih (l + (r - l) / 2 + 1) r (by omega) (by omega)
          (fun i j hi hij hj => hmono i j (by omega) hij hj)
        refine ⟨by omega, h2, ?_, h4⟩
        intro i hi1 hi2
        by_cases hi : i ≤ l + (r - l) / 2
        · exact hmono i _ hi1 hi hmid2 hp
        · exact h3 i (by omega) hi2
      | false =>
        simp only [Bool.false_eq_true, if_false]
        obtain ⟨h1, h2, h3, h4⟩ := ih l (l + (r - l) / 2) hmid1 (by omega)
          (fun i j hi hij hj => hmono i j hi hij (by omega))
        refine ⟨h1, by omega, h3, ?_⟩
        intro i hi1 hi2
        by_cases hi : i < l + (r - l) / 2
        · exact h4 i hi1 hi
        · -- at or beyond the probe: the probe is false, so everything after it is
          cases hpi : pred i with
          | false => rfl
          | true =>
            have := hmono (l + (r - l) / 2) i hmid1 (by omega) hi2 hpi
            rw [hp] at this; cases this
    · rw [if_neg hlt]
      refine ⟨Nat.le_refl _, hlr, ?_, ?_⟩
      · intro i h1 h2; omega
      · intro i h1 h2; omega

theorem rank_some (bits : List Bool) (x : Nat) (h : x ≤ bits.length) :
    rank bits x = some ((bits.take x).count true) := by
  unfold rank; rw [if_pos h]

theorem count_take_mono (bits : List Bool) {i j : Nat} (h : i ≤ j) :
    (bits.take i).count true ≤ (bits.take j).count true := by
  have : bits.take i = (bits.take j).take i := by rw [List.take_take, Nat.min_eq_left h]
  rw [this]
  exact (List.take_sublist _ _).count_le _

/-- **C19** the default `select` is "the least position whose rank is `x`" -/
theorem select_spec (bits : List Bool) (x p : Nat) (h : select bits x = some p) :
    p ≤ bits.length ∧ (bits.take p).count true = x
    ∧ ∀ q, q < p → (bits.take q).count true < x := by
  unfold select at h
  simp only at h
  have hmono : ∀ i j, 0 ≤ i → i ≤ j → j < bits.length →
      decide ((rank bits j).getD 0 < x) = true → decide ((rank bits i).getD 0 < x) = true := by
    intro i j _ hij hjl hj
    simp only [decide_eq_true_eq] at hj ⊢
    rw [rank_some bits j (by omega)] at hj
    rw [rank_some bits i (by omega)]
    simp only [Option.getD_some] at hj ⊢
    have := count_take_mono bits hij
    omega
  obtain ⟨_, h2, h3, _⟩ := partitionBy_spec _ (bits.length + 1) 0 bits.length (Nat.zero_le _) (by omega) hmono
  generalize partitionBy (fun mid => decide ((rank bits mid).getD 0 < x)) (bits.length + 1) 0 bits.length = left at *
  split at h
  · rename_i hr
    cases h
    rw [rank_some bits p h2] at hr
    simp only [Option.some.injEq] at hr
    refine ⟨h2, hr, ?_⟩
    intro q hq
    have := h3 q (Nat.zero_le _) hq
    simp only [decide_eq_true_eq] at this
    rw [rank_some bits q (by omega)] at this
    simpa using this
  · cases h

/-- … and it finds that position whenever one exists -/
theorem select_complete (bits : List Bool) (x p : Nat) (hp : p ≤ bits.length)
    (hr : (bits.take p).count true = x) (hmin : ∀ q, q < p → (bits.take q).count true < x) :
    select bits x = some p := by
  unfold select
  simp only
  have hmono : ∀ i j, 0 ≤ i → i ≤ j → j < bits.length →
      decide ((rank bits j).getD 0 < x) = true → decide ((rank bits i).getD 0 < x) = true := by
    intro i j _ hij hjl hj
    simp only [decide_eq_true_eq] at hj ⊢
    rw [rank_some bits j (by omega)] at hj
    rw [rank_some bits i (by omega)]
    simp only [Option.getD_some] at hj ⊢
    have := count_take_mono bits hij
    omega
  obtain ⟨_, h2, h3, h4⟩ := partitionBy_spec _ (bits.length + 1) 0 bits.length (Nat.zero_le _) (by omega) hmono
  generalize partitionBy (fun mid => decide ((rank bits mid).getD 0 < x)) (bits.length + 1) 0 bits.length = left at *
  -- `left = p`: below `p` the predicate holds, at `p` it does not
  have hle : left ≤ p := by
    apply Nat.le_of_not_lt
    intro hlt
    have := h3 p (Nat.zero_le _) hlt
    simp only [decide_eq_true_eq] at this
    rw [rank_some bits p hp] at this
    simp only [Option.getD_some] at this
    omega
  have hge : p ≤ left := by
    apply Nat.le_of_not_lt
    intro hlt
    have hll : left < bits.length := by omega
    have := h4 left (Nat.le_refl _) hll
    simp only [decide_eq_false_iff_not] at this
    rw [rank_some bits left (by omega)] at this
    simp only [Option.getD_some] at this
    have := hmin left hlt
    omega
  have : left = p := by omega
  subst this
  rw [rank_some bits left hp, hr]
  simp

end Blue.BitVec

#print axioms Blue.BitVec.select_spec
#print axioms Blue.BitVec.select_complete
