import Blue.Proofs.PsiWtBuild
/-! List and counting lemmas behind the proofs about `Blue.PsiWt`: counts of prefixes, the
    reference `select_q`, counting over `List.range`, rows as a tiling of the symbol string. -/
namespace Blue.PsiWt
open Blue.WaveletRef

/-! ### counts of prefixes -/

theorem count_take_mono (l : List Nat) (q : Nat) {i j : Nat} (h : i ≤ j) :
    (l.take i).count q ≤ (l.take j).count q := by
  have : l.take i = (l.take j).take i := by rw [List.take_take, Nat.min_eq_left h]
  rw [this]
  exact (List.take_sublist _ _).count_le _

theorem count_take_le (l : List Nat) (q i : Nat) : (l.take i).count q ≤ l.count q :=
  (List.take_sublist _ _).count_le _

theorem count_take_succ (l : List Nat) (q p : Nat) :
    (l.take (p + 1)).count q = (l.take p).count q + (if l[p]? = some q then 1 else 0) := by
  by_cases h : p < l.length
  · rw [List.take_succ_eq_append_getElem h, List.count_append, List.count_singleton,
      List.getElem?_eq_getElem h]
    simp
  · rw [List.take_of_length_le (by omega), List.take_of_length_le (by omega),
      List.getElem?_eq_none (by omega)]
    simp

theorem count_take_succ_of (l : List Nat) (q p : Nat) (h : l[p]? = some q) :
    (l.take (p + 1)).count q = (l.take p).count q + 1 := by
  rw [count_take_succ, if_pos h]

theorem count_take_succ_ne (l : List Nat) (q p : Nat) (h : l[p]? ≠ some q) :
    (l.take (p + 1)).count q = (l.take p).count q := by
  rw [count_take_succ, if_neg h]; rfl

/-- a prefix that contains one more `q` than another is longer -/
theorem lt_of_count_take_lt (l : List Nat) (q : Nat) {i j : Nat}
    (h : (l.take i).count q < (l.take j).count q) : i < j := by
  rcases Nat.lt_or_ge i j with h' | h'
  · exact h'
  · have := count_take_mono l q h'; omega

/-! ### the reference `select_q` -/

theorem selectScan_nil (q x i rank : Nat) :
    selectScan q x [] i rank = if rank = x then some i else none := rfl

theorem selectScan_cons (q x t : Nat) (rest : List Nat) (i rank : Nat) :
    selectScan q x (t :: rest) i rank
      = if rank = x then some i else selectScan q x rest (i + 1) (if t = q then rank + 1 else rank) := rfl

theorem count_take_succ_cons (q t : Nat) (rest : List Nat) (m : Nat) :
    ((t :: rest).take (m + 1)).count q = (if t = q then 1 else 0) + (rest.take m).count q := by
  rw [List.take_succ_cons, List.count_cons]
  by_cases h : t = q <;> simp [h, Nat.add_comm]

/-- the scan stops at the least prefix that contains the wanted number of `q` -/
theorem selectScan_eq (q x : Nat) : ∀ (text : List Nat) (i rank m : Nat), m ≤ text.length →
    rank + (text.take m).count q = x → (∀ m', m' < m → rank + (text.take m').count q ≠ x) →
    selectScan q x text i rank = some (i + m)
  | [], i, rank, m, hm, hx, _ => by
    have : m = 0 := by simpa using hm
    subst this
    rw [selectScan_nil, if_pos (by simpa using hx)]; rfl
  | t :: rest, i, rank, m, hm, hx, hmin => by
    rw [selectScan_cons]
    by_cases hr : rank = x
    · rw [if_pos hr]
      rcases Nat.eq_zero_or_pos m with h0 | hpos
      · rw [h0]; rfl
      · exact absurd (by simpa using hr) (hmin 0 hpos)
    · rw [if_neg hr]
      cases m with
      | zero => exact absurd (by simpa using hx) hr
      | succ m1 =>
        rw [count_take_succ_cons] at hx
        have := selectScan_eq q x rest (i + 1) (if t = q then rank + 1 else rank) m1
          (by simpa using hm)
          (by by_cases h : t = q <;> simp only [h, if_true, if_false] at hx ⊢ <;> omega)
          (by
            intro m' hm'
            have := hmin (m' + 1) (by omega)
            rw [count_take_succ_cons] at this
            by_cases h : t = q <;> simp only [h, if_true, if_false] at this ⊢ <;> omega)
        rw [this]; congr 1; omega

theorem selectScan_some (q x : Nat) : ∀ (text : List Nat) (i rank r : Nat),
    selectScan q x text i rank = some r →
    ∃ m, r = i + m ∧ m ≤ text.length ∧ rank + (text.take m).count q = x
      ∧ ∀ m', m' < m → rank + (text.take m').count q ≠ x
  | [], i, rank, r, h => by
    rw [selectScan_nil] at h
    by_cases hr : rank = x
    · rw [if_pos hr] at h
      refine ⟨0, by simpa using (Option.some.inj h).symm, Nat.le_refl _, by simpa using hr, ?_⟩
      intro m' hm'; omega
    · rw [if_neg hr] at h; cases h
  | t :: rest, i, rank, r, h => by
    rw [selectScan_cons] at h
    by_cases hr : rank = x
    · rw [if_pos hr] at h
      refine ⟨0, by simpa using (Option.some.inj h).symm, Nat.zero_le _, by simpa using hr, ?_⟩
      intro m' hm'; omega
    · rw [if_neg hr] at h
      obtain ⟨m, h1, h2, h3, h4⟩ := selectScan_some q x rest (i + 1) _ r h
      refine ⟨m + 1, by omega, by simpa using h2, ?_, ?_⟩
      · rw [count_take_succ_cons]
        by_cases ht : t = q <;> simp only [ht, if_true, if_false] at h3 ⊢ <;> omega
      · intro m' hm'
        cases m' with
        | zero => simpa using hr
        | succ m'' =>
          have := h4 m'' (by omega)
          rw [count_take_succ_cons]
          by_cases ht : t = q <;> simp only [ht, if_true, if_false] at this ⊢ <;> omega

/-- `select_q(q, k + 1)` is one past the position of the `(k+1)`-th `q` -/
theorem selectQ_of_pos (text : List Nat) (q k p : Nat) (hq : text[p]? = some q)
    (hc : (text.take p).count q = k) : selectQ text q (k + 1) = some (p + 1) := by
  have hp : p < text.length := by
    rcases Nat.lt_or_ge p text.length with h | h
    · exact h
    · rw [List.getElem?_eq_none h] at hq; cases hq
  unfold selectQ
  rw [selectScan_eq q (k + 1) text 0 0 (p + 1) hp
    (by rw [count_take_succ_of text q p hq]; omega)
    (by
      intro m' hm'
      have := count_take_mono text q (show m' ≤ p by omega)
      omega)]
  congr 1; omega

theorem selectQ_some (text : List Nat) (q k s : Nat) (h : selectQ text q (k + 1) = some s) :
    ∃ p, s = p + 1 ∧ p < text.length ∧ text[p]? = some q ∧ (text.take p).count q = k := by
  unfold selectQ at h
  obtain ⟨m, h1, h2, h3, h4⟩ := selectScan_some q (k + 1) text 0 0 s h
  cases m with
  | zero => simp at h3
  | succ p =>
    have hne := h4 p (by omega)
    have hs := count_take_succ text q p
    refine ⟨p, by omega, by omega, ?_, ?_⟩
    · by_cases hq : text[p]? = some q
      · exact hq
      · rw [if_neg hq] at hs; omega
    · by_cases hq : text[p]? = some q
      · rw [if_pos hq] at hs; omega
      · rw [if_neg hq] at hs; omega

theorem selectQ_none_of_count_le (text : List Nat) (q k : Nat) (h : text.count q ≤ k) :
    selectQ text q (k + 1) = none := by
  cases hs : selectQ text q (k + 1) with
  | none => rfl
  | some s =>
    obtain ⟨p, _, _, hq, hc⟩ := selectQ_some text q k s hs
    have h1 := count_take_succ_of text q p hq
    have h2 := count_take_le text q (p + 1)
    omega

theorem rankQ_le (text : List Nat) (q x : Nat) (h : x ≤ text.length) :
    rankQ text q x = some ((text.take x).count q) := by
  unfold rankQ; rw [if_pos h]

theorem rankQ_gt (text : List Nat) (q x : Nat) (h : text.length < x) : rankQ text q x = none := by
  unfold rankQ; rw [if_neg (by omega)]

/-! ### counting over `List.range` -/

/-- a list is the table of its own `getD` -/
theorem list_as_map (l : List Nat) : l = (List.range l.length).map (fun i => l.getD i 0) := by
  apply List.ext_getElem
  · simp
  · intro i h1 h2
    rw [List.getElem_map, List.getElem_range, List.getD_eq_getElem?_getD, List.getElem?_eq_getElem h1]
    rfl

theorem countP_as_range (l : List Nat) (p : Nat → Bool) :
    l.countP p = (List.range l.length).countP (fun i => p (l.getD i 0)) := by
  conv => lhs; rw [list_as_map l]
  rw [List.countP_map]; rfl

/-- the occurrences of `q` in a prefix, counted over the positions -/
theorem countP_single (p : Nat → Bool) (m : Nat) : [m].countP p = if p m = true then 1 else 0 := by
  rw [List.countP_cons, List.countP_nil]; omega

theorem count_take_as_range (l : List Nat) (q x : Nat) : ∀ (m : Nat), m ≤ l.length →
    (List.range m).countP (fun v => decide (l.getD v 0 = q) && decide (v < x))
      = (l.take (min x m)).count q
  | 0, _ => by simp
  | m + 1, hm => by
    rw [List.range_succ, List.countP_append, count_take_as_range l q x m (by omega), countP_single]
    have hget : l[m]? = some (l.getD m 0) := by
      rw [List.getD_eq_getElem?_getD, List.getElem?_eq_getElem (by omega)]; rfl
    by_cases hx : m < x
    · have h1 : min x (m + 1) = m + 1 := by omega
      have h2 : min x m = m := by omega
      rw [h1, h2, count_take_succ, hget]
      by_cases hq : l.getD m 0 = q
      · rw [if_pos (by rw [Bool.and_eq_true, decide_eq_true_eq, decide_eq_true_eq]; exact ⟨hq, hx⟩),
          if_pos (by rw [hq])]
      · rw [if_neg (by rw [Bool.and_eq_true, decide_eq_true_eq, decide_eq_true_eq]; exact fun h => hq h.1),
          if_neg (fun h => hq (Option.some.inj h))]
    · have h1 : min x (m + 1) = min x m := by omega
      rw [h1, if_neg (by rw [Bool.and_eq_true, decide_eq_true_eq, decide_eq_true_eq]; exact fun h => hx h.2)]
      rfl

theorem count_take_range (l : List Nat) (q x : Nat) :
    (l.take x).count q
      = (List.range l.length).countP (fun v => decide (l.getD v 0 = q) && decide (v < x)) := by
  rw [count_take_as_range l q x l.length (Nat.le_refl _)]
  by_cases h : x ≤ l.length
  · rw [Nat.min_eq_left h]
  · rw [Nat.min_eq_right (by omega), List.take_of_length_le (by omega), List.take_of_length_le (by omega)]

/-- counting the members of an interval that satisfy `q` -/
theorem countP_interval (q : Nat → Bool) (s e : Nat) : ∀ (n : Nat),
    (List.range n).countP (fun i => decide (s ≤ i) && decide (i < e) && q i)
      = (List.range (min e n - min s n)).countP (fun d => q (s + d))
  | 0 => by simp
  | n + 1 => by
    rw [List.range_succ, List.countP_append, countP_interval q s e n]
    by_cases h1 : s ≤ n
    · by_cases h2 : n < e
      · have : min e (n + 1) - min s (n + 1) = (min e n - min s n) + 1 := by omega
        rw [this, List.range_succ, List.countP_append, countP_single, countP_single]
        have h3 : s + (min e n - min s n) = n := by omega
        rw [h3]
        simp [h1, h2]
      · have : min e (n + 1) - min s (n + 1) = min e n - min s n := by omega
        rw [this, countP_single, if_neg (by simp [h2])]; rfl
    · have : min e (n + 1) - min s (n + 1) = min e n - min s n := by omega
      rw [this, countP_single, if_neg (by simp [h1])]; rfl

/-! ### rows as a tiling -/

/-- the total length of the first `a` lists -/
def pre {α : Type} (ll : List (List α)) (a : Nat) : Nat := ((ll.take a).flatten).length

theorem pre_zero {α : Type} (ll : List (List α)) : pre ll 0 = 0 := by simp [pre]

theorem pre_succ {α : Type} (ll : List (List α)) (a : Nat) (h : a < ll.length) :
    pre ll (a + 1) = pre ll a + ll[a].length := by
  unfold pre
  rw [List.take_succ_eq_append_getElem h, List.flatten_append, List.length_append]
  simp

theorem pre_all {α : Type} (ll : List (List α)) (a : Nat) (h : ll.length ≤ a) : pre ll a = ll.flatten.length := by
  unfold pre; rw [List.take_of_length_le h]

theorem pre_mono {α : Type} (ll : List (List α)) : ∀ (a b : Nat), a ≤ b → pre ll a ≤ pre ll b := by
  intro a b hab
  induction b with
  | zero => have : a = 0 := by omega
            rw [this]; exact Nat.le_refl _
  | succ b ih =>
    rcases Nat.lt_or_ge a (b + 1) with h | h
    · have := ih (by omega)
      by_cases hb : b < ll.length
      · rw [pre_succ ll b hb]; omega
      · rw [pre_all ll (b + 1) (by omega)]
        rw [pre_all ll b (by omega)] at this
        exact this
    · have : a = b + 1 := by omega
      rw [this]; exact Nat.le_refl _

theorem pre_le {α : Type} (ll : List (List α)) (a : Nat) : pre ll a ≤ ll.flatten.length := by
  have := pre_mono ll a (max a ll.length) (by omega)
  rw [pre_all ll (max a ll.length) (by omega)] at this
  exact this

theorem take_pre {α : Type} (ll : List (List α)) (a : Nat) : ll.flatten.take (pre ll a) = (ll.take a).flatten := by
  unfold pre
  have e : ll.flatten = (ll.take a).flatten ++ (ll.drop a).flatten := by
    rw [← List.flatten_append, List.take_append_drop]
  rw [e, List.take_left' rfl]

theorem drop_pre {α : Type} (ll : List (List α)) (a : Nat) (h : a < ll.length) :
    ll.flatten.drop (pre ll a) = ll[a] ++ (ll.drop (a + 1)).flatten := by
  unfold pre
  have e : ll.flatten = (ll.take a).flatten ++ (ll.drop a).flatten := by
    rw [← List.flatten_append, List.take_append_drop]
  rw [e, List.drop_left' rfl, List.drop_eq_getElem_cons h, List.flatten_cons]

/-- a prefix that ends inside list `a` -/
theorem take_pre_add {α : Type} (ll : List (List α)) (a x : Nat) (h : a < ll.length) (hx : x ≤ ll[a].length) :
    ll.flatten.take (pre ll a + x) = (ll.take a).flatten ++ ll[a].take x := by
  rw [List.take_add, take_pre, drop_pre ll a h, List.take_append_of_le_length hx]

theorem count_take_pre_add (ll : List (List Nat)) (q a x : Nat) (h : a < ll.length)
    (hx : x ≤ ll[a].length) :
    (ll.flatten.take (pre ll a + x)).count q
      = (ll.flatten.take (pre ll a)).count q + (ll[a].take x).count q := by
  rw [take_pre_add ll a x h hx, List.count_append, take_pre]

theorem getElem?_pre_add {α : Type} (ll : List (List α)) (a x : Nat) (h : a < ll.length) (hx : x < ll[a].length) :
    ll.flatten[pre ll a + x]? = ll[a][x]? := by
  have h1 : ll.flatten[pre ll a + x]? = (ll.flatten.drop (pre ll a))[x]? := by
    rw [List.getElem?_drop]
  rw [h1, drop_pre ll a h, List.getElem?_append_left hx]

/-- every position lies in exactly one of the lists -/
theorem exists_row {α : Type} : ∀ (ll : List (List α)) (v : Nat), v < ll.flatten.length →
    ∃ a, a < ll.length ∧ pre ll a ≤ v ∧ v < pre ll (a + 1)
  | [], v, h => by simp at h
  | x :: rest, v, h => by
    by_cases hv : v < x.length
    · refine ⟨0, by simp, by simp [pre], ?_⟩
      simp [pre]; omega
    · rw [List.flatten_cons, List.length_append] at h
      obtain ⟨a, h1, h2, h3⟩ := exists_row (α := α) rest (v - x.length) (by omega)
      refine ⟨a + 1, by simpa using h1, ?_, ?_⟩
      · unfold pre at h2 ⊢
        rw [List.take_succ_cons, List.flatten_cons, List.length_append]; omega
      · unfold pre at h3 ⊢
        rw [List.take_succ_cons, List.flatten_cons, List.length_append]; omega

end Blue.PsiWt
