import Blue.Proofs.StoreHistRefine
import Blue.Proofs.ScanLive
/-! **C03** at history level: what the specification list of a range scan
    (`(M.filter (isLive M t tomb)).filter (inRange …)`, the right-hand side of `scan_spec*` /
    `store_scan_spec_dups`) holds after any history of `Blue.StoreHist`: exactly the versions of the
    last accepted writes of the keys in range whose last write is a put — in the order of `M`. -/
namespace Blue.StoreHist
open Blue.Spec Blue.Kvs

/-- "is a tombstone", read off the payload map -/
def tombOf (h : HState) (v : Ver Nat) : Bool := h.pay v.1 v.2 == some none

theorem scan_of_rel {klt : Nat → Nat → Bool} {h : HState} {m : SpecMap} (inv : Inv h) (r : Rel h m)
    (M : List (Ver Nat)) (hM : ∀ e, e ∈ M ↔ e ∈ (allComps h.st).flatten) (t : Nat) (ht : h.vis ≤ t)
    (sb eb : Bound Nat) (e : Ver Nat) :
    e ∈ (M.filter (isLive M t (tombOf h))).filter (inRange klt sb eb)
      ↔ ((∃ v, m e.1 = some (e.2, some v)) ∧ inRange klt sb eb e = true) := by
  rw [mem_scan_iff]
  constructor
  · rintro ⟨⟨hm, _, hle, hmax⟩, htomb, hr⟩
    refine ⟨?_, hr⟩
    have hflat := (hM e).mp hm
    cases hs : m e.1 with
    | none => exact absurd rfl (r.absent e.1 hs e hflat)
    | some q =>
      obtain ⟨ts, p⟩ := q
      obtain ⟨h1, h2, h3⟩ := r.present e.1 ts p hs
      have hts : ts ≤ t := Nat.le_trans (inv.ts_le _ h1) ht
      have ha : ts ≤ e.2 := hmax (e.1, ts) ((hM _).mpr h1) rfl hts
      have hb : e.2 ≤ ts := h2 e hflat rfl
      have he : e.2 = ts := Nat.le_antisymm hb ha
      subst he
      unfold tombOf at htomb
      rw [h3] at htomb
      cases p with
      | none => simp at htomb
      | some v => exact ⟨v, rfl⟩
  · rintro ⟨⟨v, hs⟩, hr⟩
    obtain ⟨h1, h2, h3⟩ := r.present e.1 e.2 (some v) hs
    refine ⟨⟨(hM e).mpr h1, rfl, Nat.le_trans (inv.ts_le _ h1) ht, ?_⟩, ?_, hr⟩
    · intro e' he' hk _
      exact h2 e' ((hM e').mp he') hk
    · unfold tombOf
      rw [h3]
      rfl

/-- **history_scan_refines**: after any history, at any read timestamp from the published sequence
    number on, the specification list of a scan over `[sb, eb]` — `M` any list holding the versions
    of the reached store, e.g. the merged list of `store_scan_spec_dups` — holds `e` iff the
    specification map says that the last accepted write naming `e`'s key was a PUT, made at `e`'s
    timestamp, and the key is in range.  A key whose last write is a delete, or that was never
    written, is not shown. -/
theorem history_scan_refines {klt : Nat → Nat → Bool} (ops : List Op) (hv : Valid init ops)
    (M : List (Ver Nat)) (hM : ∀ e, e ∈ M ↔ e ∈ (allComps (run init ops).st).flatten)
    (t : Nat) (ht : (run init ops).vis ≤ t) (sb eb : Bound Nat) (e : Ver Nat) :
    e ∈ (M.filter (isLive M t (tombOf (run init ops)))).filter (inRange klt sb eb)
      ↔ ((∃ v, spec ops e.1 = some (e.2, some v)) ∧ inRange klt sb eb e = true) :=
  scan_of_rel (history_invariant ops hv) (history_rel ops hv) M hM t ht sb eb e

/-- … in order: the list is a sublist of `M`, hence sorted (key ascending) when `M` is, and shows
    each key at most once -/
theorem history_scan_sorted {klt : Nat → Nat → Bool} (h : HState) (M : List (Ver Nat)) (hs : Sorted klt M)
    (t : Nat) (sb eb : Bound Nat) :
    Sorted klt ((M.filter (isLive M t (tombOf h))).filter (inRange klt sb eb)) :=
  (List.Pairwise.sublist (List.Sublist.trans List.filter_sublist List.filter_sublist) hs)

theorem history_scan_one_per_key {klt : Nat → Nat → Bool} (ops : List Op) (hv : Valid init ops)
    (M : List (Ver Nat)) (hM : ∀ e, e ∈ M ↔ e ∈ (allComps (run init ops).st).flatten)
    (t : Nat) (ht : (run init ops).vis ≤ t) (sb eb : Bound Nat) (e e' : Ver Nat)
    (he : e ∈ (M.filter (isLive M t (tombOf (run init ops)))).filter (inRange klt sb eb))
    (he' : e' ∈ (M.filter (isLive M t (tombOf (run init ops)))).filter (inRange klt sb eb))
    (hk : e.1 = e'.1) : e = e' := by
  obtain ⟨⟨v, h1⟩, _⟩ := (history_scan_refines ops hv M hM t ht sb eb e).mp he
  obtain ⟨⟨v', h2⟩, _⟩ := (history_scan_refines ops hv M hM t ht sb eb e').mp he'
  rw [hk, h2] at h1
  simp only [Option.some.injEq, Prod.mk.injEq] at h1
  exact Prod.ext hk h1.1.symm

end Blue.StoreHist

#print axioms Blue.StoreHist.history_scan_refines
#print axioms Blue.StoreHist.history_scan_one_per_key
