import Blue.Proofs.WcqV
import Blue.Proofs.ConcLog
/-! The wake-up model of `sync42::WorkCoalescingQueue::do_work` (`Blue.WcqV`) meets the SPEC through
    which the two queues of `ConcurrentLogBuilder::append` enter the composed machine `Blue.ConcLog`.

    `Blue.WcqV.St.log` is flat (the inputs the core has seen, in order).  The BATCHES are recovered
    here as a ghost of the run: a `lead i k` event that is accepted (it extends the core's log) hands
    the core the batch `(i, k)` = callers `i … i+k-1`. -/
namespace Blue.ConcLogQueues
open Blue.WcqV

/-- the batch `(first caller, size)` this step hands the core: an ACCEPTED `lead` -/
def batchOf (s : St) : Ev → List (Nat × Nat)
  | .lead i k => if (step s (.lead i k)).log = s.log then [] else [(i, k)]
  | _ => []

/-- the batches the core is handed by the run `evs` from `s`, in order -/
def batches : List Ev → St → List (Nat × Nat)
  | [], _ => []
  | e :: es, s => batchOf s e ++ batches es (step s e)

/-- `Chain a bs b`: the batches are non-empty, consecutive, start at caller `a` and end before `b` -/
def Chain : Nat → List (Nat × Nat) → Nat → Prop
  | a, [], b => a = b
  | a, (i, k) :: bs, b => i = a ∧ 1 ≤ k ∧ Chain (a + k) bs b

instance : ∀ a bs b, Decidable (Chain a bs b)
  | a, [], b => inferInstanceAs (Decidable (a = b))
  | a, (i, k) :: bs, b =>
    have := instDecidableChain (a + k) bs b
    inferInstanceAs (Decidable (i = a ∧ 1 ≤ k ∧ Chain (a + k) bs b))

theorem chain_le : ∀ (bs : List (Nat × Nat)) (a b : Nat), Chain a bs b → a ≤ b
  | [], a, b, h => by simp only [Chain] at h; omega
  | (i, k) :: bs, a, b, h => by
    obtain ⟨_, _, h3⟩ := h
    have := chain_le bs _ _ h3; omega

/-- every caller below the end is in exactly the batch that covers it -/
theorem chain_mem : ∀ (bs : List (Nat × Nat)) (a b c : Nat), Chain a bs b → a ≤ c → c < b →
    ∃ i k, (i, k) ∈ bs ∧ i ≤ c ∧ c < i + k
  | [], a, b, c, h, h1, h2 => by simp only [Chain] at h; omega
  | (i, k) :: bs, a, b, c, h, h1, h2 => by
    obtain ⟨rfl, hk, h3⟩ := h
    by_cases hc : c < i + k
    · exact ⟨i, k, List.mem_cons_self, h1, hc⟩
    · obtain ⟨i', k', hm, hh⟩ := chain_mem bs (i + k) b c h3 (by omega) h2
      exact ⟨i', k', List.mem_cons_of_mem _ hm, hh⟩

/-- an accepted `lead`: the core's log grows by exactly the callers `i … i+k-1`, `k ≥ 1`, all of
    them linked, nobody was inside `work`, and now somebody is -/
theorem lead_accept (s : St) (i k : Nat) (h : (step s (.lead i k)).log ≠ s.log) :
    (step s (.lead i k)).log = s.log ++ (List.range k).map (· + i) ∧ 1 ≤ k ∧ i + k ≤ s.ents.length
      ∧ s.doingWork = false ∧ (step s (.lead i k)).doingWork = true := by
  revert h
  simp only [step]
  split
  · split
    · rename_i hc
      split
      · intro _; exact ⟨rfl, hc.2.2.1, hc.2.2.2, hc.1, rfl⟩
      · intro h; exact absurd rfl h
    · intro h; exact absurd rfl h
  · intro h; exact absurd rfl h

/-- `doing_work` is cleared by the leader's `finish` and by nothing else -/
theorem work_cleared_only_by_finish (s : St) (e : Ev) (h1 : s.doingWork = true)
    (h2 : (step s e).doingWork = false) : ∃ i, e = .finish i := by
  cases e with
  | finish i => exact ⟨i, rfl⟩
  | link => simp only [step] at h2; rw [h1] at h2; cases h2
  | observe i =>
    simp only [step] at h2
    split at h2 <;> (try dsimp only at h2) <;> rw [h1] at h2 <;> cases h2
  | lead i k =>
    simp only [step] at h2
    split at h2
    · split at h2
      · split at h2
        · cases h2
        · dsimp only at h2; rw [h1] at h2; cases h2
      · rw [h1] at h2; cases h2
    · rw [h1] at h2; cases h2
  | deliver i v =>
    simp only [step] at h2
    split at h2
    · split at h2
      · dsimp only at h2; rw [h1] at h2; cases h2
      · rw [h1] at h2; cases h2
    · rw [h1] at h2; cases h2

theorem range_inj {a b : Nat} (h : List.range a = List.range b) : a = b := by
  have := congrArg List.length h
  simpa using this

/-- one step: the ghost batch of the step is what the invariant's `m` moves by -/
theorem batch_step {s : St} {m m' : Nat} {cur cur' : Option (Nat × Nat × Nat)} (h : Inv s m cur) (e : Ev)
    (h' : Inv (step s e) m' cur') : Chain m (batchOf s e) m' := by
  have hl := h.log
  have hl' := h'.log
  have hsame : (step s e).log = s.log → Chain m [] m' := by
    intro hh; rw [hh, hl] at hl'; exact range_inj hl'
  cases e with
  | link => exact hsame rfl
  | observe i =>
    apply hsame
    simp only [step]
    split <;> rfl
  | deliver i v =>
    apply hsame
    simp only [step]
    split
    · split <;> rfl
    · rfl
  | finish i =>
    apply hsame
    simp only [step]
    split
    · split
      · split <;> rfl
      · rfl
    · rfl
  | lead i k =>
    show Chain m (if (step s (.lead i k)).log = s.log then [] else [(i, k)]) m'
    by_cases hc : (step s (.lead i k)).log = s.log
    · rw [if_pos hc]; exact hsame hc
    · rw [if_neg hc]
      obtain ⟨hlog, hk, _, _, _⟩ := lead_accept s i k hc
      rw [hlog, hl] at hl'
      have hlen : m + k = m' := by
        have := congrArg List.length hl'
        simpa using this
      subst hlen
      rw [← range_shift m k] at hl'
      have hmap := List.append_cancel_left hl'
      have h0 := congrArg (fun l => l[0]?) hmap
      have hk' : 0 < k := hk
      simp only [List.getElem?_map, List.getElem?_range hk', Option.map_some, Nat.zero_add,
        Option.some.injEq] at h0
      exact ⟨h0, hk, rfl⟩

theorem chain_append : ∀ (xs ys : List (Nat × Nat)) (a b c : Nat), Chain a xs b → Chain b ys c →
    Chain a (xs ++ ys) c
  | [], ys, a, b, c, h1, h2 => by simp only [Chain] at h1; subst h1; exact h2
  | (i, k) :: xs, ys, a, b, c, h1, h2 => by
    obtain ⟨e1, e2, e3⟩ := h1
    exact ⟨e1, e2, chain_append xs ys _ b c e3 h2⟩

theorem batches_chain : ∀ (evs : List Ev) (s : St) (m : Nat) (cur : Option (Nat × Nat × Nat)), Inv s m cur →
    ∃ m' cur', Inv (evs.foldl step s) m' cur' ∧ Chain m (batches evs s) m'
  | [], s, m, cur, h => ⟨m, cur, h, rfl⟩
  | e :: evs, s, m, cur, h => by
    obtain ⟨m1, cur1, h1⟩ := inv_step h e
    obtain ⟨m2, cur2, h2, hc⟩ := batches_chain evs (step s e) m1 cur1 h1
    exact ⟨m2, cur2, h2, chain_append _ _ m m1 m2 (batch_step h e h1) hc⟩

/-- **the SPEC of a queue**, as `Blue.ConcLog` uses it (`write n` / `fenter n` take the next `n ≥ 1`
    linked-and-untaken callers in link order: `(bufs.drop wrets.length).take n`,
    `(fq.drop ftaken).take n`; the step is atomic / refused while a call is in flight; every member
    of the batch is answered with what the core computed for it).
    `linked`: callers in link order are `0 … linked-1`; `bs`: the batches `(first, size)` handed to
    the core, in order; `taken`: callers handed to the core; `out c`: what the core produced for
    caller `c` (its position in its batch is `c - first`); `ret c`: what `do_work` returned to `c`. -/
structure QueueSpec (linked : Nat) (bs : List (Nat × Nat)) (taken : Nat) (out ret : Nat → Option Nat) : Prop where
  /-- the batches partition `0 … taken-1` in link order: non-empty, consecutive, nothing skipped,
      nothing twice -/
  chain : Chain 0 bs taken
  /-- only linked callers are taken -/
  le : taken ≤ linked
  /-- a returned caller was in a batch (the one `chain_mem` names) and got the core's output for it -/
  own : ∀ c o, ret c = some o → out c = some o ∧ ∃ i k, (i, k) ∈ bs ∧ i ≤ c ∧ c < i + k

/-- what `do_work` returned to caller `c` -/
def retOf (s : St) (c : Nat) : Option Nat := (s.ents[c]?).bind (·.ret)

/-- **(1)** every run of the wake-up model meets the SPEC: any interleaving of callers, leaders and
    deliveries; any batch sizes (a core that accepts, limits or refuses batching: `k` of each `lead`
    is arbitrary `≥ 1`); any outputs (the `v` of each `deliver`).  Also: the core's flat log is the
    batches laid end to end, and the queue did not panic. -/
theorem wcqv_run_meets_spec (evs : List Ev) :
    let s := evs.foldl step init
    QueueSpec s.ents.length (batches evs init) s.log.length (look s.prod) (retOf s)
      ∧ s.log = List.range s.log.length ∧ s.panicked = false := by
  intro s
  obtain ⟨m, cur, h, hc⟩ := batches_chain evs init 0 none inv_init
  have hm : s.log.length = m := by
    show (evs.foldl step init).log.length = m
    rw [h.log]; simp
  refine ⟨⟨by rw [hm]; exact hc, by rw [hm]; exact h.le, ?_⟩, by rw [hm]; exact h.log, h.nopanic⟩
  intro c o hr
  unfold retOf at hr
  cases he : s.ents[c]? with
  | none => rw [he] at hr; cases hr
  | some e =>
    rw [he] at hr
    simp only [Option.bind_some] at hr
    refine ⟨own_result evs c e o he hr, ?_⟩
    have hlt : c < m := by
      false_or_by_contra
      rename_i hge
      have hex := h.ents c e he
      unfold Expect at hex
      rw [if_pos (by omega)] at hex
      rw [hex] at hr; cases hr
    exact chain_mem _ 0 m c hc (Nat.zero_le _) hlt


theorem look_mem : ∀ (prod : List (Nat × Nat)) (c v : Nat), look prod c = some v → (c, v) ∈ prod
  | [], c, v, h => by simp [look] at h
  | (x, w) :: prod, c, v, h => by
    by_cases hx : c = x
    · subst hx
      rw [look_cons_eq] at h
      simp only [Option.some.injEq] at h
      subst h
      exact List.mem_cons_self
    · rw [look_cons_ne hx] at h
      exact List.mem_cons_of_mem _ (look_mem prod c v h)

/-- bridging the core: `Blue.WcqV` carries the core's outputs as arbitrary values `v` of the `deliver`
    events (the code: `zip(waiter.iter().take(taken), outputs)`, one item of the core's iterator per
    member — both cores `repeat(x).take(taken)`, a clone per member).  A run is a run WITH a given
    core when every delivery carries what that core, as a function `coreOut` of the caller, computes;
    then every `do_work` returns it. -/
theorem wcqv_returns_core_output (evs : List Ev) (coreOut : Nat → Option Nat)
    (hcore : ∀ e ∈ (evs.foldl step init).prod, coreOut e.1 = some e.2) (c o : Nat)
    (hr : retOf (evs.foldl step init) c = some o) : coreOut c = some o :=
  hcore (c, o) (look_mem _ c o ((wcqv_run_meets_spec evs).1.own c o hr).1)

/-- at most one batch inside `work` at a time: a batch is handed to the core only when nobody is
    working, the flag is then set, and only the leader's `finish` clears it -/
theorem wcqv_one_batch_at_a_time (s : St) (e : Ev) (h : batchOf s e ≠ []) :
    s.doingWork = false ∧ (step s e).doingWork = true := by
  cases e with
  | lead i k =>
    change (if (step s (.lead i k)).log = s.log then [] else [(i, k)]) ≠ [] at h
    by_cases hc : (step s (.lead i k)).log = s.log
    · rw [if_pos hc] at h; exact absurd rfl h
    · obtain ⟨_, _, _, h1, h2⟩ := lead_accept s i k hc; exact ⟨h1, h2⟩
  | link => exact absurd rfl h
  | observe i => exact absurd rfl h
  | deliver i v => exact absurd rfl h
  | finish i => exact absurd rfl h

/-! ## the write queue's run as a `Blue.ConcLog` run -/

section embed
open Blue.Log Blue.LogCrash Blue.ConcLog
variable (P : Params) (lim : Nat)

/-- the batch of buffers of `(i, k)`: `WriteBatch::merge` keeps link order -/
def groupOf (bufs : List (List Nat)) (b : Nat × Nat) : List (List Nat) := (bufs.drop b.1).take b.2

/-- the write core over the batches: `self.written += acc.buffer.len()`, every member is answered
    the same `Ok(self.written)` (the output is cloned per member) and the batch number -/
def wretsOf (bufs : List (List Nat)) : List (Nat × Nat) → Nat → Nat → List WRet
  | [], _, _ => []
  | b :: bs, r, w =>
    let w' := w + (groupOf bufs b).flatten.length
    List.replicate b.2 ⟨r, w'⟩ ++ wretsOf bufs bs (r + 1) w'

/-- the `Blue.ConcLog` events of a write-queue run: the links in link order, one `write k` per batch -/
def writeEvents (bufs : List (List Nat)) (bs : List (Nat × Nat)) : List Blue.ConcLog.Ev :=
  bufs.map .link ++ bs.map (fun b => .write b.2)

theorem run_links : ∀ (bufs : List (List Nat)) (s : Blue.ConcLog.St),
    (∀ b ∈ bufs, 0 < b.length ∧ b.length ≤ lim) →
    (bufs.map Blue.ConcLog.Ev.link).foldl (Blue.ConcLog.step P lim) s = { s with bufs := s.bufs ++ bufs }
  | [], s, _ => by simp
  | b :: bufs, s, h => by
    have hb := h b List.mem_cons_self
    simp only [List.map_cons, List.foldl_cons]
    have h1 : Blue.ConcLog.step P lim s (.link b) = { s with bufs := s.bufs ++ [b] } := by
      simp only [Blue.ConcLog.step, stepLink]
      rw [if_neg (by omega)]
    rw [h1, run_links bufs _ (fun x hx => h x (List.mem_cons_of_mem _ hx))]
    simp

theorem run_writes : ∀ (bs : List (Nat × Nat)) (s : Blue.ConcLog.St) (a t : Nat), Chain a bs t →
    s.wrets.length = a → t ≤ s.bufs.length →
    (∀ b ∈ bs, (groupOf s.bufs b).flatten.length ≤ lim) →
    let s' := (bs.map (fun b => Blue.ConcLog.Ev.write b.2)).foldl (Blue.ConcLog.step P lim) s
    s'.groups = s.groups ++ bs.map (groupOf s.bufs)
      ∧ s'.wrets = s.wrets ++ wretsOf s.bufs bs s.groups.length s.written
      ∧ s'.bufs = s.bufs ∧ s'.wrets.length = t
      ∧ s'.fq = s.fq ∧ s'.ftaken = s.ftaken ∧ s'.answers = s.answers ∧ s'.fs.flight = s.fs.flight
      ∧ s'.fs.synced = s.fs.synced
  | [], s, a, t, hc, ha, _, _ => by
    simp only [Chain] at hc
    simp [wretsOf, ha, hc]
  | (i, k) :: bs, s, a, t, hc, ha, ht, hcb => by
    obtain ⟨rfl, hk, hc'⟩ := hc
    have hle := chain_le _ _ _ hc'
    have hg := hcb (i, k) List.mem_cons_self
    simp only [groupOf] at hg
    simp only [List.map_cons, List.foldl_cons]
    have h1 : Blue.ConcLog.step P lim s (.write k) =
        { s with
          groups := s.groups ++ [groupOf s.bufs (i, k)]
          wrets := s.wrets ++ List.replicate k ⟨s.groups.length, s.written + (groupOf s.bufs (i, k)).flatten.length⟩
          written := s.written + (groupOf s.bufs (i, k)).flatten.length
          file := s.file.apply (.write (appendAt P 2 (flen s.file) (groupOf s.bufs (i, k)).flatten))
          fs := (Blue.FsyncCore.rstep s.fs (.wrote (s.written + (groupOf s.bufs (i, k)).flatten.length))).1
          trace := s.trace ++ [.wrote (s.written + (groupOf s.bufs (i, k)).flatten.length)] } := by
      simp only [Blue.ConcLog.step, stepWrite, groupOf, ha]
      rw [if_neg (by omega)]
    obtain ⟨s1, hs1, g1, g2, g3, g4, g5, g6, g7, g8, g9⟩ : ∃ s1, Blue.ConcLog.step P lim s (.write k) = s1
        ∧ s1.groups = s.groups ++ [groupOf s.bufs (i, k)]
        ∧ s1.wrets = s.wrets ++ List.replicate k ⟨s.groups.length, s.written + (groupOf s.bufs (i, k)).flatten.length⟩
        ∧ s1.written = s.written + (groupOf s.bufs (i, k)).flatten.length
        ∧ s1.bufs = s.bufs ∧ s1.fq = s.fq ∧ s1.ftaken = s.ftaken ∧ s1.answers = s.answers
        ∧ s1.fs.flight = s.fs.flight ∧ s1.fs.synced = s.fs.synced :=
      ⟨_, h1, rfl, rfl, rfl, rfl, rfl, rfl, rfl, rfl, rfl⟩
    rw [hs1]
    have ih := run_writes bs s1 (i + k) t hc' (by rw [g2]; simp [ha]) (by rw [g4]; exact ht)
      (fun b hb => by rw [g4]; exact hcb b (List.mem_cons_of_mem _ hb))
    dsimp only at ih ⊢
    obtain ⟨i1, i2, i3, i4, i5, i6, i7, i8, i9⟩ := ih
    refine ⟨?_, ?_, by rw [i3, g4], i4, by rw [i5, g5], by rw [i6, g6], by rw [i7, g7], by rw [i8, g8],
      by rw [i9, g9]⟩
    · rw [i1, g1, g4]; simp
    · rw [i2, g1, g2, g3, g4]; simp [wretsOf]

/-! ## the fsync queue's run as a `Blue.ConcLog` run -/

/-- the offset caller `c` passes to the fsync queue: the write core's answer `Ok(written)` -/
def offOf (wrets : List WRet) (c : Nat) : Nat := ((wrets[c]?).map (·.off)).getD 0

/-- the fsync queue in ITS link order: fsync caller `q` is write caller `perm[q]` -/
def fqOf (wrets : List WRet) (perm : List Nat) : List (Nat × Nat) := perm.map (fun c => (c, offOf wrets c))

/-- `FsyncCoalescingCore` over the batches, as a function: `batch` = `max` (`acc`), `work` answers
    `true` at once when `synced >= acc`, otherwise the result `oks r` of the `fdatasync` that batch
    `r` issues, `synced := acc` when it succeeds; every member of the batch gets that one answer -/
def ansOf (fq : List (Nat × Nat)) (oks : Nat → Bool) : List (Nat × Nat) → Nat → Nat → List (Nat × Bool)
  | [], _, _ => []
  | b :: bs, r, synced =>
    let mem := (fq.drop b.1).take b.2
    let a := Blue.FsyncCore.acc (mem.map Prod.snd)
    mem.map (fun e => (e.1, decide (a ≤ synced) || oks r))
      ++ ansOf fq oks bs (r + 1) (if a ≤ synced then synced else if oks r then a else synced)

/-- `fenter k` and the return of the system call it may have issued, per fsync batch -/
def fsyncEvents (oks : Nat → Bool) : List (Nat × Nat) → Nat → List Blue.ConcLog.Ev
  | [], _ => []
  | b :: bs, r => .fenter b.2 :: .fret (oks r) :: fsyncEvents oks bs (r + 1)

theorem run_flinks : ∀ (perm : List Nat) (s : Blue.ConcLog.St),
    (∀ c ∈ perm, c < s.wrets.length) → (s.fq.map Prod.fst ++ perm).Nodup →
    (perm.map Blue.ConcLog.Ev.flink).foldl (Blue.ConcLog.step P lim) s
      = { s with fq := s.fq ++ fqOf s.wrets perm }
  | [], s, _, _ => by simp [fqOf]
  | c :: perm, s, h, hn => by
    have hc := h c List.mem_cons_self
    simp only [List.map_cons, List.foldl_cons]
    have hnot : c ∉ s.fq.map Prod.fst := by
      intro hm
      have := (List.nodup_append.mp hn).2.2 c hm c List.mem_cons_self
      exact this rfl
    have h1 : Blue.ConcLog.step P lim s (.flink c) = { s with fq := s.fq ++ [(c, offOf s.wrets c)] } := by
      simp only [Blue.ConcLog.step, stepFlink, offOf]
      rw [List.getElem?_eq_getElem hc]
      simp only [Option.map_some, Option.getD_some]
      rw [if_neg hnot]
    rw [h1, run_flinks perm { s with fq := s.fq ++ [(c, offOf s.wrets c)] }
      (fun x hx => h x (List.mem_cons_of_mem _ hx)) (by simpa [List.append_assoc] using hn)]
    simp [fqOf]

/-- one fsync batch: `fenter k`, then the return of the call (a no-op when the shortcut answered) -/
theorem fsync_pair (s : Blue.ConcLog.St) (k : Nat) (ok : Bool) (hk : 1 ≤ k) (hlen : s.ftaken + k ≤ s.fq.length)
    (hfl : s.fs.flight = none) (hw : ∀ e ∈ s.fq, e.2 ≤ s.fs.written) :
    ∃ s2, Blue.ConcLog.step P lim (Blue.ConcLog.step P lim s (.fenter k)) (.fret ok) = s2
      ∧ s2.fq = s.fq ∧ s2.ftaken = s.ftaken + k ∧ s2.fs.flight = none ∧ s2.fs.written = s.fs.written
      ∧ s2.bufs = s.bufs ∧ s2.groups = s.groups ∧ s2.wrets = s.wrets
      ∧ s2.answers = s.answers ++ ((s.fq.drop s.ftaken).take k).map (fun e =>
          (e.1, decide (Blue.FsyncCore.acc (((s.fq.drop s.ftaken).take k).map Prod.snd) ≤ s.fs.synced) || ok))
      ∧ s2.fs.synced = (if Blue.FsyncCore.acc (((s.fq.drop s.ftaken).take k).map Prod.snd) ≤ s.fs.synced
          then s.fs.synced else if ok then Blue.FsyncCore.acc (((s.fq.drop s.ftaken).take k).map Prod.snd)
          else s.fs.synced) := by
  have hin : ∀ i ∈ ((s.fq.drop s.ftaken).take k).map Prod.snd, i ≤ s.fs.written := by
    intro i hi
    obtain ⟨e, he, rfl⟩ := List.mem_map.mp hi
    exact hw e (List.mem_of_mem_drop (List.mem_of_mem_take he))
  have hg : ¬ (k = 0 ∨ s.fq.length < s.ftaken + k ∨ s.fs.flight.isSome = true) := by
    rw [hfl]; simp; omega
  by_cases hs : Blue.FsyncCore.acc (((s.fq.drop s.ftaken).take k).map Prod.snd) ≤ s.fs.synced
  · have hr : Blue.FsyncCore.rstep s.fs (.enter (((s.fq.drop s.ftaken).take k).map Prod.snd))
        = (s.fs, some ⟨((s.fq.drop s.ftaken).take k).map Prod.snd, true⟩) := by
      simp only [Blue.FsyncCore.rstep, hfl]
      rw [if_pos hin, if_pos hs]
    have h1 : Blue.ConcLog.step P lim s (.fenter k) =
        { s with ftaken := s.ftaken + k
                 answers := s.answers ++ ((s.fq.drop s.ftaken).take k).map (fun e => (e.1, true))
                 trace := s.trace ++ [.enter (((s.fq.drop s.ftaken).take k).map Prod.snd)] } := by
      simp only [Blue.ConcLog.step, stepFenter]
      rw [if_neg hg, hr]
    rw [h1]
    have h2 : ∀ s1 : Blue.ConcLog.St, s1.fs.flight = none → Blue.ConcLog.step P lim s1 (.fret ok) = s1 := by
      intro s1 h
      simp only [Blue.ConcLog.step, stepFret, Blue.FsyncCore.rstep, h]
    refine ⟨_, h2 _ hfl, rfl, rfl, hfl, rfl, rfl, rfl, rfl, ?_, ?_⟩
    · show _ = _ ++ _
      rw [decide_eq_true hs]; simp
    · show _ = (if _ then _ else _)
      rw [if_pos hs]
  · have hr : Blue.FsyncCore.rstep s.fs (.enter (((s.fq.drop s.ftaken).take k).map Prod.snd))
        = ({ s.fs with flight := some ⟨Blue.FsyncCore.acc (((s.fq.drop s.ftaken).take k).map Prod.snd),
              s.fs.written, ((s.fq.drop s.ftaken).take k).map Prod.snd⟩ }, none) := by
      simp only [Blue.FsyncCore.rstep, hfl]
      rw [if_pos hin, if_neg hs]
    have h1 : Blue.ConcLog.step P lim s (.fenter k) =
        { s with ftaken := s.ftaken + k
                 fs := { s.fs with flight := some ⟨Blue.FsyncCore.acc (((s.fq.drop s.ftaken).take k).map Prod.snd),
                          s.fs.written, ((s.fq.drop s.ftaken).take k).map Prod.snd⟩ }
                 fmem := (s.fq.drop s.ftaken).take k
                 fpos := flen s.file
                 trace := s.trace ++ [.enter (((s.fq.drop s.ftaken).take k).map Prod.snd)] } := by
      simp only [Blue.ConcLog.step, stepFenter]
      rw [if_neg hg, hr]
      rfl
    rw [h1]
    cases ok
    · refine ⟨_, rfl, ?_⟩
      simp only [Blue.ConcLog.step, stepFret, Blue.FsyncCore.rstep, decide_eq_false hs, if_neg hs]
      simp
    · refine ⟨_, rfl, ?_⟩
      simp only [Blue.ConcLog.step, stepFret, Blue.FsyncCore.rstep, decide_eq_false hs, if_neg hs]
      simp

theorem run_fsyncs (oks : Nat → Bool) : ∀ (bs : List (Nat × Nat)) (s : Blue.ConcLog.St) (a t r : Nat), Chain a bs t →
    s.ftaken = a → t ≤ s.fq.length → s.fs.flight = none → (∀ e ∈ s.fq, e.2 ≤ s.fs.written) →
    let s' := (fsyncEvents oks bs r).foldl (Blue.ConcLog.step P lim) s
    s'.answers = s.answers ++ ansOf s.fq oks bs r s.fs.synced ∧ s'.ftaken = t ∧ s'.fq = s.fq
      ∧ s'.bufs = s.bufs ∧ s'.groups = s.groups ∧ s'.wrets = s.wrets
  | [], s, a, t, r, hc, ha, _, _, _ => by
    simp only [Chain] at hc
    simp [fsyncEvents, ansOf, ha, hc]
  | (i, k) :: bs, s, a, t, r, hc, ha, ht, hfl, hw => by
    obtain ⟨rfl, hk, hc'⟩ := hc
    have hle := chain_le _ _ _ hc'
    obtain ⟨s2, hs2, f1, f2, f3, f4, f5, f6, f7, f8, f9⟩ :=
      fsync_pair P lim s k (oks r) hk (by omega) hfl hw
    simp only [fsyncEvents, List.foldl_cons]
    rw [hs2]
    have ih := run_fsyncs oks bs s2 (i + k) t (r + 1) hc' (by rw [f2, ha]) (by rw [f1]; exact ht) f3
      (by rw [f1, f4]; exact hw)
    dsimp only at ih ⊢
    obtain ⟨j1, j2, j3, j4, j5, j6⟩ := ih
    refine ⟨?_, j2, by rw [j3, f1], by rw [j4, f5], by rw [j5, f6], by rw [j6, f7]⟩
    rw [j1, f8, f9, f1, ha]
    simp [ansOf]

theorem take_flatten_length_le (ms : List (List Nat)) (n : Nat) :
    (ms.take n).flatten.length ≤ ms.flatten.length := by
  have h := congrArg (fun l => l.flatten.length) (List.take_append_drop n ms)
  simp only [List.flatten_append, List.length_append] at h
  omega

/-- in every reachable state an entry of the fsync queue carries an offset the write core has
    already reported (`FsyncCoalescingCore`'s guard `i ≤ written`) -/
theorem fq_le_written (evs : List Blue.ConcLog.Ev) :
    ∀ e ∈ (Blue.ConcLog.run P lim evs).fq, e.2 ≤ (Blue.ConcLog.run P lim evs).fs.written := by
  intro e he
  obtain ⟨_, hB⟩ := invAB_run (P := P) (lim := lim) evs
  obtain ⟨w, hw, hoff⟩ := hB.fqw e he
  obtain ⟨_, h2, _⟩ := hB.wret e.1 w hw
  rw [← hoff, h2, hB.wr.2, hB.wr.1]
  exact take_flatten_length_le _ _

/-- the `Blue.ConcLog` events of the two queue runs -/
def queueEvents (bufs : List (List Nat)) (bsW : List (Nat × Nat)) (perm : List Nat) (bsF : List (Nat × Nat))
    (oks : Nat → Bool) : List Blue.ConcLog.Ev :=
  writeEvents bufs bsW ++ perm.map .flink ++ fsyncEvents oks bsF 0

/-- **(2)** the embedding.  `evsW`: any run of the wake-up model of the WRITE queue (caller `c`
    passes `bufs[c]`; `append` refuses the empty / oversized buffer before the queue; `can_batch`
    keeps every merged batch within `lim`); `evsF`: any run of the wake-up model of the FSYNC queue
    (fsync caller `q` is write caller `perm[q]`, each enters once, after its write was handed to the
    core); `oks r`: the result of the `fdatasync` fsync batch `r` issues, if it issues one.
    Then `queueEvents` is a `Blue.ConcLog` run whose `groups` are the write queue's batches, whose
    `wrets` are the write core's answers (cumulative `written`, one per member), whose fsync queue is
    `perm` with those offsets, and whose `answers` are the fsync core's answers over the fsync
    queue's batches — so `conc_log_file_is_sequential` / `conc_log_ack_is_durable` (theorems of
    every `Blue.ConcLog` run) speak about what the two wake-up models produce.  The serialisation
    chosen puts all writes before all fsync batches.  (Not a theorem here: that another serialisation
    gives the same groups and answers.  The argument: `groups`/`wrets` are a function of the write
    batches alone; the fsync core's answer depends on `synced` and the outcomes `oks` only, and its
    guard `offset ≤ written` holds in every reachable state — `fq_le_written`.  What does depend on
    the serialisation is `fs.durable`/`file.synced`, i.e. WHICH bytes a successful call covers.) -/
theorem conclog_of_two_wcqv_runs (g : Good P) (hlim : lim ≤ P.tableFull) (evsW evsF : List Blue.WcqV.Ev)
    (bufs : List (List Nat)) (perm : List Nat) (oks : Nat → Bool)
    (hlen : bufs.length = (evsW.foldl Blue.WcqV.step Blue.WcqV.init).ents.length)
    (hb : ∀ b ∈ bufs, 0 < b.length ∧ b.length ≤ lim)
    (hcb : ∀ b ∈ batches evsW Blue.WcqV.init, (groupOf bufs b).flatten.length ≤ lim)
    (hplen : perm.length = (evsF.foldl Blue.WcqV.step Blue.WcqV.init).ents.length)
    (hpn : perm.Nodup)
    (hpw : ∀ c ∈ perm, c < (evsW.foldl Blue.WcqV.step Blue.WcqV.init).log.length) :
    let bsW := batches evsW Blue.WcqV.init
    let bsF := batches evsF Blue.WcqV.init
    let s := Blue.ConcLog.run P lim (queueEvents bufs bsW perm bsF oks)
    s.bufs = bufs
      ∧ s.groups = bsW.map (groupOf bufs)
      ∧ s.wrets = wretsOf bufs bsW 0 0
      ∧ s.fq = fqOf s.wrets perm
      ∧ s.ftaken = (evsF.foldl Blue.WcqV.step Blue.WcqV.init).log.length
      ∧ s.answers = ansOf s.fq oks bsF 0 0
      ∧ crashA s.file = writeAll P (bsW.map (fun b => (groupOf bufs b).flatten)) 0
      ∧ readAll P (crashA s.file) (bsW.length + 1) 0 = some (bsW.map (fun b => (groupOf bufs b).flatten)) := by
  intro bsW bsF s
  obtain ⟨⟨hchainW, hleW, _⟩, _, _⟩ := wcqv_run_meets_spec evsW
  obtain ⟨⟨hchainF, hleF, _⟩, _, _⟩ := wcqv_run_meets_spec evsF
  -- phase 1: links and writes
  have hs1 : Blue.ConcLog.run P lim (writeEvents bufs bsW)
      = (bsW.map (fun b => Blue.ConcLog.Ev.write b.2)).foldl (Blue.ConcLog.step P lim)
          { Blue.ConcLog.init with bufs := bufs } := by
    unfold Blue.ConcLog.run writeEvents
    rw [List.foldl_append, run_links P lim bufs _ hb]
    simp [Blue.ConcLog.init]
  have hw := run_writes P lim bsW { Blue.ConcLog.init with bufs := bufs } 0 _ hchainW rfl
    (by rw [hlen]; exact hleW) hcb
  dsimp only at hw
  rw [← hs1] at hw
  obtain ⟨w1, w2, w3, w4, w5, w6, w7, w8, w9⟩ := hw
  -- phase 2: the fsync queue's links
  have hs2 : Blue.ConcLog.run P lim (writeEvents bufs bsW ++ perm.map .flink)
      = { Blue.ConcLog.run P lim (writeEvents bufs bsW) with
          fq := fqOf (Blue.ConcLog.run P lim (writeEvents bufs bsW)).wrets perm } := by
    rw [run_append, run_flinks P lim perm _ (by rw [w4]; exact hpw) (by rw [w5]; simpa [Blue.ConcLog.init] using hpn)]
    rw [w5]; simp [Blue.ConcLog.init]
  -- phase 3: the fsync batches
  have hs3 : s = (fsyncEvents oks bsF 0).foldl (Blue.ConcLog.step P lim)
      (Blue.ConcLog.run P lim (writeEvents bufs bsW ++ perm.map .flink)) := by
    show Blue.ConcLog.run P lim (queueEvents bufs bsW perm bsF oks) = _
    unfold queueEvents
    rw [run_append]
  have hf := run_fsyncs P lim oks bsF (Blue.ConcLog.run P lim (writeEvents bufs bsW ++ perm.map .flink)) 0 _ 0
    hchainF (by rw [hs2]; exact w6) (by rw [hs2]; simp only [fqOf, List.length_map]; rw [hplen]; exact hleF)
    (by rw [hs2]; exact w8) (fq_le_written P lim _)
  dsimp only at hf
  rw [← hs3] at hf
  obtain ⟨f1, f2, f3, f4, f5, f6⟩ := hf
  rw [hs2] at f1 f3 f4 f5 f6
  dsimp only at f1 f3 f4 f5 f6
  have hgroups : s.groups = bsW.map (groupOf bufs) := by rw [f5, w1]; simp [Blue.ConcLog.init]
  have hwrets : s.wrets = wretsOf bufs bsW 0 0 := by rw [f6, w2]; simp [Blue.ConcLog.init]
  have hseq := conc_log_file_is_sequential (lim := lim) g hlim (queueEvents bufs bsW perm bsF oks)
  dsimp only at hseq
  have hmerged : merged s = bsW.map (fun b => (groupOf bufs b).flatten) := by
    unfold merged; rw [hgroups]; simp
  refine ⟨by rw [f4, w3], hgroups, hwrets, by rw [f3, f6], f2, ?_, ?_, ?_⟩
  · rw [f1, w7, w9, f3]; simp [Blue.ConcLog.init, Blue.FsyncCore.init]
  · have := hseq.1; rw [hmerged] at this; exact this
  · have := hseq.2.2.2; rw [hmerged] at this; simpa using this


/-- … and what the two `do_work` calls of a caller RETURN in the wake-up models is what that
    `Blue.ConcLog` run answers: when the deliveries of the write-queue run carry the write core's
    `Ok(written)` (`wretsOf`) and those of the fsync-queue run the fsync core's `bool` (`ansOf`; a
    `Nat` `v` stands for `v ≠ 0`), the value caller `c` got from the write queue is `wrets[c].off`
    and the value fsync caller `q` got is the entry `p` of `perm[q]` in `answers` (`acked` / `failed`). -/
theorem queue_returns_are_conclog_answers (g : Good P) (hlim : lim ≤ P.tableFull) (evsW evsF : List Blue.WcqV.Ev)
    (bufs : List (List Nat)) (perm : List Nat) (oks : Nat → Bool)
    (hlen : bufs.length = (evsW.foldl Blue.WcqV.step Blue.WcqV.init).ents.length)
    (hb : ∀ b ∈ bufs, 0 < b.length ∧ b.length ≤ lim)
    (hcb : ∀ b ∈ batches evsW Blue.WcqV.init, (groupOf bufs b).flatten.length ≤ lim)
    (hplen : perm.length = (evsF.foldl Blue.WcqV.step Blue.WcqV.init).ents.length)
    (hpn : perm.Nodup)
    (hpw : ∀ c ∈ perm, c < (evsW.foldl Blue.WcqV.step Blue.WcqV.init).log.length)
    (hcoreW : ∀ e ∈ (evsW.foldl Blue.WcqV.step Blue.WcqV.init).prod,
      ((wretsOf bufs (batches evsW Blue.WcqV.init) 0 0)[e.1]?).map (·.off) = some e.2)
    (hcoreF : ∀ e ∈ (evsF.foldl Blue.WcqV.step Blue.WcqV.init).prod,
      ∃ p ∈ ansOf (fqOf (wretsOf bufs (batches evsW Blue.WcqV.init) 0 0) perm) oks (batches evsF Blue.WcqV.init) 0 0,
        perm[e.1]? = some p.1 ∧ p.2 = (e.2 != 0)) :
    let s := Blue.ConcLog.run P lim
      (queueEvents bufs (batches evsW Blue.WcqV.init) perm (batches evsF Blue.WcqV.init) oks)
    (∀ c o, retOf (evsW.foldl Blue.WcqV.step Blue.WcqV.init) c = some o → (s.wrets[c]?).map (·.off) = some o)
      ∧ (∀ q o, retOf (evsF.foldl Blue.WcqV.step Blue.WcqV.init) q = some o →
          ∃ p ∈ s.answers, perm[q]? = some p.1 ∧ p.2 = (o != 0)) := by
  intro s
  obtain ⟨_, _, h3, h4, _, h6, _⟩ :=
    conclog_of_two_wcqv_runs P lim g hlim evsW evsF bufs perm oks hlen hb hcb hplen hpn hpw
  refine ⟨?_, ?_⟩
  · intro c o hr
    show ((Blue.ConcLog.run P lim _).wrets[c]?).map (·.off) = some o
    rw [h3]
    exact wcqv_returns_core_output evsW
      (fun c => ((wretsOf bufs (batches evsW Blue.WcqV.init) 0 0)[c]?).map (·.off)) hcoreW c o hr
  · intro q o hr
    obtain ⟨p, hm, hc⟩ := hcoreF (q, o) (look_mem _ q o ((wcqv_run_meets_spec evsF).1.own q o hr).1)
    refine ⟨p, ?_, hc⟩
    show p ∈ (Blue.ConcLog.run P lim _).answers
    rw [h6, h4, h3]
    exact hm

end embed

end Blue.ConcLogQueues

#print axioms Blue.ConcLogQueues.wcqv_run_meets_spec
#print axioms Blue.ConcLogQueues.wcqv_one_batch_at_a_time
#print axioms Blue.ConcLogQueues.wcqv_returns_core_output
#print axioms Blue.ConcLogQueues.conclog_of_two_wcqv_runs
#print axioms Blue.ConcLogQueues.queue_returns_are_conclog_answers
