import Blue.Generated.Consts
import Blue.Model.Mani
/-! Constants of the manifest text format regenerated from the Rust source, tied to the model (C13). -/
namespace Blue.ConstsTie

theorem mani_separator : Blue.Mani.SEP = Blue.Generated.maniTxSeparator := by decide
theorem mani_min_line : Blue.Generated.maniMinLine = 9 := by decide


/-- `Manifest::open` calls `read_mani(MANIFEST)` only inside the arm that holds the lock
    (`Some(_lockfile) =>`), after `Lockfile::wait` / `Lockfile::lock`: `Blue.ManiLock.waiterOpen`
    with `readFirst = false` -/
theorem mani_open_reads_under_lock : Blue.Generated.maniOpenReadsUnderLock = 1 := by decide

end Blue.ConstsTie
