import Blue.Proofs.RrrBuild
import Blue.Proofs.BitVecLaws
/-! The 63-bit chunks of a bit pattern: counting set bits of a prefix chunk by chunk. -/
namespace Blue.Rrr

/-- the bits of word `k` (`SixtyThreeBitWords`) -/
def chunk (bits : List Bool) (k : Nat) : List Bool := (bits.drop (63 * k)).take 63

theorem chunk_length (bits : List Bool) (k : Nat) : (chunk bits k).length = min 63 (bits.length - 63 * k) := by
  unfold chunk; rw [List.length_take, List.length_drop]

theorem chunk_length_le (bits : List Bool) (k : Nat) : (chunk bits k).length ≤ 63 := by
  rw [chunk_length]; exact Nat.min_le_left _ _

theorem take_chunk (bits : List Bool) (k i : Nat) (hi : i ≤ 63) :
    bits.take (63 * k + i) = bits.take (63 * k) ++ (chunk bits k).take i := by
  unfold chunk
  rw [List.take_add, List.take_take, Nat.min_eq_left hi]

theorem take_chunk_full (bits : List Bool) (k : Nat) :
    bits.take (63 * (k + 1)) = bits.take (63 * k) ++ chunk bits k := by
  have := take_chunk bits k 63 (Nat.le_refl _)
  rw [List.take_of_length_le (chunk_length_le bits k)] at this
  rw [← this]; congr 1

theorem getD_chunk (bits : List Bool) (k i : Nat) (hi : i < 63) :
    (chunk bits k).getD i false = bits.getD (63 * k + i) false := by
  unfold chunk
  rw [List.getD_eq_getElem?_getD, List.getD_eq_getElem?_getD, List.getElem?_take, if_pos hi, List.getElem?_drop]

/-- set bits of chunk `k` -/
def cnt (bits : List Bool) (k : Nat) : Nat := (chunk bits k).count true

theorem cnt_le (bits : List Bool) (k : Nat) : cnt bits k ≤ 63 :=
  Nat.le_trans List.count_le_length (chunk_length_le bits k)

theorem cnt_le_length (bits : List Bool) (k : Nat) : cnt bits k ≤ (chunk bits k).length := List.count_le_length

theorem count_take_blocks (bits : List Bool) (b : Bool) (t : Nat) :
    (bits.take (63 * t)).count b = psum (fun k => (chunk bits k).count b) t := by
  induction t with
  | zero => simp
  | succ t ih => rw [take_chunk_full, List.count_append, ih, psum_succ]

theorem count_take_pos (bits : List Bool) (b : Bool) (t i : Nat) (hi : i ≤ 63) :
    (bits.take (63 * t + i)).count b = psum (fun k => (chunk bits k).count b) t + ((chunk bits t).take i).count b := by
  rw [take_chunk bits t i hi, List.count_append, count_take_blocks]

theorem count_true_take_blocks (bits : List Bool) (t : Nat) : (bits.take (63 * t)).count true = psum (cnt bits) t :=
  count_take_blocks bits true t

theorem count_true_take_pos (bits : List Bool) (t i : Nat) (hi : i ≤ 63) :
    (bits.take (63 * t + i)).count true = psum (cnt bits) t + ((chunk bits t).take i).count true :=
  count_take_pos bits true t i hi

/-- clear bits before a word boundary inside the pattern: `63 t` minus the set bits -/
theorem count_false_take_blocks (bits : List Bool) (t : Nat) (h : 63 * t ≤ bits.length) :
    (bits.take (63 * t)).count false + psum (cnt bits) t = 63 * t := by
  have := Blue.BitVec.count_true_add_false (bits.take (63 * t))
  rw [List.length_take, Nat.min_eq_left h, count_true_take_blocks] at this
  omega

/-- a full chunk: its clear bits are `63 -` its set bits -/
theorem count_false_chunk (bits : List Bool) (k : Nat) :
    (chunk bits k).count false + cnt bits k = (chunk bits k).length := by
  have := Blue.BitVec.count_true_add_false (chunk bits k)
  unfold cnt; omega

end Blue.Rrr
