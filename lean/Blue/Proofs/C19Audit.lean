import Blue.Proofs.CsaExists
import Blue.Proofs.Rrr
import Blue.Proofs.RrrWord
import Blue.Proofs.RrrCf
import Blue.Proofs.BvSparse
import Blue.Proofs.SparseUses
import Blue.Proofs.PsiWt
import Blue.Proofs.PsiDoc
/-! **C19**, statements an independent audit of the theorem statements asked for
    (`docs/AUDIT_REPORT.md`, section C19):

    * `access_rank` at `x = len` — where the three encodings do NOT agree with each other — as theorems;
    * `cf_rrr`'s `rank0` (the trait default), the `y_key` vector of the wavelet-tree ψ on the sparse tree;
    * the empty needle and `Document::len` at the `PsiDoc` layer;
    * the headline theorems with the suffix arrangement EXISTING (`Blue.Csa.sa_exists`) instead of
      being hypothetical. -/

/-! ### `access_rank` against the reference, and at `x = len` -/
namespace Blue.BitVec

/-- `ReferenceBitVector::access_rank`: `Some((self.access(x)?, self.rank(x)?))` -/
def refAccessRank (bits : List Bool) (x : Nat) : Option (Bool × Nat) :=
  match access bits x, rank bits x with
  | some b, some r => some (b, r)
  | _, _ => none

theorem rank_of_le (bits : List Bool) (x : Nat) (h : x ≤ bits.length) :
    rank bits x = some ((bits.take x).count true) := by
  unfold rank; rw [if_pos h]

theorem rank_of_gt (bits : List Bool) (x : Nat) (h : ¬ x ≤ bits.length) : rank bits x = none := by
  unfold rank; rw [if_neg h]

/-- the reference `access_rank` in closed form: defined exactly below `len` -/
theorem refAccessRank_eq (bits : List Bool) (x : Nat) :
    refAccessRank bits x
      = if x < bits.length then some (bits.getD x false, (bits.take x).count true) else none := by
  unfold refAccessRank access
  by_cases h : x < bits.length
  · rw [if_pos h, List.getElem?_eq_getElem h, rank_of_le bits x (by omega)]
    simp only
    rw [List.getD_eq_getElem?_getD, List.getElem?_eq_getElem h]
    rfl
  · rw [if_neg h, List.getElem?_eq_none (by omega)]

/-- at `x = len` the reference has no `access_rank` (there is no bit to access) although `rank(len)`
    is the number of set bits -/
theorem refAccessRank_len (bits : List Bool) :
    refAccessRank bits bits.length = none ∧ rank bits bits.length = some (bits.count true) := by
  refine ⟨?_, ?_⟩
  · rw [refAccessRank_eq, if_neg (by omega)]
  · rw [rank_of_le bits _ (Nat.le_refl _), List.take_length]

/-- the value `cf_rrr` and `sparse` give `access_rank`: the reference's below `len`, `(false, total)` AT
    `len`, nothing beyond -/
theorem accessRank_le_form (bits : List Bool) (x : Nat) :
    (if x ≤ bits.length then some (bits.getD x false, (bits.take x).count true) else none)
      = if x = bits.length then some (false, bits.count true) else refAccessRank bits x := by
  rw [refAccessRank_eq]
  by_cases h : x = bits.length
  · subst h
    rw [if_pos (Nat.le_refl _), if_pos rfl, List.take_length, List.getD_eq_getElem?_getD,
      List.getElem?_eq_none (Nat.le_refl _)]
    rfl
  · rw [if_neg h]
    by_cases h' : x < bits.length
    · rw [if_pos (by omega), if_pos h']
    · rw [if_neg (by omega), if_neg h']

end Blue.BitVec

namespace Blue.C19Audit
open Blue.BitVec

/-- **C19** `access_rank` of the three encodings against the REFERENCE `access_rank` (`access` and
    `rank`, both defined): `rrr` equals it at every argument; `cf_rrr` and `sparse` equal it at every
    argument except `x = len`, where they answer `Some((false, number of set bits))` and the reference
    (and `rrr`) `None` — as the code does (`cf_rrr.rs`: the `index == len` branch; `sparse.rs`: the scan
    runs off the last leaf) -/
theorem accessRank_vs_reference (bits : List Bool) (x : Nat) :
    Blue.Rrr.accessRank (Blue.Rrr.construct bits) x = refAccessRank bits x
    ∧ Blue.RrrCf.accessRank (Blue.RrrCf.construct bits) x
        = (if x = bits.length then some (false, bits.count true) else refAccessRank bits x)
    ∧ (∀ branch t, 4 ≤ branch → branch < 256 → bits.length ≤ Blue.BvSparse.u64Max →
        Blue.BvSparse.build branch bits.length (Blue.BvSparse.indicesOf bits) = some t →
        Blue.BvSparse.accessRank t x
          = (if x = bits.length then some (false, bits.count true) else refAccessRank bits x)) := by
  refine ⟨?_, ?_, ?_⟩
  · rw [Blue.Rrr.accessRank_eq Blue.Rrr.wordSpec, refAccessRank_eq]
  · rw [Blue.RrrCf.accessRank_construct Blue.Rrr.wordSpec, accessRank_le_form]
  · intro branch t hb1 hb2 hlen ht
    rw [((Blue.BvSparse.bits_theorems hb1 hb2 hlen).2 t ht).2 x |>.1, accessRank_le_form]

/-- **C19** … spelled out at `x = len` -/
theorem accessRank_at_len (bits : List Bool) :
    refAccessRank bits bits.length = none
    ∧ Blue.Rrr.accessRank (Blue.Rrr.construct bits) bits.length = none
    ∧ Blue.RrrCf.accessRank (Blue.RrrCf.construct bits) bits.length = some (false, bits.count true)
    ∧ (∀ branch t, 4 ≤ branch → branch < 256 → bits.length ≤ Blue.BvSparse.u64Max →
        Blue.BvSparse.build branch bits.length (Blue.BvSparse.indicesOf bits) = some t →
        Blue.BvSparse.accessRank t bits.length = some (false, bits.count true)) := by
  obtain ⟨h1, h2, h3⟩ := accessRank_vs_reference bits bits.length
  refine ⟨(refAccessRank_len bits).1, ?_, ?_, ?_⟩
  · rw [h1]; exact (refAccessRank_len bits).1
  · rw [h2, if_pos rfl]
  · intro branch t hb1 hb2 hlen ht
    rw [h3 branch t hb1 hb2 hlen ht, if_pos rfl]

/-- **C19** `cf_rrr` does not override `rank0`: the trait default `Some(x - self.rank(x)?)` over
    `cf_rrr::rank` is the reference `rank0` -/
theorem cf_rank0 (bits : List Bool) (x : Nat) :
    (Blue.RrrCf.rank (Blue.RrrCf.construct bits) x).map (fun r => x - r) = rank0 bits x := by
  rw [Blue.RrrCf.rank_construct Blue.Rrr.wordSpec]; rfl

/-- **C19** the `y_key` vector of the wavelet-tree ψ (`from_indices(128, psi.len(), y_key)`): the
    positions handed to `from_indices` are strictly increasing and below `psi.len()`, the sparse tree
    exists for EVERY branch factor the code allows, 4..255 (so for the literal `128` of
    `psi/wavelet_tree.rs`), and answers `rank` / `select` — all the ψ code asks of it — like the plain
    bit array `w.ykey` of the ψ model -/
theorem psi_ykey {syms psi : List Nat} (h : Blue.PsiWt.Good syms psi) (w : Blue.PsiWt.WtPsi)
    (hw : Blue.PsiWt.construct syms psi = some w) (hlen : psi.length ≤ Blue.BvSparse.u64Max)
    (branch : Nat) (hb1 : 4 ≤ branch) (hb2 : branch < 256) :
    ∃ ykeys t, w.ykey = Blue.Sampled.presentBits psi.length ykeys
      ∧ Blue.BvSparse.build branch psi.length ykeys = some t
      ∧ ∀ x, Blue.BvSparse.rank t x = rank w.ykey x ∧ Blue.BvSparse.select t x = select w.ykey x := by
  obtain ⟨ykeys, hk, hpw, hlt, _⟩ := Blue.PsiWt.construct_ykeys h w hw
  obtain ⟨t, ht, hall⟩ := Blue.SparseUses.sparse_presentBits branch psi.length ykeys hb1 hb2 hpw hlt hlen
  refine ⟨ykeys, t, hk, ht, fun x => ?_⟩
  rw [hk]
  exact ⟨(hall x).2.2.1, (hall x).2.2.2⟩

end Blue.C19Audit

/-! ### the empty needle and `Document::len` at the `PsiDoc` layer -/
namespace Blue.PsiDoc
open Blue.PsiWt Blue.PsiWt.Outcome Blue.Csa Blue.CsaDoc Blue.Sigma Blue.Sampled

/-- `PsiDocument::len`: `self.psi.len() - 1` -/
def docLen (w : WtPsi) : Nat := Blue.PsiWt.len w - 1

section
variable (text : List Nat) {l : List (List Nat)} (hperm : l.Perm (suffixes (translated text)))
  (hsorted : l.Pairwise (fun a b => lexLt a b = true))
  (w : WtPsi) (hw : Blue.PsiWt.construct (symsOf l) (psiOf (translated text) l) = some w)
include hperm hsorted hw

/-- **C19** `Document::len` of the compressed document is the length of the original text -/
theorem docLen_eq : docLen w = text.length := by
  unfold docLen
  rw [len_w text hperm hsorted w hw, length_eq _ hperm, translated_length]
  omega

/-- the empty needle: every rank but the end marker's -/
theorem backwardsSearch_empty :
    Blue.PsiDoc.backwardsSearch (symsOf l) w (rangeForT (sigOf text)) [] = ok (1, text.length) := by
  show ok (1, Blue.PsiWt.len w - 1) = ok (1, text.length)
  have := docLen_eq text hperm hsorted w hw
  unfold docLen at this
  rw [this]

/-- **C19** `count` of the empty needle is the length of the text (the plain scan finds the empty
    needle at every position) -/
theorem count_empty :
    Blue.PsiDoc.count (symsOf l) w (rangeForT (sigOf text)) [] = ok text.length := by
  unfold Blue.PsiDoc.count
  rw [backwardsSearch_empty text hperm hsorted w hw]
  simp only
  by_cases h : text.length = 0
  · rw [if_pos (by omega), h]
  · rw [if_neg (by omega)]; congr 1; omega

/-- **C19** `count` is the plain scan's for EVERY needle, the empty one included -/
theorem count_is_scan_all (needle : List Nat) :
    Blue.PsiDoc.count (symsOf l) w (rangeForT (sigOf text)) needle
      = ok (((List.range text.length).filter (fun k => needle.isPrefixOf (text.drop k))).length) := by
  cases needle with
  | nil =>
    rw [count_empty text hperm hsorted w hw]
    congr 1
    rw [List.filter_eq_self.mpr (fun k _ => by simp [List.isPrefixOf]), List.length_range]
  | cons c rest => exact count_is_scan text hperm hsorted w hw (c :: rest) (by simp)

/-- **C19** `search` of the empty needle reports every position of the text, ascending -/
theorem search_empty (st : Nat) :
    ∃ ssa ps, ssaConstruct st (saList l) = some ssa
      ∧ Blue.PsiDoc.search (symsOf l) w (rangeForT (sigOf text)) ssa [] = ok ps
      ∧ ps.Pairwise (· ≤ ·) ∧ ∀ k, k ∈ ps ↔ k < text.length := by
  have hT : translated text ≠ [] := by simp [translated]
  have h0 := rank0_marker text hperm hsorted
  obtain ⟨ssa, hc, hwalk⟩ := ssaWalk_exact _ hperm hsorted hT h0 st
  have hlw := len_w text hperm hsorted w hw
  have hTl := translated_length text
  have hlen : l.length = text.length + 1 := by rw [length_eq _ hperm, hTl]
  have hlk := hwalk (Blue.PsiWt.lookup (symsOf l) w)
    (fun idx hidx hlong => lookup_is_psi text hperm hsorted w hw idx hidx hlong)
    (len w + 1) (by rw [hlw]; omega)
  have hbs := backwardsSearch_empty text hperm hsorted w hw
  by_cases hz : text.length = 0
  · refine ⟨ssa, [], hc, ?_, List.Pairwise.nil, fun k => ?_⟩
    · unfold Blue.PsiDoc.search
      rw [hbs]
      simp only
      rw [if_pos (by omega)]
    · simp only [List.not_mem_nil, false_iff]; omega
  · refine ⟨ssa, ((List.range (text.length - 1 + 1)).map (fun d => saOf l l.length (1 + d))).foldr insertNat [],
      hc, ?_, sortNat_sorted _, fun k => ?_⟩
    · unfold Blue.PsiDoc.search
      rw [hbs]
      simp only
      rw [if_neg (by omega)]
      rw [allSome_map (fun d => ssaWalk (Blue.PsiWt.lookup (symsOf l) w) ssa (len w + 1) (1 + d) 0)
        (fun d => saOf l l.length (1 + d))]
      · rfl
      · intro d hd
        rw [List.mem_range] at hd
        exact hlk _ (by omega)
    · rw [mem_sortNat, List.mem_map]
      constructor
      · rintro ⟨d, hd, rfl⟩
        rw [List.mem_range] at hd
        have hi : 1 + d < l.length := by omega
        have hlt := saOf_lt _ hperm (1 + d) hi
        have hsl := str_length _ hperm (1 + d) hi
        rcases Nat.lt_or_ge (saOf l l.length (1 + d)) text.length with h | h
        · exact h
        · have h1 : (str l (1 + d)).length = (str l 0).length := by rw [hsl, h0]; omega
          have := rank_eq_of_length_eq _ hperm hsorted (1 + d) 0 hi (by omega) h1
          omega
      · intro hk
        obtain ⟨hi, hs⟩ := str_isa (translated text) hperm k (by omega)
        have hsl : (str l (isa l k)).length = text.length + 1 - k := by
          rw [hs, List.length_drop, hTl]
        have hne : isa l k ≠ 0 := by
          intro e; rw [e, h0] at hsl; omega
        refine ⟨isa l k - 1, List.mem_range.mpr (by omega), ?_⟩
        have e : 1 + (isa l k - 1) = isa l k := by omega
        rw [e]
        unfold saOf
        rw [hsl, hlen]
        omega

end
end Blue.PsiDoc

/-! ### the headline theorems with the suffix arrangement existing -/
namespace Blue.C19Audit
open Blue.Csa

/-- **C19** for EVERY text over any code points the objects the theorems speak of exist — the sorted
    arrangement `l` of the suffixes of the translated text (exactly one: `sortedSuffixes`), the
    wavelet-tree ψ `w` built from it, the sampled suffix array for every stride, the sampled inverse
    for every admissible division into records — and over them `Document::len` is the length of the
    text, `count` is the plain scan's for every needle (empty, occurring or absent), `search` reports
    exactly the occurrence positions in ascending order, and `retrieve(r)` is record `r`.  No
    hypothesis is left: what this does NOT say is that `sais.rs` computes this `l` (decided per input
    by the correspondence run) -/
theorem compressed_document_exists (text : List Nat) :
    ∃ l w, l = sortedSuffixes (Blue.Sigma.translated text)
      ∧ (∀ l', l'.Perm (suffixes (Blue.Sigma.translated text)) →
            l'.Pairwise (fun a b => lexLt a b = true) → l' = l)
      ∧ Blue.PsiWt.construct (Blue.PsiWt.symsOf l) (Blue.PsiWt.psiOf (Blue.Sigma.translated text) l) = some w
      ∧ Blue.PsiDoc.docLen w = text.length
      ∧ (∀ needle, Blue.PsiDoc.count (Blue.PsiWt.symsOf l) w (Blue.Sigma.rangeForT (Blue.Sigma.sigOf text)) needle
            = .ok (((List.range text.length).filter (fun k => needle.isPrefixOf (text.drop k))).length))
      ∧ (∀ st needle, ∃ ssa ps, Blue.Sampled.ssaConstruct st (Blue.Sampled.saList l) = some ssa
            ∧ Blue.PsiDoc.search (Blue.PsiWt.symsOf l) w (Blue.Sigma.rangeForT (Blue.Sigma.sigOf text)) ssa needle = .ok ps
            ∧ ps.Pairwise (· ≤ ·) ∧ ∀ k, k ∈ ps ↔ (k < text.length ∧ needle <+: text.drop k))
      ∧ (∀ rb, Blue.CsaDoc.admissible text.length rb = true → ∀ r (hr : r < rb.length),
            ∃ si, Blue.Sampled.sisaConstruct l rb = some si
              ∧ Blue.PsiDoc.retrieve (Blue.Sigma.sigOf text) (Blue.PsiWt.symsOf l) w si
                  (Blue.CsaDoc.boundaryBits text.length rb) r
                = some ((text.drop rb[r]).take (rb[r + 1]?.getD text.length - rb[r]))) := by
  obtain ⟨hperm, hsorted⟩ := sortedSuffixes_spec (Blue.Sigma.translated text)
  obtain ⟨w, hw, _⟩ := Blue.PsiDoc.construct_exists text hperm hsorted
  refine ⟨_, w, rfl, fun l' h1 h2 => sa_unique _ l' h1 h2, hw,
    Blue.PsiDoc.docLen_eq text hperm hsorted w hw,
    fun needle => Blue.PsiDoc.count_is_scan_all text hperm hsorted w hw needle,
    fun st needle => ?_,
    fun rb hadm r hr => Blue.PsiDoc.retrieve_is_record text hperm hsorted w hw rb hadm r hr⟩
  cases needle with
  | nil =>
    obtain ⟨ssa, ps, h1, h2, h3, h4⟩ := Blue.PsiDoc.search_empty text hperm hsorted w hw st
    exact ⟨ssa, ps, h1, h2, h3, fun k => (h4 k).trans ⟨fun h => ⟨h, List.nil_prefix⟩, fun h => h.1⟩⟩
  | cons c rest => exact Blue.PsiDoc.search_is_scan text hperm hsorted w hw st (c :: rest) (by simp)

end Blue.C19Audit

#print axioms Blue.C19Audit.accessRank_vs_reference
#print axioms Blue.C19Audit.accessRank_at_len
#print axioms Blue.C19Audit.cf_rank0
#print axioms Blue.C19Audit.psi_ykey
#print axioms Blue.PsiDoc.docLen_eq
#print axioms Blue.PsiDoc.count_empty
#print axioms Blue.PsiDoc.count_is_scan_all
#print axioms Blue.PsiDoc.search_empty
#print axioms Blue.C19Audit.compressed_document_exists
