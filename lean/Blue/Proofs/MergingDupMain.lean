import Blue.Proofs.MergingDupSteps
import Blue.Proofs.MergingLink
/-! **C11/C03, merging cursor over children that may hold the same entry.**  The simulation
    relation is the relation `Rel` of the duplicate-free case for *some* owner assignment `M'` of
    the same children (`Same M M'`); which child shows an entry that several children hold depends
    on the heap's tie-breaking and may differ between a forward and a backward pass, but the
    entry shown does not. -/
namespace Blue.Cursor
open Blue.Heap

variable {E : Type} {lt : E → E → Bool} {M : List (E × Nat)} {k : Nat}

theorem rel_kvW (st : StrictTotal lt) (fam : FamilyW lt M k) {m : Merging E} {pos : Nat}
    (h : Rel lt M k m pos) : m.kv = (Ref.mk (M.map (·.1)) pos).kv := by
  cases h with
  | fwdA cs p hp hall htail hmin =>
    rw [kv_fwdW st fam cs p hall hmin]; simp [Ref.kv]
  | fwdB cs0 hall htail =>
    cases cs0 with
    | nil => simp [Merging.kv, Merging.modifyHead, Ref.kv]
    | cons c t => simp [Merging.kv, Merging.modifyHead, Ref.kv, Ref.first]
  | revA cs p hp hall htail hmin =>
    cases pos with
    | zero =>
      cases cs with
      | nil => simp [Merging.kv, Ref.kv]
      | cons c t =>
        have hc := head_mem_of_perm hall rfl
        rw [List.mem_map] at hc
        obtain ⟨j, _, rfl⟩ := hc
        have h0 : (gAt M j 0).kv = none := kv_gAt_zero j
        show (gAt M j 0).kv = _
        rw [h0]; simp [Ref.kv]
    | succ q =>
      have hq : q < M.length := by omega
      have hMq : M[q]? = some (M[q].1, M[q].2) := by simp [hq]
      rw [kv_revW_succ st fam cs q hall hmin _ _ hMq]
      simp [Ref.kv, hq]
  | revB cs0 hall htail =>
    cases cs0 with
    | nil => simp [Merging.kv, Merging.modifyHead, Ref.kv]
    | cons c t =>
      have hx : c.xs.length ≤ c.xs.length := Nat.le_refl _
      simp [Merging.kv, Merging.modifyHead, Ref.kv, Ref.last]

theorem rel_seekW (st : StrictTotal lt) (fam : FamilyW lt M k) {m : Merging E} {pos : Nat}
    (h : Rel lt M k m pos) (pred : E → Bool) (hmono : Mono lt pred) :
    Rel lt M k (m.seek lt pred) ((M.map (·.1)).findIdx pred + 1) := by
  have hk := rel_kids h
  unfold Merging.seek
  have hmap := map_of_kids hk (Ref.seek pred) (fun j => fAt M j ((M.map (·.1)).findIdx pred))
    (fun c j hc => seek_fAtW st fam pred hmono j c hc)
  obtain ⟨hperm, htail, hmin⟩ := heapify_state st true (m.cs.map (Ref.seek pred))
  have hle : (M.map (·.1)).findIdx pred ≤ M.length := by
    have := List.findIdx_le_length (p := pred) (xs := M.map (·.1)); simpa using this
  exact Rel.fwdA _ _ hle (hperm.trans hmap) htail hmin

theorem rel_nextW (st : StrictTotal lt) (fam : FamilyW lt M k) {m : Merging E} {pos : Nat}
    (h : Rel lt M k m pos) :
    ∃ M', Same M M' ∧ FamilyW lt M' k ∧ Rel lt M' k (m.next lt) (Ref.next ⟨M.map (·.1), pos⟩).pos := by
  cases h with
  | fwdA cs p hp hall htail hmin =>
    by_cases hlt : p < M.length
    · have hMp : M[p]? = some (M[p].1, M[p].2) := by simp [hlt]
      obtain ⟨M', hs, fam', h1, h2, h3⟩ := next_fwdW st fam cs p hall htail hmin _ _ hMp
      rw [ref_next_pos_le _ _ (by simp; omega)]
      exact ⟨M', hs, fam', Rel.fwdA _ (p+1) (by rw [hs.length]; omega) h1 h2 h3⟩
    · refine ⟨M, Same.refl M, fam, ?_⟩
      have hge : M.length ≤ p := by omega
      obtain ⟨h1, h2, h3⟩ := next_fwdA_end st cs p hge hall htail
      rw [ref_next_pos_gt _ _ (by simp; omega)]
      exact Rel.fwdA _ p hp h1 h2 h3
  | fwdB cs0 hall htail =>
    refine ⟨M, Same.refl M, fam, ?_⟩
    have hcs : Merging.modifyHead Ref.next (Merging.modifyHead Ref.first cs0) = cs0 := by
      cases cs0 with
      | nil => rfl
      | cons c t =>
        have hc := head_mem_of_perm hall rfl
        rw [List.mem_map] at hc
        obtain ⟨j, _, rfl⟩ := hc
        simp [Merging.modifyHead, Ref.first, Ref.next, fAt, before_zero]
    rw [ref_next_pos_le _ _ (Nat.zero_le _)]
    unfold Merging.next
    simp only [if_true]
    rw [hcs]
    obtain ⟨hperm, htail', hmin'⟩ := percolate_state st true cs0 htail
    exact Rel.fwdA _ 0 (Nat.zero_le _) (hperm.trans hall) htail' hmin'
  | revA cs p hp hall htail hmin =>
    refine ⟨M, Same.refl M, fam, ?_⟩
    have hmap : (cs.map Ref.next).Perm ((List.range k).map (fun j => fAt M j pos)) := by
      have := hall.map Ref.next
      simpa [Function.comp_def, gAt_next] using this
    obtain ⟨hperm, htail', hmin'⟩ := heapify_state st true (cs.map Ref.next)
    rw [ref_next_pos_le _ _ (by simp; omega)]
    exact Rel.fwdA _ pos hp (hperm.trans hmap) htail' hmin'
  | revB cs0 hall htail =>
    refine ⟨M, Same.refl M, fam, ?_⟩
    have hcs : (Merging.modifyHead Ref.last cs0).map Ref.next = cs0.map Ref.next := by
      cases cs0 with
      | nil => rfl
      | cons c t =>
        have hc := head_mem_of_perm hall rfl
        rw [List.mem_map] at hc
        obtain ⟨j, _, rfl⟩ := hc
        simp only [Merging.modifyHead, List.map_cons]
        congr 1
        unfold Ref.last Ref.next gAt
        simp [before_all M j M.length (Nat.le_refl _)]
    have hmap : (cs0.map Ref.next).Perm ((List.range k).map (fun j => fAt M j M.length)) := by
      have := hall.map Ref.next
      simpa [Function.comp_def, gAt_next] using this
    obtain ⟨hperm, htail', hmin'⟩ := heapify_state st true (cs0.map Ref.next)
    rw [ref_next_pos_gt _ _ (by simp)]
    unfold Merging.next
    simp only [Bool.false_eq_true, if_false]
    rw [hcs]
    exact Rel.fwdA _ M.length (Nat.le_refl _) (hperm.trans hmap) htail' hmin'

theorem rel_prevW (st : StrictTotal lt) (fam : FamilyW lt M k) {m : Merging E} {pos : Nat}
    (h : Rel lt M k m pos) :
    ∃ M', Same M M' ∧ FamilyW lt M' k ∧ Rel lt M' k (m.prev lt) (Ref.prev ⟨M.map (·.1), pos⟩).pos := by
  cases h with
  | fwdA cs p hp hall htail hmin =>
    refine ⟨M, Same.refl M, fam, ?_⟩
    have hmap : (cs.map Ref.prev).Perm ((List.range k).map (fun j => gAt M j p)) := by
      have := hall.map Ref.prev
      simpa [Function.comp_def, fAt_prev] using this
    obtain ⟨hperm, htail', hmin'⟩ := heapify_state st false (cs.map Ref.prev)
    rw [ref_prev_pos_pos _ _ (by omega)]
    exact Rel.revA _ p hp (hperm.trans hmap) htail' hmin'
  | fwdB cs0 hall htail =>
    refine ⟨M, Same.refl M, fam, ?_⟩
    have hcs : (Merging.modifyHead Ref.first cs0).map Ref.prev = cs0.map Ref.prev := by
      cases cs0 with
      | nil => rfl
      | cons c t =>
        have hc := head_mem_of_perm hall rfl
        rw [List.mem_map] at hc
        obtain ⟨j, _, rfl⟩ := hc
        simp only [Merging.modifyHead, List.map_cons]
        have : Ref.prev (Ref.first (fAt M j 0)) = Ref.prev (fAt M j 0) := by
          unfold Ref.first Ref.prev fAt
          simp [before_zero]
        rw [this]
    have hmap : (cs0.map Ref.prev).Perm ((List.range k).map (fun j => gAt M j 0)) := by
      have := hall.map Ref.prev
      simpa [Function.comp_def, fAt_prev] using this
    obtain ⟨hperm, htail', hmin'⟩ := heapify_state st false (cs0.map Ref.prev)
    rw [ref_prev_pos_zero]
    unfold Merging.prev
    simp only [if_true]
    rw [hcs]
    exact Rel.revA _ 0 (Nat.zero_le _) (hperm.trans hmap) htail' hmin'
  | revA cs p hp hall htail hmin =>
    cases pos with
    | zero =>
      refine ⟨M, Same.refl M, fam, ?_⟩
      have hcs : Merging.modifyHead Ref.prev cs = cs := by
        apply modifyHead_id_of_head
        intro c t hct
        have hc := head_mem_of_perm hall hct
        rw [List.mem_map] at hc
        obtain ⟨j, _, rfl⟩ := hc
        unfold Ref.prev gAt
        simp [before_zero]
      rw [ref_prev_pos_zero]
      unfold Merging.prev
      simp only [Bool.false_eq_true, if_false]
      rw [hcs]
      obtain ⟨hperm, htail', hmin'⟩ := percolate_state st false cs htail
      exact Rel.revA _ 0 (Nat.zero_le _) (hperm.trans hall) htail' hmin'
    | succ q =>
      have hq : q < M.length := by omega
      have hMq : M[q]? = some (M[q].1, M[q].2) := by simp [hq]
      obtain ⟨M', hs, fam', h1, h2, h3⟩ := prev_revW st fam cs q hall htail hmin _ _ hMq
      rw [ref_prev_pos_pos _ _ (by omega)]
      exact ⟨M', hs, fam', Rel.revA _ q (by rw [hs.length]; omega) h1 h2 h3⟩
  | revB cs0 hall htail =>
    refine ⟨M, Same.refl M, fam, ?_⟩
    have hcs : Merging.modifyHead Ref.prev (Merging.modifyHead Ref.last cs0) = cs0 := by
      cases cs0 with
      | nil => rfl
      | cons c t =>
        have hc := head_mem_of_perm hall rfl
        rw [List.mem_map] at hc
        obtain ⟨j, _, rfl⟩ := hc
        simp [Merging.modifyHead, Ref.last, Ref.prev, gAt, before_all M j M.length (Nat.le_refl _)]
    rw [ref_prev_pos_pos _ _ (by omega)]
    unfold Merging.prev
    simp only [Bool.false_eq_true, if_false]
    rw [hcs]
    obtain ⟨hperm, htail', hmin'⟩ := percolate_state st false cs0 htail
    exact Rel.revA _ M.length (Nat.le_refl _) (hperm.trans hall) htail' hmin'

/-- the simulation relation for children with duplicates: `Rel` for some owner assignment of the
    same children -/
def RelW (lt : E → E → Bool) (M : List (E × Nat)) (k : Nat) (m : Merging E) (pos : Nat) : Prop :=
  ∃ M', Same M M' ∧ FamilyW lt M' k ∧ Rel lt M' k m pos

theorem relW_kv (st : StrictTotal lt) {m : Merging E} {pos : Nat} (h : RelW lt M k m pos) :
    m.kv = (Ref.mk (M.map (·.1)) pos).kv := by
  obtain ⟨M', hs, fam', h'⟩ := h
  rw [rel_kvW st fam' h', hs.ents]

/-- One step of any cursor program preserves the simulation. -/
theorem relW_step (st : StrictTotal lt) {m : Merging E} {pos : Nat}
    (h : RelW lt M k m pos) (op : Op E) (hop : ∀ pred, op = .seek pred → Mono lt pred) :
    RelW lt M k (m.step lt op) ((Ref.mk (M.map (·.1)) pos).step op).pos
    ∧ ((Ref.mk (M.map (·.1)) pos).step op).xs = M.map (·.1) := by
  obtain ⟨M1, hs1, fam1, h1⟩ := h
  cases op with
  | first => exact ⟨⟨M1, hs1, fam1, rel_first st h1⟩, rfl⟩
  | last =>
    refine ⟨⟨M1, hs1, fam1, ?_⟩, rfl⟩
    have := rel_last st h1
    rw [hs1.length] at this
    simpa [Ref.step, Ref.last, Merging.step] using this
  | next =>
    refine ⟨?_, ?_⟩
    · obtain ⟨M2, hs2, fam2, h2⟩ := rel_nextW st fam1 h1
      rw [hs1.ents] at h2
      exact ⟨M2, hs1.trans hs2, fam2, h2⟩
    · simp only [Ref.step, Ref.next]; split <;> rfl
  | prev =>
    refine ⟨?_, ?_⟩
    · obtain ⟨M2, hs2, fam2, h2⟩ := rel_prevW st fam1 h1
      rw [hs1.ents] at h2
      exact ⟨M2, hs1.trans hs2, fam2, h2⟩
    · simp only [Ref.step, Ref.prev]; split <;> rfl
  | seek pred =>
    refine ⟨⟨M1, hs1, fam1, ?_⟩, rfl⟩
    have := rel_seekW st fam1 h1 pred (hop pred rfl)
    rw [hs1.ents] at this
    simpa [Ref.step, Ref.seek, Merging.step] using this

theorem run_eqW (st : StrictTotal lt) :
    ∀ (ops : List (Op E)) (m : Merging E) (pos : Nat), RelW lt M k m pos →
      (∀ pred, Op.seek pred ∈ ops → Mono lt pred) →
      Merging.run lt m ops = Ref.run ⟨M.map (·.1), pos⟩ ops := by
  intro ops
  induction ops with
  | nil => intros; rfl
  | cons op ops ih =>
    intro m pos h hops
    obtain ⟨h1, h2⟩ := relW_step st h op (fun pred hp => hops pred (by rw [hp]; simp))
    have hc : (Ref.mk (M.map (·.1)) pos).step op = ⟨M.map (·.1), ((Ref.mk (M.map (·.1)) pos).step op).pos⟩ := by
      cases hstep : (Ref.mk (M.map (·.1)) pos).step op with
      | mk xs p => rw [hstep] at h2; simp at h2; simp [h2]
    simp only [Merging.run, Ref.run]
    rw [relW_kv st h1, ← hc]
    congr 1
    rw [hc]
    exact ih _ _ h1 (fun pred hp => hops pred (List.mem_cons_of_mem _ hp))

theorem relW_new (st : StrictTotal lt) (fam : FamilyW lt M k) (cs : List (Ref E))
    (hcs : (cs.map (·.xs)).Perm ((List.range k).map (childList M))) :
    RelW lt M k (Merging.new lt cs) 0 :=
  ⟨M, Same.refl M, fam, rel_new st cs hcs⟩

/-- **C11/C03, merging cursor over children with duplicates.**  Let the children be strictly sorted
    tables whose union may hold the same entry in several children, presented as one *weakly*
    sorted list `M` of owner-tagged entries (`FamilyW`: equal entries adjacent, every child
    strictly sorted).  For every initial position of the children and every finite program of
    `seek_to_first / seek_to_last / seek / next / prev` the merging cursor (implicit binary heap,
    direction switch) shows after every call exactly what one reference cursor over the merge
    *with multiplicity* `M.map (·.1)` shows. -/
theorem merging_refines_dups (st : StrictTotal lt) (fam : FamilyW lt M k) (cs : List (Ref E))
    (hcs : (cs.map (·.xs)).Perm ((List.range k).map (childList M)))
    (ops : List (Op E)) (hops : ∀ pred, Op.seek pred ∈ ops → Mono lt pred) :
    (Merging.new lt cs).kv = (Ref.mk (M.map (·.1)) 0).kv ∧
    Merging.run lt (Merging.new lt cs) ops = Ref.run ⟨M.map (·.1), 0⟩ ops := by
  have hrel := relW_new st fam cs hcs
  exact ⟨relW_kv st hrel, run_eqW st ops _ _ hrel hops⟩

open MergingLink in
/-- behavioural form -/
theorem mergingC_ref_behEq_dups (lt : E → E → Bool) (st : StrictTotal lt)
    (A : (E → Bool) → Prop) (hA : ∀ pred, A pred → Mono lt pred) :
    ∀ (m : Merging E) (pos : Nat), RelW lt M k m pos →
      BehEq A (MergingC.cur (RefCur E) lt) (ofSpec m) (RefCur E) ⟨M.map (·.1), pos⟩ := by
  intro m pos h ops
  induction ops generalizing m pos with
  | nil =>
    intro _
    simp only [Cur.beh, Cur.runTo, List.foldl_nil]
    exact Prod.ext ((kv_ref lt m).trans (relW_kv st h)) (ok_ref lt m)
  | cons op ops ih =>
    intro ha
    obtain ⟨ha1, ha2⟩ := adm_cons.mp ha
    obtain ⟨h1, h2⟩ := relW_step st h op (fun pred hp => hA pred (by subst hp; exact ha1))
    have hc : (Ref.mk (M.map (·.1)) pos).step op = ⟨M.map (·.1), ((Ref.mk (M.map (·.1)) pos).step op).pos⟩ := by
      cases hstep : (Ref.mk (M.map (·.1)) pos).step op with
      | mk xs p => rw [hstep] at h2; simp at h2; simp [h2]
    show (MergingC.cur (RefCur E) lt).beh ((MergingC.cur (RefCur E) lt).step (ofSpec m) op) ops
      = (RefCur E).beh ((RefCur E).step ⟨M.map (·.1), pos⟩ op) ops
    rw [step_ref]
    have hr : (RefCur E).step ⟨M.map (·.1), pos⟩ op
        = ⟨M.map (·.1), ((Ref.mk (M.map (·.1)) pos).step op).pos⟩ := by
      rw [← hc]; cases op <;> rfl
    rw [hr]
    exact ih _ _ h1 ha2

/-- **Merging over any table-like children, duplicates allowed.** -/
theorem merging_over_dups (lt : E → E → Bool) (st : StrictTotal lt) {M : List (E × Nat)} {k : Nat}
    (fam : FamilyW lt M k) {A : (E → Bool) → Prop} (hA : ∀ p, A p → Mono lt p)
    {C : Cur E} (cs : List C.σ) (rs : List (Ref E))
    (hkids : (rs.map (·.xs)).Perm ((List.range k).map (childList M)))
    (hbeh : cs.map (behA A C) = rs.map (behA A (RefCur E))) :
    BehEq A (MergingC.cur C lt) (MergingC.new C lt cs) (RefCur E) ⟨M.map (·.1), 0⟩ := by
  have hsub := merging_subst (A := A) (C := C) (D := RefCur E) lt cs rs hbeh true
  have hstep := behEq_step hsub .first trivial
  have hrel := relW_new (lt := lt) (M := M) (k := k) st fam rs hkids
  have hspec := mergingC_ref_behEq_dups lt st A hA (Merging.new lt rs) 0 hrel
  have e : (MergingC.cur (RefCur E) lt).step ⟨true, rs⟩ .first = MergingLink.ofSpec (Merging.new lt rs) :=
    MergingLink.step_ref lt ⟨true, rs⟩ .first
  rw [e] at hstep
  exact hstep.trans hspec

end Blue.Cursor

#print axioms Blue.Cursor.merging_refines_dups
#print axioms Blue.Cursor.merging_over_dups
