import Blue.Model.Kvs
/-! `invB` is sound for I1 ∧ I2, and under it `kvsLoad` returns the visible version. -/
namespace Blue.Kvs
open Blue.Spec

theorem newerB_sound {c d : List (Ver Nat)} (h : newerB c d = true) :
    ∀ a ∈ c, ∀ b ∈ d, a.1 = b.1 → b.2 < a.2 := by
  intro a ha b hb hk
  unfold newerB at h
  rw [List.all_eq_true] at h
  have h1 := h a ha
  rw [List.all_eq_true] at h1
  have h2 := h1 b hb
  simp only [Bool.or_eq_true, Bool.not_eq_true', beq_eq_false_iff_ne, ne_eq, decide_eq_true_eq] at h2
  rcases h2 with h2 | h2
  · exact absurd hk h2
  · exact h2

theorem newerAboveB_sound : ∀ (cs : List (List (Ver Nat))), newerAboveB cs = true → NewerAbove cs
  | [], _ => trivial
  | c :: cs, h => by
    unfold newerAboveB at h
    rw [Bool.and_eq_true, List.all_eq_true] at h
    refine ⟨?_, newerAboveB_sound cs h.2⟩
    intro a ha d hd b hb hk
    exact newerB_sound (h.1 d hd) a ha b hb hk

theorem wfB_sound {f : TFile} (h : wfB f = true) : f.Wf := by
  unfold wfB at h
  rw [Bool.and_eq_true, decide_eq_true_eq, List.all_eq_true] at h
  refine ⟨h.1, ?_⟩
  intro v hv
  have := h.2 v hv
  simpa using this

theorem sortedB_sound : ∀ (l : List TFile), sortedB l = true → LevelSorted l
  | [], _ => List.Pairwise.nil
  | a :: t, h => by
    unfold sortedB at h
    rw [Bool.and_eq_true, List.all_eq_true] at h
    refine List.Pairwise.cons ?_ (sortedB_sound t h.2)
    intro b hb
    simpa using h.1 b hb

/-- the store lookup is the early-exit lookup over all components in search order -/
theorem kvsLoad_eq (s : KState) (hs : ∀ l ∈ tLevels s, LevelSorted l) (hw : ∀ l ∈ tLevels s, ∀ f ∈ l, f.Wf)
    (k t : Nat) : kvsLoad s k t = load (allComps s) k t := by
  unfold kvsLoad allComps
  rw [load_append, treeLoad_eq _ _ hs hw]
  cases load (memComps s) k t <;> rfl

/-- **C01** on a dumped state: if the decidable invariant check passes, the store's point read
    returns exactly the visible version of the union of everything the store holds -/
theorem kvsLoad_visible (s : KState) (h : invB s = true) (k t : Nat) :
    (kvsLoad s k t = none → NoneVisible (allComps s).flatten k t)
    ∧ (∀ b, kvsLoad s k t = some b → IsVisible (allComps s).flatten k t b) := by
  unfold invB at h
  rw [Bool.and_eq_true, List.all_eq_true] at h
  have hs : ∀ l ∈ tLevels s, LevelSorted l := fun l hl => by
    have := h.2 l hl; rw [Bool.and_eq_true] at this; exact sortedB_sound l this.1
  have hw : ∀ l ∈ tLevels s, ∀ f ∈ l, f.Wf := fun l hl f hf => by
    have := h.2 l hl; rw [Bool.and_eq_true, List.all_eq_true] at this; exact wfB_sound (this.2 f hf)
  rw [kvsLoad_eq s hs hw]
  have hv := load_visible (allComps s) k t (newerAboveB_sound _ h.1)
  constructor
  · intro hn; rw [hn] at hv; exact hv
  · intro b hb; rw [hb] at hv; exact hv

end Blue.Kvs

namespace Blue.Kvs
open Blue.Spec

theorem sharesKeyB_complete {c d : List (Ver Nat)} (h : SharesKey c d) : sharesKeyB c d = true := by
  obtain ⟨a, ha, b, hb, hk⟩ := h
  unfold sharesKeyB
  rw [List.any_eq_true]
  refine ⟨a, ha, ?_⟩
  rw [List.any_eq_true]
  exact ⟨b, hb, by simpa using hk⟩

theorem closedB_sound : ∀ (pre : Tagged Nat), closedB pre = true → Closed pre
  | [], _ => List.Pairwise.nil
  | x :: t, h => by
    unfold closedB at h
    rw [Bool.and_eq_true, List.all_eq_true] at h
    refine List.Pairwise.cons ?_ (closedB_sound t h.2)
    intro y hy hx hyf hs
    have := h.1 y hy
    rw [hx, hyf, sharesKeyB_complete hs] at this
    simp at this

end Blue.Kvs
