import Blue.Model.KvsWrite
namespace Blue.KvsWrite

/-- **C06 / D-6** batches are not atomic for readers: after the first of two entries of a batch is
    in the memtable, a reader already sees it and does not yet see the second -/
theorem partial_batch_visible :
    let s := run [.begin [(1, some 7), (2, some 7)], .insertOne 1]
    (load s 1).map (·.val) = some (some 7) ∧ load s 2 = none := by
  decide

/-- every entry in the memtable was put there by a writer that began: its sequence number has
    been assigned (no phantom timestamps) -/
theorem mem_seq_assigned : ∀ (evs : List Ev), ∀ e ∈ (run evs).mem, 1 ≤ e.seq ∧ e.seq ≤ (run evs).seqNo := by
  intro evs
  have key : ∀ (evs : List Ev) (s : St),
      ((∀ e ∈ s.mem, 1 ≤ e.seq ∧ e.seq ≤ s.seqNo) ∧ (∀ w ∈ s.writers, 1 ≤ w.seq ∧ w.seq ≤ s.seqNo)) →
      ((∀ e ∈ (evs.foldl step s).mem, 1 ≤ e.seq ∧ e.seq ≤ (evs.foldl step s).seqNo) ∧
        (∀ w ∈ (evs.foldl step s).writers, 1 ≤ w.seq ∧ w.seq ≤ (evs.foldl step s).seqNo)) := by
    intro evs
    induction evs with
    | nil => intro s h; exact h
    | cons ev t ih =>
      intro s h
      simp only [List.foldl_cons]
      apply ih
      obtain ⟨hm, hw⟩ := h
      cases ev with
      | begin batch =>
        simp only [step]
        refine ⟨fun e he => ?_, fun w hw' => ?_⟩
        · have := hm e he; omega
        · rw [List.mem_append] at hw'
          rcases hw' with hw' | hw'
          · have := hw w hw'; omega
          · simp at hw'; subst hw'; simp
      | insertOne seq =>
        simp only [step]
        split
        · rename_i w hf
          have hwm := List.mem_of_find?_eq_some hf
          split
          · rename_i k v rest htodo
            refine ⟨fun e he => ?_, fun w' hw' => ?_⟩
            · simp only [List.mem_cons] at he
              rcases he with rfl | he
              · have hseq : w.seq = seq := by simpa using List.find?_some hf
                have := hw w hwm; simp only; omega
              · exact hm e he
            · simp only [updWriter, List.mem_map] at hw'
              obtain ⟨w0, hw0, rfl⟩ := hw'
              split <;> exact hw w0 hw0
          · exact ⟨hm, hw⟩
        · exact ⟨hm, hw⟩
      | finish seq =>
        simp only [step]
        split
        · split
          · refine ⟨hm, fun w' hw' => ?_⟩
            simp only [updWriter, List.mem_map] at hw'
            obtain ⟨w0, hw0, rfl⟩ := hw'
            split <;> exact hw w0 hw0
          · exact ⟨hm, hw⟩
        · exact ⟨hm, hw⟩
  have hinit : (∀ e ∈ (init : St).mem, 1 ≤ e.seq ∧ e.seq ≤ (init : St).seqNo) ∧
      (∀ w ∈ (init : St).writers, 1 ≤ w.seq ∧ w.seq ≤ (init : St).seqNo) := by
    constructor
    · intro e he; simp [init] at he
    · intro w hw; simp [init] at hw
  exact (key evs init hinit).1

/-- the fold in `load` returns an entry at least as new as every candidate -/
theorem foldMax_spec (l : List Entry) :
    ∀ (best : Option Entry),
      (∀ e ∈ l, ∃ r, l.foldl (fun best e => match best with
          | none => some e
          | some b => if b.seq < e.seq then some e else some b) best = some r ∧ e.seq ≤ r.seq)
      ∧ (∀ b, best = some b → ∃ r, l.foldl (fun best e => match best with
          | none => some e
          | some b => if b.seq < e.seq then some e else some b) best = some r ∧ b.seq ≤ r.seq) := by
  induction l with
  | nil =>
    intro best
    refine ⟨?_, ?_⟩
    · intro e he; cases he
    · intro b hb; exact ⟨b, hb, Nat.le_refl _⟩
  | cons a t ih =>
    intro best
    simp only [List.foldl_cons]
    constructor
    · intro e he
      simp only [List.mem_cons] at he
      rcases he with rfl | he
      · cases best with
        | none => exact (ih (some e)).2 e rfl
        | some b =>
          simp only
          by_cases hlt : b.seq < e.seq
          · rw [if_pos hlt]; exact (ih (some e)).2 e rfl
          · rw [if_neg hlt]
            obtain ⟨r, h1, h2⟩ := (ih (some b)).2 b rfl
            exact ⟨r, h1, by omega⟩
      · exact (ih _).1 e he
    · intro b hb
      subst hb
      simp only
      by_cases hlt : b.seq < a.seq
      · rw [if_pos hlt]
        obtain ⟨r, h1, h2⟩ := (ih (some a)).2 a rfl
        exact ⟨r, h1, by omega⟩
      · rw [if_neg hlt]; exact (ih (some b)).2 b rfl

theorem load_ge (s : St) (e : Entry) (he : e ∈ s.mem) (hs : e.seq ≤ s.seqNo) :
    ∃ r, load s e.key = some r ∧ e.seq ≤ r.seq := by
  unfold load
  apply (foldMax_spec _ none).1 e
  rw [List.mem_filter]
  exact ⟨he, by simp [hs]⟩

/-- what holds of the writers in every reachable state -/
structure WInv (s : St) : Prop where
  bound : ∀ w ∈ s.writers, 1 ≤ w.seq ∧ w.seq ≤ s.seqNo
  uniq : (s.writers.map (·.seq)).Nodup
  /-- every entry of a batch is still to be inserted or is in the memtable under the batch's
      sequence number -/
  placed : ∀ w ∈ s.writers, ∀ kv ∈ w.batch, kv ∈ w.todo ∨ (⟨kv.1, w.seq, kv.2⟩ : Entry) ∈ s.mem
  /-- a writer that has returned has inserted everything -/
  done : ∀ w ∈ s.writers, w.finished = true → w.todo = []

theorem winv_init : WInv init := by
  refine ⟨?_, ?_, ?_, ?_⟩
  · intro w h; simp [init] at h
  · simp [init]
  · intro w h; simp [init] at h
  · intro w h; simp [init] at h

theorem uniq_seq : ∀ (ws : List Writer), (ws.map (·.seq)).Nodup → ∀ w ∈ ws, ∀ w' ∈ ws, w.seq = w'.seq → w = w' := by
  intro ws
  induction ws with
  | nil => intro _ w hw; cases hw
  | cons a t ih =>
    intro hn w hw w' hw' hs
    simp only [List.map_cons, List.nodup_cons] at hn
    simp only [List.mem_cons] at hw hw'
    rcases hw with rfl | hw
    · rcases hw' with rfl | hw'
      · rfl
      · exfalso; exact hn.1 (List.mem_map.mpr ⟨w', hw', hs.symm⟩)
    · rcases hw' with rfl | hw'
      · exfalso; exact hn.1 (List.mem_map.mpr ⟨w, hw, hs⟩)
      · exact ih hn.2 w hw w' hw' hs

theorem mem_updWriter {ws : List Writer} {seq : Nat} {f : Writer → Writer} {x : Writer}
    (h : x ∈ updWriter ws seq f) : ∃ w ∈ ws, x = if w.seq = seq then f w else w := by
  unfold updWriter at h
  obtain ⟨w, hw, rfl⟩ := List.mem_map.mp h
  exact ⟨w, hw, rfl⟩

theorem updWriter_seqs (ws : List Writer) (seq : Nat) (f : Writer → Writer) (hf : ∀ w, (f w).seq = w.seq) :
    (updWriter ws seq f).map (·.seq) = ws.map (·.seq) := by
  unfold updWriter
  rw [List.map_map]
  apply List.map_congr_left
  intro w _
  simp only [Function.comp]
  split
  · exact hf w
  · rfl

theorem winv_step {s : St} (h : WInv s) (ev : Ev) : WInv (step s ev) := by
  cases ev with
  | begin batch =>
    simp only [step]
    refine ⟨?_, ?_, ?_, ?_⟩
    · intro w hw
      rw [List.mem_append] at hw
      rcases hw with hw | hw
      · have := h.bound w hw; dsimp only; omega
      · simp at hw; subst hw; simp
    · rw [List.map_append, List.nodup_append]
      refine ⟨h.uniq, by simp, ?_⟩
      intro a ha b hb
      simp at hb; subst hb
      obtain ⟨w, hw, rfl⟩ := List.mem_map.mp ha
      have := h.bound w hw
      omega
    · intro w hw kv hkv
      rw [List.mem_append] at hw
      rcases hw with hw | hw
      · exact h.placed w hw kv hkv
      · simp at hw; subst hw; exact Or.inl hkv
    · intro w hw hf
      rw [List.mem_append] at hw
      rcases hw with hw | hw
      · exact h.done w hw hf
      · simp at hw; subst hw; simp at hf
  | insertOne seq =>
    simp only [step]
    split
    · rename_i w0 hf
      have hw0 := List.mem_of_find?_eq_some hf
      have hseq0 : w0.seq = seq := by simpa using List.find?_some hf
      split
      · rename_i k v rest htodo
        have hsq : ∀ w : Writer, ({ w with todo := rest } : Writer).seq = w.seq := fun _ => rfl
        -- a writer with this sequence number is `w0`
        have honly : ∀ w ∈ s.writers, w.seq = seq → w = w0 :=
          fun w hw hs => uniq_seq s.writers h.uniq w hw w0 hw0 (by rw [hs, hseq0])
        refine ⟨?_, ?_, ?_, ?_⟩
        · intro x hx
          obtain ⟨w, hw, rfl⟩ := mem_updWriter hx
          split <;> exact h.bound w hw
        · rw [updWriter_seqs _ _ _ hsq]; exact h.uniq
        · intro x hx kv hkv
          obtain ⟨w, hw, rfl⟩ := mem_updWriter hx
          by_cases hws : w.seq = seq
          · have hwe := honly w hw hws
            subst hwe
            simp only [hws, if_true] at hkv ⊢
            rcases h.placed w hw kv hkv with hin | hin
            · rw [htodo] at hin
              simp only [List.mem_cons] at hin
              rcases hin with rfl | hin
              · right; rw [← hws]; exact List.mem_cons_self ..
              · left; exact hin
            · right; rw [hws] at hin; exact List.mem_cons_of_mem _ hin
          · simp only [hws, if_false] at hkv ⊢
            rcases h.placed w hw kv hkv with hin | hin
            · exact Or.inl hin
            · exact Or.inr (List.mem_cons_of_mem _ hin)
        · intro x hx hfin
          obtain ⟨w, hw, rfl⟩ := mem_updWriter hx
          by_cases hws : w.seq = seq
          · have hwe := honly w hw hws
            subst hwe
            simp only [hws, if_true] at hfin ⊢
            have := h.done w hw hfin
            rw [htodo] at this; cases this
          · simp only [hws, if_false] at hfin ⊢
            exact h.done w hw hfin
      · exact h
    · exact h
  | finish seq =>
    simp only [step]
    split
    · rename_i w0 hf
      split
      · rename_i hcond
        have hsq : ∀ w : Writer, ({ w with finished := true } : Writer).seq = w.seq := fun _ => rfl
        have hw0 := List.mem_of_find?_eq_some hf
        have hseq0 : w0.seq = seq := by simpa using List.find?_some hf
        refine ⟨?_, ?_, ?_, ?_⟩
        · intro x hx
          obtain ⟨w, hw, rfl⟩ := mem_updWriter hx
          split <;> exact h.bound w hw
        · rw [updWriter_seqs _ _ _ hsq]; exact h.uniq
        · intro x hx kv hkv
          obtain ⟨w, hw, rfl⟩ := mem_updWriter hx
          by_cases hws : w.seq = seq
          · simp only [hws, if_true] at hkv ⊢
            have := h.placed w hw kv hkv
            rw [hws] at this; exact this
          · simp only [hws, if_false] at hkv ⊢; exact h.placed w hw kv hkv
        · intro x hx hfin
          obtain ⟨w, hw, rfl⟩ := mem_updWriter hx
          by_cases hws : w.seq = seq
          · simp only [hws, if_true]
            -- the writer found is the one with this sequence number, and its `todo` is empty
            have : w = w0 := uniq_seq s.writers h.uniq w hw w0 hw0 (by rw [hws, hseq0])
            subst this
            exact hcond.1
          · simp only [hws, if_false] at hfin ⊢
            exact h.done w hw hfin
      · exact h
    · exact h

theorem winv_run (evs : List Ev) : WInv (run evs) := by
  have : ∀ (evs : List Ev) (s : St), WInv s → WInv (evs.foldl step s) := by
    intro evs
    induction evs with
    | nil => intro s h; exact h
    | cons e t ih => intro s h; exact ih _ (winv_step h e)
  exact this evs init winv_init

/-- **C06** no stale reads: once a write has returned, every later `load` of one of its keys
    returns that write or a newer one -/
theorem no_stale_read (evs : List Ev) (w : Writer) (hw : w ∈ (run evs).writers) (hfin : w.finished = true)
    (k : Nat) (v : Option Nat) (hkv : (k, v) ∈ w.batch) :
    ∃ r, load (run evs) k = some r ∧ w.seq ≤ r.seq := by
  have h := winv_run evs
  have htodo := h.done w hw hfin
  have hin : (⟨k, w.seq, v⟩ : Entry) ∈ (run evs).mem := by
    rcases h.placed w hw (k, v) hkv with h1 | h1
    · rw [htodo] at h1; cases h1
    · exact h1
  exact load_ge (run evs) ⟨k, w.seq, v⟩ hin (h.bound w hw).2

/-- what a scan opened now can see: the memtable entries not newer than the latest assigned
    sequence number -/
def scanView (s : St) : List Entry := s.mem.filter (fun e => decide (e.seq ≤ s.seqNo))

/-- **C06** scans: a scan opened after a write returned sees every entry of that write's batch —
    a returned batch is never partially visible (the partial visibility of D-6 concerns batches
    still being inserted) -/
theorem returned_batch_fully_visible (evs : List Ev) (w : Writer) (hw : w ∈ (run evs).writers)
    (hfin : w.finished = true) :
    ∀ kv ∈ w.batch, (⟨kv.1, w.seq, kv.2⟩ : Entry) ∈ scanView (run evs) := by
  intro kv hkv
  have h := winv_run evs
  have htodo := h.done w hw hfin
  unfold scanView
  rw [List.mem_filter]
  refine ⟨?_, by simpa using (h.bound w hw).2⟩
  rcases h.placed w hw kv hkv with h1 | h1
  · rw [htodo] at h1; cases h1
  · exact h1

/-- … and nothing in the view was invented: every visible entry belongs to the batch of the writer
    with its sequence number, provided the store only ever inserts batch entries (`mem_from_batches`) -/
theorem view_subset_mem (s : St) : ∀ e ∈ scanView s, e ∈ s.mem := by
  intro e he
  exact (List.mem_filter.mp he).1

end Blue.KvsWrite

#print axioms Blue.KvsWrite.no_stale_read
#print axioms Blue.KvsWrite.returned_batch_fully_visible
#print axioms Blue.KvsWrite.partial_batch_visible
#print axioms Blue.KvsWrite.mem_seq_assigned
