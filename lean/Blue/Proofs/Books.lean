/-! **C04** the manifest's setsum bookkeeping, over any commutative group (the setsum columns form
    one on canonical states — C14). -/
namespace Blue.Books

/-- a commutative group, by its laws -/
structure Grp (G : Type) where
  add : G → G → G
  neg : G → G
  zero : G
  add_comm : ∀ a b, add a b = add b a
  add_assoc : ∀ a b c, add (add a b) c = add a (add b c)
  add_zero : ∀ a, add a zero = a
  add_neg : ∀ a, add a (neg a) = zero

variable {G : Type} (g : Grp G) {F : Type} [DecidableEq F] (s : F → G)

def Grp.sub (a b : G) : G := g.add a (g.neg b)

/-- Σ of the files' setsums -/
def total (fs : List F) : G := fs.foldr (fun f acc => g.add (s f) acc) g.zero

theorem zero_add (a : G) : g.add g.zero a = a := by rw [g.add_comm, g.add_zero]

theorem total_cons (f : F) (fs : List F) : total g s (f :: fs) = g.add (s f) (total g s fs) := rfl

theorem total_append (xs ys : List F) : total g s (xs ++ ys) = g.add (total g s xs) (total g s ys) := by
  induction xs with
  | nil => simp only [List.nil_append]; show _ = g.add g.zero _; rw [zero_add]
  | cons a t ih => simp only [List.cons_append, total_cons, ih, g.add_assoc]

theorem total_perm {xs ys : List F} (p : xs.Perm ys) : total g s xs = total g s ys := by
  induction p with
  | nil => rfl
  | cons a _ ih => simp only [total_cons, ih]
  | swap a b l =>
    simp only [total_cons]
    rw [← g.add_assoc, ← g.add_assoc, g.add_comm (s b) (s a)]
  | trans _ _ ih1 ih2 => exact ih1.trans ih2

theorem total_filter_split (p : F → Bool) (fs : List F) :
    g.add (total g s (fs.filter p)) (total g s (fs.filter (fun f => !p f))) = total g s fs := by
  induction fs with
  | nil => exact g.add_zero _
  | cons a t ih =>
    cases hp : p a with
    | true =>
      simp only [List.filter_cons, hp, if_true, Bool.not_true, Bool.false_eq_true, if_false, total_cons]
      rw [g.add_assoc, ih]
    | false =>
      simp only [List.filter_cons, hp, Bool.false_eq_true, if_false, Bool.not_false, if_true, total_cons]
      rw [← g.add_assoc, g.add_comm _ (s a), g.add_assoc, ih]

theorem sub_add_cancel (a b : G) : g.add (g.sub a b) b = a := by
  unfold Grp.sub
  rw [g.add_assoc, g.add_comm (g.neg b) b, g.add_neg, g.add_zero]

theorem add_sub_cancel (a b : G) : g.sub (g.add a b) b = a := by
  unfold Grp.sub
  rw [g.add_assoc, g.add_neg, g.add_zero]

/-- one manifest transaction: remove `rm`, add `ad` -/
def applyTx (files rm ad : List F) : List F := files.filter (fun f => !rm.contains f) ++ ad

/-- what the verifier recomputes for an edit: Σ removed − Σ added -/
def computedDiscard (rm ad : List F) : G := g.sub (total g s rm) (total g s ad)

/-- **C04** `books_balance`, one step: if the tree's setsum is the sum over its files, the edit
    written by `apply_manifest_*` (`I` = tree setsum, `D` = Σ removed − Σ added, `O = I − D`)
    balances (`I = O + D`), and `O` is the sum over the files of the new version -/
theorem tx_balances (files rm ad : List F) (hnd : files.Nodup) (hrm : rm.Nodup)
    (hsub : ∀ f ∈ rm, f ∈ files) :
    let I := total g s files
    let D := computedDiscard g s rm ad
    let O := g.sub I D
    I = g.add O D ∧ total g s (applyTx files rm ad) = O := by
  simp only
  refine ⟨(sub_add_cancel g _ _).symm, ?_⟩
  unfold applyTx computedDiscard
  rw [total_append]
  -- the removed files are exactly the files filtered out
  have hperm : (files.filter (fun f => rm.contains f)).Perm rm := by
    apply (List.perm_ext_iff_of_nodup (hnd.filter _) hrm).mpr
    intro a
    simp only [List.mem_filter, List.contains_iff_mem]
    constructor
    · intro h; exact h.2
    · intro h; exact ⟨hsub a h, h⟩
  have hsplit := total_filter_split g s (fun f => rm.contains f) files
  rw [total_perm g s hperm] at hsplit
  -- files = kept + rm, so kept + ad = files − (rm − ad)
  generalize total g s (files.filter (fun f => !rm.contains f)) = kept at *
  generalize total g s rm = R at *
  generalize total g s ad = A at *
  rw [← hsplit]
  unfold Grp.sub
  -- (R + kept) + −(R + −A) = kept + A
  have hnegneg : ∀ x, g.neg (g.neg x) = x := by
    intro x
    have h1 := g.add_neg (g.neg x)
    have h2 := g.add_neg x
    calc g.neg (g.neg x) = g.add g.zero (g.neg (g.neg x)) := (zero_add g _).symm
      _ = g.add (g.add x (g.neg x)) (g.neg (g.neg x)) := by rw [h2]
      _ = g.add x (g.add (g.neg x) (g.neg (g.neg x))) := g.add_assoc _ _ _
      _ = g.add x g.zero := by rw [h1]
      _ = x := g.add_zero x
  have hnegadd : ∀ x y, g.neg (g.add x y) = g.add (g.neg x) (g.neg y) := by
    intro x y
    have h : g.add (g.add x y) (g.add (g.neg x) (g.neg y)) = g.zero := by
      rw [g.add_assoc, ← g.add_assoc y, g.add_comm y (g.neg x), g.add_assoc (g.neg x), g.add_neg, g.add_zero,
        g.add_neg]
    calc g.neg (g.add x y) = g.add (g.neg (g.add x y)) g.zero := (g.add_zero _).symm
      _ = g.add (g.neg (g.add x y)) (g.add (g.add x y) (g.add (g.neg x) (g.neg y))) := by rw [h]
      _ = g.add (g.add (g.neg (g.add x y)) (g.add x y)) (g.add (g.neg x) (g.neg y)) := (g.add_assoc _ _ _).symm
      _ = g.add g.zero (g.add (g.neg x) (g.neg y)) := by rw [g.add_comm (g.neg (g.add x y)), g.add_neg]
      _ = g.add (g.neg x) (g.neg y) := zero_add g _
  rw [hnegadd, hnegneg]
  -- (R + kept) + (−R + A) = kept + A
  calc g.add kept A = g.add (g.add g.zero kept) A := by rw [zero_add]
    _ = g.add (g.add (g.add R (g.neg R)) kept) A := by rw [g.add_neg]
    _ = g.add (g.add R kept) (g.add (g.neg R) A) := by
        rw [g.add_assoc R (g.neg R) kept, g.add_comm (g.neg R) kept, ← g.add_assoc R kept (g.neg R),
          g.add_assoc (g.add R kept) (g.neg R) A]

end Blue.Books

#print axioms Blue.Books.tx_balances
