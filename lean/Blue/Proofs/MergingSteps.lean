import Blue.Proofs.Merging
namespace Blue.Cursor
open Blue.Heap

variable {E : Type} {lt : E → E → Bool} {M : List (E × Nat)} {k : Nat}

def AllF (M : List (E × Nat)) (k : Nat) (cs : List (Ref E)) (p : Nat) : Prop :=
  cs.Perm ((List.range k).map (fun j => fAt M j p))
def AllG (M : List (E × Nat)) (k : Nat) (cs : List (Ref E)) (p : Nat) : Prop :=
  cs.Perm ((List.range k).map (fun j => gAt M j p))
def HeapTail (lt : E → E → Bool) (fwd : Bool) (cs : List (Ref E)) : Prop :=
  ∀ j, 0 < j → okAt (Merging.cmp lt fwd) cs j
def HeadMin (lt : E → E → Bool) (fwd : Bool) (cs : List (Ref E)) : Prop :=
  ∀ r, cs[0]? = some r → ∀ x, x ∈ cs → Merging.cmp lt fwd x r = false

/-- Replace the image of one index in a permutation of `(range k).map F`. -/
theorem perm_replace (F G : Nat → Ref E) (o : Nat) (ho : o < k) (t : List (Ref E))
    (h : (F o :: t).Perm ((List.range k).map F)) (hFG : ∀ j, j ≠ o → G j = F j) :
    (G o :: t).Perm ((List.range k).map G) := by
  have hmem : o ∈ List.range k := by simpa using ho
  have hr : (List.range k).Perm (o :: (List.range k).erase o) := List.perm_cons_erase hmem
  have h1 : ((List.range k).map F).Perm (F o :: ((List.range k).erase o).map F) := by
    simpa using hr.map F
  have h2 : ((List.range k).map G).Perm (G o :: ((List.range k).erase o).map G) := by
    simpa using hr.map G
  have ht : t.Perm (((List.range k).erase o).map F) := (h.trans h1).cons_inv
  have hnd : (List.range k).Nodup := List.nodup_range
  have heq : ((List.range k).erase o).map F = ((List.range k).erase o).map G := by
    apply List.map_congr_left
    intro j hj
    have : j ≠ o := by
      intro hjo; subst hjo
      exact (List.Nodup.not_mem_erase hnd) hj
    exact (hFG j this).symm
  rw [heq] at ht
  exact ((List.Perm.cons _ ht)).trans h2.symm

theorem heapTail_modifyHead (fwd : Bool) (f : Ref E → Ref E) (cs : List (Ref E))
    (h : HeapTail lt fwd cs) : HeapTail lt fwd (Merging.modifyHead f cs) := by
  cases cs with
  | nil => exact h
  | cons c t =>
    intro j hj s xj xs hs hxj hxs
    have e1 : (Merging.modifyHead f (c :: t))[j]? = (c :: t)[j]? := by
      cases j with
      | zero => omega
      | succ n => simp [Merging.modifyHead]
    have e2 : (Merging.modifyHead f (c :: t))[s]? = (c :: t)[s]? := by
      cases s with
      | zero => omega
      | succ n => simp [Merging.modifyHead]
    rw [e1] at hxj; rw [e2] at hxs
    exact h j hj s xj xs hs hxj hxs

theorem fAt_next_owner (p : Nat) (e : E) (o : Nat) (hp : M[p]? = some (e, o)) :
    (fAt M o p).next = fAt M o (p+1) := by
  have hidx := childList_get_owner M o p e hp
  have hlt : before M o p < (childList M o).length := by
    rcases List.getElem?_eq_some_iff.mp hidx with ⟨h, _⟩; exact h
  unfold Ref.next fAt
  simp only
  rw [if_pos (by omega), before_succ M o p e o hp]
  simp

theorem fAt_succ_other (p : Nat) (e : E) (o j : Nat) (hp : M[p]? = some (e, o)) (hj : j ≠ o) :
    fAt M j (p+1) = fAt M j p := by
  unfold fAt
  rw [before_succ M j p e o hp]
  simp [Ne.symm hj]

/-- Forward `next` from a positioned state. -/
theorem next_fwdA (st : StrictTotal lt) (fam : Family lt M k) (cs : List (Ref E)) (p : Nat)
    (hall : AllF M k cs p) (htail : HeapTail lt true cs) (hmin : HeadMin lt true cs)
    (e : E) (o : Nat) (hp : M[p]? = some (e, o)) :
    let cs1 := Merging.modifyHead Ref.next cs
    let cs2 := percolateDown (Merging.cmp lt true) cs1 0 cs1.length
    AllF M k cs2 (p+1) ∧ HeapTail lt true cs2 ∧ HeadMin lt true cs2 := by
  intro cs1 cs2
  obtain ⟨t, rfl⟩ := head_fwd st fam cs p hall hmin e o hp
  have ho : o < k := fam.owner (e, o) (List.mem_of_getElem? hp)
  have hcs1 : cs1 = fAt M o (p+1) :: t := by
    show Merging.modifyHead Ref.next (fAt M o p :: t) = _
    simp [Merging.modifyHead, fAt_next_owner p e o hp]
  have hall1 : AllF M k cs1 (p+1) := by
    rw [hcs1]
    exact perm_replace (fun j => fAt M j p) (fun j => fAt M j (p+1)) o ho t hall
      (fun j hj => fAt_succ_other p e o j hp hj)
  have htail1 : HeapTail lt true cs1 := heapTail_modifyHead true Ref.next _ htail
  have sw := strictWeak_cmp st true
  have hspec := percolateDown_spec (Merging.cmp lt true) sw cs1.length cs1 0 (by omega) htail1
  refine ⟨(percolateDown_perm _ _ _ _).trans hall1, fun j hj => hspec.1 j (by omega), ?_⟩
  intro r hr x hx
  exact percolate_head_min (Merging.cmp lt true) sw cs1 htail1 r hr x
    ((percolateDown_perm _ _ _ _).mem_iff.mp hx)

/-- `heapify` turns any "all children at p" list into a state with heap order and a minimal head. -/
theorem heapify_state (st : StrictTotal lt) (fwd : Bool) (cs : List (Ref E)) :
    (heapify (Merging.cmp lt fwd) cs).Perm cs ∧ HeapTail lt fwd (heapify (Merging.cmp lt fwd) cs)
      ∧ HeadMin lt fwd (heapify (Merging.cmp lt fwd) cs) := by
  have sw := strictWeak_cmp st fwd
  refine ⟨heapify_perm _ _, fun j _ => (heapify_spec _ sw cs).1 j, ?_⟩
  intro r hr x hx
  exact heapify_head_min _ sw cs r hr x ((heapify_perm _ _).mem_iff.mp hx)

/-- Observation in a forward positioned state. -/
theorem kv_fwdA (st : StrictTotal lt) (fam : Family lt M k) (cs : List (Ref E)) (p : Nat)
    (hall : AllF M k cs p) (hmin : HeadMin lt true cs) :
    Merging.kv ⟨true, cs⟩ = (M.map (·.1))[p]? := by
  cases hp : M[p]? with
  | none =>
    have hlen : M.length ≤ p := by simpa [List.getElem?_eq_none_iff] using hp
    have : (M.map (·.1))[p]? = none := by simp [hlen]
    rw [this]
    cases cs with
    | nil => rfl
    | cons r t =>
      have hrm : r ∈ (List.range k).map (fun j => fAt M j p) := by
        rw [← hall.mem_iff]; simp
      rw [List.mem_map] at hrm
      obtain ⟨j, _, rfl⟩ := hrm
      simp [Merging.kv, kv_fAt_end j p hlen]
  | some x =>
    obtain ⟨e, o⟩ := x
    obtain ⟨t, rfl⟩ := head_fwd st fam cs p hall hmin e o hp
    simp [Merging.kv, kv_fAt, childList_get_owner M o p e hp, hp]

/-- Forward `next` at the end of the merged list changes nothing observable. -/
theorem next_fwdA_end (st : StrictTotal lt) (cs : List (Ref E)) (p : Nat) (hlen : M.length ≤ p)
    (hall : AllF M k cs p) (htail : HeapTail lt true cs) :
    let cs1 := Merging.modifyHead Ref.next cs
    let cs2 := percolateDown (Merging.cmp lt true) cs1 0 cs1.length
    AllF M k cs2 p ∧ HeapTail lt true cs2 ∧ HeadMin lt true cs2 := by
  intro cs1 cs2
  have hcs1 : cs1 = cs := by
    show Merging.modifyHead Ref.next cs = cs
    cases cs with
    | nil => rfl
    | cons r t =>
      have hrm : r ∈ (List.range k).map (fun j => fAt M j p) := by
        rw [← hall.mem_iff]; simp
      rw [List.mem_map] at hrm
      obtain ⟨j, _, rfl⟩ := hrm
      simp only [Merging.modifyHead]
      congr 1
      unfold Ref.next fAt
      simp only
      rw [before_all M j p hlen]
      simp
  have htail1 : HeapTail lt true cs1 := by rw [hcs1]; exact htail
  have sw := strictWeak_cmp st true
  have hspec := percolateDown_spec (Merging.cmp lt true) sw cs1.length cs1 0 (by omega) htail1
  refine ⟨?_, fun j hj => hspec.1 j (by omega), ?_⟩
  · have h1 : cs2.Perm cs1 := percolateDown_perm (Merging.cmp lt true) cs1.length cs1 0
    have h2 : cs1.Perm cs := by rw [hcs1]
    exact (h1.trans h2).trans hall
  · intro r hr x hx
    exact percolate_head_min (Merging.cmp lt true) sw cs1 htail1 r hr x
      ((percolateDown_perm _ _ _ _).mem_iff.mp hx)

end Blue.Cursor
