import Blue.Model.Orphans
import Blue.Proofs.ManiChain
/-! `cleanup_orphans` never renames a file the manifest state lists.

    The scan keeps the invariant "nothing the replayed state lists is in the set" across every
    edit (an edit's additions are taken out of the set after its removals were put in, which is the
    order `apply_edit` uses, so a file removed and added by one edit, or removed by an edit and
    re-added by a later one, is not in the set), and across every fragment boundary of a chained
    manifest directory (`chainOk`: a fragment starts with the roll-up of its predecessor, so the
    skipped first edit replays to the state the scan has already accounted for).  `chainOk` is what
    `Manifest::verify` checks; it holds after every history of edits, rollovers, crashes and reopens
    (`ManiChain.chain_after_crash_and_reopen`) and for every suffix of such a directory (the
    verifier unlinks fragments oldest first). -/
namespace Blue.Orphans
open Blue.Mani Blue.ManiCrash

theorem mem_foldl_insertStr {z : List Nat} : ∀ (xs acc : List (List Nat)),
    z ∈ xs.foldl (fun acc x => insertStr x acc) acc → z ∈ xs ∨ z ∈ acc
  | [], _, h => Or.inr h
  | x :: xs, acc, h => by
    rcases mem_foldl_insertStr xs (insertStr x acc) h with h | h
    · exact Or.inl (List.mem_cons_of_mem _ h)
    · rcases mem_insertStr h with h | h
      · exact Or.inl (by rw [h]; exact List.mem_cons_self)
      · exact Or.inr h

/-- what `apply_edit` leaves in the set of strings: an addition, or a string that was there and is
    not removed -/
theorem mem_applyEdit {s : State} {e : Edit} {x : List Nat} (h : x ∈ (applyEdit s e).strs) :
    x ∈ e.add ∨ (x ∈ s.strs ∧ x ∉ e.rm) := by
  unfold applyEdit at h
  rcases mem_foldl_insertStr _ _ h with h | h
  · exact Or.inl h
  · rw [List.mem_filter] at h
    refine Or.inr ⟨h.1, ?_⟩
    intro hr
    have : e.rm.contains x = true := List.contains_iff_mem.mpr hr
    rw [this] at h
    exact absurd h.2 (by decide)

/-- nothing the state lists is in the set -/
def Clear (st : State) (set : List Name) : Prop := ∀ x, x ∈ st.strs → x ∉ set

theorem clear_step {st : State} {set : List Name} (e : Edit) (h : Clear st set) :
    Clear (applyEdit st e) (scanEdit set e) := by
  intro x hx hs
  unfold scanEdit at hs
  rw [List.mem_filter] at hs
  rcases mem_applyEdit hx with ha | ⟨hst, hrm⟩
  · have : e.add.contains x = true := List.contains_iff_mem.mpr ha
    rw [this] at hs
    exact absurd hs.2 (by decide)
  · rcases List.mem_append.mp hs.1 with h1 | h1
    · exact h x hst h1
    · exact hrm h1

theorem clear_fold : ∀ (es : List Edit) (st : State) (set : List Name), Clear st set →
    Clear (es.foldl applyEdit st) (es.foldl scanEdit set)
  | [], _, _, h => h
  | e :: es, st, set, h => clear_fold es _ _ (clear_step e h)

/-- one fragment: if the state after its first edit is clear of the set, the state it replays to
    is clear of the set after the scan of its remaining edits -/
theorem clear_frag (f : List Edit) (set : List Name)
    (h : Clear (replay maniAlgebra (f.take 1)) set) : Clear (replay maniAlgebra f) (scanFrag set f) := by
  cases f with
  | nil => exact h
  | cons e t =>
    have : replay maniAlgebra (e :: t) = t.foldl applyEdit (replay maniAlgebra [e]) := rfl
    rw [this]
    exact clear_fold t _ _ h

theorem replay_take_one_of_head (a b : List Edit) (h : b.head? = some (rollupOf a)) :
    replay maniAlgebra (b.take 1) = replay maniAlgebra a := by
  cases b with
  | nil => simp at h
  | cons r t =>
    simp only [List.head?_cons, Option.some.injEq] at h
    subst h
    exact replay_rollup a

theorem clear_chain : ∀ (a : List Edit) (rest : List (List Edit)) (set : List Name),
    chainOk (a :: rest) = true → Clear (replay maniAlgebra (a.take 1)) set →
    Clear (replay maniAlgebra ((a :: rest).getLast (List.cons_ne_nil _ _))) ((a :: rest).foldl scanFrag set)
  | a, [], set, _, h => clear_frag a set h
  | a, b :: rest, set, hc, h => by
    rw [chainOk_cons2, Bool.and_eq_true, decide_eq_true_eq] at hc
    have h1 := clear_frag a set h
    have h2 : Clear (replay maniAlgebra (b.take 1)) (scanFrag set a) := by
      rw [replay_take_one_of_head a b hc.1]; exact h1
    have := clear_chain b rest (scanFrag set a) hc.2 h2
    simpa [List.getLast_cons (List.cons_ne_nil b rest)] using this

/-- **the scan never holds a file the manifest state lists**, whatever the history of edits:
    files removed and re-added by the same edit, by a later edit, or in a later fragment included -/
theorem scan_clear_of_listed (frags : List (List Edit)) (hc : chainOk frags = true) :
    ∀ x, x ∈ listed frags → x ∉ scan frags := by
  cases frags with
  | nil => intro x hx; simp [listed] at hx
  | cons a rest =>
    have h0 : Clear (replay maniAlgebra (a.take 1)) [] := fun _ _ h => by cases h
    have := clear_chain a rest [] hc h0
    intro x hx
    unfold listed at hx
    rw [List.getLast?_eq_some_getLast (List.cons_ne_nil a rest)] at hx
    exact this x hx

/-- what `cleanup_orphans` renames to `trash/` is never listed -/
theorem moved_not_listed (sst trash : List Name) (frags : List (List Edit)) (hc : chainOk frags = true) :
    ∀ x, x ∈ moved sst trash frags → x ∉ listed frags := by
  intro x hx hl
  unfold moved at hx
  exact scan_clear_of_listed frags hc x hl (List.mem_filter.mp hx).1

/-- dropping the oldest fragments (what the verifier does) keeps the chain -/
theorem chainOk_drop : ∀ (n : Nat) (frags : List (List Edit)), chainOk frags = true → chainOk (frags.drop n) = true
  | 0, _, h => h
  | _ + 1, [], _ => rfl
  | n + 1, [_], _ => by simp [List.drop]; cases n <;> rfl
  | n + 1, a :: b :: rest, h => by
    rw [chainOk_cons2, Bool.and_eq_true] at h
    exact chainOk_drop n (b :: rest) h.2

/-! A file removed by one edit and added again by a later one: the scan as the code has it lets it
    be, a scan that only collects removals would rename a listed file. -/
def exA : List (List Edit) :=
  [[⟨[], [], [(73, [48])]⟩, ⟨[], [[120]], []⟩, ⟨[[120]], [[121]], []⟩],          -- +x ; -x +y
   [⟨[], [[121]], [(73, [48])]⟩, ⟨[[121]], [[120], [122]], []⟩]]                  -- roll-up {y} ; -y +x +z

theorem exA_chain : chainOk exA = true := by decide
theorem exA_listed : listed exA = [[120], [122]] := by decide
theorem exA_scan : scan exA = [[121]] := by decide
theorem exA_no_readd_scan_hits_listed : [120] ∈ scanNoReadd exA ∧ [120] ∈ listed exA := by decide

end Blue.Orphans
