import Blue.Proofs.TupleEmbed
/-! **C16** compact format (`tuple_key2`), the typed parser on ARBITRARY bytes: what it consumes
    (exactly the canonical encoding of what it returns), what it does with trailing bytes
    (`finish` rejects them), what the errors are, self-delimitation on any suffix, canonicity of
    every accepted input, and what a truncated key parses to. -/
namespace Blue.TupleKey2

/-- a list of bytes (the model's `Nat`s below 256) -/
def IsBytes (s : List Nat) : Prop := ∀ b ∈ s, b < 256

theorem IsBytes.tail {b : Nat} {s : List Nat} (h : IsBytes (b :: s)) : IsBytes s :=
  fun x hx => h x (List.mem_cons_of_mem _ hx)

theorem IsBytes.append_right {p q : List Nat} (h : IsBytes (p ++ q)) : IsBytes q :=
  fun x hx => h x (List.mem_append_right _ hx)

theorem IsBytes.take {s : List Nat} (h : IsBytes s) (n : Nat) : IsBytes (s.take n) :=
  fun x hx => h x (List.mem_of_mem_take hx)

theorem IsBytes.drop {s : List Nat} (h : IsBytes s) (n : Nat) : IsBytes (s.drop n) :=
  fun x hx => h x (List.mem_of_mem_drop hx)

/-! ### big-endian payloads of bytes are canonical -/

theorem fromBigEndian_lt : ∀ p, IsBytes p → fromBigEndian p < 256 ^ p.length
  | [], _ => by simp [fromBigEndian]
  | b :: bs, h => by
    have hb : b < 256 := h b (by simp)
    have ih := fromBigEndian_lt bs h.tail
    simp only [fromBigEndian, List.length_cons, Nat.pow_succ]
    have : b * 256 ^ bs.length ≤ 255 * 256 ^ bs.length := Nat.mul_le_mul_right _ (by omega)
    omega

theorem bigEndian_add_mul (k n : Nat) : ∀ L x, L ≤ n → bigEndian (k * 256 ^ n + x) L = bigEndian x L
  | 0, _, _ => rfl
  | L + 1, x, h => by
    simp only [bigEndian]
    rw [bigEndian_add_mul k n L x (by omega)]
    congr 1
    obtain ⟨d, rfl⟩ : ∃ d, n = L + 1 + d := ⟨n - (L + 1), by omega⟩
    have e : k * 256 ^ (L + 1 + d) = (k * 256 ^ d * 256) * 256 ^ L := by
      rw [Nat.pow_add, Nat.pow_succ]; ac_rfl
    rw [e, Nat.add_comm, Nat.add_mul_div_right _ _ (Nat.pow_pos (by decide)), Nat.add_mul_mod_self_right]

theorem bigEndian_fromBigEndian : ∀ p, IsBytes p → bigEndian (fromBigEndian p) p.length = p
  | [], _ => rfl
  | b :: bs, h => by
    have hb : b < 256 := h b (by simp)
    have hlt := fromBigEndian_lt bs h.tail
    simp only [fromBigEndian, List.length_cons, bigEndian]
    rw [bigEndian_add_mul b bs.length bs.length _ (Nat.le_refl _), bigEndian_fromBigEndian bs h.tail]
    congr 1
    rw [Nat.add_comm, Nat.add_mul_div_right _ _ (Nat.pow_pos (by decide)), Nat.div_eq_of_lt hlt,
      Nat.zero_add, Nat.mod_eq_of_lt hb]

/-- the payload the parser cut, re-written from the number it decoded, followed by what the
    parser left, is the input behind the tag -/
theorem payload_canonical {r : List Nat} {len : Nat} (hl : ¬ r.length < len) (hb : IsBytes r) :
    bigEndian (fromBigEndian (r.take len)) len ++ r.drop len = r := by
  have hlen : (r.take len).length = len := by rw [List.length_take]; omega
  have h := bigEndian_fromBigEndian (r.take len) (hb.take len)
  rw [hlen] at h
  rw [h, List.take_append_drop]

/-! ### one element: every accepted input is the canonical encoding of what is returned -/

theorem parseU64_canonical {buf : List Nat} {v : Nat} {rest : List Nat}
    (h : parseU64 buf = .ok (v, rest)) (hb : IsBytes buf) :
    v < 18446744073709551616 ∧ buf = encodeU64 v ++ rest := by
  cases buf with
  | nil => simp [parseU64] at h
  | cons tag r =>
    simp only [parseU64] at h
    split at h
    · rename_i hr
      generalize hL : tag - UNSIGNED_BASE = L at h
      split at h
      · cases h
      · rename_i hl
        split at h
        · rename_i hc
          simp only [Except.ok.injEq, Prod.mk.injEq] at h
          obtain ⟨hv, hrest⟩ := h
          rw [hv] at hc
          have hL8 : L ≤ 8 := by unfold UNSIGNED_BASE UNSIGNED_LAST at *; omega
          have htag : UNSIGNED_BASE + L = tag := by unfold UNSIGNED_BASE at *; omega
          refine ⟨?_, ?_⟩
          · have h1 := lt_pow_minLen v
            rw [hc] at h1
            have h2 : 256 ^ L ≤ 256 ^ 8 := Nat.pow_le_pow_right (by decide) hL8
            have h3 : (256 : Nat) ^ 8 = 18446744073709551616 := by decide
            omega
          · unfold encodeU64
            rw [hc, htag, ← hv, ← hrest, List.cons_append, payload_canonical hl hb.tail]
        · cases h
    · cases h

theorem parseI64_canonical {buf : List Nat} {z : Int} {rest : List Nat}
    (h : parseI64 buf = .ok (z, rest)) (hb : IsBytes buf) :
    I64 z ∧ buf = encodeI64 z ++ rest := by
  cases buf with
  | nil => simp [parseI64] at h
  | cons tag r =>
    simp only [parseI64] at h
    split at h
    · rename_i hr
      generalize hL : 8 - (tag - SIGNED_NEG_BASE) = L at h
      split at h
      · cases h
      · rename_i hl
        split at h
        · cases h
        · rename_i hc
          split at h
          · cases h
          · rename_i ho
            simp only [Except.ok.injEq, Prod.mk.injEq] at h
            obtain ⟨hz, hrest⟩ := h
            have hlen : (r.take L).length = L := by rw [List.length_take]; omega
            have hlt := fromBigEndian_lt (r.take L) (hb.tail.take L)
            rw [hlen] at hlt
            generalize hm : negMagnitude (r.take L) = m at hc ho hz
            have hmdef : m = 256 ^ L - 1 - fromBigEndian (r.take L) := by
              rw [← hm]; unfold negMagnitude; rw [hlen]
            have hc' : minLen m = L := Decidable.of_not_not hc
            have htag : SIGNED_NEG_BASE + (8 - L) = tag := by
              unfold SIGNED_NEG_BASE SIGNED_NEG_LAST at *; omega
            have hneg : z < 0 := by omega
            have hmag : (-z - 1).toNat = m := by omega
            refine ⟨⟨by omega, by omega⟩, ?_⟩
            unfold encodeI64
            rw [if_pos hneg]
            simp only [hmag, hc', htag, List.cons_append]
            have e : 256 ^ L - 1 - m = fromBigEndian (r.take L) := by omega
            rw [e, ← hrest, payload_canonical hl hb.tail]
    · split at h
      · rename_i hnr hr
        generalize hL : tag - SIGNED_NONNEG_BASE = L at h
        split at h
        · cases h
        · rename_i hl
          split at h
          · cases h
          · rename_i hc
            split at h
            · cases h
            · rename_i ho
              simp only [Except.ok.injEq, Prod.mk.injEq] at h
              obtain ⟨hz, hrest⟩ := h
              generalize hm : fromBigEndian (r.take L) = m at hc ho hz
              have hc' : minLen m = L := Decidable.of_not_not hc
              have htag : SIGNED_NONNEG_BASE + L = tag := by unfold SIGNED_NONNEG_BASE at *; omega
              have hneg : ¬ z < 0 := by omega
              have hmag : z.toNat = m := by omega
              refine ⟨⟨by omega, by omega⟩, ?_⟩
              unfold encodeI64
              rw [if_neg hneg]
              simp only [hmag, hc', htag, List.cons_append]
              rw [← hm, ← hrest, payload_canonical hl hb.tail]
      · cases h

/-- byte strings: every accepted input is canonical, whatever the "bytes" are -/
theorem parseBytes_canonical : ∀ (fuel : Nat) (buf s rest : List Nat),
    parseBytes fuel buf = .ok (s, rest) → buf = encodeBytes s ++ rest := by
  intro fuel
  induction fuel with
  | zero => intro buf s rest h; simp [parseBytes] at h
  | succ f ih =>
    intro buf s rest h
    cases buf with
    | nil => simp [parseBytes] at h
    | cons b r =>
      simp only [parseBytes] at h
      split at h
      · rename_i hb0
        cases r with
        | nil => simp at h
        | cons e r' =>
          simp only at h
          split at h
          · rename_i he0
            simp only [Except.ok.injEq, Prod.mk.injEq] at h
            obtain ⟨rfl, rfl⟩ := h
            simp [encodeBytes, hb0, he0]
          · split at h
            · rename_i he
              cases hp : parseBytes f r' with
              | error x => rw [hp] at h; cases h
              | ok pr =>
                obtain ⟨s', r''⟩ := pr
                rw [hp] at h
                simp only [Except.ok.injEq, Prod.mk.injEq] at h
                obtain ⟨rfl, rfl⟩ := h
                have := ih r' s' r'' hp
                simp only [encodeBytes, if_true, List.cons_append]
                rw [hb0, he, ← this]
            · cases h
      · rename_i hb0
        cases hp : parseBytes f r with
        | error x => rw [hp] at h; cases h
        | ok pr =>
          obtain ⟨s', r''⟩ := pr
          rw [hp] at h
          simp only [Except.ok.injEq, Prod.mk.injEq] at h
          obtain ⟨rfl, rfl⟩ := h
          have := ih r s' r'' hp
          simp only [encodeBytes, hb0, if_false, List.cons_append]
          rw [← this]

/-- **one typed call, any bytes**: a value is returned only if the input begins with the canonical
    encoding of that value, the value fits the method's type, and the remainder handed over is
    exactly what follows the encoding -/
theorem parseVal_canonical {t : Ty} {buf : List Nat} {v : Val} {rest : List Nat}
    (h : parseVal t buf = .ok (v, rest)) (hb : IsBytes buf) : TyOk t v ∧ buf = encVal' v ++ rest := by
  cases t <;> simp only [parseVal] at h
  case unit =>
    cases buf with
    | nil => simp [parseUnit] at h
    | cons tag r =>
      simp only [parseUnit] at h
      by_cases ht : tag = UNIT_TAG
      · simp only [ht, if_true, Except.ok.injEq, Prod.mk.injEq] at h
        obtain ⟨rfl, rfl⟩ := h
        simp [TyOk, encVal', encodeUnit, ht]
      · simp [ht] at h
  case bytes =>
    cases hp : parseBytes (buf.length + 1) buf with
    | error x => rw [hp] at h; cases h
    | ok pr =>
      obtain ⟨s, r⟩ := pr
      rw [hp] at h
      simp only [Except.ok.injEq, Prod.mk.injEq] at h
      obtain ⟨rfl, rfl⟩ := h
      exact ⟨trivial, parseBytes_canonical _ _ _ _ hp⟩
  case str =>
    cases hp : parseBytes (buf.length + 1) buf with
    | error x => rw [hp] at h; cases h
    | ok pr =>
      obtain ⟨s, r⟩ := pr
      rw [hp] at h
      simp only at h
      split at h
      · rename_i hu
        simp only [Except.ok.injEq, Prod.mk.injEq] at h
        obtain ⟨rfl, rfl⟩ := h
        exact ⟨hu, parseBytes_canonical _ _ _ _ hp⟩
      · cases h
  all_goals
    first
    | (cases hp : parseU64 buf with
       | error x => rw [hp] at h; cases h
       | ok pr =>
         obtain ⟨n, r⟩ := pr
         rw [hp] at h
         simp only at h
         split at h
         · rename_i hf
           simp only [Except.ok.injEq, Prod.mk.injEq] at h
           obtain ⟨rfl, rfl⟩ := h
           obtain ⟨h1, h2⟩ := parseU64_canonical hp hb
           refine ⟨?_, h2⟩
           simp only [natFits, decide_eq_true_eq] at hf
           simp only [TyOk]
           first | exact hf | exact h1
         · cases h)
    | (cases hp : parseI64 buf with
       | error x => rw [hp] at h; cases h
       | ok pr =>
         obtain ⟨n, r⟩ := pr
         rw [hp] at h
         simp only at h
         split at h
         · rename_i hf
           simp only [Except.ok.injEq, Prod.mk.injEq] at h
           obtain ⟨rfl, rfl⟩ := h
           obtain ⟨h1, h2⟩ := parseI64_canonical hp hb
           refine ⟨?_, h2⟩
           simp only [intFits, Bool.and_eq_true, decide_eq_true_eq] at hf
           simp only [TyOk]
           first | exact hf | exact h1
         · cases h)

/-! ### the sequence of typed calls, and `finish` -/

/-- the expected sequence of typed parser calls WITHOUT the closing `finish`: the values of the
    calls that returned, then either the `remaining()` bytes or the error of the call that failed -/
def parseElems : List Ty → List Nat → List Val × Except Err (List Nat)
  | [], buf => ([], .ok buf)
  | t :: ts, buf =>
    match parseVal t buf with
    | .error e => ([], .error e)
    | .ok (v, rest) => (v :: (parseElems ts rest).1, (parseElems ts rest).2)

/-- `TupleKeyParser::finish` on what the calls left -/
def finish : Except Err (List Nat) → Option Err
  | .error e => some e
  | .ok [] => none
  | .ok (b :: r) => some (.trailing (b :: r).length)

/-- the function the driver runs (`parseRow`) is the calls followed by `finish` -/
theorem parseRow_eq_finish : ∀ (tys : List Ty) (buf : List Nat),
    parseRow tys buf = ((parseElems tys buf).1, finish (parseElems tys buf).2)
  | [], [] => rfl
  | [], _ :: _ => rfl
  | t :: ts, buf => by
    simp only [parseRow, parseElems]
    cases parseVal t buf with
    | error e => rfl
    | ok pr =>
      obtain ⟨v, rest⟩ := pr
      simp only [parseRow_eq_finish ts rest]

/-- **arbitrary bytes, the calls**: the calls consume exactly the canonical encoding of the values
    they return (`rest` is what is not consumed), the values fit the types of the calls made, all
    calls returned only if there are as many values as expected types (and then `remaining()` is
    `rest`), and an error is the error of the first expected element that does not parse, at `rest` -/
theorem parseElems_total : ∀ (tys : List Ty) (buf : List Nat), IsBytes buf →
    ∃ rest, buf = encVals (parseElems tys buf).1 ++ rest
      ∧ (parseElems tys buf).1.length ≤ tys.length
      ∧ (∀ e ∈ tys.zip (parseElems tys buf).1, TyOk e.1 e.2)
      ∧ (∀ rem, (parseElems tys buf).2 = .ok rem → rem = rest ∧ (parseElems tys buf).1.length = tys.length)
      ∧ (∀ e, (parseElems tys buf).2 = .error e →
          ∃ t, tys[(parseElems tys buf).1.length]? = some t ∧ parseVal t rest = .error e)
  | [], buf, _ => ⟨buf, rfl, Nat.le_refl _, by simp [parseElems], by
      intro rem h; simp only [parseElems, Except.ok.injEq] at h; exact ⟨h.symm, rfl⟩, by
      intro e h; simp [parseElems] at h⟩
  | t :: ts, buf, hb => by
    cases hp : parseVal t buf with
    | error e =>
      refine ⟨buf, ?_, ?_, ?_, ?_, ?_⟩ <;> simp only [parseElems, hp]
      · rfl
      · simp
      · simp
      · intro rem h; cases h
      · intro e' h
        simp only [Except.error.injEq] at h
        exact ⟨t, by simp, by rw [← h]; exact hp⟩
    | ok pr =>
      obtain ⟨v, r⟩ := pr
      obtain ⟨hty, hbuf⟩ := parseVal_canonical hp hb
      have hbr : IsBytes r := by rw [hbuf] at hb; exact hb.append_right
      obtain ⟨rest, h1, h2, h3, h4, h5⟩ := parseElems_total ts r hbr
      refine ⟨rest, ?_, ?_, ?_, ?_, ?_⟩ <;> simp only [parseElems, hp]
      · simp only [encVals, List.append_assoc]; rw [← h1]; exact hbuf
      · simp only [List.length_cons]; omega
      · intro e he
        simp only [List.zip_cons_cons, List.mem_cons] at he
        rcases he with rfl | he
        · exact hty
        · exact h3 e he
      · intro rem h
        obtain ⟨a, b⟩ := h4 rem h
        exact ⟨a, by simp only [List.length_cons]; omega⟩
      · intro e h
        obtain ⟨t', a, b⟩ := h5 e h
        exact ⟨t', by simpa using a, b⟩

/-- **arbitrary bytes, the function the driver runs** (`parseRow`: the calls, then `finish`): it
    reads the prefix `encVals vals` only — the concatenation of the canonical encodings of the values it
    returns, which fit the expected types —; it reports success only when every expected element was
    parsed AND nothing remains (`finish` REJECTS trailing bytes: `TrailingBytes { remaining }`); any
    other error is exactly the error of the first expected element that does not parse, at what
    remains -/
theorem parseRow_total_no_overrun (tys : List Ty) (buf : List Nat) (hb : IsBytes buf) :
    ∃ rest, buf = encVals (parseRow tys buf).1 ++ rest
      ∧ (parseRow tys buf).1.length ≤ tys.length
      ∧ (∀ e ∈ tys.zip (parseRow tys buf).1, TyOk e.1 e.2)
      ∧ ((parseRow tys buf).2 = none → rest = [] ∧ (parseRow tys buf).1.length = tys.length)
      ∧ (∀ e, (parseRow tys buf).2 = some e →
          ((parseRow tys buf).1.length = tys.length ∧ rest ≠ [] ∧ e = .trailing rest.length)
          ∨ (∃ t, tys[(parseRow tys buf).1.length]? = some t ∧ parseVal t rest = .error e)) := by
  obtain ⟨rest, h1, h2, h3, h4, h5⟩ := parseElems_total tys buf hb
  rw [parseRow_eq_finish]
  refine ⟨rest, h1, h2, h3, ?_, ?_⟩
  · intro hn
    simp only at hn
    cases hq : (parseElems tys buf).2 with
    | error e => rw [hq] at hn; simp [finish] at hn
    | ok rem =>
      obtain ⟨a, b⟩ := h4 rem hq
      rw [hq] at hn
      cases rem with
      | nil => exact ⟨a.symm, b⟩
      | cons x y => simp [finish] at hn
  · intro e he
    simp only at he
    cases hq : (parseElems tys buf).2 with
    | error e' =>
      rw [hq] at he
      simp only [finish, Option.some.injEq] at he
      exact .inr (he ▸ h5 e' hq)
    | ok rem =>
      obtain ⟨a, b⟩ := h4 rem hq
      rw [hq] at he
      cases rem with
      | nil => simp [finish] at he
      | cons x y =>
        simp only [finish, Option.some.injEq] at he
        refine .inl ⟨b, ?_, ?_⟩
        · rw [← a]; simp
        · rw [← a, ← he]

/-! ### self-delimitation on arbitrary suffixes -/

/-- **the calls over `enc t ++ rest`, `rest` ANY bytes**: the tuple, then the calls that follow at
    `rest` -/
theorem parseElems_encode_append : ∀ (r : List (Ty × Val)), (∀ e ∈ r, TyOk e.1 e.2) →
    ∀ (tys' : List Ty) (rest : List Nat),
      parseElems (r.map (·.1) ++ tys') (encVals (r.map (·.2)) ++ rest)
        = (r.map (·.2) ++ (parseElems tys' rest).1, (parseElems tys' rest).2)
  | [], _, _, _ => rfl
  | (t, v) :: r, h, tys', rest => by
    simp only [List.map_cons, List.cons_append, encVals, List.append_assoc, parseElems]
    rw [parseVal_encVal t v (h (t, v) (by simp))]
    simp only
    rw [parseElems_encode_append r (fun e he => h e (List.mem_cons_of_mem _ he))]

/-- the same for the function the driver runs: a key followed by ANY bytes parses, with the
    writer's types followed by any further expected types, to the tuple followed by the parse of
    those bytes -/
theorem parseRow_encode_append (r : List (Ty × Val)) (h : ∀ e ∈ r, TyOk e.1 e.2)
    (tys' : List Ty) (rest : List Nat) :
    parseRow (r.map (·.1) ++ tys') (encVals (r.map (·.2)) ++ rest)
      = (r.map (·.2) ++ (parseRow tys' rest).1, (parseRow tys' rest).2) := by
  rw [parseRow_eq_finish, parseRow_eq_finish, parseElems_encode_append r h]

/-- with exactly the writer's types: the tuple and `remaining() = rest`; `finish` accepts iff
    `rest` is empty and says `TrailingBytes { remaining: rest.len() }` otherwise -/
theorem parse_encode_rest (r : List (Ty × Val)) (h : ∀ e ∈ r, TyOk e.1 e.2) (rest : List Nat) :
    parseElems (r.map (·.1)) (encVals (r.map (·.2)) ++ rest) = (r.map (·.2), .ok rest)
    ∧ parseRow (r.map (·.1)) (encVals (r.map (·.2)) ++ rest)
        = (r.map (·.2), if rest = [] then none else some (.trailing rest.length)) := by
  have h1 := parseElems_encode_append r h [] rest
  have h2 := parseRow_encode_append r h [] rest
  simp only [List.append_nil, parseElems] at h1
  simp only [List.append_nil] at h2
  refine ⟨h1, ?_⟩
  rw [h2]
  cases rest <;> simp [parseRow]

/-! ### canonicity -/

theorem zip_map_fst : ∀ (tys : List Ty) (vs : List Val), vs.length = tys.length → (tys.zip vs).map (·.1) = tys
  | [], [], _ => rfl
  | [], _ :: _, h => by simp at h
  | _ :: _, [], h => by simp at h
  | t :: ts, v :: vs, h => by
    simp only [List.zip_cons_cons, List.map_cons]
    rw [zip_map_fst ts vs (by simpa using h)]

theorem zip_map_snd : ∀ (tys : List Ty) (vs : List Val), vs.length ≤ tys.length → (tys.zip vs).map (·.2) = vs
  | _, [], _ => by simp
  | [], _ :: _, h => by simp at h
  | t :: ts, v :: vs, h => by
    simp only [List.zip_cons_cons, List.map_cons]
    rw [zip_map_snd ts vs (by simpa using h)]

/-- **every accepted input is canonical**: what `parseRow` accepts (all expected elements, `finish`
    ok) is the key the builder writes for the values returned, with the expected types as methods -/
theorem parseRow_canonical {tys : List Ty} {buf : List Nat} {vs : List Val}
    (h : parseRow tys buf = (vs, none)) (hb : IsBytes buf) :
    vs.length = tys.length ∧ (∀ e ∈ tys.zip vs, TyOk e.1 e.2) ∧ encRow (tys.zip vs) = some buf := by
  obtain ⟨rest, h1, _, h3, h4, _⟩ := parseRow_total_no_overrun tys buf hb
  rw [h] at h1 h3 h4
  obtain ⟨hr, hl⟩ := h4 rfl
  refine ⟨hl, h3, ?_⟩
  rw [encRow_of_tyOk _ h3, zip_map_snd tys vs (by simp only at hl; omega)]
  rw [hr, List.append_nil] at h1
  exact congrArg some h1.symm

/-- **the accepted inputs, exactly**: `parseRow tys` accepts `buf` with values `vs` iff `buf` is
    the key the builder writes for a well-typed row of those types and values.  (Parsing and
    re-encoding to oneself is the same as parsing: there is no non-canonical accepted input.) -/
theorem parseRow_accepts_iff (tys : List Ty) (buf : List Nat) (vs : List Val) (hb : IsBytes buf) :
    parseRow tys buf = (vs, none)
      ↔ ∃ r, r.map (·.1) = tys ∧ r.map (·.2) = vs ∧ (∀ e ∈ r, TyOk e.1 e.2) ∧ encRow r = some buf := by
  constructor
  · intro h
    obtain ⟨hl, hok, henc⟩ := parseRow_canonical h hb
    exact ⟨tys.zip vs, zip_map_fst tys vs hl, zip_map_snd tys vs (by omega), hok, henc⟩
  · rintro ⟨r, rfl, rfl, hok, henc⟩
    exact parseRow_of_encRow henc hok

/-- re-encoding what was parsed gives the input back iff nothing was left unparsed; in particular
    whenever the parse is accepted -/
theorem parseRow_reencode (tys : List Ty) (buf : List Nat) (hb : IsBytes buf) :
    ∃ rest, buf = encVals (parseRow tys buf).1 ++ rest
      ∧ (encVals (parseRow tys buf).1 = buf ↔ rest = [])
      ∧ ((parseRow tys buf).2 = none → rest = []) := by
  obtain ⟨rest, h1, _, _, h4, _⟩ := parseRow_total_no_overrun tys buf hb
  refine ⟨rest, h1, ?_, fun hn => (h4 hn).1⟩
  constructor
  · intro he
    have : encVals (parseRow tys buf).1 ++ [] = encVals (parseRow tys buf).1 ++ rest := by
      rw [List.append_nil, ← h1, he]
    exact (List.append_cancel_left this).symm
  · intro hr
    rw [hr, List.append_nil] at h1
    exact h1.symm

/-! ### truncated keys -/

/-- the error a typed call makes of an input that ends inside (or before) its element:
    `UnterminatedBytes` for `bytes` / `string`, `UnexpectedEnd` for the integers and the unit -/
def truncErr : Ty → Err
  | .bytes | .str => .unterminated
  | _ => .unexpectedEnd

theorem parseU64_short {tag : Nat} {p : List Nat} (hr : UNSIGNED_BASE ≤ tag ∧ tag ≤ UNSIGNED_LAST)
    (hl : p.length < tag - UNSIGNED_BASE) : parseU64 (tag :: p) = .error .unexpectedEnd := by
  simp only [parseU64]; rw [if_pos hr, if_pos hl]

/-- a proper prefix of `encodeU64 v` -/
theorem parseU64_truncated {v : Nat} (hv : v < 18446744073709551616) {p q : List Nat}
    (hpq : p ++ q = encodeU64 v) (hq : q ≠ []) : parseU64 p = .error .unexpectedEnd := by
  have hl8 : minLen v ≤ 8 := minLen_le_of_lt_pow 8 v (by simpa using hv)
  cases p with
  | nil => rfl
  | cons a p' =>
    unfold encodeU64 at hpq
    simp only [List.cons_append, List.cons.injEq] at hpq
    obtain ⟨rfl, hp⟩ := hpq
    have hlen := congrArg List.length hp
    simp only [List.length_append, bigEndian_length] at hlen
    have : 0 < q.length := List.length_pos_iff.mpr hq
    exact parseU64_short (by unfold UNSIGNED_BASE UNSIGNED_LAST; omega)
      (by rw [Nat.add_sub_cancel_left]; omega)

/-- a proper prefix of `encodeI64 z` -/
theorem parseI64_truncated {z : Int} (hz : I64 z) {p q : List Nat}
    (hpq : p ++ q = encodeI64 z) (hq : q ≠ []) : parseI64 p = .error .unexpectedEnd := by
  obtain ⟨h1, h2⟩ := hz
  have hqpos : 0 < q.length := List.length_pos_iff.mpr hq
  cases p with
  | nil => rfl
  | cons a p' =>
    unfold encodeI64 at hpq
    by_cases hneg : z < 0
    · rw [if_pos hneg] at hpq
      simp only [List.cons_append, List.cons.injEq] at hpq
      obtain ⟨rfl, hp⟩ := hpq
      generalize hm : (-z - 1).toNat = m at hp
      have hl : minLen m ≤ 8 := minLen_le_8 (by omega)
      have hlen := congrArg List.length hp
      simp only [List.length_append, bigEndian_length] at hlen
      have c1 : SIGNED_NEG_BASE ≤ SIGNED_NEG_BASE + (8 - minLen m) ∧ SIGNED_NEG_BASE + (8 - minLen m) ≤ SIGNED_NEG_LAST := by
        unfold SIGNED_NEG_BASE SIGNED_NEG_LAST; omega
      have c2 : p'.length < 8 - (SIGNED_NEG_BASE + (8 - minLen m) - SIGNED_NEG_BASE) := by
        rw [Nat.add_sub_cancel_left]; omega
      simp only [parseI64]
      rw [if_pos c1, if_pos c2]
    · rw [if_neg hneg] at hpq
      simp only [List.cons_append, List.cons.injEq] at hpq
      obtain ⟨rfl, hp⟩ := hpq
      generalize hm : z.toNat = m at hp
      have hl : minLen m ≤ 8 := minLen_le_8 (by omega)
      have hlen := congrArg List.length hp
      simp only [List.length_append, bigEndian_length] at hlen
      have c0 : ¬ (SIGNED_NEG_BASE ≤ SIGNED_NONNEG_BASE + minLen m ∧ SIGNED_NONNEG_BASE + minLen m ≤ SIGNED_NEG_LAST) := by
        unfold SIGNED_NEG_BASE SIGNED_NEG_LAST SIGNED_NONNEG_BASE; omega
      have c1 : SIGNED_NONNEG_BASE ≤ SIGNED_NONNEG_BASE + minLen m ∧ SIGNED_NONNEG_BASE + minLen m ≤ SIGNED_NONNEG_LAST := by
        unfold SIGNED_NONNEG_BASE SIGNED_NONNEG_LAST; omega
      have c2 : p'.length < SIGNED_NONNEG_BASE + minLen m - SIGNED_NONNEG_BASE := by
        rw [Nat.add_sub_cancel_left]; omega
      simp only [parseI64]
      rw [if_neg c0, if_pos c1, if_pos c2]

/-- a proper prefix of `encodeBytes s` — cut anywhere: inside the data, between `00` and `ff` of an
    escape, before the terminator, or between its two bytes — is `UnterminatedBytes`, with any fuel -/
theorem parseBytes_truncated : ∀ (s : List Nat) (fuel : Nat) (p q : List Nat),
    p ++ q = encodeBytes s → q ≠ [] → parseBytes fuel p = .error .unterminated := by
  intro s
  induction s with
  | nil =>
    intro fuel p q hpq hq
    cases fuel with
    | zero => rfl
    | succ f =>
      cases p with
      | nil => rfl
      | cons a p' =>
        simp only [encodeBytes, List.cons_append, List.cons.injEq] at hpq
        obtain ⟨rfl, hp⟩ := hpq
        cases p' with
        | nil => simp [parseBytes]
        | cons a' p'' =>
          simp only [List.cons_append, List.cons.injEq, List.append_eq_nil_iff] at hp
          exact absurd hp.2.2 hq
  | cons b bs ih =>
    intro fuel p q hpq hq
    cases fuel with
    | zero => rfl
    | succ f =>
      cases p with
      | nil => rfl
      | cons a p' =>
        by_cases hb0 : b = 0
        · subst hb0
          simp only [encodeBytes, if_true, List.cons_append, List.cons.injEq] at hpq
          obtain ⟨rfl, hp⟩ := hpq
          cases p' with
          | nil => simp [parseBytes]
          | cons a' p'' =>
            simp only [List.cons_append, List.cons.injEq] at hp
            obtain ⟨rfl, hp'⟩ := hp
            simp only [parseBytes, if_true]
            rw [ih f p'' q hp' hq]
            simp
        · simp only [encodeBytes, hb0, if_false, List.cons_append, List.cons.injEq] at hpq
          obtain ⟨rfl, hp⟩ := hpq
          simp only [parseBytes, hb0, if_false]
          rw [ih f p' q hp hq]

/-- **one element, truncated**: for EVERY element type, every proper prefix of an element's
    encoding (the empty one included) is rejected by the typed call of that element, with the
    truncation error of its kind; no proper prefix parses as a shorter value -/
theorem parseVal_truncated {t : Ty} {v : Val} (h : TyOk t v) {p q : List Nat}
    (hpq : p ++ q = encVal' v) (hq : q ≠ []) : parseVal t p = .error (truncErr t) := by
  cases t <;> cases v <;> simp only [TyOk] at h <;> simp only [encVal'] at hpq <;> simp only [parseVal, truncErr]
  · cases p with
    | nil => rfl
    | cons a p' =>
      simp only [encodeUnit, List.cons_append, List.cons.injEq, List.append_eq_nil_iff] at hpq
      exact absurd hpq.2.2 hq
  · rw [parseU64_truncated (by omega) hpq hq]
  · rw [parseU64_truncated (by omega) hpq hq]
  · rw [parseU64_truncated (by omega) hpq hq]
  · rw [parseU64_truncated h hpq hq]
  · rw [parseI64_truncated ⟨by omega, by omega⟩ hpq hq]
  · rw [parseI64_truncated ⟨by omega, by omega⟩ hpq hq]
  · rw [parseI64_truncated ⟨by omega, by omega⟩ hpq hq]
  · rw [parseI64_truncated h hpq hq]
  · rw [parseBytes_truncated _ _ _ _ hpq hq]
  · rw [parseBytes_truncated _ _ _ _ hpq hq]

/-- **a truncated key**: every proper prefix of a key, parsed with the writer's types, returns the
    elements that lie wholly before the cut and then fails, with the truncation error of the element
    the cut falls in (or before); it is never accepted and never yields a different value -/
theorem parseRow_truncated : ∀ (r : List (Ty × Val)), (∀ e ∈ r, TyOk e.1 e.2) →
    ∀ (p q : List Nat), p ++ q = encVals (r.map (·.2)) → q ≠ [] →
      ∃ k t, (r.map (·.1))[k]? = some t
        ∧ parseRow (r.map (·.1)) p = ((r.map (·.2)).take k, some (truncErr t))
  | [], _, p, q, hpq, hq => by
    simp only [List.map_nil, encVals, List.append_eq_nil_iff] at hpq
    exact absurd hpq.2 hq
  | (t, v) :: r, h, p, q, hpq, hq => by
    have hty := h (t, v) (by simp)
    simp only [List.map_cons, encVals] at hpq
    rcases List.append_eq_append_iff.mp hpq with ⟨a', ha, hq'⟩ | ⟨c', hp, hc⟩
    · by_cases hnil : a' = []
      · -- the cut is exactly behind the first element
        subst hnil
        rw [List.append_nil] at ha
        rw [List.nil_append] at hq'
        obtain ⟨k, t', hk, hrow⟩ := parseRow_truncated r (fun e he => h e (List.mem_cons_of_mem _ he)) [] q
          (by rw [List.nil_append]; exact hq') hq
        refine ⟨k + 1, t', by simpa using hk, ?_⟩
        simp only [List.map_cons, parseRow]
        have := parseVal_encVal t v hty []
        rw [List.append_nil, ha] at this
        rw [this]
        simp only [hrow, List.take_succ_cons]
      · -- the cut is inside the first element
        refine ⟨0, t, by simp, ?_⟩
        simp only [List.map_cons, parseRow]
        rw [parseVal_truncated hty ha.symm hnil]
        simp
    · obtain ⟨k, t', hk, hrow⟩ := parseRow_truncated r (fun e he => h e (List.mem_cons_of_mem _ he)) c' q
        hc.symm hq
      refine ⟨k + 1, t', by simpa using hk, ?_⟩
      simp only [List.map_cons, parseRow]
      rw [hp, parseVal_encVal t v hty c']
      simp only [hrow, List.take_succ_cons]

/-- **every proper prefix of ANY accepted input is rejected** (the accepted set of a type sequence
    is prefix-free): if `parseRow tys` accepts `buf`, it rejects every proper prefix of `buf`, with a
    truncation error, after returning a prefix of the same values -/
theorem parseRow_prefix_rejected {tys : List Ty} {buf : List Nat} {vs : List Val}
    (h : parseRow tys buf = (vs, none)) (hb : IsBytes buf) {p q : List Nat} (hpq : p ++ q = buf) (hq : q ≠ []) :
    ∃ k t, tys[k]? = some t ∧ parseRow tys p = (vs.take k, some (truncErr t)) := by
  obtain ⟨r, rfl, rfl, hok, henc⟩ := (parseRow_accepts_iff tys buf vs hb).mp h
  rw [encRow_eq henc] at hpq
  exact parseRow_truncated r hok p q hpq hq

/-! ### decision procedures for the hypotheses (used by the non-vacuity examples) -/

instance decIsBytes (s : List Nat) : Decidable (IsBytes s) := by unfold IsBytes; infer_instance

instance decTyOk (t : Ty) (v : Val) : Decidable (TyOk t v) := by
  cases t <;> cases v <;> simp only [TyOk, I64] <;> infer_instance

instance decEqExcept {ε α : Type} [DecidableEq ε] [DecidableEq α] : DecidableEq (Except ε α) := fun a b =>
  match a, b with
  | .ok x, .ok y => if h : x = y then isTrue (by rw [h]) else isFalse (fun e => h (Except.ok.inj e))
  | .error x, .error y => if h : x = y then isTrue (by rw [h]) else isFalse (fun e => h (Except.error.inj e))
  | .ok _, .error _ => isFalse (fun e => by cases e)
  | .error _, .ok _ => isFalse (fun e => by cases e)

/-! ### a row with every element type, for the non-vacuity examples -/

/-- every element type of the compact format -/
def mixedRow : List (Ty × Val) :=
  [(.unit, .unit), (.u8, .nat 255), (.u16, .nat 256), (.u32, .nat 0), (.u64, .nat 18446744073709551615),
   (.i8, .int (-128)), (.i16, .int 0), (.i32, .int (-1)), (.i64, .int 9223372036854775807),
   (.bytes, .bytes [0, 255, 0]), (.str, .bytes [0xc3, 0xbf])]

/-- its key (40 bytes) -/
def mixedKey : List Nat :=
  [43, 35, 255, 36, 1, 0, 34, 42, 255, 255, 255, 255, 255, 255, 255, 255, 23, 128, 25, 24, 33, 127, 255, 255, 255,
   255, 255, 255, 255, 0, 255, 255, 0, 255, 0, 0, 195, 191, 0, 0]

end Blue.TupleKey2
