import Blue.Proofs.KvsConcReads
import Blue.Proofs.Snap
/-! The read timestamp of the two models of a scan that overlaps writes.

    `Blue.Snap.readTs assigned inflight` (C07: the number just below the oldest write that has not
    left the wait list; the last assigned number when none is in flight) and `Blue.KvsConc`'s
    `visible` (C06: the number of the last writer that left the wait list; `visible_seq_no` in the
    store) are NOT the same number: a memtable rotation consumes a sequence number without a write,
    so after `fRotate` with nobody in flight `visible = n` while `readTs = n + 1`
    (`numbers_differ_after_rotation`).  What holds is that they select the same entries: in every
    reachable state no entry of any table carries a number in between (`no_entry_between`), so a
    snapshot reading at `visible` and one reading at `readTs seqNo (numbers in flight)` have the
    same view (`view_visible_eq_view_readTs`), hence the same lookups. -/
namespace Blue.KvsConc
open Blue.KvsWrite (Entry)

/-- the numbers of the writes that have not left the wait list -/
def inflight (s : St) : List Nat := (s.writers.filter (fun w => !w.finished)).map (·.seq)

theorem le_snap_readTs (v assigned : Nat) (hv : v ≤ assigned) :
    ∀ (l : List Nat), (∀ q ∈ l, v < q) → v ≤ Blue.Snap.readTs assigned l
  | [], _ => hv
  | q :: rest, h => by
    have ih := le_snap_readTs v assigned hv rest (fun x hx => h x (List.mem_cons_of_mem _ hx))
    have hq := h q List.mem_cons_self
    show v ≤ (if q ≤ Blue.Snap.readTs assigned rest then q - 1 else Blue.Snap.readTs assigned rest)
    split <;> omega

/-- sequence numbers of writes are positive -/
theorem writer_seq_pos {c : Bool} {seq0 mem0 : Nat} : ∀ (evs : List Ev) {s : St},
    run (init c seq0 mem0) evs = some s → ∀ w ∈ s.writers, 0 < w.seq := by
  have key : ∀ (evs : List Ev) (s s' : St), (∀ w ∈ s.writers, 0 < w.seq) → run s evs = some s' →
      ∀ w ∈ s'.writers, 0 < w.seq := by
    intro evs
    induction evs with
    | nil => intro s s' h hr; simp only [run] at hr; cases hr; exact h
    | cons e es ih =>
      intro s s' h hr
      rw [run_cons] at hr
      split at hr
      · rename_i s1 hs1
        refine ih s1 s' ?_ hr
        cases e with
        | wBegin seq tbl batch =>
          simp only [step] at hs1
          split at hs1
          · rename_i hc
            cases hs1
            intro w hw
            rcases List.mem_append.mp hw with hw | hw
            · exact h w hw
            · simp only [List.mem_singleton] at hw; subst hw; show 0 < seq; omega
          · cases hs1
        | wIns seq idx =>
          simp only [step] at hs1
          split at hs1
          · split at hs1
            · split at hs1
              · cases hs1
                intro w hw
                obtain ⟨w0, hw0, rfl⟩ := mem_updWriter hw
                have := h _ hw0
                split <;> exact this
              · cases hs1
            · cases hs1
          · cases hs1
        | wFin seq =>
          simp only [step] at hs1
          split at hs1
          · split at hs1
            · cases hs1
              intro w hw
              obtain ⟨w0, hw0, rfl⟩ := mem_updWriter hw
              have := h _ hw0
              split <;> exact this
            · cases hs1
          · cases hs1
        | wLog seq =>
          simp only [step] at hs1
          split at hs1
          · split at hs1
            · cases hs1; exact h
            · cases hs1
          · cases hs1
        | fRotate n o => simp only [step] at hs1; split at hs1 <;> cases hs1; exact h
        | fHead m => simp only [step] at hs1; split at hs1 <;> cases hs1; exact h
        | fInstall o v => simp only [step] at hs1; split at hs1 <;> cases hs1; exact h
        | fClear o => simp only [step] at hs1; split at hs1 <;> cases hs1; exact h
        | tInstall v => simp only [step] at hs1; split at hs1 <;> cases hs1; exact h
        | rTree r v => simp only [step] at hs1; split at hs1 <;> cases hs1; exact h
        | rSnap r t m i =>
          simp only [step] at hs1
          split at hs1
          · split at hs1
            · cases hs1; exact h
            · cases hs1
          · cases hs1
        | wFail seq =>
          simp only [step] at hs1
          split at hs1
          · split at hs1
            · cases hs1; intro w hw; exact h w (List.mem_filter.mp hw).1
            · cases hs1
          · cases hs1
      · cases hr
  intro evs s hr
  exact key evs _ s (by intro w hw; simp [init] at hw) hr

/-- `visible` is at most the timestamp `Blue.Snap.readTs` computes from the numbers in flight -/
theorem visible_le_snap_readTs {c : Bool} {seq0 mem0 : Nat} {evs : List Ev} {s : St}
    (hrun : run (init c seq0 mem0) evs = some s) :
    s.visible ≤ Blue.Snap.readTs s.seqNo (inflight s) := by
  have h := inv_run evs (inv_init c seq0 mem0) hrun
  apply le_snap_readTs _ _ h.vis_le
  intro q hq
  simp only [inflight, List.mem_map, List.mem_filter, Bool.not_eq_true'] at hq
  obtain ⟨w, ⟨hw, hnf⟩, rfl⟩ := hq
  apply Nat.lt_of_not_le
  intro hle
  have := (h.fin_vis w hw).mpr hle
  rw [hnf] at this; cases this

/-- **no entry is numbered in between**: an entry of any table whose number `Blue.Snap.readTs` admits
    is already admitted by `visible` -/
theorem no_entry_between {c : Bool} {seq0 mem0 : Nat} {evs : List Ev} {s : St}
    (hrun : run (init c seq0 mem0) evs = some s) (te : Nat × Entry) (hte : te ∈ s.ents)
    (hle : te.2.seq ≤ Blue.Snap.readTs s.seqNo (inflight s)) : te.2.seq ≤ s.visible := by
  have h := inv_run evs (inv_init c seq0 mem0) hrun
  obtain ⟨w, hw, hseq, _, _⟩ := h.from_batch te hte
  cases hf : w.finished with
  | true => rw [← hseq]; exact (h.fin_vis w hw).mp hf
  | false =>
    exfalso
    have hin : w.seq ∈ inflight s := by
      simp only [inflight, List.mem_map, List.mem_filter, Bool.not_eq_true']
      exact ⟨w, ⟨hw, hf⟩, rfl⟩
    have := Blue.Snap.readTs_lt s.seqNo (inflight s) w.seq hin (writer_seq_pos evs hrun w hw)
    omega

/-- **the two timestamps select the same entries**: over any tables, a snapshot reading at
    `visible` (what the repaired store hands a scan) and one reading at
    `Blue.Snap.readTs seqNo (numbers in flight)` (what C07's model of an overlapping scan uses) have
    the same view, in every reachable state -/
theorem view_visible_eq_view_readTs {c : Bool} {seq0 mem0 : Nat} {evs : List Ev} {s : St}
    (hrun : run (init c seq0 mem0) evs = some s) (tbls : List Nat) (cl : Bool) :
    view s ⟨s.visible, tbls, cl⟩ = view s ⟨Blue.Snap.readTs s.seqNo (inflight s), tbls, cl⟩ := by
  unfold view
  congr 1
  apply List.filter_congr
  intro te hte
  have h1 := visible_le_snap_readTs hrun
  simp only [decide_eq_decide]
  constructor
  · rintro ⟨ht, hl⟩; exact ⟨ht, Nat.le_trans hl h1⟩
  · rintro ⟨ht, hl⟩; exact ⟨ht, no_entry_between hrun te hte hl⟩

/-- … hence the same lookups -/
theorem lookup_visible_eq_lookup_readTs {c : Bool} {seq0 mem0 : Nat} {evs : List Ev} {s : St}
    (hrun : run (init c seq0 mem0) evs = some s) (tbls : List Nat) (cl : Bool) (k : Nat) :
    lookup s ⟨s.visible, tbls, cl⟩ k = lookup s ⟨Blue.Snap.readTs s.seqNo (inflight s), tbls, cl⟩ k := by
  unfold lookup; rw [view_visible_eq_view_readTs hrun]

/-- the numbers themselves differ: a rotation consumes a sequence number that no write carries -/
theorem numbers_differ_after_rotation :
    (run (init true 2 1) [.fRotate 2 1]).map
      (fun s => (s.visible, Blue.Snap.readTs s.seqNo (inflight s))) = some (2, 3) := by decide

end Blue.KvsConc
