import Blue.Proofs.Wcq
import Blue.Proofs.WcqV
import Blue.Proofs.WcqWakeProgress
/-! Two facts about the coalescing-queue models that the headline theorems of `Blue.Proofs.Wcq`,
    `Blue.Proofs.WcqV` and `Blue.Proofs.WcqWakeProgress` use but do not state.

    * the *at least once* half of "the core sees each input exactly once": `log = range m` alone is
      "at most once, in order"; `returned_in_log` adds that the input of every call that has
      returned is among the `m` inputs the core has been given.
    * the `do_work` branch "stolen at head of line" (the model's `.lead` / `.check` step falls
      through there without a panic flag): whenever nobody is working no entry at all is in the
      `stolen` state, in particular not the head (`no_stolen_when_idle`, `stolen_head_unreachable`).
-/
namespace Blue.Wcq
variable (out : Nat → Nat)

/-- **at least once**: a call that has returned had its input given to the core -/
theorem returned_in_log (evs : List Ev) (i : Nat) (e : Ent) (o : Nat)
    (he : (evs.foldl (step out) init).ents[i]? = some e) (hr : e.ret = some o) :
    i < (evs.foldl (step out) init).log.length := by
  obtain ⟨m, cur, h⟩ := inv_run out evs init 0 none (inv_init out)
  have hex := h.ents i e he
  rw [h.log, List.length_range]
  unfold Expect at hex
  by_cases hm : m ≤ i
  · rw [if_pos hm] at hex; rw [hex] at hr; cases hr
  · omega

/-- … so, with `core_sees_inputs_once_in_order`, the log holds that input exactly once -/
theorem returned_input_logged_once (evs : List Ev) (i : Nat) (e : Ent) (o : Nat)
    (he : (evs.foldl (step out) init).ents[i]? = some e) (hr : e.ret = some o) :
    (evs.foldl (step out) init).log.count i = 1 := by
  have hlt := returned_in_log out evs i e o he hr
  obtain ⟨m, hm⟩ := core_sees_inputs_once_in_order out evs
  rw [hm] at hlt ⊢
  rw [List.length_range] at hlt
  rw [List.count_range, if_pos hlt]

/-- while nobody is working no entry is in the `stolen` state — in particular the head of the
    line is not: the `do_work` branch "stolen at head of line" is unreachable -/
theorem no_stolen_when_idle (evs : List Ev) (hd : (evs.foldl (step out) init).doingWork = false)
    (i : Nat) (e : Ent) (he : (evs.foldl (step out) init).ents[i]? = some e) : e.st ≠ .stolen := by
  obtain ⟨m, cur, h⟩ := inv_run out evs init 0 none (inv_init out)
  have hex := h.ents i e he
  have hcur : cur = none := by
    have := h.dw; rw [hd] at this
    cases cur with
    | none => rfl
    | some c => cases this
  subst hcur
  unfold Expect at hex
  by_cases hm : m ≤ i
  · rw [if_pos hm] at hex; rw [hex]; intro hc; cases hc
  · rw [if_neg hm] at hex
    rw [hex.2.1]; intro hc; cases hc

end Blue.Wcq

namespace Blue.WcqV

/-- **at least once** (arbitrary core answers): a call that has returned had its input given to
    the core -/
theorem returned_in_log (evs : List Ev) (i : Nat) (e : Ent) (o : Nat)
    (he : (evs.foldl step init).ents[i]? = some e) (hr : e.ret = some o) :
    i < (evs.foldl step init).log.length := by
  obtain ⟨m, cur, h⟩ := inv_run evs init 0 none inv_init
  have hex := h.ents i e he
  rw [h.log, List.length_range]
  unfold Expect at hex
  by_cases hm : m ≤ i
  · rw [if_pos hm] at hex; rw [hex] at hr; cases hr
  · omega

theorem returned_input_logged_once (evs : List Ev) (i : Nat) (e : Ent) (o : Nat)
    (he : (evs.foldl step init).ents[i]? = some e) (hr : e.ret = some o) :
    (evs.foldl step init).log.count i = 1 := by
  have hlt := returned_in_log evs i e o he hr
  obtain ⟨m, hm⟩ := core_sees_inputs_once_in_order evs
  rw [hm] at hlt ⊢
  rw [List.length_range] at hlt
  rw [List.count_range, if_pos hlt]

/-- while nobody is working no entry is in the `stolen` state -/
theorem no_stolen_when_idle (evs : List Ev) (hd : (evs.foldl step init).doingWork = false)
    (i : Nat) (e : Ent) (he : (evs.foldl step init).ents[i]? = some e) : e.st ≠ .stolen := by
  obtain ⟨m, cur, h⟩ := inv_run evs init 0 none inv_init
  have hex := h.ents i e he
  have hcur : cur = none := by
    have := h.dw; rw [hd] at this
    cases cur with
    | none => rfl
    | some c => cases this
  subst hcur
  unfold Expect at hex
  by_cases hm : m ≤ i
  · rw [if_pos hm] at hex; rw [hex]; intro hc; cases hc
  · rw [if_neg hm] at hex
    obtain ⟨_, v, _, hst, _⟩ := hex
    rw [hst]; intro hc; cases hc

end Blue.WcqV

namespace Blue.WcqWake

/-- the wake-up model: while nobody is working no entry is `stolen`, so the `check` step's branch
    "stolen at head of line" (which the model passes through unchanged) is never taken -/
theorem no_stolen_when_idle (evs : List Ev) (hd : (evs.foldl step init).doingWork = false)
    (i : Nat) (e : Ent) (he : (evs.foldl step init).ents[i]? = some e) : e.st ≠ .stolen := by
  have h := inv_run inv_init evs
  have h2 := inv2_run inv_init inv2_init evs
  intro hs
  obtain ⟨a, k, j, hl, _⟩ := h2.stolen _ _ he hs
  rw [lead_none_of_idle h hd] at hl; cases hl

theorem stolen_head_unreachable (evs : List Ev) (e : Ent)
    (hd : (evs.foldl step init).doingWork = false)
    (he : (evs.foldl step init).ents[headIdx (evs.foldl step init).ents]? = some e) :
    e.st ≠ .stolen := no_stolen_when_idle evs hd _ e he

end Blue.WcqWake
