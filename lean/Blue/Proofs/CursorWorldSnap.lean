import Blue.Model.CursorWorld
import Blue.Proofs.Snap
/-! **C07** the per-cursor CONTENTS invariant of `Blue.CursorWorld`: what a cursor has returned is
    what `Blue.Snap.run` returns from its open-time capture over the tokens fed to it, every write
    token carries a number above the captured timestamp — hence (by `Blue.Snap.run_eq_ref`) a cursor
    opened at any reachable state shows, call by call and whatever the store does meanwhile, the
    reference cursor over the list of OPEN TIME. -/
namespace Blue.CursorWorld
open Blue.Spec Blue.Cursor

variable {F K : Type} [DecidableEq F] [DecidableEq K]

/-- the state of `Blue.Snap` after a script -/
def heldAfter (klt : K → K → Bool) (tomb : Ver K → Bool) (sb eb : Bound K) :
    Snap.Held K → List (Snap.Tok K) → Snap.Held K :=
  List.foldl (fun h t => (Snap.step klt tomb sb eb h t).1)

theorem heldAfter_snoc (klt : K → K → Bool) (tomb : Ver K → Bool) (sb eb : Bound K)
    (h : Snap.Held K) (toks : List (Snap.Tok K)) (t : Snap.Tok K) :
    heldAfter klt tomb sb eb h (toks ++ [t])
      = (Snap.step klt tomb sb eb (heldAfter klt tomb sb eb h toks) t).1 := by
  unfold heldAfter
  rw [List.foldl_append]
  rfl

/-- `Blue.Snap.run` one token further -/
theorem snapRun_snoc (klt : K → K → Bool) (tomb : Ver K → Bool) (sb eb : Bound K) (t : Snap.Tok K) :
    ∀ (toks : List (Snap.Tok K)) (h : Snap.Held K),
      Snap.run klt tomb sb eb h (toks ++ [t])
        = Snap.run klt tomb sb eb h toks
            ++ ((Snap.step klt tomb sb eb (heldAfter klt tomb sb eb h toks) t).2).toList
  | [], h => by
    show Snap.run klt tomb sb eb h [t] = [] ++ ((Snap.step klt tomb sb eb h t).2).toList
    unfold Snap.run
    cases hst : Snap.step klt tomb sb eb h t with
    | mk h' o =>
      cases o with
      | none => simp [Snap.run]
      | some o => simp [Snap.run]
  | t0 :: toks, h => by
    have hh : heldAfter klt tomb sb eb h (t0 :: toks)
        = heldAfter klt tomb sb eb (Snap.step klt tomb sb eb h t0).1 toks := rfl
    rw [hh]
    show Snap.run klt tomb sb eb h (t0 :: (toks ++ [t])) = _
    unfold Snap.run
    cases hst : Snap.step klt tomb sb eb h t0 with
    | mk h' o =>
      have ih := snapRun_snoc klt tomb sb eb t toks h'
      cases o with
      | none => simp only []; exact ih
      | some o => simp only []; rw [ih]; rfl

structure CurOk (klt : K → K → Bool) (tomb : Ver K → Bool) (seq : Nat) (c : Cur K) : Prop where
  ts_le : c.snap0.ts ≤ seq
  pos0 : c.snap0.pos = 0
  outs_eq : c.outs = Snap.run klt tomb c.sb c.eb c.snap0 c.toks
  snap_eq : c.snap = heldAfter klt tomb c.sb c.eb c.snap0 c.toks
  late : ∀ es, Snap.Tok.write es ∈ c.toks ∨ Snap.Tok.writeImm es ∈ c.toks → ∀ e ∈ es, c.snap0.ts < e.2

def SnapInv (klt : K → K → Bool) (tomb : Ver K → Bool) (s : St F K) : Prop :=
  ∀ c ∈ s.cursors, CurOk klt tomb s.seq c

variable {klt : K → K → Bool} {tomb : Ver K → Bool}

/-- one more token, the sequence number not lower, a write token above the captured timestamp -/
theorem curOk_feed {seq seq' : Nat} {c : Cur K} (h : CurOk klt tomb seq c) (hle : seq ≤ seq')
    (tok : Snap.Tok K)
    (hl : ∀ es, tok = Snap.Tok.write es ∨ tok = Snap.Tok.writeImm es → ∀ e ∈ es, c.snap0.ts < e.2) :
    CurOk klt tomb seq' (feed klt tomb c tok) where
  ts_le := Nat.le_trans h.ts_le hle
  pos0 := h.pos0
  outs_eq := by
    show c.outs ++ ((Snap.step klt tomb c.sb c.eb c.snap tok).2).toList
      = Snap.run klt tomb c.sb c.eb c.snap0 (c.toks ++ [tok])
    rw [snapRun_snoc, ← h.snap_eq, ← h.outs_eq]
  snap_eq := by
    show (Snap.step klt tomb c.sb c.eb c.snap tok).1
      = heldAfter klt tomb c.sb c.eb c.snap0 (c.toks ++ [tok])
    rw [heldAfter_snoc, ← h.snap_eq]
  late := by
    intro es hm
    show ∀ e ∈ es, c.snap0.ts < e.2
    have hm' : Snap.Tok.write es ∈ c.toks ++ [tok] ∨ Snap.Tok.writeImm es ∈ c.toks ++ [tok] := hm
    simp only [List.mem_append, List.mem_singleton] at hm'
    rcases hm' with (h1 | h1) | (h1 | h1)
    · exact h.late es (Or.inl h1)
    · exact hl es (Or.inl h1.symm)
    · exact h.late es (Or.inr h1)
    · exact hl es (Or.inr h1.symm)

theorem curOk_mono {seq seq' : Nat} {c : Cur K} (h : CurOk klt tomb seq c) (hle : seq ≤ seq') :
    CurOk klt tomb seq' c :=
  ⟨Nat.le_trans h.ts_le hle, h.pos0, h.outs_eq, h.snap_eq, h.late⟩

/-- what an enabled event does to the sequence number and to the cursors -/
def Shape (klt : K → K → Bool) (tomb : Ver K → Bool) (s s' : St F K) : Ev F K → Prop
  | .write k => s'.seq = s.seq + 1 ∧
      s'.cursors = s.cursors.map fun c =>
        feed klt tomb c (if c.memT = s.tables.length - 1 then .write [(k, s.seq + 1)] else .other)
  | .openCursor sb eb => s'.seq = s.seq ∧ ∃ m hs v,
      s'.cursors = s.cursors ++ [⟨m, hs, v, sb, eb, capture s, true, capture s, [], []⟩]
  | .stepCursor i o => s'.seq = s.seq ∧ ∃ c, s.cursors[i]? = some c ∧
      s'.cursors = s.cursors.set i (feed klt tomb c (.op o))
  | .dropCursor i => s'.seq = s.seq ∧ ∃ c, s.cursors[i]? = some c ∧
      s'.cursors = s.cursors.set i { c with live := false }
  | _ => s'.seq = s.seq ∧ s'.cursors = s.cursors

theorem step_shape {s s' : St F K} (e : Ev F K) (hs : step klt tomb s e = some s') :
    Shape klt tomb s s' e := by
  cases e with
  | write k =>
    simp only [step] at hs
    rcases Option.map_eq_some_iff.mp hs with ⟨ts, _, rfl⟩
    exact ⟨rfl, rfl⟩
  | rollover =>
    simp only [step] at hs
    split at hs
    · cases hs
    · cases hs; exact ⟨rfl, rfl⟩
  | flush f =>
    simp only [step] at hs
    split at hs
    · cases hs
    · rcases Option.map_eq_some_iff.mp hs with ⟨ts, _, rfl⟩
      exact ⟨rfl, rfl⟩
  | compactInstall files data =>
    simp only [step] at hs
    cases hs; exact ⟨rfl, rfl⟩
  | verifierPass =>
    simp only [step] at hs
    cases hs; exact ⟨rfl, rfl⟩
  | openCursor sb eb =>
    simp only [step] at hs
    rcases Option.map_eq_some_iff.mp hs with ⟨r, _, rfl⟩
    exact ⟨rfl, _, _, _, rfl⟩
  | stepCursor i o =>
    simp only [step] at hs
    split at hs
    · cases hs
    · rename_i c hc
      split at hs
      · rcases Option.map_eq_some_iff.mp hs with ⟨ts, _, rfl⟩
        exact ⟨rfl, c, hc, rfl⟩
      · cases hs
  | dropCursor i =>
    simp only [step] at hs
    split at hs
    · cases hs
    · rename_i c hc
      split at hs
      · rcases Option.map_eq_some_iff.mp hs with ⟨ts, _, rfl⟩
        exact ⟨rfl, c, hc, rfl⟩
      · cases hs

theorem snapInv_init (files : List F) (data : List (F × List (Ver K))) :
    SnapInv klt tomb (init files data : St F K) := by
  intro c hc
  cases hc

omit [DecidableEq K] in
theorem capture_ts (s : St F K) : (capture s).ts = s.seq := rfl
omit [DecidableEq K] in
theorem capture_pos (s : St F K) : (capture s).pos = 0 := rfl

theorem snapInv_step {s s' : St F K} (h : SnapInv klt tomb s) (e : Ev F K)
    (hs : step klt tomb s e = some s') : SnapInv klt tomb s' := by
  have sh := step_shape e hs
  intro c' hc'
  cases e with
  | write k =>
    obtain ⟨hseq, hcur⟩ := sh
    rw [hcur] at hc'
    rcases List.mem_map.mp hc' with ⟨c, hc, rfl⟩
    have hok := h c hc
    rw [hseq]
    refine curOk_feed hok (Nat.le_succ _) _ ?_
    intro es htok e he
    split at htok
    · rcases htok with htok | htok
      · cases htok
        rcases List.mem_singleton.mp he with rfl
        show c.snap0.ts < s.seq + 1
        exact Nat.lt_succ_of_le hok.ts_le
      · cases htok
    · rcases htok with htok | htok <;> cases htok
  | openCursor sb eb =>
    obtain ⟨hseq, m, hh, v, hcur⟩ := sh
    rw [hcur] at hc'
    rw [hseq]
    rcases List.mem_append.mp hc' with hc | hc
    · exact h c' hc
    · rcases List.mem_singleton.mp hc with rfl
      refine ⟨Nat.le_refl _, rfl, rfl, rfl, ?_⟩
      intro es hm
      rcases hm with hm | hm <;> cases hm
  | stepCursor i o =>
    obtain ⟨hseq, c, hc, hcur⟩ := sh
    rw [hcur] at hc'
    rw [hseq]
    rcases List.mem_or_eq_of_mem_set hc' with hm | rfl
    · exact h c' hm
    · refine curOk_feed (h c (List.mem_of_getElem? hc)) (Nat.le_refl _) _ ?_
      intro es htok
      rcases htok with htok | htok <;> cases htok
  | dropCursor i =>
    obtain ⟨hseq, c, hc, hcur⟩ := sh
    rw [hcur] at hc'
    rw [hseq]
    rcases List.mem_or_eq_of_mem_set hc' with hm | rfl
    · exact h c' hm
    · have hok := h c (List.mem_of_getElem? hc)
      exact ⟨hok.ts_le, hok.pos0, hok.outs_eq, hok.snap_eq, hok.late⟩
  | rollover => obtain ⟨hseq, hcur⟩ := sh; rw [hcur] at hc'; rw [hseq]; exact h c' hc'
  | flush f => obtain ⟨hseq, hcur⟩ := sh; rw [hcur] at hc'; rw [hseq]; exact h c' hc'
  | compactInstall files data => obtain ⟨hseq, hcur⟩ := sh; rw [hcur] at hc'; rw [hseq]; exact h c' hc'
  | verifierPass => obtain ⟨hseq, hcur⟩ := sh; rw [hcur] at hc'; rw [hseq]; exact h c' hc'

theorem snapInv_run : ∀ (evs : List (Ev F K)) {s s' : St F K}, SnapInv klt tomb s →
    run klt tomb s evs = some s' → SnapInv klt tomb s'
  | [], s, s', h, hr => by
    simp only [run] at hr
    cases hr; exact h
  | e :: es, s, s', h, hr => by
    simp only [run] at hr
    split at hr
    · rename_i s1 hs1
      exact snapInv_run es (snapInv_step h e hs1) hr
    · cases hr

/-- the call made on cursor `i` by one event -/
def callOf (i : Nat) : Ev F K → List (Op (Ver K))
  | .stepCursor j o => if j = i then [o] else []
  | _ => []

/-- the calls made on cursor `i` in an event list -/
def callsOf (i : Nat) : List (Ev F K) → List (Op (Ver K))
  | [] => []
  | e :: es => callOf i e ++ callsOf i es

omit [DecidableEq K] in
theorem opsOf_snoc (t : Snap.Tok K) : ∀ toks : List (Snap.Tok K),
    Snap.opsOf (toks ++ [t]) = Snap.opsOf toks ++ Snap.opsOf [t]
  | [] => rfl
  | .op o :: rest => by
    show o :: Snap.opsOf (rest ++ [t]) = o :: Snap.opsOf rest ++ _
    rw [opsOf_snoc t rest]; rfl
  | .write es :: rest => opsOf_snoc t rest
  | .writeImm es :: rest => opsOf_snoc t rest
  | .other :: rest => opsOf_snoc t rest

theorem step_calls {s s' : St F K} (e : Ev F K) (i : Nat) (c : Cur K)
    (hs : step klt tomb s e = some s') (hc : s.cursors[i]? = some c) :
    ∃ c', s'.cursors[i]? = some c' ∧ c'.snap0 = c.snap0 ∧ c'.sb = c.sb ∧ c'.eb = c.eb ∧
      c'.hs = c.hs ∧ c'.ver = c.ver ∧ Snap.opsOf c'.toks = Snap.opsOf c.toks ++ callOf i e := by
  have sh := step_shape e hs
  have hlt : i < s.cursors.length := (List.getElem?_eq_some_iff.mp hc).1
  cases e with
  | write k =>
    obtain ⟨_, hcur⟩ := sh
    refine ⟨feed klt tomb c (if c.memT = s.tables.length - 1 then .write [(k, s.seq + 1)] else .other),
      by rw [hcur, List.getElem?_map, hc]; rfl, rfl, rfl, rfl, rfl, rfl, ?_⟩
    show Snap.opsOf (c.toks ++ [_]) = _
    rw [opsOf_snoc]
    split <;> rfl
  | openCursor sb eb =>
    obtain ⟨_, m, hh, v, hcur⟩ := sh
    refine ⟨c, by rw [hcur, List.getElem?_append_left hlt, hc], rfl, rfl, rfl, rfl, rfl, ?_⟩
    simp [callOf]
  | stepCursor j o =>
    obtain ⟨_, cj, hcj, hcur⟩ := sh
    by_cases hji : j = i
    · subst hji
      rw [hc] at hcj
      cases hcj
      refine ⟨feed klt tomb c (.op o), by rw [hcur, List.getElem?_set_self hlt], rfl, rfl, rfl, rfl, rfl, ?_⟩
      show Snap.opsOf (c.toks ++ [_]) = _
      rw [opsOf_snoc]
      simp [callOf, Snap.opsOf]
    · refine ⟨c, by rw [hcur, List.getElem?_set_ne hji, hc], rfl, rfl, rfl, rfl, rfl, ?_⟩
      simp [callOf, hji]
  | dropCursor j =>
    obtain ⟨_, cj, hcj, hcur⟩ := sh
    by_cases hji : j = i
    · subst hji
      rw [hc] at hcj
      cases hcj
      refine ⟨{ c with live := false }, by rw [hcur, List.getElem?_set_self hlt], rfl, rfl, rfl, rfl, rfl, ?_⟩
      simp [callOf]
    · refine ⟨c, by rw [hcur, List.getElem?_set_ne hji, hc], rfl, rfl, rfl, rfl, rfl, ?_⟩
      simp [callOf]
  | rollover => exact ⟨c, by rw [sh.2, hc], rfl, rfl, rfl, rfl, rfl, by simp [callOf]⟩
  | flush f => exact ⟨c, by rw [sh.2, hc], rfl, rfl, rfl, rfl, rfl, by simp [callOf]⟩
  | compactInstall files data => exact ⟨c, by rw [sh.2, hc], rfl, rfl, rfl, rfl, rfl, by simp [callOf]⟩
  | verifierPass => exact ⟨c, by rw [sh.2, hc], rfl, rfl, rfl, rfl, rfl, by simp [callOf]⟩

/-- every event keeps cursor `i` in place, keeps what it captured, and extends its script by the
    calls made on it -/
theorem run_calls : ∀ (evs : List (Ev F K)) {s s' : St F K} (i : Nat) (c : Cur K),
    run klt tomb s evs = some s' → s.cursors[i]? = some c →
    ∃ c', s'.cursors[i]? = some c' ∧ c'.snap0 = c.snap0 ∧ c'.sb = c.sb ∧ c'.eb = c.eb ∧
      c'.hs = c.hs ∧ c'.ver = c.ver ∧ Snap.opsOf c'.toks = Snap.opsOf c.toks ++ callsOf i evs
  | [], s, s', i, c, hr, hc => by
    simp only [run] at hr
    cases hr
    exact ⟨c, hc, rfl, rfl, rfl, rfl, rfl, by simp [callsOf]⟩
  | e :: es, s, s', i, c, hr, hc => by
    simp only [run] at hr
    split at hr
    · rename_i s1 hs1
      obtain ⟨c1, hc1, a1, a2, a3, a4, a5, a6⟩ := step_calls e i c hs1 hc
      obtain ⟨c2, hc2, b1, b2, b3, b4, b5, b6⟩ := run_calls es i c1 hr hc1
      refine ⟨c2, hc2, b1.trans a1, b2.trans a2, b3.trans a3, b4.trans a4, b5.trans a5, ?_⟩
      rw [b6, a6, List.append_assoc]; rfl
    · cases hr

/-- **(3)** a cursor opened after any run `evs1` and then subjected to ANY interleaving `evs2` of
    store events and cursor steps returns, call by call, what the reference cursor over the list of
    OPEN TIME returns -/
theorem cursor_shows_open_time_contents {klt : K → K → Bool} (st : StrictTotal klt) (tomb : Ver K → Bool)
    (files : List F) (data : List (F × List (Ver K))) (evs1 evs2 : List (Ev F K)) (sb eb : Bound K)
    {s1 s2 s3 : St F K}
    (h1 : run klt tomb (init files data) evs1 = some s1)
    (h2 : step klt tomb s1 (.openCursor sb eb) = some s2)
    (h3 : run klt tomb s2 evs2 = some s3) :
    ∃ c, s3.cursors[s1.cursors.length]? = some c ∧
      c.outs = Ref.run ⟨Snap.view klt tomb sb eb (capture s1), 0⟩ (callsOf s1.cursors.length evs2) := by
  have inv1 : SnapInv klt tomb s1 := snapInv_run evs1 (snapInv_init files data) h1
  have inv2 : SnapInv klt tomb s2 := snapInv_step inv1 _ h2
  have inv3 : SnapInv klt tomb s3 := snapInv_run evs2 inv2 h3
  obtain ⟨_, m, hh, v, hcur⟩ := step_shape _ h2
  have hc0 : s2.cursors[s1.cursors.length]?
      = some ⟨m, hh, v, sb, eb, capture s1, true, capture s1, [], []⟩ := by
    rw [hcur]; exact List.getElem?_concat_length
  obtain ⟨c, hc, e1, e2, e3, _, _, e6⟩ := run_calls evs2 _ _ h3 hc0
  refine ⟨c, hc, ?_⟩
  have hok := inv3 c (List.mem_of_getElem? hc)
  have hr := Snap.run_eq_ref st tomb c.sb c.eb c.toks c.snap0
    (Snap.lateWritesAbove_of_forall _ _ hok.late)
  rw [hok.outs_eq, hr, e6, e1, e2, e3]
  rfl

end Blue.CursorWorld

#print axioms Blue.CursorWorld.snapInv_init
#print axioms Blue.CursorWorld.snapInv_step
#print axioms Blue.CursorWorld.snapInv_run
#print axioms Blue.CursorWorld.run_calls
#print axioms Blue.CursorWorld.cursor_shows_open_time_contents
