import Blue.Model.BvSparse
/-! List facts used by the sparse bit vector proofs: strictly increasing lists, counting below a
    bound, the position of a bound among dividers, indexing into equal-sized pieces, and the
    specifications of `binary_search_by` and of `select`'s repeated subtraction. -/
namespace Blue.BvSparse

/-! ### strictly increasing lists -/

theorem strictlyIncreasing_cons2 (a b : Nat) (rest : List Nat) :
    strictlyIncreasing (a :: b :: rest) = (decide (a < b) && strictlyIncreasing (b :: rest)) := rfl

theorem strictlyIncreasing_iff : ∀ (l : List Nat), strictlyIncreasing l = true ↔ l.Pairwise (· < ·)
  | [] => by simp [strictlyIncreasing]
  | [a] => by simp [strictlyIncreasing]
  | a :: b :: rest => by
    have ih := strictlyIncreasing_iff (b :: rest)
    rw [strictlyIncreasing_cons2, Bool.and_eq_true, decide_eq_true_eq, ih, List.pairwise_cons (a := a)]
    constructor
    · intro ⟨hab, hp⟩
      refine ⟨?_, hp⟩
      intro c hc
      rcases List.mem_cons.mp hc with rfl | hc
      · exact hab
      · have := (List.pairwise_cons.mp hp).1 c hc
        omega
    · intro ⟨h1, hp⟩
      exact ⟨h1 b List.mem_cons_self, hp⟩

abbrev Sorted (l : List Nat) : Prop := l.Pairwise (· < ·)

theorem getLastD_mem {C : List Nat} (h : C ≠ []) (d : Nat) : C.getLastD d ∈ C := by
  cases C with
  | nil => exact absurd rfl h
  | cons a t =>
    rw [List.getLastD_cons]
    exact List.getLastD_mem_cons

theorem le_getLastD : ∀ (C : List Nat) (d c : Nat), Sorted C → c ∈ C → c ≤ C.getLastD d
  | [], _, _, _, h => by cases h
  | a :: t, d, c, hs, h => by
    rw [List.getLastD_cons]
    have hs' := List.pairwise_cons.mp hs
    rcases List.mem_cons.mp h with rfl | h
    · rcases List.mem_cons.mp (List.getLastD_mem_cons (l := t) (a := c)) with h1 | h1
      · omega
      · have := hs'.1 _ h1
        omega
    · exact le_getLastD t a c hs'.2 h

theorem getLastD_append_of_ne_nil (A B : List Nat) (d : Nat) (h : B ≠ []) :
    (A ++ B).getLastD d = B.getLastD d := by
  rw [List.getLastD_eq_getLast?, List.getLastD_eq_getLast?, List.getLast?_append]
  cases hb : B.getLast? with
  | none => exact absurd (List.getLast?_eq_none_iff.mp hb) h
  | some v => rfl

/-! ### counting below a bound -/

theorem countP_lt_of_all_lt (l : List Nat) (x : Nat) (h : ∀ c ∈ l, c < x) :
    l.countP (fun c => decide (c < x)) = l.length := by
  rw [List.countP_eq_length]
  intro a ha
  simpa using h a ha

theorem countP_lt_of_all_ge (l : List Nat) (x : Nat) (h : ∀ c ∈ l, x ≤ c) :
    l.countP (fun c => decide (c < x)) = 0 := by
  rw [List.countP_eq_zero]
  intro a ha
  have := h a ha
  simp only [decide_eq_true_eq]
  omega

/-- in a strictly increasing list exactly the first `k` elements are below `x` when the `k`-th is
    not and its predecessors are -/
theorem countP_lt_split (l : List Nat) (x k : Nat) (hs : Sorted l) (hk : k ≤ l.length)
    (hlt : ∀ i c, i < k → l[i]? = some c → c < x) (hge : ∀ c, l[k]? = some c → x ≤ c) :
    l.countP (fun c => decide (c < x)) = k := by
  induction l generalizing k with
  | nil => simp at hk; subst hk; rfl
  | cons a t ih =>
    have hs' := List.pairwise_cons.mp hs
    cases k with
    | zero =>
      have ha : x ≤ a := hge a rfl
      apply countP_lt_of_all_ge
      intro c hc
      rcases List.mem_cons.mp hc with rfl | hc
      · exact ha
      · have := hs'.1 c hc
        omega
    | succ k =>
      have ha : a < x := hlt 0 a (by omega) rfl
      rw [List.countP_cons_of_pos (by simpa using ha)]
      rw [ih k hs'.2 (by simp at hk; omega) (fun i c hi hc => hlt (i + 1) c (by omega) (by simpa using hc))
        (fun c hc => hge c (by simpa using hc))]

/-! ### the position of `x` among dividers -/

/-- `j` dividers are below `x` and the next one (if any) is not -/
def IsPos (D : List Nat) (x j : Nat) : Prop :=
  j ≤ D.length ∧ (∀ i d, i < j → D[i]? = some d → d < x) ∧ (∀ d, D[j]? = some d → x ≤ d)

theorem isPos_nil {x j : Nat} (h : IsPos [] x j) : j = 0 := by
  have := h.1
  simp at this
  exact this

theorem isPos_zero_cons {d0 : Nat} {D : List Nat} {x : Nat} (h : IsPos (d0 :: D) x 0) : x ≤ d0 :=
  h.2.2 d0 rfl

theorem isPos_succ_cons {d0 : Nat} {D : List Nat} {x j : Nat} (h : IsPos (d0 :: D) x (j + 1)) :
    d0 < x ∧ IsPos D x j := by
  obtain ⟨h1, h2, h3⟩ := h
  refine ⟨h2 0 d0 (by omega) rfl, ?_, ?_, ?_⟩
  · simp at h1; omega
  · intro i d hi hd
    exact h2 (i + 1) d (by omega) (by simpa using hd)
  · intro d hd
    exact h3 d (by simpa using hd)

theorem isPos_count {D : List Nat} {x j : Nat} (hs : Sorted D) (h : IsPos D x j) :
    D.countP (fun c => decide (c < x)) = j :=
  countP_lt_split D x j hs h.1 h.2.1 h.2.2

/-! ### pieces -/

/-- the last element of every piece but the last: the dividers of a group of children -/
def dividersOf : List (List Nat) → List Nat
  | [] => []
  | [_] => []
  | C :: C' :: Cs => C.getLastD 0 :: dividersOf (C' :: Cs)

theorem dividersOf_cons2 (C C' : List Nat) (Cs : List (List Nat)) :
    dividersOf (C :: C' :: Cs) = C.getLastD 0 :: dividersOf (C' :: Cs) := rfl

theorem dividersOf_length : ∀ (Cs : List (List Nat)), (dividersOf Cs).length = Cs.length - 1
  | [] => rfl
  | [_] => rfl
  | C :: C' :: Cs => by
    rw [dividersOf_cons2, List.length_cons, dividersOf_length (C' :: Cs)]
    simp

/-- every piece is non-empty and every piece but the last has exactly `s` elements -/
def FullButLast (s : Nat) : List (List Nat) → Prop
  | [] => True
  | C :: Cs => C ≠ [] ∧ (Cs ≠ [] → C.length = s) ∧ FullButLast s Cs

theorem fullButLast_cons {s : Nat} {C : List Nat} {Cs : List (List Nat)} :
    FullButLast s (C :: Cs) ↔ (C ≠ [] ∧ (Cs ≠ [] → C.length = s) ∧ FullButLast s Cs) := Iff.rfl

theorem sorted_of_getElem?_flatten (Cs : List (List Nat)) (j : Nat) (C : List Nat) (hs : Sorted Cs.flatten)
    (hC : Cs[j]? = some C) : Sorted C :=
  (List.pairwise_flatten.mp hs).1 C (List.mem_of_getElem? hC)

theorem dividersOf_mem (s : Nat) : ∀ (Cs : List (List Nat)), FullButLast s Cs → ∀ d ∈ dividersOf Cs, d ∈ Cs.flatten
  | [], _, _, hd => by cases hd
  | [_], _, _, hd => by cases hd
  | C :: C' :: Cs, hfull, d, hd => by
    obtain ⟨hne, _, hfullR⟩ := fullButLast_cons.mp hfull
    rw [dividersOf_cons2] at hd
    rw [List.flatten_cons, List.mem_append]
    rcases List.mem_cons.mp hd with rfl | hd
    · exact Or.inl (getLastD_mem hne 0)
    · exact Or.inr (dividersOf_mem s (C' :: Cs) hfullR d hd)

/-- the dividers of a strictly increasing list cut into non-empty pieces are strictly increasing -/
theorem dividersOf_sorted {s : Nat} : ∀ (Cs : List (List Nat)), Sorted Cs.flatten → FullButLast s Cs →
    Sorted (dividersOf Cs)
  | [], _, _ => List.Pairwise.nil
  | [_], _, _ => List.Pairwise.nil
  | C :: C' :: Cs, hs, hfull => by
    obtain ⟨hne, _, hfullR⟩ := fullButLast_cons.mp hfull
    rw [List.flatten_cons] at hs
    obtain ⟨_, hsR, hcross⟩ := List.pairwise_append.mp hs
    rw [dividersOf_cons2]
    apply List.pairwise_cons.mpr
    refine ⟨?_, dividersOf_sorted (C' :: Cs) hsR hfullR⟩
    intro d hd
    exact hcross _ (getLastD_mem hne 0) d (dividersOf_mem s (C' :: Cs) hfullR d hd)

/-- where `x` falls in a strictly increasing list cut into pieces, given its position among the
    dividers -/
theorem count_flatten (s x : Nat) : ∀ (Cs : List (List Nat)) (j : Nat), Cs ≠ [] →
    Sorted Cs.flatten → FullButLast s Cs → IsPos (dividersOf Cs) x j →
    ∃ C, Cs[j]? = some C
      ∧ Cs.flatten.countP (fun c => decide (c < x)) = j * s + C.countP (fun c => decide (c < x))
      ∧ (x ∈ Cs.flatten ↔ x ∈ C)
  | [], _, h, _, _, _ => absurd rfl h
  | [C0], j, _, _, _, hpos => by
    have hj : j = 0 := isPos_nil hpos
    subst hj
    exact ⟨C0, rfl, by simp, by simp⟩
  | C0 :: C1 :: rest, j, _, hs, hfull, hpos => by
    rw [dividersOf_cons2] at hpos
    rw [List.flatten_cons] at hs ⊢
    obtain ⟨hs0, hsR, hcross⟩ := List.pairwise_append.mp hs
    obtain ⟨hne0, hlen0, hfullR⟩ := fullButLast_cons.mp hfull
    have hlast0 : C0.getLastD 0 ∈ C0 := getLastD_mem hne0 0
    cases j with
    | zero =>
      have hx : x ≤ C0.getLastD 0 := isPos_zero_cons hpos
      have hR : ∀ c ∈ (C1 :: rest).flatten, x ≤ c ∧ x ≠ c := by
        intro c hc
        have := hcross _ hlast0 c hc
        omega
      refine ⟨C0, rfl, ?_, ?_⟩
      · rw [List.countP_append, countP_lt_of_all_ge _ x (fun c hc => (hR c hc).1)]
        omega
      · rw [List.mem_append]
        constructor
        · intro h
          rcases h with h | h
          · exact h
          · exact absurd rfl (hR x h).2
        · intro h; exact Or.inl h
    | succ j =>
      obtain ⟨hx, hpos'⟩ := isPos_succ_cons hpos
      have h0 : ∀ c ∈ C0, c < x := by
        intro c hc
        have := le_getLastD C0 0 c hs0 hc
        omega
      obtain ⟨C, hC, hcount, hmem⟩ := count_flatten s x (C1 :: rest) j (by simp) hsR hfullR hpos'
      refine ⟨C, by simpa using hC, ?_, ?_⟩
      · rw [List.countP_append, countP_lt_of_all_lt _ x h0, hcount, hlen0 (by simp), Nat.succ_mul]
        omega
      · rw [List.mem_append, ← hmem]
        constructor
        · intro h
          rcases h with h | h
          · have := h0 x h; omega
          · exact h
        · intro h; exact Or.inr h

/-- indexing into a list cut into pieces of `s` (the last possibly shorter) -/
theorem flatten_getElem? (s : Nat) : ∀ (Cs : List (List Nat)) (idx r : Nat), FullButLast s Cs →
    (∀ C ∈ Cs, C.length ≤ s) → r < s →
    Cs.flatten[idx * s + r]? = (Cs[idx]?).bind (fun C => C[r]?)
  | [], _, _, _, _, _ => by simp
  | C0 :: rest, idx, r, hfull, hle, hr => by
    obtain ⟨_, hlen0, hfullR⟩ := fullButLast_cons.mp hfull
    have hle0 : C0.length ≤ s := hle C0 List.mem_cons_self
    rw [List.flatten_cons]
    cases idx with
    | zero =>
      rw [Nat.zero_mul, Nat.zero_add]
      simp only [List.getElem?_cons_zero, Option.bind_some]
      by_cases h : r < C0.length
      · rw [List.getElem?_append_left h]
      · have hnil : rest = [] := by
          apply Classical.byContradiction
          intro hne
          have := hlen0 hne
          omega
        subst hnil
        simp
    | succ i =>
      simp only [List.getElem?_cons_succ]
      by_cases hnil : rest = []
      · subst hnil
        have : C0.length ≤ (i + 1) * s + r := by
          rw [Nat.succ_mul]; omega
        simp
        omega
      · have hl := hlen0 hnil
        have hge : C0.length ≤ (i + 1) * s + r := by rw [Nat.succ_mul]; omega
        rw [List.getElem?_append_right hge]
        have : (i + 1) * s + r - C0.length = i * s + r := by rw [Nat.succ_mul]; omega
        rw [this]
        exact flatten_getElem? s rest i r hfullR (fun C hC => hle C (List.mem_cons_of_mem _ hC)) hr

theorem flatten_length_le (s : Nat) : ∀ (Cs : List (List Nat)), (∀ C ∈ Cs, C.length ≤ s) →
    Cs.flatten.length ≤ Cs.length * s
  | [], _ => by simp
  | C :: Cs, h => by
    have := flatten_length_le s Cs (fun C hC => h C (List.mem_cons_of_mem _ hC))
    have := h C List.mem_cons_self
    rw [List.flatten_cons, List.length_append, List.length_cons, Nat.succ_mul]
    omega

theorem flatten_length_full (s : Nat) : ∀ (Cs : List (List Nat)), (∀ C ∈ Cs, C.length = s) →
    Cs.flatten.length = Cs.length * s
  | [], _ => by simp
  | C :: Cs, h => by
    have := flatten_length_full s Cs (fun C hC => h C (List.mem_cons_of_mem _ hC))
    have := h C List.mem_cons_self
    rw [List.flatten_cons, List.length_append, List.length_cons, Nat.succ_mul]
    omega

/-! ### `binary_search_by` -/

theorem binarySearchBy_zero (search : Nat → Ordering) (l r : Nat) :
    binarySearchBy search 0 l r = l := rfl

theorem binarySearchBy_succ (search : Nat → Ordering) (f l r : Nat) :
    binarySearchBy search (f + 1) l r =
      if l < r then
        match search (l + (r - l) / 2) with
        | .lt => binarySearchBy search f (l + (r - l) / 2 + 1) r
        | .gt => binarySearchBy search f l (l + (r - l) / 2)
        | .eq => l + (r - l) / 2
      else l := rfl

/-- when `Less` holds on a prefix of the range and an `Equal` probe has only `Less` before it, the
    search returns the first index that is not `Less` -/
theorem binarySearchBy_spec (search : Nat → Ordering) :
    ∀ (fuel l r : Nat), l ≤ r → r - l < fuel →
      (∀ i j, l ≤ i → i ≤ j → j < r → search j = .lt → search i = .lt) →
      (∀ i j, l ≤ i → i < j → j < r → search j = .eq → search i = .lt) →
      l ≤ binarySearchBy search fuel l r ∧ binarySearchBy search fuel l r ≤ r
      ∧ (∀ i, l ≤ i → i < binarySearchBy search fuel l r → search i = .lt)
      ∧ (∀ i, binarySearchBy search fuel l r ≤ i → i < r → search i ≠ .lt) := by
  intro fuel
  induction fuel with
  | zero => intro l r _ h; omega
  | succ f ih =>
    intro l r hlr hf hmono heq
    rw [binarySearchBy_succ]
    by_cases hlt : l < r
    · rw [if_pos hlt]
      have hmid1 : l ≤ l + (r - l) / 2 := by omega
      have hmid2 : l + (r - l) / 2 < r := by omega
      generalize hm : l + (r - l) / 2 = mid at *
      have hnotlt_after : search mid ≠ .lt → ∀ i, mid ≤ i → i < r → search i ≠ .lt := by
        intro hne i h1 h2 hi
        exact hne (hmono mid i hmid1 h1 h2 hi)
      cases hp : search mid with
      | lt =>
        simp only
        obtain ⟨h1, h2, h3, h4⟩ := ih (mid + 1) r (by omega) (by omega)
          (fun i j hi hij hj => hmono i j (by omega) hij hj)
          (fun i j hi hij hj => heq i j (by omega) hij hj)
        refine ⟨by omega, h2, ?_, h4⟩
        intro i hi1 hi2
        by_cases hi : i ≤ mid
        · exact hmono i mid hi1 hi hmid2 hp
        · exact h3 i (by omega) hi2
      | gt =>
        simp only
        obtain ⟨h1, h2, h3, h4⟩ := ih l mid hmid1 (by omega)
          (fun i j hi hij hj => hmono i j hi hij (by omega))
          (fun i j hi hij hj => heq i j hi hij (by omega))
        refine ⟨h1, by omega, h3, ?_⟩
        intro i hi1 hi2
        by_cases hi : i < mid
        · exact h4 i hi1 hi
        · exact hnotlt_after (by rw [hp]; intro h; cases h) i (by omega) hi2
      | eq =>
        simp only
        refine ⟨hmid1, by omega, ?_, ?_⟩
        · intro i h1 h2
          exact heq i mid h1 h2 hmid2 hp
        · exact hnotlt_after (by rw [hp]; intro h; cases h)
    · rw [if_neg hlt]
      refine ⟨Nat.le_refl _, hlr, ?_, ?_⟩
      · intro i h1 h2; omega
      · intro i h1 h2; omega

/-! ### `select`'s repeated subtraction -/

theorem subLoop_zero (skip index x : Nat) : subLoop skip 0 index x = (index, x) := rfl

theorem subLoop_succ (skip f index x : Nat) :
    subLoop skip (f + 1) index x = if x ≥ skip then subLoop skip f (index + 1) (x - skip) else (index, x) := rfl

theorem subLoop_spec (skip : Nat) (hs : 0 < skip) : ∀ (fuel index x : Nat), x ≤ fuel →
    (subLoop skip fuel index x).2 < skip
    ∧ (subLoop skip fuel index x).1 * skip + (subLoop skip fuel index x).2 = index * skip + x := by
  intro fuel
  induction fuel with
  | zero =>
    intro index x hx
    rw [subLoop_zero]
    exact ⟨by simp; omega, rfl⟩
  | succ f ih =>
    intro index x hx
    rw [subLoop_succ]
    by_cases h : x ≥ skip
    · rw [if_pos h]
      obtain ⟨h1, h2⟩ := ih (index + 1) (x - skip) (by omega)
      refine ⟨h1, ?_⟩
      rw [h2, Nat.succ_mul]
      omega
    · rw [if_neg h]
      exact ⟨by simp; omega, rfl⟩

end Blue.BvSparse
