import Blue.Proofs.Block
import Blue.Proofs.BlockCursor
/-! The restart array `BlockBuilder` produces, as entry indices: first restart at entry 0, strictly
    increasing, every restart names an existing entry — `WfBlock`, the hypothesis of
    `block_cursor_refines` — provided both restart intervals are at least 1. -/
namespace Blue.Block
open Blue.BlockCursor Blue.Cursor

/-- the builder with two ghost fields: how many entries it has taken, and at which entry indices it
    recorded a restart -/
structure G where
  b : Builder
  n : Nat
  ridx : List Nat

def G.init : G := ⟨Builder.init, 0, [0]⟩

def G.add (o : Opts) (g : G) (e : KV) : G :=
  let restart := decide (o.bytesRestartInterval ≤ g.b.bytesSinceRestart)
               || decide (o.pairsRestartInterval ≤ g.b.pairsSinceRestart)
  ⟨g.b.add o e, g.n + 1, if restart then g.ridx ++ [g.n] else g.ridx⟩

def buildG (o : Opts) (es : List KV) : G := es.foldl (G.add o) G.init

theorem buildG_b (o : Opts) : ∀ (es : List KV) (g : G), (es.foldl (G.add o) g).b = es.foldl (Builder.add o) g.b
  | [], _ => rfl
  | e :: es, g => by simp only [List.foldl_cons]; rw [buildG_b o es]; rfl

/-- the ghost builder is the builder -/
theorem buildG_build (o : Opts) (es : List KV) : (buildG o es).b = build o es := buildG_b o es G.init

structure GInv (g : G) : Prop where
  /-- the restart list and the ghost list move together -/
  len : g.b.restarts.length = g.ridx.length
  first : g.ridx[0]? = some 0
  inc : g.ridx.Pairwise (· < ·)
  lt : ∀ r ∈ g.ridx, r < max g.n 1
  /-- before the first entry both counters are zero -/
  fresh : g.n = 0 → g.b.bytesSinceRestart = 0 ∧ g.b.pairsSinceRestart = 0

theorem ginv_init : GInv G.init :=
  ⟨rfl, rfl, by simp [G.init], by simp [G.init], fun _ => ⟨rfl, rfl⟩⟩

theorem ginv_add (o : Opts) (ho : 1 ≤ o.bytesRestartInterval ∧ 1 ≤ o.pairsRestartInterval)
    (g : G) (e : KV) (h : GInv g) : GInv (g.add o e) := by
  unfold G.add
  simp only
  by_cases hr : (decide (o.bytesRestartInterval ≤ g.b.bytesSinceRestart)
      || decide (o.pairsRestartInterval ≤ g.b.pairsSinceRestart)) = true
  · -- a restart is only taken after at least one entry
    have hn : 1 ≤ g.n := by
      false_or_by_contra
      rename_i hn0
      obtain ⟨f1, f2⟩ := h.fresh (by omega)
      simp only [f1, f2, Bool.or_eq_true, decide_eq_true_eq] at hr
      omega
    simp only [hr, if_true]
    refine ⟨?_, ?_, ?_, ?_, fun h0 => by dsimp only at h0; omega⟩
    · simp only [Builder.add, hr, if_true, List.length_append, List.length_cons, List.length_nil]
      rw [h.len]
    · rw [List.getElem?_append_left (by
        have := h.first
        cases hl : g.ridx with
        | nil => rw [hl] at this; simp at this
        | cons _ _ => simp)]
      exact h.first
    · rw [List.pairwise_append]
      refine ⟨h.inc, by simp, ?_⟩
      intro a ha b hb
      simp only [List.mem_singleton] at hb
      subst hb
      have := h.lt a ha
      omega
    · intro r hr'
      dsimp only at hr' ⊢
      rw [List.mem_append] at hr'
      rcases hr' with hr' | hr'
      · have := h.lt r hr'; omega
      · simp only [List.mem_singleton] at hr'; omega
  · have hr' : (decide (o.bytesRestartInterval ≤ g.b.bytesSinceRestart)
        || decide (o.pairsRestartInterval ≤ g.b.pairsSinceRestart)) = false := by
      cases hh : (decide (o.bytesRestartInterval ≤ g.b.bytesSinceRestart)
        || decide (o.pairsRestartInterval ≤ g.b.pairsSinceRestart)) with
      | true => exact absurd hh hr
      | false => rfl
    simp only [hr', Bool.false_eq_true, if_false]
    refine ⟨?_, h.first, h.inc, ?_, fun h0 => by dsimp only at h0; omega⟩
    · simp only [Builder.add, hr', Bool.false_eq_true, if_false]
      exact h.len
    · intro r hr''
      dsimp only at hr'' ⊢
      have := h.lt r hr''; omega

theorem ginv_build (o : Opts) (ho : 1 ≤ o.bytesRestartInterval ∧ 1 ≤ o.pairsRestartInterval) :
    ∀ (es : List KV) (g : G), GInv g → GInv (es.foldl (G.add o) g)
  | [], _, h => h
  | e :: es, g, h => ginv_build o ho es _ (ginv_add o ho g e h)

theorem buildG_n (o : Opts) : ∀ (es : List KV) (g : G), (es.foldl (G.add o) g).n = g.n + es.length
  | [], _ => rfl
  | e :: es, g => by
    simp only [List.foldl_cons, List.length_cons]
    rw [buildG_n o es]
    simp only [G.add]; omega

/-- **C10** the builder's restart points, read as entry indices, make a well-formed decoded block
    for every non-empty entry list and every pair of restart intervals ≥ 1 (interval 0 is the
    excluded configuration: it records offset 0 twice) -/
theorem build_wf (o : Opts) (ho : 1 ≤ o.bytesRestartInterval ∧ 1 ≤ o.pairsRestartInterval)
    (es : List KV) (hne : es ≠ []) : WfBlock ⟨es, (buildG o es).ridx⟩ := by
  have h : GInv (buildG o es) := ginv_build o ho es G.init ginv_init
  have hn : (buildG o es).n = es.length := by
    unfold buildG; rw [buildG_n]; simp [G.init]
  have hpos : 0 < es.length := List.length_pos_iff.mpr hne
  refine ⟨hpos, h.first, ?_, ?_⟩
  · intro r r' s s' hrr hs hs'
    have hpw := List.pairwise_iff_getElem.mp h.inc
    obtain ⟨h1, e1⟩ := List.getElem?_eq_some_iff.mp hs
    obtain ⟨h2, e2⟩ := List.getElem?_eq_some_iff.mp hs'
    dsimp only at h1 h2 e1 e2
    have := hpw r r' h1 h2 hrr
    rw [e1, e2] at this
    exact this
  · intro r s hs
    have := h.lt s (List.mem_of_getElem? hs)
    rw [hn] at this
    dsimp only
    omega

/-- interval 0: the same offset is recorded twice and the restart array is not increasing -/
theorem interval_zero_not_wf :
    let o : Opts := ⟨0, 16⟩
    let es : List KV := [⟨[1], 1, some []⟩, ⟨[2], 1, some []⟩]
    (build o es).restarts.take 2 = [0, 0] ∧ (buildG o es).ridx.take 2 = [0, 0] := by
  decide

/-- **C10** builder and cursor together: over the block `BlockBuilder` makes of any non-empty
    entry list, with any restart intervals ≥ 1, every cursor program shows what a cursor over the
    plain entry list shows -/
theorem built_block_cursor_refines (o : Opts) (ho : 1 ≤ o.bytesRestartInterval ∧ 1 ≤ o.pairsRestartInterval)
    (es : List KV) (hne : es ≠ []) (ops : List (Op KV))
    (hops : ∀ pred, Op.seek pred ∈ ops → MonoAlong es pred) :
    run ⟨⟨es, (buildG o es).ridx⟩, .first⟩ ops = Blue.Cursor.Ref.run ⟨es, 0⟩ ops :=
  block_cursor_refines (build_wf o ho es hne) ops .first 0 BRel.first hops

end Blue.Block

#print axioms Blue.Block.build_wf
#print axioms Blue.Block.built_block_cursor_refines
