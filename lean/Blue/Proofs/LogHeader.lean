import Blue.Model.LogHeader
import Blue.Proofs.Wire
import Blue.Proofs.Log
namespace Blue.Log
open Blue.Wire

theorem encVarint_length_le : ∀ (k v : Nat), v < 128 ^ (k + 1) → (encVarint v).length ≤ k + 1 := by
  intro k
  induction k with
  | zero => intro v h; rw [encVarint_lt (by simpa using h)]; simp
  | succ k ih =>
    intro v h
    by_cases hv : v < 128
    · rw [encVarint_lt hv]; simp
    · rw [encVarint_ge hv]
      simp only [List.length_cons]
      have : v / 128 < 128 ^ (k + 1) := by
        rw [Nat.div_lt_iff_lt_mul (by omega)]
        calc v < 128 ^ (k + 1 + 1) := h
          _ = 128 ^ (k + 1) * 128 := by rw [Nat.pow_succ]
      have := ih _ this
      omega

theorem le32_length (c : Nat) : (le32 c).length = 4 := rfl

theorem fromLe32_le32 (c : Nat) (h : c < 4294967296) : fromLe32 (le32 c) = c := by
  simp only [le32, fromLe32]; omega

theorem fieldStep_fixed32 (n : Nat) (bs rest : List Nat) (hn : validFieldNumber n = true) (hb : bs.length = 4) :
    fieldStep (encTag ⟨n, .thirtyTwo⟩ ++ bs ++ rest) = some ((⟨n, .thirtyTwo⟩, bs), rest) := by
  unfold fieldStep
  rw [List.append_assoc, decTag_enc ⟨n, .thirtyTwo⟩ hn]
  simp only
  have hlen : ¬ ((bs ++ rest).length < 4) := by simp; omega
  rw [if_neg hlen, List.take_left' hb, List.drop_left' hb]

theorem fields_hdr (h : Hdr) (h1 : h.size < U64) (h2 : h.disc < U64) (k : Nat) :
    fields (k + 4) (encHdr h) =
      ([(⟨10, .varint⟩, encVarint h.size), (⟨11, .varint⟩, encVarint h.disc), (⟨12, .thirtyTwo⟩, le32 h.crc)],
       false) := by
  unfold encHdr
  have s1 := fieldStep_varint 10 h.size (by decide) h1
    (encTag ⟨11, .varint⟩ ++ encVarint h.disc ++ encTag ⟨12, .thirtyTwo⟩ ++ le32 h.crc)
  have s2 := fieldStep_varint 11 h.disc (by decide) h2 (encTag ⟨12, .thirtyTwo⟩ ++ le32 h.crc)
  have s3 := fieldStep_fixed32 12 (le32 h.crc) [] (by decide) (le32_length _)
  simp only [List.append_assoc, List.append_nil] at s1 s2 s3 ⊢
  have ne : ∀ (t : Tag) (l : List Nat), encTag t ++ l ≠ [] := by
    intro t l hh
    exact encTag_ne_nil t (List.append_eq_nil_iff.mp hh).1
  rw [fields_cons (k + 3) _ _ _ (ne _ _) s1, fields_cons (k + 2) _ _ _ (ne _ _) s2,
    fields_cons (k + 1) _ _ _ (ne _ _) s3]
  rfl

theorem encHdr_length (h : Hdr) (h1 : h.size < U64) (h2 : h.disc < 128) :
    9 ≤ (encHdr h).length ∧ (encHdr h).length ≤ 18 := by
  unfold encHdr encTag
  have t10 : encVarint (10 * 8 + WT.varint.bits) = [80] := encVarint_lt (by decide)
  have t11 : encVarint (11 * 8 + WT.varint.bits) = [88] := encVarint_lt (by decide)
  have t12 : encVarint (12 * 8 + WT.thirtyTwo.bits) = [101] := encVarint_lt (by decide)
  have hd : encVarint h.disc = [h.disc] := encVarint_lt h2
  rw [t10, t11, t12, hd]
  have hs1 := encVarint_length_pos h.size
  have hs2 := encVarint_length_le 9 h.size (by unfold U64 at h1; omega)
  simp only [List.length_append, List.length_cons, List.length_nil, le32_length]
  omega

theorem decHdr_enc (h : Hdr) (h1 : h.size < U64) (h2 : h.disc < 128) (h3 : h.crc < 4294967296) :
    decHdr (encHdr h) = some h := by
  unfold decHdr
  obtain ⟨hl, _⟩ := encHdr_length h h1 h2
  obtain ⟨k, hk⟩ : ∃ k, (encHdr h).length + 1 = k + 4 := ⟨(encHdr h).length - 3, by omega⟩
  rw [hk, fields_hdr h h1 (by unfold U64; omega) k]
  have d1 := decVarint_enc h.size h1 []
  have d2 := decVarint_enc h.disc (by unfold U64; omega) []
  simp only [List.append_nil] at d1 d2
  have hu : ¬ (h.disc > U32MAX) := by unfold U32MAX; omega
  have hl4 : ¬ ((le32 h.crc).length < 4) := by simp [le32_length]
  have ht : (le32 h.crc).take 4 = le32 h.crc := by rw [List.take_of_length_le]; simp [le32_length]
  simp [mergeHdr, d1, d2, hu, hl4, ht, fromLe32_le32 h.crc h3]

/-- **C12** the real log's parameters satisfy what `log_roundtrip` needs, for any CRC that returns
    32-bit values -/
theorem good_real (crc : List Nat → Nat) (hcrc : ∀ l, crc l < 4294967296) : Good (realParams crc) where
  hH := by show 1 ≤ 19; omega
  hB := by show 2 * 19 < 1048576; omega
  crc_lt := hcrc
  tf_lt := by show 1006632960 < 18446744073709551616; omega
  dec_enc := fun h h1 h2 h3 => decHdr_enc h h1 h2 h3
  enc_len := fun h h1 h2 _ => by
    have := encHdr_length h h1 h2
    show 1 ≤ (encHdr h).length ∧ (encHdr h).length + 1 ≤ 19
    omega

end Blue.Log

#print axioms Blue.Log.good_real
