import Blue.Proofs.MergingCongr
import Blue.Proofs.MergingSeek
import Blue.Proofs.FamilyExists
import Blue.Proofs.ConcatMain
import Blue.Proofs.BoundsMain
import Blue.Model.Concat
import Blue.Proofs.PruningRel
/-! **C11** seek predicates in general: the four seek hypotheses of the cursor refinement theorems
    are instances of ONE notion, "upward closed along the list the reference cursor runs over"
    (`UpClosedAlong`), with the exact closure condition per combinator, and the merging theorem is
    carried from the global `Mono lt pred` to closure along the merged list only
    (`seek_general_predicate`).  A predicate that is not upward closed breaks the refinement
    (`seek_nonclosed_counterexample`). -/
namespace Blue.Cursor.SeekGeneral
open Blue.Cursor
variable {E : Type}

/-- along `xs` the predicate, once true, stays true -/
def UpClosedAlong (xs : List E) (p : E → Bool) : Prop :=
  ∀ (i j : Nat), i ≤ j → (∃ a, xs[i]? = some a ∧ p a = true) → ∀ b, xs[j]? = some b → p b = true

theorem upClosed_iff_pairwise (xs : List E) (p : E → Bool) :
    UpClosedAlong xs p ↔ xs.Pairwise (fun a b => p a = true → p b = true) := by
  rw [List.pairwise_iff_getElem]
  constructor
  · intro h i j hi hj hij hp
    unfold UpClosedAlong at h
    exact h i j (Nat.le_of_lt hij) ⟨xs[i], List.getElem?_eq_getElem hi, hp⟩ xs[j] (List.getElem?_eq_getElem hj)
  · intro h
    unfold UpClosedAlong
    intro i j hij ⟨a, ha, hp⟩ b hb
    obtain ⟨hi, rfl⟩ := List.getElem?_eq_some_iff.mp ha
    obtain ⟨hj, rfl⟩ := List.getElem?_eq_some_iff.mp hb
    by_cases he : i = j
    · subst he; exact hp
    · exact h i j hi hj (by omega) hp

/-! ## A. concatenation and bounds: the existing hypotheses ARE closure along the list -/

theorem predMono_iff (L : List (List E)) (p : E → Bool) : PredMono L p ↔ UpClosedAlong L.flatten p := by
  unfold UpClosedAlong PredMono
  constructor
  · intro h i j hij ⟨a, ha, hp⟩ b hb; exact h i j a b hij ha hb hp
  · intro h i j a b hij ha hb hp; exact h i j hij ⟨a, ha, hp⟩ b hb

theorem monoAlong_iff (xs : List E) (p : E → Bool) : Blue.Cursor.MonoAlong xs p ↔ UpClosedAlong xs p := by
  unfold UpClosedAlong Blue.Cursor.MonoAlong
  constructor
  · intro h i j hij ⟨a, ha, hp⟩ b hb; exact h i j a b hij ha hb hp
  · intro h i j a b hij ha hb hp; exact h i j hij ⟨a, ha, hp⟩ b hb

/-- boundary condition between the children of a concatenation: for children `i < j`, if the
    predicate holds of some entry of child `i` it holds of every entry of child `j` -/
def Boundary (L : List (List E)) (p : E → Bool) : Prop :=
  L.Pairwise (fun li lj => (∃ a ∈ li, p a = true) → ∀ b ∈ lj, p b = true)

theorem boundary_iff_index (L : List (List E)) (p : E → Bool) :
    Boundary L p ↔ ∀ (i j : Nat) li lj, i < j → L[i]? = some li → L[j]? = some lj →
      (∃ a ∈ li, p a = true) → ∀ b ∈ lj, p b = true := by
  unfold Boundary
  rw [List.pairwise_iff_getElem]
  constructor
  · intro h i j li lj hij hi hj
    obtain ⟨hi', rfl⟩ := List.getElem?_eq_some_iff.mp hi
    obtain ⟨hj', rfl⟩ := List.getElem?_eq_some_iff.mp hj
    exact h i j hi' hj' hij
  · intro h i j hi hj hij
    exact h i j _ _ hij (List.getElem?_eq_getElem hi) (List.getElem?_eq_getElem hj)

/-- **concatenation**: the predicate is upward closed along the concatenation iff it is upward
    closed along every child and the boundary condition holds between the children -/
theorem concat_closure_iff (L : List (List E)) (p : E → Bool) :
    UpClosedAlong L.flatten p ↔ (∀ l ∈ L, UpClosedAlong l p) ∧ Boundary L p := by
  rw [upClosed_iff_pairwise, List.pairwise_flatten]
  unfold Boundary
  constructor
  · rintro ⟨h1, h2⟩
    refine ⟨fun l hl => (upClosed_iff_pairwise l p).mpr (h1 l hl), h2.imp ?_⟩
    intro li lj h ⟨a, ha, hp⟩ b hb
    exact h a ha b hb hp
  · rintro ⟨h1, h2⟩
    refine ⟨fun l hl => (upClosed_iff_pairwise l p).mp (h1 l hl), h2.imp ?_⟩
    intro li lj h a ha b hb hp
    exact h ⟨a, ha, hp⟩ b hb

theorem predMono_iff_children (L : List (List E)) (p : E → Bool) :
    PredMono L p ↔ (∀ l ∈ L, UpClosedAlong l p) ∧ Boundary L p :=
  (predMono_iff L p).trans (concat_closure_iff L p)

/-! ## B. merging -/

/-- the predicate is monotone in `lt` on the members of `S` -/
def MonoOn (S : List E) (lt : E → E → Bool) (p : E → Bool) : Prop :=
  ∀ a ∈ S, ∀ b ∈ S, lt a b = true → p a = true → p b = true

theorem mono_monoOn {lt : E → E → Bool} {p : E → Bool} (h : Mono lt p) (S : List E) : MonoOn S lt p :=
  fun a _ b _ hab hp => h a b hab hp

theorem monoOn_perm {lt : E → E → Bool} {p : E → Bool} {S T : List E} (h : S.Perm T) :
    MonoOn S lt p ↔ MonoOn T lt p := by
  constructor
  · intro hm a ha b hb; exact hm a (h.mem_iff.mpr ha) b (h.mem_iff.mpr hb)
  · intro hm a ha b hb; exact hm a (h.mem_iff.mp ha) b (h.mem_iff.mp hb)

/-- (i) along a weakly sorted list, upward closure is monotonicity on the members -/
theorem merged_closure_iff {lt : E → E → Bool} (st : StrictTotal lt) (M : List E)
    (hM : M.Pairwise (fun a b => lt b a = false)) (p : E → Bool) :
    UpClosedAlong M p ↔ MonoOn M lt p := by
  rw [upClosed_iff_pairwise]
  constructor
  · intro h
    have h2 : M.Pairwise (fun x y => (lt x y = true → p x = true → p y = true)
        ∧ (lt y x = true → p y = true → p x = true)) := by
      refine (h.and hM).imp ?_
      rintro x y ⟨hr, hs⟩
      exact ⟨fun _ => hr, fun hyx => by rw [hs] at hyx; cases hyx⟩
    have h3 := List.Pairwise.forall_of_forall_of_flip (l := M)
      (R := fun x y => (lt x y = true → p x = true → p y = true)
        ∧ (lt y x = true → p y = true → p x = true))
      (fun x _ => ⟨fun _ hp => hp, fun _ hp => hp⟩) h2 (h2.imp (fun {x y} hxy => ⟨hxy.2, hxy.1⟩))
    intro a ha b hb
    exact (h3 ha hb).1
  · intro h
    refine hM.imp_of_mem ?_
    intro a b ha hb hba hp
    by_cases hab : a = b
    · subst hab; exact hp
    · rcases st.total a b hab with h' | h'
      · exact h a ha b hb h' hp
      · rw [h'] at hba; cases hba

/-- cross condition between different children of a merge -/
def Cross (tables : List (List E)) (lt : E → E → Bool) (p : E → Bool) : Prop :=
  ∀ (i j : Nat) ti tj, i ≠ j → tables[i]? = some ti → tables[j]? = some tj →
    ∀ a ∈ ti, ∀ b ∈ tj, lt a b = true → p a = true → p b = true

theorem monoOn_flatten_iff (tables : List (List E)) (lt : E → E → Bool) (p : E → Bool) :
    MonoOn tables.flatten lt p ↔ (∀ t ∈ tables, MonoOn t lt p) ∧ Cross tables lt p := by
  constructor
  · intro h
    refine ⟨fun t ht a ha b hb => h a (List.mem_flatten.mpr ⟨t, ht, ha⟩) b (List.mem_flatten.mpr ⟨t, ht, hb⟩), ?_⟩
    unfold Cross
    intro i j ti tj _ hi hj a ha b hb
    exact h a (List.mem_flatten.mpr ⟨ti, List.mem_of_getElem? hi, ha⟩)
      b (List.mem_flatten.mpr ⟨tj, List.mem_of_getElem? hj, hb⟩)
  · rintro ⟨h1, h2⟩ a ha b hb
    unfold Cross at h2
    obtain ⟨ta, hta, haa⟩ := List.mem_flatten.mp ha
    obtain ⟨tb, htb, hbb⟩ := List.mem_flatten.mp hb
    obtain ⟨i, hi, rfl⟩ := List.getElem_of_mem hta
    obtain ⟨j, hj, rfl⟩ := List.getElem_of_mem htb
    by_cases hij : i = j
    · subst hij; exact h1 _ hta a haa b hbb
    · exact h2 i j _ _ hij (List.getElem?_eq_getElem hi) (List.getElem?_eq_getElem hj) a haa b hbb

theorem sortedW_of_sorted {lt : E → E → Bool} (st : StrictTotal lt) {t : List E}
    (h : t.Pairwise (fun a b => lt a b = true)) : t.Pairwise (fun a b => lt b a = false) :=
  h.imp (fun {a b} hab => st.asymm a b hab)

/-- (ii) **interleaving preserves upward closure iff the predicate is also monotone across the
    children**: along the merge of strictly sorted tables the predicate is upward closed iff it is
    upward closed along every table and the cross condition holds -/
theorem merging_closure_iff {lt : E → E → Bool} (st : StrictTotal lt) (tables : List (List E))
    (hs : ∀ t ∈ tables, t.Pairwise (fun a b => lt a b = true)) (p : E → Bool) :
    UpClosedAlong (mergedList lt tables) p ↔ (∀ t ∈ tables, UpClosedAlong t p) ∧ Cross tables lt p := by
  rw [merged_closure_iff st _ (mergedList_sortedW st tables), monoOn_perm (mergedList_perm lt tables),
    monoOn_flatten_iff]
  constructor
  · rintro ⟨h1, h2⟩
    exact ⟨fun t ht => (merged_closure_iff st t (sortedW_of_sorted st (hs t ht)) p).mpr (h1 t ht), h2⟩
  · rintro ⟨h1, h2⟩
    exact ⟨fun t ht => (merged_closure_iff st t (sortedW_of_sorted st (hs t ht)) p).mp (h1 t ht), h2⟩

theorem monoOn_merged_iff {lt : E → E → Bool} (st : StrictTotal lt) (tables : List (List E))
    (hs : ∀ t ∈ tables, t.Pairwise (fun a b => lt a b = true)) (p : E → Bool) :
    MonoOn (mergedList lt tables) lt p ↔ (∀ t ∈ tables, UpClosedAlong t p) ∧ Cross tables lt p := by
  rw [← merged_closure_iff st _ (mergedList_sortedW st tables)]
  exact merging_closure_iff st tables hs p


/-! ### (iii) the merging refinement with closure along the merged list only -/

/-- "some member of `M` at or below `e` satisfies `p`": the upward closure of `p` from `M` -/
def closeUp (lt : E → E → Bool) (M : List E) (p : E → Bool) : E → Bool :=
  fun e => M.any (fun m => p m && !lt e m)

/-- the closure is monotone on the WHOLE entry type, whatever `p` is -/
theorem closeUp_mono {lt : E → E → Bool} (st : StrictTotal lt) (M : List E) (p : E → Bool) :
    Mono lt (closeUp lt M p) := by
  intro a b hab ha
  unfold closeUp at ha ⊢
  rw [List.any_eq_true] at ha ⊢
  obtain ⟨m, hm, h⟩ := ha
  rw [Bool.and_eq_true, Bool.not_eq_true'] at h
  refine ⟨m, hm, ?_⟩
  rw [Bool.and_eq_true, Bool.not_eq_true']
  refine ⟨h.1, ?_⟩
  cases hbm : lt b m with
  | false => rfl
  | true => have := st.trans a b m hab hbm; rw [h.2] at this; cases this

/-- on the members of `M` the closure is `p` itself, when `p` is monotone on `M` -/
theorem closeUp_agree {lt : E → E → Bool} (st : StrictTotal lt) (M : List E) (p : E → Bool)
    (hp : MonoOn M lt p) : ∀ e ∈ M, p e = closeUp lt M p e := by
  intro e he
  cases hpe : p e with
  | true =>
    symm
    unfold closeUp
    rw [List.any_eq_true]
    exact ⟨e, he, by rw [hpe, st.irrefl]; rfl⟩
  | false =>
    symm
    cases hc : closeUp lt M p e with
    | false => rfl
    | true =>
      unfold closeUp at hc
      rw [List.any_eq_true] at hc
      obtain ⟨m, hm, h⟩ := hc
      rw [Bool.and_eq_true, Bool.not_eq_true'] at h
      by_cases hme : m = e
      · subst hme; rw [hpe] at h; cases h.1
      · rcases st.total m e hme with h' | h'
        · have := hp m hm e he h' h.1; rw [hpe] at this; cases this
        · rw [h'] at h; cases h.2

/-- substitute the seek predicates of a program -/
def Op.mapPred (f : (E → Bool) → (E → Bool)) : Op E → Op E
  | .first => .first | .last => .last | .next => .next | .prev => .prev
  | .seek p => .seek (f p)

theorem findIdx_congr_mem (p q : E → Bool) : ∀ (xs : List E), (∀ e ∈ xs, p e = q e) →
    xs.findIdx p = xs.findIdx q
  | [], _ => rfl
  | a :: xs, h => by
    rw [List.findIdx_cons, List.findIdx_cons, h a List.mem_cons_self,
      findIdx_congr_mem p q xs (fun e he => h e (List.mem_cons_of_mem _ he))]

theorem Ref.seek_congr (p q : E → Bool) (c : Ref E) (h : ∀ e ∈ c.xs, p e = q e) :
    c.seek p = c.seek q := by
  unfold Ref.seek
  rw [findIdx_congr_mem p q c.xs h]

theorem merging_step_pred_congr {lt : E → E → Bool} (M : List E) (f : (E → Bool) → (E → Bool))
    (m : Merging E) (hm : ∀ c ∈ m.cs, Inside (· ∈ M) c) (op : Op E)
    (hop : ∀ p, op = .seek p → ∀ e ∈ M, p e = f p e) :
    Merging.step lt m op = Merging.step lt m (Op.mapPred f op)
      ∧ ∀ c ∈ (Merging.step lt m op).cs, Inside (· ∈ M) c := by
  refine ⟨?_, (merging_step_congr (S := (· ∈ M)) (lt := lt) (lt' := lt) (fun _ _ _ _ => rfl) m hm op).2⟩
  cases op with
  | first => rfl
  | last => rfl
  | next => rfl
  | prev => rfl
  | seek p =>
    simp only [Op.mapPred, Merging.step, Merging.seek]
    have : m.cs.map (Ref.seek p) = m.cs.map (Ref.seek (f p)) := by
      apply List.map_congr_left
      intro c hc
      exact Ref.seek_congr p (f p) c (fun e he => hop p rfl e (hm c hc e he))
    rw [this]

/-- **every program**: a merging cursor whose children hold members of `M` only runs the same
    when the seek predicates are replaced by ones that agree with them on `M` -/
theorem merging_run_pred_congr {lt : E → E → Bool} (M : List E) (f : (E → Bool) → (E → Bool)) :
    ∀ (ops : List (Op E)) (m : Merging E), (∀ c ∈ m.cs, Inside (· ∈ M) c) →
      (∀ p, Op.seek p ∈ ops → ∀ e ∈ M, p e = f p e) →
      Merging.run lt m ops = Merging.run lt m (ops.map (Op.mapPred f))
  | [], _, _, _ => rfl
  | op :: ops, m, hm, hops => by
    obtain ⟨h1, h2⟩ := merging_step_pred_congr (lt := lt) M f m hm op
      (fun p hp => hops p (by rw [hp]; exact List.mem_cons_self))
    simp only [Merging.run, List.map_cons]
    rw [← h1, merging_run_pred_congr M f ops _ h2
      (fun p hp => hops p (List.mem_cons_of_mem _ hp))]

theorem Ref.step_xs (c : Ref E) (op : Op E) : (c.step op).xs = c.xs := by
  cases op with
  | first => rfl
  | last => rfl
  | next => exact Ref.next_xs c
  | prev => exact Ref.prev_xs c
  | seek p => rfl

/-- the same for the reference cursor -/
theorem ref_run_pred_congr (M : List E) (f : (E → Bool) → (E → Bool)) :
    ∀ (ops : List (Op E)) (c : Ref E), (∀ e ∈ c.xs, e ∈ M) →
      (∀ p, Op.seek p ∈ ops → ∀ e ∈ M, p e = f p e) →
      Ref.run c ops = Ref.run c (ops.map (Op.mapPred f))
  | [], _, _, _ => rfl
  | op :: ops, c, hc, hops => by
    have h1 : c.step op = c.step (Op.mapPred f op) := by
      cases op with
      | first => rfl
      | last => rfl
      | next => rfl
      | prev => rfl
      | seek p =>
        exact Ref.seek_congr p (f p) c (fun e he => hops p List.mem_cons_self e (hc e he))
    simp only [Ref.run, List.map_cons]
    rw [← h1, ref_run_pred_congr M f ops (c.step op) (by rw [Ref.step_xs]; exact hc)
      (fun p hp => hops p (List.mem_cons_of_mem _ hp))]

/-- **seek with any predicate upward closed along the merged list**: `merging_refines_tables`
    with the global hypothesis `Mono lt pred` replaced by monotonicity on the members of the merged
    list (equivalently, by `merged_closure_iff`, upward closure along it; equivalently, by
    `monoOn_merged_iff`, closure along every child plus the cross condition) -/
theorem seek_general_predicate {lt : E → E → Bool} (st : StrictTotal lt) (cs : List (Ref E))
    (hs : ∀ c ∈ cs, c.xs.Pairwise (fun a b => lt a b = true))
    (ops : List (Op E))
    (hops : ∀ pred, Op.seek pred ∈ ops → MonoOn (mergedList lt (cs.map (·.xs))) lt pred) :
    (Merging.new lt cs).kv = (Ref.mk (mergedList lt (cs.map (·.xs))) 0).kv ∧
    Merging.run lt (Merging.new lt cs) ops = Ref.run ⟨mergedList lt (cs.map (·.xs)), 0⟩ ops := by
  let M := mergedList lt (cs.map (·.xs))
  have hag : ∀ p, Op.seek p ∈ ops → ∀ e ∈ M, p e = closeUp lt M p e :=
    fun p hp => closeUp_agree st M p (hops p hp)
  have hmono : ∀ pred, Op.seek pred ∈ ops.map (Op.mapPred (closeUp lt M)) → Mono lt pred := by
    intro pred hp
    rw [List.mem_map] at hp
    obtain ⟨op, _, hop⟩ := hp
    cases op with
    | seek p => simp only [Op.mapPred, Op.seek.injEq] at hop; subst hop; exact closeUp_mono st M p
    | first => cases hop
    | last => cases hop
    | next => cases hop
    | prev => cases hop
  obtain ⟨r1, r2⟩ := merging_refines_tables st cs hs (ops.map (Op.mapPred (closeUp lt M))) hmono
  refine ⟨r1, ?_⟩
  have hcs : ∀ c ∈ cs, Inside (· ∈ M) c := by
    intro c hc e he
    apply (mergedList_perm lt (cs.map (·.xs))).mem_iff.mpr
    exact List.mem_flatten.mpr ⟨c.xs, List.mem_map.mpr ⟨c, hc, rfl⟩, he⟩
  have hnew := (merging_new_congr (S := (· ∈ M)) (lt := lt) (lt' := lt) (fun _ _ _ _ => rfl) cs hcs).2
  rw [merging_run_pred_congr M (closeUp lt M) ops _ hnew hag, r2]
  exact (ref_run_pred_congr M (closeUp lt M) ops ⟨M, 0⟩ (fun e he => he) hag).symm

/-- the same with the hypothesis in the form "upward closed along the merged list" -/
theorem seek_general_predicate_along {lt : E → E → Bool} (st : StrictTotal lt) (cs : List (Ref E))
    (hs : ∀ c ∈ cs, c.xs.Pairwise (fun a b => lt a b = true))
    (ops : List (Op E))
    (hops : ∀ pred, Op.seek pred ∈ ops → UpClosedAlong (mergedList lt (cs.map (·.xs))) pred) :
    (Merging.new lt cs).kv = (Ref.mk (mergedList lt (cs.map (·.xs))) 0).kv ∧
    Merging.run lt (Merging.new lt cs) ops = Ref.run ⟨mergedList lt (cs.map (·.xs)), 0⟩ ops :=
  seek_general_predicate st cs hs ops
    (fun p hp => (merged_closure_iff st _ (mergedList_sortedW st _) p).mp (hops p hp))

/-! ## C. a predicate that is not upward closed breaks the refinement -/

def natLt (a b : Nat) : Bool := decide (a < b)

theorem natLt_strictTotal : StrictTotal natLt where
  irrefl a := by simp [natLt]
  trans a b c := by simp only [natLt, decide_eq_true_eq]; omega
  total a b h := by simp only [natLt, decide_eq_true_eq]; omega

theorem merged_14_25 : mergedList natLt [[1, 4], [2, 5]] = [1, 2, 4, 5] := by
  simp [mergedList, mergedOf, tagFrom, leOf, natLt, List.mergeSort, List.MergeSort.Internal.splitInTwo]

/-- **merging**: children `[1, 4]`, `[2, 5]`, predicate "1 or 5" (not upward closed along
    `[1, 2, 4, 5]`): after `seek; next; next` the merging cursor shows `1, 4, 5` (each child seeks
    on its own: child one stands at 1, child two at 5, and 2 is skipped) while the reference cursor
    over the merged list shows `1, 2, 4` -/
theorem seek_nonclosed_counterexample :
    let pred : Nat → Bool := fun e => e == 1 || e == 5
    Merging.run natLt (Merging.new natLt [⟨[1, 4], 0⟩, ⟨[2, 5], 0⟩]) [.seek pred, .next, .next]
        = [some 1, some 4, some 5]
      ∧ Ref.run ⟨[1, 2, 4, 5], 0⟩ [.seek pred, .next, .next] = [some 1, some 2, some 4]
      ∧ ¬ UpClosedAlong (mergedList natLt [[1, 4], [2, 5]]) pred := by
  refine ⟨by decide, by decide, ?_⟩
  rw [merged_14_25]
  intro h
  exact absurd (h 0 1 (by omega) ⟨1, rfl, rfl⟩ 2 rfl) (by decide)

/-- **closed along each child, not along the merge**: "1, 4 or 5" is upward closed along `[1, 4]`
    and along `[2, 5]`, the cross condition fails (1 < 2 across the children), the predicate is
    not upward closed along the merge `[1, 2, 4, 5]`, and the refinement fails with it -/
theorem closed_children_not_merge :
    let pred : Nat → Bool := fun e => e == 1 || e == 4 || e == 5
    UpClosedAlong [1, 4] pred ∧ UpClosedAlong [2, 5] pred
      ∧ ¬ Cross [[1, 4], [2, 5]] natLt pred
      ∧ ¬ UpClosedAlong (mergedList natLt [[1, 4], [2, 5]]) pred
      ∧ Merging.run natLt (Merging.new natLt [⟨[1, 4], 0⟩, ⟨[2, 5], 0⟩]) [.seek pred, .next]
          = [some 1, some 4]
      ∧ Ref.run ⟨[1, 2, 4, 5], 0⟩ [.seek pred, .next] = [some 1, some 2] := by
  refine ⟨?_, ?_, ?_, ?_, by decide, by decide⟩
  · rw [upClosed_iff_pairwise]; decide
  · rw [upClosed_iff_pairwise]; decide
  · intro h
    exact absurd (h 0 1 [1, 4] [2, 5] (by omega) rfl rfl 1 (by decide) 2 (by decide) (by decide) (by decide))
      (by decide)
  · rw [merged_14_25]
    intro h
    exact absurd (h 0 1 (by omega) ⟨1, rfl, rfl⟩ 2 rfl) (by decide)

/-- **concatenation**: children `[1, 2]`, `[4, 5]`, predicate "1 or 5": the binary search over
    the children's last entries lands in the second child, the concatenating cursor shows
    `5, none, none`, the reference cursor over `[1, 2, 4, 5]` shows `1, 2, 4` -/
theorem seek_nonclosed_counterexample_concat :
    let pred : Nat → Bool := fun e => e == 1 || e == 5
    Concat.run (Concat.new [⟨[1, 2], 0⟩, ⟨[4, 5], 0⟩]) [.seek pred, .next, .next]
        = [some 5, none, none]
      ∧ Ref.run ⟨[1, 2, 4, 5], 0⟩ [.seek pred, .next, .next] = [some 1, some 2, some 4]
      ∧ ¬ PredMono [[1, 2], [4, 5]] pred := by
  refine ⟨by decide +kernel, by decide, ?_⟩
  intro h
  exact absurd (h 0 1 1 2 (by omega) rfl rfl (by decide)) (by decide)

/-- `seek_general_predicate` at work: "at least 4, except 7" is not monotone on `Nat` (7 > 4) but is
    monotone on the members of the merged list, which is all the theorem asks -/
example (ops : List (Op Nat))
    (hops : ∀ pred, Op.seek pred ∈ ops → pred = fun e => decide (4 ≤ e) && e != 7) :
    Merging.run natLt (Merging.new natLt [⟨[1, 4], 0⟩, ⟨[2, 5], 0⟩]) ops
      = Ref.run ⟨[1, 2, 4, 5], 0⟩ ops := by
  have h := (seek_general_predicate natLt_strictTotal [⟨[1, 4], 0⟩, ⟨[2, 5], 0⟩] (by decide) ops
    (by
      intro pred hp
      rw [hops pred hp]
      show MonoOn (mergedList natLt [[1, 4], [2, 5]]) natLt _
      rw [merged_14_25]
      unfold MonoOn
      decide)).2
  rw [show mergedList natLt (List.map (·.xs) [(⟨[1, 4], 0⟩ : Ref Nat), ⟨[2, 5], 0⟩]) = [1, 2, 4, 5]
    from merged_14_25] at h
  exact h

example : ¬ Mono natLt (fun e => decide (4 ≤ e) && e != 7) := by
  intro h
  exact absurd (h 4 7 (by decide) (by decide)) (by decide)

/-- pruning: the hypothesis `SeekPred` is "depends on the key only" plus closure along the child list -/
theorem seekPred_iff {K : Type} [DecidableEq K] (cfg : PruneCfg E K) (xs : List E) (p : E → Bool) :
    SeekPred cfg xs p ↔ (∀ a b, cfg.key a = cfg.key b → p a = p b) ∧ UpClosedAlong xs p := by
  constructor
  · intro h; exact ⟨h.byKey, fun i j hij ⟨a, ha, hp⟩ b hb => h.mono i j a b hij ha hb hp⟩
  · intro h; exact ⟨h.1, fun i j a b hij ha hb hp => h.2 i j hij ⟨a, ha, hp⟩ b hb⟩

end Blue.Cursor.SeekGeneral

#print axioms Blue.Cursor.SeekGeneral.concat_closure_iff
#print axioms Blue.Cursor.SeekGeneral.merged_closure_iff
#print axioms Blue.Cursor.SeekGeneral.merging_closure_iff
#print axioms Blue.Cursor.SeekGeneral.seek_general_predicate
#print axioms Blue.Cursor.SeekGeneral.seek_general_predicate_along
#print axioms Blue.Cursor.SeekGeneral.merging_run_pred_congr
#print axioms Blue.Cursor.SeekGeneral.seek_nonclosed_counterexample
#print axioms Blue.Cursor.SeekGeneral.closed_children_not_merge
#print axioms Blue.Cursor.SeekGeneral.seek_nonclosed_counterexample_concat
#print axioms Blue.Cursor.SeekGeneral.predMono_iff_children
#print axioms Blue.Cursor.SeekGeneral.monoOn_merged_iff
#print axioms Blue.Cursor.SeekGeneral.seekPred_iff
