import Blue.Model.SstFile
import Blue.Proofs.SstOpen
/-! **C09, SST: damage of any shape inside one region of the file is detected or harmless** —
    relative to one explicit hypothesis about the checksum.

    `f` is a file that opens to the table `t` (`openSst crc f = .ok t`), `d` a damaged image of the
    same length that differs from `f` only inside one region (`AgreeOutside f d lo hi`: nothing is
    assumed about the bytes of `d` inside `[lo, hi)`).  The regions are the extents the code reads
    as one `SstEntry` frame — tag, length varint and payload of a data block, of the index block,
    of the filter block — and the unchecksummed tail (final block and trailer).

    * `NoCollisionAt crc f d m` — the only hypothesis about the checksum, decidable on concrete
      inputs, as weak as the proofs allow: *if* the damaged file still shows a frame of the same
      kind at the extent `m` and its payload has the CRC of the original payload, then it is the
      original payload.  Nothing is asked when the damaged frame does not parse, parses as another
      kind of frame, or has a payload with another CRC: those cases are errors by the code's own
      checks.
    * the conclusion form `ReadsErrOrSame crc t t'`: every cursor program (`Opened.run`: any
      sequence of `seek_to_first / seek_to_last / next / prev / seek`, from any cursor state),
      every `load`, `metadata`, and the two whole walks on the damaged table return the pristine
      table's answer, or they return it for a prefix of the calls and then an error.  Data blocks
      are loaded lazily: damage in data block `i` leaves the open as it was and shows at the call
      that first loads block `i` (`sst_data_frame_damage`: the loader of every other block is
      unchanged, the loader of block `i` is an error or unchanged).
    * `sst_index_frame_damage`, `sst_filter_frame_damage`: the open fails, or everything is as it was.
    * the tail has no checksum: `sst_tail_cases` classifies any replacement of it (any length:
      damage, truncation inside the tail, appended bytes) as rejected, metadata-only (same index
      and filter triples, same entries, same blocks: D-10), or redirected to another index or filter
      triple that names a frame matching the CRC *it* records; `sst_truncated_below_filter`: a cut
      below the end of the filter block is rejected or redirected. -/
namespace Blue.SstOpen
open Blue.Wire Blue.Block Blue.Sst Blue.Cursor Blue.ProtoMsg

/-- `d` has the length of `f` and differs from it at most inside `[lo, hi)` -/
def AgreeOutside (f d : List Nat) (lo hi : Nat) : Prop :=
  d.length = f.length ∧ ∀ i, (i < lo ∨ hi ≤ i) → d[i]? = f[i]?

theorem agreeOutside_refl (f : List Nat) (lo hi : Nat) : AgreeOutside f f lo hi := ⟨rfl, fun _ _ => rfl⟩

section
variable (crc : List Nat → Nat)

/-- **the hypothesis about the checksum**: at the extent `m`, if the damaged file shows a frame of
    the same kind as the original whose payload has the original payload's CRC, the payloads are
    equal.  (`True` when either file shows no frame there.) -/
def NoCollisionAt (f d : List Nat) (m : BlockMeta) : Prop :=
  match frameAt f m, frameAt d m with
  | .ok (v, b), .ok (v', b') => v' = v → crc b' = crc b → b' = b
  | _, _ => True

instance (f d : List Nat) (m : BlockMeta) : Decidable (NoCollisionAt crc f d m) := by
  unfold NoCollisionAt
  split <;> infer_instance

theorem NoCollisionAt.elim {f d : List Nat} {m : BlockMeta} {v : Nat} {b b' : List Nat}
    (h : NoCollisionAt crc f d m) (hf : frameAt f m = .ok (v, b)) (hd : frameAt d m = .ok (v, b'))
    (hc : crc b' = crc b) : b' = b := by
  unfold NoCollisionAt at h
  rw [hf, hd] at h
  exact h rfl hc

/-- the hypothesis holds trivially for an undamaged frame -/
theorem noCollisionAt_same (f d : List Nat) (m : BlockMeta) (h : frameAt d m = frameAt f m) :
    NoCollisionAt crc f d m := by
  unfold NoCollisionAt
  rw [h]
  split
  · rename_i v b v' b' h1 h2
    rw [h1] at h2
    cases h2
    intro _ _; rfl
  · trivial

/-! ### one block, read from the damaged file -/

/-- **a data or index block read through a damaged frame is an error or the original entries** -/
theorem loadBlock_damaged {f d : List Nat} {m : BlockMeta} {es : List KV}
    (hp : loadBlock crc f m = .ok es) (hnc : NoCollisionAt crc f d m) :
    (∃ e, loadBlock crc d m = .error e) ∨ loadBlock crc d m = .ok es := by
  obtain ⟨b, hf, hc, hd⟩ := loadBlock_ok crc hp
  cases hl : loadBlock crc d m with
  | error e => exact Or.inl ⟨e, rfl⟩
  | ok es' =>
    right
    obtain ⟨b', hf', hc', hd'⟩ := loadBlock_ok crc hl
    have hb : b' = b := hnc.elim crc hf hf' (by rw [hc', hc])
    subst hb
    rw [hd] at hd'
    exact hd'.symm

theorem loadFilter_ok {file : List Nat} {m : BlockMeta} (h : loadFilter crc file m = .ok ()) :
    ∃ body, frameAt file m = .ok (1, body) ∧ crc body = m.crc ∧ body.length ≠ 0 ∧ body.length % 32 = 0 := by
  unfold loadFilter at h
  split at h
  · cases h
  · rename_i i body hr
    obtain ⟨hf, hc⟩ := readFrame_ok crc hr
    by_cases h1 : i = 1
    · subst h1
      simp only [if_true] at h
      split at h
      · cases h
      · rename_i hl
        exact ⟨body, hf, hc, by omega, by omega⟩
    · simp only [if_neg h1] at h
      split at h <;> cases h

theorem loadFilter_of_frame' {file : List Nat} {m : BlockMeta} {b : List Nat}
    (hf : frameAt file m = .ok (1, b)) (hc : crc b = m.crc) (hl : b.length ≠ 0 ∧ b.length % 32 = 0) :
    loadFilter crc file m = .ok () := by
  unfold loadFilter readFrame
  rw [hf]
  simp only [hc, ne_eq, not_true_eq_false, if_false, if_true]
  rw [if_neg (by omega)]

/-- **the filter block read through a damaged frame is an error or the original filter bytes** -/
theorem loadFilter_damaged {f d : List Nat} {m : BlockMeta}
    (hp : loadFilter crc f m = .ok ()) (hnc : NoCollisionAt crc f d m) :
    (∃ e, loadFilter crc d m = .error e)
    ∨ (loadFilter crc d m = .ok () ∧ ∃ b, frameAt f m = .ok (1, b) ∧ frameAt d m = .ok (1, b)) := by
  obtain ⟨b, hf, hc, _, _⟩ := loadFilter_ok crc hp
  cases hl : loadFilter crc d m with
  | error e => exact Or.inl ⟨e, rfl⟩
  | ok u =>
    right
    cases u
    obtain ⟨b', hf', hc', _, _⟩ := loadFilter_ok crc hl
    have hb : b' = b := hnc.elim crc hf hf' (by rw [hc', hc])
    subst hb
    exact ⟨rfl, b', hf, hf'⟩

/-! ### the open, from its parts -/

/-- `Sst::new` once the trailer, the final block and the checks on its triples are known -/
theorem openSst_of_parts (file : List Nat) (fin : Fin) (h8 : 8 ≤ file.length)
    (hfbo : unle64 (file.drop (file.length - 8)) ≤ file.length)
    (hdec : decFinal (file.drop (unle64 (file.drop (file.length - 8)))) = some fin)
    (hchk : finChecks fin (unle64 (file.drop (file.length - 8))) = none) :
    openSst crc file =
      match loadBlock crc file fin.index with
      | .error e => .error e
      | .ok ies =>
        match indexEntries ies with
        | .error e => .error e
        | .ok entries =>
          match loadFilter crc file fin.filter with
          | .error e => .error e
          | .ok () => .ok ⟨file, fin, entries, file.length⟩ := by
  unfold openSst
  simp only [hdec, hchk]
  rw [if_neg (by omega), if_neg (by omega)]
  rfl

/-- damage that leaves the trailer and the final block alone: the open of `d` reads the same final
    block and runs the same checks on it -/
theorem openSst_same_tail (f d : List Nat) (t : Opened) (h : openSst crc f = .ok t) (a : Nat)
    (hlen : d.length = f.length) (ha : a ≤ t.fin.filter.limit) (ha8 : a + 8 ≤ f.length)
    (htail : ∀ i, a ≤ i → d[i]? = f[i]?) :
    openSst crc d =
      match loadBlock crc d t.fin.index with
      | .error e => .error e
      | .ok ies =>
        match indexEntries ies with
        | .error e => .error e
        | .ok entries =>
          match loadFilter crc d t.fin.filter with
          | .error e => .error e
          | .ok () => .ok ⟨d, t.fin, entries, d.length⟩ := by
  obtain ⟨_, _, h8, hfbo, hdec, hchk, _, _⟩ := open_guarded crc f t h
  obtain ⟨_, _, _, c4⟩ := finChecks_none hchk
  have hd8 : d.drop (f.length - 8) = f.drop (f.length - 8) :=
    drop_agree f d _ hlen (fun i hi => htail i (by omega))
  have hdf : d.drop (unle64 (f.drop (f.length - 8))) = f.drop (unle64 (f.drop (f.length - 8))) :=
    drop_agree f d _ hlen (fun i hi => htail i (by omega))
  apply openSst_of_parts crc d t.fin (by omega)
  · rw [hlen, hd8]; exact hfbo
  · rw [hlen, hd8, hdf]; exact hdec
  · rw [hlen, hd8]; exact hchk

/-- **what the reader allocates before a checksum is seen**: `from_file_handle` reads the final
    block into `file_size − final_block_offset` bytes, which is meaningful because the offset was
    checked against the file size first, and the index and filter blocks into `limit − start` bytes,
    which the ordering checks bound by the file size.  (`load_block` allocates `limit − start` of an
    INDEX ENTRY before it reads: bounded for every table whose index entries are the builder's —
    `image_block_extents` — and by nothing for a forged index block.) -/
theorem open_buffers_bounded (file : List Nat) (t : Opened) (h : openSst crc file = .ok t) :
    unle64 (file.drop (file.length - 8)) ≤ file.length
    ∧ t.fin.index.limit - t.fin.index.start ≤ file.length
    ∧ t.fin.filter.limit - t.fin.filter.start ≤ file.length := by
  obtain ⟨_, _, _, hfbo, _, hchk, _, _⟩ := open_guarded crc file t h
  have := finChecks_none hchk
  omega

/-- a block that loads lies inside the file -/
theorem loadBlock_in_file {file : List Nat} {m : BlockMeta} {es : List KV} (h : loadBlock crc file m = .ok es) :
    m.start < m.limit ∧ m.limit ≤ file.length := by
  obtain ⟨b, hf, _, _⟩ := loadBlock_ok crc h
  unfold frameAt at hf
  by_cases hs : m.start ≥ m.limit
  · rw [if_pos hs] at hf; cases hf
  · rw [if_neg hs] at hf
    unfold fileSlice at hf
    by_cases hl : m.start + (m.limit - m.start) ≤ file.length
    · omega
    · rw [if_neg hl] at hf; cases hf

/-! ### the conclusion form: every read is an error or the pristine answer -/

/-- the observations of a program on the damaged table: those of the pristine table, or a proper
    prefix of them followed by one error -/
def RunErrOrSame (r' r : List (Except Err (Option KV))) : Prop :=
  r' = r ∨ ∃ n e, n < r.length ∧ r' = r.take n ++ [.error e]

/-- **every read of `t'` is an error or exactly what `t` answers** -/
structure ReadsErrOrSame (t t' : Opened) : Prop where
  /-- cursor programs, from any cursor state: the calls before the first touch of a damaged block
      return the pristine answers, the call that touches it returns an error and ends the program -/
  run : ∀ (c : LCur) (ops : List KOp), RunErrOrSame (t'.run crc c ops) (t.run crc c ops)
  load : ∀ k ts, (∃ e, t'.load crc k ts = .error e) ∨ t'.load crc k ts = t.load crc k ts
  metadata : (∃ e, t'.metadata crc = .error e) ∨ t'.metadata crc = t.metadata crc
  forward : t'.forward crc = t.forward crc
    ∨ ∃ e more, (t'.forward crc).2 = some e ∧ (t.forward crc).1 = (t'.forward crc).1 ++ more
  backward : t'.backward crc = t.backward crc
    ∨ ∃ e more, (t'.backward crc).2 = some e ∧ (t.backward crc).1 = (t'.backward crc).1 ++ more

theorem step_refines (t t' : Opened) (hent : t'.entries = t.entries)
    (hr : Refines (t'.loadIdx crc) (t.loadIdx crc)) (c c' : LCur) (op : KOp)
    (h : t'.step crc c op = .ok c') : t.step crc c op = .ok c' := by
  cases op with
  | first => exact h
  | last =>
    have h' : Except.ok (Opened.toLast t') = Except.ok c' := h
    show Except.ok (Opened.toLast t) = Except.ok c'
    unfold Opened.toLast at h' ⊢
    rw [← hent]; exact h'
  | next =>
    have h' : t'.next crc c = .ok c' := h
    show t.next crc c = .ok c'
    unfold Opened.next at h' ⊢
    rw [hent] at h'
    exact nextG_refines _ hr _ _ _ h'
  | prev =>
    have h' : t'.prev crc c = .ok c' := h
    show t.prev crc c = .ok c'
    unfold Opened.prev at h' ⊢
    rw [hent] at h'
    exact prevG_refines hr _ _ _ h'
  | seek k =>
    have h' : t'.seek crc k = .ok c' := h
    show t.seek crc k = .ok c'
    unfold Opened.seek Opened.seekIndex at h' ⊢
    rw [hent] at h'
    exact seekG_refines _ hr _ _ _ h'

theorem run_cons (t : Opened) (c : LCur) (op : KOp) (ops : List KOp) :
    t.run crc c (op :: ops) =
      match t.step crc c op with
      | .error e => [.error e]
      | .ok c' => .ok c'.kv :: t.run crc c' ops := rfl

theorem run_length_pos (t : Opened) (c : LCur) (op : KOp) (ops : List KOp) :
    0 < (t.run crc c (op :: ops)).length := by
  rw [run_cons]
  split <;> simp

theorem run_refines (t t' : Opened) (hent : t'.entries = t.entries)
    (hr : Refines (t'.loadIdx crc) (t.loadIdx crc)) :
    ∀ (ops : List KOp) (c : LCur), RunErrOrSame (t'.run crc c ops) (t.run crc c ops)
  | [], _ => Or.inl rfl
  | op :: ops, c => by
    cases hs : t'.step crc c op with
    | error e =>
      right
      refine ⟨0, e, run_length_pos crc t c op ops, ?_⟩
      rw [run_cons, hs]
      rfl
    | ok c' =>
      have hs' := step_refines crc t t' hent hr c c' op hs
      rw [run_cons, run_cons, hs, hs']
      simp only
      rcases run_refines t t' hent hr ops c' with h | ⟨n, e, hn, h⟩
      · left; rw [h]
      · right
        refine ⟨n + 1, e, by simp only [List.length_cons]; omega, ?_⟩
        rw [h]
        rfl

/-- same index entries, same final block fields, same length, and a loader that agrees with the
    pristine one wherever it succeeds ⇒ every read is an error or the pristine answer -/
theorem reads_of_refines (t t' : Opened) (hent : t'.entries = t.entries) (hfin : t'.fin = t.fin)
    (hsize : t'.fileSize = t.fileSize) (hlen : t'.file.length = t.file.length)
    (hr : Refines (t'.loadIdx crc) (t.loadIdx crc)) : ReadsErrOrSame crc t t' := by
  obtain ⟨b1, b2, b3, b4, b5, _⟩ := sst_single_burst crc t t' hent hlen hr
  refine ⟨fun c ops => run_refines crc t t' hent hr ops c, ?_, ?_, ?_, ?_⟩
  · intro k ts
    cases hl : t'.load crc k ts with
    | error e => exact Or.inl ⟨e, rfl⟩
    | ok r => right; rw [b5 k ts r hl]
  · unfold Opened.metadata
    rw [hent]
    cases he : endsG t.entries.length (t'.loadIdx crc) with
    | error e => exact Or.inl ⟨e, rfl⟩
    | ok ends =>
      right
      rw [endsG_refines _ hr ends he]
      unfold Opened.metaOf
      rw [hfin, hsize]
  · cases he : (t'.forward crc).2 with
    | none => exact Or.inl (b1 he)
    | some e => obtain ⟨more, hm⟩ := b2; exact Or.inr ⟨e, more, rfl, hm⟩
  · cases he : (t'.backward crc).2 with
    | none => exact Or.inl (b3 he)
    | some e => obtain ⟨more, hm⟩ := b4; exact Or.inr ⟨e, more, rfl, hm⟩

/-- … and when the loader is the pristine one outright, every read is the pristine answer -/
theorem reads_of_same (t t' : Opened) (hent : t'.entries = t.entries) (hfin : t'.fin = t.fin)
    (hsize : t'.fileSize = t.fileSize) (hlen : t'.file.length = t.file.length)
    (hload : ∀ i, t'.loadIdx crc i = t.loadIdx crc i) :
    (∀ c ops, t'.run crc c ops = t.run crc c ops) ∧ (∀ k ts, t'.load crc k ts = t.load crc k ts)
    ∧ t'.metadata crc = t.metadata crc ∧ t'.forward crc = t.forward crc ∧ t'.backward crc = t.backward crc := by
  obtain ⟨m1, m2, m3, m4⟩ := meta_only_reads crc t t' hent hlen hload
  have hld : t'.loadIdx crc = t.loadIdx crc := funext hload
  refine ⟨?_, m3, ?_, m1, m2⟩
  · intro c ops
    induction ops generalizing c with
    | nil => rfl
    | cons op ops ih =>
      have hstep : t'.step crc c op = t.step crc c op := by
        cases op with
        | first => rfl
        | last => show Except.ok (Opened.toLast t') = Except.ok (Opened.toLast t); unfold Opened.toLast; rw [hent]
        | next => show t'.next crc c = t.next crc c; unfold Opened.next; rw [hent, hld]
        | prev => show t'.prev crc c = t.prev crc c; unfold Opened.prev; rw [hent, hld]
        | seek k => show t'.seek crc k = t.seek crc k; unfold Opened.seek Opened.seekIndex; rw [hent, hld]
      rw [run_cons, run_cons, hstep]
      cases t.step crc c op with
      | error e => rfl
      | ok c' => simp only; rw [ih]
  · unfold Opened.metadata Opened.metaOf
    rw [hent, hld, hfin, hsize]

/-! ### damage inside the frame of one data block -/

/-- **sst_data_frame_damage**: any damage inside the extent `[m.start, m.limit)` of the `i`-th data
    block (tag, length, payload), the extent lying below the index block and apart from the other
    data blocks.  The file opens as before (data blocks are loaded lazily); the loader of every
    other block is unchanged; the loader of block `i` is an error or unchanged (`NoCollisionAt`);
    so every read is an error or the pristine answer, and reads that never load block `i` are the
    pristine answers. -/
theorem sst_data_frame_damage (f d : List Nat) (t : Opened) (h : openSst crc f = .ok t)
    (i : Nat) (k : List Nat) (m : BlockMeta) (hi : t.entries[i]? = some (k, m))
    (hbelow : m.limit ≤ t.fin.index.start) (h8 : m.limit + 8 ≤ f.length)
    (hdisj : ∀ (j : Nat) k' m', j ≠ i → t.entries[j]? = some (k', m') → m'.limit ≤ m.start ∨ m.limit ≤ m'.start)
    (hagree : AgreeOutside f d m.start m.limit)
    (hpristine : ∃ es, loadBlock crc f m = .ok es)
    (hnc : NoCollisionAt crc f d m) :
    openSst crc d = .ok { t with file := d }
    ∧ (∀ j, j ≠ i → Opened.loadIdx crc { t with file := d } j = t.loadIdx crc j)
    ∧ ((∃ e, Opened.loadIdx crc { t with file := d } i = .error e)
        ∨ Opened.loadIdx crc { t with file := d } i = t.loadIdx crc i)
    ∧ ReadsErrOrSame crc t { t with file := d } := by
  obtain ⟨hlen, hag⟩ := hagree
  obtain ⟨hfile, _, _, _, _, _, _, _⟩ := open_guarded crc f t h
  have hopen := openSst_tail crc f d t h hlen m.limit hbelow h8 (fun j hj => hag j (Or.inr hj))
  have hother : ∀ j, j ≠ i → Opened.loadIdx crc { t with file := d } j = t.loadIdx crc j := by
    intro j hj
    unfold Opened.loadIdx
    simp only
    cases hk : t.entries[j]? with
    | none => rfl
    | some km =>
      obtain ⟨k', m'⟩ := km
      simp only
      rw [hfile]
      apply loadBlock_agree crc f d m' (by rw [hlen])
      intro x hx1 hx2
      apply hag
      rcases hdisj j k' m' hj hk with h1 | h1
      · left; omega
      · right; omega
  have hself : (∃ e, Opened.loadIdx crc { t with file := d } i = .error e)
      ∨ Opened.loadIdx crc { t with file := d } i = t.loadIdx crc i := by
    obtain ⟨es, hes⟩ := hpristine
    unfold Opened.loadIdx
    simp only [hi]
    rw [hfile, hes]
    exact loadBlock_damaged crc hes hnc
  refine ⟨hopen, hother, hself, ?_⟩
  apply reads_of_refines crc t { t with file := d } rfl rfl rfl (by show d.length = t.file.length; rw [hfile, hlen])
  intro j es hj
  by_cases hji : j = i
  · subst hji
    rcases hself with ⟨e, he⟩ | he
    · rw [he] at hj; cases hj
    · rw [← he]; exact hj
  · rw [← hother j hji]; exact hj

/-- **sst_data_region_damage** (the composition `data_block_damage_opens` + `refines_of_no_collision`
    + `sst_single_burst`, for ANY damage and any cursor program): damage of any shape below `a`, all
    of it below the index block — any number of data blocks hit at once, frames and gaps alike —
    with `NoCollisionAt` for every index entry.  The file opens as before and every read is an error
    or the pristine answer. -/
theorem sst_data_region_damage (f d : List Nat) (t : Opened) (h : openSst crc f = .ok t)
    (a : Nat) (ha : a ≤ t.fin.index.start) (ha8 : a + 8 ≤ f.length)
    (hagree : AgreeOutside f d 0 a)
    (hpristine : ∀ (i : Nat) k m, t.entries[i]? = some (k, m) → ∃ es, loadBlock crc f m = .ok es)
    (hnc : ∀ (i : Nat) k m, t.entries[i]? = some (k, m) → NoCollisionAt crc f d m) :
    openSst crc d = .ok { t with file := d } ∧ ReadsErrOrSame crc t { t with file := d } := by
  obtain ⟨hlen, hag⟩ := hagree
  obtain ⟨hfile, _, _, _, _, _, _, _⟩ := open_guarded crc f t h
  have hopen := openSst_tail crc f d t h hlen a ha ha8 (fun j hj => hag j (Or.inr hj))
  refine ⟨hopen, ?_⟩
  apply reads_of_refines crc t { t with file := d } rfl rfl rfl (by show d.length = t.file.length; rw [hfile, hlen])
  intro j es hj
  unfold Opened.loadIdx at hj ⊢
  simp only at hj
  cases hk : t.entries[j]? with
  | none => rw [hk] at hj; cases hj
  | some km =>
    obtain ⟨k, m⟩ := km
    rw [hk] at hj
    simp only at hj ⊢
    obtain ⟨es0, hes0⟩ := hpristine j k m hk
    rw [hfile]
    rcases loadBlock_damaged crc hes0 (hnc j k m hk) with ⟨e, he⟩ | he
    · rw [he] at hj; cases hj
    · rw [he] at hj; rw [hes0]; exact hj

/-! ### damage inside the frame of the index block -/

/-- **sst_index_frame_damage**: any damage inside the extent of the index block.  The open fails —
    or it succeeds with the same index entries (`NoCollisionAt`), and then every block loads as
    before and every read is the pristine answer. -/
theorem sst_index_frame_damage (f d : List Nat) (t : Opened) (h : openSst crc f = .ok t)
    (h8 : t.fin.index.limit + 8 ≤ f.length)
    (hdata : ∀ km ∈ t.entries, km.2.limit ≤ t.fin.index.start ∨ t.fin.index.limit ≤ km.2.start)
    (hagree : AgreeOutside f d t.fin.index.start t.fin.index.limit)
    (hnc : NoCollisionAt crc f d t.fin.index) :
    (∃ e, openSst crc d = .error e)
    ∨ (openSst crc d = .ok { t with file := d }
        ∧ (∀ j, Opened.loadIdx crc { t with file := d } j = t.loadIdx crc j)
        ∧ ReadsErrOrSame crc t { t with file := d }) := by
  obtain ⟨hlen, hag⟩ := hagree
  obtain ⟨hfile, hsize, _, _, _, hchk, ⟨ies, hib, hents⟩, hfil⟩ := open_guarded crc f t h
  obtain ⟨c1, c2, c3, c4⟩ := finChecks_none hchk
  have hopen := openSst_same_tail crc f d t h t.fin.index.limit hlen (by omega) h8
    (fun j hj => hag j (Or.inr hj))
  have hfil' : loadFilter crc d t.fin.filter = .ok () := by
    rw [loadFilter_agree crc f d _ (by rw [hlen]) (fun x hx _ => hag x (Or.inr (by omega)))]; exact hfil
  rcases loadBlock_damaged crc hib hnc with ⟨e, he⟩ | he
  · left
    refine ⟨e, ?_⟩
    rw [hopen, he]
  · right
    have ho : openSst crc d = .ok { t with file := d } := by
      rw [hopen, he]
      simp only [hents, hfil']
      cases t
      simp_all
    have hall : ∀ j, Opened.loadIdx crc { t with file := d } j = t.loadIdx crc j := by
      intro j
      unfold Opened.loadIdx
      simp only
      cases hk : t.entries[j]? with
      | none => rfl
      | some km =>
        obtain ⟨k', m'⟩ := km
        simp only
        rw [hfile]
        apply loadBlock_agree crc f d m' (by rw [hlen])
        intro x hx1 hx2
        apply hag
        rcases hdata (k', m') (List.mem_of_getElem? hk) with h1 | h1
        · left; simp only at h1; omega
        · right; simp only at h1; omega
    refine ⟨ho, hall, ?_⟩
    apply reads_of_refines crc t { t with file := d } rfl rfl rfl (by show d.length = t.file.length; rw [hfile, hlen])
    intro j es hj
    rw [← hall j]; exact hj

/-! ### damage inside the frame of the filter block -/

/-- **sst_filter_frame_damage**: any damage inside the extent of the filter block.  The open fails —
    or it succeeds with the original filter bytes (`NoCollisionAt`), and everything is as it was. -/
theorem sst_filter_frame_damage (f d : List Nat) (t : Opened) (h : openSst crc f = .ok t)
    (h8 : t.fin.filter.limit + 8 ≤ f.length)
    (hdata : ∀ km ∈ t.entries, km.2.limit ≤ t.fin.filter.start ∨ t.fin.filter.limit ≤ km.2.start)
    (hagree : AgreeOutside f d t.fin.filter.start t.fin.filter.limit)
    (hnc : NoCollisionAt crc f d t.fin.filter) :
    (∃ e, openSst crc d = .error e)
    ∨ (openSst crc d = .ok { t with file := d }
        ∧ (∃ b, frameAt f t.fin.filter = .ok (1, b) ∧ frameAt d t.fin.filter = .ok (1, b))
        ∧ (∀ j, Opened.loadIdx crc { t with file := d } j = t.loadIdx crc j)
        ∧ ReadsErrOrSame crc t { t with file := d }) := by
  obtain ⟨hlen, hag⟩ := hagree
  obtain ⟨hfile, hsize, _, _, _, hchk, ⟨ies, hib, hents⟩, hfil⟩ := open_guarded crc f t h
  obtain ⟨c1, c2, c3, c4⟩ := finChecks_none hchk
  have hopen := openSst_same_tail crc f d t h t.fin.filter.limit hlen (Nat.le_refl _) h8
    (fun j hj => hag j (Or.inr hj))
  have hib' : loadBlock crc d t.fin.index = .ok ies := by
    rw [loadBlock_agree crc f d _ (by rw [hlen]) (fun x _ hx => hag x (Or.inl (by omega)))]; exact hib
  rcases loadFilter_damaged crc hfil hnc with ⟨e, he⟩ | ⟨he, hb⟩
  · left
    refine ⟨e, ?_⟩
    rw [hopen, hib']
    simp only [hents, he]
  · right
    have ho : openSst crc d = .ok { t with file := d } := by
      rw [hopen, hib']
      simp only [hents, he]
      cases t
      simp_all
    have hall : ∀ j, Opened.loadIdx crc { t with file := d } j = t.loadIdx crc j := by
      intro j
      unfold Opened.loadIdx
      simp only
      cases hk : t.entries[j]? with
      | none => rfl
      | some km =>
        obtain ⟨k', m'⟩ := km
        simp only
        rw [hfile]
        apply loadBlock_agree crc f d m' (by rw [hlen])
        intro x hx1 hx2
        apply hag
        rcases hdata (k', m') (List.mem_of_getElem? hk) with h1 | h1
        · left; simp only at h1; omega
        · right; simp only at h1; omega
    refine ⟨ho, hb, hall, ?_⟩
    apply reads_of_refines crc t { t with file := d } rfl rfl rfl (by show d.length = t.file.length; rw [hfile, hlen])
    intro j es hj
    rw [← hall j]; exact hj

/-! ### the unchecksummed tail: final block and trailer, any length -/

/-- what any replacement of the bytes after the blocks comes to -/
inductive TailCase where
  /-- the open fails -/
  | detected (e : Err)
  /-- same index triple, same filter triple: only `setsum`, `smallest_timestamp`,
      `biggest_timestamp` and the file size can differ (D-10) -/
  | metaOnly
  /-- same index triple, another filter triple — which names a filter frame matching the CRC it
      records -/
  | filterRedirected
  /-- another index triple — which names a plain frame matching the CRC it records -/
  | indexRedirected
deriving DecidableEq, Repr

/-- the classification is decidable: run the open, compare the two triples -/
def classifyTail (t : Opened) (f' : List Nat) : TailCase :=
  match openSst crc f' with
  | .error e => .detected e
  | .ok t' =>
    if t'.fin.index ≠ t.fin.index then .indexRedirected
    else if t'.fin.filter ≠ t.fin.filter then .filterRedirected
    else .metaOnly

/-- **sst_tail_cases**: `f` opens to `t`; `f'` agrees with `f` on the first `a` bytes, which hold
    the index block and every data block — nothing else is assumed about `f'`, not its length
    (damage to the final block or the trailer, a truncation inside them, appended bytes).  `f'` is
    rejected; or it opens to the same index entries over the same data blocks with the same filter
    triple; or its final block names another filter frame, or another index frame, that matches the
    CRC recorded for it in that same (unchecksummed) final block. -/
theorem sst_tail_cases (f f' : List Nat) (t : Opened) (h : openSst crc f = .ok t)
    (a : Nat) (ha : a ≤ f.length) (ha' : a ≤ f'.length) (hhead : ∀ i, i < a → f'[i]? = f[i]?)
    (hidx : t.fin.index.limit ≤ a) (hdata : ∀ km ∈ t.entries, km.2.limit ≤ a) :
    match classifyTail crc t f' with
    | .detected e => openSst crc f' = .error e
    | .metaOnly => ∃ t', openSst crc f' = .ok t' ∧ t'.fin.index = t.fin.index ∧ t'.fin.filter = t.fin.filter
        ∧ t'.entries = t.entries ∧ ∀ i, t'.loadIdx crc i = t.loadIdx crc i
    | .filterRedirected => ∃ t', openSst crc f' = .ok t' ∧ t'.fin.index = t.fin.index
        ∧ t'.entries = t.entries ∧ (∀ i, t'.loadIdx crc i = t.loadIdx crc i)
        ∧ t'.fin.filter ≠ t.fin.filter
        ∧ ∃ body, frameAt f' t'.fin.filter = .ok (1, body) ∧ crc body = t'.fin.filter.crc
    | .indexRedirected => ∃ t', openSst crc f' = .ok t' ∧ t'.fin.index ≠ t.fin.index
        ∧ ∃ body, frameAt f' t'.fin.index = .ok (0, body) ∧ crc body = t'.fin.index.crc := by
  unfold classifyTail
  cases ho : openSst crc f' with
  | error e => rfl
  | ok t' =>
    simp only
    obtain ⟨hfile, _, _, _, _, _, ⟨ies, hib, hents⟩, _⟩ := open_guarded crc f t h
    obtain ⟨hfile', _, _, _, _, _, ⟨ies', hib', hents'⟩, hfil'⟩ := open_guarded crc f' t' ho
    by_cases he : t'.fin.index = t.fin.index
    · rw [if_neg (by intro hc; exact hc he)]
      have hagree : ∀ (m : BlockMeta), m.limit ≤ a → loadBlock crc f' m = loadBlock crc f m := by
        intro m hm
        exact loadBlock_agree crc f f' m ⟨fun _ => by omega, fun _ => by omega⟩ (fun i _ hi => hhead i (by omega))
      have hent : t'.entries = t.entries := by
        rw [he, hagree _ hidx, hib] at hib'
        cases hib'
        rw [hents] at hents'
        exact (Except.ok.inj hents').symm
      have hload : ∀ i, t'.loadIdx crc i = t.loadIdx crc i := by
        intro i
        unfold Opened.loadIdx
        rw [hent, hfile, hfile']
        cases hk : t.entries[i]? with
        | none => rfl
        | some km =>
          obtain ⟨k, m⟩ := km
          exact hagree m (hdata (k, m) (List.mem_of_getElem? hk))
      by_cases hf : t'.fin.filter = t.fin.filter
      · rw [if_neg (by intro hc; exact hc hf)]
        exact ⟨t', rfl, he, hf, hent, hload⟩
      · rw [if_pos hf]
        obtain ⟨body, hb1, hb2, _, _⟩ := loadFilter_ok crc hfil'
        exact ⟨t', rfl, he, hent, hload, hf, body, hb1, hb2⟩
    · rw [if_pos he]
      obtain ⟨body, hf, hc, _⟩ := loadBlock_ok crc hib'
      exact ⟨t', rfl, he, body, hf, hc⟩

/-- the tail hypothesis: the damaged tail does not name another index or filter frame that matches
    the CRC the damaged tail itself records for it (decidable: run the open) -/
def NoRedirect (t : Opened) (f' : List Nat) : Prop :=
  classifyTail crc t f' ≠ .filterRedirected ∧ classifyTail crc t f' ≠ .indexRedirected

instance (t : Opened) (f' : List Nat) : Decidable (NoRedirect crc t f') := by
  unfold NoRedirect; infer_instance

/-- **sst_tail_damage** (same length): damage confined to the bytes after the filter block — final
    block and trailer — under `NoRedirect`.  The open fails, or every cursor program, every `load`
    and both walks are the pristine ones and `metadata` is the pristine one with the damaged final
    block's `setsum`, `smallest_timestamp`, `biggest_timestamp` put in (D-10: returned as genuine);
    the filter block the damaged table consults is the original one, byte for byte. -/
theorem sst_tail_damage (f d : List Nat) (t : Opened) (h : openSst crc f = .ok t)
    (a : Nat) (ha : a ≤ f.length) (hidx : t.fin.index.limit ≤ a) (hdata : ∀ km ∈ t.entries, km.2.limit ≤ a)
    (hfl : t.fin.filter.limit ≤ a)
    (hagree : AgreeOutside f d a f.length) (hnr : NoRedirect crc t d) :
    (∃ e, openSst crc d = .error e)
    ∨ ∃ t', openSst crc d = .ok t' ∧ t'.entries = t.entries ∧ t'.fin.index = t.fin.index
        ∧ t'.fin.filter = t.fin.filter ∧ frameAt d t'.fin.filter = frameAt f t.fin.filter
        ∧ (∀ c ops, t'.run crc c ops = t.run crc c ops) ∧ (∀ k ts, t'.load crc k ts = t.load crc k ts)
        ∧ t'.forward crc = t.forward crc ∧ t'.backward crc = t.backward crc
        ∧ t'.metadata crc = (match t.metadata crc with
            | .error e => .error e
            | .ok m => .ok { m with setsum := t'.fin.setsum, smallest := t'.fin.smallest, biggest := t'.fin.biggest,
                                    fileSize := t'.fileSize })
        ∧ t'.fileSize = t.fileSize := by
  obtain ⟨hlen, hag⟩ := hagree
  have hc := sst_tail_cases crc f d t h a ha (by omega) (fun i hi => hag i (Or.inl hi)) hidx hdata
  cases hcl : classifyTail crc t d with
  | detected e => rw [hcl] at hc; exact Or.inl ⟨e, hc⟩
  | filterRedirected => exact absurd hcl hnr.1
  | indexRedirected => exact absurd hcl hnr.2
  | metaOnly =>
    rw [hcl] at hc
    obtain ⟨t', ho, hi, hf, hent, hload⟩ := hc
    right
    obtain ⟨hfile, hsz, _⟩ := open_guarded crc f t h
    obtain ⟨hfile', hsz', _⟩ := open_guarded crc d t' ho
    have hl : t'.file.length = t.file.length := by rw [hfile, hfile', hlen]
    obtain ⟨m1, m2, m3, m4⟩ := meta_only_reads crc t t' hent hl hload
    have hld : t'.loadIdx crc = t.loadIdx crc := funext hload
    have hff : frameAt d t'.fin.filter = frameAt f t.fin.filter := by
      rw [hf]
      exact frameAt_agree f d _ ⟨fun _ => by omega, fun _ => by omega⟩ (fun i _ hi => hag i (Or.inl (by omega)))
    refine ⟨t', ho, hent, hi, hf, hff, ?_, m3, m1, m2, m4, by rw [hsz', hsz, hlen]⟩
    · intro c ops
      induction ops generalizing c with
      | nil => rfl
      | cons op ops ih =>
        have hstep : t'.step crc c op = t.step crc c op := by
          cases op with
          | first => rfl
          | last => show Except.ok (Opened.toLast t') = Except.ok (Opened.toLast t); unfold Opened.toLast; rw [hent]
          | next => show t'.next crc c = t.next crc c; unfold Opened.next; rw [hent, hld]
          | prev => show t'.prev crc c = t.prev crc c; unfold Opened.prev; rw [hent, hld]
          | seek k => show t'.seek crc k = t.seek crc k; unfold Opened.seek Opened.seekIndex; rw [hent, hld]
        rw [run_cons, run_cons, hstep]
        cases t.step crc c op with
        | error e => rfl
        | ok c' => simp only; rw [ih]

/-- **sst_truncated_below_filter**: a file cut anywhere below the end of its filter block is
    rejected — or it opens with a final block read from inside the surviving bytes, which names a
    filter frame other than the original one that matches the CRC recorded with it (the redirected
    case: excluded by `NoRedirect`, not by any check of the code). -/
theorem sst_truncated_below_filter (f : List Nat) (t : Opened) (_h : openSst crc f = .ok t) (n : Nat)
    (hn : n < t.fin.filter.limit) :
    (∃ e, openSst crc (f.take n) = .error e)
    ∨ ∃ t', openSst crc (f.take n) = .ok t' ∧ t'.fin.filter ≠ t.fin.filter
        ∧ ∃ body, frameAt (f.take n) t'.fin.filter = .ok (1, body) ∧ crc body = t'.fin.filter.crc := by
  cases ho : openSst crc (f.take n) with
  | error e => exact Or.inl ⟨e, rfl⟩
  | ok t' =>
    right
    obtain ⟨_, _, _, hfbo, _, hchk, _, hfil⟩ := open_guarded crc (f.take n) t' ho
    obtain ⟨_, _, _, c4⟩ := finChecks_none hchk
    obtain ⟨body, hb1, hb2, _, _⟩ := loadFilter_ok crc hfil
    refine ⟨t', rfl, ?_, body, hb1, hb2⟩
    intro heq
    have : (f.take n).length ≤ n := by rw [List.length_take]; omega
    rw [heq] at c4
    omega

end
end Blue.SstOpen
