import Blue.Proofs.WaveletList
import Blue.Proofs.WaveletCode
/-! `construct_recursive` succeeds on prefix-free codes, and what `recursive_access`,
    `recursive_rank`, `recursive_select` compute on the tree it builds (property C19). -/
namespace Blue.Wavelet

/-! ### `construct_recursive` -/

theorem build_zero (syms : List Code) : build 0 syms = none := rfl

theorem build_succ (f : Nat) (syms : List Code) :
    build (f + 1) syms =
      if bad syms then none else
      match (if (leftSyms syms).isEmpty then some Tree.absent else build f (leftSyms syms)),
            (if (rightSyms syms).isEmpty then some Tree.absent else build f (rightSyms syms)) with
      | some l, some r => some (Tree.node (syms.map isRight) l r)
      | _, _ => none := rfl

/-- the child on side `b` -/
def child (f : Nat) (b : Bool) (syms : List Code) : Option Tree :=
  if (side b syms).isEmpty then some Tree.absent else build f (side b syms)

def pick (b : Bool) (l r : Tree) : Tree := if b then r else l

theorem build_valid (f : Nat) {syms : List Code} (hv : Valid syms) :
    build (f + 1) syms =
      match child f false syms, child f true syms with
      | some l, some r => some (Tree.node (syms.map isRight) l r)
      | _, _ => none := by
  rw [build_succ, not_bad hv, leftSyms_eq, rightSyms_eq]
  rfl

theorem build_inv {f : Nat} {syms : List Code} {t : Tree} (hv : Valid syms) (h : build (f + 1) syms = some t) :
    ∃ l r, t = Tree.node (syms.map isRight) l r ∧ ∀ b, child f b syms = some (pick b l r) := by
  rw [build_valid f hv] at h
  cases hl : child f false syms with
  | none => rw [hl] at h; cases h
  | some l =>
    cases hr : child f true syms with
    | none => rw [hl, hr] at h; cases h
    | some r =>
      rw [hl, hr] at h
      simp only [Option.some.injEq] at h
      refine ⟨l, r, h.symm, ?_⟩
      intro b
      cases b
      · exact hl
      · exact hr

theorem child_absent {f : Nat} {b : Bool} {syms : List Code} (h : side b syms = []) :
    child f b syms = some Tree.absent := by
  unfold child; rw [h]; rfl

theorem child_build {f : Nat} {b : Bool} {syms : List Code} (h : side b syms ≠ []) :
    child f b syms = build f (side b syms) := by
  unfold child
  rw [if_neg (by simpa using h)]

/-- **C19** no `LogicError`: with more fuel than the longest code, `construct_recursive`
    succeeds on codes none of which is a prefix of another -/
theorem build_some : ∀ (f : Nat) (syms : List Code), Valid syms → (∀ c ∈ syms, c.2 ≤ f) →
    ∃ t, build (f + 1) syms = some t
  | f, syms, hv, hlen => by
    have hchild : ∀ b, ∃ t, child f b syms = some t := by
      intro b
      by_cases hne : side b syms = []
      · exact ⟨_, child_absent hne⟩
      · rw [child_build hne]
        obtain ⟨d, hd⟩ := List.exists_mem_of_ne_nil _ hne
        obtain ⟨c, hc, h1, _, _⟩ := mem_side.mp hd
        have hcf := hlen c hc
        obtain ⟨f', rfl⟩ : ∃ f', f = f' + 1 := ⟨f - 1, by omega⟩
        apply build_some f' (side b syms) (valid_side hv b)
        intro d' hd'
        obtain ⟨c', hc', _, _, rfl⟩ := mem_side.mp hd'
        have := hlen c' hc'
        rw [next_eq]
        show c'.2 - 1 ≤ f'
        omega
    obtain ⟨l, hl⟩ := hchild false
    obtain ⟨r, hr⟩ := hchild true
    rw [build_valid f hv, hl, hr]
    exact ⟨_, rfl⟩

/-! ### a node's bit vector against the codes passing through -/

/-- the codes on side `b` -/
def onSide (b : Bool) (c : Code) : Bool := isRight c == b

theorem onSide_self (q : Code) : onSide (isRight q) q = true := by unfold onSide; simp

theorem onSide_iff {b : Bool} {c : Code} : onSide b c = true ↔ isRight c = b := by
  unfold onSide; simp

/-- `rank` / `x - rank` of the node's bits = how many of the first `x` codes go to side `b` -/
theorem thisRank_eq (syms : List Code) (b : Bool) (x : Nat) (hx : x ≤ syms.length) :
    (if b then ((syms.map isRight).take x).count true else x - ((syms.map isRight).take x).count true)
      = (syms.take x).countP (onSide b) := by
  rw [count_map_take]
  cases b with
  | true => rfl
  | false =>
    have := countP_not_take isRight true syms x hx
    simp only [Bool.not_true] at this
    simp only [Bool.false_eq_true, if_false]
    rw [← this]
    rfl

theorem count_bits (syms : List Code) (b : Bool) (x : Nat) :
    ((syms.map isRight).take x).count b = (syms.take x).countP (onSide b) :=
  count_map_take isRight b syms x

theorem count_bits_all (syms : List Code) (b : Bool) :
    (syms.map isRight).count b = syms.countP (onSide b) :=
  count_map isRight b syms

/-- a one-bit `q`: counting `q` is counting its side -/
theorem count_single {syms : List Code} {q : Code} (hq : QOK syms q) (h1 : q.2 = 1) (x : Nat) :
    (syms.take x).count q = (syms.take x).countP (onSide (isRight q)) :=
  count_eq_countP_of_all (onSide (isRight q)) q (onSide_self q) _
    (fun d hd hb => side_all_eq hq h1 d (List.mem_of_mem_take hd) (onSide_iff.mp hb))

theorem count_single_all {syms : List Code} {q : Code} (hq : QOK syms q) (h1 : q.2 = 1) :
    syms.count q = syms.countP (onSide (isRight q)) :=
  count_eq_countP_of_all (onSide (isRight q)) q (onSide_self q) _
    (fun d hd hb => side_all_eq hq h1 d hd (onSide_iff.mp hb))

theorem side_deep {syms : List Code} {q : Code} (hq : QOK syms q) (h1 : 1 < q.2) :
    side (isRight q) syms = (syms.filter (onSide (isRight q))).map next :=
  side_eq_of_deep (side_all_deep hq h1)

theorem side_length {syms : List Code} {q : Code} (hq : QOK syms q) (h1 : 1 < q.2) :
    (side (isRight q) syms).length = syms.countP (onSide (isRight q)) := by
  rw [side_deep hq h1, List.length_map, List.countP_eq_length_filter]

/-- **C19** (the structural lemma) a longer `q`: the number of `q` among the first `x` codes is
    the number of `next q` among the first `rank` codes of the child, `rank` being the number of
    the first `x` codes that go to `q`'s side -/
theorem count_side {syms : List Code} {q : Code} (hq : QOK syms q) (h1 : 1 < q.2) (x : Nat) :
    ((side (isRight q) syms).take ((syms.take x).countP (onSide (isRight q)))).count (next q)
      = (syms.take x).count q := by
  rw [side_deep hq h1, ← List.map_take, ← filter_take]
  apply count_map_filter (onSide (isRight q)) next q (onSide_self q)
  intro d hd hb hn
  have hdm := List.mem_of_mem_take hd
  exact next_inj (hq.2.1 d hdm).1 hq.1.1 (onSide_iff.mp hb) hn

theorem count_side_all {syms : List Code} {q : Code} (hq : QOK syms q) (h1 : 1 < q.2) :
    (side (isRight q) syms).count (next q) = syms.count q := by
  rw [side_deep hq h1]
  apply count_map_filter (onSide (isRight q)) next q (onSide_self q)
  intro d hd hb hn
  exact next_inj (hq.2.1 d hd).1 hq.1.1 (onSide_iff.mp hb) hn

/-- … and the `x`-th code, when it goes to side `b` unfinished, is the `rank`-th of the child -/
theorem getElem?_side {syms : List Code} {c : Code} {x : Nat} (hv : Valid syms) (hx : syms[x]? = some c)
    (h1 : 1 < c.2) :
    (side (isRight c) syms)[(syms.take x).countP (onSide (isRight c))]? = some (next c) := by
  rw [side_deep (QOK.of_mem hv (List.mem_of_getElem? hx)) h1, List.getElem?_map,
    getElem?_filter (onSide (isRight c)) c (onSide_self c) syms x hx]
  rfl

/-! ### `recursive_rank` -/

theorem isRight_mk (e sz : Nat) : (e &&& 1 ≠ 0) ↔ isRight (e, sz) = true := by
  unfold isRight
  simp only [Nat.and_one_is_mod, beq_iff_eq]
  have : e % 2 < 2 := Nat.mod_lt _ (by omega)
  omega

theorem recRank_absent (e sz x : Nat) : recRank Tree.absent e sz x = none := rfl

theorem recRank_node (bits : List Bool) (l r : Tree) (e sz x : Nat) :
    recRank (Tree.node bits l r) e sz x =
      if sz = 0 then none else
      match BitVec.rank bits x with
      | none => none
      | some k =>
        if sz = 1 then some (if isRight (e, sz) then k else x - k)
        else recRank (pick (isRight (e, sz)) l r) (e >>> 1) (sz - 1) (if isRight (e, sz) then k else x - k) := by
  have h0 : recRank (Tree.node bits l r) e sz x =
      if sz = 0 then none else
      match BitVec.rank bits x with
      | none => none
      | some k =>
        if e &&& 1 ≠ 0 then
          if sz = 1 then some k else recRank r (e >>> 1) (sz - 1) k
        else
          if sz = 1 then some (x - k) else recRank l (e >>> 1) (sz - 1) (x - k) := rfl
  rw [h0]
  by_cases hb : e &&& 1 ≠ 0
  · have hr := (isRight_mk e sz).mp hb
    simp only [hb, hr, pick, if_true, ne_eq, not_false_eq_true]
  · have hr : isRight (e, sz) = false := by
      cases h : isRight (e, sz) with
      | false => rfl
      | true => exact absurd ((isRight_mk e sz).mpr h) hb
    simp only [hb, hr, pick, if_false, Bool.false_eq_true]

/-- **C19** `recursive_rank` on the tree built from `syms`, asked for a code `q` that is one of
    them or incomparable to all: the number of `q` among the first `x`, when `x` is in range and
    the node holding `q`'s last bit exists; `None` otherwise -/
theorem recRank_build : ∀ (f : Nat) (syms : List Code) (t : Tree), Valid syms → build f syms = some t →
    ∀ (q : Code), QOK syms q → ∀ (x : Nat),
      (x ≤ syms.length → Sib syms q → recRank t q.1 q.2 x = some ((syms.take x).count q))
      ∧ (¬ (x ≤ syms.length ∧ Sib syms q) → recRank t q.1 q.2 x = none)
  | 0, _, _, _, h => by rw [build_zero] at h; cases h
  | f + 1, syms, t, hv, h => by
    intro q hq x
    obtain ⟨l, r, rfl, hch⟩ := build_inv hv h
    have hq0 : q.2 ≠ 0 := by have := hq.1.1; omega
    rw [recRank_node, if_neg hq0]
    by_cases hx : x ≤ syms.length
    · rw [BitVec.rank_some _ x (by rw [List.length_map]; exact hx)]
      simp only
      rw [thisRank_eq syms (isRight q) x hx]
      by_cases h1 : q.2 = 1
      · rw [if_pos h1]
        refine ⟨fun _ _ => by rw [count_single hq h1], fun hn => absurd ⟨hx, Or.inl h1⟩ hn⟩
      · rw [if_neg h1]
        have hdeep : 1 < q.2 := by omega
        by_cases hne : side (isRight q) syms = []
        · have := hch (isRight q)
          rw [child_absent hne] at this
          simp only [Option.some.injEq] at this
          rw [← this, recRank_absent]
          refine ⟨fun _ hs => ?_, fun _ => rfl⟩
          exact absurd hne ((sib_side hdeep).mp hs).1
        · have hb := hch (isRight q)
          rw [child_build hne] at hb
          obtain ⟨ih1, ih2⟩ := recRank_build f (side (isRight q) syms) _ (valid_side hv _) hb
            (next q) (qok_side hq hdeep) ((syms.take x).countP (onSide (isRight q)))
          have hk : (syms.take x).countP (onSide (isRight q)) ≤ (side (isRight q) syms).length := by
            rw [side_length hq hdeep]; exact countP_take_le _ _ _
          show (_ → _ → recRank _ (next q).1 (next q).2 _ = _) ∧ (_ → recRank _ (next q).1 (next q).2 _ = _)
          refine ⟨fun _ hs => ?_, fun hn => ?_⟩
          · rw [ih1 hk ((sib_side hdeep).mp hs).2, count_side hq hdeep]
          · apply ih2
            intro ⟨_, hs⟩
            exact hn ⟨hx, (sib_side hdeep).mpr ⟨hne, hs⟩⟩
    · have : BitVec.rank (syms.map isRight) x = none := by
        unfold BitVec.rank
        rw [if_neg (by rw [List.length_map]; exact hx)]
      rw [this]
      exact ⟨fun h' => absurd h' hx, fun _ => rfl⟩

/-! ### `recursive_select` -/

/-- `select` / `select0` -/
def selB (bits : List Bool) (b : Bool) (y : Nat) : Option Nat :=
  if b then BitVec.select bits y else BitVec.select0 bits y

theorem selB_spec (bits : List Bool) (b : Bool) (y p : Nat) (h : selB bits b y = some p) :
    p ≤ bits.length ∧ (bits.take p).count b = y ∧ ∀ p', p' < p → (bits.take p').count b < y := by
  cases b with
  | true => exact BitVec.select_spec bits y p h
  | false => exact BitVec.select0_spec bits y p h

theorem selB_none (bits : List Bool) (b : Bool) (y : Nat) (h : selB bits b y = none) :
    bits.count b < y := by
  apply Nat.lt_of_not_le
  intro hle
  cases b with
  | true =>
    have := (BitVec.select_defined_iff bits y).mpr hle
    unfold selB at h
    simp only [if_true] at h
    rw [h] at this
    cases this
  | false =>
    have := (BitVec.select0_defined_iff bits y).mpr hle
    unfold selB at h
    simp only [Bool.false_eq_true, if_false] at h
    rw [h] at this
    cases this

theorem recSelect_absent (e sz x : Nat) : recSelect Tree.absent e sz x = none := rfl

theorem recSelect_node (bits : List Bool) (l r : Tree) (e sz x : Nat) :
    recSelect (Tree.node bits l r) e sz x =
      if sz = 0 then none else
      match (if 1 < sz then recSelect (pick (isRight (e, sz)) l r) (e >>> 1) (sz - 1) x else some x) with
      | none => none
      | some y => selB bits (isRight (e, sz)) y := by
  have h0 : recSelect (Tree.node bits l r) e sz x =
      if sz = 0 then none else
      if e &&& 1 ≠ 0 then
        match (if 1 < sz then recSelect r (e >>> 1) (sz - 1) x else some x) with
        | none => none
        | some y => BitVec.select bits y
      else
        match (if 1 < sz then recSelect l (e >>> 1) (sz - 1) x else some x) with
        | none => none
        | some y => BitVec.select0 bits y := rfl
  rw [h0]
  by_cases hb : e &&& 1 ≠ 0
  · have hr := (isRight_mk e sz).mp hb
    simp only [hb, hr, pick, selB, if_true, ne_eq, not_false_eq_true]
  · have hr : isRight (e, sz) = false := by
      cases h : isRight (e, sz) with
      | false => rfl
      | true => exact absurd ((isRight_mk e sz).mpr h) hb
    simp only [hb, hr, pick, selB, if_false, Bool.false_eq_true]

/-- the last step of `recursive_select`: map a position `y` among the codes on `q`'s side back to
    a position of the node -/
theorem selB_node {syms : List Code} {b : Bool} {y p : Nat} (h : selB (syms.map isRight) b y = some p) :
    p ≤ syms.length ∧ (syms.take p).countP (onSide b) = y
      ∧ ∀ p', p' < p → (syms.take p').countP (onSide b) < y := by
  obtain ⟨h1, h2, h3⟩ := selB_spec _ _ _ _ h
  rw [List.length_map] at h1
  rw [count_bits] at h2
  exact ⟨h1, h2, fun p' hp' => by have := h3 p' hp'; rwa [count_bits] at this⟩

/-- **C19** `recursive_select` on the tree built from `syms`: when the node holding `q`'s last
    bit exists, the least position before which there are `x` codes `q` (`None` iff there are
    fewer than `x`); `None` otherwise -/
theorem recSelect_build : ∀ (f : Nat) (syms : List Code) (t : Tree), Valid syms → build f syms = some t →
    ∀ (q : Code), QOK syms q → ∀ (x : Nat),
      (Sib syms q → (∀ p, recSelect t q.1 q.2 x = some p → IsLeast syms q x p)
                    ∧ (recSelect t q.1 q.2 x = none → syms.count q < x))
      ∧ (¬ Sib syms q → recSelect t q.1 q.2 x = none)
  | 0, _, _, _, h => by rw [build_zero] at h; cases h
  | f + 1, syms, t, hv, h => by
    intro q hq x
    obtain ⟨l, r, rfl, hch⟩ := build_inv hv h
    have hq0 : q.2 ≠ 0 := by have := hq.1.1; omega
    rw [recSelect_node, if_neg hq0]
    by_cases h1 : q.2 = 1
    · rw [if_neg (by omega)]
      simp only
      refine ⟨fun _ => ⟨fun p hp => ?_, fun hn => ?_⟩, fun hn => absurd (Or.inl h1) hn⟩
      · obtain ⟨k1, k2, k3⟩ := selB_node hp
        refine ⟨k1, by rw [count_single hq h1]; exact k2, fun p' hp' => ?_⟩
        rw [count_single hq h1]; exact k3 p' hp'
      · have := selB_none _ _ _ hn
        rw [count_bits_all] at this
        rw [count_single_all hq h1]; exact this
    · have hdeep : 1 < q.2 := by omega
      rw [if_pos hdeep]
      by_cases hne : side (isRight q) syms = []
      · have := hch (isRight q)
        rw [child_absent hne] at this
        simp only [Option.some.injEq] at this
        rw [← this, recSelect_absent]
        refine ⟨fun hs => absurd hne ((sib_side hdeep).mp hs).1, fun _ => rfl⟩
      · have hb := hch (isRight q)
        rw [child_build hne] at hb
        obtain ⟨ih1, ih2⟩ := recSelect_build f (side (isRight q) syms) _ (valid_side hv _) hb
          (next q) (qok_side hq hdeep) x
        show (_ → (∀ p, (match (recSelect _ (next q).1 (next q).2 x) with
                          | none => none | some y => selB _ _ y) = some p → _) ∧
                   ((match (recSelect _ (next q).1 (next q).2 x) with
                          | none => none | some y => selB _ _ y) = none → _))
             ∧ (_ → (match (recSelect _ (next q).1 (next q).2 x) with
                          | none => none | some y => selB _ _ y) = none)
        refine ⟨fun hs => ?_, fun hn => ?_⟩
        · obtain ⟨ihs, ihn⟩ := ih1 ((sib_side hdeep).mp hs).2
          cases hin : recSelect (pick (isRight q) l r) (next q).1 (next q).2 x with
          | none =>
            refine ⟨fun p hp => (by cases hp), fun _ => ?_⟩
            rw [← count_side_all hq hdeep]
            exact ihn hin
          | some y =>
            simp only
            obtain ⟨y1, y2, y3⟩ := ihs y hin
            refine ⟨fun p hp => ?_, fun hnone => ?_⟩
            · obtain ⟨k1, k2, k3⟩ := selB_node hp
              refine ⟨k1, ?_, fun p' hp' => ?_⟩
              · rw [← count_side hq hdeep, k2]; exact y2
              · rw [← count_side hq hdeep]
                exact y3 _ (k3 p' hp')
            · exfalso
              have := selB_none _ _ _ hnone
              rw [count_bits_all, ← side_length hq hdeep] at this
              omega
        · have := ih2 (fun hs => hn ((sib_side hdeep).mpr ⟨hne, hs⟩))
          rw [this]

/-! ### `recursive_access` -/

theorem decode_sz (cb : CodeBook) (e s s' : Nat) : decode cb e s = decode cb e s' := rfl

theorem recAccess_absent (cb : CodeBook) (e sz x : Nat) : recAccess cb Tree.absent e sz x = decode cb e sz := rfl

theorem recAccess_node (cb : CodeBook) (bits : List Bool) (l r : Tree) (e sz x : Nat) :
    recAccess cb (Tree.node bits l r) e sz x =
      match accessRank bits x with
      | none => none
      | some (bit, rank) =>
        if bit then recAccess cb r (e ||| (1 <<< sz)) (sz + 1) rank
        else recAccess cb l e (sz + 1) (x - rank) := rfl

theorem or_one_shl {e sz : Nat} (h : e < 2 ^ sz) : e ||| (1 <<< sz) = e + 2 ^ sz := by
  have := Nat.two_pow_add_eq_or_of_lt h 1
  rw [Nat.one_shiftLeft, Nat.or_comm, ← Nat.mul_one (2 ^ sz)]
  rw [← this]
  omega

/-- one level of `recursive_access`, side by side -/
theorem recAccess_step (cb : CodeBook) {syms : List Code} (l r : Tree) {e sz x : Nat} {c : Code}
    (he : e < 2 ^ sz) (hx : syms[x]? = some c) :
    recAccess cb (Tree.node (syms.map isRight) l r) e sz x
      = recAccess cb (pick (isRight c) l r) (e + (if isRight c then 2 ^ sz else 0)) (sz + 1)
          ((syms.take x).countP (onSide (isRight c))) := by
  have hxl : x < syms.length := by
    apply Nat.lt_of_not_le
    intro hle
    rw [List.getElem?_eq_none hle] at hx
    cases hx
  have har : accessRank (syms.map isRight) x = some (isRight c, ((syms.map isRight).take x).count true) := by
    unfold accessRank
    rw [List.getElem?_map, hx]
    rfl
  rw [recAccess_node, har]
  simp only
  have hk := thisRank_eq syms (isRight c) x (Nat.le_of_lt hxl)
  cases hb : isRight c with
  | true =>
    rw [hb] at hk
    simp only [if_true] at hk ⊢
    rw [or_one_shl he, hk]
    rfl
  | false =>
    rw [hb] at hk
    simp only [Bool.false_eq_true, if_false] at hk ⊢
    rw [hk]
    rfl

theorem code_bit (c : Code) : c.1 = 2 * (c.1 / 2) + (if isRight c then 1 else 0) := by
  rw [isRight_eq]
  have : c.1 % 2 < 2 := Nat.mod_lt _ (by omega)
  by_cases h : c.1 % 2 = 1
  · simp only [h, decide_true, if_true]; omega
  · simp only [h, decide_false, Bool.false_eq_true, if_false]; omega

/-- **C19** `recursive_access` on the tree built from `syms`, entered with the accumulated low
    bits `e` (`sz` of them): it decodes `e` extended by the whole code of the `x`-th symbol -/
theorem recAccess_build (cb : CodeBook) : ∀ (f : Nat) (syms : List Code) (t : Tree), Valid syms →
    build f syms = some t → ∀ (e sz x : Nat), e < 2 ^ sz →
      (∀ c, syms[x]? = some c → recAccess cb t e sz x = decode cb (e + 2 ^ sz * c.1) 0)
      ∧ (syms.length ≤ x → recAccess cb t e sz x = none)
  | 0, _, _, _, h => by rw [build_zero] at h; cases h
  | f + 1, syms, t, hv, h => by
    intro e sz x he
    obtain ⟨l, r, rfl, hch⟩ := build_inv hv h
    constructor
    · intro c hx
      have hc := List.mem_of_getElem? hx
      have hq := QOK.of_mem hv hc
      rw [recAccess_step cb l r he hx]
      have he' : e + (if isRight c then 2 ^ sz else 0) < 2 ^ (sz + 1) := by
        rw [Nat.pow_succ]; split <;> omega
      by_cases h1 : c.2 = 1
      · -- the side is finished: the child is absent
        have hne : side (isRight c) syms = [] := by
          apply Classical.byContradiction
          intro hne
          obtain ⟨d, hd⟩ := List.exists_mem_of_ne_nil _ hne
          obtain ⟨c', hc', h1', hb', _⟩ := mem_side.mp hd
          have := side_all_eq hq h1 c' hc' hb'
          rw [this] at h1'
          omega
        have := hch (isRight c)
        rw [child_absent hne] at this
        simp only [Option.some.injEq] at this
        rw [← this, recAccess_absent, decode_sz cb _ _ 0]
        congr 1
        have hlt : c.1 < 2 := by have := hq.1.2; rw [h1] at this; simpa using this
        have hbit := code_bit c
        split at hbit <;> rename_i hb
        · have : c.1 = 1 := by omega
          rw [this, if_pos hb, Nat.mul_one]
        · have : c.1 = 0 := by omega
          rw [this, if_neg hb]; rfl
      · have hdeep : 1 < c.2 := by have := hq.1.1; omega
        have hget := getElem?_side hv hx hdeep
        have hne : side (isRight c) syms ≠ [] := by
          intro hnil; rw [hnil] at hget; cases hget
        have hb := hch (isRight c)
        rw [child_build hne] at hb
        obtain ⟨ih1, _⟩ := recAccess_build cb f (side (isRight c) syms) _ (valid_side hv _) hb
          (e + (if isRight c then 2 ^ sz else 0)) (sz + 1) ((syms.take x).countP (onSide (isRight c))) he'
        rw [ih1 (next c) hget]
        congr 1
        have hn1 : (next c).1 = c.1 / 2 := by rw [next_eq]
        rw [hn1, Nat.pow_succ]
        have hbit := code_bit c
        generalize c.1 / 2 = hh at hbit ⊢
        rw [hbit, Nat.mul_add, ← Nat.mul_assoc]
        split <;> simp only [Nat.mul_one, Nat.mul_zero] <;> omega
    · intro hx
      have : accessRank (syms.map isRight) x = none := by
        unfold accessRank
        rw [List.getElem?_eq_none (by rw [List.length_map]; exact hx)]
      rw [recAccess_node, this]

end Blue.Wavelet
