import Blue.Model.VerifierRange
import Blue.Proofs.Verifier
import Blue.Proofs.VerifierCrash
import Blue.Proofs.VerifierKeeps
import Blue.Proofs.VerifierWitness
/-! The two newest manifest entries and the range of `last_removals`.

    * `pass_keeps_newest_removed`: the SEMANTIC statement for a last removal recorded by the newest
      numbered fragment (the companion of `pass_keeps_manifest_removed`, which is about `MANIFEST`):
      the trash copy of a file the newest fragment removes is in `trash/` after every prefix of
      every pass.  It needs more than `Legal`: the numbers a pass acts on are those of its entries
      (`nums_of_pass`), which are below the newest fragment's in a sorted directory, so the
      newest fragment is still in `mani/` — and its removals in `laterRm` — at every intent.
    * `pass_keeps_newest_two_removed`: both entries at once (`newestTwoRm`).
    * `passL_laterRm`: the pass with the range as a parameter is the pass, at the range the model
      (and the code) has.
    * `narrowed_range_loses_copy`: with the range narrowed to the entries the pass processes
      (`last_removals` called after the two pops) the copy goes with the first removal and the
      fragment that adds the file back fails its check on this and on every later pass. -/
namespace Blue.Verifier
open Blue.Mani

variable {A : Type}

/-- the fragment number an action carries -/
def Act.num : Act A → Option Nat
  | .unlinkFrag n => some n
  | .intent n _ _ _ => some n
  | _ => none

theorem num_completeList (d : Dir A) (m n : Nat) (a : Act A) (h : a ∈ completeList d m n) (k : Nat)
    (hk : a.num = some k) : k = n := by
  unfold completeList at h
  rcases List.mem_append.mp h with h | h
  · rcases List.mem_append.mp h with h | h
    · split at h
      · rcases List.mem_singleton.mp h with rfl
        simp only [Act.num, Option.some.injEq] at hk; exact hk.symm
      · cases h
    · rcases List.mem_map.mp h with ⟨_, _, rfl⟩
      simp [Act.num] at hk
  · rcases List.mem_singleton.mp h with rfl
    simp [Act.num] at hk

theorem num_completeActs (d : Dir A) (n : Nat) (a1 : List (Act A)) (h1 : completeActs d n = some a1)
    (a : Act A) (h : a ∈ a1) (k : Nat) (hk : a.num = some k) : k = n := by
  cases hm : d.vM with
  | none => rw [completeActs_none d n hm] at h1; cases h1; cases h
  | some m =>
    rw [completeActs_some d m n hm] at h1
    by_cases hlt : n < m
    · rw [if_pos hlt] at h1; cases h1
    · rw [if_neg hlt] at h1; cases h1; exact num_completeList d m n a h k hk

/-- every fragment number `process_one(entry n)` acts on is `n` -/
theorem nums_of_processOne (C : Checker A) (d : Dir A) (n : Nat) (es : List Edit) (a : Act A)
    (h : a ∈ (processOne C d n es).1) (k : Nat) (hk : a.num = some k) : k = n := by
  have hs := processOne_shape C d n es
  generalize processOne C d n es = r at hs h
  cases hs with
  | outOfOrder _ => cases h
  | resumed a1 h1 _ => exact num_completeActs d n a1 h1 a h k hk
  | stopped a1 st h1 _ _ _ => exact num_completeActs d n a1 h1 a h k hk
  | processed a1 o' names' h1 _ _ _ _ _ =>
    rcases List.mem_append.mp h with h | h
    · exact num_completeActs d n a1 h1 a h k hk
    · rcases List.mem_cons.mp h with h | h
      · subst h; simp only [Act.num, Option.some.injEq] at hk; exact hk.symm
      · exact num_completeList _ n n a h k hk

theorem nums_of_passFrom (C : Checker A) : ∀ (ents : List (Nat × List Edit)) (d : Dir A) (a : Act A),
    a ∈ (passFrom C d ents).1 → ∀ k, a.num = some k → k ∈ ents.map (·.1)
  | [], _, _, h, _, _ => by cases h
  | (n0, es0) :: rest, d, a, h, k, hk => by
    have key : a ∈ (processOne C d n0 es0).1 → k ∈ ((n0, es0) :: rest).map (·.1) := by
      intro hx
      rw [nums_of_processOne C d n0 es0 a hx k hk]
      exact List.mem_cons_self
    by_cases hst : (processOne C d n0 es0).2 = .ok
    · rw [passFrom_ok C d n0 es0 rest hst] at h
      rcases List.mem_append.mp h with h | h
      · exact key h
      · exact List.mem_cons_of_mem _ (nums_of_passFrom C rest _ a h k hk)
    · rw [passFrom_stop C d n0 es0 rest hst] at h
      exact key h

/-- **a pass acts only on the numbers of its entries**: every fragment it unlinks and every intent it
    logs carries the number of a fragment other than the newest one -/
theorem nums_of_pass (C : Checker A) (d : Dir A) (a : Act A) (h : a ∈ (pass C d).1) (k : Nat)
    (hk : a.num = some k) : k ∈ d.frags.dropLast.map (·.1) :=
  nums_of_passFrom C _ d a h k hk

/-- in a sorted directory the numbers of the entries are below the newest fragment's -/
theorem entries_below_newest (d : Dir A) (hs : Sorted d) (f : Nat × List Edit) (hl : d.frags.getLast? = some f)
    (k : Nat) (hk : k ∈ d.frags.dropLast.map (·.1)) : k < f.1 := by
  have hne : d.frags ≠ [] := fun h => by rw [h] at hl; cases hl
  have hf : d.frags.getLast hne = f := by
    rw [List.getLast?_eq_some_getLast hne] at hl
    exact Option.some.inj hl
  have hsplit : d.frags.dropLast ++ [f] = d.frags := by
    rw [← hf]; exact List.dropLast_concat_getLast hne
  unfold Sorted at hs
  rw [← hsplit, List.pairwise_append] at hs
  obtain ⟨g, hg, rfl⟩ := List.mem_map.mp hk
  exact hs.2.2 g hg f List.mem_cons_self

/-- legal actions on numbers below `N` keep the trash copy of what fragment `N` removes: fragment
    `N` stays in `mani/`, so every intent (as repaired) leaves the name out, so it is never logged,
    so never unlinked -/
theorem legalRun_keeps_above (C : Checker A) (hC : C.asWas = false) (N : Nat) (esN : List Edit) (r : Name)
    (hr : r ∈ esN.flatMap removedBy) :
    ∀ (acts : List (Act A)) (d : Dir A), LegalRun C d acts → (∀ a, a ∈ acts → ∀ k, a.num = some k → k < N) →
      (N, esN) ∈ d.frags → trashSst r ∉ d.vstrs → trashSst r ∈ d.trash → trashSst r ∈ (run d acts).trash
  | [], _, _, _, _, _, ht => ht
  | a :: as, d, hl, hn, hf, hv, ht => by
    show trashSst r ∈ (run (d.apply a) as).trash
    have hn' : ∀ b, b ∈ as → ∀ k, b.num = some k → k < N := fun b hb => hn b (List.mem_cons_of_mem _ hb)
    cases a with
    | unlinkFrag n =>
      have hlt : n < N := hn _ List.mem_cons_self n rfl
      refine legalRun_keeps_above C hC N esN r hr as _ hl.2 hn' ?_ hv ht
      show (N, esN) ∈ d.frags.filter (fun f => f.1 != n)
      rw [List.mem_filter]
      refine ⟨hf, ?_⟩
      simp only [bne_iff_ne, ne_eq]
      omega
    | unlinkTrash z =>
      have hz : z ∈ d.vstrs := hl.1
      have hne : trashSst r ≠ z := fun h => hv (h ▸ hz)
      refine legalRun_keeps_above C hC N esN r hr as _ hl.2 hn' hf hv ?_
      show trashSst r ∈ d.trash.filter (fun y => y != z)
      rw [List.mem_filter]
      exact ⟨ht, by simpa using hne⟩
    | clear =>
      refine legalRun_keeps_above C hC N esN r hr as _ hl.2 hn' hf ?_ ht
      intro h; cases h
    | intent n es names o =>
      have hlt : n < N := hn _ List.mem_cons_self n rfl
      have hlater : r ∈ laterRm d n := by
        unfold laterRm
        refine List.mem_append_left _ ?_
        rw [List.mem_flatMap]
        refine ⟨(N, esN), ?_, hr⟩
        rw [List.mem_filter]
        exact ⟨hf, by simpa using hlt⟩
      have hnot : trashSst r ∉ names := intent_keeps_later C hC d n es names o hl.1 r hlater
      refine legalRun_keeps_above C hC N esN r hr as _ hl.2 hn' hf ?_ ht
      intro hy
      have hy' : trashSst r ∈ names.foldl (fun acc x => insertStr x acc) d.vstrs := hy
      rcases Blue.Orphans.mem_foldl_insertStr names d.vstrs hy' with h | h
      · exact hnot h
      · exact hv h

/-- **the copy the newest fragment still needs stays** (as the code is: `last_removals` ranges over
    all entries): in a sorted directory in which the name is not logged in `verify/`, the trash copy
    of every file the newest numbered fragment removes — whatever older fragments removed and
    re-created it before — is in `trash/` after every prefix of the pass, whatever the checker -/
theorem pass_keeps_newest_removed (C : Checker A) (hC : C.asWas = false) (d : Dir A) (hs : Sorted d)
    (f : Nat × List Edit) (hl : d.frags.getLast? = some f) (k : Nat) (r : Name) (hr : r ∈ f.2.flatMap removedBy)
    (hv : trashSst r ∉ d.vstrs) (ht : trashSst r ∈ d.trash) : trashSst r ∈ (run d ((pass C d).1.take k)).trash := by
  refine legalRun_keeps_above C hC f.1 f.2 r hr _ d (legalRun_take C k _ d (pass_legal C d)) ?_ ?_ hv ht
  · intro a ha j hj
    exact entries_below_newest d hs f hl j (nums_of_pass C d a (List.mem_of_mem_take ha) j hj)
  · exact List.mem_of_getLast? hl

/-- **the copies the two newest entries still need stay**: the newest numbered fragment and
    `MANIFEST` are never processed, and no pass hands out the trash copy of a file whose removal
    one of them records — provided none of these names is logged in `verify/` at the start (a fresh
    directory: nothing is) -/
theorem pass_keeps_newest_two_removed (C : Checker A) (hC : C.asWas = false) (d : Dir A) (hs : Sorted d)
    (hv : ∀ x, x ∈ d.vstrs → ∀ r, r ∈ newestTwoRm d → x ≠ trashSst r) (k : Nat) (r : Name)
    (hr : r ∈ newestTwoRm d) (ht : trashSst r ∈ d.trash) : trashSst r ∈ (run d ((pass C d).1.take k)).trash := by
  have hr0 := hr
  unfold newestTwoRm at hr
  rcases List.mem_append.mp hr with h | h
  · cases hl : d.frags.getLast? with
    | none => rw [hl] at h; cases h
    | some f =>
      rw [hl] at h
      exact pass_keeps_newest_removed C hC d hs f hl k r h (fun hx => hv _ hx r hr0 rfl) ht
  · refine pass_keeps_manifest_removed C hC d ?_ k r h ht
    intro x hx ⟨r', hr', hxr⟩
    exact hv x hx r' (by unfold newestTwoRm; exact List.mem_append_right _ hr') hxr

/-! ### the range as a parameter -/

theorem processOneL_laterRm (C : Checker A) (d : Dir A) (n : Nat) (es : List Edit) :
    processOneL laterRm C d n es = processOne C d n es := rfl

theorem passFromL_laterRm (C : Checker A) : ∀ (ents : List (Nat × List Edit)) (d : Dir A),
    passFromL laterRm C d ents = passFrom C d ents
  | [], _ => rfl
  | (n, es) :: rest, d => by
    show (match (processOneL laterRm C d n es).2 with
      | .ok => ((processOneL laterRm C d n es).1 ++ (passFromL laterRm C (run d (processOneL laterRm C d n es).1) rest).1,
                (passFromL laterRm C (run d (processOneL laterRm C d n es).1) rest).2)
      | st => ((processOneL laterRm C d n es).1, st)) =
      (match (processOne C d n es).2 with
      | .ok => ((processOne C d n es).1 ++ (passFrom C (run d (processOne C d n es).1) rest).1,
                (passFrom C (run d (processOne C d n es).1) rest).2)
      | st => ((processOne C d n es).1, st))
    rw [processOneL_laterRm, passFromL_laterRm C rest]

/-- the pass with the range of `last_removals` as a parameter IS the pass, at the range the code
    has: every fragment above the one processed, the newest one included, and `MANIFEST` -/
theorem passL_laterRm (C : Checker A) (d : Dir A) : passL laterRm C d = pass C d :=
  passFromL_laterRm C _ d

/-- the narrowed range is the full one without the two newest entries' removals: on a directory
    whose newest fragment and `MANIFEST` remove nothing the two agree -/
theorem laterRmNarrow_sub (d : Dir A) (n : Nat) (r : Name) (h : r ∈ laterRmNarrow d n) : r ∈ laterRm d n := by
  unfold laterRmNarrow at h
  unfold laterRm
  refine List.mem_append_left _ ?_
  obtain ⟨f, hf, hr⟩ := List.mem_flatMap.mp h
  rw [List.mem_filter] at hf
  exact List.mem_flatMap.mpr ⟨f, List.mem_filter.mpr ⟨List.dropLast_subset _ hf.1, hf.2⟩, hr⟩

/-! ### the counterexample for the narrowed range -/

/-- `x` removed by fragment 1, added again by fragment 2, removed again by fragment 3 — the NEWEST
    numbered fragment —, `MANIFEST` holds the roll-up only; one copy in `trash/` -/
def dN : Dir Name :=
  { sst := [], trash := [[120, 46, 115, 115, 116]],
    live := [⟨[], [], [(73, [50]), (79, [51]), (68, [48])]⟩],
    frags := [(1, [⟨[], [[120]], [(73, [48]), (79, [48]), (68, [48])]⟩, ⟨[[120]], [], [(73, [48]), (79, [49]), (68, [48])]⟩]),
              (2, [⟨[], [], [(73, [48]), (79, [49]), (68, [48])]⟩, ⟨[], [[120]], [(73, [49]), (79, [50]), (68, [48])]⟩]),
              (3, [⟨[], [[120]], [(73, [49]), (79, [50]), (68, [48])]⟩, ⟨[[120]], [], [(73, [50]), (79, [51]), (68, [48])]⟩])],
    vstrs := [], vM := none, vO := [48], done := [] }

theorem dN_hyps : Sorted dN ∧ dN.vstrs = [] ∧ [120] ∈ newestTwoRm dN ∧ [120] ∉ dN.live.flatMap removedBy
    ∧ trashSst [120] ∈ dN.trash := by
  refine ⟨by unfold Sorted; decide, rfl, by decide, by decide, by decide⟩

theorem dM_newest_hyps : Sorted dM ∧ [120] ∈ newestTwoRm dM := ⟨by unfold Sorted; decide, by decide⟩

/-- where a pass computed with the range `later` ends -/
def finalL (later : Dir Name → Nat → List Name) (C : Checker Name) (d : Dir Name) : Dir Name := run d (passL later C d).1

/-- as the code is, the pass over `dN` verifies and unlinks fragments 1 and 2 and the copy is still
    there for fragment 3 -/
theorem dN_kept : (pass chainChecker dN).2 = .ok ∧ (final chainChecker dN).trash = [[120, 46, 115, 115, 116]]
    ∧ (final chainChecker dN).frags.map (·.1) = [3] := by decide

/-- **with `last_removals` computed after the two pops** (range = the entries the pass processes):
    on `dN` (last removal in the newest numbered fragment) and on `dM` (last removal in `MANIFEST`)
    the pass gives the one copy to fragment 1, then fails fragment 2's check (`x` is neither in
    `trash/` nor in `sst/`) — and so does every later pass, whichever range it uses: the copy is
    gone, fragments 2 and 3 are never unlinked -/
theorem narrowed_range_loses_copy :
    ((passL laterRmNarrow chainChecker dN).2 = .corrupt ∧ (finalL laterRmNarrow chainChecker dN).trash = []
      ∧ (passL laterRmNarrow chainChecker (finalL laterRmNarrow chainChecker dN)).2 = .corrupt
      ∧ (pass chainChecker (finalL laterRmNarrow chainChecker dN)).2 = .corrupt
      ∧ (final chainChecker (finalL laterRmNarrow chainChecker dN)).frags.map (·.1) = [2, 3]) ∧
    ((passL laterRmNarrow chainChecker dM).2 = .corrupt ∧ (finalL laterRmNarrow chainChecker dM).trash = []
      ∧ (pass chainChecker (finalL laterRmNarrow chainChecker dM)).2 = .corrupt
      ∧ (final chainChecker (finalL laterRmNarrow chainChecker dM)).frags.map (·.1) = [2, 3]) := by decide

end Blue.Verifier

#print axioms Blue.Verifier.pass_keeps_newest_two_removed
#print axioms Blue.Verifier.passL_laterRm
#print axioms Blue.Verifier.narrowed_range_loses_copy
