import Blue.Model.FileLink
/-! A referenced file is in `sst/` — kept by the repaired link (which takes a reference), broken by
    the link as it was: a reader that lets go of the last reference to a file between a
    compaction's link of an output of the same name and the installation of the new version sends
    the file to `trash/`, and the manifest edit then lists a file that is not in `sst/`. -/
namespace Blue.FileLink

variable {F : Type} [DecidableEq F]

/-- every referenced file is in `sst/` -/
def Inv (s : St F) : Prop := ∀ x, s.refs x > 0 → x ∈ s.sst

theorem inv_link_pin (s : St F) (x : F) (h : Inv s) : Inv (step true s (.link x)) := by
  intro y hy
  show y ∈ (if x ∈ s.sst then s.sst else x :: s.sst)
  by_cases hyx : y = x
  · subst hyx
    by_cases hm : y ∈ s.sst
    · rw [if_pos hm]; exact hm
    · rw [if_neg hm]; exact List.mem_cons_self
  · have hy' : s.refs y > 0 := by
      have : (step true s (.link x)).refs y = s.refs y := by
        show bump s.refs x y = s.refs y
        unfold bump; rw [if_neg hyx]
      rw [this] at hy; exact hy
    by_cases hm : x ∈ s.sst
    · rw [if_pos hm]; exact h y hy'
    · rw [if_neg hm]; exact List.mem_cons_of_mem _ (h y hy')

/-- a new version takes references only to files that are referenced already: the outputs of the
    compaction (by the link) and the files it keeps from the current version -/
theorem inv_ref (pin : Bool) (s : St F) (x : F) (h : Inv s) (hx : s.refs x > 0) : Inv (step pin s (.ref x)) := by
  intro y hy
  show y ∈ s.sst
  by_cases hyx : y = x
  · subst hyx; exact h y hx
  · have : (step pin s (.ref x)).refs y = s.refs y := by
      show bump s.refs x y = s.refs y
      unfold bump; rw [if_neg hyx]
    rw [this] at hy; exact h y hy

theorem step_unref_zero (pin : Bool) (s : St F) (x : F) (h : s.refs x = 0) : step pin s (.unref x) = s := by
  show (if s.refs x = 0 then s else _) = s
  rw [if_pos h]

theorem step_unref_one (pin : Bool) (s : St F) (x : F) (h : s.refs x = 1) :
    step pin s (.unref x) = { refs := drop1 s.refs x, sst := s.sst.filter (· ≠ x), trash := if x ∈ s.sst then x :: s.trash else s.trash } := by
  show (if s.refs x = 0 then s else if s.refs x = 1 then _ else _) = _
  rw [if_neg (by omega), if_pos h]

theorem step_unref_many (pin : Bool) (s : St F) (x : F) (h0 : s.refs x ≠ 0) (h1 : s.refs x ≠ 1) :
    step pin s (.unref x) = { s with refs := drop1 s.refs x } := by
  show (if s.refs x = 0 then s else if s.refs x = 1 then _ else _) = _
  rw [if_neg h0, if_neg h1]

theorem inv_unref (pin : Bool) (s : St F) (x : F) (h : Inv s) : Inv (step pin s (.unref x)) := by
  intro y hy
  by_cases h0 : s.refs x = 0
  · rw [step_unref_zero pin s x h0] at hy ⊢; exact h y hy
  · by_cases h1 : s.refs x = 1
    · rw [step_unref_one pin s x h1] at hy ⊢
      have hy' : drop1 s.refs x y > 0 := hy
      show y ∈ s.sst.filter (· ≠ x)
      by_cases hyx : y = x
      · subst hyx
        have : drop1 s.refs y y = 0 := by unfold drop1; rw [if_pos rfl, h1]
        rw [this] at hy'; exact absurd hy' (Nat.lt_irrefl 0)
      · have : drop1 s.refs x y = s.refs y := by unfold drop1; rw [if_neg hyx]
        rw [this] at hy'
        exact List.mem_filter.mpr ⟨h y hy', by simpa using hyx⟩
    · rw [step_unref_many pin s x h0 h1] at hy ⊢
      have hy' : drop1 s.refs x y > 0 := hy
      show y ∈ s.sst
      by_cases hyx : y = x
      · subst hyx; exact h y (Nat.pos_of_ne_zero h0)
      · have : drop1 s.refs x y = s.refs y := by unfold drop1; rw [if_neg hyx]
        rw [this] at hy'; exact h y hy'

/-- **as repaired**: however many holders of `x` there were before the link and whether or not all
    of them let go before the new version is installed, `x` is referenced (by the link) and in
    `sst/` when the version takes its reference -/
theorem pinned_output_stays (s : St F) (x : F) (h : Inv s) (k : Nat) (hk : k ≤ s.refs x) :
    let s' := run true (step true s (.link x)) (List.replicate k (.unref x))
    Inv s' ∧ s'.refs x = s.refs x + 1 - k ∧ x ∈ s'.sst := by
  induction k with
  | zero =>
    have hi := inv_link_pin s x h
    have hr : (step true s (.link x)).refs x = s.refs x + 1 := by
      show bump s.refs x x = _; unfold bump; rw [if_pos rfl]
    exact ⟨hi, hr, hi x (by rw [hr]; exact Nat.succ_pos _)⟩
  | succ k ih =>
    obtain ⟨hi, hr, _⟩ := ih (Nat.le_of_succ_le hk)
    have hrun : run true (step true s (.link x)) (List.replicate (k + 1) (.unref x))
        = step true (run true (step true s (.link x)) (List.replicate k (.unref x))) (.unref x) := by
      unfold run; rw [List.replicate_succ', List.foldl_append]; rfl
    simp only [hrun]
    have hi' := inv_unref true _ x hi
    have hge : (run true (step true s (.link x)) (List.replicate k (.unref x))).refs x ≥ 2 := by rw [hr]; omega
    have hr' : (step true (run true (step true s (.link x)) (List.replicate k (.unref x))) (.unref x)).refs x
        = s.refs x + 1 - (k + 1) := by
      have h0 : (run true (step true s (.link x)) (List.replicate k (.unref x))).refs x ≠ 0 := by omega
      have h1 : (run true (step true s (.link x)) (List.replicate k (.unref x))).refs x ≠ 1 := by omega
      rw [step_unref_many true _ x h0 h1]
      show drop1 _ x x = _
      unfold drop1; rw [if_pos rfl, hr]; omega
    exact ⟨hi', hr', hi' x (by rw [hr']; omega)⟩

/-- **as the code was**: `x` is in `sst/`, held by `n ≥ 1` references none of which belongs to the
    current version; a compaction links an output named `x` (the link finds the file and takes no
    reference), the holders let go, the new version takes its reference: `x` is referenced and not
    in `sst/` -/
theorem unpinned_output_lost (s : St F) (x : F) (hx : x ∈ s.sst) (hn : s.refs x = 1) :
    let s' := step false (step false (step false s (.link x)) (.unref x)) (.ref x)
    s'.refs x = 1 ∧ x ∉ s'.sst ∧ x ∈ s'.trash ∧ ¬ Inv s' := by
  have hl : step false s (.link x) = s := by
    show ({ s with sst := if x ∈ s.sst then s.sst else x :: s.sst, refs := if false = true then bump s.refs x else s.refs } : St F) = s
    rw [if_pos hx]; rfl
  simp only [hl]
  have hu : step false s (.unref x) = { refs := drop1 s.refs x, sst := s.sst.filter (· ≠ x), trash := x :: s.trash } := by
    rw [step_unref_one false s x hn, if_pos hx]
  rw [hu]
  have hr : (step false ({ refs := drop1 s.refs x, sst := s.sst.filter (· ≠ x), trash := x :: s.trash } : St F) (.ref x)).refs x = 1 := by
    show bump (drop1 s.refs x) x x = 1
    unfold bump drop1; rw [if_pos rfl, if_pos rfl, hn]
  have hns : x ∉ s.sst.filter (· ≠ x) := by
    intro hm; have := (List.mem_filter.mp hm).2; simp at this
  exact ⟨hr, hns, List.mem_cons_self, fun hinv => hns (hinv x (by rw [hr]; exact Nat.one_pos))⟩

end Blue.FileLink
