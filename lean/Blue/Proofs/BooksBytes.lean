import Blue.Model.BooksBytes
import Blue.Proofs.BooksCrash
import Blue.Proofs.ManiTorn
import Blue.Proofs.ManiOpenBytes
/-! **C04 ∘ C13**: the books read back from the MANIFEST's bytes, cut at any byte, and across the
    manifest's own rollover.

    `Codec.Ok`: what the theorems need of `Setsum::hexdigest` / `from_hexdigest` — a rendered digest
    parses back to itself, and is a string `Edit::add` / `rm` / `info` accept (`StrOk`: non-empty
    ASCII without newline or trailing `\r`; a hexdigest is 64 hex digits). -/
namespace Blue.BooksBytes
open Blue.Books Blue.Mani Blue.ManiCrash Blue.BooksCrash

variable {G : Type}

structure Codec.Ok (c : Codec G) : Prop where
  parse_render : ∀ x, c.parse (c.render x) = some x
  str_ok : ∀ x, StrOk (c.render x)

/-! ### (1) the edit of a booked record reads back as that record -/

theorem parseAll_render (c : Codec G) (hc : c.Ok) : ∀ l : List G, parseAll c (l.map c.render) = some l
  | [] => rfl
  | x :: t => by
    simp only [List.map_cons, parseAll, hc.parse_render, parseAll_render c hc t]

/-- **`booked_edit_roundtrip`** -/
theorem booked_edit_roundtrip (c : Codec G) (hc : c.Ok) (r : Rec G G) : recOfEdit c (bookedEdit c r) = some r := by
  have hI : infoG c (bookedEdit c r) 73 = some r.I := by
    simp [infoG, Blue.Verifier.getInfo, bookedEdit, hc.parse_render]
  have hO : infoG c (bookedEdit c r) 79 = some r.O := by
    simp [infoG, Blue.Verifier.getInfo, bookedEdit, hc.parse_render]
  have hD : infoG c (bookedEdit c r) 68 = some r.D := by
    simp [infoG, Blue.Verifier.getInfo, bookedEdit, hc.parse_render]
  unfold recOfEdit
  rw [hI, hO, hD]
  show (match some r.I, some r.O, some r.D, parseAll c (r.rm.map c.render), parseAll c (r.ad.map c.render) with
    | some I, some O, some D, some rm, some ad => some (⟨I, O, D, rm, ad⟩ : Rec G G)
    | _, _, _, _, _ => none) = some r
  rw [parseAll_render c hc, parseAll_render c hc]

/-- the edit is one the (repaired) `Edit` API builds and the reader hands back -/
theorem bookedEdit_ok (c : Codec G) (hc : c.Ok) (r : Rec G G) : (bookedEdit c r).Ok := by
  refine ⟨?_, ?_, ?_⟩
  · intro s hs
    obtain ⟨x, _, rfl⟩ := List.mem_map.mp hs
    exact hc.str_ok x
  · intro s hs
    obtain ⟨x, _, rfl⟩ := List.mem_map.mp hs
    exact hc.str_ok x
  · intro kv hkv
    simp only [bookedEdit, List.mem_cons, List.not_mem_nil, or_false] at hkv
    rcases hkv with rfl | rfl | rfl <;> exact ⟨hc.str_ok _, by simp, by simp, by simp, by simp⟩

theorem recsOfEdits_map (c : Codec G) (hc : c.Ok) : ∀ recs : List (Rec G G),
    recsOfEdits c (recs.map (bookedEdit c)) = some recs
  | [] => rfl
  | r :: t => by
    simp only [List.map_cons, recsOfEdits, booked_edit_roundtrip c hc r, recsOfEdits_map c hc t]

/-! ### the byte level: any list of booked records, cut at any byte -/

/-- the MANIFEST written for the records `recs`, cut at byte `m`: `Manifest::open` fails with a
    corruption error (`ManifestIterator` returns it at the torn line; `read_mani` propagates it: the
    store does not open), or the reader returns the edits of `recs.take k`, which parse back to
    exactly those records -/
theorem torn_booked (crc : List Nat → Nat) (hcrc : CrcOk crc) (c : Codec G) (hc : c.Ok) (recs : List (Rec G G))
    (hnc : ∀ l ∈ linesOf (recs.map (bookedEdit c)), l.NoCollision crc) (m : Nat) :
    let es := recs.map (bookedEdit c)
    let bytes := (fileBytes crc es).take m
    ((readEdits crc (bytes.length + 2) bytes Edit.empty).2 = true ∧ openBytes crc bytes = none)
    ∨ ∃ k, readEdits crc (bytes.length + 2) bytes Edit.empty = (es.take k, false)
        ∧ openBytes crc bytes = some (replay maniAlgebra (es.take k))
        ∧ recsOfEdits c (es.take k) = some (recs.take k) := by
  intro es bytes
  have hok : ∀ e ∈ es, e.Ok := by
    intro e he
    obtain ⟨r, _, rfl⟩ := List.mem_map.mp he
    exact bookedEdit_ok c hc r
  have h : (readEdits crc (bytes.length + 2 + (linesOf es).length) bytes Edit.empty).2 = true
      ∨ ∃ k, readEdits crc (bytes.length + 2 + (linesOf es).length) bytes Edit.empty = (es.take k, false) :=
    torn_manifest crc hcrc es hok hnc m bytes.length
  have hf := readEdits_fuel crc (bytes.length + 2) (bytes.length + 2 + (linesOf es).length) bytes Edit.empty
    (by omega) (by omega)
  rw [← hf] at h
  rcases h with h | ⟨k, h⟩
  · left
    refine ⟨h, ?_⟩
    show (if (readEdits crc (bytes.length + 2) bytes Edit.empty).2 then none else _) = none
    rw [h]; rfl
  · right
    refine ⟨k, h, ?_, ?_⟩
    · show (if (readEdits crc (bytes.length + 2) bytes Edit.empty).2 then none else _) = _
      rw [h]; rfl
    · show recsOfEdits c ((recs.map (bookedEdit c)).take k) = _
      rw [← List.map_take]
      exact recsOfEdits_map c hc _

/-! ### files named by their digests -/

section digests
variable [DecidableEq G] (g : Grp G) {F : Type} [DecidableEq F] (s : F → G)

omit [DecidableEq G] [DecidableEq F] in
theorem total_map : ∀ l : List F, total g id (l.map s) = total g s l
  | [] => rfl
  | x :: t => by
    show g.add (s x) (total g id (t.map s)) = g.add (s x) (total g s t)
    rw [total_map t]

omit [DecidableEq F] in
theorem verify_digestRec : ∀ (recs : List (Rec G F)) (o : G),
    verify g id o (recs.map (digestRec s)) = verify g s o recs
  | [], _ => rfl
  | r :: t, o => by
    have hcd : computedDiscard g id (r.rm.map s) (r.ad.map s) = computedDiscard g s r.rm r.ad := by
      simp only [computedDiscard, total_map]
    show (decide (r.I = o) && decide (r.I = g.add r.O r.D)
      && decide (r.D = computedDiscard g id (r.rm.map s) (r.ad.map s)) && verify g id r.O (t.map (digestRec s))) = _
    rw [hcd, verify_digestRec t]
    rfl

omit [DecidableEq G] [DecidableEq F] in
theorem lastO_digestRec : ∀ (recs : List (Rec G F)) (o : G), lastO o (recs.map (digestRec s)) = lastO o recs
  | [], _ => rfl
  | r :: t, _ => lastO_digestRec t r.O

/-- record lists that agree up to the order in which each record lists its files -/
def SameUpToOrder : List (Rec G F) → List (Rec G F) → Prop
  | [], [] => True
  | r :: a, r' :: b => (r.I = r'.I ∧ r.O = r'.O ∧ r.D = r'.D ∧ r.rm.Perm r'.rm ∧ r.ad.Perm r'.ad) ∧ SameUpToOrder a b
  | _, _ => False

/-- the checks do not depend on the order in which an edit lists its strings (the writer emits a
    `BTreeSet` in `String` order) -/
theorem verify_perm : ∀ (a b : List (Rec G F)) (o : G), SameUpToOrder a b → verify g s o a = verify g s o b
  | [], [], _, _ => rfl
  | [], _ :: _, _, hs => hs.elim
  | _ :: _, [], _, hs => hs.elim
  | r :: a, r' :: b, o, ⟨⟨h1, h2, h3, h4, h5⟩, ht⟩ => by
    have hcd : computedDiscard g s r.rm r.ad = computedDiscard g s r'.rm r'.ad := by
      simp only [computedDiscard, total_perm g s h4, total_perm g s h5]
    show (decide (r.I = o) && decide (r.I = g.add r.O r.D) && decide (r.D = computedDiscard g s r.rm r.ad)
      && verify g s r.O a) = (decide (r'.I = o) && decide (r'.I = g.add r'.O r'.D)
      && decide (r'.D = computedDiscard g s r'.rm r'.ad) && verify g s r'.O b)
    rw [hcd, verify_perm a b _ ht, h1, h2, h3]

end digests

/-! ### (2) the books of `Blue.BooksCrash`, through the bytes -/

section books
variable [DecidableEq G] (g : Grp G) (h : Nat → G)

omit [DecidableEq G] in
theorem booked_take : ∀ (M : List StoreCrash.Tx) (files : List StoreCrash.Name) (k : Nat),
    (booked g h files M).take k = booked g h files (M.take k)
  | [], _, _ => by simp [booked]
  | _ :: _, _, 0 => rfl
  | tx :: M, files, k + 1 => by
    show _ :: (booked g h _ M).take k = _ :: booked g h _ (M.take k)
    rw [booked_take M]

omit [DecidableEq G] in
theorem maniRecs_take (M : List StoreCrash.Tx) (k : Nat) : (maniRecs g h M).take k = maniRecs g h (M.take k) := by
  unfold maniRecs
  rw [← List.map_take, booked_take]

/-- a good manifest's records, files named by their digests: accepted from zero, and the last `O` is
    the sum over the listed files -/
theorem maniRecs_ok (M : List StoreCrash.Tx) (hgood : GoodTxs [] M) :
    verify g id g.zero (maniRecs g h M) = true
    ∧ lastO g.zero (maniRecs g h M) = total g (digest g h) (StoreCrash.live M) := by
  obtain ⟨v, l⟩ := booked_ok g h M [] hgood
  unfold maniRecs
  rw [verify_digestRec, lastO_digestRec]
  exact ⟨v, l⟩

/-- the general form of (2): any manifest of good transactions -/
theorem books_from_bytes_good (crc : List Nat → Nat) (hcrc : CrcOk crc) (c : Codec G) (hc : c.Ok)
    (M : List StoreCrash.Tx) (hgood : GoodTxs [] M)
    (hnc : ∀ l ∈ linesOf (maniEdits g h c M), l.NoCollision crc) (m : Nat) :
    let es := maniEdits g h c M
    let bytes := (fileBytes crc es).take m
    ((readEdits crc (bytes.length + 2) bytes Edit.empty).2 = true ∧ openBytes crc bytes = none)
    ∨ ∃ k, readEdits crc (bytes.length + 2) bytes Edit.empty = (es.take k, false)
        ∧ openBytes crc bytes = some (replay maniAlgebra (es.take k))
        ∧ recsOfEdits c (es.take k) = some (maniRecs g h (M.take k))
        ∧ verify g id g.zero (maniRecs g h (M.take k)) = true
        ∧ lastO g.zero (maniRecs g h (M.take k)) = total g (digest g h) (StoreCrash.live (M.take k)) := by
  intro es bytes
  rcases torn_booked crc hcrc c hc (maniRecs g h M) hnc m with h1 | ⟨k, h1, h2, h3⟩
  · exact Or.inl h1
  · right
    rw [maniRecs_take] at h3
    obtain ⟨v, l⟩ := maniRecs_ok g h (M.take k) (goodTxs_prefix (List.take_prefix k M) hgood)
    exact ⟨k, h1, h2, h3, v, l⟩

/-- **`books_from_manifest_bytes`**: every history of C02's alphabet, every crash point `n` of its
    system-call sequence, both persistence models — and then the MANIFEST's bytes, as C13's writer
    lays down the booked edits, cut at ANY byte `m` (a torn append).  C13's reader on those bytes:
    either it ends in a corruption error, so `Manifest::open` fails and nothing is accepted (the
    error is raised at the torn line — every line before it was read as written; it is not an
    accepted prefix: the store does not open until the tail is dealt with); or it returns the edits of
    the first `k` transactions, whole, which parse back to exactly the booked records (digests
    through `from_hexdigest`), `Books.verify` accepts them from the zero setsum and their last `O`
    is the group sum over the files that prefix lists.  Manifest text, records and files agree at
    every byte-level crash point.  `hnc` is C13's CRC hypothesis (no proper prefix of a written
    line carries that line's checksum). -/
theorem books_from_manifest_bytes (crc : List Nat → Nat) (hcrc : CrcOk crc) (c : Codec G) (hc : c.Ok)
    (hist : List StoreCrash.Client) (n : Nat) (b : Bool)
    (hnc : ∀ l ∈ linesOf (maniEdits g h c
      (maniOf b (StoreCrash.run StoreCrash.fs0 ((StoreCrash.opsOf hist StoreCrash.kv0).take n)))),
        l.NoCollision crc) (m : Nat) :
    let M := maniOf b (StoreCrash.run StoreCrash.fs0 ((StoreCrash.opsOf hist StoreCrash.kv0).take n))
    let es := maniEdits g h c M
    let bytes := (fileBytes crc es).take m
    ((readEdits crc (bytes.length + 2) bytes Edit.empty).2 = true ∧ openBytes crc bytes = none)
    ∨ ∃ k, readEdits crc (bytes.length + 2) bytes Edit.empty = (es.take k, false)
        ∧ openBytes crc bytes = some (replay maniAlgebra (es.take k))
        ∧ recsOfEdits c (es.take k) = some (maniRecs g h (M.take k))
        ∧ verify g id g.zero (maniRecs g h (M.take k)) = true
        ∧ lastO g.zero (maniRecs g h (M.take k)) = total g (digest g h) (StoreCrash.live (M.take k)) :=
  books_from_bytes_good g h crc hcrc c hc _ (good_crash hist n b) hnc m

/-! ### (3) across the manifest's rollover -/

omit [DecidableEq G] in
theorem lastIOD_O {F : Type} (z : G) : ∀ recs : List (Rec G F), (lastIOD z recs).2.1 = lastO z recs
  | [] => rfl
  | [_] => rfl
  | r :: r' :: rs => by
    show (lastIOD z (r' :: rs)).2.1 = lastO r.O (r' :: rs)
    rw [lastIOD_O z (r' :: rs)]; rfl

omit [DecidableEq G] in
theorem lastIOD_snoc {F : Type} (z : G) (r : Rec G F) : ∀ recs : List (Rec G F),
    lastIOD z (recs ++ [r]) = (r.I, r.O, r.D)
  | [] => rfl
  | [_] => rfl
  | _ :: r' :: rs => by
    show lastIOD z ((r' :: rs) ++ [r]) = _
    exact lastIOD_snoc z r (r' :: rs)

/-- **`books_across_rollover`**: the manifest holds the good transactions `M1`; it rolls over (one
    edit replaces the file: `rollRec` — no removal, all live files added, the info map as it stands);
    the transactions `M2` follow.  Then
    * the roll-up's `O` is the accumulator the verifier has after the old fragment, and is the sum
      over the files the roll-up lists — `from_manifest` on the roll-up alone succeeds;
    * the new fragment `roll-up :: later records` is accepted by `verify_one`'s rule (`verifyFrag`:
      first record `O = acc` only, the rest `Books.verify`) from that accumulator;
    * its last `O` is the sum over the files listed after `M1 ++ M2`;
    * the later records are the records the unrolled manifest would hold at the same positions;
    * the roll-up's `I` and `D` are the LAST transaction's — `I` the tree's sum before it, `D` its
      discard — not the roll-up's own: with `M1 = M0 ++ [tx]`, `I = Σ live M0`,
      `D = Σ tx.rms − Σ tx.adds`. -/
theorem books_across_rollover (M1 M2 : List StoreCrash.Tx) (hgood : GoodTxs [] (M1 ++ M2)) :
    let recs1 := booked g h [] M1
    let files1 := StoreCrash.live M1
    let acc := lastO g.zero recs1
    let R := rollRec g.zero recs1 files1
    let later := booked g h files1 M2
    R.O = acc ∧ acc = total g (digest g h) R.ad ∧ R.rm = []
    ∧ verifyFrag g (digest g h) acc (R :: later) = true
    ∧ lastO acc (R :: later) = total g (digest g h) (StoreCrash.live (M1 ++ M2))
    ∧ later = (booked g h [] (M1 ++ M2)).drop M1.length
    ∧ (∀ M0 tx, M1 = M0 ++ [tx] →
        R.I = total g (digest g h) (StoreCrash.live M0)
        ∧ R.D = computedDiscard g (digest g h) tx.rms tx.adds) := by
  intro recs1 files1 acc R later
  obtain ⟨hg1, hg2⟩ := (goodTxs_append M1 M2 []).mp hgood
  obtain ⟨_, l1⟩ := booked_ok g h M1 [] hg1
  obtain ⟨v2, l2⟩ := booked_ok g h M2 files1 hg2
  have hRO : R.O = acc := lastIOD_O g.zero recs1
  have hacc : acc = total g (digest g h) files1 := l1
  refine ⟨hRO, hacc, rfl, ?_, ?_, ?_, ?_⟩
  · show (decide (R.O = acc) && verify g (digest g h) acc later) = true
    rw [hRO, hacc]
    simp only [decide_true, Bool.true_and]
    exact v2
  · show lastO R.O later = _
    rw [hRO, hacc, l2]
    show total g (digest g h) (M2.foldl StoreCrash.applyTx (M1.foldl StoreCrash.applyTx [])) = _
    unfold StoreCrash.live
    rw [List.foldl_append]
  · rw [booked_append]
    have : (booked g h [] M1).length = M1.length := by
      have : ∀ (M : List StoreCrash.Tx) (fl : List StoreCrash.Name), (booked g h fl M).length = M.length := by
        intro M
        induction M with
        | nil => intro _; rfl
        | cons tx M ih => intro fl; show (booked g h _ M).length + 1 = M.length + 1; rw [ih]
      exact this M1 []
    rw [← this, List.drop_left]
    rfl
  · intro M0 tx hM
    have hrecs : recs1 = booked g h [] M0 ++ [storeRec g (digest g h) (StoreCrash.live M0) tx.rms tx.adds] := by
      show booked g h [] M1 = _
      rw [hM, booked_append]; rfl
    have hl : lastIOD g.zero recs1 = ((storeRec g (digest g h) (StoreCrash.live M0) tx.rms tx.adds).I,
        (storeRec g (digest g h) (StoreCrash.live M0) tx.rms tx.adds).O,
        (storeRec g (digest g h) (StoreCrash.live M0) tx.rms tx.adds).D) := by
      rw [hrecs]; exact lastIOD_snoc g.zero _ _
    constructor
    · show (lastIOD g.zero recs1).1 = _
      rw [hl]; rfl
    · show (lastIOD g.zero recs1).2.2 = _
      rw [hl]; rfl

/-- **the first-record rule is needed**: the full check of a later record (`Books.verify`) applied
    to the roll-up accepts only if its `I` is the accumulator and its `D` is minus the sum over all
    live files — the roll-up carries the last transaction's `I` and `D`, so (with `M1 = M0 ++ [tx]`)
    only if that transaction discarded nothing net (`Σ live M0 = Σ live M1`) and the tree sums to
    minus its own discard; an ingest, whose discard is minus the new file, does not -/
theorem rollup_needs_first_record_rule {F : Type} [DecidableEq F] (s : F → G) (acc : G)
    (recs1 : List (Rec G F)) (files1 : List F) (later : List (Rec G F))
    (hv : verify g s acc (rollRec g.zero recs1 files1 :: later) = true) :
    (lastIOD g.zero recs1).1 = acc
    ∧ (lastIOD g.zero recs1).2.2 = computedDiscard g s [] files1 := by
  simp only [verify, Bool.and_eq_true, decide_eq_true_eq] at hv
  exact ⟨hv.1.1.1, hv.1.2⟩

/-- (3) through the bytes: the new MANIFEST (the roll-up's edit, then the later booked edits) cut
    at any byte reads as a corruption error, or as nothing (the cut fell inside the roll-up — but
    the roll-up is written to a temporary and renamed only after its sync: C13 `crash_recover`), or
    as the roll-up and the first `k` later transactions, whole: records that `verify_one`'s rule
    accepts from the old accumulator and whose last `O` is the sum over the files then listed -/
theorem books_across_rollover_bytes (crc : List Nat → Nat) (hcrc : CrcOk crc) (c : Codec G) (hc : c.Ok)
    (M1 M2 : List StoreCrash.Tx) (hgood : GoodTxs [] (M1 ++ M2))
    (hnc : ∀ l ∈ linesOf (((rollRec g.zero (booked g h [] M1) (StoreCrash.live M1)
        :: booked g h (StoreCrash.live M1) M2).map (digestRec (digest g h))).map (bookedEdit c)), l.NoCollision crc)
    (m : Nat) :
    let acc := lastO g.zero (booked g h [] M1)
    let R := rollRec g.zero (booked g h [] M1) (StoreCrash.live M1)
    let recs := (R :: booked g h (StoreCrash.live M1) M2).map (digestRec (digest g h))
    let es := recs.map (bookedEdit c)
    let bytes := (fileBytes crc es).take m
    openBytes crc bytes = none
    ∨ openBytes crc bytes = some (replay maniAlgebra [])
    ∨ ∃ k, openBytes crc bytes = some (replay maniAlgebra (es.take (k + 1)))
        ∧ recsOfEdits c (es.take (k + 1))
            = some ((R :: booked g h (StoreCrash.live M1) (M2.take k)).map (digestRec (digest g h)))
        ∧ verifyFrag g (digest g h) acc (R :: booked g h (StoreCrash.live M1) (M2.take k)) = true
        ∧ lastO acc (R :: booked g h (StoreCrash.live M1) (M2.take k))
            = total g (digest g h) (StoreCrash.live (M1 ++ M2.take k)) := by
  intro acc R recs es bytes
  rcases torn_booked crc hcrc c hc recs hnc m with h1 | ⟨k, _, h2, h3⟩
  · exact Or.inl h1.2
  · right
    cases k with
    | zero => left; exact h2
    | succ k =>
      right
      have hg : GoodTxs [] (M1 ++ M2.take k) := by
        apply goodTxs_prefix _ hgood
        exact (List.prefix_append_right_inj M1).mpr (List.take_prefix k M2)
      obtain ⟨_, _, _, hv, hl, _, _⟩ := books_across_rollover g h M1 (M2.take k) hg
      refine ⟨k, h2, ?_, hv, hl⟩
      rw [h3]
      show some (((R :: booked g h (StoreCrash.live M1) M2).map (digestRec (digest g h))).take (k + 1)) = _
      rw [← List.map_take]
      show some ((R :: (booked g h (StoreCrash.live M1) M2).take k).map _) = _
      rw [booked_take]

end books

/-! ### the examples' codec and a checksum for which C13's hypothesis is a computation -/

theorem c7_ok : c7.Ok := by
  constructor
  · decide
  · intro x; revert x; unfold StrOk; decide

/-- a toy checksum: the body's length (a proper prefix is shorter, so `NoCollision` holds of every
    line shorter than 2³² bytes) -/
def lenCrc (l : List Nat) : Nat := l.length % 4294967296

theorem crcOk_lenCrc : CrcOk lenCrc := fun l => Nat.mod_lt _ (by decide)

def shortLines : List Ln → Bool
  | [] => true
  | .it i :: t => decide (i.body.length < 4294967296) && shortLines t
  | .sep :: t => shortLines t

theorem noCollision_lenCrc : ∀ ls : List Ln, shortLines ls = true → ∀ l ∈ ls, l.NoCollision lenCrc
  | [], _, _, hl => by cases hl
  | .sep :: t, hs, l, hl => by
    rcases List.mem_cons.mp hl with rfl | hl
    · trivial
    · exact noCollision_lenCrc t hs l hl
  | .it i :: t, hs, l, hl => by
    simp only [shortLines, Bool.and_eq_true, decide_eq_true_eq] at hs
    rcases List.mem_cons.mp hl with rfl | hl
    · intro q _ h2
      unfold lenCrc
      rw [List.length_take, Nat.min_eq_left (Nat.le_of_lt h2), Nat.mod_eq_of_lt (Nat.lt_trans h2 hs.1),
        Nat.mod_eq_of_lt hs.1]
      exact Nat.ne_of_lt h2
    · exact noCollision_lenCrc t hs.2 l hl

/-- two flushes (`{0}`, `{1}`), then their merge into `{0,1}` -/
def exM3 : List StoreCrash.Tx := [⟨[[0]], []⟩, ⟨[[1]], []⟩, ⟨[[0, 1]], [[0], [1]]⟩]

end Blue.BooksBytes
