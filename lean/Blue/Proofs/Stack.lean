import Blue.Proofs.MergingLink
import Blue.Proofs.PruningSubst
import Blue.Proofs.BoundsLink
/-! **C03/C11 capstone**: the scan stack `Bounds(Pruning(Merging[children]))`, over any children
    that behave like tables, behaves like one reference cursor over the windowed, pruned, merged
    table — for every finite program with admissible seek predicates. -/
namespace Blue.Cursor
open Blue.Cursor.Filtered
variable {E K : Type} [DecidableEq K]

theorem pruned_length_le (pcfg : PruneCfg E K) (xs : List E) : (pruned pcfg xs).length ≤ xs.length := by
  rw [pruned_length]
  unfold S
  calc ((List.range xs.length).filter (shownP pcfg xs)).length
      ≤ (List.range xs.length).length := List.length_filter_le _ _
    _ = xs.length := List.length_range

theorem scan_stack (lt : E → E → Bool) (st : StrictTotal lt) (M : List (E × Nat)) (k : Nat)
    (fam : Family lt M k) (pcfg : PruneCfg E K) (bcfg : BoundsCfg E) (n : Nat)
    (g : Grouped pcfg (M.map (·.1))) {lo hi : Nat}
    (ok : BoundsOk bcfg (pruned pcfg (M.map (·.1))) lo hi)
    (hn : (M.map (·.1)).length + 2 ≤ n)
    (A : (E → Bool) → Prop)
    (hA1 : ∀ p, A p → Mono lt p)
    (hA2 : ∀ p, A p → SeekPred pcfg (M.map (·.1)) p)
    (hA3 : ∀ p, A p → MonoAlong (pruned pcfg (M.map (·.1))) p)
    (hs : A bcfg.geStart) (he : A bcfg.geEnd)
    (C : Cur E) (cs : List C.σ) (rs : List (Ref E))
    (hkids : (rs.map (·.xs)).Perm ((List.range k).map (childList M)))
    (hbeh : cs.map (behA A C) = rs.map (behA A (RefCur E))) :
    BehEq A (BoundsC.cur (PruningC.cur (MergingC.cur C lt) pcfg n) bcfg n)
      (BoundsC.new (PruningC.cur (MergingC.cur C lt) pcfg n) bcfg
        (PruningC.new (MergingC.cur C lt) (MergingC.new C lt cs)))
      (RefCur E) ⟨window (pruned pcfg (M.map (·.1))) lo hi, 0⟩ := by
  -- 1. the merging cursor over the children behaves as the reference cursor over the merged table
  have h1 : BehEq A (MergingC.cur C lt) (MergingC.new C lt cs) (RefCur E) ⟨M.map (·.1), 0⟩ := by
    have hsub := merging_subst (A := A) (C := C) (D := RefCur E) lt cs rs hbeh true
    have hstep := behEq_step hsub .first trivial
    have hrel := rel_new (lt := lt) (M := M) (k := k) st rs hkids
    have hspec := mergingC_ref_behEq lt st fam A hA1 (Merging.new lt rs) 0 hrel
    have e : (MergingC.cur (RefCur E) lt).step ⟨true, rs⟩ .first = MergingLink.ofSpec (Merging.new lt rs) :=
      MergingLink.step_ref lt ⟨true, rs⟩ .first
    rw [e] at hstep
    exact hstep.trans hspec
  -- 2. pruning
  have h2 : BehEq A (PruningC.cur (MergingC.cur C lt) pcfg n)
      (PruningC.new (MergingC.cur C lt) (MergingC.new C lt cs)) (RefCur E) ⟨pruned pcfg (M.map (·.1)), 0⟩ := by
    have hfirst := behEq_step h1 .first trivial
    have hrel : PRel pcfg (M.map (·.1)) ⟨⟨M.map (·.1), 0⟩, none⟩ 0 :=
      prel_new pcfg (M.map (·.1)) ⟨M.map (·.1), 0⟩ rfl
    exact pruning_over pcfg n (M.map (·.1)) g hn hA2 hfirst none 0 hrel
  -- 3. bounds
  have hn' : (pruned pcfg (M.map (·.1))).length + 2 ≤ n := by
    have := pruned_length_le pcfg (M.map (·.1)); omega
  have h3 := bounds_over bcfg n (pruned pcfg (M.map (·.1))) ok hn' hA3 hs he h2 .beforeStart 0
    (BRel.before 0 (by omega) (by omega))
  exact behEq_step h3 .first trivial

end Blue.Cursor

#print axioms Blue.Cursor.scan_stack
