import Blue.Proofs.SelectorClosed
/-! **C01** `compute_bounds` on one sorted level: the index slice `lower_bound(first) ..
    upper_bound(last)` holds exactly the files that meet the range, and when the fixed-point loop
    exits the range covers them — the two facts `Selection.takes` / `Selection.Ok.covers` assume. -/
namespace Blue.Spec

/-- `ssts[lower_bound(r.lo) .. upper_bound(r.hi)]` -/
def sliceR (l : List TFile) (r : Rng) : List TFile :=
  (l.drop (lowerBound l r.lo)).take (upperBound l r.hi - lowerBound l r.lo)

/-- everything from the lower bound on ends at or after the key -/
theorem after_lower (k : Nat) : ∀ (l : List TFile), LevelSorted l → (∀ f ∈ l, f.Wf) →
    ∀ f ∈ l.dropWhile (fun f => decide (f.last < k)), k ≤ f.last
  | [], _, _, f, h => by cases h
  | x :: xs, hs, hw, f, h => by
    unfold LevelSorted at hs
    rw [List.pairwise_cons] at hs
    simp only [List.dropWhile_cons] at h
    split at h
    · exact after_lower k xs hs.2 (fun g hg => hw g (List.mem_cons_of_mem _ hg)) f h
    · rename_i hx
      have hxk : k ≤ x.last := by simpa using hx
      rcases List.mem_cons.mp h with rfl | h'
      · exact hxk
      · have := hs.1 f h'
        have := (hw f (List.mem_cons_of_mem _ h')).1
        omega

theorem mem_split3 (l : List TFile) (a b : Nat) (f : TFile) (hf : f ∈ l) :
    f ∈ l.take a ∨ f ∈ (l.drop a).take (b - a) ∨ f ∈ l.drop (a + (b - a)) := by
  have h1 : l = l.take a ++ ((l.drop a).take (b - a) ++ (l.drop a).drop (b - a)) := by
    rw [List.take_append_drop, List.take_append_drop]
  rw [h1] at hf
  simp only [List.mem_append] at hf
  rcases hf with h | h | h
  · exact Or.inl h
  · exact Or.inr (Or.inl h)
  · rw [List.drop_drop] at h; exact Or.inr (Or.inr h)

/-- the index slice holds exactly the files that meet the range -/
theorem sliceR_mem_iff (l : List TFile) (hs : LevelSorted l) (hw : ∀ f ∈ l, f.Wf) (r : Rng) (f : TFile)
    (hf : f ∈ l) : f ∈ sliceR l r ↔ r.meets f = true := by
  unfold sliceR Rng.meets
  simp only [Bool.and_eq_true, decide_eq_true_eq]
  constructor
  · intro h
    have hd := List.mem_of_mem_take h
    have h1 : r.lo ≤ f.last := by
      unfold lowerBound at hd
      rw [drop_len_takeWhile] at hd
      exact after_lower r.lo l hs hw f hd
    refine ⟨?_, h1⟩
    -- it sits before the upper bound
    rw [List.take_drop] at h
    have ht := List.mem_of_mem_drop h
    have ht' : f ∈ l.take (upperBound l r.hi) := by
      rcases Nat.le_total (lowerBound l r.lo) (upperBound l r.hi) with hle | hle
      · have : lowerBound l r.lo + (upperBound l r.hi - lowerBound l r.lo) = upperBound l r.hi := by omega
        rw [this] at ht; exact ht
      · -- an empty slice has no members
        have : upperBound l r.hi - lowerBound l r.lo = 0 := by omega
        rw [this] at h; simp at h
    unfold upperBound at ht'
    rw [take_len_takeWhile] at ht'
    have := mem_takeWhile_sat _ l f ht'
    simpa using this
  · intro ⟨h1, h2⟩
    rcases mem_split3 l (lowerBound l r.lo) (upperBound l r.hi) f hf with h | h | h
    · exfalso
      unfold lowerBound at h
      rw [take_len_takeWhile] at h
      have := mem_takeWhile_sat _ l f h
      simp only [decide_eq_true_eq] at this
      omega
    · exact h
    · exfalso
      have hmem : f ∈ l.drop (upperBound l r.hi) := by
        have : l.drop (lowerBound l r.lo + (upperBound l r.hi - lowerBound l r.lo))
            = (l.drop (upperBound l r.hi)).drop
                (lowerBound l r.lo + (upperBound l r.hi - lowerBound l r.lo) - upperBound l r.hi) := by
          rw [List.drop_drop]; congr 1; omega
        rw [this] at h
        exact List.mem_of_mem_drop h
      unfold upperBound at hmem
      rw [drop_len_takeWhile] at hmem
      have := after_upper r.hi l hs hw f hmem
      omega

/-- the loop's exit test, on the slice: its first file does not start before the range and its
    last file does not end after it -/
def exitOk (l : List TFile) (r : Rng) : Prop :=
  (∀ f, (sliceR l r).head? = some f → r.lo ≤ f.first) ∧ (∀ f, (sliceR l r).getLast? = some f → f.last ≤ r.hi)

/-- at exit the range covers every file of the slice -/
theorem exit_covers (l : List TFile) (hs : LevelSorted l) (hw : ∀ f ∈ l, f.Wf) (r : Rng)
    (hex : exitOk l r) : ∀ f ∈ sliceR l r, r.lo ≤ f.first ∧ f.last ≤ r.hi := by
  -- the slice is itself sorted
  have hsub : (sliceR l r).Sublist l := (List.take_sublist _ _).trans (List.drop_sublist _ _)
  have hss : LevelSorted (sliceR l r) := List.Pairwise.sublist hsub hs
  have hww : ∀ f ∈ sliceR l r, f.Wf := fun f hf => hw f (hsub.subset hf)
  unfold exitOk at hex
  generalize sliceR l r = sl at hex hss hww
  intro f hf
  obtain ⟨hhead, hlast⟩ := hex
  constructor
  · cases sl with
    | nil => cases hf
    | cons x xs =>
      have hx := hhead x rfl
      rcases List.mem_cons.mp hf with rfl | hf'
      · exact hx
      · unfold LevelSorted at hss
        rw [List.pairwise_cons] at hss
        have := hss.1 f hf'
        have := (hww x List.mem_cons_self).1
        omega
  · obtain ⟨ini, lst, rfl⟩ : ∃ ini lst, sl = ini ++ [lst] := by
      cases hsl : sl.getLast? with
      | none => rw [List.getLast?_eq_none_iff] at hsl; subst hsl; cases hf
      | some z =>
        obtain ⟨ys, hys⟩ := List.getLast?_eq_some_iff.mp hsl
        exact ⟨ys, z, hys⟩
    have hz := hlast lst (by simp)
    rw [List.mem_append] at hf
    rcases hf with hf' | hf'
    · unfold LevelSorted at hss
      rw [List.pairwise_append] at hss
      have := hss.2.2 f hf' lst (by simp)
      have := (hww lst (by simp)).1
      omega
    · simp only [List.mem_singleton] at hf'; subst hf'; exact hz

end Blue.Spec

#print axioms Blue.Spec.sliceR_mem_iff
#print axioms Blue.Spec.exit_covers
