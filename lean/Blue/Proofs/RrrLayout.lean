import Blue.Proofs.RrrChunks
import Blue.Proofs.RrrBitArr
import Blue.Proofs.RrrWidth
import Blue.Proofs.RrrWordSpec
/-! The layout of a built RRR vector: what every `load` the queries perform on the six arrays of
    `construct bits` returns, in terms of the 63-bit chunks of `bits`. -/
namespace Blue.Rrr
open Blue.BitArr

theorem decode_class_zero (o : Nat) : decode o 0 = some 0 := by
  unfold decode; rw [if_pos rfl]

attribute [local irreducible] encode decode popcount wordsOf

/-- word `k` of the pattern -/
def wordAt (bits : List Bool) (k : Nat) : Nat := ofBits (chunk bits k)

/-- `L[class of word k]` -/
def wid (bits : List Bool) (k : Nat) : Nat := lTab.getD (cnt bits k) 0

/-- number of words -/
def nwords (bits : List Bool) : Nat := (wordsOf bits).length

theorem lTab_length : lTab.length = 64 := by decide

theorem lTab_le_small : ∀ c, c < 64 → lTab.getD c 0 ≤ 61 := by decide

theorem lTab_le (c : Nat) : lTab.getD c 0 ≤ 61 := by
  by_cases h : c < 64
  · exact lTab_le_small c h
  · rw [List.getD_eq_getElem?_getD, List.getElem?_eq_none (by rw [lTab_length]; omega)]
    simp

theorem lGet_of_le (c : Nat) (h : c ≤ 63) : lGet c = some (lTab.getD c 0) := by
  unfold lGet
  have hl : c < lTab.length := by rw [lTab_length]; omega
  rw [List.getD_eq_getElem?_getD, List.getElem?_eq_getElem hl, Option.getD_some]

theorem lTab_zero : lTab.getD 0 0 = 0 := by decide

theorem wid_le (bits : List Bool) (k : Nat) : wid bits k ≤ 61 := lTab_le _

/-- a fixed-width sealed array reads back as the list of its fields -/
theorem load_packAll_get (vals : List Nat) (w : Nat) (hw : 8 ≤ w) (hb : ∀ v, v ∈ vals → v < 2 ^ w) (k : Nat) :
    load (sealBits (packAll vals w)) (k * w) w = vals[k]? := by
  by_cases hk : k < vals.length
  · rw [List.getElem?_eq_getElem hk]
    exact load_packAll vals w k _ (List.getElem?_eq_getElem hk) (hb _ (List.getElem_mem hk))
  · rw [List.getElem?_eq_none (by omega)]
    exact load_packAll_beyond vals w k hw (by omega)

section
variable (ws : WordSpec) (bits : List Bool)
include ws

theorem nwords_eq : nwords bits = (bits.length + 62) / 63 := ws.wordsOf_length bits

theorem nwords_bounds : 63 * nwords bits < bits.length + 63 ∧ bits.length ≤ 63 * nwords bits := by
  rw [nwords_eq ws]; omega

theorem words_getElem (k : Nat) (h : k < (wordsOf bits).length) : (wordsOf bits)[k] = wordAt bits k := by
  have := ws.wordsOf_get bits k h
  rw [List.getElem?_eq_getElem h] at this
  exact Option.some.inj this

theorem wordAt_lt (k : Nat) : wordAt bits k < 2 ^ 63 := ws.ofBits_lt _ (chunk_length_le bits k)

theorem popcount_wordAt (k : Nat) : popcount (wordAt bits k) = cnt bits k :=
  ws.popcount_ofBits _ (chunk_length_le bits k)

theorem encode_wordAt_snd (k : Nat) : (encode (wordAt bits k)).2 = cnt bits k := by
  rw [ws.encode_class _ (wordAt_lt ws bits k), popcount_wordAt ws]

theorem wcls_words (k : Nat) (h : k < nwords bits) : wcls (wordsOf bits) k = cnt bits k := by
  rw [wcls_eq _ _ h, words_getElem ws bits k h, encode_wordAt_snd ws]

theorem wwid_words (k : Nat) (h : k < nwords bits) : wwid (wordsOf bits) k = wid bits k := by
  rw [wwid_eq, wcls_words ws bits k h]; rfl

/-- the (offset, width) field of word `k` -/
@[irreducible] def fld (bits : List Bool) (k : Nat) : Nat × Nat := ((encode (wordAt bits k)).1, wid bits k)

omit ws in
theorem fld_fst (k : Nat) : (fld bits k).1 = (encode (wordAt bits k)).1 := by unfold fld; rfl
omit ws in
theorem fld_snd (k : Nat) : (fld bits k).2 = wid bits k := by unfold fld; rfl
omit ws in
theorem fld_eq (k : Nat) : fld bits k = ((encode (wordAt bits k)).1, wid bits k) := by unfold fld; rfl

theorem wfld_words (k : Nat) (h : k < nwords bits) : wfld (wordsOf bits) k = fld bits k := by
  apply Prod.ext
  · rw [wfld_fst _ _ h, words_getElem ws bits k h, fld_fst]
  · rw [wfld_snd, wwid_words ws bits k h, fld_snd]

theorem psum_wcls (t : Nat) (h : t ≤ nwords bits) : psum (wcls (wordsOf bits)) t = psum (cnt bits) t :=
  psum_congr _ _ t (fun i hi => wcls_words ws bits i (by omega))

theorem psum_wwid (t : Nat) (h : t ≤ nwords bits) : psum (wwid (wordsOf bits)) t = psum (wid bits) t :=
  psum_congr _ _ t (fun i hi => wwid_words ws bits i (by omega))

theorem psum_wcls0 (t : Nat) (h : t ≤ nwords bits) :
    psum (fun i => 63 - wcls (wordsOf bits) i) t = psum (fun i => 63 - cnt bits i) t :=
  psum_congr _ _ t (fun i hi => by rw [wcls_words ws bits i (by omega)])

end

/-! ### the state at the end of the loop, in terms of the chunks -/

def finalSt (bits : List Bool) : Build := (wordsOf bits).foldl buildStep buildInit

theorem construct_eq (bits : List Bool) : construct bits =
    { word := 8, select := 64, bits := bits.length,
      p := sealBits (pack (finalSt bits).p (widthOf bits.length)),
      c := sealBits (pack (finalSt bits).c 6),
      o := sealBits (packF (finalSt bits).o),
      r := sealBits (pack (finalSt bits).r (widthOf bits.length)),
      s0 := sealBits (pack (finalSt bits).s0 (widthOf bits.length)),
      s1 := sealBits (pack (finalSt bits).s1 (widthOf bits.length)) } := by
  unfold construct constructFromWords
  rw [calcWidth_eq]
  rfl

theorem constructFromWords_isSome (bits : Nat) (words : List Nat) : (constructFromWords bits words).isSome = true := by
  unfold constructFromWords
  rw [calcWidth_eq]
  rfl

theorem construct_eq' (bits : List Bool) : construct bits =
    { word := 8, select := 64, bits := bits.length,
      p := sealBits (packAll (finalSt bits).p (widthOf bits.length)),
      c := sealBits (packAll (finalSt bits).c 6),
      o := sealBits (packFields (finalSt bits).o),
      r := sealBits (packAll (finalSt bits).r (widthOf bits.length)),
      s0 := sealBits (packAll (finalSt bits).s0 (widthOf bits.length)),
      s1 := sealBits (packAll (finalSt bits).s1 (widthOf bits.length)) } := by
  rw [construct_eq]
  simp only [pack_eq_packAll, packF_eq_packFields]

theorem construct_word (bits : List Bool) : (construct bits).word = 8 := by rw [construct_eq]
theorem construct_select (bits : List Bool) : (construct bits).select = 64 := by rw [construct_eq]
theorem construct_bits (bits : List Bool) : (construct bits).bits = bits.length := by rw [construct_eq]
theorem construct_p (bits : List Bool) :
    (construct bits).p = sealBits (packAll (finalSt bits).p (widthOf bits.length)) := by rw [construct_eq']
theorem construct_r (bits : List Bool) :
    (construct bits).r = sealBits (packAll (finalSt bits).r (widthOf bits.length)) := by rw [construct_eq']
theorem construct_s0 (bits : List Bool) :
    (construct bits).s0 = sealBits (packAll (finalSt bits).s0 (widthOf bits.length)) := by rw [construct_eq']
theorem construct_s1 (bits : List Bool) :
    (construct bits).s1 = sealBits (packAll (finalSt bits).s1 (widthOf bits.length)) := by rw [construct_eq']
theorem construct_c (bits : List Bool) : (construct bits).c = sealBits (packAll (finalSt bits).c 6) := by
  rw [construct_eq']
theorem construct_o (bits : List Bool) : (construct bits).o = sealBits (packFields (finalSt bits).o) := by
  rw [construct_eq']

section
variable (ws : WordSpec) (bits : List Bool)
include ws

omit ws in
theorem final_inv : BuildInv (wordsOf bits) (nwords bits) (finalSt bits) := buildInv_final (wordsOf bits)

theorem final_c : (finalSt bits).c = (List.range (nwords bits)).map (cnt bits) := by
  rw [(final_inv bits).c]
  exact List.map_congr_left (fun k hk => wcls_words ws bits k (List.mem_range.mp hk))

theorem final_o : packFields (finalSt bits).o = packFields ((List.range (nwords bits)).map (fld bits)) := by
  have e : (List.range (nwords bits)).map (wfld (wordsOf bits)) = (List.range (nwords bits)).map (fld bits) :=
    List.map_congr_left (fun k hk => wfld_words ws bits k (List.mem_range.mp hk))
  rw [(final_inv bits).o, packFields_filter, e]

theorem final_p : (finalSt bits).p = (List.range ((nwords bits + 7) / 8)).map (fun b => psum (wid bits) (8 * b)) := by
  rw [(final_inv bits).p]
  apply List.map_congr_left
  intro b hb
  have := List.mem_range.mp hb
  exact psum_wwid ws bits (8 * b) (by omega)

theorem final_r : (finalSt bits).r = (List.range ((nwords bits + 7) / 8)).map (fun b => psum (cnt bits) (8 * b)) := by
  rw [(final_inv bits).r]
  apply List.map_congr_left
  intro b hb
  have := List.mem_range.mp hb
  exact psum_wcls ws bits (8 * b) (by omega)

omit ws in
theorem sampleInv_congr (G G' : Nat → Nat) (k : Nat) (S : List Nat) (ns : Nat) (h : ∀ i, i ≤ k → G i = G' i)
    (inv : SampleInv G k S ns) : SampleInv G' k S ns := by
  refine ⟨?_, inv.ns, ?_⟩
  · rw [inv.len, h k (Nat.le_refl _)]
  · intro j a hj
    have := inv.val j a hj
    rw [h (8 * a) (by omega)] at this
    exact this

theorem final_s1 : SampleInv (psum (cnt bits)) (nwords bits) (finalSt bits).s1 (finalSt bits).ns1 :=
  sampleInv_congr _ _ _ _ _ (fun i hi => psum_wcls ws bits i hi) (final_inv bits).s1

theorem final_s0 : SampleInv (psum (fun i => 63 - cnt bits i)) (nwords bits) (finalSt bits).s0 (finalSt bits).ns0 :=
  sampleInv_congr _ _ _ _ _ (fun i hi => psum_wcls0 ws bits i hi) (final_inv bits).s0

/-! ### bounds: everything stored in a `width`-bit field fits -/

omit ws in
theorem psum_cnt_le (t : Nat) : psum (cnt bits) t ≤ 63 * t := psum_le_mul _ 63 t (fun i _ => cnt_le bits i)

omit ws in
theorem psum_wid_le (t : Nat) : psum (wid bits) t ≤ 63 * t :=
  psum_le_mul _ 63 t (fun i _ => Nat.le_trans (wid_le bits i) (by omega))

/-- a word index below the number of words starts inside the pattern -/
theorem word_start_lt (t : Nat) (h : t < nwords bits) : 63 * t < bits.length := by
  have := nwords_bounds ws bits; omega

omit ws in
theorem fits_width (v : Nat) (h : v ≤ bits.length) : v < 2 ^ widthOf bits.length :=
  Nat.lt_of_le_of_lt h (lt_pow_widthOf bits.length)

/-! ### the loads -/

/-- `c`: the class of word `k` -/
theorem load_c (k : Nat) (h : k < nwords bits) : load (construct bits).c (6 * k) 6 = some (cnt bits k) := by
  rw [construct_c, final_c ws, Nat.mul_comm 6 k]
  apply load_packAll
  · rw [List.getElem?_map, List.getElem?_range h]; rfl
  · have := cnt_le bits k; omega

/-- `c` beyond the last word: the load fails, or reads a phantom class 0 out of the seal padding -/
theorem load_c_end (k : Nat) (h : nwords bits ≤ k) :
    load (construct bits).c (6 * k) 6 = none ∨ load (construct bits).c (6 * k) 6 = some 0 := by
  rw [construct_c]
  apply load_sealed_pad
  rw [packAll_length, final_c ws, List.length_map, List.length_range]; omega

/-- … and there is at most one phantom class -/
theorem load_c_beyond (k : Nat) (h : nwords bits + 1 ≤ k) : load (construct bits).c (6 * k) 6 = none := by
  rw [construct_c, final_c ws]
  apply load_sealed_beyond _ _ _ (by omega)
  have := sealBits_length_lt (packAll ((List.range (nwords bits)).map (cnt bits)) 6)
  rw [packAll_length, List.length_map, List.length_range] at this
  omega

theorem c_length_ge : nwords bits * 6 ≤ (construct bits).c.length := by
  rw [construct_c, final_c ws]
  have := sealBits_length_ge (packAll ((List.range (nwords bits)).map (cnt bits)) 6)
  rw [packAll_length, List.length_map, List.length_range] at this
  exact this

/-- `load_c_o_bits` on a real word -/
theorem loadCO_word (k : Nat) (h : k < nwords bits) : loadCO (construct bits) (6 * k) = some (cnt bits k, wid bits k) := by
  unfold loadCO
  rw [load_c ws bits k h]
  simp only
  rw [lGet_of_le _ (cnt_le bits k)]
  rfl

/-- `load_c_o_bits` beyond the last word -/
theorem loadCO_end (k : Nat) (h : nwords bits ≤ k) :
    loadCO (construct bits) (6 * k) = none ∨ loadCO (construct bits) (6 * k) = some (0, 0) := by
  unfold loadCO
  rcases load_c_end ws bits k h with h1 | h1
  · left; rw [h1]
  · right; rw [h1]
    simp only
    rw [lGet_of_le 0 (by omega), lTab_zero]

theorem loadCO_beyond (k : Nat) (h : nwords bits + 1 ≤ k) : loadCO (construct bits) (6 * k) = none := by
  unfold loadCO
  rw [load_c_beyond ws bits k h]

/-- `o`: the offset of word `k` sits at the sum of the widths before it -/
theorem load_o (k : Nat) (h : k < nwords bits) :
    load (construct bits).o (psum (wid bits) k) (wid bits k) = some (encode (wordAt bits k)).1 := by
  rw [construct_o, final_o ws]
  have hfit : (encode (wordAt bits k)).1 < 2 ^ wid bits k := by
    have := ws.encode_fits _ (wordAt_lt ws bits k)
    rw [popcount_wordAt ws] at this
    exact this
  have hget : ((List.range (nwords bits)).map (fld bits))[k]? = some ((encode (wordAt bits k)).1, wid bits k) := by
    rw [List.getElem?_map, List.getElem?_range h, Option.map_some, fld_eq]
  have := load_packFields _ k _ _ hget hfit []
  rw [List.append_nil] at this
  have hoff : ((((List.range (nwords bits)).map (fld bits)).take k).map (·.2)).sum = psum (wid bits) k := by
    rw [← List.map_take, List.take_range, Nat.min_eq_left (Nat.le_of_lt h), List.map_map]
    unfold psum
    congr 1
    exact List.map_congr_left (fun i _ => fld_snd bits i)
  rw [hoff] at this
  exact this

/-- `load_o` on a real word: the word comes back -/
theorem loadO_word (k : Nat) (h : k < nwords bits) :
    loadO (construct bits) (cnt bits k) (psum (wid bits) k) (wid bits k) = some (wordAt bits k) := by
  unfold loadO
  rw [load_o ws bits k h]
  simp only
  have := ws.decode_encode _ (wordAt_lt ws bits k)
  rw [encode_wordAt_snd ws] at this
  exact this

omit ws in
/-- `load_o` for a phantom class 0: a zero-width load, the all-clear word -/
theorem loadO_zero (off : Nat) : loadO (construct bits) 0 off 0 = some 0 := by
  unfold loadO
  rw [load_zero]
  exact decode_class_zero 0

theorem p_vals_fit : ∀ v, v ∈ (finalSt bits).p → v < 2 ^ widthOf bits.length := by
  intro v hv
  rw [final_p ws, List.mem_map] at hv
  obtain ⟨b, hb, rfl⟩ := hv
  have hb := List.mem_range.mp hb
  have h1 := psum_wid_le bits (8 * b)
  have h2 := nwords_bounds ws bits
  exact fits_width bits _ (by omega)

theorem r_vals_fit : ∀ v, v ∈ (finalSt bits).r → v < 2 ^ widthOf bits.length := by
  intro v hv
  rw [final_r ws, List.mem_map] at hv
  obtain ⟨b, hb, rfl⟩ := hv
  have hb := List.mem_range.mp hb
  have h1 := psum_cnt_le bits (8 * b)
  have h2 := nwords_bounds ws bits
  exact fits_width bits _ (by omega)

/-- `p`: block `b` starts at the sum of the offset widths of the words before it -/
theorem load_p (b : Nat) :
    load (construct bits).p (b * widthOf bits.length) (widthOf bits.length)
      = if 8 * b < nwords bits then some (psum (wid bits) (8 * b)) else none := by
  rw [construct_p, load_packAll_get _ _ (widthOf_ge _) (p_vals_fit ws bits), final_p ws, List.getElem?_map]
  by_cases h : 8 * b < nwords bits
  · rw [if_pos h, List.getElem?_range (by omega)]; rfl
  · rw [if_neg h, List.getElem?_eq_none (by rw [List.length_range]; omega)]; rfl

/-- `r`: the set bits before block `b` -/
theorem load_r (b : Nat) :
    load (construct bits).r (b * widthOf bits.length) (widthOf bits.length)
      = if 8 * b < nwords bits then some (psum (cnt bits) (8 * b)) else none := by
  rw [construct_r, load_packAll_get _ _ (widthOf_ge _) (r_vals_fit ws bits), final_r ws, List.getElem?_map]
  by_cases h : 8 * b < nwords bits
  · rw [if_pos h, List.getElem?_range (by omega)]; rfl
  · rw [if_neg h, List.getElem?_eq_none (by rw [List.length_range]; omega)]; rfl

theorem sample_vals_fit (G : Nat → Nat) (S : List Nat) (ns : Nat) (inv : SampleInv G (nwords bits) S ns) :
    ∀ v, v ∈ S → v < 2 ^ widthOf bits.length := by
  intro v hv
  obtain ⟨j, hj⟩ := List.mem_iff_getElem?.mp hv
  have h1 := (inv.val j v hj).1
  have h2 := nwords_bounds ws bits
  exact fits_width bits _ (by omega)

/-- `s1`: sample `j` -/
theorem load_s1 (j : Nat) :
    load (construct bits).s1 (j * widthOf bits.length) (widthOf bits.length) = (finalSt bits).s1[j]? := by
  rw [construct_s1, load_packAll_get _ _ (widthOf_ge _) (sample_vals_fit ws bits _ _ _ (final_s1 ws bits))]

/-- `s0`: sample `j` -/
theorem load_s0 (j : Nat) :
    load (construct bits).s0 (j * widthOf bits.length) (widthOf bits.length) = (finalSt bits).s0[j]? := by
  rw [construct_s0, load_packAll_get _ _ (widthOf_ge _) (sample_vals_fit ws bits _ _ _ (final_s0 ws bits))]

end

end Blue.Rrr
