import Blue.Generated.Consts
import Blue.Model.SstOpen
import Blue.Model.Damage
/-! Constants of the readers of damaged files (C09) regenerated from the Rust source, tied to the
    models `Blue.SstOpen` and `Blue.Damage`. -/
namespace Blue.ConstsTie
open Blue.ProtoMsg

/-- the name prototk gives a field type -/
def tyName : Ty → String
  | .scalar .uint64 => "uint64"
  | .scalar .fixed32 => "fixed32"
  | .scalar .fixed64 => "fixed64"
  | .scalar .bytes => "bytes"
  | .scalar (.bytesN 32) => "bytes32"
  | .msg _ => "message"
  | _ => "other"

def variantTy : Variant → String
  | .tuple _ ty => tyName ty
  | _ => "other"

/-- the error codes the SST model answers with are the source's `CODE_*` strings -/
theorem c09_error_codes :
    Blue.SstOpen.Err.all.map Blue.SstOpen.Err.code = Blue.Generated.sstReadErrorCodes := by decide

/-- the schemas the model unpacks hostile bytes with carry the source's field numbers and types
    (`FinalBlock`, `BlockMetadata`, `SstEntry`) -/
theorem c09_schemas :
    Blue.SstOpen.finalFields.map (fun f => (f.num, tyName f.ty))
        = Blue.Generated.finalBlockFields.zip Blue.Generated.finalBlockTypes
    ∧ Blue.SstOpen.blockMetaFields.map (fun f => (f.num, tyName f.ty))
        = Blue.Generated.blockMetadataFields.zip Blue.Generated.blockMetadataTypes
    ∧ (match Blue.SstOpen.sstEntryMsg with
       | .enum vs _ => vs.map (fun v => (v.num, variantTy v))
       | _ => []) = Blue.Generated.sstEntryFields.zip Blue.Generated.sstEntryTypes
    ∧ Blue.Generated.sstTrailerBytes = 8 := by decide

/-- `log_to_builder` / `log_to_setsum` hand a reader error on (`?`) — the model describes the code
    after the repair of D-3 (`/repo fix 3de862f`); on the code as found, which
    unwraps, this obligation fails -/
theorem c09_replay_propagates :
    Blue.Damage.replayPropagatesErrors = decide (Blue.Generated.logReplayUnwraps = 0) := by decide

/-- the non-ASCII check of `ManifestIterator::next` returns its error without poisoning the
    iterator (`Item.notAscii` lets `iterate` go on) -/
theorem c09_mani_non_ascii_does_not_poison : Blue.Generated.maniNonAsciiPoisons = 0 := by decide

end Blue.ConstsTie
