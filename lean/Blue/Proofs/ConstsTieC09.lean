import Blue.Generated.Consts
import Blue.Model.SstOpen
import Blue.Model.Damage
/-! Constants of the readers of damaged files (C09) regenerated from the Rust source, tied to the
    models `Blue.SstOpen` and `Blue.Damage`. -/
namespace Blue.ConstsTie
open Blue.ProtoMsg

/-- the name prototk gives a field type -/
def tyName : Ty → String
  | .scalar .uint64 => "uint64"
  | .scalar .fixed32 => "fixed32"
  | .scalar .fixed64 => "fixed64"
  | .scalar .bytes => "bytes"
  | .scalar (.bytesN 32) => "bytes32"
  | .msg _ => "message"
  | _ => "other"

def variantTy : Variant → String
  | .tuple _ ty => tyName ty
  | _ => "other"

/-- the error codes the SST model answers with are the source's `CODE_*` strings -/
theorem c09_error_codes :
    Blue.SstOpen.Err.all.map Blue.SstOpen.Err.code = Blue.Generated.sstReadErrorCodes := by decide

/-- the schemas the model unpacks hostile bytes with carry the source's field numbers and types
    (`FinalBlock`, `BlockMetadata`, `SstEntry`) -/
theorem c09_schemas :
    Blue.SstOpen.finalFields.map (fun f => (f.num, tyName f.ty))
        = Blue.Generated.finalBlockFields.zip Blue.Generated.finalBlockTypes
    ∧ Blue.SstOpen.blockMetaFields.map (fun f => (f.num, tyName f.ty))
        = Blue.Generated.blockMetadataFields.zip Blue.Generated.blockMetadataTypes
    ∧ (match Blue.SstOpen.sstEntryMsg with
       | .enum vs _ => vs.map (fun v => (v.num, variantTy v))
       | _ => []) = Blue.Generated.sstEntryFields.zip Blue.Generated.sstEntryTypes
    ∧ Blue.Generated.sstTrailerBytes = 8 := by decide

/-- `log_to_builder` / `log_to_setsum` hand a reader error on (`?`) — the model describes the code
    after the repair of D-3 (`/repo commit 3de862f`); on the code as found, which
    unwraps, this obligation fails -/
theorem c09_replay_propagates :
    Blue.Damage.replayPropagatesErrors = decide (Blue.Generated.logReplayUnwraps = 0) := by decide

/-- the non-ASCII check of `ManifestIterator::next` poisons the iterator like every other error
    (`Item.notAscii` ends `iterate`) — the model describes the code after the repair
    `/repo commit ef4f524`; on the code as found (`return Some(Err(..))`, modelled by
    `iterateAsFound`) the extracted constant is 0 and this obligation fails -/
theorem c09_mani_non_ascii_poisons : Blue.Generated.maniNonAsciiPoisons = 1 := by decide

/-- the four checks the detection theorems lean on are in the source as the models state them:
    `load_block` and `load_filter_block` return `crc32c-failure` when the payload's checksum is not
    the recorded one (`readFrame`); `next_frame` returns an error when the file ends inside a frame's
    payload (`nextFrame`: `off' + size > length`); the reader's `true_up` refuses more than
    `HEADER_MAX_SIZE` bytes of padding and anything but zeros in it (`nextHeader`, `padZero`); the
    manifest's separator is recognised by equality, not by prefix (`parseLine`: `line = SEP`) -/
theorem c09_detection_checks_in_source :
    Blue.Generated.sstBlockCrcMismatchIsError = 1 ∧ Blue.Generated.sstFilterCrcMismatchIsError = 1
    ∧ Blue.Generated.logShortPayloadIsError = 1
    ∧ Blue.Generated.logTrueUpBound = "HEADER_MAX_SIZE" ∧ Blue.Generated.logTrueUpChecksZero = 1
    ∧ Blue.Generated.maniSeparatorExact = 1 := by decide

end Blue.ConstsTie
