import Blue.Model.RrrCf
import Blue.Model.BitVec
/-! Concrete evaluations of the cf_rrr model by the kernel (no hypotheses): the model is not
    vacuous, and agrees with the reference on these patterns at every argument `0 .. len + 2`
    (in range and out of range), including the empty vector, a short last word, a word of class 63
    (`L[63] = 0`), `select0` landing in the zero padding, and a second block. -/
namespace Blue.RrrCf

/-- the model agrees with the plain bit array on `bits` at every argument up to `len + 2` -/
def agrees (bits : List Bool) : Bool :=
  (List.range (bits.length + 3)).all fun x =>
    access (construct bits) x == Blue.BitVec.access bits x
    && rank (construct bits) x == Blue.BitVec.rank bits x
    && selectRes (construct bits) false x == Res.ok (Blue.BitVec.select bits x)
    && selectRes (construct bits) true x == Res.ok (Blue.BitVec.select0 bits x)

example : select (construct [true, false, true]) 2 = some 3 := by decide +kernel
example : select0 (construct [true, false, true]) 1 = some 2 := by decide +kernel
example : select0 (construct [true, false, true]) 2 = none := by decide +kernel
example : rank (construct [true, false, true]) 3 = some 2 := by decide +kernel
example : accessRank (construct [true, false, true]) 4 = none := by decide +kernel
example : access (construct [true, false, true]) 2 = some true := by decide +kernel
example : accessRank (construct []) 0 = some (false, 0) := by decide +kernel
example : selectRes (construct []) false 1 = Res.ok none := by decide +kernel
example : agrees [] = true := by decide +kernel
example : agrees [false] = true := by decide +kernel
example : agrees (List.replicate 64 true ++ [false, true, false]) = true := by decide +kernel
example : agrees (List.replicate 63 false) = true := by decide +kernel

/-! the repaired boundary: `rank(len)` at a length that is a multiple of the block stride, and
    queries that cross into / run off the second block -/
example : rank (construct (List.replicate 1449 true)) 1449 = some 1449 := by decide +kernel
example : select (construct (List.replicate 1449 true)) 1450 = none := by decide +kernel
example : select (construct (List.replicate 1449 true ++ [false, true])) 1450 = some 1451 := by decide +kernel
example : select0 (construct (List.replicate 1449 true ++ [false, true])) 1 = some 1450 := by decide +kernel
example : select0 (construct (List.replicate 1449 true ++ [false, true])) 2 = none := by decide +kernel

end Blue.RrrCf
