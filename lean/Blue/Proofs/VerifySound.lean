import Blue.Proofs.VerifyGc
/-! **C04** what `verify_one` guarantees when it accepts (`verifyFragment_sound`): every edit other
    than the first continues from the one before, balances, records the discard its files say, names
    only files whose entries sum to their names, and — for a garbage collection — wrote only entries
    of its inputs, discarded exactly the inputs without a partner in the outputs, and kept what the
    policy retains (as the code is: up to the last output). -/
namespace Blue.VerifyOne
open Blue.Books
open Blue.Mani (Edit)
open Blue.Verifier (Name getInfo)
open Blue.Compact (Entry)

variable {G : Type} [DecidableEq G] (g : Grp G)

/-- what an accepted `verify_gc` says -/
def GcFacts (env : Env G) (rms adds : List G) (D : G) : Prop :=
  ∃ ins outs matched, readAll env rms = .ok ins ∧ readAll env adds = .ok outs
    ∧ matched.Sublist (mergeTables ins) ∧ matched.map kr = (mergeTables outs).map kr
    ∧ g.add D (total g env.h matched) = total g env.h (mergeTables ins)
    ∧ (Strict (mergeTables ins) → ∀ r ∈ retained env.policy (mergeTables ins),
        r ∈ (mergeTables outs).map kr
          ∨ (env.tailChecked = false ∧ ∀ o ∈ mergeTables outs, krLt (kr o) r = true))

theorem retained_sublist (policy : Blue.Gc.Policy) (m : List Entry) : (retained policy m).Sublist (m.map kr) := by
  have := Blue.Gc.gcP_sublist policy 0 (some []) (m.map toEnt)
  unfold retained
  have e : Blue.Gc.ents (m.map toEnt) = m.map kr := by
    unfold Blue.Gc.ents; rw [List.map_map]; rfl
  rw [e] at this; exact this

theorem verifyGc_sound (env : Env G) (he : env.ops = opsOf g) (rms adds : List G) (D : G)
    (hok : verifyGc env rms adds D = .ok ()) : GcFacts g env rms adds D := by
  unfold verifyGc at hok
  cases hi : readAll env rms with
  | error f => rw [hi] at hok; cases hok
  | ok ins =>
    cases ho : readAll env adds with
    | error f => rw [hi, ho] at hok; cases hok
    | ok outs =>
      rw [hi, ho] at hok
      simp only at hok
      cases hw : gcWalk env.ops env.h env.tailChecked (mergeTables ins) (mergeTables outs)
          (retained env.policy (mergeTables ins)) env.ops.zero with
      | error f => rw [hw] at hok; cases hok
      | ok d =>
        rw [hw] at hok
        simp only at hok
        have hd : d = D := by
          by_cases h : d = D
          · exact h
          · rw [if_neg h] at hok; cases hok
        subst hd
        rw [he] at hw
        obtain ⟨matched, m1, m2, m3⟩ := gcWalk_sound g env.h env.tailChecked _ _ _ _ d hw
        refine ⟨ins, outs, matched, hi, ho, m1, m2, ?_, ?_⟩
        · rw [m3]; exact zero_add g _
        · intro hs
          exact gcWalk_retains g env.h env.tailChecked _ _ _ _ d hs (retained_sublist _ _) hw

/-- the discard `verify_gc` accepts for given files is one value -/
theorem verifyGc_discard_unique (env : Env G) (rms adds : List G) (D D' : G)
    (hok : verifyGc env rms adds D = .ok ()) (hne : D' ≠ D) :
    verifyGc env rms adds D' = .error .gcDiscard := by
  unfold verifyGc at hok ⊢
  cases hi : readAll env rms with
  | error f => rw [hi] at hok; cases hok
  | ok ins =>
    cases ho : readAll env adds with
    | error f => rw [hi, ho] at hok; cases hok
    | ok outs =>
      rw [hi, ho] at hok
      simp only at hok ⊢
      cases hw : gcWalk env.ops env.h env.tailChecked (mergeTables ins) (mergeTables outs)
          (retained env.policy (mergeTables ins)) env.ops.zero with
      | error f => rw [hw] at hok; cases hok
      | ok d =>
        rw [hw] at hok
        simp only at hok ⊢
        have hd : d = D := by
          by_cases h : d = D
          · exact h
          · rw [if_neg h] at hok; cases hok
        subst hd
        rw [if_neg (fun h => hne h.symm)]

/-- what an accepted edit other than the first says: it starts from `acc`, ends at `o` -/
def EditFacts (env : Env G) (acc : G) (e : Edit) (o : G) : Prop :=
  ∃ D adds rms, info env e 73 = .ok acc ∧ info env e 79 = .ok o ∧ info env e 68 = .ok D
    ∧ parseAll env e.add = some adds ∧ parseAll env e.rm = some rms
    ∧ acc = g.add o D
    ∧ D = g.sub (total g id rms) (total g id adds)
    ∧ (∀ s ∈ adds ++ rms, ∃ f, env.fs s = some f ∧ total g env.h f = s)
    ∧ (D ≠ g.zero ∧ rms ≠ [] → GcFacts g env rms adds D)

theorem verifyEdit_sound (env : Env G) (he : env.ops = opsOf g) (acc : G) (e : Edit) (acc' o : G)
    (hok : verifyEdit env false acc e = .ok (acc', o)) : EditFacts g env acc e o ∧ acc' = o := by
  obtain ⟨D, adds, rms, h1, h2, h3, h4, h5, h6, h7⟩ := (verifyEdit_ok env acc e acc' o).mp hok
  obtain ⟨_, f2, f3, f4⟩ := (finishEdit_ok env e acc D acc' adds rms).mp h7
  obtain ⟨a1, a2⟩ := (scan_ok env _ _).mp h5
  obtain ⟨r1, r2⟩ := (scan_ok env _ _).mp h6
  have hcomp : computed env.ops adds rms = g.sub (total g id rms) (total g id adds) := by
    rw [he, computed_eq]; rfl
  have hbal : acc = g.add o D := by rw [h4, he]; rfl
  refine ⟨⟨D, adds, rms, h1, h2, h3, a1, r1, hbal, by rw [f2, hcomp], ?_, ?_⟩, ?_⟩
  · intro s hs
    have hc : ContentsOk env s := by
      rcases List.mem_append.mp hs with h | h
      · exact a2 s h
      · exact r2 s h
    obtain ⟨f, hf1, hf2⟩ := hc
    exact ⟨f, hf1, by rw [← hf2, he, setsumOf_eq]⟩
  · intro ⟨hd, hr⟩
    exact verifyGc_sound g env he rms adds D (f3 ⟨by rw [he]; exact hd, hr⟩)
  · rw [f4, ← f2, he]
    show g.sub acc D = o
    rw [hbal]; exact add_sub_cancel g o D

/-- the edits after the first, one continuing from the other -/
def Threaded (env : Env G) : G → List Edit → G → Prop
  | a, [], a' => a' = a
  | a, e :: t, a' => ∃ o, EditFacts g env a e o ∧ Threaded env o t a'

theorem verifyEdits_sound (env : Env G) (he : env.ops = opsOf g) :
    ∀ (es : List Edit) (acc : G) (last : Option G) (r : G × Option G),
      verifyEdits env false acc last es = .ok r → Threaded g env acc es r.1
        ∧ (es ≠ [] → r.2 = some r.1) ∧ (es = [] → r.2 = last)
  | [], acc, last, r, hok => by
    simp only [verifyEdits, Except.ok.injEq] at hok
    subst hok
    exact ⟨rfl, fun h => absurd rfl h, fun _ => rfl⟩
  | e :: t, acc, last, r, hok => by
    simp only [verifyEdits] at hok
    cases hv : verifyEdit env false acc e with
    | error f => rw [hv] at hok; cases hok
    | ok r1 =>
      rw [hv] at hok
      simp only at hok
      obtain ⟨a1, o1⟩ := r1
      obtain ⟨hf, ha⟩ := verifyEdit_sound g env he acc e a1 o1 hv
      subst ha
      obtain ⟨ht, hl1, hl2⟩ := verifyEdits_sound env he t a1 (some a1) r hok
      refine ⟨⟨a1, hf, ht⟩, ?_, fun h => by cases h⟩
      intro _
      by_cases hte : t = []
      · subst hte
        simp only [verifyEdits, Except.ok.injEq] at hok
        subst hok; rfl
      · exact hl1 hte

/-- what an accepted fragment says -/
def FragmentFacts (env : Env G) (acc : G) (es : List Edit) (acc' : G) : Prop :=
  ∃ e0 rest, es = e0 :: rest ∧ info env e0 79 = .ok acc ∧ Threaded g env acc rest acc'

/-- **C04** soundness of `verify_one`: an accepted fragment starts at the verifier's accumulator and
    every edit after the first continues, balances and matches its files -/
theorem verifyFragment_sound (env : Env G) (he : env.ops = opsOf g) (acc : G) (es : List Edit) (acc' : G)
    (hok : verifyFragment env acc es = .ok acc') : FragmentFacts g env acc es acc' := by
  unfold verifyFragment at hok
  cases es with
  | nil =>
    simp only [verifyEdits] at hok
    cases hok
  | cons e0 rest =>
    simp only [verifyEdits] at hok
    cases hv : verifyEdit env true acc e0 with
    | error f => rw [hv] at hok; cases hok
    | ok r1 =>
      rw [hv] at hok
      simp only at hok
      obtain ⟨a1, o1⟩ := r1
      obtain ⟨⟨I, D, adds, rms, _, hO, _⟩, ha, _⟩ := (verifyEdit_first_ok env acc e0 a1 o1).mp hv
      subst ha
      cases hr : verifyEdits env false a1 (some o1) rest with
      | error f => rw [hr] at hok; cases hok
      | ok r =>
        rw [hr] at hok
        simp only at hok
        have hacc : r.1 = acc' := by
          by_cases h : r.2 = some r.1
          · rw [if_pos h] at hok; injection hok
          · rw [if_neg h] at hok; cases hok
        obtain ⟨ht, _, _⟩ := verifyEdits_sound g env he rest a1 (some o1) r hr
        exact ⟨e0, rest, rfl, hO, hacc ▸ ht⟩

theorem Threaded.facts {env : Env G} : ∀ {rest : List Edit} {a a' : G}, Threaded g env a rest a' →
    ∀ e ∈ rest, ∃ a1 o, EditFacts g env a1 e o
  | [], _, _, _, e, he => by cases he
  | e0 :: t, a, a', ⟨o, hf, ht⟩, e, he => by
    rcases List.mem_cons.mp he with rfl | he
    · exact ⟨a, o, hf⟩
    · exact Threaded.facts ht e he

/-! ### garbage collections write only what they read -/

theorem readAll_total (env : Env G) : ∀ (ss : List G) (files : List File), readAll env ss = .ok files →
    (∀ s ∈ ss, ∃ f, env.fs s = some f ∧ total g env.h f = s) → total g id ss = total g env.h files.flatten
  | [], files, hok, _ => by
    simp only [readAll, Except.ok.injEq] at hok
    subst hok; rfl
  | s :: t, files, hok, hc => by
    simp only [readAll] at hok
    cases hf : env.fs s with
    | none => rw [hf] at hok; cases hok
    | some f =>
      rw [hf] at hok
      simp only at hok
      cases hr : readAll env t with
      | error e => rw [hr] at hok; cases hok
      | ok fs =>
        rw [hr] at hok
        simp only [Except.ok.injEq] at hok
        subst hok
        obtain ⟨f', hf', hs⟩ := hc s List.mem_cons_self
        rw [hf] at hf'
        injection hf' with hf'
        subst hf'
        rw [total_cons, List.flatten_cons, total_append, id, hs,
          readAll_total env t fs hr (fun s' h' => hc s' (List.mem_cons_of_mem _ h'))]

/-- no two different multisets of entries among the ones compared have the same sum -/
def NoCollision (h : Entry → G) (A B : List Entry) : Prop := total g h A = total g h B → A.Perm B

/-- **a garbage collection the verifier accepts wrote only entries of its inputs, values included**:
    the merged outputs have the keys and timestamps of a sub-list `matched` of the merged inputs
    (`verify_gc` compares nothing else), their setsum is `matched`'s (the recorded discard, the
    names of the files and the recomputed contents pin it), hence — no collision — they are
    `matched` up to order -/
theorem gc_outputs_are_inputs (env : Env G) (acc : G) (e : Edit) (o : G)
    (hf : EditFacts g env acc e o) :
    ∀ D adds rms, info env e 68 = .ok D → parseAll env e.add = some adds → parseAll env e.rm = some rms →
      D ≠ g.zero → rms ≠ [] →
      ∃ ins outs matched, readAll env rms = .ok ins ∧ readAll env adds = .ok outs
        ∧ matched.Sublist (mergeTables ins) ∧ matched.map kr = (mergeTables outs).map kr
        ∧ total g env.h (mergeTables outs) = total g env.h matched
        ∧ (NoCollision g env.h (mergeTables outs) matched → ∀ x ∈ mergeTables outs, x ∈ mergeTables ins) := by
  intro D adds rms hD ha hr hne hrm
  obtain ⟨D', adds', rms', _, _, hD', ha', hr', _, hdisc, hcont, hgc⟩ := hf
  rw [hD] at hD'; injection hD' with hD'; subst hD'
  rw [ha] at ha'; injection ha' with ha'; subst ha'
  rw [hr] at hr'; injection hr' with hr'; subst hr'
  obtain ⟨ins, outs, matched, hi, ho, m1, m2, m3, _⟩ := hgc ⟨hne, hrm⟩
  have hsi : total g id rms = total g env.h (mergeTables ins) := by
    rw [readAll_total g env rms ins hi (fun s hs => hcont s (List.mem_append_right _ hs))]
    exact (total_perm g env.h (mergeTables_perm ins)).symm
  have hso : total g id adds = total g env.h (mergeTables outs) := by
    rw [readAll_total g env adds outs ho (fun s hs => hcont s (List.mem_append_left _ hs))]
    exact (total_perm g env.h (mergeTables_perm outs)).symm
  have hsum : total g env.h (mergeTables outs) = total g env.h matched := by
    -- D + Σ outs = Σ ins = D + Σ matched
    have h1 : g.add D (total g env.h (mergeTables outs)) = total g env.h (mergeTables ins) := by
      rw [hdisc, ← hso, ← hsi]; exact sub_add_cancel g _ _
    exact add_left_cancel g (h1.trans m3.symm)
  refine ⟨ins, outs, matched, hi, ho, m1, m2, hsum, ?_⟩
  intro hnc x hx
  exact m1.subset ((hnc hsum).subset hx)

end Blue.VerifyOne

#print axioms Blue.VerifyOne.verifyFragment_sound
#print axioms Blue.VerifyOne.gc_outputs_are_inputs
