import Blue.Proofs.StoreHistLater
import Blue.Proofs.StoreHistGcTree
/-! # Compactions in flight, garbage-collecting installs included

`Blue.StoreHistLater` with one more operation: `gcInstall i outs` — `perform_garbage_collection` of
in-flight compaction `i` (output level the LAST level), whose outputs may drop versions
(`GcCompactionOk`: outputs ⊆ inputs, the newest version of every key kept or a tombstone).  The
relation to the specification is `RelG` of `Blue.StoreHistGc` (a deleted key may read "no
version"), the theorem the concurrent form of `history_refines_gc`. -/
namespace Blue.StoreHistLaterGc
open Blue.Spec Blue.Kvs Blue.NextCompaction Blue.StoreHist Blue.StoreHistTree Blue.StoreHistGc Blue.StoreHistLater

inductive GOp where
  | plain (op : LOp)
  /-- `perform_garbage_collection` of in-flight compaction `i`, installed on the current tree -/
  | gcInstall (i : Nat) (outs : List File)

def gapply (s : LState) : GOp → LState
  | .plain op => lapply s op
  | .gcInstall i outs => lapply s (.install i outs)

def GOpOk (s : LState) : GOp → Prop
  | .plain op => LOpOk s op
  | .gcInstall i outs => ∀ c, s.og[i]? = some c →
      OutsOk s.base.tree c outs
      ∧ c.upper + 1 = s.base.tree.length
      ∧ (∀ x ∈ outs, ∀ e ∈ x.vers, ∃ i f, f ∈ level s.base.tree i ∧ f.id ∈ c.inputs ∧ e ∈ f.vers)
      ∧ NewestKept s.base.pay (inputs (tagTree s.base.tree c)).flatten (comps outs).flatten
      ∧ NewerAbove (comps outs)

def GValid : LState → List GOp → Prop
  | _, [] => True
  | s, op :: ops => GOpOk s op ∧ GValid (gapply s op) ops

def grun (s : LState) (ops : List GOp) : LState := ops.foldl gapply s

def gtoOp : GOp → Op
  | .plain op => ltoOp op
  | .gcInstall _ _ => .compact [] []

def grunSpec : LState → SpecMap → List GOp → SpecMap
  | _, m, [] => m
  | s, m, op :: ops => grunSpec (gapply s op) (specStep m (s.base.seq + 1) (gtoOp op)) ops

def gspec (k : Nat) (ops : List GOp) : SpecMap := grunSpec (linit k) (fun _ => none) ops

/-- a step that replaces the tree by `t'` and is a (conserving or collecting) compaction step of
    the history model -/
theorem gstep_tree {s : TState} {t' : Tree}
    (ok : GcOpOk s.toH (.compact ((level t' 0).map toK) (t'.tail.map (fun l => l.map toK))))
    (hinv' : Blue.NextCompaction.Inv t') (hlen : t'.length = s.tree.length)
    {m : SpecMap} (inv : TInv s) (r : RelG s.toH m) :
    TInv { s with tree := t' } ∧ RelG ({ s with tree := t' } : TState).toH m := by
  have e : ({ s with tree := t' } : TState).toH
      = apply s.toH (.compact ((level t' 0).map toK) (t'.tail.map (fun l => l.map toK))) := rfl
  refine ⟨⟨?_, hinv', ?_⟩, ?_⟩
  · rw [e]; exact gc_inv_step _ _ ok inv.hist
  · intro h0
    have h0' : t' = [] := h0
    have hl : t'.length = 0 := by rw [h0']; rfl
    rw [hlen] at hl
    exact inv.ne (List.eq_nil_of_length_eq_zero hl)
  · rw [e]; exact relG_step s.toH _ m ok inv.hist r

/-- the flush: `TInv` of the successor, and the store holds the same versions -/
theorem tflush (s : TState) (id size : Nat) (ok : TOpOk s (.flush id size)) (inv : TInv s) {m : SpecMap}
    (r : RelG s.toH m) : TInv (tapply s (.flush id size)) ∧ RelG (tapply s (.flush id size)).toH m := by
  cases hi : s.imm with
  | none => rw [tapply_flush_none s id size hi]; exact ⟨inv, r⟩
  | some i0 =>
  have hi' : s.toH.st.imm = some i0 := hi
  cases i0 with
  | nil =>
    rw [tapply_flush_nil s id size hi]
    have e : ({ s with imm := none } : TState).toH = apply s.toH .flush := by
      rw [apply_flush_nil s.toH hi']; rfl
    refine ⟨⟨?_, inv.tree, inv.ne⟩, ?_⟩
    · rw [e]; exact inv_flush _ inv.hist
    · rw [e]; exact relG_step s.toH .flush m trivial inv.hist r
  | cons v i =>
    rw [tapply_flush_cons s id size hi]
    obtain ⟨mem, imm, tree, seq, vis, pay⟩ := s
    cases tree with
    | nil => exact absurd rfl inv.ne
    | cons l0 rest =>
    dsimp only at hi hi' ok ⊢
    subst hi
    have hH := inv_flush _ inv.hist
    rw [apply_flush_cons _ hi'] at hH
    have hbts : ∀ g ∈ l0, g.bts < (flushFileT id size (v :: i)).bts := by
      intro g hg
      exact flush_bts inv.hist hi' (toK g) (List.mem_map.mpr ⟨g, hg, rfl⟩)
    have e0 : allComps (toKState mem (some (v :: i)) (l0 :: rest))
        = mem :: (v :: i) :: Blue.NextCompaction.treeComps (l0 :: rest) := by
      rw [allComps_imm_some _ rfl, treeComps_toKState]; rfl
    have e1 : allComps (toKState mem none (ingest (l0 :: rest) (flushFileT id size (v :: i))))
        = allComps (toKState mem (some (v :: i)) (l0 :: rest)) := by
      rw [e0, allComps_imm_none _ rfl, treeComps_toKState, treeComps_ingest l0 rest _ hbts]; rfl
    have e2 : allComps (flushSt (TState.toH ⟨mem, some (v :: i), l0 :: rest, seq, vis, pay⟩) (v :: i)).st
        = allComps (toKState mem (some (v :: i)) (l0 :: rest)) := allComps_flush inv.hist hi'
    have hl0 : ∀ g ∈ (toKState mem none (ingest (l0 :: rest) (flushFileT id size (v :: i)))).l0,
        g ∈ (flushSt (TState.toH ⟨mem, some (v :: i), l0 :: rest, seq, vis, pay⟩) (v :: i)).st.l0 := by
      intro g hg
      have hg' : g ∈ (l0 ++ [flushFileT id size (v :: i)]).map toK := hg
      show g ∈ flushFile (v :: i) :: l0.map toK
      rw [List.map_append, List.mem_append] at hg'
      rcases hg' with hg' | hg'
      · exact List.mem_cons_of_mem _ hg'
      · simp only [List.map_cons, List.map_nil, List.mem_singleton] at hg'
        rw [hg']; exact List.mem_cons_self
    have htree := ingest_preserves_inv inv.tree (flushFileT_wf id size v i)
      (fun l g hg => ok v i rfl l g hg)
    refine ⟨⟨⟨?_, ?_, hH.vis_le, ?_, ?_, ?_, ?_⟩, htree, ?_⟩, ?_⟩
    · exact i1_toKState _ _ htree
    · show NewerAbove (allComps (toKState mem none (ingest (l0 :: rest) (flushFileT id size (v :: i)))))
      rw [e1, ← e2]; exact hH.i2
    · intro w hw
      have hw' : w ∈ (allComps (toKState mem none (ingest (l0 :: rest) (flushFileT id size (v :: i))))).flatten := hw
      rw [e1, ← e2] at hw'
      exact hH.ts_le w hw'
    · intro i' hi''; cases hi''
    · intro g hg; exact hH.bts_le g (hl0 g hg)
    · intro g hg c hc a ha; exact hH.bts_lt g (hl0 g hg) c hc a ha
    · intro h0; cases h0
    · refine RelG.of_same (h := TState.toH ⟨mem, some (v :: i), l0 :: rest, seq, vis, pay⟩) ?_ rfl r
      intro e
      show e ∈ (allComps (toKState mem none (ingest (l0 :: rest) (flushFileT id size (v :: i))))).flatten ↔
        e ∈ (allComps (toKState mem (some (v :: i)) (l0 :: rest))).flatten
      rw [e1]

/-- one step of `LOp` under `RelG` -/
theorem lstepG (s : LState) (op : LOp) (m : SpecMap) (ok : LOpOk s op) (inv : LInv s) (r : RelG s.base.toH m) :
    LInv (lapply s op) ∧ RelG (lapply s op).base.toH (specStep m (s.base.seq + 1) (ltoOp op)) := by
  cases op with
  | write b =>
    have e := toH_write s.base b
    refine ⟨⟨⟨?_, ?_, ?_⟩, ?_, inv.apart⟩, ?_⟩
    · show Blue.StoreHist.Inv (tapply s.base (.write b)).toH
      rw [e.1]; exact inv_write _ b inv.base.hist
    · show Blue.NextCompaction.Inv (tapply s.base (.write b)).tree
      rw [e.2]; exact inv.base.tree
    · show (tapply s.base (.write b)).tree ≠ []
      rw [e.2]; exact inv.base.ne
    · show ∀ c ∈ s.og, Chosen (tapply s.base (.write b)).tree c
      rw [e.2]; exact inv.chosen
    · show RelG (tapply s.base (.write b)).toH _
      rw [e.1]; exact relG_step s.base.toH (.write b) m trivial inv.base.hist r
  | rollover =>
    have e := toH_rollover s.base
    refine ⟨⟨⟨?_, ?_, ?_⟩, ?_, inv.apart⟩, ?_⟩
    · show Blue.StoreHist.Inv (tapply s.base .rollover).toH
      rw [e.1]; exact inv_rollover _ inv.base.hist
    · show Blue.NextCompaction.Inv (tapply s.base .rollover).tree
      rw [e.2]; exact inv.base.tree
    · show (tapply s.base .rollover).tree ≠ []
      rw [e.2]; exact inv.base.ne
    · show ∀ c ∈ s.og, Chosen (tapply s.base .rollover).tree c
      rw [e.2]; exact inv.chosen
    · show RelG (tapply s.base .rollover).toH _
      rw [e.1]; exact relG_step s.base.toH .rollover m trivial inv.base.hist r
  | flush id size =>
    obtain ⟨i', r'⟩ := tflush s.base id size ok inv.base r
    refine ⟨⟨i', ?_, inv.apart⟩, r'⟩
    show ∀ c ∈ s.og, Chosen (tapply s.base (.flush id size)).tree c
    cases hi : s.base.imm with
    | none => rw [tapply_flush_none s.base id size hi]; exact inv.chosen
    | some i0 =>
      cases i0 with
      | nil => rw [tapply_flush_nil s.base id size hi]; exact inv.chosen
      | cons v i =>
        rw [tapply_flush_cons s.base id size hi]
        intro c hc
        have hi' : s.base.toH.st.imm = some (v :: i) := hi
        refine chosen_stable_under_ingest (inv.chosen c hc) (fun l g hg => ok v i hi l g hg) ?_
        intro g hg
        exact flush_bts inv.base.hist hi' (toK g) (List.mem_map.mpr ⟨g, hg, rfl⟩)
  | choose n o =>
    obtain ⟨a, b⟩ := linv_choose inv n o
    refine ⟨a, ?_⟩
    rw [b]; exact r
  | abort i =>
    obtain ⟨a, b⟩ := linv_abort inv i
    refine ⟨a, ?_⟩
    rw [b]; exact r
  | install i outs =>
    cases hc : s.og[i]? with
    | none => rw [lapply_install_none s outs hc]; exact ⟨inv, r⟩
    | some c =>
      rw [lapply_install_some s outs hc]
      obtain ⟨h1, h2, h3, h4⟩ := ok c hc
      have hch : Chosen s.base.tree c := inv.chosen c (List.mem_of_getElem? hc)
      obtain ⟨i', r'⟩ := gstep_tree (s := s.base)
        (Or.inl (compactionOk_of_chosen s.base.mem s.base.imm inv.base.tree hch h1 h2 h3 h4))
        (apply_preserves_inv inv.base.tree hch h1) (length_apply _ _ _) inv.base r
      obtain ⟨k1, k2⟩ := linv_install inv hc h1
      exact ⟨⟨i', k1, k2⟩, r'⟩
  | moveInstall i =>
    cases hc : s.og[i]? with
    | none => rw [lapply_move_none s hc]; exact ⟨inv, r⟩
    | some c =>
      cases hmf : moveFile s.base.tree c with
      | none => rw [lapply_move_nofile s hc hmf]; exact ⟨inv, r⟩
      | some f =>
        rw [lapply_move_some s hc hmf]
        have hfm : f ∈ s.base.tree.flatten := List.mem_of_find?_eq_some hmf
        have hone : c.inputs = [f.id] := by
          have := List.find?_some hmf
          exact of_decide_eq_true this
        obtain ⟨l, hfl⟩ := mem_flatten_level.mp hfm
        have hch : Chosen s.base.tree c := inv.chosen c (List.mem_of_getElem? hc)
        obtain ⟨h1, h2, h3⟩ := move_outs_ok inv.base.tree hch hfl hone
        have hsup : ∀ i g, g ∈ level s.base.tree i → g.id ∈ c.inputs → ∀ e ∈ g.vers, ∃ x ∈ [f], e ∈ x.vers := by
          intro i g hg hid e he
          rw [hone, List.mem_singleton] at hid
          obtain ⟨_, rfl⟩ := inv.base.tree.ids_unique hg hfl hid
          exact ⟨g, List.mem_singleton.mpr rfl, he⟩
        obtain ⟨i', r'⟩ := gstep_tree (s := s.base) (t' := applyTrivialMove s.base.tree c f)
          (Or.inl (compactionOk_of_chosen s.base.mem s.base.imm inv.base.tree hch h1 h2 hsup h3))
          (apply_preserves_inv inv.base.tree hch h1) (length_apply _ _ _) inv.base r
        obtain ⟨k1, k2⟩ := linv_install inv hc h1
        exact ⟨⟨i', k1, k2⟩, r'⟩

theorem gstep (s : LState) (op : GOp) (m : SpecMap) (ok : GOpOk s op) (inv : LInv s) (r : RelG s.base.toH m) :
    LInv (gapply s op) ∧ RelG (gapply s op).base.toH (specStep m (s.base.seq + 1) (gtoOp op)) := by
  cases op with
  | plain op => exact lstepG s op m ok inv r
  | gcInstall i outs =>
    show LInv (lapply s (.install i outs)) ∧ RelG (lapply s (.install i outs)).base.toH m
    cases hc : s.og[i]? with
    | none => rw [lapply_install_none s outs hc]; exact ⟨inv, r⟩
    | some c =>
      rw [lapply_install_some s outs hc]
      obtain ⟨h1, htop, h2, h3, h4⟩ := ok c hc
      have hch : Chosen s.base.tree c := inv.chosen c (List.mem_of_getElem? hc)
      obtain ⟨i', r'⟩ := gstep_tree (s := s.base)
        (Or.inr (Blue.StoreHistGcTree.gcCompactionOk_of_chosen s.base.pay s.base.mem s.base.imm inv.base.tree hch h1 htop h2 h3 h4))
        (apply_preserves_inv inv.base.tree hch h1) (length_apply _ _ _) inv.base r
      obtain ⟨k1, k2⟩ := linv_install inv hc h1
      exact ⟨⟨i', k1, k2⟩, r'⟩

theorem grun_cons (s : LState) (op : GOp) (ops : List GOp) : grun s (op :: ops) = grun (gapply s op) ops := rfl

theorem grun_inv_rel : ∀ (ops : List GOp) (s : LState) (m : SpecMap), GValid s ops → LInv s → RelG s.base.toH m →
    LInv (grun s ops) ∧ RelG (grun s ops).base.toH (grunSpec s m ops)
  | [], _, _, _, inv, r => ⟨inv, r⟩
  | op :: ops, s, m, hv, inv, r => by
    rw [grun_cons, grunSpec]
    obtain ⟨i', r'⟩ := gstep s op m hv.1 inv r
    exact grun_inv_rel ops (gapply s op) _ hv.2 i' r'

theorem relG_linit (k : Nat) : RelG (linit k).base.toH (fun _ => none) := by
  refine ⟨?_, ?_, ?_⟩
  · intro key _ e he
    have he' : e ∈ (allComps (tinit k).toH.st).flatten := he
    rw [allComps_tinit] at he'; simp at he'
  · intro key ts v hk; cases hk
  · intro key ts hk; cases hk

theorem grunSpec_payload : ∀ (ops : List GOp) (s : LState) (m : SpecMap) (k : Nat),
    (grunSpec s m ops k).map (·.2) = (ops.map gtoOp).foldl valStep (fun k => (m k).map (·.2)) k
  | [], _, _, _ => rfl
  | op :: ops, s, m, k => by
    rw [grunSpec, List.map_cons, List.foldl_cons, ← valStep_of_specStep m (s.base.seq + 1) (gtoOp op)]
    exact grunSpec_payload ops (gapply s op) _ k

/-- **store_history_refines_concurrent_gc**: compactions in flight installed later, garbage-
    collecting installs included.  After ANY such history from the empty store the read at the
    published sequence number answers the payload of the last accepted write naming the key —
    except that a key whose last write is a delete may read "no version" once its tombstone has
    been collected — and `LInv` holds in the state reached. -/
theorem store_history_refines_concurrent_gc (k : Nat) (ops : List GOp) (hv : GValid (linit k) ops) (key : Nat) :
    (read (grun (linit k) ops).base.toH key = lastWrite (ops.map gtoOp) key
      ∨ (lastWrite (ops.map gtoOp) key = some none ∧ read (grun (linit k) ops).base.toH key = none))
    ∧ LInv (grun (linit k) ops) := by
  obtain ⟨inv, r⟩ := grun_inv_rel ops (linit k) _ hv (linv_init k) (relG_linit k)
  refine ⟨?_, inv⟩
  have := read_of_relG inv.base.hist r key
  have e : (grunSpec (linit k) (fun _ => none) ops key).map (·.2) = lastWrite (ops.map gtoOp) key :=
    grunSpec_payload ops (linit k) (fun _ => none) key
  rw [e] at this
  exact this

/-! ## histories of `LOp` inside histories of `GOp` -/

theorem grun_plain : ∀ (ops : List LOp) (s : LState), grun s (ops.map .plain) = lrun s ops
  | [], _ => rfl
  | op :: ops, s => grun_plain ops (lapply s op)

theorem grun_append (s : LState) (a b : List GOp) : grun s (a ++ b) = grun (grun s a) b := by
  unfold grun; rw [List.foldl_append]

theorem LValid.prefix : ∀ (a b : List LOp) (s : LState), LValid s (a ++ b) → LValid s a
  | [], _, _, _ => trivial
  | op :: a, b, s, h => ⟨h.1, LValid.prefix a b (lapply s op) h.2⟩

theorem gvalid_plain_append : ∀ (ops : List LOp) (rest : List GOp) (s : LState), LValid s ops →
    GValid (lrun s ops) rest → GValid s (ops.map .plain ++ rest)
  | [], _, _, _, h => h
  | op :: ops, rest, s, hv, h => ⟨hv.1, gvalid_plain_append ops rest (lapply s op) hv.2 h⟩

end Blue.StoreHistLaterGc

#print axioms Blue.StoreHistLaterGc.gstep
#print axioms Blue.StoreHistLaterGc.store_history_refines_concurrent_gc
