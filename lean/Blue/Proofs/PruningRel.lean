import Blue.Proofs.PruningFwd
namespace Blue.Cursor
open Blue.Cursor.Filtered

variable {E K : Type} [DecidableEq K] (cfg : PruneCfg E K) (xs : List E)

/-- simulation relation: pruning cursor over child list `xs` ↔ position in the pruned list -/
structure PRel (p : Pruning E K) (pos : Nat) : Prop where
  xs_eq : p.c.xs = xs
  hpos : Pos xs.length (shownP cfg xs) p.c.pos pos
  skip0 : p.c.pos = 0 → p.skip = none
  skipAt : ∀ i, p.c.pos = i+1 → i < xs.length → ∃ e, xs[i]? = some e ∧ p.skip = some (cfg.key e)

/-- the list the pruning cursor is meant to show -/
def pruned : List E := P xs (shownP cfg xs)

theorem prel_kv {p : Pruning E K} {pos : Nat} (h : PRel cfg xs p pos) :
    p.kv = (Ref.mk (pruned cfg xs) pos).kv := by
  have := pos_kv xs (shownP cfg xs) h.hpos
  unfold Pruning.kv
  have hc : p.c = ⟨xs, p.c.pos⟩ := by
    cases hp : p.c with
    | mk a b => have := h.xs_eq; rw [hp] at this; simp at this; simp [this]
  rw [hc]; exact this

theorem prel_first {p : Pruning E K} {pos : Nat} (h : PRel cfg xs p pos) :
    PRel cfg xs p.seekToFirst 0 := by
  refine ⟨h.xs_eq, ?_, fun _ => rfl, ?_⟩
  · exact Pos.start
  · intro i hi; simp [Pruning.seekToFirst, Ref.first] at hi

theorem prel_last {p : Pruning E K} {pos : Nat} (h : PRel cfg xs p pos) :
    PRel cfg xs p.seekToLast ((pruned cfg xs).length + 1) := by
  have hlen : (pruned cfg xs).length = (S xs.length (shownP cfg xs)).length := by
    unfold pruned P
    apply filterMap_length
    intro a ha
    have := (mem_S xs.length (shownP cfg xs)).mp ha
    simp [this.1]
  refine ⟨h.xs_eq, ?_, ?_, ?_⟩
  · rw [hlen]
    have : (p.seekToLast).c.pos = xs.length + 1 := by simp [Pruning.seekToLast, Ref.last, h.xs_eq]
    rw [this]; exact Pos.fin
  · intro h0; simp [Pruning.seekToLast, Ref.last] at h0
  · intro i hi hlt
    simp [Pruning.seekToLast, Ref.last, h.xs_eq] at hi
    omega

theorem shownP_tsOk {i : Nat} (hs : shownP cfg xs i = true) :
    ∃ e, xs[i]? = some e ∧ cfg.tsOk e = true := by
  unfold shownP isCand at hs
  cases he : xs[i]? with
  | none => rw [he] at hs; simp at hs
  | some e => rw [he] at hs; simp at hs; exact ⟨e, rfl, hs.1.1⟩

theorem pruned_length : (pruned cfg xs).length = (S xs.length (shownP cfg xs)).length := by
  unfold pruned P
  apply filterMap_length
  intro a ha
  have := (mem_S xs.length (shownP cfg xs)).mp ha
  simp [this.1]

/-- result of a forward scan started at index `i`, packaged as a relation -/
theorem prel_of_scan (g : Grouped cfg xs) (i : Nat) (s : Option K) (hi : i ≤ xs.length)
    (hag : Agree cfg xs i s) (fuel : Nat) (hfuel : xs.length + 1 ≤ i + fuel) (pos : Nat)
    (hpos : Pos xs.length (shownP cfg xs)
      (match nextShown xs.length (shownP cfg xs) i with | some j => j+1 | none => xs.length+1) pos) :
    PRel cfg xs ⟨(Pruning.scanFwd cfg fuel ⟨xs, i+1⟩ s).1, (Pruning.scanFwd cfg fuel ⟨xs, i+1⟩ s).2⟩ pos := by
  obtain ⟨h1, h2⟩ := scanFwd_spec cfg xs g fuel i s hi hfuel hag
  refine ⟨by rw [h1], by rw [h1]; exact hpos, ?_, ?_⟩
  · intro h0
    rw [h1] at h0
    simp only at h0
    cases hn : nextShown xs.length (shownP cfg xs) i with
    | none => rw [hn] at h0; simp at h0
    | some j => rw [hn] at h0; simp at h0
  · intro i' hi' hlt
    rw [h1] at hi'
    simp only at hi'
    cases hn : nextShown xs.length (shownP cfg xs) i with
    | none => rw [hn] at hi'; simp at hi'; omega
    | some j =>
      rw [hn] at hi'
      simp at hi'
      subst hi'
      exact h2 j hn

theorem prel_next (g : Grouped cfg xs) (n : Nat) (hn : xs.length + 2 ≤ n) {p : Pruning E K} {pos : Nat} (h : PRel cfg xs p pos) :
    PRel cfg xs (p.next cfg n) (Ref.next ⟨pruned cfg xs, pos⟩).pos := by
  have hx := h.xs_eq
  have hc : p.c = ⟨xs, p.c.pos⟩ := by
    cases hp : p.c with
    | mk a b => rw [hp] at hx; simp at hx; simp [hx]
  have hnext := pos_next xs.length (shownP cfg xs) h.hpos
  have hrefpos : (Ref.next ⟨pruned cfg xs, pos⟩).pos
      = if pos ≤ (S xs.length (shownP cfg xs)).length then pos + 1 else pos := by
    unfold Ref.next; simp only [pruned_length]; split <;> rfl
  rw [hrefpos]
  unfold Pruning.next
  -- case on the child position
  rcases Nat.eq_zero_or_pos p.c.pos with h0 | hpos'
  · -- before first
    have hs := h.skip0 h0
    have hcn : p.c.next = ⟨xs, 0 + 1⟩ := by rw [hc, h0]; unfold Ref.next; simp
    rw [hcn, hs]
    rw [h0] at hnext
    exact prel_of_scan cfg xs g 0 none (Nat.zero_le _) (agree_of_eq cfg xs rfl) _ (by omega) _ hnext
  · obtain ⟨i, hi⟩ : ∃ i, p.c.pos = i + 1 := ⟨p.c.pos - 1, by omega⟩
    by_cases hlt : i < xs.length
    · obtain ⟨e, he, hs⟩ := h.skipAt i hi hlt
      have hcn : p.c.next = ⟨xs, (i+1) + 1⟩ := by
        rw [hc, hi]; exact ref_next_at xs i hlt
      rw [hcn, hs]
      rw [hi] at hnext
      -- the current entry is shown, so its key is the last decided one
      have hshown : shownP cfg xs i = true := by
        have hp := h.hpos; rw [hi] at hp
        cases hp with
        | «at» _ _ hs' => exact hs'
        | fin => omega
      obtain ⟨e', he', hts⟩ := shownP_tsOk cfg xs hshown
      rw [he] at he'; cases he'
      exact prel_of_scan cfg xs g (i+1) _ (by omega)
        (agree_of_eq cfg xs (lastOk_succ_ok cfg xs he hts).symm) _ (by omega) _ hnext
    · -- after last: nothing moves
      have hp := h.hpos; rw [hi] at hp
      have hin : i = xs.length := by
        cases hp with
        | «at» _ hi' _ => omega
        | fin => rfl
      have hcn : p.c.next = ⟨xs, xs.length + 1⟩ := by
        rw [hc, hi, hin]; unfold Ref.next; simp
      rw [hcn]
      rw [hi, hin] at hnext
      have hnn : nextShown xs.length (shownP cfg xs) (xs.length + 1) = nextShown xs.length (shownP cfg xs) xs.length := by
        rw [nextShown_ge_n _ _ (by omega), nextShown_ge_n _ _ (Nat.le_refl _)]
      rw [hnn] at hnext
      exact prel_of_scan cfg xs g xs.length _ (Nat.le_refl _)
        (by intro j e hj hej; have := (List.getElem?_eq_some_iff.mp hej).1; omega) _ (by omega) _ hnext

/-- what `seek(key)` needs of its predicate "entry key ≥ target": it looks only at the key and,
    along the child list, switches once from false to true -/
structure SeekPred (pred : E → Bool) : Prop where
  byKey : ∀ a b, cfg.key a = cfg.key b → pred a = pred b
  mono : ∀ (i j : Nat) (ei ej : E), i ≤ j → xs[i]? = some ei → xs[j]? = some ej → pred ei = true → pred ej = true

theorem seekPred_split {pred : E → Bool} (sp : SeekPred cfg xs pred) :
    (∀ (i : Nat) (e : E), i < xs.findIdx pred → xs[i]? = some e → pred e = false)
    ∧ (∀ (i : Nat) (e : E), xs.findIdx pred ≤ i → xs[i]? = some e → pred e = true) := by
  constructor
  · intro i e hi he
    have := List.not_of_lt_findIdx hi
    have hlt := (List.getElem?_eq_some_iff.mp he)
    obtain ⟨hl, rfl⟩ := hlt
    simpa using this
  · intro i e hi he
    have hilt := (List.getElem?_eq_some_iff.mp he).1
    have hf : xs.findIdx pred < xs.length := by omega
    have htrue : pred xs[xs.findIdx pred] = true := List.findIdx_getElem (w := hf)
    exact sp.mono (xs.findIdx pred) i _ e hi (by simp [hf]) he htrue

theorem prel_seek (g : Grouped cfg xs) (n : Nat) (hn : xs.length + 2 ≤ n) {p : Pruning E K} {pos : Nat} (h : PRel cfg xs p pos)
    (pred : E → Bool) (sp : SeekPred cfg xs pred) :
    PRel cfg xs (p.seek cfg n pred) (Ref.seek pred ⟨pruned cfg xs, pos⟩).pos := by
  have hx := h.xs_eq
  obtain ⟨hlo, hhi⟩ := seekPred_split cfg xs sp
  have hrefpos : (Ref.seek pred ⟨pruned cfg xs, pos⟩).pos
      = rank xs.length (shownP cfg xs) (xs.findIdx pred) + 1 := by
    unfold Ref.seek pruned
    simp only
    rw [findIdx_P xs (shownP cfg xs) pred (xs.findIdx pred) hlo hhi]
  rw [hrefpos]
  unfold Pruning.seek
  have hcs : p.c.seek pred = ⟨xs, xs.findIdx pred + 1⟩ := by
    unfold Ref.seek; rw [hx]
  rw [hcs]
  have hfle : xs.findIdx pred ≤ xs.length := List.findIdx_le_length
  have hag : Agree cfg xs (xs.findIdx pred) none := by
    intro j e hj he
    constructor
    · intro h0; cases h0
    · intro hl
      exfalso
      obtain ⟨j', e', hj', he', _, hk⟩ := lastOk_some cfg xs hl
      have h1 := hlo j' e' hj' he'
      have h2 := hhi j e hj he
      rw [sp.byKey e' e hk] at h1
      rw [h1] at h2; cases h2
  exact prel_of_scan cfg xs g _ none hfle hag _ (by omega) _
    (pos_at_next xs.length (shownP cfg xs) (xs.findIdx pred))

end Blue.Cursor
