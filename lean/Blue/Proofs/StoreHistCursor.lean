import Blue.Proofs.StoreHistScan
import Blue.Proofs.ScanLive
import Blue.Proofs.FamilyExists
import Blue.Proofs.ScanSpecDups
/-! **C03** from a store HISTORY to what the scan CURSOR shows (model `Blue.StoreHist`).

`history_scan_refines` (StoreHistScan) characterises the specification LIST of a scan after any
history; `store_scan_spec_dups` (ScanLive) says that the cursor stack the store builds behaves as the
reference cursor over that list — under hypotheses on the children (`Family` / `FamilyW`, children
behave as tables).  Here those hypotheses are DERIVED from the history invariant
(`history_children_are_tables`) and the two are composed (`history_scan_cursor`): after any valid
history the stack over the reached state's components shows, call by call under every finite
program, the reference cursor over `specScan ops sb eb` — a list computed from the operation list,
the bounds and nothing else.

What stays a hypothesis: each component's CURSOR behaves as the reference cursor over the component's
sorted version list (`hmems`, `hfiles` below).  For the real store these are the theorems of C10
(`sst_cursor_refines` and the table-cursor theorems: a file's cursor is its sorted entry list), C11
(`bounds_over` + `window_eq_range`: the memtable children are `BoundsCursor`s over the skiplist
cursor and behave as the window = the in-range part of the memtable's table, which is the table
`memTablesR` assigns them in `history_scan_cursor_in_range`) and C17 (the skiplist cursor), plus the
correspondence check; they are not re-proved here.

Two shapes of children: whole components (`history_scan_cursor`) and the children restricted to the
bounds as the code builds them (`history_scan_cursor_in_range`; the level pre-filter
`compare_bounds_le` is modelled by `cmpBoundsLe` and `fileInBounds_of_inRange` proves that it drops
only files without an in-range key). -/
namespace Blue.StoreHist
open Blue.Spec Blue.Kvs Blue.Cursor

/-! ## sorted insertion without repetition (structural, so that closed terms evaluate) -/
section ins
variable {α : Type} [DecidableEq α] (lt : α → α → Bool)

def insS (e : α) : List α → List α
  | [] => [e]
  | a :: t => if lt e a then e :: a :: t else if e = a then a :: t else a :: insS e t

/-- the strictly sorted list of the SET of members of `l` -/
def sortS (l : List α) : List α := l.foldr (insS lt) []

theorem mem_insS (e x : α) : ∀ (l : List α), x ∈ insS lt e l ↔ x = e ∨ x ∈ l
  | [] => by simp [insS]
  | a :: t => by
    unfold insS
    by_cases h1 : lt e a = true
    · rw [if_pos h1]; simp
    · rw [if_neg h1]
      by_cases h2 : e = a
      · rw [if_pos h2]; subst h2; simp
      · rw [if_neg h2, List.mem_cons, mem_insS e x t, List.mem_cons]
        constructor
        · rintro (h | h | h)
          · exact Or.inr (Or.inl h)
          · exact Or.inl h
          · exact Or.inr (Or.inr h)
        · rintro (h | h | h)
          · exact Or.inr (Or.inl h)
          · exact Or.inl h
          · exact Or.inr (Or.inr h)

theorem mem_sortS (x : α) : ∀ (l : List α), x ∈ sortS lt l ↔ x ∈ l
  | [] => by simp [sortS]
  | a :: t => by
    show x ∈ insS lt a (sortS lt t) ↔ _
    rw [mem_insS, mem_sortS x t, List.mem_cons]

variable {lt} (st : StrictTotal lt)
include st

theorem insS_sorted (e : α) : ∀ (l : List α), l.Pairwise (fun a b => lt a b = true) →
    (insS lt e l).Pairwise (fun a b => lt a b = true)
  | [], _ => by simp [insS]
  | a :: t, h => by
    obtain ⟨ha, ht⟩ := List.pairwise_cons.mp h
    unfold insS
    by_cases h1 : lt e a = true
    · rw [if_pos h1]
      refine List.pairwise_cons.mpr ⟨?_, h⟩
      intro x hx
      rcases List.mem_cons.mp hx with rfl | hx
      · exact h1
      · exact st.trans _ _ _ h1 (ha x hx)
    · rw [if_neg h1]
      by_cases h2 : e = a
      · rw [if_pos h2]; exact h
      · rw [if_neg h2]
        refine List.pairwise_cons.mpr ⟨?_, insS_sorted e t ht⟩
        intro x hx
        rcases (mem_insS lt e x t).mp hx with rfl | hx
        · rcases st.total _ _ h2 with h | h
          · exact absurd h h1
          · exact h
        · exact ha x hx

theorem sortS_sorted : ∀ (l : List α), (sortS lt l).Pairwise (fun a b => lt a b = true)
  | [] => List.Pairwise.nil
  | a :: t => insS_sorted st a _ (sortS_sorted t)

end ins

def natLt (a b : Nat) : Bool := decide (a < b)

theorem natLt_st : StrictTotal natLt where
  irrefl := by intro a; simp [natLt]
  trans := by intro a b c; simp only [natLt, decide_eq_true_eq]; omega
  total := by intro a b h; simp only [natLt, decide_eq_true_eq]; omega

theorem vst : StrictTotal (vlt natLt) := vlt_strictTotal natLt_st

/-- **the table of a component**: its set of versions in `KeyRef` order (key ascending, timestamp
    descending), each version once -/
def tableOf (c : List (Ver Nat)) : List (Ver Nat) := sortS (vlt natLt) c

theorem tableOf_sorted (c : List (Ver Nat)) : Sorted natLt (tableOf c) := sortS_sorted vst c

theorem mem_tableOf (c : List (Ver Nat)) (e : Ver Nat) : e ∈ tableOf c ↔ e ∈ c := mem_sortS _ e c

theorem tableOf_nodup (c : List (Ver Nat)) : (tableOf c).Nodup := nodup_of_strict vst (tableOf_sorted c)

theorem mem_flatten_tables (cs : List (List (Ver Nat))) (e : Ver Nat) :
    e ∈ (cs.map tableOf).flatten ↔ e ∈ cs.flatten := by
  simp only [List.mem_flatten, List.mem_map]
  constructor
  · rintro ⟨_, ⟨c, hc, rfl⟩, he⟩; exact ⟨c, hc, (mem_tableOf c e).mp he⟩
  · rintro ⟨c, hc, he⟩; exact ⟨_, ⟨c, hc, rfl⟩, (mem_tableOf c e).mpr he⟩

/-- under "newer above" no version is in two components: the tables are pairwise disjoint -/
theorem tables_nodup : ∀ (cs : List (List (Ver Nat))), NewerAbove cs → ((cs.map tableOf).flatten).Nodup
  | [], _ => by simp
  | c :: cs, h => by
    obtain ⟨h1, h2⟩ := h
    rw [List.map_cons, List.flatten_cons, List.nodup_append]
    refine ⟨tableOf_nodup c, tables_nodup cs h2, ?_⟩
    intro a ha b hb hab
    subst hab
    have ha' := (mem_tableOf c a).mp ha
    obtain ⟨d, hd, had⟩ := List.mem_flatten.mp ((mem_flatten_tables cs a).mp hb)
    exact absurd (h1 a ha' d hd a had rfl) (Nat.lt_irrefl _)

/-! ## the children `KeyValueStore::range_scan` builds, as tables -/

/-- memtable, then the immutable memtable if there is one -/
def memTables (s : KState) : List (List (Ver Nat)) := (memComps s).map tableOf

/-- a level ≥ 1 as the list of its files' tables (`ConcatenatingCursor` over its files) -/
def levelFiles (l : List KFile) : List (List (Ver Nat)) := l.map (fun f => tableOf f.vers)

/-- the tree's children: every level-0 file a one-file "level" (in the order the version holds
    them), every NON-EMPTY level ≥ 1 the list of its files (`Version::range_scan` pushes no cursor
    for a level without files) -/
def treeTables (s : KState) : List (List (List (Ver Nat))) :=
  s.l0.map (fun f => [tableOf f.vers]) ++ (s.levels.filter (fun l => !l.isEmpty)).map levelFiles

/-- the same, level 0 in search order (a permutation; used to read I2 off `allComps`) -/
def treeTablesO (s : KState) : List (List (List (Ver Nat))) :=
  (l0Order s.l0).map (fun f => [tableOf f.vers]) ++ (s.levels.filter (fun l => !l.isEmpty)).map levelFiles

/-- each child's table: the concatenation of its files' tables -/
def treeTabs (s : KState) : List (List (Ver Nat)) := (treeTables s).map List.flatten
def treeTabsO (s : KState) : List (List (Ver Nat)) := (treeTablesO s).map List.flatten

/-- the tree's merged list with owners -/
def treeM (s : KState) : List (Ver Nat × Nat) := mergedOf (vlt natLt) (treeTabsO s)

/-- the tables of the store's merging cursor: memtables, then the tree's merged table -/
def storeTabs (s : KState) : List (List (Ver Nat)) := memTables s ++ [(treeM s).map (·.1)]

def storeM (s : KState) : List (Ver Nat × Nat) := mergedOf (vlt natLt) (storeTabs s)

theorem l0Order_perm (l0 : List KFile) : (l0Order l0).Perm l0 :=
  (List.reverse_perm _).trans (List.mergeSort_perm _ _)

theorem treeTables_perm (s : KState) : (treeTables s).Perm (treeTablesO s) :=
  List.Perm.append_right _ ((l0Order_perm s.l0).symm.map _)

theorem treeTabs_perm (s : KState) : (treeTabs s).Perm (treeTabsO s) := (treeTables_perm s).map _

/-- flattening the ordered tree tables gives the tables of `treeComps`, flattened -/
theorem levels_flatten : ∀ (L : List (List KFile)),
    (((L.filter (fun l => !l.isEmpty)).map levelFiles).map List.flatten).flatten
      = (((L.map (·.map toT)).flatMap (fun l => l.map (·.vers))).map tableOf).flatten
  | [] => rfl
  | l :: L => by
    have ih := levels_flatten L
    have hl : ((l.map toT).map (·.vers)).map tableOf = levelFiles l := by
      unfold levelFiles
      rw [List.map_map, List.map_map]
      rfl
    rw [List.map_cons, List.flatMap_cons, List.map_append, List.flatten_append, hl, ← ih]
    cases l with
    | nil => rfl
    | cons f l =>
      rw [List.filter_cons_of_pos (by rfl), List.map_cons, List.map_cons, List.flatten_cons]

theorem l0_flatten (l : List KFile) :
    ((l.map (fun f => [tableOf f.vers])).map List.flatten) = (l.map (·.vers)).map tableOf := by
  rw [List.map_map, List.map_map]
  apply List.map_congr_left
  intro f _
  show [tableOf f.vers].flatten = _
  simp

theorem treeTabsO_flatten (s : KState) :
    (treeTabsO s).flatten = ((treeComps s).map tableOf).flatten := by
  unfold treeTabsO treeTablesO treeComps l0Comps tLevels
  rw [List.map_append, List.flatten_append, l0_flatten, levels_flatten, List.map_append, List.flatten_append]

theorem newerAbove_append_right {cs ds : List (List (Ver Nat))} (h : NewerAbove (cs ++ ds)) : NewerAbove ds := by
  rw [newerAbove_iff_pairwise] at h ⊢
  exact (List.pairwise_append.mp h).2.1

theorem newerAbove_append_left {cs ds : List (List (Ver Nat))} (h : NewerAbove (cs ++ ds)) : NewerAbove cs := by
  rw [newerAbove_iff_pairwise] at h ⊢
  exact (List.pairwise_append.mp h).1

/-- **a level ≥ 1 as one table** (I1 + I2): files sorted by key with at most touching ranges, every
    file's versions inside its range, and — where two files touch in a key — the earlier file
    holding the newer versions: the concatenation of the files' tables is strictly sorted -/
theorem level_sorted : ∀ (l : List KFile), LevelSorted (l.map toT) → (∀ f ∈ l, (toT f).Wf) →
    NewerAbove (l.map (·.vers)) → Sorted natLt (levelFiles l).flatten
  | [], _, _, _ => List.Pairwise.nil
  | f :: l, hs, hw, hn => by
    obtain ⟨hs1, hs2⟩ := List.pairwise_cons.mp hs
    obtain ⟨hn1, hn2⟩ := hn
    have ih := level_sorted l hs2 (fun g hg => hw g (List.mem_cons_of_mem _ hg)) hn2
    show List.Pairwise _ (tableOf f.vers ++ (levelFiles l).flatten)
    rw [List.pairwise_append]
    refine ⟨tableOf_sorted _, ih, ?_⟩
    intro a ha b hb
    have ha' := (mem_tableOf _ a).mp ha
    obtain ⟨T, hT, hbT⟩ := List.mem_flatten.mp hb
    obtain ⟨g, hg, rfl⟩ := List.mem_map.mp hT
    have hb' := (mem_tableOf _ b).mp hbT
    have h1 := ((hw f List.mem_cons_self).2 a ha').2
    have h2 := ((hw g (List.mem_cons_of_mem _ hg)).2 b hb').1
    have h3 : f.last ≤ g.first := hs1 (toT g) (List.mem_map.mpr ⟨g, hg, rfl⟩)
    have hle : a.1 ≤ b.1 := Nat.le_trans h1 (Nat.le_trans h3 h2)
    unfold vlt natLt
    simp only [Bool.or_eq_true, Bool.and_eq_true, decide_eq_true_eq]
    rcases Nat.lt_or_ge a.1 b.1 with h | h
    · exact Or.inl h
    · have he : a.1 = b.1 := Nat.le_antisymm hle h
      exact Or.inr ⟨he, hn1 a ha' g.vers (List.mem_map.mpr ⟨g, hg, rfl⟩) b hb' he⟩

/-- every level's file list is "newer above" when the flat list of all files' versions is -/
theorem newerAbove_level : ∀ (L : List (List KFile)) (l : List KFile), l ∈ L →
    NewerAbove ((L.map (·.map toT)).flatMap (fun l => l.map (·.vers))) → NewerAbove (l.map (·.vers))
  | l0 :: L, l, hl, h => by
    rw [List.map_cons, List.flatMap_cons] at h
    rcases List.mem_cons.mp hl with rfl | hl
    · have := newerAbove_append_left h
      rwa [List.map_map] at this
    · exact newerAbove_level L l hl (newerAbove_append_right h)

/-- every child of the tree's merging cursor is strictly sorted -/
theorem treeTabsO_sorted (s : KState) (i1 : I1 s) (i2 : NewerAbove (allComps s)) :
    ∀ T ∈ treeTabsO s, Sorted natLt T := by
  intro T hT
  unfold treeTabsO treeTablesO at hT
  rw [List.map_append, List.mem_append] at hT
  rcases hT with hT | hT
  · rw [l0_flatten] at hT
    obtain ⟨c, _, rfl⟩ := List.mem_map.mp hT
    exact tableOf_sorted c
  · obtain ⟨lf, hlf, rfl⟩ := List.mem_map.mp hT
    obtain ⟨l, hl, rfl⟩ := List.mem_map.mp hlf
    have hl' : l ∈ s.levels := (List.mem_filter.mp hl).1
    have hi := i1 (l.map toT) (List.mem_map.mpr ⟨l, hl', rfl⟩)
    have hna : NewerAbove ((tLevels s).flatMap (fun l => l.map (·.vers))) :=
      newerAbove_append_right (newerAbove_append_right i2)
    exact level_sorted l hi.1 (fun f hf => hi.2 (toT f) (List.mem_map.mpr ⟨f, hf, rfl⟩))
      (newerAbove_level s.levels l hl' hna)

theorem treeTabsO_nodup (s : KState) (i2 : NewerAbove (allComps s)) : (treeTabsO s).flatten.Nodup := by
  rw [treeTabsO_flatten]
  exact tables_nodup _ (newerAbove_append_right i2)

theorem treeTables_ne (s : KState) : ∀ lvl ∈ treeTables s, 0 < lvl.length := by
  intro lvl h
  unfold treeTables at h
  rcases List.mem_append.mp h with h | h
  · obtain ⟨f, _, rfl⟩ := List.mem_map.mp h; exact Nat.zero_lt_one
  · obtain ⟨l, hl, rfl⟩ := List.mem_map.mp h
    have := (List.mem_filter.mp hl).2
    unfold levelFiles
    rw [List.length_map]
    cases l with
    | nil => simp at this
    | cons _ _ => exact Nat.succ_pos _

/-- what the history invariant gives about the children of a state -/
structure ChildrenAreTables (s : KState) : Prop where
  /-- memtable children: strictly sorted tables with exactly the component's versions -/
  mems_sorted : ∀ T ∈ memTables s, Sorted natLt T
  /-- tree children (a level-0 file; a level ≥ 1 as the concatenation of its files): strictly sorted -/
  tree_sorted : ∀ T ∈ treeTabs s, Sorted natLt T
  /-- no level is an empty concatenation -/
  tree_ne : ∀ lvl ∈ treeTables s, 0 < lvl.length
  /-- the duplicates clause: NO version is visible through two children — in `Blue.StoreHist` a flush
      removes the immutable memtable in the step that adds its file, so between operations the
      children are pairwise disjoint (the window in which both are children is `Blue.Rollover`'s;
      `store_scan_spec_dups` covers it through `FamilyW`, this model never enters it) -/
  no_dups : (memTables s ++ treeTabs s).flatten.Nodup
  /-- the tree's family (hypotheses `famT`, `hkidsT` of `store_scan_spec_dups`) -/
  famT : Family (vlt natLt) (treeM s) (treeTabsO s).length
  kidsT : (treeTabs s).Perm ((List.range (treeTabsO s).length).map (childList (treeM s)))
  /-- the store's family (hypotheses `fam`, `hkids`) -/
  fam : FamilyW (vlt natLt) (storeM s) (storeTabs s).length
  kids : (List.range (storeTabs s).length).map (childList (storeM s)) = storeTabs s
  /-- the merged list holds exactly the versions of the state's components -/
  members : ∀ e, e ∈ (storeM s).map (·.1) ↔ e ∈ (allComps s).flatten

theorem children_of_inv (s : KState) (i1 : I1 s) (i2 : NewerAbove (allComps s)) : ChildrenAreTables s := by
  have hT := mergedOf_family vst (treeTabsO s) (treeTabsO_sorted s i1 i2) (treeTabsO_nodup s i2)
  have hmem : ∀ T ∈ memTables s, Sorted natLt T := by
    intro T hT
    obtain ⟨c, _, rfl⟩ := List.mem_map.mp hT
    exact tableOf_sorted c
  have hS := mergedOf_familyW vst (storeTabs s) (by
    intro T hT'
    rcases List.mem_append.mp hT' with h | h
    · exact hmem T h
    · rw [List.mem_singleton] at h; subst h; exact hT.1.sorted)
  have htm : ∀ e, e ∈ (treeM s).map (·.1) ↔ e ∈ (treeComps s).flatten := by
    intro e
    have := (mergedList_perm (vlt natLt) (treeTabsO s)).mem_iff (a := e)
    unfold mergedList at this
    unfold treeM
    rw [this, treeTabsO_flatten, mem_flatten_tables]
  refine ⟨hmem, ?_, treeTables_ne s, ?_, hT.1, ?_, hS.1, hS.2, ?_⟩
  · intro T h
    exact treeTabsO_sorted s i1 i2 T ((treeTabs_perm s).mem_iff.mp h)
  · have hp : (memTables s ++ treeTabs s).flatten.Perm ((allComps s).map tableOf).flatten := by
      have e : ((allComps s).map tableOf).flatten = (memTables s ++ treeTabsO s).flatten := by
        show ((memComps s ++ treeComps s).map tableOf).flatten = _
        rw [List.map_append, List.flatten_append, List.flatten_append, treeTabsO_flatten]
        rfl
      rw [e]
      exact List.Perm.flatten (List.Perm.append_left _ (treeTabs_perm s))
    exact hp.nodup_iff.mpr (tables_nodup _ i2)
  · show (treeTabs s).Perm ((List.range (treeTabsO s).length).map (childList (mergedOf (vlt natLt) (treeTabsO s))))
    rw [hT.2]; exact treeTabs_perm s
  · intro e
    have := (mergedList_perm (vlt natLt) (storeTabs s)).mem_iff (a := e)
    unfold mergedList at this
    show e ∈ (storeM s).map (·.1) ↔ e ∈ (memComps s ++ treeComps s).flatten
    unfold storeM
    rw [this]
    unfold storeTabs memTables
    rw [List.flatten_append, List.mem_append, List.flatten_append, List.mem_append, mem_flatten_tables]
    simp only [List.flatten_cons, List.flatten_nil, List.append_nil]
    rw [htm]

/-- **history_children_are_tables**: in every state reached by a valid history the children the real
    `range_scan` builds are strictly sorted tables of their components' versions, pairwise disjoint,
    and form the families `store_scan_spec_dups` asks for -/
theorem history_children_are_tables (ops : List Op) (hv : Valid init ops) :
    ChildrenAreTables (run init ops).st :=
  children_of_inv _ (history_invariant ops hv).i1 (history_invariant ops hv).i2

/-! ## the specification side: a list computed from the operation list and the bounds alone -/

def opKeys : Op → List Nat
  | .write b => b.map (·.1)
  | _ => []

/-- every key a write of the history names, ascending, once -/
def keysOf (ops : List Op) : List Nat := sortS natLt (ops.flatMap opKeys)

/-- the version a scan shows for key `k`: the last accepted write, if it is a put -/
def shown (ops : List Op) (k : Nat) : Option (Ver Nat) :=
  match spec ops k with
  | some (ts, some _) => some (k, ts)
  | _ => none

/-- **the keys whose last accepted write is a put, in range, in key order**, each with the
    timestamp of that write -/
def specScan (ops : List Op) (sb eb : Bound Nat) : List (Ver Nat) :=
  ((keysOf ops).filterMap (shown ops)).filter (inRange natLt sb eb)

theorem shown_eq {ops : List Op} {k : Nat} {e : Ver Nat} :
    shown ops k = some e ↔ e.1 = k ∧ ∃ v, spec ops k = some (e.2, some v) := by
  unfold shown
  cases h : spec ops k with
  | none => simp
  | some q =>
    obtain ⟨ts, p⟩ := q
    cases p with
    | none => simp
    | some v =>
      simp only [Option.some.injEq, Prod.mk.injEq]
      constructor
      · rintro rfl; exact ⟨rfl, v, rfl, rfl⟩
      · rintro ⟨h1, v', h2, _⟩; exact Prod.ext h1.symm h2

theorem runSpec_untouched : ∀ (ops : List Op) (h : HState) (m : SpecMap) (k : Nat),
    k ∉ ops.flatMap opKeys → runSpec h m ops k = m k
  | [], _, _, _, _ => rfl
  | op :: ops, h, m, k, hk => by
    rw [List.flatMap_cons, List.mem_append, not_or] at hk
    show runSpec (apply h op) (specStep m (h.seq + 1) op) ops k = m k
    rw [runSpec_untouched ops _ _ k hk.2]
    cases op with
    | write b =>
      show (if batchOk b = true then fun k => match List.lookup k b with
          | some p => some (h.seq + 1, p)
          | none => m k
        else m) k = m k
      by_cases hb : batchOk b = true
      · rw [if_pos hb]
        have : List.lookup k b = none := by
          rw [List.lookup_eq_none_iff]
          intro q hq
          simp only [bne_iff_ne, ne_eq]
          intro e
          exact hk.1 (List.mem_map.mpr ⟨q, hq, e.symm⟩)
        simp only [this]
      · rw [if_neg hb]
    | rollover => rfl
    | flush => rfl
    | compact _ _ => rfl

theorem spec_key_written (ops : List Op) (k : Nat) (q : Nat × Payload) (h : spec ops k = some q) :
    k ∈ keysOf ops := by
  unfold keysOf
  rw [mem_sortS]
  apply Classical.byContradiction
  intro hk
  have := runSpec_untouched ops init (fun _ => none) k hk
  unfold spec at h
  rw [this] at h
  cases h

theorem mem_specScan (ops : List Op) (sb eb : Bound Nat) (e : Ver Nat) :
    e ∈ specScan ops sb eb ↔ ((∃ v, spec ops e.1 = some (e.2, some v)) ∧ inRange natLt sb eb e = true) := by
  unfold specScan
  rw [List.mem_filter, List.mem_filterMap]
  constructor
  · rintro ⟨⟨k, _, hs⟩, hr⟩
    obtain ⟨h1, h2⟩ := shown_eq.mp hs
    rw [← h1] at h2
    exact ⟨h2, hr⟩
  · rintro ⟨⟨v, hs⟩, hr⟩
    exact ⟨⟨e.1, spec_key_written ops e.1 _ hs, shown_eq.mpr ⟨rfl, v, hs⟩⟩, hr⟩

theorem specScan_sorted (ops : List Op) (sb eb : Bound Nat) : Sorted natLt (specScan ops sb eb) := by
  unfold specScan
  apply List.Pairwise.sublist List.filter_sublist
  refine List.Pairwise.filterMap (shown ops) ?_ (sortS_sorted natLt_st _)
  intro a a' haa b hb b' hb'
  obtain ⟨h1, _⟩ := shown_eq.mp hb
  obtain ⟨h2, _⟩ := shown_eq.mp hb'
  unfold vlt
  rw [h1, h2, haa]
  rfl

/-! ## the loop bound of the model's pruning / bounds cursors, from the size of the state -/

theorem insS_length_le {α : Type} [DecidableEq α] (lt : α → α → Bool) (e : α) :
    ∀ (l : List α), (insS lt e l).length ≤ l.length + 1
  | [] => Nat.le_refl _
  | a :: t => by
    unfold insS
    by_cases h1 : lt e a = true
    · rw [if_pos h1]; exact Nat.le_refl _
    · rw [if_neg h1]
      by_cases h2 : e = a
      · rw [if_pos h2]; exact Nat.le_succ _
      · rw [if_neg h2]
        have := insS_length_le lt e t
        simp only [List.length_cons]
        omega

theorem tableOf_length_le : ∀ (c : List (Ver Nat)), (tableOf c).length ≤ c.length
  | [] => Nat.le_refl _
  | a :: t => by
    have h1 := insS_length_le (vlt natLt) a (sortS (vlt natLt) t)
    have h2 : (sortS (vlt natLt) t).length ≤ t.length := tableOf_length_le t
    show (insS (vlt natLt) a (sortS (vlt natLt) t)).length ≤ t.length + 1
    omega

theorem tables_length_le : ∀ (cs : List (List (Ver Nat))), ((cs.map tableOf).flatten).length ≤ cs.flatten.length
  | [] => Nat.le_refl _
  | c :: cs => by
    have h1 := tableOf_length_le c
    have h2 := tables_length_le cs
    simp only [List.map_cons, List.flatten_cons, List.length_append]
    omega

theorem mergedOf_length (T : List (List (Ver Nat))) : (mergedOf (vlt natLt) T).length = T.flatten.length := by
  have := (mergedList_perm (vlt natLt) T).length_eq
  unfold mergedList at this
  rwa [List.length_map] at this

/-- the number of versions the state's components hold, with multiplicity (raw fields only) -/
def stateSize (s : KState) : Nat :=
  (memComps s).flatten.length + (s.l0.map (·.vers)).flatten.length
    + (s.levels.flatMap (fun l => l.map (·.vers))).flatten.length

theorem storeM_length_le (s : KState) : (storeM s).length ≤ stateSize s := by
  have h1 : (storeM s).length = (memTables s).flatten.length + ((treeComps s).map tableOf).flatten.length := by
    unfold storeM
    rw [mergedOf_length]
    unfold storeTabs
    rw [List.flatten_append, List.length_append]
    simp only [List.flatten_cons, List.flatten_nil, List.append_nil, List.length_map]
    unfold treeM
    rw [mergedOf_length, treeTabsO_flatten]
  have h2 := tables_length_le (memComps s)
  have h3 := tables_length_le (treeComps s)
  have h4 : (treeComps s).flatten.length = (s.l0.map (·.vers)).flatten.length
      + (s.levels.flatMap (fun l => l.map (·.vers))).flatten.length := by
    unfold treeComps l0Comps tLevels
    rw [List.flatten_append, List.length_append]
    congr 1
    · exact (List.Perm.flatten ((l0Order_perm s.l0).map _)).length_eq
    · congr 2
      rw [List.flatMap_map]
      congr 1
      funext l
      rw [List.map_map]
      rfl
  unfold stateSize
  unfold memTables at h1
  omega

/-! ## the composition -/

/-- the specification list of `store_scan_spec_dups` on the reached state IS `specScan ops` -/
theorem history_scan_list (ops : List Op) (hv : Valid init ops) (t : Nat) (ht : (run init ops).vis ≤ t)
    (sb eb : Bound Nat) :
    ((dedupAdj ((storeM (run init ops).st).map (·.1))).filter
        (isLive (dedupAdj ((storeM (run init ops).st).map (·.1))) t (tombOf (run init ops)))).filter
        (inRange natLt sb eb)
      = specScan ops sb eb := by
  have hc := history_children_are_tables ops hv
  have hw : SortedW natLt ((storeM (run init ops).st).map (·.1)) := hc.fam.sorted
  have hsd : Sorted natLt (dedupAdj ((storeM (run init ops).st).map (·.1))) := sorted_dedupAdj natLt_st hw
  have hM : ∀ e, e ∈ dedupAdj ((storeM (run init ops).st).map (·.1))
      ↔ e ∈ (allComps (run init ops).st).flatten := fun e => by
    rw [mem_dedupAdj]; exact hc.members e
  apply sorted_ext vst _ _ (history_scan_sorted _ _ hsd t sb eb) (specScan_sorted ops sb eb)
  intro e
  rw [history_scan_refines (klt := natLt) ops hv _ hM t ht sb eb e, mem_specScan]

/-- **history_scan_cursor**: after ANY valid history `ops`, at every read timestamp from the
    published sequence number on, for all bounds, the stack
    `Bounds(Pruning(Merging[mem, imm?, Merging[level-0 files…, Concat(Lazy(level files))…]]))`
    over cursors of the reached state's components shows, under every finite program of
    `seek_to_first / seek_to_last / seek k / next / prev` (call by call: `BehEq` quantifies over all
    programs, hence over every prefix), what the reference cursor shows over `specScan ops sb eb`.

    `mems` / `levels`: one cursor per component, paired with the table it is to behave as; `hmemT`,
    `hlevT` say these tables are the sorted version lists of the state's components in the shape
    `range_scan` builds; `hmems`, `hfiles` are the remaining hypotheses (C10/C11/C17).  `n` is the
    loop bound of the model's pruning and bounds cursors (any number above the state's size). -/
theorem history_scan_cursor (ops : List Op) (hv : Valid init ops) (t : Nat) (ht : (run init ops).vis ≤ t)
    (sb eb : Bound Nat) (n : Nat) (hn : stateSize (run init ops).st + 2 ≤ n)
    {Cm S : Cur (Ver Nat)} (mems : List (Cm.σ × List (Ver Nat)))
    (levels : List (List (S.σ × List (Ver Nat))))
    (hmemT : mems.map (·.2) = memTables (run init ops).st)
    (hlevT : levels.map (·.map (·.2)) = treeTables (run init ops).st)
    (hmems : ∀ m ∈ mems, BehEq (SeekAdm natLt) Cm m.1 (RefCur (Ver Nat)) ⟨m.2, 0⟩)
    (hfiles : ∀ lvl ∈ levels, ∀ f ∈ lvl, BehEq (SeekAdm natLt) S f.1 (RefCur (Ver Nat)) ⟨f.2, 0⟩) :
    BehEq (SeekAdm natLt)
      (BoundsC.cur (PruningC.cur (MergingC.cur (Cur.sum Cm (TreeCur natLt S)) (vlt natLt))
        (pcfg t (tombOf (run init ops))) n) (bcfg natLt sb eb) n)
      (BoundsC.new (PruningC.cur (MergingC.cur (Cur.sum Cm (TreeCur natLt S)) (vlt natLt))
          (pcfg t (tombOf (run init ops))) n) (bcfg natLt sb eb)
        (PruningC.new (MergingC.cur (Cur.sum Cm (TreeCur natLt S)) (vlt natLt))
          (MergingC.new (Cur.sum Cm (TreeCur natLt S)) (vlt natLt) (storeKids mems levels))))
      (RefCur (Ver Nat)) ⟨specScan ops sb eb, 0⟩ := by
  have hc := history_children_are_tables ops hv
  have hne : ∀ lvl ∈ levels, 0 < lvl.length := by
    intro lvl hl
    have := hc.tree_ne (lvl.map (·.2)) (by rw [← hlevT]; exact List.mem_map.mpr ⟨lvl, hl, rfl⟩)
    rwa [List.length_map] at this
  have hkidsT : ((levels.map levelTable).map (·.xs)).Perm
      ((List.range (treeTabsO (run init ops).st).length).map (childList (treeM (run init ops).st))) := by
    have e : (levels.map levelTable).map (·.xs) = treeTabs (run init ops).st := by
      unfold treeTabs
      rw [← hlevT, List.map_map, List.map_map]
      rfl
    rw [e]; exact hc.kidsT
  have hkids : (mems.map (·.2) ++ [(treeM (run init ops).st).map (·.1)]).Perm
      ((List.range (storeTabs (run init ops).st).length).map (childList (storeM (run init ops).st))) := by
    rw [hc.kids, hmemT]; exact List.Perm.refl _
  have h := store_scan_spec_dups natLt_st (treeM (run init ops).st) _ hc.famT (storeM (run init ops).st) _
    hc.fam t (tombOf (run init ops)) sb eb n (by rw [List.length_map]; exact Nat.le_trans (Nat.add_le_add_right (storeM_length_le _) 2) hn) mems hmems levels hfiles
    hne hkidsT hkids
  rw [history_scan_list ops hv t ht sb eb] at h
  exact h

/-- **history_scan_matches_point_reads**: what the scan shows and what point reads answer agree, at
    history level.  (1) every version `e` the scan shows: `read` of its key answers a value `v`
    (`= lastWrite ops`, C01 `history_reads_last_write`) and `v` is the payload of the shown version;
    (2) every key in range whose point read answers a value is shown, with that value as payload. -/
theorem history_scan_matches_point_reads (ops : List Op) (hv : Valid init ops) (sb eb : Bound Nat) :
    (∀ e ∈ specScan ops sb eb, ∃ v, read (run init ops) e.1 = some (some v)
        ∧ lastWrite ops e.1 = some (some v) ∧ (run init ops).pay e.1 e.2 = some (some v))
    ∧ (∀ k v, read (run init ops) k = some (some v) → (∀ ts, inRange natLt sb eb (k, ts) = true) →
        ∃ ts, (k, ts) ∈ specScan ops sb eb ∧ (run init ops).pay k ts = some (some v)) := by
  have hr := fun k => read_of_rel (history_invariant ops hv) (history_rel ops hv) k
  constructor
  · intro e he
    obtain ⟨⟨v, hs⟩, _⟩ := (mem_specScan ops sb eb e).mp he
    have h1 : read (run init ops) e.1 = some (some v) := by rw [hr, hs]; rfl
    refine ⟨v, h1, ?_, ((history_rel ops hv).present e.1 e.2 (some v) hs).2.2⟩
    rw [← history_reads_last_write ops hv]; exact h1
  · intro k v hk hin
    rw [hr] at hk
    cases hs : spec ops k with
    | none => rw [hs] at hk; cases hk
    | some q =>
      obtain ⟨ts, p⟩ := q
      rw [hs] at hk
      have hp : p = some v := by simpa using hk
      subst hp
      exact ⟨ts, (mem_specScan ops sb eb (k, ts)).mpr ⟨⟨v, hs⟩, hin ts⟩,
        ((history_rel ops hv).present k ts (some v) hs).2.2⟩

/-! ## the children as `range_scan` REALLY builds them: restricted to the bounds

`KeyValueStore::range_scan` wraps each memtable cursor in a `BoundsCursor` (C11 `bounds_over`: it
behaves as the WINDOW of the memtable's table — the entries in range), and `Version::range_scan`
leaves out of a level ≥ 1 every file failing `compare_bounds_le(start, Included(last_key)) &&
compare_bounds_le(Included(first_key), end)`, and pushes no cursor for a level left without files.
Level-0 files are all taken. -/

/-- `compare_bounds_le` of `Version::range_scan` (lsmtk/src/tree/mod.rs), keys as ranks -/
def cmpBoundsLe : Bound Nat → Bound Nat → Bool
  | .unbounded, _ => true
  | .included _, .unbounded => true
  | .included x, .included y => decide (x ≤ y)
  | .included x, .excluded y => decide (x < y)
  | .excluded _, .unbounded => true
  | .excluded x, .included y => decide (x < y)
  | .excluded x, .excluded y => decide (x < y)

/-- the pre-filter of a level ≥ 1 -/
def fileInBounds (sb eb : Bound Nat) (f : KFile) : Bool :=
  cmpBoundsLe sb (.included f.last) && cmpBoundsLe (.included f.first) eb

/-- **the pre-filter leaves out only files without an in-range key** (for a well-formed file: every
    version's key inside `[first, last]`) -/
theorem fileInBounds_of_inRange (sb eb : Bound Nat) (f : KFile) (hw : (toT f).Wf) (v : Ver Nat)
    (hv : v ∈ f.vers) (hin : inRange natLt sb eb v = true) : fileInBounds sb eb f = true := by
  have h1 : f.first ≤ v.1 := (hw.2 v hv).1
  have h2 : v.1 ≤ f.last := (hw.2 v hv).2
  unfold fileInBounds
  unfold inRange at hin
  cases sb <;> cases eb <;>
    simp only [cmpBoundsLe, natLt, Bool.and_eq_true, Bool.not_eq_true', decide_eq_true_eq,
      decide_eq_false_iff_not, Bool.true_and, Bool.and_true] at hin ⊢ <;>
    omega

def memTablesR (sb eb : Bound Nat) (s : KState) : List (List (Ver Nat)) :=
  (memComps s).map (fun c => (tableOf c).filter (inRange natLt sb eb))

def levelFilesR (sb eb : Bound Nat) (l : List KFile) : List (List (Ver Nat)) :=
  levelFiles (l.filter (fileInBounds sb eb))

def treeTablesR (sb eb : Bound Nat) (s : KState) : List (List (List (Ver Nat))) :=
  s.l0.map (fun f => [tableOf f.vers]) ++ ((s.levels.map (levelFilesR sb eb)).filter (fun lf => !lf.isEmpty))

/-- what the stack theorem needs of a family of children given by their tables -/
structure TablesOk (memT : List (List (Ver Nat))) (treeT : List (List (List (Ver Nat)))) : Prop where
  mems_sorted : ∀ T ∈ memT, Sorted natLt T
  tree_sorted : ∀ T ∈ treeT.map List.flatten, Sorted natLt T
  tree_ne : ∀ lvl ∈ treeT, 0 < lvl.length
  no_dups : (memT ++ treeT.map List.flatten).flatten.Nodup

def mergedTabs (memT : List (List (Ver Nat))) (treeT : List (List (List (Ver Nat)))) : List (Ver Nat × Nat) :=
  mergedOf (vlt natLt) (memT ++ [(mergedOf (vlt natLt) (treeT.map List.flatten)).map (·.1)])

/-- `store_scan_spec_dups` with its family hypotheses discharged for ANY pairwise disjoint strictly
    sorted tables: the list shown is the live-in-range part of THE sorted list of their union -/
theorem stack_over_tables (memT : List (List (Ver Nat))) (treeT : List (List (List (Ver Nat))))
    (ok : TablesOk memT treeT) (t : Nat) (tomb : Ver Nat → Bool) (sb eb : Bound Nat) (n : Nat)
    (hn : (memT ++ treeT.map List.flatten).flatten.length + 2 ≤ n)
    {Cm S : Cur (Ver Nat)} (mems : List (Cm.σ × List (Ver Nat)))
    (levels : List (List (S.σ × List (Ver Nat))))
    (hmemT : mems.map (·.2) = memT) (hlevT : levels.map (·.map (·.2)) = treeT)
    (hmems : ∀ m ∈ mems, BehEq (SeekAdm natLt) Cm m.1 (RefCur (Ver Nat)) ⟨m.2, 0⟩)
    (hfiles : ∀ lvl ∈ levels, ∀ f ∈ lvl, BehEq (SeekAdm natLt) S f.1 (RefCur (Ver Nat)) ⟨f.2, 0⟩) :
    Sorted natLt (dedupAdj ((mergedTabs memT treeT).map (·.1)))
    ∧ (∀ e, e ∈ dedupAdj ((mergedTabs memT treeT).map (·.1)) ↔ e ∈ (memT ++ treeT.map List.flatten).flatten)
    ∧ BehEq (SeekAdm natLt)
      (BoundsC.cur (PruningC.cur (MergingC.cur (Cur.sum Cm (TreeCur natLt S)) (vlt natLt)) (pcfg t tomb) n)
        (bcfg natLt sb eb) n)
      (BoundsC.new (PruningC.cur (MergingC.cur (Cur.sum Cm (TreeCur natLt S)) (vlt natLt)) (pcfg t tomb) n)
        (bcfg natLt sb eb)
        (PruningC.new (MergingC.cur (Cur.sum Cm (TreeCur natLt S)) (vlt natLt))
          (MergingC.new (Cur.sum Cm (TreeCur natLt S)) (vlt natLt) (storeKids mems levels))))
      (RefCur (Ver Nat))
      ⟨((dedupAdj ((mergedTabs memT treeT).map (·.1))).filter
          (isLive (dedupAdj ((mergedTabs memT treeT).map (·.1))) t tomb)).filter (inRange natLt sb eb), 0⟩ := by
  have hnd := ok.no_dups
  rw [List.flatten_append, List.nodup_append] at hnd
  have hT := mergedOf_family vst (treeT.map List.flatten) ok.tree_sorted hnd.2.1
  have hS := mergedOf_familyW vst (memT ++ [(mergedOf (vlt natLt) (treeT.map List.flatten)).map (·.1)]) (by
    intro T hT'
    rcases List.mem_append.mp hT' with h | h
    · exact ok.mems_sorted T h
    · rw [List.mem_singleton] at h; subst h; exact hT.1.sorted)
  have hmemb : ∀ e, e ∈ (mergedTabs memT treeT).map (·.1) ↔ e ∈ (memT ++ treeT.map List.flatten).flatten := by
    intro e
    have h1 := (mergedList_perm (vlt natLt)
      (memT ++ [(mergedOf (vlt natLt) (treeT.map List.flatten)).map (·.1)])).mem_iff (a := e)
    have h2 := (mergedList_perm (vlt natLt) (treeT.map List.flatten)).mem_iff (a := e)
    unfold mergedList at h1 h2
    unfold mergedTabs
    rw [h1, List.flatten_append, List.mem_append, List.flatten_append, List.mem_append]
    simp only [List.flatten_cons, List.flatten_nil, List.append_nil]
    rw [h2]
  have hlen : (mergedTabs memT treeT).length = (memT ++ treeT.map List.flatten).flatten.length := by
    unfold mergedTabs
    rw [mergedOf_length, List.flatten_append, List.length_append, List.flatten_append, List.length_append]
    simp only [List.flatten_cons, List.flatten_nil, List.append_nil, List.length_map]
    rw [mergedOf_length]
  have hne : ∀ lvl ∈ levels, 0 < lvl.length := by
    intro lvl hl
    have := ok.tree_ne (lvl.map (·.2)) (by rw [← hlevT]; exact List.mem_map.mpr ⟨lvl, hl, rfl⟩)
    rwa [List.length_map] at this
  have hkidsT : ((levels.map levelTable).map (·.xs)).Perm
      ((List.range (treeT.map List.flatten).length).map
        (childList (mergedOf (vlt natLt) (treeT.map List.flatten)))) := by
    have e : (levels.map levelTable).map (·.xs) = treeT.map List.flatten := by
      rw [← hlevT, List.map_map, List.map_map]
      rfl
    rw [e, hT.2]
  have hkids : (mems.map (·.2) ++ [(mergedOf (vlt natLt) (treeT.map List.flatten)).map (·.1)]).Perm
      ((List.range (memT ++ [(mergedOf (vlt natLt) (treeT.map List.flatten)).map (·.1)]).length).map
        (childList (mergedTabs memT treeT))) := by
    unfold mergedTabs
    rw [hS.2, hmemT]
  refine ⟨sorted_dedupAdj natLt_st hS.1.sorted, fun e => by rw [mem_dedupAdj]; exact hmemb e, ?_⟩
  exact store_scan_spec_dups natLt_st _ _ hT.1 (mergedTabs memT treeT) _ hS.1 t tomb sb eb n
    (by rw [List.length_map, hlen]; exact hn) mems hmems levels hfiles hne hkidsT hkids

theorem flatten_map_sublist {α β : Type} (f g : α → List β) (h : ∀ x, (f x).Sublist (g x)) :
    ∀ (L : List α), ((L.map f).flatten).Sublist ((L.map g).flatten)
  | [] => List.Sublist.refl _
  | x :: L => by
    simp only [List.map_cons, List.flatten_cons]
    exact (h x).append (flatten_map_sublist f g h L)

theorem flatten_filter_ne {β : Type} : ∀ (L : List (List (List β))),
    ((L.filter (fun lf => !lf.isEmpty)).map List.flatten).flatten = (L.map List.flatten).flatten
  | [] => rfl
  | [] :: L => by
    rw [List.filter_cons_of_neg (by simp), flatten_filter_ne L]
    rfl
  | (a :: l) :: L => by
    rw [List.filter_cons_of_pos (by rfl), List.map_cons, List.map_cons, List.flatten_cons, List.flatten_cons,
      flatten_filter_ne L]
    rfl

theorem levelFilesR_sublist (sb eb : Bound Nat) : ∀ (l : List KFile),
    ((levelFilesR sb eb l).flatten).Sublist ((levelFiles l).flatten)
  | [] => List.Sublist.refl _
  | f :: l => by
    unfold levelFilesR
    by_cases h : fileInBounds sb eb f = true
    · rw [List.filter_cons_of_pos h]
      exact (List.Sublist.refl _).append (levelFilesR_sublist sb eb l)
    · rw [List.filter_cons_of_neg h]
      exact List.Sublist.trans (levelFilesR_sublist sb eb l) (List.sublist_append_right _ _)

theorem treeTabs_flatten_eq (s : KState) :
    (treeTabs s).flatten = ((s.l0.map (fun f => [tableOf f.vers])).map List.flatten).flatten
      ++ ((s.levels.map levelFiles).map List.flatten).flatten := by
  unfold treeTabs treeTables
  rw [List.map_append, List.flatten_append, ← flatten_filter_ne (s.levels.map levelFiles)]
  congr 3
  induction s.levels with
  | nil => rfl
  | cons l L ih =>
    cases l with
    | nil => exact ih
    | cons f l =>
      rw [List.filter_cons_of_pos (by rfl), List.map_cons, List.map_cons,
        List.filter_cons_of_pos (by rfl), ih]

theorem treeTabsR_flatten_eq (sb eb : Bound Nat) (s : KState) :
    ((treeTablesR sb eb s).map List.flatten).flatten
      = ((s.l0.map (fun f => [tableOf f.vers])).map List.flatten).flatten
        ++ ((s.levels.map (levelFilesR sb eb)).map List.flatten).flatten := by
  unfold treeTablesR
  rw [List.map_append, List.flatten_append, flatten_filter_ne]

theorem restricted_sublist (sb eb : Bound Nat) (s : KState) :
    ((memTablesR sb eb s ++ (treeTablesR sb eb s).map List.flatten).flatten).Sublist
      ((memTables s ++ treeTabs s).flatten) := by
  rw [List.flatten_append, List.flatten_append, treeTabs_flatten_eq, treeTabsR_flatten_eq]
  refine List.Sublist.append ?_ (List.Sublist.append (List.Sublist.refl _) ?_)
  · exact flatten_map_sublist _ _ (fun c => List.filter_sublist) (memComps s)
  · rw [List.map_map, List.map_map]
    exact flatten_map_sublist _ _ (fun l => levelFilesR_sublist sb eb l) s.levels

theorem fullTabs_perm (s : KState) :
    (memTables s ++ treeTabs s).flatten.Perm ((allComps s).map tableOf).flatten := by
  have e : ((allComps s).map tableOf).flatten = (memTables s ++ treeTabsO s).flatten := by
    show ((memComps s ++ treeComps s).map tableOf).flatten = _
    rw [List.map_append, List.flatten_append, List.flatten_append, treeTabsO_flatten]
    rfl
  rw [e]
  exact List.Perm.flatten (List.Perm.append_left _ (treeTabs_perm s))

theorem allComps_length (s : KState) : (allComps s).flatten.length = stateSize s := by
  show (memComps s ++ treeComps s).flatten.length = _
  unfold stateSize treeComps l0Comps tLevels
  rw [List.flatten_append, List.length_append, List.flatten_append, List.length_append, Nat.add_assoc]
  congr 2
  · exact (List.Perm.flatten ((l0Order_perm s.l0).map _)).length_eq
  · congr 2
    rw [List.flatMap_map]
    congr 1
    funext l
    rw [List.map_map]
    rfl

/-- the restricted children of a state meeting the invariant are pairwise disjoint sorted tables -/
theorem restricted_ok (sb eb : Bound Nat) (s : KState) (i1 : I1 s) (i2 : NewerAbove (allComps s)) :
    TablesOk (memTablesR sb eb s) (treeTablesR sb eb s) := by
  refine ⟨?_, ?_, ?_, ?_⟩
  · intro T hT
    obtain ⟨c, _, rfl⟩ := List.mem_map.mp hT
    exact List.Pairwise.sublist List.filter_sublist (tableOf_sorted c)
  · intro T hT
    obtain ⟨lf, hlf, rfl⟩ := List.mem_map.mp hT
    unfold treeTablesR at hlf
    rcases List.mem_append.mp hlf with h | h
    · obtain ⟨f, _, rfl⟩ := List.mem_map.mp h
      show Sorted natLt ([tableOf f.vers].flatten)
      simp only [List.flatten_cons, List.flatten_nil, List.append_nil]
      exact tableOf_sorted _
    · obtain ⟨l, hl, rfl⟩ := List.mem_map.mp (List.mem_filter.mp h).1
      have hi := i1 (l.map toT) (List.mem_map.mpr ⟨l, hl, rfl⟩)
      have hna : NewerAbove ((tLevels s).flatMap (fun l => l.map (·.vers))) :=
        newerAbove_append_right (newerAbove_append_right i2)
      have hnl := newerAbove_level s.levels l hl hna
      have hsub : (l.filter (fileInBounds sb eb)).Sublist l := List.filter_sublist
      refine level_sorted _ (List.Pairwise.sublist (hsub.map toT) hi.1)
        (fun f hf => hi.2 (toT f) (List.mem_map.mpr ⟨f, hsub.subset hf, rfl⟩)) ?_
      rw [newerAbove_iff_pairwise] at hnl ⊢
      exact List.Pairwise.sublist (hsub.map _) hnl
  · intro lvl h
    unfold treeTablesR at h
    rcases List.mem_append.mp h with h | h
    · obtain ⟨f, _, rfl⟩ := List.mem_map.mp h; exact Nat.zero_lt_one
    · have := (List.mem_filter.mp h).2
      cases lvl with
      | nil => simp at this
      | cons _ _ => exact Nat.succ_pos _
  · exact List.Nodup.sublist (restricted_sublist sb eb s)
      ((fullTabs_perm s).nodup_iff.mpr (tables_nodup _ i2))

/-- **history_scan_cursor_in_range**: `history_scan_cursor` for the children `range_scan` really
    builds — memtable children restricted to the bounds (`BoundsCursor` over the memtable, C11
    `bounds_over`), levels ≥ 1 without the files the pre-filter `compare_bounds_le` leaves out,
    levels left empty not pushed.  Same specification list. -/
theorem history_scan_cursor_in_range (ops : List Op) (hv : Valid init ops) (t : Nat)
    (ht : (run init ops).vis ≤ t) (sb eb : Bound Nat) (n : Nat) (hn : stateSize (run init ops).st + 2 ≤ n)
    {Cm S : Cur (Ver Nat)} (mems : List (Cm.σ × List (Ver Nat)))
    (levels : List (List (S.σ × List (Ver Nat))))
    (hmemT : mems.map (·.2) = memTablesR sb eb (run init ops).st)
    (hlevT : levels.map (·.map (·.2)) = treeTablesR sb eb (run init ops).st)
    (hmems : ∀ m ∈ mems, BehEq (SeekAdm natLt) Cm m.1 (RefCur (Ver Nat)) ⟨m.2, 0⟩)
    (hfiles : ∀ lvl ∈ levels, ∀ f ∈ lvl, BehEq (SeekAdm natLt) S f.1 (RefCur (Ver Nat)) ⟨f.2, 0⟩) :
    BehEq (SeekAdm natLt)
      (BoundsC.cur (PruningC.cur (MergingC.cur (Cur.sum Cm (TreeCur natLt S)) (vlt natLt))
        (pcfg t (tombOf (run init ops))) n) (bcfg natLt sb eb) n)
      (BoundsC.new (PruningC.cur (MergingC.cur (Cur.sum Cm (TreeCur natLt S)) (vlt natLt))
          (pcfg t (tombOf (run init ops))) n) (bcfg natLt sb eb)
        (PruningC.new (MergingC.cur (Cur.sum Cm (TreeCur natLt S)) (vlt natLt))
          (MergingC.new (Cur.sum Cm (TreeCur natLt S)) (vlt natLt) (storeKids mems levels))))
      (RefCur (Ver Nat)) ⟨specScan ops sb eb, 0⟩ := by
  have inv := history_invariant ops hv
  have hc := history_children_are_tables ops hv
  have ok := restricted_ok sb eb (run init ops).st inv.i1 inv.i2
  have hsl := restricted_sublist sb eb (run init ops).st
  have hlen : (memTablesR sb eb (run init ops).st
      ++ (treeTablesR sb eb (run init ops).st).map List.flatten).flatten.length + 2 ≤ n := by
    have h1 := hsl.length_le
    have h2 := (fullTabs_perm (run init ops).st).length_eq
    have h3 := tables_length_le (allComps (run init ops).st)
    have h4 := allComps_length (run init ops).st
    omega
  obtain ⟨hs', hm', hb⟩ := stack_over_tables _ _ ok t (tombOf (run init ops)) sb eb n hlen mems levels
    hmemT hlevT hmems hfiles
  have hfull : ∀ e, e ∈ (memTables (run init ops).st ++ treeTabs (run init ops).st).flatten
      ↔ e ∈ (allComps (run init ops).st).flatten := fun e => by
    rw [(fullTabs_perm _).mem_iff, mem_flatten_tables]
  have hw : SortedW natLt ((storeM (run init ops).st).map (·.1)) := hc.fam.sorted
  have hsd : Sorted natLt (dedupAdj ((storeM (run init ops).st).map (·.1))) := sorted_dedupAdj natLt_st hw
  have hM : ∀ e, e ∈ dedupAdj ((storeM (run init ops).st).map (·.1))
      ↔ e ∈ (allComps (run init ops).st).flatten := fun e => by
    rw [mem_dedupAdj]; exact hc.members e
  have hr := scan_list_restrict natLt_st _ _ sb eb hsd hs'
    (fun e he => (hM e).mpr ((hfull e).mp (hsl.subset ((hm' e).mp he))))
    (by
      intro e he hin
      rw [hm', List.flatten_append, List.mem_append]
      have he' : e ∈ (memComps (run init ops).st ++ treeComps (run init ops).st).flatten := (hM e).mp he
      rw [List.flatten_append, List.mem_append] at he'
      rcases he' with h | h
      · left
        obtain ⟨c, hc', hec⟩ := List.mem_flatten.mp h
        exact List.mem_flatten.mpr ⟨_, List.mem_map.mpr ⟨c, hc', rfl⟩,
          List.mem_filter.mpr ⟨(mem_tableOf c e).mpr hec, hin⟩⟩
      · right
        unfold treeComps at h
        rw [List.flatten_append, List.mem_append] at h
        rw [treeTabsR_flatten_eq, List.mem_append]
        rcases h with h | h
        · left
          obtain ⟨c, hc', hec⟩ := List.mem_flatten.mp h
          obtain ⟨f, hf, rfl⟩ := List.mem_map.mp hc'
          have hf' : f ∈ (run init ops).st.l0 := (l0Order_perm _).mem_iff.mp hf
          refine List.mem_flatten.mpr ⟨[tableOf f.vers].flatten, ?_, ?_⟩
          · exact List.mem_map.mpr ⟨_, List.mem_map.mpr ⟨f, hf', rfl⟩, rfl⟩
          · simp only [List.flatten_cons, List.flatten_nil, List.append_nil]
            exact (mem_tableOf _ e).mpr hec
        · right
          obtain ⟨c, hc', hec⟩ := List.mem_flatten.mp h
          obtain ⟨tl, htl, hctl⟩ := List.mem_flatMap.mp hc'
          obtain ⟨l, hl, rfl⟩ := List.mem_map.mp htl
          obtain ⟨tf, htf, rfl⟩ := List.mem_map.mp hctl
          obtain ⟨f, hf, rfl⟩ := List.mem_map.mp htf
          have hwf := (inv.i1 (l.map toT) (List.mem_map.mpr ⟨l, hl, rfl⟩)).2 (toT f) htf
          have hfb := fileInBounds_of_inRange sb eb f hwf e hec hin
          refine List.mem_flatten.mpr ⟨(levelFilesR sb eb l).flatten, ?_, ?_⟩
          · exact List.mem_map.mpr ⟨_, List.mem_map.mpr ⟨l, hl, rfl⟩, rfl⟩
          · refine List.mem_flatten.mpr ⟨tableOf f.vers, ?_, (mem_tableOf _ e).mpr hec⟩
            exact List.mem_map.mpr ⟨f, List.mem_filter.mpr ⟨hf, hfb⟩, rfl⟩)
    t (tombOf (run init ops))
  rw [hr, history_scan_list ops hv t ht sb eb] at hb
  exact hb

end Blue.StoreHist

#print axioms Blue.StoreHist.fileInBounds_of_inRange
#print axioms Blue.StoreHist.history_scan_cursor_in_range

#print axioms Blue.StoreHist.history_children_are_tables
#print axioms Blue.StoreHist.history_scan_list
#print axioms Blue.StoreHist.history_scan_cursor
#print axioms Blue.StoreHist.history_scan_matches_point_reads
