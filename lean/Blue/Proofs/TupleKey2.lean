import Blue.Model.TupleKey2
namespace Blue.TupleKey2

/-! ### byte-string order -/

theorem blt_cons_lt {a b : Nat} (h : a < b) (x y : List Nat) : blt (a :: x) (b :: y) = true := by
  simp [blt, h]

theorem blt_cons_same (a : Nat) (x y : List Nat) : blt (a :: x) (a :: y) = blt x y := by
  simp [blt]

theorem blt_append_left : ∀ (p x y : List Nat), blt (p ++ x) (p ++ y) = blt x y
  | [], _, _ => rfl
  | a :: p, x, y => by simp only [List.cons_append, blt_cons_same]; exact blt_append_left p x y

theorem blt_irrefl : ∀ (x : List Nat), blt x x = false
  | [] => rfl
  | a :: x => by rw [blt_cons_same]; exact blt_irrefl x

theorem blt_prefix (p : List Nat) (a : Nat) (x : List Nat) : blt p (p ++ a :: x) = true := by
  have := blt_append_left p [] (a :: x)
  simp only [List.append_nil] at this
  rw [this]; rfl

theorem blt_trans : ∀ (x y z : List Nat), blt x y = true → blt y z = true → blt x z = true
  | [], [], _, h, _ => by simp [blt] at h
  | [], _ :: _, [], _, h => by simp [blt] at h
  | [], _ :: _, _ :: _, _, _ => rfl
  | _ :: _, [], _, h, _ => by simp [blt] at h
  | _ :: _, _ :: _, [], _, h => by simp [blt] at h
  | a :: x, b :: y, c :: z, h1, h2 => by
    simp only [blt] at h1 h2 ⊢
    by_cases hab : a < b
    · by_cases hbc : b < c
      · have : a < c := by omega
        simp [this]
      · by_cases hcb : c < b
        · simp [hbc, hcb] at h2
        · have : b = c := by omega
          subst this; simp [hab]
    · by_cases hba : b < a
      · simp [hab, hba] at h1
      · have : a = b := by omega
        subst this
        simp only [hab, if_false] at h1
        by_cases hac : a < c
        · simp [hac]
        · by_cases hca : c < a
          · simp [hac, hca] at h2
          · simp only [hac, hca, if_false] at h2 ⊢
            exact blt_trans x y z h1 h2

/-- an encoding under which `a < b` is decided inside the encodings, whatever follows them:
    order-embedding and self-delimiting at once -/
def Strong {α : Type} (enc : α → List Nat) (lt : α → α → Prop) : Prop :=
  ∀ a b, lt a b → ∀ x y, blt (enc a ++ x) (enc b ++ y) = true

/-- **C16** tuples: concatenating strong encodings is a strong encoding of the lexicographic order -/
theorem strong_pair {α β : Type} {ea : α → List Nat} {eb : β → List Nat}
    {la : α → α → Prop} {lb : β → β → Prop} (ha : Strong ea la) (hb : Strong eb lb) :
    Strong (fun p : α × β => ea p.1 ++ eb p.2) (fun p q => la p.1 q.1 ∨ (p.1 = q.1 ∧ lb p.2 q.2)) := by
  intro p q h x y
  simp only [List.append_assoc]
  rcases h with h | ⟨h1, h2⟩
  · exact ha _ _ h _ _
  · rw [h1, blt_append_left]
    exact hb _ _ h2 _ _

/-- **C16** the encoding of an extended tuple sorts after the shorter tuple … -/
theorem extension_after (p : List Nat) (ext : List Nat) (hne : ext ≠ []) : blt p (p ++ ext) = true := by
  cases ext with
  | nil => exact absurd rfl hne
  | cons a x => exact blt_prefix p a x

/-- … and before everything that sorts after the shorter tuple by an element inside it -/
theorem extension_before {α : Type} {enc : α → List Nat} {lt : α → α → Prop} (h : Strong enc lt)
    (a b : α) (hab : lt a b) (ext y : List Nat) : blt (enc a ++ ext) (enc b ++ y) = true :=
  h a b hab ext y

/-! ### unsigned integers -/

theorem minLen_zero : minLen 0 = 0 := by rw [minLen]

theorem minLen_succ (v : Nat) : minLen (v + 1) = minLen ((v + 1) / 256) + 1 := by rw [minLen]

theorem lt_pow_minLen (v : Nat) : v < 256 ^ minLen v := by
  induction v using Nat.strongRecOn with
  | _ v ih =>
    cases v with
    | zero => simp [minLen_zero]
    | succ w =>
      rw [minLen_succ, Nat.pow_succ]
      have := ih ((w + 1) / 256) (by omega)
      have h2 := Nat.div_add_mod (w + 1) 256
      have h3 := Nat.mod_lt (w + 1) (show 256 > 0 by omega)
      generalize 256 ^ minLen ((w + 1) / 256) = P at *
      generalize (w + 1) / 256 = q at *
      have : (q + 1) * 256 ≤ P * 256 := Nat.mul_le_mul_right 256 (by omega)
      omega

theorem minLen_le_of_lt_pow : ∀ (L v : Nat), v < 256 ^ L → minLen v ≤ L := by
  intro L
  induction L with
  | zero => intro v h; simp at h; subst h; simp [minLen_zero]
  | succ L ih =>
    intro v h
    cases v with
    | zero => simp [minLen_zero]
    | succ w =>
      rw [minLen_succ]
      have : (w + 1) / 256 < 256 ^ L := by
        rw [Nat.div_lt_iff_lt_mul (by omega)]
        rw [Nat.pow_succ] at h; exact h
      have := ih _ this
      omega

theorem minLen_mono {a b : Nat} (h : a ≤ b) : minLen a ≤ minLen b :=
  minLen_le_of_lt_pow _ _ (Nat.lt_of_le_of_lt h (lt_pow_minLen b))

theorem bigEndian_length (v : Nat) : ∀ L, (bigEndian v L).length = L
  | 0 => rfl
  | L+1 => by simp [bigEndian, bigEndian_length v L]

/-- big-endian digit strings of equal length compare as the numbers they spell -/
theorem bigEndian_strong : ∀ (L a b : Nat), a % 256 ^ L < b % 256 ^ L →
    ∀ x y, blt (bigEndian a L ++ x) (bigEndian b L ++ y) = true := by
  intro L
  induction L with
  | zero => intro a b h; simp [Nat.mod_one] at h
  | succ L ih =>
    intro a b h x y
    simp only [bigEndian, List.cons_append]
    have hP : 0 < 256 ^ L := Nat.pow_pos (by omega)
    rw [Nat.pow_succ] at h
    -- split both residues into leading digit and rest
    have da : a % (256 ^ L * 256) / 256 ^ L = a / 256 ^ L % 256 := Nat.mod_mul_right_div_self a (256 ^ L) 256
    have db : b % (256 ^ L * 256) / 256 ^ L = b / 256 ^ L % 256 := Nat.mod_mul_right_div_self b (256 ^ L) 256
    have ra : a % (256 ^ L * 256) % 256 ^ L = a % 256 ^ L := Nat.mod_mul_right_mod a (256 ^ L) 256
    have rb : b % (256 ^ L * 256) % 256 ^ L = b % 256 ^ L := Nat.mod_mul_right_mod b (256 ^ L) 256
    have ea := Nat.div_add_mod (a % (256 ^ L * 256)) (256 ^ L)
    have eb := Nat.div_add_mod (b % (256 ^ L * 256)) (256 ^ L)
    rw [da, ra] at ea
    rw [db, rb] at eb
    have hra := Nat.mod_lt a hP
    have hrb := Nat.mod_lt b hP
    generalize a / 256 ^ L % 256 = A at *
    generalize b / 256 ^ L % 256 = B at *
    rcases Nat.lt_trichotomy A B with hlt | heq | hgt
    · exact blt_cons_lt hlt _ _
    · subst heq
      rw [blt_cons_same]
      apply ih
      omega
    · exfalso
      have : 256 ^ L * (B + 1) ≤ 256 ^ L * A := Nat.mul_le_mul_left _ hgt
      rw [Nat.mul_add, Nat.mul_one] at this
      omega

/-- **C16** `u64` elements -/
theorem encodeU64_strong : Strong encodeU64 (fun a b => a < b) := by
  intro a b hab x y
  unfold encodeU64
  simp only [List.cons_append]
  have hm := minLen_mono (Nat.le_of_lt hab)
  rcases Nat.lt_or_ge (minLen a) (minLen b) with h | h
  · exact blt_cons_lt (by omega) _ _
  · have heq : minLen a = minLen b := by omega
    rw [heq, blt_cons_same]
    apply bigEndian_strong
    have h1 := lt_pow_minLen a
    have h2 := lt_pow_minLen b
    rw [heq] at h1
    rw [Nat.mod_eq_of_lt h1, Nat.mod_eq_of_lt h2]
    exact hab

/-! ### signed integers -/

def I64 (v : Int) : Prop := -9223372036854775808 ≤ v ∧ v < 9223372036854775808

theorem minLen_le_8 {m : Nat} (h : m < 9223372036854775808) : minLen m ≤ 8 :=
  minLen_le_of_lt_pow 8 m (by omega)

/-- **C16** `i64` elements: negatives under tags `0x10..0x18` (longer magnitude = smaller tag),
    non-negatives under `0x19..0x21` -/
theorem encodeI64_strong : Strong encodeI64 (fun a b => a < b ∧ I64 a ∧ I64 b) := by
  intro a b ⟨hab, ⟨ha1, ha2⟩, ⟨hb1, hb2⟩⟩ x y
  unfold encodeI64
  by_cases hna : a < 0
  · rw [if_pos hna]
    have hla : minLen (-a - 1).toNat ≤ 8 := minLen_le_8 (by omega)
    by_cases hnb : b < 0
    · rw [if_pos hnb]
      have hlb : minLen (-b - 1).toNat ≤ 8 := minLen_le_8 (by omega)
      simp only [List.cons_append]
      have hmag : (-b - 1).toNat < (-a - 1).toNat := by omega
      have hm := minLen_mono (Nat.le_of_lt hmag)
      rcases Nat.lt_or_ge (minLen (-b - 1).toNat) (minLen (-a - 1).toNat) with h | h
      · exact blt_cons_lt (by unfold SIGNED_NEG_BASE; omega) _ _
      · have heq : minLen (-a - 1).toNat = minLen (-b - 1).toNat := by omega
        rw [heq, blt_cons_same]
        apply bigEndian_strong
        have h1 := lt_pow_minLen (-a - 1).toNat
        have h2 := lt_pow_minLen (-b - 1).toNat
        rw [heq] at h1
        have e1 : (256 ^ minLen (-b - 1).toNat - 1 - (-a - 1).toNat) % 256 ^ minLen (-b - 1).toNat
            = 256 ^ minLen (-b - 1).toNat - 1 - (-a - 1).toNat := Nat.mod_eq_of_lt (by omega)
        have e2 : (256 ^ minLen (-b - 1).toNat - 1 - (-b - 1).toNat) % 256 ^ minLen (-b - 1).toNat
            = 256 ^ minLen (-b - 1).toNat - 1 - (-b - 1).toNat := Nat.mod_eq_of_lt (by omega)
        rw [e1, e2]
        omega
    · rw [if_neg hnb]
      simp only [List.cons_append]
      exact blt_cons_lt (by unfold SIGNED_NEG_BASE SIGNED_NONNEG_BASE; omega) _ _
  · rw [if_neg hna]
    have hnb : ¬ b < 0 := by omega
    rw [if_neg hnb]
    simp only [List.cons_append]
    have hlt : a.toNat < b.toNat := by omega
    have hm := minLen_mono (Nat.le_of_lt hlt)
    rcases Nat.lt_or_ge (minLen a.toNat) (minLen b.toNat) with h | h
    · exact blt_cons_lt (by omega) _ _
    · have heq : minLen a.toNat = minLen b.toNat := by omega
      rw [heq, blt_cons_same]
      apply bigEndian_strong
      have h1 := lt_pow_minLen a.toNat
      have h2 := lt_pow_minLen b.toNat
      rw [heq] at h1
      rw [Nat.mod_eq_of_lt h1, Nat.mod_eq_of_lt h2]
      exact hlt

/-! ### byte strings -/

/-- lexicographic order on the source strings -/
def slt : List Nat → List Nat → Prop
  | [], [] => False
  | [], _ :: _ => True
  | _ :: _, [] => False
  | a :: as, b :: bs => a < b ∨ (a = b ∧ slt as bs)

theorem encodeBytes_head (b : Nat) (bs : List Nat) : ∃ t, encodeBytes (b :: bs) = b :: t := by
  unfold encodeBytes
  by_cases h : b = 0
  · subst h; exact ⟨0xff :: encodeBytes bs, by simp⟩
  · exact ⟨encodeBytes bs, by simp [h]⟩

/-- **C16** byte-string elements: escaping `00` as `00 ff` and terminating with `00 00` keeps the
    order, and a string sorts before each of its extensions -/
theorem encodeBytes_strong : Strong encodeBytes slt := by
  intro a
  induction a with
  | nil =>
    intro b hab x y
    cases b with
    | nil => exact absurd hab (by simp [slt])
    | cons b0 bs =>
      -- terminator `00 00` against the first byte of the longer string
      by_cases h0 : b0 = 0
      · subst h0
        simp [encodeBytes, blt]
      · have hpos : 0 < b0 := by omega
        simp only [encodeBytes, h0, if_false, List.cons_append]
        exact blt_cons_lt hpos _ _
  | cons a0 as ih =>
    intro b hab x y
    cases b with
    | nil => exact absurd hab (by simp [slt])
    | cons b0 bs =>
      simp only [slt] at hab
      rcases hab with hlt | ⟨heq, hrest⟩
      · -- first bytes differ
        obtain ⟨ta, hta⟩ := encodeBytes_head a0 as
        obtain ⟨tb, htb⟩ := encodeBytes_head b0 bs
        rw [hta, htb]
        exact blt_cons_lt hlt _ _
      · subst heq
        by_cases h0 : a0 = 0
        · subst h0
          simp only [encodeBytes, if_true, List.cons_append, blt_cons_same]
          exact ih bs hrest x y
        · simp only [encodeBytes, h0, if_false, List.cons_append, blt_cons_same]
          exact ih bs hrest x y

/-- **C16** byte strings decode back, handing over exactly what follows -/
theorem decodeBytes_encode :
    ∀ (s rest : List Nat) (fuel : Nat), (encodeBytes s).length ≤ fuel →
      decodeBytes fuel (encodeBytes s ++ rest) = some (s, rest) := by
  intro s
  induction s with
  | nil =>
    intro rest fuel hf
    cases fuel with
    | zero => simp [encodeBytes] at hf
    | succ f => simp [encodeBytes, decodeBytes]
  | cons b bs ih =>
    intro rest fuel hf
    cases fuel with
    | zero => simp [encodeBytes] at hf; split at hf <;> simp at hf
    | succ f =>
      by_cases h0 : b = 0
      · subst h0
        simp only [encodeBytes, if_true, List.cons_append, List.length_cons] at hf ⊢
        simp only [decodeBytes, if_true]
        rw [ih rest f (by omega)]
        rfl
      · simp only [encodeBytes, h0, if_false, List.cons_append, List.length_cons] at hf ⊢
        simp only [decodeBytes, h0, if_false]
        rw [ih rest f (by omega)]
        rfl

end Blue.TupleKey2

#print axioms Blue.TupleKey2.encodeU64_strong
#print axioms Blue.TupleKey2.encodeI64_strong
#print axioms Blue.TupleKey2.encodeBytes_strong
#print axioms Blue.TupleKey2.strong_pair
