import Blue.Proofs.Ledger
/-! **C04** at recovery: `KeyValueStore::recover` (lsmtk/src/kvs/mod.rs) turns every write-ahead log
    it finds, in ascending order, into an SST and — unless the manifest lists that SST already —
    appends one ingest record to the manifest (`recover_one`): `I` = the output the manifest records
    AT THAT MOMENT (`mani.info('O')`, read inside `recover_one`), `D = 0 − file`, `O = I − D`.

    With several logs to recover in one open (a process death between the memtable thread's log
    rotation and the manifest edit of that flush, a client write already in the fresh log) the
    records chain: each starts from the output of the one before (`recover_chains`), and the last
    output is the old output plus the recovered files (`recover_output`).  The same loop with the
    output read ONCE before it (`recoverRecsHoisted`) writes a second record that starts from the
    output from before the first: the chain breaks as soon as the first file is not the zero
    setsum (`hoisted_recovery_rejected`). -/
namespace Blue.Books

variable {G : Type} [DecidableEq G] (g : Grp G) {F : Type} [DecidableEq F] (s : F → G)

/-- the record `recover_one` writes for a log whose SST is `f`, the manifest's output being `o` -/
def recoverRec (o : G) (f : F) : Rec G F :=
  ⟨o, g.sub o (g.sub g.zero (s f)), g.sub g.zero (s f), [], [f]⟩

/-- `KeyValueStore::recover`: the logs' SSTs in ascending log order; `listed` and `o` are what the
    manifest lists and records as output when a log's turn comes -/
def recoverRecs : List F → G → List F → List (Rec G F)
  | _, _, [] => []
  | listed, o, f :: fs =>
    if f ∈ listed then recoverRecs listed o fs
    else recoverRec g s o f :: recoverRecs (listed ++ [f]) (recoverRec g s o f).O fs

/-- the files a recovery adds -/
def recovered : List F → List F → List F
  | _, [] => []
  | listed, f :: fs => if f ∈ listed then recovered listed fs else f :: recovered (listed ++ [f]) fs

/-- the output the manifest records after these records (`o` when there is none) -/
def lastO (o : G) : List (Rec G F) → G
  | [] => o
  | r :: rs => lastO r.O rs

/-- the same loop with the manifest's output parsed once, before it -/
def recoverRecsHoisted (o : G) : List F → List F → List (Rec G F)
  | _, [] => []
  | listed, f :: fs =>
    if f ∈ listed then recoverRecsHoisted o listed fs
    else recoverRec g s o f :: recoverRecsHoisted o (listed ++ [f]) fs

theorem sub_zero_neg (o x : G) : g.sub o (g.sub g.zero x) = g.add o x := by
  have hn : g.neg (g.neg x) = x := by
    have h1 := g.add_neg (g.neg x)
    calc g.neg (g.neg x) = g.add g.zero (g.neg (g.neg x)) := (zero_add g _).symm
      _ = g.add (g.add x (g.neg x)) (g.neg (g.neg x)) := by rw [g.add_neg x]
      _ = g.add x (g.add (g.neg x) (g.neg (g.neg x))) := g.add_assoc _ _ _
      _ = g.add x g.zero := by rw [h1]
      _ = x := g.add_zero x
  unfold Grp.sub
  rw [zero_add, hn]

/-- one recovery record passes the verifier's three checks from the output it was written at -/
theorem recoverRec_ok (o : G) (f : F) :
    (recoverRec g s o f).I = o
    ∧ (recoverRec g s o f).I = g.add (recoverRec g s o f).O (recoverRec g s o f).D
    ∧ (recoverRec g s o f).D = computedDiscard g s (recoverRec g s o f).rm (recoverRec g s o f).ad := by
  refine ⟨rfl, ?_, ?_⟩
  · exact (sub_add_cancel g o (g.sub g.zero (s f))).symm
  · show g.sub g.zero (s f) = g.sub (total g s ([] : List F)) (total g s [f])
    show g.sub g.zero (s f) = g.sub g.zero (g.add (s f) g.zero)
    rw [g.add_zero]

/-- **C04** `recover_chains`: the records one open writes for any number of logs pass the
    verifier's chain / balance / discard checks from the output the manifest held before -/
theorem recover_chains : ∀ (logs listed : List F) (o : G),
    verify g s o (recoverRecs g s listed o logs) = true
  | [], _, _ => rfl
  | f :: fs, listed, o => by
    unfold recoverRecs
    by_cases h : f ∈ listed
    · rw [if_pos h]; exact recover_chains fs listed o
    · rw [if_neg h]
      obtain ⟨h1, h2, h3⟩ := recoverRec_ok g s o f
      simp only [verify, Bool.and_eq_true, decide_eq_true_eq]
      exact ⟨⟨⟨h1, h2⟩, h3⟩, recover_chains fs (listed ++ [f]) _⟩

/-- **C04** `recover_output`: after the recovery the manifest records the old output plus the
    recovered files — with `o` the sum of the files listed before, the sum of the files listed now -/
theorem recover_output : ∀ (logs listed : List F) (o : G),
    lastO o (recoverRecs g s listed o logs) = g.add o (total g s (recovered listed logs))
  | [], _, o => by
    show o = g.add o g.zero
    rw [g.add_zero]
  | f :: fs, listed, o => by
    unfold recoverRecs recovered
    by_cases h : f ∈ listed
    · rw [if_pos h, if_pos h]; exact recover_output fs listed o
    · rw [if_neg h, if_neg h]
      show lastO (recoverRec g s o f).O (recoverRecs g s (listed ++ [f]) (recoverRec g s o f).O fs) = _
      rw [recover_output fs (listed ++ [f]) _, total_cons, ← g.add_assoc]
      show g.add (g.sub o (g.sub g.zero (s f))) _ = _
      rw [sub_zero_neg]

/-- a second record that does not start from the first one's output fails the chain check -/
theorem verify_second_chain (prev : G) (r1 r2 : Rec G F) (rest : List (Rec G F)) (h : ¬ (r2.I = r1.O)) :
    verify g s prev (r1 :: r2 :: rest) = false := by
  simp only [verify]
  rw [decide_eq_false h]
  simp

/-- **the reordered recovery** (`O` parsed once before the loop): two logs the manifest does not
    list, the first not the zero setsum — the second record starts from the output from BEFORE the
    first, and the verifier's chain check fails -/
theorem hoisted_recovery_rejected (o : G) (listed : List F) (f1 f2 : F) (rest : List F)
    (h1 : f1 ∉ listed) (h2 : f2 ∉ listed ++ [f1]) (hs : s f1 ≠ g.zero) :
    verify g s o (recoverRecsHoisted g s o listed (f1 :: f2 :: rest)) = false := by
  unfold recoverRecsHoisted
  rw [if_neg h1]
  unfold recoverRecsHoisted
  rw [if_neg h2]
  have hne : ¬ (o = g.sub o (g.sub g.zero (s f1))) := by
    intro h
    rw [sub_zero_neg] at h
    have h' : g.add o g.zero = g.add o (s f1) := by rw [g.add_zero]; exact h
    exact hs (add_left_cancel g h').symm
  exact verify_second_chain g s o _ _ _ hne

/-- non-vacuity of `hoisted_recovery_rejected`, and the contrast: over the integers, the store
    at output 0 with logs whose files sum to 5 and 7 — the recovery as it is chains and ends at 12,
    the reordered one is rejected -/
example : verify intGrp id 0 (recoverRecs intGrp id [] 0 [5, 7]) = true
    ∧ lastO 0 (recoverRecs intGrp id [] 0 [5, 7]) = 12
    ∧ verify intGrp id 0 (recoverRecsHoisted intGrp id 0 [] [5, 7]) = false := by decide

end Blue.Books
