import Blue.Proofs.RrrWordSpec
/-! The binomial table `K` of `rrr.rs` as the model builds it (`kTab = rowsAux 64 [1]`): its rows are
    the rows of Pascal's triangle, so `kAt` obeys Pascal's rule, `K[n][0] = 1`, entries inside the
    triangle are positive and `K.get(n)?.get(k)?` is defined exactly for `k ≤ n ≤ 63`. -/
namespace Blue.Rrr

/-- row `n` of Pascal's triangle -/
def row : Nat → List Nat
  | 0 => [1]
  | n + 1 => nextRow (row n)

theorem row_zero : row 0 = [1] := rfl
theorem row_succ (n : Nat) : row (n + 1) = nextRow (row n) := rfl

theorem rowsAux_zero (r : List Nat) : rowsAux 0 r = [] := rfl
theorem rowsAux_succ (m : Nat) (r : List Nat) : rowsAux (m + 1) r = r :: rowsAux m (nextRow r) := rfl

theorem rowsAux_get : ∀ (m a i : Nat), i < m → (rowsAux m (row a))[i]? = some (row (a + i))
  | 0, _, _, h => by omega
  | m + 1, a, 0, _ => by rw [rowsAux_succ]; rfl
  | m + 1, a, i + 1, h => by
    rw [rowsAux_succ, List.getElem?_cons_succ, ← row_succ, rowsAux_get m (a + 1) i (by omega)]
    congr 2; omega

theorem kTab_get (n : Nat) (h : n ≤ 63) : kTab[n]? = some (row n) := by
  have := rowsAux_get 64 0 n (by omega)
  rw [Nat.zero_add] at this
  exact this

theorem kTab_get_none (n : Nat) (h : 63 < n) : kTab[n]? = none := by
  have : kTab.length = 64 := by decide
  exact List.getElem?_eq_none (by omega)

theorem nextRow_length (r : List Nat) : (nextRow r).length = r.length + 1 := by
  unfold nextRow
  rw [List.length_zipWith, List.length_cons, List.length_append]
  simp

theorem row_length : ∀ n, (row n).length = n + 1
  | 0 => rfl
  | n + 1 => by rw [row_succ, nextRow_length, row_length n]

theorem nextRow_get_zero (r : List Nat) (h : 0 < r.length) : (nextRow r)[0]?.getD 0 = r[0]?.getD 0 := by
  unfold nextRow
  cases r with
  | nil => simp at h
  | cons a t => simp

theorem nextRow_get_succ (r : List Nat) (k : Nat) :
    (nextRow r)[k + 1]?.getD 0 = r[k]?.getD 0 + r[k + 1]?.getD 0 := by
  unfold nextRow
  rw [List.getElem?_zipWith, List.getElem?_cons_succ]
  by_cases h1 : k + 1 < r.length
  · rw [List.getElem?_append_left h1, List.getElem?_eq_getElem h1, List.getElem?_eq_getElem (by omega : k < r.length)]
    rfl
  · by_cases h2 : k + 1 = r.length
    · rw [List.getElem?_append_right (by omega), List.getElem?_eq_getElem (by omega : k < r.length),
        List.getElem?_eq_none (by omega : r.length ≤ k + 1)]
      have : k + 1 - r.length = 0 := by omega
      rw [this]
      simp
    · rw [List.getElem?_eq_none (by omega : r.length ≤ k), List.getElem?_eq_none (by omega : r.length ≤ k + 1)]
      rfl

/-- `K.get(n)?.get(k)?` inside the table -/
theorem kGet_row (n k : Nat) (h : n ≤ 63) : kGet n k = (row n)[k]? := by
  unfold kGet
  rw [kTab_get n h]
  rfl

theorem kAt_row (n k : Nat) (h : n ≤ 63) : kAt n k = (row n)[k]?.getD 0 := by
  unfold kAt
  rw [kGet_row n k h]

/-- `K.get(n)?.get(k)?` is `Some(K[n][k])` for `k ≤ n ≤ 63` -/
theorem kGet_some (n k : Nat) (hn : n ≤ 63) (hk : k ≤ n) : kGet n k = some (kAt n k) := by
  rw [kAt_row n k hn, kGet_row n k hn]
  have : k < (row n).length := by rw [row_length]; omega
  rw [List.getElem?_eq_getElem this]
  rfl

/-- … and `None` outside -/
theorem kGet_none (n k : Nat) (h : 63 < n ∨ n < k) : kGet n k = none := by
  by_cases hn : n ≤ 63
  · rw [kGet_row n k hn]
    exact List.getElem?_eq_none (by rw [row_length]; omega)
  · unfold kGet
    rw [kTab_get_none n (by omega)]
    rfl

/-- Pascal's rule -/
theorem kAt_pascal (n k : Nat) (h : n + 1 ≤ 63) : kAt (n + 1) (k + 1) = kAt n k + kAt n (k + 1) := by
  rw [kAt_row (n + 1) _ h, kAt_row n _ (by omega), kAt_row n _ (by omega), row_succ, nextRow_get_succ]

theorem kAt_zero : ∀ (n : Nat), n ≤ 63 → kAt n 0 = 1
  | 0, _ => by rw [kAt_row 0 0 (by omega)]; rfl
  | n + 1, h => by
    have ih := kAt_zero n (by omega)
    rw [kAt_row n 0 (by omega)] at ih
    rw [kAt_row (n + 1) 0 h, row_succ, nextRow_get_zero _ (by rw [row_length]; omega), ih]

theorem kAt_pos : ∀ (n k : Nat), n ≤ 63 → k ≤ n → 1 ≤ kAt n k
  | n, 0, hn, _ => by rw [kAt_zero n hn]; omega
  | 0, k + 1, _, hk => by omega
  | n + 1, k + 1, hn, hk => by
    rw [kAt_pascal n k hn]
    have := kAt_pos n k (by omega) (by omega)
    omega

theorem kAt_mono (n k : Nat) (h : n + 1 ≤ 63) : kAt n k ≤ kAt (n + 1) k := by
  cases k with
  | zero => rw [kAt_zero n (by omega), kAt_zero (n + 1) h]; omega
  | succ k => rw [kAt_pascal n k h]; omega

/-- `C(64, c) ≤ 2^L[c] + c` for the classes that store an offset (`C(64,c) = K[63][c] + K[63][c-1]`) -/
theorem fits_tab : ((List.range 64).all fun c =>
    decide (1 ≤ c → c ≤ 62 → kAt 63 c + kAt 63 (c - 1) ≤ 2 ^ (lTab.getD c 0) + c)) = true := by
  decide +kernel

theorem fits_bound (c : Nat) (h1 : 1 ≤ c) (h2 : c ≤ 62) :
    kAt 63 c + kAt 63 (c - 1) ≤ 2 ^ (lTab.getD c 0) + c := by
  have := List.all_eq_true.mp fits_tab c (List.mem_range.mpr (by omega))
  exact of_decide_eq_true this h1 h2

end Blue.Rrr
