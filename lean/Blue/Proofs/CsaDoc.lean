import Blue.Model.CsaDoc
import Blue.Proofs.Csa
import Blue.Proofs.BitVecLaws
/-! `Sigma::sa_range_for` (model `sigmaRange`) establishes the `RangeOk` hypothesis of backward
    search, so `count` over a sorted suffix arrangement is the plain scan — for every needle of
    non-marker symbols, occurring or not (property C19). -/
namespace Blue.CsaDoc
open Blue.Csa Blue.BitVec

/-- the text as the index sees it: it ends in the end marker `0` -/
def Marked (T : List Nat) : Prop := T.getLast? = some 0

instance (T : List Nat) : Decidable (Marked T) := by unfold Marked; infer_instance

/-- in a non-decreasing list the entries equal to `c` are the block that starts after the entries
    below `c` -/
theorem sorted_block (c : Nat) : ∀ (h : List Nat), h.Pairwise (· ≤ ·) → ∀ (i : Nat) (hi : i < h.length),
    (h[i] = c ↔ (h.countP (fun x => decide (x < c)) ≤ i
      ∧ i < h.countP (fun x => decide (x < c)) + h.countP (fun x => x == c)))
  | [], _, i, hi => absurd hi (Nat.not_lt_zero i)
  | x :: t, hp, i, hi => by
    obtain ⟨hx, ht⟩ := List.pairwise_cons.mp hp
    have ih := sorted_block c t ht
    -- everything in the tail is at least `x`
    have hlow : c ≤ x → t.countP (fun y => decide (y < c)) = 0 := by
      intro hcx
      apply List.countP_eq_zero.mpr
      intro y hy
      have := hx y hy
      simp only [decide_eq_true_eq]
      omega
    have heq0 : c < x → t.countP (fun y => y == c) = 0 := by
      intro hcx
      apply List.countP_eq_zero.mpr
      intro y hy
      have := hx y hy
      simp only [beq_iff_eq]
      omega
    rcases Nat.lt_trichotomy x c with hlt | heq | hgt
    · -- `x` is below `c`: it is counted on the left and shifts the block by one
      have h1 : (x :: t).countP (fun y => decide (y < c)) = t.countP (fun y => decide (y < c)) + 1 := by
        rw [List.countP_cons_of_pos]; simpa using hlt
      have h2 : (x :: t).countP (fun y => y == c) = t.countP (fun y => y == c) := by
        rw [List.countP_cons_of_neg]; simp only [beq_iff_eq]; omega
      rw [h1, h2]
      cases i with
      | zero => simp only [List.getElem_cons_zero]; constructor <;> intro h <;> omega
      | succ j =>
        simp only [List.getElem_cons_succ]
        rw [ih j (by simpa using hi)]
        constructor <;> intro h <;> omega
    · -- `x = c`: nothing below `c` anywhere, `x` opens the block
      have h1 : (x :: t).countP (fun y => decide (y < c)) = 0 := by
        rw [List.countP_cons_of_neg, hlow (by omega)]; simp only [decide_eq_true_eq]; omega
      have h2 : (x :: t).countP (fun y => y == c) = t.countP (fun y => y == c) + 1 := by
        rw [List.countP_cons_of_pos]; simpa using heq
      rw [h1, h2]
      cases i with
      | zero => simp only [List.getElem_cons_zero]; constructor <;> intro h <;> omega
      | succ j =>
        simp only [List.getElem_cons_succ]
        rw [ih j (by simpa using hi), hlow (by omega)]
        constructor <;> intro h <;> omega
    · -- `x` is above `c`: `c` does not occur at all
      have h1 : (x :: t).countP (fun y => decide (y < c)) = 0 := by
        rw [List.countP_cons_of_neg, hlow (by omega)]; simp only [decide_eq_true_eq]; omega
      have h2 : (x :: t).countP (fun y => y == c) = 0 := by
        rw [List.countP_cons_of_neg, heq0 hgt]; simp only [beq_iff_eq]; omega
      rw [h1, h2]
      cases i with
      | zero => simp only [List.getElem_cons_zero]; constructor <;> intro h <;> omega
      | succ j =>
        simp only [List.getElem_cons_succ]
        have hj : j < t.length := by simpa using hi
        have := hx t[j] (List.getElem_mem hj)
        constructor <;> intro h <;> omega

/-- two disjoint predicates cannot count more than the list holds -/
theorem countP_lt_eq_le (c : Nat) : ∀ (h : List Nat),
    h.countP (fun x => decide (x < c)) + h.countP (fun x => x == c) ≤ h.length
  | [] => by simp
  | x :: t => by
    have := countP_lt_eq_le c t
    rcases Nat.lt_trichotomy x c with hlt | heq | hgt
    · rw [List.countP_cons_of_pos (by simpa using hlt), List.countP_cons_of_neg (by simp only [beq_iff_eq]; omega)]
      simp only [List.length_cons]; omega
    · rw [List.countP_cons_of_neg (by simp only [decide_eq_true_eq]; omega), List.countP_cons_of_pos (by simpa using heq)]
      simp only [List.length_cons]; omega
    · rw [List.countP_cons_of_neg (by simp only [decide_eq_true_eq]; omega), List.countP_cons_of_neg (by simp only [beq_iff_eq]; omega)]
      simp only [List.length_cons]; omega

theorem lexLt_head : ∀ (s t : List Nat), s ≠ [] → t ≠ [] → lexLt s t = true → s.headD 0 ≤ t.headD 0
  | [], _, h, _, _ => absurd rfl h
  | _ :: _, [], _, h, _ => absurd rfl h
  | a :: as, b :: bs, _, _, h => by
    simp only [lexLt, Bool.or_eq_true, Bool.and_eq_true, decide_eq_true_eq] at h
    simp only [List.headD_cons]
    omega

/-- in suffix-array order the first symbols are non-decreasing -/
theorem heads_sorted {l : List (List Nat)} (hs : Sorted l) : (l.map (fun s => s.headD 0)).Pairwise (· ≤ ·) := by
  rw [List.pairwise_map]
  exact hs.sorted.imp_of_mem (fun ha hb h => lexLt_head _ _ (hs.nonempty _ ha) (hs.nonempty _ hb) h)

theorem str_eq_getElem {l : List (List Nat)} {i : Nat} (h : i < l.length) : str l i = l[i] := by
  unfold str
  rw [List.getD_eq_getElem?_getD, List.getElem?_eq_getElem h]
  rfl

theorem head?_iff_headD {s : List Nat} (hs : s ≠ []) (c : Nat) : s.head? = some c ↔ s.headD 0 = c := by
  cases s with
  | nil => exact absurd rfl hs
  | cons a t => simp

/-- a suffix of a marked text that starts with a non-marker symbol is longer than one symbol -/
theorem long_of_head (T : List Nat) (hT : Marked T) {s : List Nat} (hs : s ∈ suffixes T) {c : Nat}
    (hc : c ≠ 0) (hh : s.head? = some c) : 2 ≤ s.length := by
  simp only [suffixes, List.mem_map, List.mem_range] at hs
  obtain ⟨k, hk, rfl⟩ := hs
  apply Nat.le_of_not_lt
  intro hlt
  have hlen : (T.drop k).length = T.length - k := List.length_drop
  have hlast : (T.drop k).getLast? = some 0 := by
    rw [List.getLast?_drop, if_neg (by omega)]
    exact hT
  cases hd : T.drop k with
  | nil => rw [hd] at hh; simp at hh
  | cons a t =>
    rw [hd] at hh hlast hlt
    simp only [List.length_cons] at hlt
    have : t = [] := List.eq_nil_of_length_eq_zero (by omega)
    subst this
    simp only [List.head?_cons, Option.some.injEq] at hh
    simp only [List.getLast?_singleton, Option.some.injEq] at hlast
    omega

/-- **C19** `Sigma::sa_range_for` delivers the `RangeOk` that backward search needs — for every
    symbol but the end marker, whether or not it occurs in the text -/
theorem sigmaRange_ok (T : List Nat) {l : List (List Nat)} (hT : Marked T) (hperm : l.Perm (suffixes T))
    (hsorted : l.Pairwise (fun a b => lexLt a b = true)) (c : Nat) (hc : c ≠ 0) :
    RangeOk l c (sigmaRange l c) := by
  have hs := sorted_of_suffixes T l hperm hsorted
  have hlen : l.length = T.length := by rw [hperm.length_eq]; simp [suffixes]
  have hTne : 0 < T.length := by
    cases T with
    | nil => simp [Marked] at hT
    | cons a t => simp
  have hblock := sorted_block c _ (heads_sorted hs)
  have hle := countP_lt_eq_le c (l.map (fun s => s.headD 0))
  simp only [List.countP_map, List.length_map] at hblock hle
  -- the two counts of the definition
  have e1 : (fun x => decide (x < c)) ∘ (fun s : List Nat => s.headD 0) = (fun s => decide (s.headD 0 < c)) := rfl
  have e2 : (fun x => x == c) ∘ (fun s : List Nat => s.headD 0) = (fun s => s.headD 0 == c) := rfl
  rw [e1, e2] at hblock hle
  -- membership of rank `i` in the block, in terms of `str`
  have hmem : ∀ i, i < l.length → ((str l i).head? = some c ↔
      (l.countP (fun s => decide (s.headD 0 < c)) ≤ i
        ∧ i < l.countP (fun s => decide (s.headD 0 < c)) + l.countP (fun s => s.headD 0 == c))) := by
    intro i hi
    rw [head?_iff_headD (hs.nonempty _ (str_mem hi)), str_eq_getElem hi, ← hblock i hi]
    simp
  unfold sigmaRange
  simp only
  by_cases h0 : l.countP (fun s => s.headD 0 == c) = 0
  · rw [if_pos h0]
    refine ⟨by simp only; omega, by simp, ?_, ?_⟩
    · intro i hi
      rw [hmem i hi, h0]
      simp only
      constructor <;> intro h <;> omega
    · intro i h1 h2
      simp only at h1 h2
      omega
  · rw [if_neg h0]
    refine ⟨by simp only; omega, by simp only; omega, ?_, ?_⟩
    · intro i hi
      rw [hmem i hi]
      simp only
      constructor <;> intro h <;> omega
    · intro i h1 h2
      simp only at h1 h2
      have hi : i < l.length := by omega
      have hh : (str l i).head? = some c := (hmem i hi).mpr (by omega)
      exact long_of_head T hT (hperm.mem_iff.mp (str_mem hi)) hc hh

/-- **C19** the document's `count` is the plain scan's, with no hypothesis left but the suffix order -/
theorem count_is_scan (T : List Nat) {l : List (List Nat)} (hT : Marked T) (hperm : l.Perm (suffixes T))
    (hsorted : l.Pairwise (fun a b => lexLt a b = true)) (needle : List Nat) (hne : needle ≠ [])
    (hpos : ∀ c ∈ needle, c ≠ 0) :
    Blue.CsaDoc.count l needle
      = ((List.range T.length).filter (fun k => needle.isPrefixOf (T.drop k))).length :=
  count_occurrences T hperm hsorted (sigmaRange l) needle hne
    (fun c hc => sigmaRange_ok T hT hperm hsorted c (hpos c hc))

/-! ### `retrieve`: the inverse suffix array and the ψ walk read the text off the index -/

theorem mem_suffixes {T s : List Nat} : s ∈ suffixes T ↔ ∃ k, k < T.length ∧ s = T.drop k := by
  simp only [suffixes, List.mem_map, List.mem_range]
  constructor
  · rintro ⟨k, hk, rfl⟩; exact ⟨k, hk, rfl⟩
  · rintro ⟨k, hk, rfl⟩; exact ⟨k, hk, rfl⟩

/-- `isa[pos]` is the rank of the suffix that starts at `pos` -/
theorem str_isa (T : List Nat) {l : List (List Nat)} (hperm : l.Perm (suffixes T)) (pos : Nat)
    (hpos : pos < T.length) : isa l pos < l.length ∧ str l (isa l pos) = T.drop pos := by
  have hlen : l.length = T.length := by rw [hperm.length_eq]; simp [suffixes]
  have hmem : T.drop pos ∈ l := hperm.mem_iff.mpr (mem_suffixes.mpr ⟨pos, hpos, rfl⟩)
  have hex : ∃ s ∈ l, (s.length + pos == l.length) = true := by
    refine ⟨T.drop pos, hmem, ?_⟩
    rw [List.length_drop, hlen]
    simp only [beq_iff_eq]
    omega
  have hlt : isa l pos < l.length := by
    unfold isa
    exact List.findIdx_lt_length_of_exists hex
  refine ⟨hlt, ?_⟩
  have hsat : ((l[isa l pos]).length + pos == l.length) = true := by
    unfold isa
    exact List.findIdx_getElem (w := by unfold isa at hlt; exact hlt)
  rw [str_eq_getElem hlt]
  obtain ⟨k, hk, hk'⟩ := mem_suffixes.mp (hperm.mem_iff.mp (List.getElem_mem hlt))
  rw [hk'] at hsat ⊢
  rw [List.length_drop, hlen] at hsat
  simp only [beq_iff_eq] at hsat
  have : k = pos := by omega
  rw [this]

/-- the loop of `retrieve` reads the text off the index: starting at the rank of the suffix at
    `p`, `k` steps of "first symbol, then ψ" yield the `k` symbols of the text from `p` on — as long
    as the walk stays before the end marker -/
theorem walk_spec (T : List Nat) {l : List (List Nat)} (hperm : l.Perm (suffixes T))
    (hsorted : l.Pairwise (fun a b => lexLt a b = true)) :
    ∀ (k p idx : Nat), p + k < T.length → idx < l.length → str l idx = T.drop p →
      walk l k idx = (T.drop p).take k
  | 0, _, _, _, _, _ => by simp [walk]
  | k + 1, p, idx, hpk, hidx, hstr => by
    have hs := sorted_of_suffixes T l hperm hsorted
    have hlong : 2 ≤ (str l idx).length := by rw [hstr, List.length_drop]; omega
    have hmem := hs.tails (str l idx) (str_mem hidx) hlong
    have hnext : str l (psi l idx) = T.drop (p + 1) := by
      unfold psi
      rw [str_idxOf hmem, hstr, List.tail_drop]
    have hnlt : psi l idx < l.length := by
      unfold psi
      exact List.idxOf_lt_length_iff.mpr hmem
    have ih := walk_spec T hperm hsorted k (p + 1) (psi l idx) (by omega) hnlt hnext
    unfold walk
    rw [ih, hstr]
    have hp : p < T.length := by omega
    rw [List.drop_eq_getElem_cons hp]
    rfl

/-- **C19** `retrieve` reproduces the record: with `start = select(r)` and
    `limit = select(r + 1)` (or the length of the text), it returns the text from `start` to
    `limit` -/
theorem retrieve_spec (T : List Nat) {l : List (List Nat)} (hperm : l.Perm (suffixes T))
    (hsorted : l.Pairwise (fun a b => lexLt a b = true)) (bits : List Bool) (r start : Nat)
    (hstart : Blue.BitVec.select bits r = some start)
    (hlim : (Blue.BitVec.select bits (r + 1)).getD bits.length < T.length)
    (hle : start ≤ (Blue.BitVec.select bits (r + 1)).getD bits.length) :
    retrieve l bits r
      = some ((T.drop start).take ((Blue.BitVec.select bits (r + 1)).getD bits.length - start)) := by
  unfold retrieve
  rw [hstart]
  simp only
  rw [if_neg (by omega)]
  obtain ⟨h1, h2⟩ := str_isa T hperm start (by omega)
  rw [walk_spec T hperm hsorted _ start (isa l start) (by omega) h1 h2]


/-! ### record boundaries: `lookup`, `records`, `offset_of` over the boundary bit vector -/

theorem countP_le_succ (tl : List Nat) (m : Nat) :
    tl.countP (fun b => decide (b ≤ m + 1)) = tl.countP (fun b => decide (b ≤ m)) + tl.count (m + 1) := by
  induction tl with
  | nil => simp
  | cons b t ih =>
    rw [List.countP_cons, List.countP_cons, List.count_cons, ih]
    by_cases h1 : b ≤ m
    · have : b ≠ m + 1 := by omega
      simp [h1, this, show b ≤ m + 1 by omega]
      omega
    · by_cases h2 : b = m + 1
      · subst h2
        simp [show ¬ (m + 1 ≤ m) by omega]
        omega
      · simp [h1, h2, show ¬ b ≤ m + 1 by omega]

theorem count_le_one_of_increasing : ∀ (rb : List Nat), increasing rb = true → ∀ x, rb.count x ≤ 1 ∧ (∀ y ∈ rb, rb.head?.getD 0 ≤ y)
  | [], _, x => by simp
  | [a], _, x => by
    constructor
    · rw [List.count_cons]; simp; split <;> omega
    · intro y hy; simp at hy; subst hy; simp
  | a :: b :: t, h, x => by
    simp only [increasing, Bool.and_eq_true, decide_eq_true_eq] at h
    obtain ⟨ih1, ih2⟩ := count_le_one_of_increasing (b :: t) h.2 x
    simp only [List.head?_cons, Option.getD_some] at ih2 ⊢
    constructor
    · rw [List.count_cons]
      by_cases hax : a = x
      · subst hax
        have : (b :: t).count a = 0 := by
          apply List.count_eq_zero.mpr
          intro hmem
          have := ih2 a hmem
          omega
        simp [this]
      · simp [hax]; exact ih1
    · intro y hy
      rcases List.mem_cons.mp hy with rfl | hy
      · omega
      · have := ih2 y hy; omega

/-- the ones of the boundary bit vector before `off` are the boundaries (but the first) up to `off` -/
theorem rank_boundaryBits (n : Nat) (rb : List Nat) (hinc : increasing rb = true) (h0 : rb.head? = some 0) :
    ∀ off, off ≤ n → rank (boundaryBits n rb) off = some (rb.tail.countP (fun b => decide (b ≤ off))) := by
  intro off hoff
  have hlen : (boundaryBits n rb).length = n := by simp [boundaryBits]
  rw [rank_some _ _ (by omega)]
  congr 1
  -- the tail is increasing, duplicate free and its entries are positive
  have htl : ∀ x, rb.tail.count x ≤ 1 ∧ ∀ y ∈ rb.tail, 1 ≤ y := by
    intro x
    cases rb with
    | nil => simp
    | cons a t =>
      simp only [List.head?_cons, Option.some.injEq] at h0
      subst h0
      cases t with
      | nil => simp
      | cons b t' =>
        simp only [increasing, Bool.and_eq_true, decide_eq_true_eq] at hinc
        obtain ⟨i1, i2⟩ := count_le_one_of_increasing (b :: t') hinc.2 x
        simp only [List.head?_cons, Option.getD_some, List.tail_cons] at i2 ⊢
        exact ⟨i1, fun y hy => by have := i2 y hy; omega⟩
  induction off with
  | zero =>
    simp only [List.take_zero, List.count_nil]
    symm
    apply List.countP_eq_zero.mpr
    intro y hy
    have := (htl 0).2 y hy
    simp only [decide_eq_true_eq]; omega
  | succ m ih =>
    have hm : m < n := by omega
    have hstep : ((boundaryBits n rb).take (m + 1)).count true
        = ((boundaryBits n rb).take m).count true + (if rb.tail.contains (m + 1) then 1 else 0) := by
      rw [List.take_add_one, List.count_append]
      congr 1
      have : (boundaryBits n rb)[m]? = some (rb.tail.contains (m + 1)) := by
        simp [boundaryBits, hm]
      rw [this]
      cases rb.tail.contains (m + 1) <;> simp
    rw [hstep, ih (by omega), countP_le_succ]
    congr 1
    have h1 := (htl (m + 1)).1
    by_cases hc : rb.tail.contains (m + 1) = true
    · rw [if_pos hc]
      have : 0 < rb.tail.count (m + 1) := List.count_pos_iff.mpr (by simpa using hc)
      omega
    · rw [if_neg hc]
      symm
      apply List.count_eq_zero.mpr
      simpa using hc

/-- **C19** offset → record: `lookup` is "the number of record boundaries at or before the offset,
    minus one" — the record a plain scan assigns -/
theorem lookup_spec (n : Nat) (rb : List Nat) (hadm : admissible n rb = true) (off : Nat) (hoff : off ≤ n) :
    lookup (boundaryBits n rb) off = some (rb.countP (fun b => decide (b ≤ off)) - 1) := by
  simp only [admissible, Bool.and_eq_true, beq_iff_eq, decide_eq_true_eq] at hadm
  obtain ⟨⟨⟨_, hinc⟩, h0⟩, _⟩ := hadm
  unfold lookup
  rw [rank_boundaryBits n rb hinc h0 off hoff]
  cases rb with
  | nil => simp at h0
  | cons a t =>
    simp only [List.head?_cons, Option.some.injEq] at h0
    subst h0
    simp

theorem le_last_of_increasing : ∀ (rb : List Nat), increasing rb = true → ∀ b ∈ rb, b ≤ rb.getLastD 0
  | [], _, b, hb => by simp at hb
  | [a], _, b, hb => by simp at hb; subst hb; simp
  | a :: c :: t, h, b, hb => by
    simp only [increasing, Bool.and_eq_true, decide_eq_true_eq] at h
    have ih := le_last_of_increasing (c :: t) h.2
    have hl : (a :: c :: t).getLastD 0 = (c :: t).getLastD 0 := by simp [List.getLastD]
    rw [hl]
    rcases List.mem_cons.mp hb with rfl | hb
    · have := ih c List.mem_cons_self; omega
    · exact ih b hb

/-- `records()` is the number of boundaries -/
theorem records_spec (n : Nat) (rb : List Nat) (hadm : admissible n rb = true) :
    records (boundaryBits n rb) = rb.length := by
  have hlen : (boundaryBits n rb).length = n := by simp [boundaryBits]
  have hl := lookup_spec n rb hadm n (Nat.le_refl _)
  simp only [admissible, Bool.and_eq_true, beq_iff_eq, decide_eq_true_eq] at hadm
  obtain ⟨⟨⟨hne, hinc⟩, h0⟩, hlast⟩ := hadm
  unfold records
  unfold lookup at hl
  rw [hlen, hl]
  simp only [Option.getD_some]
  -- every boundary is below `n`
  have hall : rb.countP (fun b => decide (b ≤ n)) = rb.length := by
    apply List.countP_eq_length.mpr
    intro b hb
    simp only [decide_eq_true_eq]
    have := le_last_of_increasing rb hinc b hb
    omega
  rw [hall]
  cases rb with
  | nil => simp at h0
  | cons a t => simp


/-- in a strictly increasing list, exactly the first `r + 1` entries are `≤` the `r`-th -/
theorem countP_le_getElem : ∀ (L : List Nat), increasing L = true → ∀ (r : Nat) (hr : r < L.length),
    L.countP (fun b => decide (b ≤ L[r])) = r + 1
      ∧ ∀ q, q < L[r] → L.countP (fun b => decide (b ≤ q)) ≤ r
  | [], _, r, hr => absurd hr (Nat.not_lt_zero r)
  | a :: t, h, r, hr => by
    -- everything in the tail is above `a`
    have habove : ∀ y ∈ t, a < y := by
      cases t with
      | nil => intro y hy; simp at hy
      | cons b t' =>
        simp only [increasing, Bool.and_eq_true, decide_eq_true_eq] at h
        intro y hy
        have := (count_le_one_of_increasing (b :: t') h.2 0).2 y hy
        simp only [List.head?_cons, Option.getD_some] at this
        omega
    have hinc_t : increasing t = true := by
      cases t with
      | nil => rfl
      | cons b t' => simp only [increasing, Bool.and_eq_true] at h; exact h.2
    have hzero : ∀ q, q ≤ a → t.countP (fun b => decide (b ≤ q)) = 0 := by
      intro q hq
      apply List.countP_eq_zero.mpr
      intro y hy
      have := habove y hy
      simp only [decide_eq_true_eq]; omega
    cases r with
    | zero =>
      simp only [List.getElem_cons_zero]
      constructor
      · rw [List.countP_cons_of_pos (by simp), hzero a (Nat.le_refl _)]
      · intro q hq
        rw [List.countP_cons_of_neg (by simp only [decide_eq_true_eq]; omega), hzero q (by omega)]
        omega
    | succ j =>
      have hj : j < t.length := by simpa using hr
      obtain ⟨ih1, ih2⟩ := countP_le_getElem t hinc_t j hj
      simp only [List.getElem_cons_succ]
      have := habove t[j] (List.getElem_mem hj)
      constructor
      · rw [List.countP_cons_of_pos (by simp only [decide_eq_true_eq]; omega), ih1]
      · intro q hq
        have := ih2 q hq
        rw [List.countP_cons]
        split <;> omega

/-- **C19** `offset_of(r)` is the `r`-th record boundary -/
theorem offsetOf_spec (n : Nat) (rb : List Nat) (hadm : admissible n rb = true) (r : Nat) (hr : r < rb.length) :
    offsetOf (boundaryBits n rb) r = some rb[r] := by
  have hadm' := hadm
  simp only [admissible, Bool.and_eq_true, beq_iff_eq, decide_eq_true_eq] at hadm'
  obtain ⟨⟨⟨_, hinc⟩, h0⟩, hlast⟩ := hadm'
  have hlen : (boundaryBits n rb).length = n := by simp [boundaryBits]
  have hle : rb[r] ≤ n := by
    have := le_last_of_increasing rb hinc rb[r] (List.getElem_mem hr)
    omega
  obtain ⟨c1, c2⟩ := countP_le_getElem rb hinc r hr
  -- rank in terms of the whole boundary list
  have hrank : ∀ off, off ≤ n → ((boundaryBits n rb).take off).count true = rb.countP (fun b => decide (b ≤ off)) - 1 := by
    intro off hoff
    have := lookup_spec n rb hadm off hoff
    unfold lookup at this
    rw [rank_some _ _ (by omega)] at this
    exact Option.some.inj this
  unfold offsetOf
  apply select_complete _ _ _ (by omega)
  · rw [hrank _ hle, c1]; rfl
  · intro q hq
    rw [hrank q (by omega)]
    have h1 := c2 q hq
    -- the first boundary (0) is always counted
    have hpos : 1 ≤ rb.countP (fun b => decide (b ≤ q)) := by
      cases rb with
      | nil => simp at h0
      | cons a t =>
        simp only [List.head?_cons, Option.some.injEq] at h0
        subst h0
        rw [List.countP_cons_of_pos (by simp)]
        omega
    cases r with
    | zero =>
      -- `rb[0] = 0`: nothing is below it
      exfalso
      cases rb with
      | nil => simp at h0
      | cons a t =>
        simp only [List.head?_cons, Option.some.injEq] at h0
        subst h0
        simp at hq
    | succ j => omega

/-- the boundary bit vector has one set bit per boundary but the first -/
theorem count_boundaryBits (n : Nat) (rb : List Nat) (hadm : admissible n rb = true) :
    (boundaryBits n rb).count true = rb.length - 1 := by
  have hlen : (boundaryBits n rb).length = n := by simp [boundaryBits]
  have := records_spec n rb hadm
  unfold records at this
  rw [rank_some _ _ (Nat.le_refl _), List.take_length] at this
  simp only [Option.getD_some] at this
  omega

/-- **C19** `retrieve(r)` reproduces record `r` symbol for symbol: the text from the `r`-th boundary
    up to the next one (or the end of the text) -/
theorem retrieve_record (T : List Nat) {l : List (List Nat)} (hperm : l.Perm (suffixes T))
    (hsorted : l.Pairwise (fun a b => lexLt a b = true)) (rb : List Nat)
    (hadm : admissible (T.length - 1) rb = true) (r : Nat) (hr : r < rb.length) :
    retrieve l (boundaryBits (T.length - 1) rb) r
      = some ((T.drop rb[r]).take (rb[r + 1]?.getD (T.length - 1) - rb[r])) := by
  have hadm' := hadm
  simp only [admissible, Bool.and_eq_true, beq_iff_eq, decide_eq_true_eq] at hadm'
  obtain ⟨⟨⟨_, hinc⟩, h0⟩, hlast⟩ := hadm'
  have hlen : (boundaryBits (T.length - 1) rb).length = T.length - 1 := by simp [boundaryBits]
  have hstart := offsetOf_spec (T.length - 1) rb hadm r hr
  unfold offsetOf at hstart
  have hb : ∀ i (hi : i < rb.length), rb[i] < T.length - 1 := by
    intro i hi
    have := le_last_of_increasing rb hinc rb[i] (List.getElem_mem hi)
    omega
  -- the limit
  have hlim : (select (boundaryBits (T.length - 1) rb) (r + 1)).getD (boundaryBits (T.length - 1) rb).length
      = rb[r + 1]?.getD (T.length - 1) := by
    by_cases h1 : r + 1 < rb.length
    · have := offsetOf_spec (T.length - 1) rb hadm (r + 1) h1
      unfold offsetOf at this
      rw [this, List.getElem?_eq_getElem h1]
      rfl
    · have hnone : select (boundaryBits (T.length - 1) rb) (r + 1) = none := by
        have := select_defined_iff (boundaryBits (T.length - 1) rb) (r + 1)
        rw [count_boundaryBits _ rb hadm] at this
        cases hsel : select (boundaryBits (T.length - 1) rb) (r + 1) with
        | none => rfl
        | some p =>
          rw [hsel] at this
          have := this.mp rfl
          omega
      rw [hnone, List.getElem?_eq_none (by omega), hlen]
  have hmono : rb[r] ≤ rb[r + 1]?.getD (T.length - 1) := by
    by_cases h1 : r + 1 < rb.length
    · rw [List.getElem?_eq_getElem h1]
      simp only [Option.getD_some]
      have := (countP_le_getElem rb hinc (r + 1) h1).2 rb[r]
      have c1 := (countP_le_getElem rb hinc r hr).1
      apply Nat.le_of_lt
      apply Nat.lt_of_not_le
      intro hge
      -- if rb[r+1] ≤ rb[r] then r + 2 entries are ≤ rb[r]
      have c2 := (countP_le_getElem rb hinc (r + 1) h1).1
      have : rb.countP (fun b => decide (b ≤ rb[r + 1])) ≤ rb.countP (fun b => decide (b ≤ rb[r])) := by
        apply List.countP_mono_left
        intro b _ hb'
        simp only [decide_eq_true_eq] at hb' ⊢
        omega
      omega
    · rw [List.getElem?_eq_none (by omega)]
      simp only [Option.getD_none]
      have := hb r hr
      omega
  have hlt : rb[r + 1]?.getD (T.length - 1) < T.length := by
    by_cases h1 : r + 1 < rb.length
    · rw [List.getElem?_eq_getElem h1]; simp only [Option.getD_some]; have := hb (r + 1) h1; omega
    · rw [List.getElem?_eq_none (by omega)]; simp only [Option.getD_none]; have := hb r hr; omega
  rw [retrieve_spec T hperm hsorted _ r rb[r] hstart (by rw [hlim]; exact hlt) (by rw [hlim]; exact hmono), hlim]


/-! ### `search`, and the statements on the original (unmarked) text -/

theorem mem_insertNat (x y : Nat) : ∀ (l : List Nat), y ∈ insertNat x l ↔ (y = x ∨ y ∈ l)
  | [] => by simp [insertNat]
  | z :: t => by
    unfold insertNat
    split
    · simp
    · rw [List.mem_cons, mem_insertNat x y t, List.mem_cons]
      constructor
      · rintro (h | h | h)
        · exact Or.inr (Or.inl h)
        · exact Or.inl h
        · exact Or.inr (Or.inr h)
      · rintro (h | h | h)
        · exact Or.inr (Or.inl h)
        · exact Or.inl h
        · exact Or.inr (Or.inr h)

theorem mem_sortNat (y : Nat) : ∀ (xs : List Nat), y ∈ xs.foldr insertNat [] ↔ y ∈ xs
  | [] => by simp
  | x :: t => by
    rw [List.foldr_cons, mem_insertNat, mem_sortNat y t, List.mem_cons]

theorem insertNat_sorted (x : Nat) : ∀ (l : List Nat), l.Pairwise (· ≤ ·) → (insertNat x l).Pairwise (· ≤ ·)
  | [], _ => by simp [insertNat]
  | z :: t, h => by
    obtain ⟨hz, ht⟩ := List.pairwise_cons.mp h
    unfold insertNat
    split
    · rename_i hxz
      refine List.pairwise_cons.mpr ⟨?_, h⟩
      intro a ha
      rcases List.mem_cons.mp ha with rfl | ha
      · exact hxz
      · exact Nat.le_trans hxz (hz a ha)
    · rename_i hxz
      refine List.pairwise_cons.mpr ⟨?_, insertNat_sorted x t ht⟩
      intro a ha
      rcases (mem_insertNat x a t).mp ha with rfl | ha
      · omega
      · exact hz a ha

theorem sortNat_sorted : ∀ (xs : List Nat), (xs.foldr insertNat []).Pairwise (· ≤ ·)
  | [] => by simp
  | x :: t => by rw [List.foldr_cons]; exact insertNat_sorted x _ (sortNat_sorted t)

/-- `search` reports its positions in ascending order (the code sorts them) -/
theorem search_sorted (l : List (List Nat)) (needle : List Nat) : (search l needle).Pairwise (· ≤ ·) :=
  sortNat_sorted _

/-- the upper end of the range of backward search never exceeds the number of suffixes -/
theorem backwardSearch_snd_le {l : List (List Nat)} (rangeFor : Nat → Nat × Nat) (needle : List Nat)
    (hne : needle ≠ []) (hr : ∀ c ∈ needle, RangeOk l c (rangeFor c)) :
    (backwardSearch l rangeFor needle).2 ≤ l.length := by
  cases needle with
  | nil => exact absurd rfl hne
  | cons c w =>
    have hc := hr c List.mem_cons_self
    cases w with
    | nil => simp only [backwardSearch]; have := hc.lt; omega
    | cons c' w' =>
      simp only [backwardSearch, constrain, countLt]
      have : ((List.range ((rangeFor c).2 + 1 - (rangeFor c).1)).filter
          (fun d => decide (psi l ((rangeFor c).1 + d) < (backwardSearch l rangeFor (c' :: w')).2))).length
          ≤ (rangeFor c).2 + 1 - (rangeFor c).1 := by
        have := List.length_filter_le (fun d => decide (psi l ((rangeFor c).1 + d)
          < (backwardSearch l rangeFor (c' :: w')).2)) (List.range ((rangeFor c).2 + 1 - (rangeFor c).1))
        simpa using this
      have h2 := hc.lt
      have h3 := hc.wf
      omega

/-- **C19** `search` finds exactly the occurrence positions (as a set; `search_sorted` orders them) -/
theorem mem_search (T : List Nat) {l : List (List Nat)} (hT : Marked T) (hperm : l.Perm (suffixes T))
    (hsorted : l.Pairwise (fun a b => lexLt a b = true)) (needle : List Nat) (hne : needle ≠ [])
    (hpos : ∀ c ∈ needle, c ≠ 0) (k : Nat) :
    k ∈ search l needle ↔ (k < T.length ∧ needle <+: T.drop k) := by
  have hr : ∀ c ∈ needle, RangeOk l c (sigmaRange l c) :=
    fun c hc => sigmaRange_ok T hT hperm hsorted c (hpos c hc)
  have hlen : l.length = T.length := by rw [hperm.length_eq]; simp [suffixes]
  have hle := backwardSearch_snd_le (sigmaRange l) needle hne hr
  rw [search_positions T hperm hsorted (sigmaRange l) needle hne hr k]
  unfold search
  simp only
  rw [mem_sortNat, List.mem_map]
  constructor
  · rintro ⟨d, hd, rfl⟩
    rw [List.mem_range] at hd
    exact ⟨(backwardSearch l (sigmaRange l) needle).1 + d, Nat.le_add_right _ _, by omega, by omega, by rw [hlen]⟩
  · rintro ⟨i, h1, h2, _, rfl⟩
    refine ⟨i - (backwardSearch l (sigmaRange l) needle).1, List.mem_range.mpr (by omega), ?_⟩
    rw [hlen]
    congr 1
    omega


theorem withMarker_marked (text : List Nat) : Marked (withMarker text) := by
  simp [Marked, withMarker]

theorem isPrefixOf_marked : ∀ (p A : List Nat),
    (p.map (· + 1)).isPrefixOf (A.map (· + 1) ++ [0]) = p.isPrefixOf A
  | [], _ => by simp
  | x :: p, [] => by simp [List.isPrefixOf]
  | x :: p, a :: A => by
    simp only [List.map_cons, List.cons_append, List.isPrefixOf_cons_cons]
    rw [isPrefixOf_marked p A]
    simp

theorem drop_withMarker (text : List Nat) (k : Nat) (hk : k ≤ text.length) :
    (withMarker text).drop k = (text.drop k).map (· + 1) ++ [0] := by
  unfold withMarker
  rw [List.drop_append_of_le_length (by simpa using hk), List.map_drop]

/-- **C19** on the original text: `count` of the shifted needle over any sorted arrangement of the
    suffixes of the marked text is the number of positions of the text at which the needle occurs -/
theorem count_is_scan_text (text : List Nat) {l : List (List Nat)}
    (hperm : l.Perm (suffixes (withMarker text)))
    (hsorted : l.Pairwise (fun a b => lexLt a b = true)) (needle : List Nat) (hne : needle ≠ []) :
    Blue.CsaDoc.count l (needle.map (· + 1))
      = ((List.range text.length).filter (fun k => needle.isPrefixOf (text.drop k))).length := by
  rw [count_is_scan (withMarker text) (withMarker_marked text) hperm hsorted (needle.map (· + 1))
    (by simpa using hne) (by intro c hc; simp only [List.mem_map] at hc; obtain ⟨x, _, rfl⟩ := hc; omega)]
  have hlen : (withMarker text).length = text.length + 1 := by simp [withMarker]
  rw [hlen, List.range_succ, List.filter_append, List.length_append]
  have hlast : (List.filter (fun k => (needle.map (· + 1)).isPrefixOf ((withMarker text).drop k)) [text.length]) = [] := by
    rw [List.filter_cons, drop_withMarker text _ (Nat.le_refl _)]
    cases needle with
    | nil => exact absurd rfl hne
    | cons x p => simp [List.isPrefixOf]
  rw [hlast, List.length_nil, Nat.add_zero]
  congr 1
  apply List.filter_congr
  intro k hk
  rw [List.mem_range] at hk
  rw [drop_withMarker text k (by omega), isPrefixOf_marked]


/-- **C19** on the original text: `search` of the shifted needle finds exactly the positions of the
    text at which the needle occurs -/
theorem mem_search_text (text : List Nat) {l : List (List Nat)}
    (hperm : l.Perm (suffixes (withMarker text)))
    (hsorted : l.Pairwise (fun a b => lexLt a b = true)) (needle : List Nat) (hne : needle ≠ []) (k : Nat) :
    k ∈ search l (needle.map (· + 1)) ↔ (k < text.length ∧ needle <+: text.drop k) := by
  rw [mem_search (withMarker text) (withMarker_marked text) hperm hsorted (needle.map (· + 1))
    (by simpa using hne) (by intro c hc; simp only [List.mem_map] at hc; obtain ⟨x, _, rfl⟩ := hc; omega)]
  have hlen : (withMarker text).length = text.length + 1 := by simp [withMarker]
  rw [hlen, ← List.isPrefixOf_iff_prefix, ← List.isPrefixOf_iff_prefix]
  by_cases hk : k < text.length
  · rw [drop_withMarker text k (by omega), isPrefixOf_marked]
    constructor
    · rintro ⟨_, h⟩; exact ⟨hk, h⟩
    · rintro ⟨_, h⟩; exact ⟨by omega, h⟩
  · constructor
    · rintro ⟨h1, h2⟩
      exfalso
      have : k = text.length := by omega
      subst this
      rw [drop_withMarker text _ (Nat.le_refl _)] at h2
      cases needle with
      | nil => exact hne rfl
      | cons x p => simp [List.isPrefixOf] at h2
    · rintro ⟨h1, _⟩; exact absurd h1 hk

/-- the empty needle counts every position of the text -/
theorem count_empty (text : List Nat) {l : List (List Nat)} (hperm : l.Perm (suffixes (withMarker text))) :
    Blue.CsaDoc.count l [] = text.length := by
  have hlen : l.length = text.length + 1 := by rw [hperm.length_eq]; simp [suffixes, withMarker]
  simp [Blue.CsaDoc.count, Blue.Csa.count, backwardSearch, hlen]

end Blue.CsaDoc

#print axioms Blue.CsaDoc.sigmaRange_ok
#print axioms Blue.CsaDoc.count_is_scan
#print axioms Blue.CsaDoc.count_is_scan_text
#print axioms Blue.CsaDoc.mem_search
#print axioms Blue.CsaDoc.mem_search_text
#print axioms Blue.CsaDoc.search_sorted
#print axioms Blue.CsaDoc.count_empty
#print axioms Blue.CsaDoc.walk_spec
#print axioms Blue.CsaDoc.retrieve_spec
#print axioms Blue.CsaDoc.retrieve_record
#print axioms Blue.CsaDoc.lookup_spec
#print axioms Blue.CsaDoc.records_spec
#print axioms Blue.CsaDoc.offsetOf_spec
