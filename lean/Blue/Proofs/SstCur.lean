import Blue.Model.SstCur
import Blue.Proofs.ConcatMain
namespace Blue.Cursor
variable {E : Type}

/-- the two-level position as a position of the reference cursor over all entries -/
inductive SRel (L : List (List E)) : Nat → Option (Ref E) → Nat → Prop where
  | first : SRel L 0 none 0
  | last : SRel L L.length none (L.flatten.length + 1)
  | at (m q : Nat) (blk : List E) : L[m]? = some blk → 1 ≤ q → q ≤ blk.length →
      SRel L m (some ⟨blk, q⟩) (off L m + q)

theorem srel_kv {L : List (List E)} {m : Nat} {bc : Option (Ref E)} {p : Nat} (h : SRel L m bc p)
    (D : List E) : SstCur.kv ⟨L, D, m, bc⟩ = (Ref.mk L.flatten p).kv := by
  cases h with
  | first => simp [SstCur.kv, Ref.kv]
  | last => simp [SstCur.kv, Ref.kv]
  | «at» m q blk hb h1 h2 =>
    simp only [SstCur.kv, Option.bind_some, Ref.kv]
    rw [if_neg (by omega), if_neg (by omega)]
    have := flatten_get L m (q - 1) blk hb (by omega)
    have e : off L m + q - 1 = off L m + (q - 1) := by omega
    rw [e, this]

theorem kv_some_iff (xs : List E) (q : Nat) : (Ref.mk xs q).kv.isSome = true ↔ (1 ≤ q ∧ q ≤ xs.length) := by
  unfold Ref.kv
  by_cases h0 : q = 0
  · simp [h0]
  · simp only [h0, if_false]
    rw [Option.isSome_iff_ne_none, ne_eq, List.getElem?_eq_none_iff]
    omega

variable (L : List (List E)) (D : List E) (hne : ∀ blk ∈ L, blk ≠ [])
include hne

theorem blk_pos {m : Nat} {blk : List E} (h : L[m]? = some blk) : 1 ≤ blk.length := by
  have := hne blk (List.mem_of_getElem? h)
  exact List.length_pos_iff.mpr this

/-- from a block boundary, `next` enters block `m` at its first entry, or ends -/
theorem next_boundary (f m : Nat) :
    SstCur.next (f + 1) ⟨L, D, m, none⟩ =
      if m ≥ L.length then ⟨L, D, L.length, none⟩
      else ⟨L, D, m, some ⟨L.getD m [], 1⟩⟩ := by
  simp only [SstCur.next]
  by_cases hm : m ≥ L.length
  · rw [if_pos hm, if_pos hm]; rfl
  · rw [if_neg hm, if_neg hm]
    have hb : L[m]? = some (L.getD m []) := by
      rw [List.getD_eq_getElem?_getD, List.getElem?_eq_getElem (by omega)]; rfl
    have hpos := blk_pos L hne hb
    have hnext : (SstCur.loadBlock ⟨L, D, m, none⟩ m).first.next = ⟨L.getD m [], 1⟩ := by
      simp [SstCur.loadBlock, Ref.first, Ref.next]
    rw [hnext, if_pos ((kv_some_iff _ 1).mpr ⟨Nat.le_refl _, hpos⟩)]

theorem prev_boundary (f m : Nat) (hm : m ≤ L.length) :
    SstCur.prev (f + 1) ⟨L, D, m, none⟩ =
      if m = 0 then ⟨L, D, 0, none⟩
      else ⟨L, D, m - 1, some ⟨L.getD (m - 1) [], (L.getD (m - 1) []).length⟩⟩ := by
  simp only [SstCur.prev]
  by_cases h0 : m = 0
  · rw [if_pos h0, if_pos h0]; rfl
  · rw [if_neg h0, if_neg h0]
    have hb : L[m - 1]? = some (L.getD (m - 1) []) := by
      rw [List.getD_eq_getElem?_getD, List.getElem?_eq_getElem (by omega)]; rfl
    have hpos := blk_pos L hne hb
    have hprev : (SstCur.loadBlock ⟨L, D, m, none⟩ (m - 1)).last.prev
        = ⟨L.getD (m - 1) [], (L.getD (m - 1) []).length⟩ := by
      simp [SstCur.loadBlock, Ref.last, Ref.prev]
    rw [hprev, if_pos ((kv_some_iff _ _).mpr ⟨hpos, Nat.le_refl _⟩)]

omit hne in
theorem next_some (f m : Nat) (b : Ref E) :
    SstCur.next (f + 1) ⟨L, D, m, some b⟩ =
      if b.next.kv.isSome = true then ⟨L, D, m, some b.next⟩ else SstCur.next f ⟨L, D, m + 1, none⟩ := rfl

omit hne in
theorem prev_some (f m : Nat) (b : Ref E) :
    SstCur.prev (f + 1) ⟨L, D, m, some b⟩ =
      if b.prev.kv.isSome = true then ⟨L, D, m, some b.prev⟩ else SstCur.prev f ⟨L, D, m, none⟩ := rfl

theorem next_rel {m : Nat} {bc : Option (Ref E)} {p : Nat} (h : SRel L m bc p) :
    ∃ m' bc', SstCur.next (L.length + 2) ⟨L, D, m, bc⟩ = ⟨L, D, m', bc'⟩
      ∧ SRel L m' bc' (Ref.next ⟨L.flatten, p⟩).pos := by
  cases h with
  | first =>
    rw [next_boundary L D hne]
    have hp : (Ref.next ⟨L.flatten, 0⟩).pos = 1 := by simp [Ref.next]
    rw [hp]
    by_cases hm : 0 ≥ L.length
    · rw [if_pos hm]
      have hl : L = [] := List.length_eq_zero_iff.mp (by omega)
      subst hl
      exact ⟨_, _, rfl, SRel.last⟩
    · rw [if_neg hm]
      have hb : L[0]? = some (L.getD 0 []) := by
        rw [List.getD_eq_getElem?_getD, List.getElem?_eq_getElem (by omega)]; rfl
      refine ⟨_, _, rfl, ?_⟩
      have := SRel.at (L := L) 0 1 _ hb (Nat.le_refl _) (blk_pos L hne hb)
      rw [off_zero] at this
      simpa using this
  | last =>
    rw [next_boundary L D hne, if_pos (Nat.le_refl _)]
    have hp : (Ref.next ⟨L.flatten, L.flatten.length + 1⟩).pos = L.flatten.length + 1 := by
      unfold Ref.next; rw [if_neg (by dsimp only; omega)]
    rw [hp]
    exact ⟨_, _, rfl, SRel.last⟩
  | «at» m q blk hb h1 h2 =>
    have hle := off_add_le L m blk hb
    have hp : (Ref.next ⟨L.flatten, off L m + q⟩).pos = off L m + q + 1 := by
      unfold Ref.next; rw [if_pos (by dsimp only; omega)]
    rw [hp]
    have hm : m < L.length := (List.getElem?_eq_some_iff.mp hb).1
    rw [show L.length + 2 = (L.length + 1) + 1 from rfl, next_some]
    have hbn : (Ref.mk blk q).next = ⟨blk, q + 1⟩ := by unfold Ref.next; rw [if_pos h2]
    rw [hbn]
    by_cases hq : q < blk.length
    · rw [if_pos ((kv_some_iff _ _).mpr ⟨by omega, by omega⟩)]
      refine ⟨_, _, rfl, ?_⟩
      have := SRel.at (L := L) m (q + 1) blk hb (by omega) (by omega)
      rw [← Nat.add_assoc] at this; exact this
    · have hnone : ¬ ((Ref.mk blk (q + 1)).kv.isSome = true) := by
        rw [kv_some_iff]; omega
      rw [if_neg hnone]
      rw [next_boundary L D hne]
      by_cases hlast : m + 1 ≥ L.length
      · rw [if_pos hlast]
        refine ⟨_, _, rfl, ?_⟩
        have := off_last L m blk hb (by omega)
        have e : off L m + q + 1 = L.flatten.length + 1 := by omega
        rw [e]; exact SRel.last
      · rw [if_neg hlast]
        have hb' : L[m + 1]? = some (L.getD (m + 1) []) := by
          rw [List.getD_eq_getElem?_getD, List.getElem?_eq_getElem (by omega)]; rfl
        refine ⟨_, _, rfl, ?_⟩
        have := SRel.at (L := L) (m + 1) 1 _ hb' (Nat.le_refl _) (blk_pos L hne hb')
        rw [off_succ L m blk hb] at this
        have e : off L m + q + 1 = off L m + blk.length + 1 := by omega
        rw [e]; exact this

theorem prev_rel {m : Nat} {bc : Option (Ref E)} {p : Nat} (h : SRel L m bc p) :
    ∃ m' bc', SstCur.prev (L.length + 2) ⟨L, D, m, bc⟩ = ⟨L, D, m', bc'⟩
      ∧ SRel L m' bc' (Ref.prev ⟨L.flatten, p⟩).pos := by
  cases h with
  | first =>
    rw [prev_boundary L D hne _ _ (Nat.zero_le _), if_pos rfl]
    have hp : (Ref.prev ⟨L.flatten, 0⟩).pos = 0 := by simp [Ref.prev]
    rw [hp]
    exact ⟨_, _, rfl, SRel.first⟩
  | last =>
    rw [prev_boundary L D hne _ _ (Nat.le_refl _)]
    have hp : (Ref.prev ⟨L.flatten, L.flatten.length + 1⟩).pos = L.flatten.length := by
      unfold Ref.prev; rw [if_pos (by dsimp only; omega)]; rfl
    rw [hp]
    by_cases h0 : L.length = 0
    · rw [if_pos h0]
      have hl : L = [] := List.length_eq_zero_iff.mp h0
      subst hl
      exact ⟨_, _, rfl, SRel.first⟩
    · rw [if_neg h0]
      have hb : L[L.length - 1]? = some (L.getD (L.length - 1) []) := by
        rw [List.getD_eq_getElem?_getD, List.getElem?_eq_getElem (by omega)]; rfl
      refine ⟨_, _, rfl, ?_⟩
      have := SRel.at (L := L) (L.length - 1) _ _ hb (blk_pos L hne hb) (Nat.le_refl _)
      rw [off_last L (L.length - 1) _ hb (by omega)] at this
      exact this
  | «at» m q blk hb h1 h2 =>
    have hp : (Ref.prev ⟨L.flatten, off L m + q⟩).pos = off L m + q - 1 := by
      unfold Ref.prev; rw [if_pos (by dsimp only; omega)]
    rw [hp]
    have hm : m < L.length := (List.getElem?_eq_some_iff.mp hb).1
    rw [show L.length + 2 = (L.length + 1) + 1 from rfl, prev_some]
    have hbp : (Ref.mk blk q).prev = ⟨blk, q - 1⟩ := by unfold Ref.prev; rw [if_pos (by dsimp only; omega)]
    rw [hbp]
    by_cases hq : 1 < q
    · rw [if_pos ((kv_some_iff _ _).mpr ⟨by omega, by omega⟩)]
      refine ⟨_, _, rfl, ?_⟩
      have := SRel.at (L := L) m (q - 1) blk hb (by omega) (by omega)
      have e : off L m + q - 1 = off L m + (q - 1) := by omega
      rw [e]; exact this
    · have hnone : ¬ ((Ref.mk blk (q - 1)).kv.isSome = true) := by
        rw [kv_some_iff]; omega
      rw [if_neg hnone, prev_boundary L D hne _ _ (by omega)]
      have hq1 : q = 1 := by omega
      subst hq1
      by_cases h0 : m = 0
      · rw [if_pos h0]
        subst h0
        refine ⟨_, _, rfl, ?_⟩
        rw [off_zero]; exact SRel.first
      · rw [if_neg h0]
        have hb' : L[m - 1]? = some (L.getD (m - 1) []) := by
          rw [List.getD_eq_getElem?_getD, List.getElem?_eq_getElem (by omega)]; rfl
        refine ⟨_, _, rfl, ?_⟩
        have := SRel.at (L := L) (m - 1) _ _ hb' (blk_pos L hne hb') (Nat.le_refl _)
        have hs := off_succ L (m - 1) _ hb'
        have e : m - 1 + 1 = m := by omega
        rw [e] at hs
        have e2 : off L m + 1 - 1 = off L (m - 1) + (L.getD (m - 1) []).length := by omega
        rw [e2]; exact this

/-- what the index block promises about a seek predicate: one divider per block, at or after every
    entry of its block and before every entry of the next -/
structure DivOk (p : E → Bool) : Prop where
  len : D.length = L.length
  below : ∀ (i : Nat) (d : E) (blk : List E) (e : E), D[i]? = some d → L[i]? = some blk → e ∈ blk → p e = true → p d = true
  above : ∀ (i : Nat) (d : E) (blk : List E) (e : E), D[i]? = some d → p d = true → L[i + 1]? = some blk → e ∈ blk → p e = true

omit hne in
theorem takeWhile_spec (q : E → Bool) : ∀ (l : List E),
    (∀ i d, i < (l.takeWhile q).length → l[i]? = some d → q d = true)
    ∧ (∀ d, l[(l.takeWhile q).length]? = some d → q d = false)
  | [] => ⟨by intro i d hi; simp at hi, by intro d h; simp at h⟩
  | x :: xs => by
    obtain ⟨ih1, ih2⟩ := takeWhile_spec q xs
    simp only [List.takeWhile_cons]
    by_cases hx : q x = true
    · rw [if_pos hx]
      constructor
      · intro i d hi hd
        cases i with
        | zero => simp at hd; rw [← hd]; exact hx
        | succ i => simp at hi hd; exact ih1 i d (by omega) hd
      · intro d hd; simp at hd; exact ih2 d hd
    · rw [if_neg hx]
      constructor
      · intro i d hi; simp at hi
      · intro d hd; simp at hd; rw [← hd]; simpa using hx

omit hne in
theorem seek_eq (p : E → Bool) (c : SstCur E) (idx : Nat) (h : c.seekIndex p = idx) :
    SstCur.seek p c =
      if idx ≥ c.blocks.length then c.toLast
      else if ((c.loadBlock idx).seek p).kv.isSome = true then
        { c with metaIdx := idx, bc := some ((c.loadBlock idx).seek p) }
      else if idx + 1 ≥ c.blocks.length then c.toLast
      else { c with metaIdx := idx + 1, bc := some ((c.loadBlock (idx + 1)).seek p) } := by
  subst h; rfl

theorem seek_rel (p : E → Bool) (hd : DivOk L D p) (m : Nat) (bc : Option (Ref E)) (pos : Nat) :
    ∃ m' bc', SstCur.seek p ⟨L, D, m, bc⟩ = ⟨L, D, m', bc'⟩
      ∧ SRel L m' bc' (Ref.seek p ⟨L.flatten, pos⟩).pos := by
  obtain ⟨ts1, ts2⟩ := takeWhile_spec (fun d => !p d) D
  have hrs : (Ref.seek p ⟨L.flatten, pos⟩).pos = L.flatten.findIdx p + 1 := rfl
  rw [hrs]
  obtain ⟨idx, hidx⟩ : ∃ idx, (D.takeWhile (fun d => !p d)).length = idx := ⟨_, rfl⟩
  rw [hidx] at ts1 ts2
  rw [seek_eq p ⟨L, D, m, bc⟩ idx hidx]
  dsimp only [SstCur.toLast]
  have hidxle : idx ≤ D.length := by
    rw [← hidx]; exact (List.takeWhile_sublist _).length_le
  -- no entry of an earlier block satisfies the predicate
  have hpre : ∀ x ∈ (L.take idx).flatten, p x = false := by
    intro x hx
    obtain ⟨blk, hblk, hxb⟩ := List.mem_flatten.mp hx
    obtain ⟨i, hi⟩ := List.mem_iff_getElem?.mp hblk
    have hilt : i < idx := by
      have := (List.getElem?_eq_some_iff.mp hi).1
      rw [List.length_take] at this; omega
    rw [List.getElem?_take_of_lt hilt] at hi
    have hdi : ∃ d, D[i]? = some d := ⟨D[i]'(by omega), List.getElem?_eq_getElem (by omega)⟩
    obtain ⟨d, hdd⟩ := hdi
    have hq := ts1 i d hilt hdd
    cases hpx : p x with
    | false => rfl
    | true =>
      have := hd.below i d blk x hdd hi hxb hpx
      rw [this] at hq; cases hq
  have hsplit : L.flatten = (L.take idx).flatten ++ (L.drop idx).flatten := by
    rw [← List.flatten_append, List.take_append_drop]
  have hfpre : ((L.take idx).flatten).findIdx p = ((L.take idx).flatten).length :=
    List.findIdx_eq_length_of_false hpre
  have hoff : ((L.take idx).flatten).length = off L idx := rfl
  by_cases hge : idx ≥ L.length
  · rw [if_pos hge]
    refine ⟨_, _, rfl, ?_⟩
    have : L.flatten.findIdx p = L.flatten.length := by
      apply List.findIdx_eq_length_of_false
      rw [List.take_of_length_le hge] at hpre; exact hpre
    rw [this]; exact SRel.last
  · rw [if_neg hge]
    have hb : L[idx]? = some (L.getD idx []) := by
      rw [List.getD_eq_getElem?_getD, List.getElem?_eq_getElem (by omega)]; rfl
    generalize hblk : L.getD idx [] = blk at hb ⊢
    have hdrop : L.drop idx = blk :: L.drop (idx + 1) := by
      rw [List.drop_eq_getElem_cons (by omega)]
      congr 1
      have := List.getElem?_eq_getElem (l := L) (i := idx) (by omega)
      rw [this] at hb; exact Option.some.inj hb
    have hload : (SstCur.loadBlock ⟨L, D, m, bc⟩ idx).seek p = ⟨blk, blk.findIdx p + 1⟩ := by
      simp only [SstCur.loadBlock, Ref.seek, hblk]
    rw [hload]
    have hflat : L.flatten.findIdx p = off L idx + (blk ++ (L.drop (idx + 1)).flatten).findIdx p := by
      rw [hsplit, List.findIdx_append, hfpre, if_neg (Nat.lt_irrefl _), hdrop, List.flatten_cons, hoff]
      omega
    by_cases hfound : blk.findIdx p < blk.length
    · rw [if_pos ((kv_some_iff _ _).mpr ⟨by omega, by omega⟩)]
      refine ⟨_, _, rfl, ?_⟩
      rw [hflat, List.findIdx_append, if_pos hfound]
      have := SRel.at (L := L) idx (blk.findIdx p + 1) blk hb (by omega) (by omega)
      rw [← Nat.add_assoc] at this; exact this
    · have hnone : ¬ ((Ref.mk blk (blk.findIdx p + 1)).kv.isSome = true) := by
        rw [kv_some_iff]; omega
      rw [if_neg hnone]
      have hfl : blk.findIdx p = blk.length := by
        have := List.findIdx_le_length (p := p) (xs := blk); omega
      by_cases hlast : idx + 1 ≥ L.length
      · rw [if_pos hlast]
        refine ⟨_, _, rfl, ?_⟩
        rw [hflat, List.findIdx_append, if_neg hfound, List.drop_of_length_le hlast]
        simp only [List.flatten_nil, List.findIdx_nil, Nat.zero_add]
        rw [off_last L idx blk hb (by omega)]
        exact SRel.last
      · rw [if_neg hlast]
        have hb' : L[idx + 1]? = some (L.getD (idx + 1) []) := by
          rw [List.getD_eq_getElem?_getD, List.getElem?_eq_getElem (by omega)]; rfl
        generalize hblk' : L.getD (idx + 1) [] = blk' at hb' ⊢
        -- the divider of block `idx` satisfies the predicate, so the whole next block does
        have hdidx : ∃ d, D[idx]? = some d := ⟨D[idx]'(by have := hd.len; omega), List.getElem?_eq_getElem _⟩
        obtain ⟨d, hdd⟩ := hdidx
        have hpd : p d = true := by
          have := ts2 d hdd
          simpa using this
        have hall : ∀ e ∈ blk', p e = true := fun e he => hd.above idx d blk' e hdd hpd hb' he
        have hpos' := blk_pos L hne hb'
        have hf0 : blk'.findIdx p = 0 := by
          cases hbl : blk' with
          | nil => rw [hbl] at hpos'; simp at hpos'
          | cons x xs =>
            rw [List.findIdx_cons, hall x (by rw [hbl]; exact List.mem_cons_self)]; rfl
        have hload' : (SstCur.loadBlock ⟨L, D, m, bc⟩ (idx + 1)).seek p = ⟨blk', 1⟩ := by
          simp only [SstCur.loadBlock, Ref.seek, hblk', hf0]
        rw [hload']
        refine ⟨_, _, rfl, ?_⟩
        have hdrop' : L.drop (idx + 1) = blk' :: L.drop (idx + 2) := by
          rw [List.drop_eq_getElem_cons (by omega)]
          congr 1
          have := List.getElem?_eq_getElem (l := L) (i := idx + 1) (by omega)
          rw [this] at hb'; exact Option.some.inj hb'
        rw [hflat, List.findIdx_append, if_neg hfound, hdrop', List.flatten_cons, List.findIdx_append, hf0,
          if_pos (show 0 < blk'.length from hpos')]
        have := SRel.at (L := L) (idx + 1) 1 blk' hb' (Nat.le_refl _) hpos'
        rw [off_succ L idx blk hb] at this
        have e : off L idx + (0 + blk.length) + 1 = off L idx + blk.length + 1 := by omega
        rw [e]; exact this

theorem sst_step {m : Nat} {bc : Option (Ref E)} {p : Nat} (h : SRel L m bc p) (op : Op E)
    (hop : ∀ pred, op = Op.seek pred → DivOk L D pred) :
    ∃ m' bc', SstCur.step ⟨L, D, m, bc⟩ op = ⟨L, D, m', bc'⟩
      ∧ SRel L m' bc' ((Ref.mk L.flatten p).step op).pos
      ∧ ((Ref.mk L.flatten p).step op).xs = L.flatten := by
  cases op with
  | first => exact ⟨0, none, rfl, SRel.first, rfl⟩
  | last => exact ⟨L.length, none, rfl, SRel.last, rfl⟩
  | next =>
    obtain ⟨m', bc', h1, h2⟩ := next_rel L D hne h
    refine ⟨m', bc', h1, h2, ?_⟩
    simp only [Ref.step, Ref.next]; split <;> rfl
  | prev =>
    obtain ⟨m', bc', h1, h2⟩ := prev_rel L D hne h
    refine ⟨m', bc', h1, h2, ?_⟩
    simp only [Ref.step, Ref.prev]; split <;> rfl
  | seek pred =>
    obtain ⟨m', bc', h1, h2⟩ := seek_rel L D hne pred (hop pred rfl) m bc p
    exact ⟨m', bc', h1, h2, rfl⟩

/-- **C10** the table cursor: over non-empty blocks with an index whose dividers separate them, for
    every finite program of `seek_to_first / seek_to_last / seek / next / prev`, the two-level
    cursor shows exactly what a cursor over the concatenation of the blocks shows -/
theorem sst_cursor_refines : ∀ (ops : List (Op E)) (m : Nat) (bc : Option (Ref E)) (p : Nat),
    SRel L m bc p → (∀ pred, Op.seek pred ∈ ops → DivOk L D pred) →
    SstCur.run ⟨L, D, m, bc⟩ ops = Ref.run ⟨L.flatten, p⟩ ops := by
  intro ops
  induction ops with
  | nil => intros; rfl
  | cons op ops ih =>
    intro m bc p h hops
    obtain ⟨m', bc', h1, h2, h3⟩ := sst_step L D hne h op
      (fun pred hp => hops pred (by rw [hp]; exact List.mem_cons_self))
    simp only [SstCur.run, Ref.run]
    rw [h1]
    have e : (Ref.mk L.flatten p).step op = ⟨L.flatten, ((Ref.mk L.flatten p).step op).pos⟩ := by
      cases hh : (Ref.mk L.flatten p).step op with
      | mk a b => rw [hh] at h3; simp only at h3; subst h3; rfl
    rw [srel_kv h2 D, ← e]
    congr 1
    rw [e]
    exact ih m' bc' _ h2 (fun pred hp => hops pred (List.mem_cons_of_mem _ hp))

/-- non-vacuity: three blocks; `seek(≥ 3)` lands in the *next* block because block 0's divider
    (3) admits the target although none of its entries does -/
example :
    SstCur.run ⟨[[1, 2], [5], [7, 9]], [3, 6, 9], 0, none⟩
      [.seek (fun e => decide (3 ≤ e)), .prev, .prev, .prev, .next, .last, .prev]
      = [some 5, some 2, some 1, none, some 1, none, some 9] := by decide

end Blue.Cursor

#print axioms Blue.Cursor.sst_cursor_refines
