import Blue.Model.Verifier
import Blue.Proofs.Orphans
/-! The verifier model (`Blue.Verifier`): what every durable action of every pass needs in the
    directory it is applied to (`Legal`), the invariant that ties the names logged in `verify/` to a
    fragment whose check passed (`Justified`), and its preservation along every interleaving of
    pass prefixes (crash after any action, restart) and steps of the store that leave `verify/`
    alone (`Reach`). -/
namespace Blue.Verifier
open Blue.Mani

variable {A : Type}

theorem run_nil (d : Dir A) : run d [] = d := rfl
theorem run_cons (d : Dir A) (a : Act A) (as : List (Act A)) : run d (a :: as) = run (d.apply a) as := rfl
theorem run_append (d : Dir A) (a b : List (Act A)) : run d (a ++ b) = run (run d a) b := by
  unfold run; rw [List.foldl_append]

/-! ### no action touches `sst/` or `MANIFEST` -/

theorem apply_sst (d : Dir A) (a : Act A) : (d.apply a).sst = d.sst := by cases a <;> rfl
theorem apply_live (d : Dir A) (a : Act A) : (d.apply a).live = d.live := by cases a <;> rfl

theorem run_sst : ∀ (acts : List (Act A)) (d : Dir A), (run d acts).sst = d.sst
  | [], _ => rfl
  | a :: as, d => by rw [run_cons, run_sst as, apply_sst]
theorem run_live : ∀ (acts : List (Act A)) (d : Dir A), (run d acts).live = d.live
  | [], _ => rfl
  | a :: as, d => by rw [run_cons, run_live as, apply_live]

/-- fragments only ever disappear -/
theorem apply_frags_sublist (d : Dir A) (a : Act A) : (d.apply a).frags.Sublist d.frags := by
  cases a <;> first | exact List.Sublist.refl _ | exact List.filter_sublist
theorem run_frags_sublist : ∀ (acts : List (Act A)) (d : Dir A), (run d acts).frags.Sublist d.frags
  | [], _ => List.Sublist.refl _
  | a :: as, d => by rw [run_cons]; exact (run_frags_sublist as _).trans (apply_frags_sublist d a)

/-- nothing ever appears in `trash/` -/
theorem apply_trash_sublist (d : Dir A) (a : Act A) : (d.apply a).trash.Sublist d.trash := by
  cases a <;> first | exact List.Sublist.refl _ | exact List.filter_sublist
theorem run_trash_sublist : ∀ (acts : List (Act A)) (d : Dir A), (run d acts).trash.Sublist d.trash
  | [], _ => List.Sublist.refl _
  | a :: as, d => by rw [run_cons]; exact (run_trash_sublist as _).trans (apply_trash_sublist d a)

/-! ### the shape of `possibly_complete_processing` and `process_one` -/

/-- the actions of `possibly_complete_processing` when an intent for `m` is logged -/
def completeList (d : Dir A) (m n : Nat) : List (Act A) :=
  (if m = n ∧ d.frags.any (fun f => f.1 == n) then [Act.unlinkFrag n] else [])
    ++ (d.vstrs.filter (fun x => d.trash.contains x)).map Act.unlinkTrash ++ [Act.clear]

theorem completeActs_none (d : Dir A) (n : Nat) (h : d.vM = none) : completeActs d n = some [] := by
  unfold completeActs; rw [h]

theorem completeActs_some (d : Dir A) (m n : Nat) (h : d.vM = some m) :
    completeActs d n = if n < m then none else some (completeList d m n) := by
  unfold completeActs completeList; rw [h]

theorem completeActs_self (d : Dir A) (n : Nat) (h : d.vM = some n) :
    completeActs d n = some (completeList d n n) := by
  rw [completeActs_some d n n h, if_neg (Nat.lt_irrefl n)]

/-- how `process_one` can go -/
inductive Shape (C : Checker A) (d : Dir A) (n : Nat) (es : List Edit) : List (Act A) × Status → Prop
  /-- "clean up saw log out of order" -/
  | outOfOrder : completeActs d n = none → Shape C d n es ([], .corrupt)
  /-- the entry is the one whose intent is logged: complete it, done -/
  | resumed (a1) : completeActs d n = some a1 → d.vM = some n → Shape C d n es (a1, .ok)
  /-- complete whatever was pending, then the entry does not pass (or is not ready) -/
  | stopped (a1 st) : completeActs d n = some a1 → d.vM ≠ some n → st ≠ .ok →
      ((run d a1).vstrs ≠ [] ∨ ∀ o names, checkAll C (run d a1) es = some o → plan C.asWas (laterRm (run d a1) n) es = some names →
        ∃ x, x ∈ names ∧ x ∉ (run d a1).trash) → Shape C d n es (a1, st)
  /-- complete whatever was pending, check the entry, log the intent, complete it -/
  | processed (a1 o names) : completeActs d n = some a1 → d.vM ≠ some n → (run d a1).vstrs = [] →
      checkAll C (run d a1) es = some o → plan C.asWas (laterRm (run d a1) n) es = some names → (∀ x, x ∈ names → x ∈ (run d a1).trash) →
      Shape C d n es (a1 ++ Act.intent n es names o :: completeList ((run d a1).apply (Act.intent n es names o)) n n, .ok)

theorem find?_none_all {α : Type} (p : α → Bool) : ∀ (l : List α), l.find? p = none → ∀ x, x ∈ l → p x = false
  | [], _, _, hx => by cases hx
  | a :: t, h, x, hx => by
    rw [List.find?_cons] at h
    cases hp : p a with
    | true => rw [hp] at h; cases h
    | false =>
      rw [hp] at h
      rcases List.mem_cons.mp hx with rfl | hx
      · exact hp
      · exact find?_none_all p t h x hx

theorem processOne_shape (C : Checker A) (d : Dir A) (n : Nat) (es : List Edit) :
    Shape C d n es (processOne C d n es) := by
  unfold processOne
  cases h1 : completeActs d n with
  | none => exact Shape.outOfOrder h1
  | some a1 =>
    simp only
    by_cases hm : d.vM = some n
    · rw [if_pos hm]; exact Shape.resumed a1 h1 hm
    · rw [if_neg hm]
      by_cases hv : (run d a1).vstrs ≠ []
      · rw [if_pos hv]; exact Shape.stopped a1 _ h1 hm (by decide) (Or.inl hv)
      · rw [if_neg hv]
        have hv' : (run d a1).vstrs = [] := Classical.not_not.mp hv
        cases hc : checkAll C (run d a1) es with
        | none => exact Shape.stopped a1 _ h1 hm (by decide) (Or.inr (fun o names h _ => by rw [hc] at h; cases h))
        | some o =>
          cases hp : plan C.asWas (laterRm (run d a1) n) es with
          | none => exact Shape.stopped a1 _ h1 hm (by decide) (Or.inr (fun o names _ h => by rw [hp] at h; cases h))
          | some names =>
            simp only
            cases hf : names.find? (fun x => !(run d a1).trash.contains x) with
            | some x =>
              refine Shape.stopped a1 _ h1 hm (by intro h; cases h) (Or.inr ?_)
              intro o' names' _ hn'
              rw [hp] at hn'
              cases hn'
              refine ⟨x, List.mem_of_find?_eq_some hf, ?_⟩
              have := List.find?_some hf
              simp only [Bool.not_eq_true'] at this
              intro hx
              have hc' : (run d a1).trash.contains x = true := List.contains_iff_mem.mpr hx
              rw [hc'] at this; cases this
            | none =>
              simp only
              have hself := completeActs_self ((run d a1).apply (Act.intent n es names o)) n rfl
              rw [hself]
              refine Shape.processed a1 o names h1 hm hv' hc hp ?_
              intro x hx
              have := find?_none_all _ names hf x hx
              simp only [Bool.not_eq_false'] at this
              exact List.contains_iff_mem.mp this

/-! ### what every action needs -/

/-- what an action finds in the directory it is applied to -/
def Legal (C : Checker A) (d : Dir A) : Act A → Prop
  | .unlinkFrag n => d.vM = some n
  | .unlinkTrash x => x ∈ d.vstrs
  | .clear => True
  | .intent n es names o =>
    d.vstrs = [] ∧ checkAll C d es = some o ∧ plan C.asWas (laterRm d n) es = some names ∧ ∀ x, x ∈ names → x ∈ d.trash

def LegalRun (C : Checker A) : Dir A → List (Act A) → Prop
  | _, [] => True
  | d, a :: as => Legal C d a ∧ LegalRun C (d.apply a) as

theorem legalRun_append (C : Checker A) : ∀ (a b : List (Act A)) (d : Dir A),
    LegalRun C d a → LegalRun C (run d a) b → LegalRun C d (a ++ b)
  | [], _, _, _, hb => hb
  | x :: a, b, d, ha, hb => ⟨ha.1, legalRun_append C a b _ ha.2 hb⟩

theorem legalRun_take (C : Checker A) : ∀ (k : Nat) (a : List (Act A)) (d : Dir A),
    LegalRun C d a → LegalRun C d (a.take k)
  | 0, _, _, _ => trivial
  | _ + 1, [], _, _ => trivial
  | k + 1, x :: a, d, h => ⟨h.1, legalRun_take C k a _ h.2⟩

/-- unlinking logged names one after the other: the log itself does not change -/
theorem legalRun_unlinks (C : Checker A) : ∀ (xs : List Name) (d : Dir A), (∀ x, x ∈ xs → x ∈ d.vstrs) →
    LegalRun C d (xs.map Act.unlinkTrash) ∧ (run d (xs.map Act.unlinkTrash)).vstrs = d.vstrs
      ∧ (run d (xs.map Act.unlinkTrash)).vM = d.vM ∧ (run d (xs.map Act.unlinkTrash)).vO = d.vO
      ∧ (run d (xs.map Act.unlinkTrash)).done = d.done ∧ (run d (xs.map Act.unlinkTrash)).frags = d.frags
  | [], _, _ => ⟨trivial, rfl, rfl, rfl, rfl, rfl⟩
  | x :: xs, d, h => by
    have ih := legalRun_unlinks C xs (d.apply (Act.unlinkTrash x)) (fun y hy => h y (List.mem_cons_of_mem _ hy))
    exact ⟨⟨h x List.mem_cons_self, ih.1⟩, ih.2.1, ih.2.2.1, ih.2.2.2.1, ih.2.2.2.2.1, ih.2.2.2.2.2⟩

theorem legalRun_completeList (C : Checker A) (d : Dir A) (n : Nat) (h : d.vM = some n) :
    LegalRun C d (completeList d n n) := by
  unfold completeList
  have hx : ∀ x, x ∈ d.vstrs.filter (fun x => d.trash.contains x) → x ∈ d.vstrs := fun x hx => (List.mem_filter.mp hx).1
  by_cases hp : n = n ∧ d.frags.any (fun f => f.1 == n) = true
  · rw [if_pos hp]
    refine ⟨h, ?_⟩
    have := legalRun_unlinks C _ (d.apply (Act.unlinkFrag n)) hx
    exact legalRun_append C _ _ _ this.1 ⟨trivial, trivial⟩
  · rw [if_neg hp]
    have := legalRun_unlinks C _ d hx
    exact legalRun_append C _ _ _ this.1 ⟨trivial, trivial⟩

theorem legalRun_completeActs (C : Checker A) (d : Dir A) (n : Nat) (a1 : List (Act A))
    (h : completeActs d n = some a1) : LegalRun C d a1 := by
  cases hm : d.vM with
  | none => rw [completeActs_none d n hm] at h; cases h; trivial
  | some m =>
    rw [completeActs_some d m n hm] at h
    by_cases hlt : n < m
    · rw [if_pos hlt] at h; cases h
    · rw [if_neg hlt] at h
      cases h
      unfold completeList
      have hx : ∀ x, x ∈ d.vstrs.filter (fun x => d.trash.contains x) → x ∈ d.vstrs := fun x hx => (List.mem_filter.mp hx).1
      by_cases hp : m = n ∧ d.frags.any (fun f => f.1 == n) = true
      · rw [if_pos hp]
        refine ⟨(by show d.vM = some n; rw [hm, hp.1]), ?_⟩
        have := legalRun_unlinks C _ (d.apply (Act.unlinkFrag n)) hx
        exact legalRun_append C _ _ _ this.1 ⟨trivial, trivial⟩
      · rw [if_neg hp]
        have := legalRun_unlinks C _ d hx
        exact legalRun_append C _ _ _ this.1 ⟨trivial, trivial⟩

theorem legalRun_processOne (C : Checker A) (d : Dir A) (n : Nat) (es : List Edit) :
    LegalRun C d (processOne C d n es).1 := by
  have hs := processOne_shape C d n es
  generalize processOne C d n es = r at hs
  cases hs with
  | outOfOrder _ => trivial
  | resumed a1 h1 _ => exact legalRun_completeActs C d n a1 h1
  | stopped a1 st h1 _ _ _ => exact legalRun_completeActs C d n a1 h1
  | processed a1 o names h1 _ hv hc hp ht =>
    refine legalRun_append C _ _ _ (legalRun_completeActs C d n a1 h1) ⟨⟨hv, hc, hp, ht⟩, ?_⟩
    exact legalRun_completeList C _ n rfl

theorem passFrom_nil (C : Checker A) (d : Dir A) : passFrom C d [] = ([], .ok) := rfl

theorem passFrom_ok (C : Checker A) (d : Dir A) (n : Nat) (es : List Edit) (rest : List (Nat × List Edit))
    (h : (processOne C d n es).2 = .ok) :
    passFrom C d ((n, es) :: rest) =
      ((processOne C d n es).1 ++ (passFrom C (run d (processOne C d n es).1) rest).1,
       (passFrom C (run d (processOne C d n es).1) rest).2) := by
  show (match (processOne C d n es).2 with
    | .ok => ((processOne C d n es).1 ++ (passFrom C (run d (processOne C d n es).1) rest).1,
              (passFrom C (run d (processOne C d n es).1) rest).2)
    | st => ((processOne C d n es).1, st)) = _
  rw [h]

theorem passFrom_stop (C : Checker A) (d : Dir A) (n : Nat) (es : List Edit) (rest : List (Nat × List Edit))
    (h : (processOne C d n es).2 ≠ .ok) :
    passFrom C d ((n, es) :: rest) = ((processOne C d n es).1, (processOne C d n es).2) := by
  show (match (processOne C d n es).2 with
    | .ok => ((processOne C d n es).1 ++ (passFrom C (run d (processOne C d n es).1) rest).1,
              (passFrom C (run d (processOne C d n es).1) rest).2)
    | st => ((processOne C d n es).1, st)) = _
  cases hst : (processOne C d n es).2 with
  | ok => exact absurd hst h
  | backoff x => rfl
  | corrupt => rfl
  | panic => rfl

theorem legalRun_passFrom (C : Checker A) : ∀ (ents : List (Nat × List Edit)) (d : Dir A),
    LegalRun C d (passFrom C d ents).1
  | [], _ => trivial
  | (n, es) :: rest, d => by
    have h1 := legalRun_processOne C d n es
    by_cases hst : (processOne C d n es).2 = .ok
    · rw [passFrom_ok C d n es rest hst]
      exact legalRun_append C _ _ _ h1 (legalRun_passFrom C rest _)
    · rw [passFrom_stop C d n es rest hst]; exact h1

/-- **every durable action of a pass is legal where it is applied** -/
theorem pass_legal (C : Checker A) (d : Dir A) : LegalRun C d (pass C d).1 := legalRun_passFrom C _ d

/-- the intents a pass logs are for entries of the directory it started in: fragments that are in
    `mani/`, other than the newest one and `MANIFEST` -/
theorem intents_of_processOne (C : Checker A) (d : Dir A) (n : Nat) (es : List Edit) :
    ∀ n' es' names o, Act.intent n' es' names o ∈ (processOne C d n es).1 → n' = n ∧ es' = es := by
  have hs := processOne_shape C d n es
  generalize processOne C d n es = r at hs
  have hcl : ∀ (d' : Dir A) m n' es' names o, Act.intent n' es' names o ∉ completeList d' m n := by
    intro d' m n' es' names o hmem
    unfold completeList at hmem
    rcases List.mem_append.mp hmem with h | h
    · rcases List.mem_append.mp h with h | h
      · split at h
        · rcases List.mem_singleton.mp h with h; cases h
        · cases h
      · rcases List.mem_map.mp h with ⟨_, _, h⟩; cases h
    · rcases List.mem_singleton.mp h with h; cases h
  have hca : ∀ a1, completeActs d n = some a1 → ∀ n' es' names o, Act.intent n' es' names o ∉ a1 := by
    intro a1 h1 n' es' names o
    cases hm : d.vM with
    | none => rw [completeActs_none d n hm] at h1; cases h1; exact List.not_mem_nil
    | some m =>
      rw [completeActs_some d m n hm] at h1
      by_cases hlt : n < m
      · rw [if_pos hlt] at h1; cases h1
      · rw [if_neg hlt] at h1; cases h1; exact hcl d m n' es' names o
  intro n' es' names o hmem
  cases hs with
  | outOfOrder _ => cases hmem
  | resumed a1 h1 _ => exact absurd hmem (hca a1 h1 _ _ _ _)
  | stopped a1 st h1 _ _ _ => exact absurd hmem (hca a1 h1 _ _ _ _)
  | processed a1 o' names' h1 _ _ _ _ _ =>
    rcases List.mem_append.mp hmem with h | h
    · exact absurd h (hca a1 h1 _ _ _ _)
    · rcases List.mem_cons.mp h with h | h
      · cases h; exact ⟨rfl, rfl⟩
      · exact absurd h (hcl _ _ _ _ _ _)

theorem intents_of_passFrom (C : Checker A) : ∀ (ents : List (Nat × List Edit)) (d : Dir A) n es names o,
    Act.intent n es names o ∈ (passFrom C d ents).1 → (n, es) ∈ ents
  | [], _, _, _, _, _, h => by cases h
  | (n0, es0) :: rest, d, n, es, names, o, h => by
    have key : Act.intent n es names o ∈ (processOne C d n0 es0).1 → (n, es) ∈ (n0, es0) :: rest := by
      intro hx
      have := intents_of_processOne C d n0 es0 n es names o hx
      rw [this.1, this.2]; exact List.mem_cons_self
    by_cases hst : (processOne C d n0 es0).2 = .ok
    · rw [passFrom_ok C d n0 es0 rest hst] at h
      rcases List.mem_append.mp h with h | h
      · exact key h
      · exact List.mem_cons_of_mem _ (intents_of_passFrom C rest _ n es names o h)
    · rw [passFrom_stop C d n0 es0 rest hst] at h
      exact key h

theorem pass_intents_are_entries (C : Checker A) (d : Dir A) (n : Nat) (es : List Edit) (names : List Name) (o : A)
    (h : Act.intent n es names o ∈ (pass C d).1) : (n, es) ∈ d.frags.dropLast :=
  intents_of_passFrom C _ d n es names o h

theorem checkAll_some (C : Checker A) (d : Dir A) (es : List Edit) (o : A) (h : checkAll C d es = some o) :
    C.check d.vO es = some o := by
  unfold checkAll at h
  by_cases hr : readable d es = true
  · rw [if_pos hr] at h; exact h
  · rw [if_neg hr] at h; cases h

theorem checkAll_readable (C : Checker A) (d : Dir A) (es : List Edit) (o : A) (h : checkAll C d es = some o) :
    readable d es = true := by
  unfold checkAll at h
  by_cases hr : readable d es = true
  · exact hr
  · rw [if_neg hr] at h; cases h

/-! ### the logged names are justified -/

/-- every name logged in `verify/` is one the plan of a fragment names whose intent was logged
    under the number `M` holds, and every fragment whose intent was ever logged passed the check
    against the accumulator of that moment -/
def Justified (C : Checker A) (d : Dir A) : Prop :=
  (∀ x, x ∈ d.vstrs → ∃ n es a names later, d.vM = some n ∧ (n, es, a) ∈ d.done ∧ plan C.asWas later es = some names ∧ x ∈ names) ∧
  (∀ t, t ∈ d.done → (C.check t.2.2 t.2.1).isSome = true)

theorem justified_apply (C : Checker A) (d : Dir A) (a : Act A) (hj : Justified C d) (hl : Legal C d a) :
    Justified C (d.apply a) := by
  cases a with
  | unlinkFrag n => exact hj
  | unlinkTrash x => exact hj
  | clear => exact ⟨fun x hx => (by cases hx), hj.2⟩
  | intent n es names o =>
    obtain ⟨hv, hc, hp, _⟩ := hl
    refine ⟨?_, ?_⟩
    · intro x hx
      have hx' : x ∈ names.foldl (fun acc x => insertStr x acc) d.vstrs := hx
      rw [hv] at hx'
      rcases Blue.Orphans.mem_foldl_insertStr names [] hx' with h | h
      · exact ⟨n, es, d.vO, names, laterRm d n, rfl, List.mem_append_right _ List.mem_cons_self, hp, h⟩
      · cases h
    · intro t ht
      rcases List.mem_append.mp ht with h | h
      · exact hj.2 t h
      · rcases List.mem_singleton.mp h with rfl
        show (C.check d.vO es).isSome = true
        rw [checkAll_some C d es o hc]; rfl

theorem justified_run (C : Checker A) : ∀ (acts : List (Act A)) (d : Dir A), Justified C d → LegalRun C d acts →
    Justified C (run d acts)
  | [], _, hj, _ => hj
  | a :: as, d, hj, hl => justified_run C as _ (justified_apply C d a hj hl.1) hl.2

/-- **every unlink in `trash/` is covered**: at the moment of the unlink the name is logged, the
    log carries the number of a fragment whose plan names it, and that fragment passed the check -/
theorem unlinks_justified (C : Checker A) : ∀ (acts : List (Act A)) (d : Dir A), Justified C d → LegalRun C d acts →
    ∀ i x, acts[i]? = some (Act.unlinkTrash x) →
      ∃ n es a names later, (run d (acts.take i)).vM = some n ∧ (n, es, a) ∈ (run d (acts.take i)).done
        ∧ plan C.asWas later es = some names ∧ x ∈ names ∧ (C.check a es).isSome = true
  | [], _, _, _, i, x, h => by simp at h
  | a :: as, d, hj, hl, 0, x, h => by
    simp only [List.getElem?_cons_zero, Option.some.injEq] at h
    subst h
    obtain ⟨n, es, a, names, later, h1, h2, h3, h4⟩ := hj.1 x hl.1
    exact ⟨n, es, a, names, later, h1, h2, h3, h4, hj.2 _ h2⟩
  | a :: as, d, hj, hl, i + 1, x, h => by
    simp only [List.getElem?_cons_succ] at h
    exact unlinks_justified C as _ (justified_apply C d a hj hl.1) hl.2 i x h

/-! ### all interleavings -/

/-- the directories the verifier can be in: a fresh `verify/`; any step of anything else that leaves
    `verify/` alone (the store: edits, rollovers, moves to `trash/`, reopens; all of it arbitrary
    here); a pass cut by a crash after any number of its actions (`k` past the end: a whole pass) —
    the next pass starts from whatever is on disk -/
inductive Reach (C : Checker A) : Dir A → Prop
  | fresh (d : Dir A) : d.vstrs = [] → d.vM = none → d.done = [] → Reach C d
  | env (d d' : Dir A) : Reach C d → d'.vstrs = d.vstrs → d'.vM = d.vM → d'.vO = d.vO → d'.done = d.done → Reach C d'
  | crashed (d : Dir A) (k : Nat) : Reach C d → Reach C (run d ((pass C d).1.take k))

theorem reach_justified (C : Checker A) (d : Dir A) (h : Reach C d) : Justified C d := by
  induction h with
  | fresh d hv _ hd => exact ⟨fun x hx => (by rw [hv] at hx; cases hx), fun t ht => (by rw [hd] at ht; cases ht)⟩
  | env d d' _ hv hm _ hd ih =>
    refine ⟨fun x hx => ?_, fun t ht => ih.2 t (hd ▸ ht)⟩
    obtain ⟨n, es, a, names, later, h1, h2, h3, h4⟩ := ih.1 x (hv ▸ hx)
    exact ⟨n, es, a, names, later, hm ▸ h1, hd ▸ h2, h3, h4⟩
  | crashed d k _ ih => exact justified_run C _ d ih (legalRun_take C k _ d (pass_legal C d))

/-! ### what a plan names -/

theorem mem_editLogs : ∀ (es : List Edit) (l : List Name), editLogs es = some l → ∀ x, x ∈ l →
    ∃ e, e ∈ es ∧ ∃ v k, getInfo e 76 = some v ∧ parseU64 v = some k ∧ x = trashLog k
  | [], l, h, x, hx => by
    have : l = [] := by
      have : editLogs [] = some ([] : List Name) := rfl
      rw [this] at h; cases h; rfl
    subst this; cases hx
  | e :: t, l, h, x, hx => by
    have hunf : editLogs (e :: t) = (match getInfo e 76 with
      | none => editLogs t
      | some v => match parseU64 v, editLogs t with
        | some n, some l => some (trashLog n :: l)
        | _, _ => none) := rfl
    rw [hunf] at h
    cases hg : getInfo e 76 with
    | none =>
      rw [hg] at h
      obtain ⟨e', he', r⟩ := mem_editLogs t l h x hx
      exact ⟨e', List.mem_cons_of_mem _ he', r⟩
    | some v =>
      rw [hg] at h
      replace h : (match parseU64 v, editLogs t with
        | some n, some l => some (trashLog n :: l)
        | _, _ => none) = some l := h
      cases hp : parseU64 v with
      | none => rw [hp] at h; cases h
      | some k =>
        cases ht : editLogs t with
        | none => rw [hp, ht] at h; cases h
        | some l' =>
          rw [hp, ht] at h
          cases h
          rcases List.mem_cons.mp hx with rfl | hx
          · exact ⟨e, List.mem_cons_self, v, k, hg, hp, rfl⟩
          · obtain ⟨e', he', r⟩ := mem_editLogs t l' ht x hx
            exact ⟨e', List.mem_cons_of_mem _ he', r⟩

theorem mem_removedBy {e : Edit} {r : Name} (h : r ∈ removedBy e) : r ∈ e.rm ∧ r ∉ e.add := by
  unfold removedBy at h
  rw [List.mem_filter] at h
  refine ⟨h.1, fun hadd => ?_⟩
  have : e.add.contains r = true := List.contains_iff_mem.mpr hadd
  rw [this] at h; exact absurd h.2 (by decide)

theorem trashSst_inj {r r' : Name} (h : trashSst r = trashSst r') : r = r' :=
  List.append_cancel_right h

/-- what the repaired list holds: a removal of some edit of the fragment that no later edit of the
    fragment and nothing in `later` repeats -/
theorem mem_fragSstsLast (later : List Name) : ∀ (es : List Edit) (x : Name), x ∈ fragSstsLast later es →
    ∃ pre e post r, es = pre ++ e :: post ∧ r ∈ removedBy e ∧ x = trashSst r ∧ r ∉ later ∧ ∀ e', e' ∈ post → r ∉ removedBy e'
  | [], x, h => by cases h
  | e :: t, x, h => by
    have hunf : fragSstsLast later (e :: t) =
        ((removedBy e).filter (fun r => !(t.flatMap removedBy).contains r && !later.contains r)).map trashSst
          ++ fragSstsLast later t := rfl
    rw [hunf] at h
    rcases List.mem_append.mp h with h | h
    · obtain ⟨r, hr, rfl⟩ := List.mem_map.mp h
      rw [List.mem_filter, Bool.and_eq_true] at hr
      refine ⟨[], e, t, r, rfl, hr.1, rfl, ?_, ?_⟩
      · intro hl
        have : later.contains r = true := List.contains_iff_mem.mpr hl
        rw [this] at hr; exact absurd hr.2.2 (by decide)
      · intro e' he' hr'
        have : (t.flatMap removedBy).contains r = true :=
          List.contains_iff_mem.mpr (List.mem_flatMap.mpr ⟨e', he', hr'⟩)
        rw [this] at hr; exact absurd hr.2.1 (by decide)
    · obtain ⟨pre, e0, post, r, h1, h2, h3, h4, h5⟩ := mem_fragSstsLast later t x h
      exact ⟨e :: pre, e0, post, r, by rw [h1]; rfl, h2, h3, h4, h5⟩

/-- a name in the plan of a fragment is the trash name of a file some edit of the fragment removes
    and does not add itself, or of the log an edit other than the first names in its `L` field -/
theorem mem_plan (asWas : Bool) (later : List Name) (es : List Edit) (names : List Name)
    (h : plan asWas later es = some names) (x : Name) (hx : x ∈ names) :
    (∃ e, e ∈ es ∧ ∃ r, r ∈ e.rm ∧ r ∉ e.add ∧ x = trashSst r) ∨
    (∃ e, e ∈ es.drop 1 ∧ ∃ v k, getInfo e 76 = some v ∧ parseU64 v = some k ∧ x = trashLog k) := by
  unfold plan at h
  cases hl : editLogs (es.drop 1) with
  | none => rw [hl] at h; cases h
  | some l =>
    rw [hl] at h
    cases h
    rcases List.mem_append.mp hx with hx | hx
    · left
      cases asWas with
      | true =>
        have hx : x ∈ fragSsts es := hx
        unfold fragSsts at hx
        obtain ⟨e, he, hxe⟩ := List.mem_flatMap.mp hx
        unfold editSsts at hxe
        obtain ⟨r, hr, rfl⟩ := List.mem_map.mp hxe
        have := mem_removedBy (e := e) (r := r) hr
        exact ⟨e, he, r, this.1, this.2, rfl⟩
      | false =>
        have hx : x ∈ fragSstsLast later es := hx
        obtain ⟨pre, e, post, r, h1, h2, h3, _, _⟩ := mem_fragSstsLast later es x hx
        have := mem_removedBy h2
        exact ⟨e, by rw [h1]; exact List.mem_append_right _ List.mem_cons_self, r, this.1, this.2, h3⟩
    · right
      exact mem_editLogs _ l hl x hx

/-- **as repaired (D-28): the SSTs a plan names are not removed again by anything later** — not by a
    later edit of the fragment, not by a later fragment, not by `MANIFEST` (`later`).  The one copy of
    a file that was removed, written again and removed again stays in `trash/` for the checks of the
    fragments that add it back and remove it again; the last removal's plan names it. -/
theorem plan_leaves_later_removals (later : List Name) (es : List Edit) (r : Name)
    (h : trashSst r ∈ fragSstsLast later es) : r ∉ later := by
  obtain ⟨_, _, _, r', _, _, h3, h4, _⟩ := mem_fragSstsLast later es _ h
  rw [trashSst_inj h3]; exact h4

theorem trashSst_ne_trashLog (r : Name) (k : Nat) : trashSst r ≠ trashLog k := by
  intro h
  have h1 : (trashSst r).getLast? = some 116 := by
    unfold trashSst sstSuffix
    rw [List.getLast?_append]; rfl
  have hne : Nat.toDigits 10 k ≠ [] := Nat.toDigits_ne_nil
  have h2 : (trashLog k).getLast? = some ((Nat.toDigits 10 k).getLast hne).toNat := by
    unfold trashLog decimal
    rw [List.getLast?_append, List.getLast?_map, List.getLast?_eq_some_getLast hne]; rfl
  rw [h, h2] at h1
  have hd := Nat.isDigit_of_mem_toDigits (b := 10) (n := k) (by decide) (by decide) (List.getLast_mem hne)
  have hv : ((Nat.toDigits 10 k).getLast hne).toNat = 116 := by
    simpa using h1
  unfold Char.isDigit at hd
  have : ((Nat.toDigits 10 k).getLast hne).val.toNat = 116 := hv
  simp only [Bool.and_eq_true, decide_eq_true_eq] at hd
  have h3 := hd.2
  rw [UInt32.le_iff_toNat_le] at h3
  rw [this] at h3
  exact absurd h3 (by decide)

/-- **as repaired: a logged intent names no SST that a later fragment or `MANIFEST` removes again** -/
theorem intent_keeps_later (C : Checker A) (hC : C.asWas = false) (d : Dir A) (n : Nat) (es : List Edit)
    (names : List Name) (o : A) (hl : Legal C d (Act.intent n es names o)) (r : Name) (hr : r ∈ laterRm d n) :
    trashSst r ∉ names := by
  obtain ⟨_, _, hp, _⟩ := hl
  rw [hC] at hp
  unfold plan at hp
  cases hlg : editLogs (es.drop 1) with
  | none => rw [hlg] at hp; cases hp
  | some l =>
    rw [hlg] at hp
    cases hp
    intro hmem
    rcases List.mem_append.mp hmem with h | h
    · exact plan_leaves_later_removals (laterRm d n) es r h hr
    · obtain ⟨_, _, _, k, _, _, hk⟩ := mem_editLogs _ l hlg _ h
      exact trashSst_ne_trashLog r k hk

theorem legalRun_at (C : Checker A) : ∀ (acts : List (Act A)) (d : Dir A), LegalRun C d acts →
    ∀ i a, acts[i]? = some a → Legal C (run d (acts.take i)) a
  | [], _, _, i, a, h => by simp at h
  | b :: as, d, hl, 0, a, h => by
    simp only [List.getElem?_cons_zero, Option.some.injEq] at h
    subst h; exact hl.1
  | b :: as, d, hl, i + 1, a, h => by
    simp only [List.getElem?_cons_succ] at h
    exact legalRun_at C as _ hl.2 i a h

/-- **the verifier keeps the trash a later check needs** (as repaired, D-28): whenever a pass logs
    an intent for fragment `n`, no name in it is the trash entry of a file that a fragment numbered
    above `n` or `MANIFEST` removes again — the one copy of a file that was removed, written again
    under the same name and removed again stays where the checks of those later fragments find it -/
theorem pass_keeps_needed_trash (C : Checker A) (hC : C.asWas = false) (d : Dir A) (i n : Nat) (es : List Edit)
    (names : List Name) (o : A) (h : (pass C d).1[i]? = some (Act.intent n es names o)) (r : Name)
    (hr : r ∈ laterRm (run d ((pass C d).1.take i)) n) : trashSst r ∉ names :=
  intent_keeps_later C hC _ n es names o (legalRun_at C _ d (pass_legal C d) i _ h) r hr

end Blue.Verifier
