import Blue.Proofs.ScanCongr
import Blue.Proofs.TreeScan
import Blue.Proofs.MergingDupMain
/-! **C03** with the same `(key, timestamp)` in several children of the merge (the window of a
    flush between version install and `imm = None`, where the flushed memtable is a child both as
    `imm` and as its file; identical files).  The merging cursor shows the weakly sorted merge
    with multiplicity (`merging_over_dups`); the pruning cursor shows of adjacent equal versions
    only the first (`pruned_dedupAdj`); so the scan shows what `scan_spec` says for the *set* of
    versions. -/
namespace Blue.Spec
open Blue.Cursor Blue.Cursor.Filtered

/-- remove adjacent repetitions -/
def dedupAdj {E : Type} [DecidableEq E] : List E → List E
  | [] => []
  | a :: t => if t.head? = some a then dedupAdj t else a :: dedupAdj t

section generic
variable {E : Type} [DecidableEq E]

theorem dedupAdj_cons_eq (a : E) (t : List E) : dedupAdj (a :: a :: t) = dedupAdj (a :: t) := by
  show (if (a :: t).head? = some a then dedupAdj (a :: t) else a :: dedupAdj (a :: t)) = _
  simp

theorem dedupAdj_cons_ne (a : E) (t : List E) (h : t.head? ≠ some a) : dedupAdj (a :: t) = a :: dedupAdj t := by
  show (if t.head? = some a then dedupAdj t else a :: dedupAdj t) = _
  rw [if_neg h]

theorem mem_dedupAdj : ∀ (L : List E) (e : E), e ∈ dedupAdj L ↔ e ∈ L
  | [], _ => by simp [dedupAdj]
  | a :: t, e => by
    by_cases h : t.head? = some a
    · obtain ⟨t', rfl⟩ := List.head?_eq_some_iff.mp h
      rw [dedupAdj_cons_eq, mem_dedupAdj (a :: t') e]
      simp
    · rw [dedupAdj_cons_ne a t h, List.mem_cons, List.mem_cons, mem_dedupAdj t e]

/-- a weakly sorted list without its adjacent repetitions is strictly sorted -/
theorem dedupAdj_sorted {lt : E → E → Bool} (st : StrictTotal lt) :
    ∀ (L : List E), L.Pairwise (fun a b => lt b a = false) → (dedupAdj L).Pairwise (fun a b => lt a b = true)
  | [], _ => by simp [dedupAdj]
  | a :: t, hs => by
    obtain ⟨h1, h2⟩ := List.pairwise_cons.mp hs
    have ih := dedupAdj_sorted st t h2
    by_cases h : t.head? = some a
    · obtain ⟨t', rfl⟩ := List.head?_eq_some_iff.mp h
      rw [dedupAdj_cons_eq]; exact ih
    · rw [dedupAdj_cons_ne a t h, List.pairwise_cons]
      refine ⟨?_, ih⟩
      intro b hb
      have hbt : b ∈ t := (mem_dedupAdj t b).mp hb
      cases t with
      | nil => cases hbt
      | cons c t' =>
        have hca : c ≠ a := by
          intro hca; apply h; simp [hca]
        have hac : lt a c = true := by
          rcases st.total a c (Ne.symm hca) with h' | h'
          · exact h'
          · rw [h1 c (by simp)] at h'; cases h'
        rcases List.mem_cons.mp hbt with rfl | hbt'
        · exact hac
        · have hbc : lt b c = false := (List.pairwise_cons.mp h2).1 b hbt'
          by_cases hab : a = b
          · subst hab; rw [hac] at hbc; cases hbc
          · rcases st.total a b hab with h' | h'
            · exact h'
            · have := st.trans b a c h' hac
              rw [this] at hbc; cases hbc

end generic

/-! ### the pruning cursor's list, by recursion on the table -/
section pruned
variable {E K : Type} [DecidableEq K] (cfg : PruneCfg E K)

/-- shown by the pruning cursor, given the preceding entry of the table -/
def showR (prev : Option E) (e : E) : Bool :=
  cfg.tsOk e && (match prev with
    | none => true
    | some e' => (cfg.key e' != cfg.key e) || !cfg.tsOk e') && !cfg.tomb e

def prunedRec : Option E → List E → List E
  | _, [] => []
  | prev, e :: t => if showR cfg prev e then e :: prunedRec (some e) t else prunedRec (some e) t

theorem select_eq_prunedRec :
    ∀ (xs : List E) (prev : Option E) (q : Nat → Bool),
      (∀ (i : Nat) (e : E), xs[i]? = some e → q i = showR cfg (if i = 0 then prev else xs[i-1]?) e) →
      ((List.range xs.length).filter q).filterMap (fun i => xs[i]?) = prunedRec cfg prev xs := by
  intro xs
  induction xs with
  | nil => intros; rfl
  | cons a t ih =>
    intro prev q hq
    have h0 : q 0 = showR cfg prev a := by simpa using hq 0 a rfl
    have ht := ih (some a) (fun i => q (i + 1)) (by
      intro i e he
      have := hq (i + 1) e (by simpa using he)
      rw [this]
      cases i with
      | zero => simp
      | succ i' => simp)
    rw [List.length_cons, List.range_succ_eq_map, List.filter_cons, List.filter_map]
    have hmap : List.filterMap (fun i => (a :: t)[i]?) (List.map Nat.succ (List.filter (q ∘ Nat.succ) (List.range t.length)))
        = List.filterMap (fun i => t[i]?) (List.filter (fun i => q (i + 1)) (List.range t.length)) := by
      rw [List.filterMap_map]
      rfl
    show _ = (if showR cfg prev a then a :: prunedRec cfg (some a) t else prunedRec cfg (some a) t)
    cases hp : showR cfg prev a with
    | true =>
      rw [h0, hp]
      simp only [if_true, List.filterMap_cons, List.getElem?_cons_zero]
      rw [hmap, ht]
    | false =>
      rw [h0, hp]
      simp only [Bool.false_eq_true, if_false]
      rw [hmap, ht]

theorem pruned_eq_prunedRec (xs : List E) : pruned cfg xs = prunedRec cfg none xs := by
  unfold pruned P S
  apply select_eq_prunedRec
  intro i e he
  unfold shownP isCand showR
  rw [he]
  by_cases hi : i = 0
  · simp [hi]
  · simp only [hi, if_false]
    cases xs[i-1]? <;> rfl

variable [DecidableEq E]

theorem prunedRec_dedupAdj : ∀ (xs : List E) (prev : Option E),
    prunedRec cfg prev (dedupAdj xs) = prunedRec cfg prev xs
  | [], _ => rfl
  | a :: t, prev => by
    by_cases h : t.head? = some a
    · obtain ⟨t', rfl⟩ := List.head?_eq_some_iff.mp h
      rw [dedupAdj_cons_eq, prunedRec_dedupAdj (a :: t') prev]
      have hself : showR cfg (some a) a = false := by
        unfold showR
        cases hts : cfg.tsOk a <;> simp [hts]
      show (if showR cfg prev a then a :: prunedRec cfg (some a) t' else prunedRec cfg (some a) t')
        = (if showR cfg prev a then a :: prunedRec cfg (some a) (a :: t') else prunedRec cfg (some a) (a :: t'))
      have : prunedRec cfg (some a) (a :: t') = prunedRec cfg (some a) t' := by
        show (if showR cfg (some a) a then a :: prunedRec cfg (some a) t' else prunedRec cfg (some a) t') = _
        rw [hself]; simp
      rw [this]
    · rw [dedupAdj_cons_ne a t h]
      show (if showR cfg prev a then a :: prunedRec cfg (some a) (dedupAdj t) else prunedRec cfg (some a) (dedupAdj t))
        = (if showR cfg prev a then a :: prunedRec cfg (some a) t else prunedRec cfg (some a) t)
      rw [prunedRec_dedupAdj t (some a)]

/-- **of adjacent equal entries the pruning cursor shows the first only**: its list over a table
    with adjacent repetitions is its list over the table without them -/
theorem pruned_dedupAdj (xs : List E) : pruned cfg (dedupAdj xs) = pruned cfg xs := by
  rw [pruned_eq_prunedRec, pruned_eq_prunedRec, prunedRec_dedupAdj]

end pruned

/-! ### versions -/
variable {K : Type} [DecidableEq K]

/-- a weakly sorted table of versions: equal versions may repeat, adjacent -/
def SortedW (klt : K → K → Bool) (L : List (Ver K)) : Prop := L.Pairwise (fun a b => vlt klt b a = false)

theorem sorted_dedupAdj {klt : K → K → Bool} (st : StrictTotal klt) {L : List (Ver K)} (hw : SortedW klt L) :
    Sorted klt (dedupAdj L) := dedupAdj_sorted (vlt_strictTotal st) L hw

theorem keysMono_of_sortedW {klt : K → K → Bool} (st : StrictTotal klt) {L : List (Ver K)} (hw : SortedW klt L) :
    KeysMono klt L := by
  intro i j a b hij ha hb
  rcases Nat.lt_or_ge i j with h | h
  · obtain ⟨hi, rfl⟩ := List.getElem?_eq_some_iff.mp ha
    obtain ⟨hj, rfl⟩ := List.getElem?_eq_some_iff.mp hb
    have := List.pairwise_iff_getElem.mp hw i j hi hj h
    unfold vlt at this
    simp only [Bool.or_eq_false_iff] at this
    exact this.1
  · have : i = j := by omega
    subst this; rw [ha] at hb; cases hb; exact st.irrefl _

theorem grouped_of_sortedW {klt : K → K → Bool} (st : StrictTotal klt) {L : List (Ver K)} (hw : SortedW klt L)
    (t : Nat) (tomb : Ver K → Bool) : Grouped (pcfg t tomb) L where
  contiguous := by
    intro i j l ei ej el hij hjl hi hj hl hk
    have hm := keysMono_of_sortedW st hw
    have h1 := hm i j ei ej hij hi hj
    have h2 := hm j l ej el hjl hj hl
    have hk' : ei.1 = el.1 := hk
    rw [← hk'] at h2
    exact st.eq_of_not_lt _ _ h1 h2
  mono := by
    intro i j ei ej hij hi hj hk hts
    simp only [pcfg, decide_eq_true_eq] at *
    rcases Nat.lt_or_ge i j with h | h
    · obtain ⟨hi', rfl⟩ := List.getElem?_eq_some_iff.mp hi
      obtain ⟨hj', rfl⟩ := List.getElem?_eq_some_iff.mp hj
      have := List.pairwise_iff_getElem.mp hw i j hi' hj' h
      unfold vlt at this
      simp only [Bool.or_eq_false_iff, Bool.and_eq_false_iff, decide_eq_false_iff_not] at this
      rcases this.2 with h' | h'
      · exact absurd hk.symm h'
      · omega
    · have : i = j := by omega
      subst this; rw [hi] at hj; cases hj; exact hts

/-- **C03, list level, with duplicates**: what the pruning cursor shows of a weakly sorted table is
    exactly the live versions of the table's set of versions, in order -/
theorem pruned_eq_live_dups {klt : K → K → Bool} (st : StrictTotal klt) {L : List (Ver K)} (hw : SortedW klt L)
    (t : Nat) (tomb : Ver K → Bool) :
    pruned (pcfg t tomb) L = (dedupAdj L).filter (isLive (dedupAdj L) t tomb) := by
  rw [← pruned_dedupAdj]
  exact pruned_eq_live st (sorted_dedupAdj st hw) t tomb

end Blue.Spec

namespace Blue.Cursor
open Blue.Cursor.Filtered
variable {E K : Type} [DecidableEq K]

/-- the scan stack over children that may hold the same entry (`scan_stack` with `FamilyW`) -/
theorem scan_stack_dups (lt : E → E → Bool) (st : StrictTotal lt) (M : List (E × Nat)) (k : Nat)
    (fam : FamilyW lt M k) (pcfg : PruneCfg E K) (bcfg : BoundsCfg E) (n : Nat)
    (g : Grouped pcfg (M.map (·.1))) {lo hi : Nat}
    (ok : BoundsOk bcfg (pruned pcfg (M.map (·.1))) lo hi)
    (hn : (M.map (·.1)).length + 2 ≤ n)
    (A : (E → Bool) → Prop)
    (hA1 : ∀ p, A p → Mono lt p)
    (hA2 : ∀ p, A p → SeekPred pcfg (M.map (·.1)) p)
    (hA3 : ∀ p, A p → MonoAlong (pruned pcfg (M.map (·.1))) p)
    (hs : A bcfg.geStart) (he : A bcfg.geEnd)
    (C : Cur E) (cs : List C.σ) (rs : List (Ref E))
    (hkids : (rs.map (·.xs)).Perm ((List.range k).map (childList M)))
    (hbeh : cs.map (behA A C) = rs.map (behA A (RefCur E))) :
    BehEq A (BoundsC.cur (PruningC.cur (MergingC.cur C lt) pcfg n) bcfg n)
      (BoundsC.new (PruningC.cur (MergingC.cur C lt) pcfg n) bcfg
        (PruningC.new (MergingC.cur C lt) (MergingC.new C lt cs)))
      (RefCur E) ⟨window (pruned pcfg (M.map (·.1))) lo hi, 0⟩ := by
  have h1 : BehEq A (MergingC.cur C lt) (MergingC.new C lt cs) (RefCur E) ⟨M.map (·.1), 0⟩ :=
    merging_over_dups lt st fam hA1 cs rs hkids hbeh
  have h2 : BehEq A (PruningC.cur (MergingC.cur C lt) pcfg n)
      (PruningC.new (MergingC.cur C lt) (MergingC.new C lt cs)) (RefCur E) ⟨pruned pcfg (M.map (·.1)), 0⟩ := by
    have hfirst := behEq_step h1 .first trivial
    have hrel : PRel pcfg (M.map (·.1)) ⟨⟨M.map (·.1), 0⟩, none⟩ 0 :=
      prel_new pcfg (M.map (·.1)) ⟨M.map (·.1), 0⟩ rfl
    exact pruning_over pcfg n (M.map (·.1)) g hn hA2 hfirst none 0 hrel
  have hn' : (pruned pcfg (M.map (·.1))).length + 2 ≤ n := by
    have := pruned_length_le pcfg (M.map (·.1)); omega
  have h3 := bounds_over bcfg n (pruned pcfg (M.map (·.1))) ok hn' hA3 hs he h2 .beforeStart 0
    (BRel.before 0 (by omega) (by omega))
  exact behEq_step h3 .first trivial

end Blue.Cursor

namespace Blue.Spec
open Blue.Cursor Blue.Cursor.Filtered
variable {K : Type} [DecidableEq K]

/-- **C03, children with duplicates.**  Let the children of the merging cursor behave as strictly
    sorted tables of versions whose union may hold the same `(key, timestamp)` in several children;
    `M` is their weakly sorted merge with multiplicity, tagged with owners (`FamilyW`).  Then
    `Bounds(Pruning(Merging[children]))` at read timestamp `t` with bounds `sb … eb` behaves, under
    every finite program of `seek_to_first / seek_to_last / seek k / next / prev`, as a reference
    cursor over

      [ e ∈ set of versions | e is the newest version of its key with ts ≤ t, not a tombstone, key in range ]

    — every version once, however many children hold it. -/
theorem scan_spec_dups {klt : K → K → Bool} (st : StrictTotal klt)
    (M : List (Ver K × Nat)) (k : Nat) (fam : FamilyW (vlt klt) M k)
    (t : Nat) (tomb : Ver K → Bool) (sb eb : Bound K) (n : Nat) (hn : (M.map (·.1)).length + 2 ≤ n)
    (C : Cur (Ver K)) (cs : List C.σ) (rs : List (Ref (Ver K)))
    (hkids : (rs.map (·.xs)).Perm ((List.range k).map (childList M)))
    (hbeh : cs.map (behA (SeekAdm klt) C) = rs.map (behA (SeekAdm klt) (RefCur (Ver K)))) :
    BehEq (SeekAdm klt)
      (BoundsC.cur (PruningC.cur (MergingC.cur C (vlt klt)) (pcfg t tomb) n) (bcfg klt sb eb) n)
      (BoundsC.new (PruningC.cur (MergingC.cur C (vlt klt)) (pcfg t tomb) n) (bcfg klt sb eb)
        (PruningC.new (MergingC.cur C (vlt klt)) (MergingC.new C (vlt klt) cs)))
      (RefCur (Ver K))
      ⟨((dedupAdj (M.map (·.1))).filter (isLive (dedupAdj (M.map (·.1))) t tomb)).filter (inRange klt sb eb), 0⟩ := by
  have hw : SortedW klt (M.map (·.1)) := fam.sorted
  have hs : Sorted klt (dedupAdj (M.map (·.1))) := sorted_dedupAdj st hw
  have hm := keysMono_of_sortedW st hw
  have hlive := pruned_eq_live_dups st hw t tomb
  have hsp : Sorted klt (pruned (pcfg t tomb) (M.map (·.1))) := by rw [hlive]; exact sorted_filter hs _
  have hmp := keysMono_of_sorted st hsp
  have ok := boundsOk_of_keysMono st sb eb _ hmp
  have hwin := window_eq_range st sb eb _ hmp
  have := scan_stack_dups (vlt klt) (vlt_strictTotal st) M k fam (pcfg t tomb) (bcfg klt sb eb) n
    (grouped_of_sortedW st hw t tomb) ok hn (SeekAdm klt)
    (fun p hp => adm_mono st hp)
    (fun p hp => adm_seekPred st hp t tomb _ hm)
    (fun p hp => adm_along st hp _ hmp)
    (adm_geStart klt sb eb) (adm_geEnd klt sb eb) C cs rs hkids hbeh
  rw [hwin, hlive] at this
  exact this

/-- the list of `scan_spec_dups` is the list `scan_spec` assigns to the strictly sorted list of the
    same versions: duplicates across children change no scan -/
theorem scan_dups_list_eq {klt : K → K → Bool} (st : StrictTotal klt) (L M0 : List (Ver K))
    (hw : SortedW klt L) (hs0 : Sorted klt M0) (hsame : ∀ e, e ∈ L ↔ e ∈ M0)
    (t : Nat) (tomb : Ver K → Bool) (sb eb : Bound K) :
    ((dedupAdj L).filter (isLive (dedupAdj L) t tomb)).filter (inRange klt sb eb)
      = (M0.filter (isLive M0 t tomb)).filter (inRange klt sb eb) :=
  scan_list_congr st (dedupAdj L) M0 (sorted_dedupAdj st hw) hs0
    (fun e => (mem_dedupAdj L e).trans (hsame e)) t tomb sb eb

/-- **C03** `tree_scan_spec` with duplicates across the levels (the flush window: the flushed
    memtable is a child both as the immutable memtable and as its level-0 file) -/
theorem tree_scan_spec_dups {klt : K → K → Bool} (st : StrictTotal klt)
    (M : List (Ver K × Nat)) (k : Nat) (fam : FamilyW (vlt klt) M k)
    (t : Nat) (tomb : Ver K → Bool) (sb eb : Bound K) (n : Nat) (hn : (M.map (·.1)).length + 2 ≤ n)
    {S : Cur (Ver K)} (levels : List (List (S.σ × List (Ver K))))
    (hfiles : ∀ lvl ∈ levels, ∀ f ∈ lvl, BehEq (SeekAdm klt) S f.1 (RefCur (Ver K)) ⟨f.2, 0⟩)
    (hne : ∀ lvl ∈ levels, 0 < lvl.length)
    (hsorted : ∀ lvl ∈ levels, Sorted klt (lvl.map (·.2)).flatten)
    (hkids : ((levels.map levelTable).map (·.xs)).Perm ((List.range k).map (childList M))) :
    BehEq (SeekAdm klt)
      (BoundsC.cur (PruningC.cur (MergingC.cur (ConcatC.cur (LazyC.cur S)) (vlt klt)) (pcfg t tomb) n)
        (bcfg klt sb eb) n)
      (BoundsC.new (PruningC.cur (MergingC.cur (ConcatC.cur (LazyC.cur S)) (vlt klt)) (pcfg t tomb) n)
        (bcfg klt sb eb)
        (PruningC.new (MergingC.cur (ConcatC.cur (LazyC.cur S)) (vlt klt))
          (MergingC.new (ConcatC.cur (LazyC.cur S)) (vlt klt) (levels.map levelCursor))))
      (RefCur (Ver K))
      ⟨((dedupAdj (M.map (·.1))).filter (isLive (dedupAdj (M.map (·.1))) t tomb)).filter (inRange klt sb eb), 0⟩ :=
  scan_spec_dups st M k fam t tomb sb eb n hn (ConcatC.cur (LazyC.cur S)) (levels.map levelCursor)
    (levels.map levelTable) hkids (levels_beh st levels hfiles hne hsorted)

end Blue.Spec

#print axioms Blue.Spec.scan_spec_dups
#print axioms Blue.Spec.tree_scan_spec_dups
#print axioms Blue.Spec.scan_dups_list_eq
#print axioms Blue.Spec.pruned_dedupAdj
