import Blue.Proofs.ConcWriters
import Blue.Proofs.StoreCrash
/-! The store-level half of `concurrent_run_is_some_sequential_history`: the sequential history of
    `k` puts of `Blue.StoreCrash` — batch `b` := the merged record `b` of the concurrent run — is
    `append b to the log; fdatasync; acknowledge b` for `b = 0 … k-1` (the events of
    `Blue.LogCrash.protocol`, whose file is `seqRun`), and reopens to exactly the batches
    `0 … k-1`: `crash_recover` at the end of that history. -/
namespace Blue.ConcWriters
open Blue.StoreCrash

theorem puts_counts : ∀ (k : Nat) (kv : Kv),
    Blue.StoreCrash.acked (opsOf (List.replicate k Client.put) kv) = k
    ∧ appended (opsOf (List.replicate k Client.put) kv) = k := by
  intro k
  induction k with
  | zero => intro kv; simp [opsOf, Blue.StoreCrash.acked, appended]
  | succ k ih =>
    intro kv
    obtain ⟨i1, i2⟩ := ih (after kv .put)
    rw [List.replicate_succ]
    simp only [opsOf, block]
    simp only [Blue.StoreCrash.acked, appended, List.filter_append, List.length_append] at i1 i2 ⊢
    rw [i1, i2]
    simp
    omega

/-- the operation list of `k` sequential puts: per batch `append; fdatasync; acknowledge` on the
    current log — the protocol of `Blue.LogCrash.protocol` -/
theorem puts_ops : ∀ (k : Nat) (kv : Kv),
    opsOf (List.replicate k Client.put) kv
      = (List.range k).flatMap (fun b => [Op.logAppend kv.cur (kv.next + b), .logSync kv.cur, .ack (kv.next + b)]) := by
  intro k
  induction k with
  | zero => intro kv; simp [opsOf]
  | succ k ih =>
    intro kv
    rw [List.replicate_succ, List.range_succ_eq_map, List.flatMap_cons, List.flatMap_map]
    simp only [opsOf, block, ih, after, Nat.add_zero]
    congr 2
    funext b
    simp only [Nat.add_assoc, Nat.add_comm 1 b]

/-- **`crash_recover` at the end of the sequential history of `k` puts**: `k` acknowledgements, `k`
    appends, and the reopen yields exactly the batches `0 … k-1` under both persistence models.
    With `k` from `concurrent_run_is_some_sequential_history` and batch `b` := merged record `b`: the
    log of that store is, byte for byte, the model (b) image of the concurrent run. -/
theorem sequential_puts_recover (k : Nat) :
    Blue.StoreCrash.acked (opsOf (List.replicate k Client.put) kv0) = k
    ∧ appended (opsOf (List.replicate k Client.put) kv0) = k
    ∧ (∃ l, recoverB (run fs0 (opsOf (List.replicate k Client.put) kv0)) = some l ∧ l.Perm (List.range k))
    ∧ (∃ l, recoverA (run fs0 (opsOf (List.replicate k Client.put) kv0)) = some l ∧ l.Perm (List.range k)) := by
  obtain ⟨c1, c2⟩ := puts_counts k kv0
  have h := crash_recover_init (List.replicate k Client.put) (opsOf (List.replicate k Client.put) kv0).length
  rw [List.take_length, c1, c2] at h
  obtain ⟨⟨l, k', h1, h2, h3, h4⟩, ⟨l', k'', h1', h2', h3', h4'⟩⟩ := h
  have e1 : k' = k := by omega
  have e2 : k'' = k := by omega
  subst e1
  exact ⟨c1, c2, ⟨l, h1, h2⟩, ⟨l', h1', by rw [e2] at h2'; exact h2'⟩⟩

end Blue.ConcWriters

#print axioms Blue.ConcWriters.puts_ops
#print axioms Blue.ConcWriters.sequential_puts_recover
