import Blue.Proofs.Mani
/-! **C13** a MANIFEST cut at any byte: reading it yields a prefix of the edits that were written,
    or a corruption error — never part of an edit, never an edit that was not written.  The one
    assumption is about the checksum: no proper prefix of a written line's body has the whole body's
    CRC (a collision; cannot be excluded by a theorem, so it is a hypothesis). -/
namespace Blue.Mani
variable (crc : List Nat → Nat)

inductive Ln where
  | it (i : Item)
  | sep

def Item.body : Item → List Nat
  | .rm s => 45 :: s
  | .add s => 43 :: s
  | .info k s => k :: s

/-- a line without its newline -/
def Ln.text : Ln → List Nat
  | .it i => hex8 (crc i.body) ++ i.body
  | .sep => SEP

def Ln.bytes (l : Ln) : List Nat := l.text crc ++ [10]

def Ln.Ok : Ln → Prop
  | .it i => i.Ok
  | .sep => True

/-- no proper prefix (of at least two bytes) of the body has the body's checksum -/
def Ln.NoCollision : Ln → Prop
  | .it i => ∀ q, 2 ≤ q → q < i.body.length → crc (i.body.take q) ≠ crc i.body
  | .sep => True

theorem item_line_eq (i : Item) : i.line crc = Ln.bytes crc (.it i) := by
  cases i <;> simp [Item.line, crcLine, Ln.bytes, Ln.text, Item.body]

def linesOf (es : List Edit) : List Ln := es.flatMap (fun e => (items e).map .it ++ [.sep])

theorem stream_eq (es : List Edit) :
    es.flatMap (encodeEdit crc) = (linesOf es).flatMap (Ln.bytes crc) := by
  induction es with
  | nil => rfl
  | cons e es ih =>
    simp only [List.flatMap_cons, linesOf, List.flatMap_append, ih, encodeEdit_items]
    congr 1
    simp only [List.flatMap_map, List.flatMap_cons, List.flatMap_nil, List.append_nil, Ln.bytes, Ln.text,
      List.append_assoc]
    congr 1
    have : ∀ (its : List Item), its.flatMap (Item.line crc)
        = its.flatMap (fun i => hex8 (crc i.body) ++ (i.body ++ [10])) := by
      intro its
      induction its with
      | nil => rfl
      | cons i its ih =>
        simp only [List.flatMap_cons, ih]
        congr 1
        rw [item_line_eq]
        simp [Ln.bytes, Ln.text]
    exact this _

/-- the reader's state machine on whole lines -/
def runLines : List Ln → Edit → List Edit × Edit
  | [], cur => ([], cur)
  | .it i :: ls, cur => runLines ls (i.applyTo cur)
  | .sep :: ls, cur => ((cur :: (runLines ls Edit.empty).1), (runLines ls Edit.empty).2)

theorem read_lines (hcrc : CrcOk crc) : ∀ (ls : List Ln) (f : Nat) (rest : List Nat) (cur : Edit),
    (∀ l ∈ ls, l.Ok) →
    readEdits crc (f + ls.length) (ls.flatMap (Ln.bytes crc) ++ rest) cur
      = ((runLines ls cur).1 ++ (readEdits crc f rest (runLines ls cur).2).1,
         (readEdits crc f rest (runLines ls cur).2).2)
  | [], f, rest, cur, _ => by simp [runLines]
  | .it i :: ls, f, rest, cur, hok => by
    simp only [List.flatMap_cons, List.length_cons, List.append_assoc, runLines]
    have : f + (ls.length + 1) = (f + ls.length) + 1 := by omega
    rw [this, ← item_line_eq, readEdits_step crc hcrc _ i (hok _ List.mem_cons_self)]
    exact read_lines hcrc ls f rest _ (fun l hl => hok l (List.mem_cons_of_mem _ hl))
  | .sep :: ls, f, rest, cur, hok => by
    simp only [List.flatMap_cons, List.length_cons, List.append_assoc, runLines, Ln.bytes, Ln.text]
    have : f + (ls.length + 1) = (f + ls.length) + 1 := by omega
    rw [this]
    have h10 : SEP ++ ([10] ++ (ls.flatMap (Ln.bytes crc) ++ rest))
        = SEP ++ 10 :: (ls.flatMap (Ln.bytes crc) ++ rest) := rfl
    have hb : List.flatMap (fun l => Ln.text crc l ++ [10]) ls = ls.flatMap (Ln.bytes crc) := rfl
    rw [h10, readEdits_sep]
    rw [read_lines hcrc ls f rest _ (fun l hl => hok l (List.mem_cons_of_mem _ hl))]
    simp

theorem runLines_items : ∀ (its : List Item) (ls : List Ln) (cur : Edit),
    runLines (its.map .it ++ ls) cur = runLines ls (its.foldl Item.applyTo cur)
  | [], _, _ => rfl
  | i :: its, ls, cur => by
    simp only [List.map_cons, List.cons_append, runLines, List.foldl_cons]
    exact runLines_items its ls _

theorem runLines_items_only : ∀ (its : List Item) (cur : Edit),
    (runLines (its.map .it) cur).1 = []
  | [], _ => rfl
  | i :: its, cur => by simp only [List.map_cons, runLines]; exact runLines_items_only its _

/-- whole lines of the stream replay to a prefix of the edits -/
theorem runLines_prefix : ∀ (es : List Edit) (k : Nat),
    ∃ c, (runLines ((linesOf es).take k) Edit.empty).1 = es.take c
  | [], k => ⟨0, by simp [linesOf, runLines]⟩
  | e :: es, k => by
    have hl : linesOf (e :: es) = (items e).map .it ++ (.sep :: linesOf es) := by
      simp [linesOf]
    rw [hl]
    rcases Nat.lt_or_ge k ((items e).length + 1) with hk | hk
    · -- inside the first edit: nothing complete yet
      refine ⟨0, ?_⟩
      rw [List.take_append]
      have h0 : k - ((items e).map Ln.it).length = 0 := by simp; omega
      rw [h0, List.take_zero, List.append_nil, ← List.map_take, runLines_items_only]
      rfl
    · obtain ⟨c, hc⟩ := runLines_prefix es (k - ((items e).length + 1))
      refine ⟨c + 1, ?_⟩
      rw [List.take_append, List.take_of_length_le (by simp; omega)]
      have hk' : k - ((items e).map Ln.it).length = (k - ((items e).length + 1)) + 1 := by simp; omega
      rw [hk', List.take_succ_cons, runLines_items, foldl_items]
      simp only [runLines, List.take_succ_cons]
      rw [hc]

/-! ### a torn last line -/

theorem splitLine_noNl : ∀ (l : List Nat), (∀ b ∈ l, b ≠ 10) → splitLine l = (l, none)
  | [], _ => rfl
  | b :: t, h => by
    have hb : b ≠ 10 := h b List.mem_cons_self
    have ih := splitLine_noNl t (fun x hx => h x (List.mem_cons_of_mem _ hx))
    unfold splitLine
    split
    · rename_i heq; cases heq
    · rename_i heq; injection heq with h1 _; exact absurd h1 hb
    · rename_i heq; injection heq with h1 h2; subst h1 h2; simp only [ih]

theorem item_body_ok (i : Item) (h : i.Ok) :
    2 ≤ i.body.length ∧ (∀ b ∈ i.body, b < 128 ∧ b ≠ 10) ∧ i.body.getLast? ≠ some 13 := by
  have key : ∀ (a : Nat) (s : List Nat), a < 128 → a ≠ 10 → StrOk s →
      2 ≤ (a :: s).length ∧ (∀ b ∈ a :: s, b < 128 ∧ b ≠ 10) ∧ (a :: s).getLast? ≠ some 13 := by
    intro a s ha ha10 hs
    obtain ⟨hne, hb, hl⟩ := hs
    refine ⟨?_, ?_, ?_⟩
    · have := List.length_pos_iff.mpr hne; simp; omega
    · intro b hb'
      rcases List.mem_cons.mp hb' with rfl | hb'
      · exact ⟨ha, ha10⟩
      · exact hb b hb'
    · obtain ⟨p0, pt, rfl⟩ := List.exists_cons_of_ne_nil hne
      rw [List.getLast?_cons_cons]; exact hl
  cases i with
  | rm s => exact key 45 s (by omega) (by omega) h
  | add s => exact key 43 s (by omega) (by omega) h
  | info k s => exact key k s h.2.1 h.2.2.1 h.1

theorem text_noNl (l : Ln) (h : l.Ok) : ∀ b ∈ l.text crc, b ≠ 10 := by
  cases l with
  | sep => intro b hb; simp [Ln.text, SEP] at hb; omega
  | it i =>
    intro b hb
    simp only [Ln.text, List.mem_append] at hb
    rcases hb with hb | hb
    · exact (hex8_ascii _ b hb).2
    · exact ((item_body_ok i h).2.1 b hb).2

theorem hex8_head (c : Nat) : ∃ d t, hex8 c = d :: t ∧ d ≠ 45 := by
  refine ⟨hexDigit (c / 268435456 % 16), _, rfl, (hexDigit_ascii _ (by omega)).2.2.2⟩

/-- a proper prefix of a written line never parses -/
theorem partial_corrupt (hcrc : CrcOk crc) (l : Ln) (hok : l.Ok) (hnc : l.NoCollision crc) (j : Nat)
    (hj : j < (l.text crc).length) : parseLine crc ((l.text crc).take j) = .corrupt := by
  cases l with
  | sep =>
    simp only [Ln.text, SEP, List.length_cons, List.length_nil] at hj ⊢
    rcases j with _ | _ | _ | _ | _ | _ | _ | _ | j <;> first | omega | (simp [parseLine, SEP])
  | it i =>
    obtain ⟨hb2, hbytes, _⟩ := item_body_ok i hok
    simp only [Ln.text] at hj ⊢
    rw [List.length_append, hex8_length] at hj
    unfold parseLine
    split
    · rfl
    · have hlen : ((hex8 (crc i.body) ++ i.body).take j).length = j := by
        rw [List.length_take, List.length_append, hex8_length]; omega
      have hnsep : (hex8 (crc i.body) ++ i.body).take j ≠ SEP := by
        intro h
        have h8 : j = 8 := by have := congrArg List.length h; rw [hlen] at this; simpa [SEP] using this
        subst h8
        rw [List.take_left' (hex8_length _)] at h
        obtain ⟨d, t, hd, hne⟩ := hex8_head (crc i.body)
        rw [hd] at h
        simp only [SEP, List.cons.injEq] at h
        exact hne h.1
      rw [if_neg hnsep, hlen]
      by_cases h9 : j > 9
      · rw [if_pos h9]
        have htake : ((hex8 (crc i.body) ++ i.body).take j).take 8 = hex8 (crc i.body) := by
          rw [List.take_take, Nat.min_eq_left (by omega)]
          exact List.take_left' (hex8_length _)
        have hdrop : ((hex8 (crc i.body) ++ i.body).take j).drop 8 = i.body.take (j - 8) := by
          rw [List.take_append, hex8_length, List.take_of_length_le (by rw [hex8_length]; omega)]
          exact List.drop_left' (hex8_length _)
        rw [htake, parseHex8_hex8 _ (hcrc _)]
        simp only
        rw [hdrop, if_pos (hnc (j - 8) (by omega) (by omega))]
      · rw [if_neg h9]

theorem stripCr_take (t : List Nat) (j : Nat) (hj : j < t.length) :
    ∃ j', j' < t.length ∧ stripCr (t.take j) = t.take j' := by
  unfold stripCr
  split
  · refine ⟨j - 1, by omega, ?_⟩
    exact List.dropLast_take hj
  · exact ⟨j, hj, rfl⟩

theorem readEdits_nil (f : Nat) (cur : Edit) : readEdits crc (f + 1) [] cur = ([], false) := rfl

/-- reading `j` bytes of a line (the newline not among them) -/
theorem torn_read (hcrc : CrcOk crc) (l : Ln) (hok : l.Ok) (hnc : l.NoCollision crc) (f j : Nat)
    (cur : Edit) (hj0 : 0 < j) (hj : j ≤ (l.text crc).length) :
    readEdits crc (f + 2) ((l.bytes crc).take j) cur =
      if j = (l.text crc).length then
        (match l with | .it _ => ([], false) | .sep => ([cur], false))
      else ([], true) := by
  have htk : (l.bytes crc).take j = (l.text crc).take j := by
    unfold Ln.bytes; rw [List.take_append_of_le_length hj]
  have hnl : ∀ b ∈ (l.text crc).take j, b ≠ 10 := fun b hb => text_noNl crc l hok b (List.mem_of_mem_take hb)
  have hne : (l.text crc).take j ≠ [] := by
    intro h
    have := congrArg List.length h
    rw [List.length_take, Nat.min_eq_left hj] at this
    simp at this; omega
  rw [htk, show f + 2 = (f + 1) + 1 from rfl, readEdits_unfold crc (f + 1) _ cur hne, splitLine_noNl _ hnl]
  simp only [Option.getD_none]
  by_cases hfull : j = (l.text crc).length
  · rw [if_pos hfull, hfull, List.take_length]
    cases l with
    | sep =>
      have h2 : stripCr SEP = SEP := by decide
      have h3 : parseLine crc SEP = .sep := by
        unfold parseLine
        have : SEP.any (fun b => decide (b ≥ 128)) = false := by decide
        rw [this]; simp
      simp only [Ln.text, h2, h3, readEdits_nil]
    | it i =>
      obtain ⟨hb2, hbytes, hlast⟩ := item_body_ok i hok
      simp only [Ln.text]
      cases i with
      | rm s =>
        have h2 := (line_roundtrip crc hcrc 45 s [] (by omega) (by omega) hok).2
        have hp := parseLine_body crc hcrc 45 s (by omega) hok
        simp only [Item.body]
        rw [h2, hp]; simp [readEdits_nil]
      | add s =>
        have h2 := (line_roundtrip crc hcrc 43 s [] (by omega) (by omega) hok).2
        have hp := parseLine_body crc hcrc 43 s (by omega) hok
        simp only [Item.body]
        rw [h2, hp]; simp [readEdits_nil]
      | info k s =>
        obtain ⟨hs, hk, hk10, hk43, hk45⟩ := hok
        have h2 := (line_roundtrip crc hcrc k s [] hk hk10 hs).2
        have hp := parseLine_body crc hcrc k s hk hs
        simp only [Item.body]
        rw [h2, hp]; simp [readEdits_nil, hk43, hk45, hk10]
  · rw [if_neg hfull]
    obtain ⟨j', hj', he⟩ := stripCr_take (l.text crc) j (by omega)
    rw [he, partial_corrupt crc hcrc l hok hnc j' hj']

/-! ### every cut -/

theorem take_lines : ∀ (ls : List Ln) (m : Nat),
    (ls.flatMap (Ln.bytes crc)).take m = ls.flatMap (Ln.bytes crc)
    ∨ ∃ k l j, ls[k]? = some l ∧ j < (l.bytes crc).length
        ∧ (ls.flatMap (Ln.bytes crc)).take m = (ls.take k).flatMap (Ln.bytes crc) ++ (l.bytes crc).take j
  | [], m => Or.inl (by simp)
  | l :: ls, m => by
    simp only [List.flatMap_cons]
    rw [List.take_append]
    by_cases hm : m < (l.bytes crc).length
    · right
      refine ⟨0, l, m, rfl, hm, ?_⟩
      have : m - (l.bytes crc).length = 0 := by omega
      rw [this]; simp
    · rw [List.take_of_length_le (by omega)]
      rcases take_lines ls (m - (l.bytes crc).length) with h | ⟨k, l', j, hk, hj, he⟩
      · left; rw [h]
      · right
        refine ⟨k + 1, l', j, by simpa using hk, hj, ?_⟩
        rw [he]; simp

theorem runLines_snoc_sep : ∀ (xs : List Ln) (cur : Edit),
    (runLines (xs ++ [.sep]) cur).1 = (runLines xs cur).1 ++ [(runLines xs cur).2]
  | [], _ => rfl
  | .it i :: xs, cur => by simp only [List.cons_append, runLines]; exact runLines_snoc_sep xs _
  | .sep :: xs, cur => by
    simp only [List.cons_append, runLines, List.cons_append]
    rw [runLines_snoc_sep xs]

theorem lines_ok (es : List Edit) (hok : ∀ e ∈ es, e.Ok) : ∀ l ∈ linesOf es, l.Ok := by
  intro l hl
  unfold linesOf at hl
  simp only [List.mem_flatMap, List.mem_append, List.mem_map, List.mem_singleton] at hl
  obtain ⟨e, he, h | h⟩ := hl
  · obtain ⟨i, hi, rfl⟩ := h
    exact items_ok e (hok e he) i hi
  · subst h; trivial

/-- **C13** truncation at any byte: reading the first `m` bytes of a MANIFEST that holds the edits
    `es` either fails with a corruption error or yields `es.take c` for some `c` — whole edits only,
    in order, none invented.  (An edit whose separator line is complete but for the newline counts
    as written; an edit cut anywhere before that is absent or, if a line is torn, an error.) -/
theorem torn_manifest (hcrc : CrcOk crc) (es : List Edit) (hok : ∀ e ∈ es, e.Ok)
    (hnc : ∀ l ∈ linesOf es, l.NoCollision crc) (m f : Nat) :
    (readEdits crc (f + 2 + (linesOf es).length) ((es.flatMap (encodeEdit crc)).take m) Edit.empty).2 = true
    ∨ ∃ c, readEdits crc (f + 2 + (linesOf es).length) ((es.flatMap (encodeEdit crc)).take m) Edit.empty
        = (es.take c, false) := by
  rw [stream_eq]
  have hlok := lines_ok es hok
  rcases take_lines crc (linesOf es) m with hw | ⟨k, l, j, hk, hj, he⟩
  · -- nothing cut off
    right
    rw [hw]
    have := read_lines crc hcrc (linesOf es) (f + 2) [] Edit.empty hlok
    rw [List.append_nil] at this
    rw [this]
    obtain ⟨c, hc⟩ := runLines_prefix es (linesOf es).length
    rw [List.take_length] at hc
    exact ⟨c, by rw [hc]; simp [readEdits_nil]⟩
  · rw [he]
    obtain ⟨hklt, hkl⟩ := List.getElem?_eq_some_iff.mp hk
    have hlen : ((linesOf es).take k).length = k := by rw [List.length_take]; omega
    have hfuel : f + 2 + (linesOf es).length
        = (f + 2 + ((linesOf es).length - k)) + ((linesOf es).take k).length := by rw [hlen]; omega
    rw [hfuel]
    have hr := read_lines crc hcrc ((linesOf es).take k) (f + 2 + ((linesOf es).length - k))
      ((l.bytes crc).take j) Edit.empty (fun x hx => hlok x (List.mem_of_mem_take hx))
    rw [hr]
    obtain ⟨c, hc⟩ := runLines_prefix es k
    rcases Nat.eq_zero_or_pos j with hj0 | hjpos
    · -- cut exactly at a line boundary
      right
      subst hj0
      refine ⟨c, ?_⟩
      have : f + 2 + ((linesOf es).length - k) = (f + 1 + ((linesOf es).length - k)) + 1 := by omega
      rw [List.take_zero, this, readEdits_nil, hc]; simp
    · have hjt : j ≤ (l.text crc).length := by
        unfold Ln.bytes at hj; simp at hj; omega
      have hf2 : f + 2 + ((linesOf es).length - k) = (f + ((linesOf es).length - k)) + 2 := by omega
      rw [hf2, torn_read crc hcrc l (hlok l (List.mem_of_getElem? hk))
        (hnc l (List.mem_of_getElem? hk)) _ j _ hjpos hjt]
      by_cases hfull : j = (l.text crc).length
      · rw [if_pos hfull]
        right
        cases l with
        | it i => exact ⟨c, by rw [hc]; simp⟩
        | sep =>
          obtain ⟨c', hc'⟩ := runLines_prefix es (k + 1)
          have htk : (linesOf es).take (k + 1) = (linesOf es).take k ++ [.sep] := by
            rw [List.take_succ, hk]; rfl
          rw [htk, runLines_snoc_sep] at hc'
          exact ⟨c', by rw [← hc']⟩
      · rw [if_neg hfull]
        left; rfl

end Blue.Mani

#print axioms Blue.Mani.torn_manifest
