import Blue.Proofs.SkipRuns
/-! A whole iteration of the skiplist by `next()` calls, spread over several states.

    `iterator_moves_next` (`next_lands`) speaks about ONE load: it lands on the smallest linked key
    above the one the iterator stands on, with respect to the keys linked at the time of that load.
    An iteration is a sequence of such loads, each in its own state, with any calls and steps of any
    threads in between.  `Iter i s x ks`: thread `i` is about to load from node `x` in state `s`
    (`x = 0`: `seek_to_first`), and iterating on from there until `next()` reaches the null pointer
    yields the keys `ks`.  Composition of the per-load facts: the keys come out strictly increasing
    (hence none twice), each was linked when it was loaded, and no key that was linked when the
    iteration began — in particular no key whose `insert` had returned — and that lies above the
    starting point is skipped (`iteration_complete`, `full_iteration_shows_returned`). -/
namespace Blue.SkipML

/-- keys of existing nodes never change, and the heap only grows -/
theorem step_heap (s : St) (i : Nat) :
    s.heap.length ≤ (step s i).heap.length ∧ ∀ n, n < s.heap.length → mkey (step s i).heap n = mkey s.heap n := by
  have same : ∀ s' : St, s'.heap = s.heap →
      s.heap.length ≤ s'.heap.length ∧ ∀ n, n < s.heap.length → mkey s'.heap n = mkey s.heap n := by
    intro s' h; rw [h]; exact ⟨Nat.le_refl _, fun _ _ => rfl⟩
  have set : ∀ (s' : St) l n v, s'.heap = msetNext s.heap l n v →
      s.heap.length ≤ s'.heap.length ∧ ∀ x, x < s.heap.length → mkey s'.heap x = mkey s.heap x := by
    intro s' l n v h; rw [h, length_msetNext]
    exact ⟨Nat.le_refl _, fun x _ => mkey_msetNext s.heap l n x v⟩
  cases hpc : (th s i).pc with
  | idle =>
    have hs : step s i = s := by unfold step; simp only [hpc]
    rw [hs]; exact same _ rfl
  | panicked =>
    have hs : step s i = s := by unfold step; simp only [hpc]
    rw [hs]; exact same _ rfl
  | search k hh x lvl prev obs =>
    unfold step; simp only [hpc]
    repeat' split
    all_goals exact same _ rfl
  | alloc k hh prev obs =>
    unfold step; simp only [hpc]
    refine ⟨?_, ?_⟩
    · show s.heap.length ≤ (s.heap ++ [_]).length
      simp
    · intro n hn
      show mkey (s.heap ++ [_]) n = _
      exact mkey_append _ _ _ hn
  | setNext nd k idx hh prev obs =>
    unfold step; simp only [hpc]
    exact set _ idx nd _ rfl
  | cas nd k idx hh prev obs =>
    unfold step; simp only [hpc]
    split
    · split
      · exact set _ idx _ (some nd) rfl
      · exact set _ idx _ (some nd) rfl
    · exact same _ rfl
  | adv nd k idx hh prev obs =>
    unfold step; simp only [hpc]
    repeat' split
    all_goals exact same _ rfl
  | geq k x lvl c =>
    unfold step; simp only [hpc]
    repeat' split
    all_goals exact same _ rfl
  | lt k x lvl =>
    unfold step; simp only [hpc]
    repeat' split
    all_goals exact same _ rfl
  | last x lvl =>
    unfold step; simp only [hpc]
    repeat' split
    all_goals exact same _ rfl
  | nxt x => unfold step; simp only [hpc]; exact same _ rfl

theorem reaches_heap {s s' : St} (hr : Reaches s s') :
    s.heap.length ≤ s'.heap.length ∧ ∀ n, n < s.heap.length → mkey s'.heap n = mkey s.heap n := by
  have call : ∀ (a b : St), b.heap = a.heap →
      (s.heap.length ≤ a.heap.length ∧ ∀ n, n < s.heap.length → mkey a.heap n = mkey s.heap n) →
      (s.heap.length ≤ b.heap.length ∧ ∀ n, n < s.heap.length → mkey b.heap n = mkey s.heap n) := by
    intro a b h ih; rw [h]; exact ih
  induction hr with
  | refl => exact ⟨Nat.le_refl _, fun _ _ => rfl⟩
  | insert i k hh _ _ ih => exact call _ _ (by unfold callInsert; split <;> rfl) ih
  | seek i k _ ih => exact call _ _ (by unfold callSeek; split <;> rfl) ih
  | contains i k _ ih => exact call _ _ (by unfold callContains; split <;> rfl) ih
  | first i _ ih => exact call _ _ (by unfold callFirst; split <;> rfl) ih
  | last i _ ih => exact call _ _ (by unfold callLast; split <;> rfl) ih
  | next i _ ih =>
    refine call _ _ ?_ ih
    unfold callNext
    split
    · split <;> rfl
    · rfl
  | prev i _ ih =>
    refine call _ _ ?_ ih
    unfold callPrev
    split
    · split <;> rfl
    · rfl
  | @step s1 i _ ih =>
    obtain ⟨h1, h2⟩ := step_heap s1 i
    exact ⟨Nat.le_trans ih.1 h1, fun n hn => by rw [h2 n (Nat.lt_of_lt_of_le hn ih.1)]; exact ih.2 n hn⟩

/-- thread `i` stands before the load of `next()` from node `x` in state `s`; iterating on until the
    null pointer — any calls and steps of any threads between two loads — yields the keys `ks` -/
inductive Iter (i : Nat) : St → Nat → List Nat → Prop where
  | done {s : St} {x : Nat} : (th s i).pc = .nxt x → mnext s.heap 0 x = none → Iter i s x []
  | more {s s' : St} {x n : Nat} {ks : List Nat} : (th s i).pc = .nxt x → mnext s.heap 0 x = some n →
      Reaches (step s i) s' → Iter i s' n ks → Iter i s x (mkey s.heap n :: ks)

/-- **a whole iteration, composed from its loads**: the keys come out strictly increasing and above
    the key of the starting node, each was linked when loaded, and every key linked when the
    iteration began that lies above the starting point (all of them, from the head) is among them -/
theorem iteration_complete {i : Nat} {s : St} {x : Nat} {ks : List Nat} (hit : Iter i s x ks) (h : Reach s) :
    ks.Pairwise (· < ·) ∧ (x ≠ 0 → ∀ k ∈ ks, mkey s.heap x < k) ∧
    ∀ k ∈ s.inserted, (x = 0 ∨ mkey s.heap x < k) → k ∈ ks := by
  induction hit with
  | done hpc hnone =>
    refine ⟨List.Pairwise.nil, (fun _ k hk => by cases hk), ?_⟩
    intro k hk hx
    obtain ⟨h1, _⟩ := next_lands h i _ hpc
    obtain ⟨hne, hle⟩ := h1 hnone k hk
    rcases hx with hx | hx
    · exact absurd hx hne
    · omega
  | more hpc hsome hr hrest ih =>
    rename_i s0 s' x0 n ks'
    have hreach' : Reach s' := reach_of_reaches (.step i h) hr
    obtain ⟨ih1, ih2, ih3⟩ := ih hreach'
    obtain ⟨_, hl⟩ := next_lands h i x0 hpc
    obtain ⟨hnlinked, hgt, hmin⟩ := hl n hsome
    have hr0 : Reaches s0 s' := by
      have : ∀ {a b : St}, Reaches a b → ∀ {c : St}, Reaches c a → Reaches c b := by
        intro a b hab
        induction hab with
        | refl => intro c hc; exact hc
        | insert i k hh _ hok ih => intro c hc; exact .insert i k hh (ih hc) hok
        | seek i k _ ih => intro c hc; exact .seek i k (ih hc)
        | contains i k _ ih => intro c hc; exact .contains i k (ih hc)
        | first i _ ih => intro c hc; exact .first i (ih hc)
        | last i _ ih => intro c hc; exact .last i (ih hc)
        | next i _ ih => intro c hc; exact .next i (ih hc)
        | prev i _ ih => intro c hc; exact .prev i (ih hc)
        | step i _ ih => intro c hc; exact .step i (ih hc)
      exact this hr (.step i .refl)
    -- the loaded node is a node of the level-0 chain: it exists, is not the head, keeps its key
    obtain ⟨ids, hinv⟩ := reach_minv h
    have hx : x0 = 0 ∨ x0 ∈ ids 0 := own_obl hinv i hpc (.on 0 x0) (by simp [obls])
    have hmem : n ∈ ids 0 := minv_next hinv 0 x0 n hinv.hpos hx hsome
    have hnlt : n < s0.heap.length := minv_ids_lt hinv 0 n hmem
    have hn0 : n ≠ 0 := fun hc => hinv.noHead 0 (by subst hc; exact hmem)
    have hkey : mkey s'.heap n = mkey s0.heap n := (reaches_heap hr0).2 n hnlt
    refine ⟨?_, ?_, ?_⟩
    · refine List.pairwise_cons.mpr ⟨?_, ih1⟩
      intro k hk
      have := ih2 hn0 k hk; rw [hkey] at this; exact this
    · intro hx0 k hk
      rcases List.mem_cons.mp hk with rfl | hk
      · exact hgt hx0
      · have h1 := ih2 hn0 k hk
        rw [hkey] at h1
        have h2 := hgt hx0
        omega
    · intro k hk hxk
      rcases hmin k hk with ⟨hne, hle⟩ | hge
      · rcases hxk with hxk | hxk
        · exact absurd hxk hne
        · omega
      · by_cases heq : mkey s0.heap n = k
        · rw [heq]; exact List.mem_cons_self
        · refine List.mem_cons_of_mem _ (ih3 k (linked_stays_linked_run h hr0 k hk) (Or.inr ?_))
          rw [hkey]; omega

/-- **every returned insert appears in every later full iteration, once**: an iteration from the
    head (`seek_to_first` then `next()` to the end) begun in any state after `insert(k)` returned
    yields `k`, and yields no key twice (the keys are strictly increasing) -/
theorem full_iteration_shows_returned {s0 s : St} (h0 : Reach s0) (hr : Reaches s0 s) {i : Nat} {ks : List Nat}
    (hit : Iter i s 0 ks) : ks.Pairwise (· < ·) ∧ ∀ k ∈ s0.returned, k ∈ ks := by
  obtain ⟨h1, _, h3⟩ := iteration_complete hit (reach_of_reaches h0 hr)
  exact ⟨h1, fun k hk => h3 k (returned_stays_linked h0 hr k hk) (Or.inl rfl)⟩

end Blue.SkipML
