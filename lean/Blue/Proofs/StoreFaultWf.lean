import Blue.Proofs.StoreCrash
import Blue.Model.StoreFault
/-! Structural facts about every directory a history can leave behind, whatever the point it is cut
    at: every file in sst/ is whole and synced (it was linked from a synced temporary), and log
    numbers are distinct.  `Guarded`: the side conditions under which single operations keep these
    facts (a link follows the sync of its temporary; a new log has a new number); every block of
    `StoreCrash.opsOf` is guarded. -/
namespace Blue.StoreFault
open Blue.StoreCrash

def SstWhole (fs : Fs) : Prop := ∀ nm f, find fs.sst nm = some f → f = ⟨nm, nm⟩

def LogsNodup (fs : Fs) : Prop := (fs.logs.map (·.1)).Nodup

structure Wf (fs : Fs) : Prop where
  sst : SstWhole fs
  logs : LogsNodup fs

/-- side condition of one operation -/
def G (fs : Fs) : Op → Prop
  | .logCreate n => n ∉ fs.logs.map (·.1)
  | .link nm => ∀ f, find fs.tmp nm = some f → f = ⟨nm, nm⟩
  | _ => True

def Guarded : Fs → List Op → Prop
  | _, [] => True
  | fs, op :: ops => G fs op ∧ Guarded (step fs op) ops

theorem guarded_cons {fs : Fs} {op : Op} {ops : List Op} :
    Guarded fs (op :: ops) ↔ G fs op ∧ Guarded (step fs op) ops := Iff.rfl

theorem guarded_append : ∀ (a b : List Op) (fs : Fs),
    Guarded fs (a ++ b) ↔ Guarded fs a ∧ Guarded (run fs a) b
  | [], b, fs => by simp [Guarded, run]
  | op :: a, b, fs => by
    rw [List.cons_append, guarded_cons, guarded_cons, run_cons, guarded_append a b (step fs op)]
    exact and_assoc.symm

theorem guarded_take : ∀ (ops : List Op) (fs : Fs) (n : Nat), Guarded fs ops → Guarded fs (ops.take n)
  | [], _, _, _ => by simp [Guarded]
  | _ :: _, _, 0, _ => by simp [Guarded]
  | op :: ops, fs, n + 1, h => by
    rw [List.take_succ_cons, guarded_cons]
    exact ⟨h.1, guarded_take ops (step fs op) n h.2⟩

theorem find_filter_self (x : Name) : ∀ (t : List (Name × File)),
    find (t.filter (fun e => e.1 ≠ x)) x = none
  | [] => rfl
  | (k, f) :: t => by
    rw [List.filter_cons]
    by_cases hk : k = x
    · subst hk
      simp only [ne_eq, not_true_eq_false, decide_false, Bool.false_eq_true, if_false]
      exact find_filter_self k t
    · simp only [ne_eq, hk, not_false_eq_true, decide_true, if_true]
      rw [find_cons_ne hk]
      exact find_filter_self x t

theorem map_fst_upd (n : Nat) (g : File → File) (logs : List (Nat × File)) :
    (logs.map (fun l => if l.1 = n then (l.1, g l.2) else l)).map (·.1) = logs.map (·.1) := by
  rw [List.map_map]
  apply List.map_congr_left
  intro l _
  simp only [Function.comp]
  split <;> rfl

theorem wf_step {fs : Fs} {op : Op} (h : Wf fs) (g : G fs op) : Wf (step fs op) := by
  obtain ⟨hs, hl⟩ := h
  cases op with
  | logCreate n =>
    refine ⟨hs, ?_⟩
    show ((fs.logs ++ [(n, (⟨[], []⟩ : File))]).map (·.1)).Nodup
    rw [List.map_append, List.nodup_append]
    refine ⟨hl, by simp, ?_⟩
    intro a ha b hb
    simp only [List.map_cons, List.map_nil, List.mem_singleton] at hb
    subst hb
    intro he; subst he; exact g ha
  | logAppend n b =>
    refine ⟨hs, ?_⟩
    show (List.map (fun l : Nat × File => l.1) (List.map
      (fun l : Nat × File => if l.1 = n then (l.1, { l.2 with data := l.2.data ++ [b] }) else l) fs.logs)).Nodup
    rw [map_fst_upd n (fun f => { f with data := f.data ++ [b] })]; exact hl
  | logSync n =>
    refine ⟨hs, ?_⟩
    show (List.map (fun l : Nat × File => l.1) (List.map
      (fun l : Nat × File => if l.1 = n then (l.1, { l.2 with durable := l.2.data }) else l) fs.logs)).Nodup
    rw [map_fst_upd n (fun f => { f with durable := f.data })]; exact hl
  | ack _ => exact ⟨hs, hl⟩
  | tmpCreate _ _ => exact ⟨hs, hl⟩
  | tmpSync _ => exact ⟨hs, hl⟩
  | link nm =>
    refine ⟨?_, ?_⟩
    · intro x f hx
      simp only [step] at hx
      cases ht : find fs.tmp nm with
      | none => rw [ht] at hx; exact hs x f hx
      | some t =>
        rw [ht] at hx
        simp only at hx
        by_cases hnx : nm = x
        · subst hnx
          rw [show find ((nm, t) :: fs.sst) nm = some t from find_cons_eq] at hx
          cases hx
          exact g _ ht
        · rw [show find ((nm, t) :: fs.sst) x = find fs.sst x from find_cons_ne hnx] at hx
          exact hs x f hx
    · show ((step fs (Op.link nm)).logs.map (·.1)).Nodup
      simp only [step]
      split <;> exact hl
  | maniAppend _ => exact ⟨hs, hl⟩
  | maniSync => exact ⟨hs, hl⟩
  | tmpUnlink _ => exact ⟨hs, hl⟩
  | logTrash n =>
    refine ⟨hs, ?_⟩
    show ((fs.logs.filter _).map (·.1)).Nodup
    exact List.Nodup.sublist (List.Sublist.map _ List.filter_sublist) hl
  | sstTrash x =>
    refine ⟨?_, hl⟩
    intro nm f hnm
    by_cases hx : nm = x
    · subst hx
      rw [show (step fs (Op.sstTrash nm)).sst = fs.sst.filter (fun e => e.1 ≠ nm) from rfl,
        find_filter_self] at hnm
      cases hnm
    · rw [show (step fs (Op.sstTrash x)).sst = fs.sst.filter (fun e => e.1 ≠ x) from rfl,
        find_filter_ne hx] at hnm
      exact hs nm f hnm

theorem wf_run : ∀ (ops : List Op) (fs : Fs), Wf fs → Guarded fs ops → Wf (run fs ops)
  | [], _, h, _ => h
  | op :: ops, fs, h, g => by
    rw [run_cons]
    exact wf_run ops (step fs op) (wf_step h g.1) g.2

/-- operations without a side condition -/
def Plain : Op → Prop
  | .logCreate _ => False
  | .link _ => False
  | _ => True

theorem g_plain {fs : Fs} {op : Op} (h : Plain op) : G fs op := by
  cases op <;> first | trivial | exact absurd h id

theorem guarded_plain : ∀ (ops : List Op) (fs : Fs), (∀ op ∈ ops, Plain op) → Guarded fs ops
  | [], _, _ => trivial
  | op :: ops, fs, h =>
    ⟨g_plain (h op List.mem_cons_self),
      guarded_plain ops (step fs op) (fun o ho => h o (List.mem_cons_of_mem _ ho))⟩

/-- links of names whose temporaries are whole -/
theorem guarded_links : ∀ (outs : List Name) (fs : Fs), (∀ o ∈ outs, find fs.tmp o = some ⟨o, o⟩) →
    Guarded fs (outs.map Op.link)
  | [], _, _ => trivial
  | o :: outs, fs, h => by
    rw [List.map_cons, guarded_cons]
    refine ⟨?_, guarded_links outs (step fs (Op.link o)) ?_⟩
    · intro f hf
      rw [h o List.mem_cons_self] at hf; cases hf; rfl
    · intro o' ho'
      have : (step fs (Op.link o)).tmp = fs.tmp := by
        simp only [step]; split <;> rfl
      rw [this]; exact h o' (List.mem_cons_of_mem _ ho')

/-! ### the blocks of a history -/

theorem guarded_put (fs : Fs) (kv : Kv) : Guarded fs (block kv .put) :=
  guarded_plain _ _ (by
    intro op hop
    simp only [block, List.mem_cons, List.not_mem_nil, or_false] at hop
    rcases hop with rfl | rfl | rfl <;> trivial)

theorem guarded_flush {fs : Fs} {kv : Kv} (h : Inv fs kv) : Guarded fs (block kv .flush) := by
  by_cases hne : kv.content = []
  · simp [block, hne, Guarded]
  · obtain ⟨tmp, sst, md, mp, logs⟩ := fs
    obtain ⟨h2, h3, h4, h5, h6⟩ := h
    simp only at h2 h3 h4 h5
    subst h4 h5
    simp only [block, if_neg hne, List.cons_append, List.nil_append, Guarded, G, step, List.map_cons,
      List.map_nil, find, if_true, and_true, true_and]
    refine ⟨by simp, ?_⟩
    intro f hf; cases hf; rfl

theorem guarded_reopen {fs : Fs} {kv : Kv} (h : Inv fs kv) : Guarded fs (block kv .reopen) := by
  obtain ⟨tmp, sst, md, mp, logs⟩ := fs
  obtain ⟨h2, h3, h4, h5, h6⟩ := h
  simp only at h2 h3 h4 h5
  subst h4 h5
  by_cases hne : kv.content = []
  · simp [block, hne, Guarded, G, step]
  · simp only [block, if_neg hne, List.cons_append, List.nil_append, Guarded, G, step, List.map_cons,
      List.map_nil, find, if_true, and_true, true_and]
    refine ⟨?_, by simp⟩
    intro f hf; cases hf; rfl

theorem guarded_compact {fs : Fs} {kv : Kv} (p : Name → Bool) (outs : List Name) :
    Guarded fs (block kv (.compact p outs)) := by
  by_cases hv : validCompact kv p outs
  · rw [compact_split kv p outs hv]
    obtain ⟨_, ctmp⟩ := create_phase outs fs [] (by intro g hg; cases hg)
    rw [guarded_append, guarded_append, guarded_append, guarded_append]
    refine ⟨⟨⟨⟨?_, ?_⟩, ?_⟩, ?_⟩, ?_⟩
    · exact guarded_plain _ _ (by
        intro op hop
        simp only [List.mem_flatMap, List.mem_cons, List.not_mem_nil, or_false] at hop
        obtain ⟨o, _, rfl | rfl⟩ := hop <;> trivial)
    · exact guarded_links outs _ (fun o ho => ctmp o (by simpa using ho))
    · exact guarded_plain _ _ (by
        intro op hop
        simp only [List.mem_map] at hop
        obtain ⟨o, _, rfl⟩ := hop; trivial)
    · exact guarded_plain _ _ (by
        intro op hop
        simp only [List.mem_cons, List.not_mem_nil, or_false] at hop
        rcases hop with rfl | rfl <;> trivial)
    · exact guarded_plain _ _ (by
        intro op hop
        simp only [List.mem_map] at hop
        obtain ⟨o, _, rfl⟩ := hop; trivial)
  · simp [block, hv, Guarded]

theorem guarded_block {fs : Fs} {kv : Kv} (h : Inv fs kv) (c : Client) : Guarded fs (block kv c) := by
  cases c with
  | put => exact guarded_put fs kv
  | flush => exact guarded_flush h
  | compact p outs => exact guarded_compact p outs
  | reopen => exact guarded_reopen h

/-- the state after a whole block satisfies the block-boundary invariant again -/
theorem inv_block {fs : Fs} {kv : Kv} (h : Inv fs kv) (c : Client) :
    Inv (run fs (block kv c)) (after kv c) := by
  cases c with
  | put => exact (put_block h).2.2.2.2
  | flush =>
    by_cases hne : kv.content = []
    · have hb : block kv .flush = [] := by simp [block, hne]
      have ha : after kv .flush = kv := by simp [after, hne]
      rw [hb, ha]; exact h
    · exact (flush_block h hne).2
  | compact p outs =>
    by_cases hv : validCompact kv p outs
    · exact (compact_block h p outs hv).2
    · have hb : block kv (.compact p outs) = [] := by simp [block, hv]
      have ha : after kv (.compact p outs) = kv := by simp [after, hv]
      rw [hb, ha]; exact h
  | reopen => exact (reopen_block h).2

theorem guarded_opsOf : ∀ (h : List Client) (fs : Fs) (kv : Kv), Inv fs kv → Guarded fs (opsOf h kv)
  | [], _, _, _ => trivial
  | c :: cs, fs, kv, hinv => by
    simp only [opsOf]
    rw [guarded_append]
    exact ⟨guarded_block hinv c, guarded_opsOf cs _ _ (inv_block hinv c)⟩

end Blue.StoreFault
