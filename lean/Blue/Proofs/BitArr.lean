import Blue.Model.BitArr
/-! Round-trip facts about the bit-array model: what `push_word` wrote, `load` reads back. -/
namespace Blue.BitArr

@[simp] theorem toBits_zero (v : Nat) : toBits v 0 = [] := rfl
theorem toBits_succ (v w : Nat) : toBits v (w + 1) = (v % 2 == 1) :: toBits (v / 2) w := rfl

@[simp] theorem toBits_length (v w : Nat) : (toBits v w).length = w := by
  induction w generalizing v with
  | zero => rfl
  | succ w ih => simp [toBits_succ, ih]

@[simp] theorem ofBits_nil : ofBits [] = 0 := rfl
theorem ofBits_cons (b : Bool) (t : List Bool) : ofBits (b :: t) = (if b then 1 else 0) + 2 * ofBits t := rfl

theorem ofBits_lt (l : List Bool) : ofBits l < 2 ^ l.length := by
  induction l with
  | nil => simp
  | cons b t ih =>
    rw [ofBits_cons, List.length_cons, Nat.pow_succ]
    cases b <;> simp <;> omega

theorem ofBits_toBits (v w : Nat) : ofBits (toBits v w) = v % 2 ^ w := by
  induction w generalizing v with
  | zero => simp [Nat.mod_one]
  | succ w ih =>
    rw [toBits_succ, ofBits_cons, ih, Nat.pow_succ]
    have h2 : v % 2 = 0 ∨ v % 2 = 1 := by omega
    have key : v % (2 ^ w * 2) = v % 2 + 2 * (v / 2 % 2 ^ w) := by
      rw [Nat.mul_comm (2 ^ w) 2, Nat.mod_mul]
    rw [key]
    rcases h2 with h | h <;> simp [h]

theorem ofBits_toBits_of_lt (v w : Nat) (h : v < 2 ^ w) : ofBits (toBits v w) = v := by
  rw [ofBits_toBits, Nat.mod_eq_of_lt h]

theorem ofBits_append (a b : List Bool) : ofBits (a ++ b) = ofBits a + 2 ^ a.length * ofBits b := by
  induction a with
  | nil => simp
  | cons x t ih =>
    rw [List.cons_append, ofBits_cons, ofBits_cons, ih, List.length_cons, Nat.pow_succ]
    rw [Nat.mul_add, Nat.mul_comm (2 ^ t.length) 2, Nat.mul_assoc]
    omega

theorem ofBits_replicate_false (n : Nat) : ofBits (List.replicate n false) = 0 := by
  induction n with
  | zero => rfl
  | succ n ih => rw [List.replicate_succ, ofBits_cons, ih]; rfl

/-- padding a chunk with clear bits does not change its value -/
theorem ofBits_append_false (a : List Bool) (n : Nat) : ofBits (a ++ List.replicate n false) = ofBits a := by
  rw [ofBits_append, ofBits_replicate_false]; simp

/-! ### seal -/

theorem sealBits_eq (a : List Bool) : sealBits a = a ++ List.replicate ((8 - a.length % 8) % 8) false := rfl

theorem sealBits_length_mod (a : List Bool) : (sealBits a).length % 8 = 0 := by
  rw [sealBits_eq, List.length_append, List.length_replicate]; omega

theorem sealBits_length_ge (a : List Bool) : a.length ≤ (sealBits a).length := by
  rw [sealBits_eq, List.length_append]; omega

theorem sealBits_length_lt (a : List Bool) : (sealBits a).length < a.length + 8 := by
  rw [sealBits_eq, List.length_append, List.length_replicate]; omega

/-! ### load -/

/-- on whole bytes the "every touched byte exists" test is a bound on the last bit -/
theorem load_whole (a : List Bool) (hb : a.length % 8 = 0) (idx w : Nat) :
    load a idx w = if w = 0 then some 0 else if idx + w ≤ a.length then some (ofBits ((a.drop idx).take w)) else none := by
  unfold load
  by_cases hw : w = 0
  · simp [hw]
  · simp only [hw, if_false]
    have : ((idx + w - 1) / 8 < a.length / 8) ↔ idx + w ≤ a.length := by omega
    by_cases h : idx + w ≤ a.length
    · rw [if_pos (this.mpr h), if_pos h]
    · rw [if_neg (fun x => h (this.mp x)), if_neg h]

theorem load_zero_width (a : List Bool) (idx : Nat) : load a idx 0 = some 0 := by
  unfold load; simp

/-- what `push_word(v, w)` wrote at bit offset `pre.length` is what `load(pre.length, w)` reads -/
theorem load_mid (pre post : List Bool) (v w : Nat) (hv : v < 2 ^ w)
    (hb : (pre ++ toBits v w ++ post).length % 8 = 0) :
    load (pre ++ toBits v w ++ post) pre.length w = some v := by
  rw [load_whole _ hb]
  by_cases hw : w = 0
  · subst hw
    have hv0 : v = 0 := by simpa using hv
    simp [hv0]
  · rw [if_neg hw, if_pos (by simp)]
    rw [List.append_assoc, List.drop_left, List.take_left' (toBits_length v w)]
    rw [ofBits_toBits_of_lt v w hv]

/-- the same through `seal` -/
theorem load_sealed_mid (pre post : List Bool) (v w : Nat) (hv : v < 2 ^ w) :
    load (sealBits (pre ++ toBits v w ++ post)) pre.length w = some v := by
  have hb := sealBits_length_mod (pre ++ toBits v w ++ post)
  rw [sealBits_eq] at hb ⊢
  rw [List.append_assoc (pre ++ toBits v w)] at hb ⊢
  exact load_mid pre _ v w hv hb

/-- a load that ends beyond the sealed array fails -/
theorem load_sealed_beyond (a : List Bool) (idx w : Nat) (hw : w ≠ 0) (h : (sealBits a).length < idx + w) :
    load (sealBits a) idx w = none := by
  rw [load_whole _ (sealBits_length_mod a), if_neg hw, if_neg (by omega)]

/-! ### arrays of fixed-width fields (`p`, `r`, the select samples, the values of a `SampledArray`) -/

theorem foldl_pushWord (acc : List Bool) (vals : List Nat) (w : Nat) :
    vals.foldl (fun a v => pushWord a v w) acc = acc ++ vals.flatMap (fun v => toBits v w) := by
  induction vals generalizing acc with
  | nil => simp
  | cons v t ih => rw [List.foldl_cons, ih, List.flatMap_cons, pushWord, List.append_assoc]

theorem packAll_eq (vals : List Nat) (w : Nat) : packAll vals w = vals.flatMap (fun v => toBits v w) := by
  rw [packAll, foldl_pushWord]; simp

theorem flatMap_toBits_length (vals : List Nat) (w : Nat) :
    (vals.flatMap (fun v => toBits v w)).length = vals.length * w := by
  induction vals with
  | nil => simp
  | cons v t ih => rw [List.flatMap_cons, List.length_append, ih, toBits_length, List.length_cons, Nat.succ_mul]; omega

theorem packAll_length (vals : List Nat) (w : Nat) : (packAll vals w).length = vals.length * w := by
  rw [packAll_eq, flatMap_toBits_length]

theorem flatMap_split (vals : List Nat) (w k : Nat) (v : Nat) (hk : vals[k]? = some v) :
    vals.flatMap (fun v => toBits v w)
      = (vals.take k).flatMap (fun v => toBits v w) ++ toBits v w ++ (vals.drop (k + 1)).flatMap (fun v => toBits v w) := by
  have hlt : k < vals.length := by
    rcases Nat.lt_or_ge k vals.length with h | h
    · exact h
    · rw [List.getElem?_eq_none h] at hk; cases hk
  have hsplit : vals = vals.take k ++ v :: vals.drop (k + 1) := by
    have hv : vals[k] = v := by
      rw [List.getElem?_eq_getElem hlt] at hk; exact Option.some.inj hk
    rw [← hv, ← List.drop_eq_getElem_cons hlt, List.take_append_drop]
  conv => lhs; rw [hsplit]
  rw [List.flatMap_append, List.flatMap_cons, List.append_assoc]

/-- the `k`-th field of a sealed fixed-width array reads back -/
theorem load_packAll (vals : List Nat) (w k v : Nat) (hk : vals[k]? = some v) (hv : v < 2 ^ w) :
    load (sealBits (packAll vals w)) (k * w) w = some v := by
  have hlt : k < vals.length := by
    rcases Nat.lt_or_ge k vals.length with h | h
    · exact h
    · rw [List.getElem?_eq_none h] at hk; cases hk
  rw [packAll_eq, flatMap_split vals w k v hk]
  have hl : ((vals.take k).flatMap (fun v => toBits v w)).length = k * w := by
    rw [flatMap_toBits_length, List.length_take, Nat.min_eq_left (Nat.le_of_lt hlt)]
  rw [← hl]
  exact load_sealed_mid _ _ v w hv

/-- a field index beyond the array does not load (fields are at least a byte wide) -/
theorem load_packAll_beyond (vals : List Nat) (w k : Nat) (hw : 8 ≤ w) (hk : vals.length ≤ k) :
    load (sealBits (packAll vals w)) (k * w) w = none := by
  apply load_sealed_beyond _ _ _ (by omega)
  have h1 := sealBits_length_lt (packAll vals w)
  rw [packAll_length] at h1
  have h2 : vals.length * w ≤ k * w := Nat.mul_le_mul_right w hk
  omega

/-! ### sequences of fields of varying width (the `o` array of rrr, a block of cf_rrr) -/

theorem foldl_pushWord_fields (acc : List Bool) (fs : List (Nat × Nat)) :
    fs.foldl (fun a f => pushWord a f.1 f.2) acc = acc ++ packFields fs := by
  induction fs generalizing acc with
  | nil => simp [packFields]
  | cons f t ih => rw [List.foldl_cons, ih]; simp [packFields, pushWord, List.append_assoc]

theorem packFields_length (fs : List (Nat × Nat)) : (packFields fs).length = (fs.map (·.2)).sum := by
  induction fs with
  | nil => rfl
  | cons f t ih =>
    rw [packFields, List.flatMap_cons, List.length_append, toBits_length, List.map_cons, List.sum_cons]
    rw [packFields] at ih; rw [ih]

theorem packFields_append (a b : List (Nat × Nat)) : packFields (a ++ b) = packFields a ++ packFields b := by
  simp [packFields]

/-- the `k`-th field reads back at the offset that is the sum of the widths before it -/
theorem load_packFields (fs : List (Nat × Nat)) (k v w : Nat) (hk : fs[k]? = some (v, w)) (hv : v < 2 ^ w)
    (post : List Bool) :
    load (sealBits (packFields fs ++ post)) (((fs.take k).map (·.2)).sum) w = some v := by
  have hlt : k < fs.length := by
    rcases Nat.lt_or_ge k fs.length with h | h
    · exact h
    · rw [List.getElem?_eq_none h] at hk; cases hk
  have hsplit : fs = fs.take k ++ (v, w) :: fs.drop (k + 1) := by
    have hv : fs[k] = (v, w) := by
      rw [List.getElem?_eq_getElem hlt] at hk; exact Option.some.inj hk
    rw [← hv, ← List.drop_eq_getElem_cons hlt, List.take_append_drop]
  have e : packFields fs ++ post
      = packFields (fs.take k) ++ toBits v w ++ (packFields (fs.drop (k + 1)) ++ post) := by
    conv => lhs; rw [hsplit]
    rw [packFields_append]
    simp [packFields, List.append_assoc]
  rw [e, ← packFields_length]
  exact load_sealed_mid _ _ v w hv

end Blue.BitArr
