import Blue.Model.ConcLog
import Blue.Proofs.LogAny
import Blue.Proofs.LogCrash
import Blue.Proofs.LogCut
import Blue.Proofs.FsyncCore
/-! Proofs about `Blue.ConcLog`: the composition write queue + write core + log writer + file +
    fsync queue + fsync core of `ConcurrentLogBuilder::append`. -/
namespace Blue.ConcLog
open Blue.Log Blue.LogCrash

variable {P : Params} {lim : Nat}

theorem run_snoc (evs : List Ev) (e : Ev) : run P lim (evs ++ [e]) = step P lim (run P lim evs) e := by
  simp [run, List.foldl_append]

theorem run_append (evs evs' : List Ev) :
    run P lim (evs ++ evs') = evs'.foldl (step P lim) (run P lim evs) := by
  simp [run, List.foldl_append]

theorem foldl_induction {motive : St → Prop} (hs : ∀ s e, motive s → motive (step P lim s e)) :
    ∀ (evs : List Ev) (s : St), motive s → motive (evs.foldl (step P lim) s) := by
  intro evs
  induction evs with
  | nil => intro s h; exact h
  | cons e es ih => intro s h; exact ih _ (hs s e h)

theorem run_induction {motive : St → Prop} (h0 : motive init)
    (hs : ∀ s e, motive s → motive (step P lim s e)) (evs : List Ev) : motive (run P lim evs) :=
  foldl_induction hs evs init h0

/-! ## the file is the sequential log of the leaders' batches -/

structure InvA (P : Params) (lim : Nat) (s : St) : Prop where
  file : s.file.synced ++ s.file.pending = writeAll P (merged s) 0
  grp : s.groups.flatten = s.bufs.take s.wrets.length
  wlen : s.wrets.length ≤ s.bufs.length
  sz : ∀ m ∈ merged s, 0 < m.length ∧ m.length ≤ lim
  bsz : ∀ b ∈ s.bufs, 0 < b.length

theorem syncUpto_all (f : FileSt) (k : Nat) :
    (syncUpto f k).synced ++ (syncUpto f k).pending = f.synced ++ f.pending := by
  simp [syncUpto, List.append_assoc, List.take_append_drop]

theorem flen_eq (f : FileSt) : flen f = (f.synced ++ f.pending).length := by
  simp [flen]

theorem flatten_pos_of_group {bufs : List (List Nat)} (hb : ∀ b ∈ bufs, 0 < b.length) (k n : Nat)
    (hn : n ≠ 0) (hk : k + n ≤ bufs.length) : 0 < ((bufs.drop k).take n).flatten.length := by
  have hlen : ((bufs.drop k).take n).length = n := by
    rw [List.length_take, List.length_drop]; omega
  match hg : (bufs.drop k).take n with
  | [] => rw [hg] at hlen; simp at hlen; omega
  | b :: rest =>
    have hmem : b ∈ bufs := by
      have : b ∈ (bufs.drop k).take n := by rw [hg]; exact List.mem_cons_self
      exact List.mem_of_mem_drop (List.mem_of_mem_take this)
    have := hb b hmem
    simp only [List.flatten_cons, List.length_append]
    omega

theorem map_flatten_flatten (L : List (List (List Nat))) : (L.map List.flatten).flatten = L.flatten.flatten := by
  induction L with
  | nil => rfl
  | cons a L ih => simp [ih]

theorem invA_init : InvA P lim init := by
  refine ⟨?_, ?_, ?_, ?_, ?_⟩
  · simp [init, merged, writeAll]
  · simp [init]
  · simp [init]
  · intro m hm; simp [init, merged] at hm
  · intro b hb; simp [init] at hb

theorem invA_step (s : St) (e : Ev) (h : InvA P lim s) : InvA P lim (step P lim s e) := by
  cases e with
  | link buf =>
    simp only [step, stepLink]
    split
    · exact h
    · rename_i hc
      refine ⟨h.file, ?_, ?_, h.sz, ?_⟩
      · show s.groups.flatten = (s.bufs ++ [buf]).take s.wrets.length
        rw [List.take_append_of_le_length h.wlen]; exact h.grp
      · show s.wrets.length ≤ (s.bufs ++ [buf]).length
        have := h.wlen; simp; omega
      · intro b hb
        have hb' : b ∈ s.bufs ++ [buf] := hb
        rcases List.mem_append.1 hb' with hb1 | hb1
        · exact h.bsz b hb1
        · simp at hb1; subst hb1; omega
  | write n =>
    simp only [step, stepWrite]
    split
    · exact h
    · rename_i hc
      have hn : n ≠ 0 := fun h0 => hc (Or.inl h0)
      have hk : s.wrets.length + n ≤ s.bufs.length := by
        rcases Nat.lt_or_ge s.bufs.length (s.wrets.length + n) with h1 | h1
        · exact absurd (Or.inr (Or.inl h1)) hc
        · exact h1
      have hl : ((s.bufs.drop s.wrets.length).take n).flatten.length ≤ lim := by
        rcases Nat.lt_or_ge lim ((s.bufs.drop s.wrets.length).take n).flatten.length with h1 | h1
        · exact absurd (Or.inr (Or.inr h1)) hc
        · exact h1
      refine ⟨?_, ?_, ?_, ?_, h.bsz⟩
      · show s.file.synced ++ (s.file.pending ++ appendAt P 2 (flen s.file) _) = writeAll P ((s.groups ++ [_]).map List.flatten) 0
        rw [List.map_append, writeAll_append, ← List.append_assoc, flen_eq, h.file]
        simp [merged, writeAll]
      · show (s.groups ++ [_]).flatten = s.bufs.take (s.wrets ++ List.replicate n _).length
        rw [List.flatten_append, h.grp, List.length_append, List.length_replicate, List.take_add]
        simp
      · show (s.wrets ++ List.replicate n _).length ≤ s.bufs.length
        rw [List.length_append, List.length_replicate]; exact hk
      · intro m hm
        have hm' : m ∈ (s.groups ++ [(s.bufs.drop s.wrets.length).take n]).map List.flatten := hm
        rw [List.map_append] at hm'
        rcases List.mem_append.1 hm' with h1 | h1
        · exact h.sz m h1
        · simp at h1; subst h1
          exact ⟨flatten_pos_of_group h.bsz _ n hn hk, hl⟩
  | flink i =>
    simp only [step, stepFlink]
    split
    · exact h
    · split
      · exact h
      · exact ⟨h.file, h.grp, h.wlen, h.sz, h.bsz⟩
  | fenter n =>
    simp only [step, stepFenter]
    split
    · exact h
    · split
      · exact ⟨h.file, h.grp, h.wlen, h.sz, h.bsz⟩
      · split
        · exact ⟨h.file, h.grp, h.wlen, h.sz, h.bsz⟩
        · exact h
  | fret ok =>
    simp only [step, stepFret]
    split
    · exact h
    · rename_i a ha
      refine ⟨?_, h.grp, h.wlen, h.sz, h.bsz⟩
      show (if a.ok = true then syncUpto s.file s.fpos else s.file).synced
        ++ (if a.ok = true then syncUpto s.file s.fpos else s.file).pending = _
      split
      · rw [syncUpto_all]; exact h.file
      · exact h.file

theorem invA_run (evs : List Ev) : InvA P lim (run P lim evs) :=
  run_induction invA_init invA_step evs

/-- **the file of every concurrent run is the file of a sequential `LogBuilder`** that appends the
    leaders' merged batches one after the other; those batches are the callers' buffers grouped in
    write-queue link order, every caller handed to the core in exactly one of them; and the
    iterator returns exactly those records, in that order -/
theorem conc_log_file_is_sequential (g : Good P) (hlim : lim ≤ P.tableFull) (evs : List Ev) :
    let s := run P lim evs
    crashA s.file = writeAll P (merged s) 0
      ∧ s.groups.flatten = s.bufs.take s.wrets.length
      ∧ (merged s).flatten = (s.bufs.take s.wrets.length).flatten
      ∧ readAll P (crashA s.file) ((merged s).length + 1) 0 = some (merged s) := by
  intro s
  have h : InvA P lim s := invA_run evs
  refine ⟨h.file, h.grp, ?_, ?_⟩
  · rw [← h.grp]; exact map_flatten_flatten _
  · have hr := log_roundtrip_any g (merged s) [] (fun b hb => Nat.le_trans (h.sz b hb).2 hlim)
    simp only [List.nil_append, List.length_nil] at hr
    show readAll P (s.file.synced ++ s.file.pending) _ 0 = _
    rw [h.file]; exact hr

/-! ## an acknowledged append is durable -/

section fsyncfacts
open Blue.FsyncCore

theorem wrote_facts (s : RSt) (w : Nat) :
    (rstep s (.wrote w)).1.durable = s.durable ∧ (rstep s (.wrote w)).1.flight = s.flight
      ∧ (rstep s (.wrote w)).1.written = max s.written w := ⟨rfl, rfl, rfl⟩

theorem enter_facts (s : RSt) (inputs : List Nat) (hfl : s.flight = none) :
    (rstep s (.enter inputs)).1.written = s.written ∧ (rstep s (.enter inputs)).1.durable = s.durable
      ∧ (∀ a, (rstep s (.enter inputs)).2 = some a → (rstep s (.enter inputs)).1 = s ∧ a.inputs = inputs)
      ∧ (∀ f, (rstep s (.enter inputs)).1.flight = some f → f.inputs = inputs ∧ f.len = s.written) := by
  simp only [rstep, hfl]
  split
  · split
    · refine ⟨rfl, rfl, ?_, ?_⟩
      · intro a ha; cases ha; exact ⟨rfl, rfl⟩
      · intro f hf; rw [hfl] at hf; cases hf
    · refine ⟨rfl, rfl, ?_, ?_⟩
      · intro a ha; cases ha
      · intro f hf; cases hf; exact ⟨rfl, rfl⟩
  · refine ⟨rfl, rfl, ?_, ?_⟩
    · intro a ha; cases ha
    · intro f hf; rw [hfl] at hf; cases hf

theorem ret_facts (s : RSt) (ok : Bool) (a : Ans) (h : (rstep s (.ret ok)).2 = some a) :
    ∃ f, s.flight = some f ∧ a.inputs = f.inputs ∧ a.ok = ok ∧ (rstep s (.ret ok)).1.flight = none
      ∧ (rstep s (.ret ok)).1.written = s.written
      ∧ (rstep s (.ret ok)).1.durable = (if ok then max s.durable f.len else s.durable) := by
  cases hf : s.flight with
  | none => simp [rstep, hf] at h
  | some f =>
    refine ⟨f, rfl, ?_⟩
    cases ok with
    | false =>
      have h' : a = ⟨f.inputs, false⟩ := by simpa [rstep, hf] using h.symm
      subst h'; simp [rstep, hf]
    | true =>
      have h' : a = ⟨f.inputs, true⟩ := by simpa [rstep, hf] using h.symm
      subst h'; simp [rstep, hf]

theorem run_snoc_fs (t : List REv) (e : REv) : Blue.FsyncCore.run (t ++ [e]) = (rstep (Blue.FsyncCore.run t) e).1 := by
  simp [Blue.FsyncCore.run, List.foldl_append]

end fsyncfacts

theorem getElem?_append_some {α : Type} {l l' : List α} {i : Nat} {a : α} (h : l[i]? = some a) :
    (l ++ l')[i]? = some a := by
  have hi : i < l.length := by
    rcases Nat.lt_or_ge i l.length with h1 | h1
    · exact h1
    · rw [List.getElem?_eq_none h1] at h; cases h
  rw [List.getElem?_append_left hi]; exact h

/-- payload bytes of the first `k` records grow strictly with `k` (no record is empty) -/
theorem pay_take_strict : ∀ (ms : List (List Nat)), (∀ m ∈ ms, 0 < m.length) → ∀ (a k : Nat), k < a → a ≤ ms.length →
    (ms.take k).flatten.length < (ms.take a).flatten.length := by
  intro ms
  induction ms with
  | nil => intro _ a k hk ha; simp at ha; omega
  | cons m rest ih =>
    intro hpos a k hk ha
    cases a with
    | zero => omega
    | succ a' =>
      cases k with
      | zero =>
        have := hpos m List.mem_cons_self
        simp only [List.take_zero, List.flatten_nil, List.length_nil, List.take_succ_cons, List.flatten_cons,
          List.length_append]
        omega
      | succ k' =>
        have := ih (fun x hx => hpos x (List.mem_cons_of_mem _ hx)) a' k' (by omega) (by simpa using ha)
        simp only [List.take_succ_cons, List.flatten_cons, List.length_append]
        omega

theorem writeAll_take_le (ms : List (List Nat)) (a k pos : Nat) (h : a ≤ k) :
    (writeAll P (ms.take a) pos).length ≤ (writeAll P (ms.take k) pos).length := by
  have : ms.take k = ms.take a ++ (ms.take k).drop a := by
    have h1 : (ms.take k).take a = ms.take a := by rw [List.take_take, Nat.min_eq_left h]
    rw [← h1, List.take_append_drop]
  rw [this, writeAll_append, List.length_append]
  omega

structure InvB (P : Params) (s : St) : Prop where
  wr : s.written = (merged s).flatten.length ∧ s.fs.written = s.written
  tr : s.fs = Blue.FsyncCore.run s.trace
  wret : ∀ (i : Nat) (w : WRet), s.wrets[i]? = some w → w.round < s.groups.length
      ∧ w.off = ((merged s).take (w.round + 1)).flatten.length
      ∧ ∃ g b, s.groups[w.round]? = some g ∧ s.bufs[i]? = some b ∧ b ∈ g
  dur : ∃ k, k ≤ (merged s).length ∧ s.fs.durable = ((merged s).take k).flatten.length
      ∧ (writeAll P ((merged s).take k) 0).length ≤ s.file.synced.length
  fl : ∀ f, s.fs.flight = some f → f.inputs = s.fmem.map Prod.snd ∧ s.fpos ≤ flen s.file
      ∧ ∃ k, k ≤ (merged s).length ∧ f.len = ((merged s).take k).flatten.length
          ∧ (writeAll P ((merged s).take k) 0).length = s.fpos
  fqw : ∀ e ∈ s.fq, ∃ w, s.wrets[e.1]? = some w ∧ w.off = e.2
  fmq : ∀ e ∈ s.fmem, e ∈ s.fq
  ans : ∀ i, (i, true) ∈ s.answers → ∃ w, s.wrets[i]? = some w ∧ w.off ≤ s.fs.durable

theorem invB_init : InvB P init := by
  refine ⟨⟨rfl, rfl⟩, rfl, ?_, ⟨0, ?_, ?_, ?_⟩, ?_, ?_, ?_, ?_⟩
  · intro i w h; simp [init] at h
  · simp [init, merged]
  · simp [init, merged, Blue.FsyncCore.init]
  · simp [init, merged, writeAll]
  · intro f h; simp [init, Blue.FsyncCore.init] at h
  · intro e h; simp [init] at h
  · intro e h; simp [init] at h
  · intro i h; simp [init] at h

theorem merged_length (s : St) : (merged s).length = s.groups.length := by simp [merged]

theorem invB_step (s : St) (e : Ev) (hA : InvA P lim s) (h : InvB P s) : InvB P (step P lim s e) := by
  cases e with
  | link buf =>
    simp only [step, stepLink]
    split
    · exact h
    · refine ⟨h.wr, h.tr, ?_, h.dur, h.fl, h.fqw, h.fmq, h.ans⟩
      intro i w hw
      obtain ⟨h1, h2, g, b, h3, h4, h5⟩ := h.wret i w hw
      exact ⟨h1, h2, g, b, h3, getElem?_append_some h4, h5⟩
  | write n =>
    simp only [step, stepWrite]
    split
    · exact h
    · rename_i hc
      have hn : n ≠ 0 := fun h0 => hc (Or.inl h0)
      have hk : s.wrets.length + n ≤ s.bufs.length := by
        rcases Nat.lt_or_ge s.bufs.length (s.wrets.length + n) with h1 | h1
        · exact absurd (Or.inr (Or.inl h1)) hc
        · exact h1
      generalize hg : (s.bufs.drop s.wrets.length).take n = g
      have hm' : ∀ (s' : St), s'.groups = s.groups ++ [g] → merged s' = merged s ++ [g.flatten] := by
        intro s' hs'; simp [merged, hs']
      have htake : ∀ k, k ≤ (merged s).length → (merged s ++ [g.flatten]).take k = (merged s).take k :=
        fun k hk' => List.take_append_of_le_length hk'
      refine ⟨?_, ?_, ?_, ?_, ?_, ?_, h.fmq, ?_⟩
      · refine ⟨?_, ?_⟩
        · show s.written + g.flatten.length = (merged _).flatten.length
          rw [hm' _ rfl, List.flatten_append, List.length_append, h.wr.1]; simp
        · show max s.fs.written (s.written + g.flatten.length) = s.written + g.flatten.length
          rw [h.wr.2]; omega
      · show (Blue.FsyncCore.rstep s.fs _).1 = Blue.FsyncCore.run (s.trace ++ [_])
        rw [run_snoc_fs, ← h.tr]
      · intro i w hw
        have hw' : (s.wrets ++ List.replicate n (⟨s.groups.length, s.written + g.flatten.length⟩ : WRet))[i]? = some w := hw
        show w.round < (s.groups ++ [g]).length ∧ w.off = ((merged _).take (w.round + 1)).flatten.length
          ∧ ∃ g' b, (s.groups ++ [g])[w.round]? = some g' ∧ s.bufs[i]? = some b ∧ b ∈ g'
        rw [hm' _ rfl]
        rcases Nat.lt_or_ge i s.wrets.length with hi | hi
        · rw [List.getElem?_append_left hi] at hw'
          obtain ⟨h1, h2, g', b, h3, h4, h5⟩ := h.wret i w hw'
          refine ⟨by rw [List.length_append]; omega, ?_, g', b, getElem?_append_some h3, h4, h5⟩
          rw [htake _ (by rw [merged_length]; omega)]; exact h2
        · rw [List.getElem?_append_right hi, List.getElem?_replicate] at hw'
          split at hw'
          · rename_i hj
            cases hw'
            refine ⟨by rw [List.length_append]; simp, ?_, ?_⟩
            · show s.written + g.flatten.length = _
              rw [← merged_length, List.take_of_length_le (by simp), List.flatten_append, List.length_append, h.wr.1]
              simp
            · have hib : i < s.bufs.length := by omega
              refine ⟨g, s.bufs[i], ?_, ?_, ?_⟩
              · show (s.groups ++ [g])[s.groups.length]? = some g
                simp
              · exact List.getElem?_eq_getElem hib
              · apply List.mem_of_getElem? (i := i - s.wrets.length)
                rw [← hg, List.getElem?_take, if_pos hj, List.getElem?_drop]
                have : s.wrets.length + (i - s.wrets.length) = i := by omega
                rw [this]; exact List.getElem?_eq_getElem hib
          · cases hw'
      · obtain ⟨k, k1, k2, k3⟩ := h.dur
        refine ⟨k, ?_, ?_, ?_⟩
        · rw [hm' _ rfl, List.length_append]; omega
        · rw [hm' _ rfl, htake k k1]; exact k2
        · rw [hm' _ rfl, htake k k1]; exact k3
      · intro f hf
        obtain ⟨f1, f2, k, k1, k2, k3⟩ := h.fl f hf
        refine ⟨f1, ?_, k, ?_, ?_, ?_⟩
        · show s.fpos ≤ flen (s.file.apply _)
          simp only [flen, FileSt.apply, List.length_append] at f2 ⊢; omega
        · rw [hm' _ rfl, List.length_append]; omega
        · rw [hm' _ rfl, htake k k1]; exact k2
        · rw [hm' _ rfl, htake k k1]; exact k3
      · intro e he
        obtain ⟨w, w1, w2⟩ := h.fqw e he
        exact ⟨w, getElem?_append_some w1, w2⟩
      · intro i hi
        obtain ⟨w, w1, w2⟩ := h.ans i hi
        exact ⟨w, getElem?_append_some w1, w2⟩
  | flink i =>
    simp only [step, stepFlink]
    split
    · exact h
    · rename_i w hw
      split
      · exact h
      · refine ⟨h.wr, h.tr, h.wret, h.dur, h.fl, ?_, ?_, h.ans⟩
        · intro e he
          have he' : e ∈ s.fq ++ [(i, w.off)] := he
          rcases List.mem_append.1 he' with h1 | h1
          · exact h.fqw e h1
          · simp at h1; subst h1; exact ⟨w, hw, rfl⟩
        · intro e he
          show e ∈ s.fq ++ [(i, w.off)]
          exact List.mem_append_left _ (h.fmq e he)
  | fenter n =>
    simp only [step, stepFenter]
    split
    · exact h
    · rename_i hc
      have hnf : s.fs.flight = none := by
        cases hfl : s.fs.flight with
        | none => rfl
        | some f => exact absurd (Or.inr (Or.inr (by simp [hfl]))) hc
      obtain ⟨e1, e2, e3, e4⟩ := enter_facts s.fs (((s.fq.drop s.ftaken).take n).map Prod.snd) hnf
      have hmemq : ∀ e ∈ (s.fq.drop s.ftaken).take n, e ∈ s.fq :=
        fun e he => List.mem_of_mem_drop (List.mem_of_mem_take he)
      split
      · rename_i a ha
        obtain ⟨a1, a2⟩ := e3 a ha
        refine ⟨?_, ?_, h.wret, ?_, ?_, h.fqw, h.fmq, ?_⟩
        · exact ⟨h.wr.1, by show (Blue.FsyncCore.rstep _ _).1.written = _; rw [e1]; exact h.wr.2⟩
        · show (Blue.FsyncCore.rstep s.fs _).1 = Blue.FsyncCore.run (s.trace ++ [_])
          rw [run_snoc_fs, ← h.tr]
        · obtain ⟨k, k1, k2, k3⟩ := h.dur
          exact ⟨k, k1, by show (Blue.FsyncCore.rstep _ _).1.durable = _; rw [e2]; exact k2, k3⟩
        · intro f hf
          have hf' : (Blue.FsyncCore.rstep s.fs (.enter (((s.fq.drop s.ftaken).take n).map Prod.snd))).1.flight = some f := hf
          rw [a1, hnf] at hf'; cases hf'
        · intro i hi
          have hi' : (i, true) ∈ s.answers ++ ((s.fq.drop s.ftaken).take n).map (fun e => (e.1, a.ok)) := hi
          show ∃ w, s.wrets[i]? = some w ∧ w.off ≤ (Blue.FsyncCore.rstep s.fs _).1.durable
          rcases List.mem_append.1 hi' with h1 | h1
          · obtain ⟨w, w1, w2⟩ := h.ans i h1
            exact ⟨w, w1, by rw [e2]; exact w2⟩
          · obtain ⟨e, he, heq⟩ := List.mem_map.1 h1
            have h1' : e.1 = i := congrArg Prod.fst heq
            have h2' : a.ok = true := congrArg Prod.snd heq
            obtain ⟨w, w1, w2⟩ := h.fqw e (hmemq e he)
            refine ⟨w, by rw [← h1']; exact w1, ?_⟩
            have hd := Blue.FsyncCore.run_answered_true_is_durable s.trace
              (.enter (((s.fq.drop s.ftaken).take n).map Prod.snd)) a (by rw [← h.tr]; exact ha) h2'
            rw [← h.tr] at hd
            rw [w2]
            exact hd e.2 (by rw [a2]; exact List.mem_map.2 ⟨e, he, rfl⟩)
      · split
        · rename_i hsome
          refine ⟨?_, ?_, h.wret, ?_, ?_, h.fqw, ?_, ?_⟩
          · exact ⟨h.wr.1, by show (Blue.FsyncCore.rstep _ _).1.written = _; rw [e1]; exact h.wr.2⟩
          · show (Blue.FsyncCore.rstep s.fs _).1 = Blue.FsyncCore.run (s.trace ++ [_])
            rw [run_snoc_fs, ← h.tr]
          · obtain ⟨k, k1, k2, k3⟩ := h.dur
            exact ⟨k, k1, by show (Blue.FsyncCore.rstep _ _).1.durable = _; rw [e2]; exact k2, k3⟩
          · intro f hf
            obtain ⟨f1, f2⟩ := e4 f hf
            refine ⟨f1, Nat.le_refl _, (merged s).length, Nat.le_refl _, ?_, ?_⟩
            · show f.len = ((merged s).take (merged s).length).flatten.length
              rw [f2, List.take_length, h.wr.2, h.wr.1]
            · show (writeAll P ((merged s).take (merged s).length) 0).length = flen s.file
              rw [List.take_length, flen_eq, hA.file]
          · exact hmemq
          · intro i hi
            obtain ⟨w, w1, w2⟩ := h.ans i hi
            exact ⟨w, w1, by show _ ≤ (Blue.FsyncCore.rstep _ _).1.durable; rw [e2]; exact w2⟩
        · exact h
  | fret ok =>
    simp only [step, stepFret]
    split
    · exact h
    · rename_i a ha
      obtain ⟨f, r1, r2, r3, r4, r5, r6⟩ := ret_facts s.fs ok a ha
      obtain ⟨f1, f2, kf, kf1, kf2, kf3⟩ := h.fl f r1
      refine ⟨?_, ?_, h.wret, ?_, ?_, h.fqw, ?_, ?_⟩
      · exact ⟨h.wr.1, by show (Blue.FsyncCore.rstep _ _).1.written = _; rw [r5]; exact h.wr.2⟩
      · show (Blue.FsyncCore.rstep s.fs _).1 = Blue.FsyncCore.run (s.trace ++ [_])
        rw [run_snoc_fs, ← h.tr]
      · obtain ⟨k, k1, k2, k3⟩ := h.dur
        show ∃ k, k ≤ (merged s).length
          ∧ (Blue.FsyncCore.rstep s.fs (.ret ok)).1.durable = ((merged s).take k).flatten.length
          ∧ (writeAll P ((merged s).take k) 0).length
              ≤ (if a.ok = true then syncUpto s.file s.fpos else s.file).synced.length
        rw [r6, r3]
        cases ok with
        | false => exact ⟨k, k1, k2, k3⟩
        | true =>
          rw [if_pos rfl, if_pos rfl]
          have hs : (syncUpto s.file s.fpos).synced.length
              = s.file.synced.length + min (s.fpos - s.file.synced.length) s.file.pending.length := by
            simp [syncUpto]
          simp only [flen] at f2
          rcases Nat.le_total f.len s.fs.durable with hle | hle
          · refine ⟨k, k1, by rw [Nat.max_eq_left hle]; exact k2, ?_⟩
            rw [hs]; omega
          · refine ⟨kf, kf1, by rw [Nat.max_eq_right hle]; exact kf2, ?_⟩
            rw [hs, kf3]; omega
      · intro f' hf'
        have hf'' : (Blue.FsyncCore.rstep s.fs (.ret ok)).1.flight = some f' := hf'
        rw [r4] at hf''; cases hf''
      · intro e he; cases he
      · intro i hi
        have hi' : (i, true) ∈ s.answers ++ s.fmem.map (fun e => (e.1, a.ok)) := hi
        show ∃ w, s.wrets[i]? = some w ∧ w.off ≤ (Blue.FsyncCore.rstep s.fs _).1.durable
        rcases List.mem_append.1 hi' with h1 | h1
        · obtain ⟨w, w1, w2⟩ := h.ans i h1
          exact ⟨w, w1, Nat.le_trans w2 (Blue.FsyncCore.durable_mono _ _)⟩
        · obtain ⟨e, he, heq⟩ := List.mem_map.1 h1
          have h1' : e.1 = i := congrArg Prod.fst heq
          have h2' : a.ok = true := congrArg Prod.snd heq
          obtain ⟨w, w1, w2⟩ := h.fqw e (h.fmq e he)
          refine ⟨w, by rw [← h1']; exact w1, ?_⟩
          have hd := Blue.FsyncCore.run_answered_true_is_durable s.trace (.ret ok) a (by rw [← h.tr]; exact ha) h2'
          rw [← h.tr] at hd
          rw [w2]
          exact hd e.2 (by rw [r2, f1]; exact List.mem_map.2 ⟨e, he, rfl⟩)

theorem invAB_run (evs : List Ev) : InvA P lim (run P lim evs) ∧ InvB P (run P lim evs) :=
  run_induction (motive := fun s => InvA P lim s ∧ InvB P s) ⟨invA_init, invB_init⟩
    (fun s e h => ⟨invA_step s e h.1, invB_step s e h.1 h.2⟩) evs

/-- **an acknowledged append survives every crash.**  Caller `i`'s `append` has returned `Ok(())`
    (`acked`): its buffer is in the leader's batch `groups[w.round]`, the frames of the log records
    `0 … w.round` lie wholly inside what a successfully returned `fdatasync` covered
    (`crashB` = the synced bytes), and whatever prefix `t` of the bytes written since survives
    (`t = 0`: persistence model (b); `t ≥ |pending|`: model (a)), the reopened iterator delivers
    EXACTLY the first `j` records of the link-order sequence, `j > w.round`: the record holding the
    caller's buffer is among them, whole.  (For every run: also with any events after the
    acknowledgement — `ack_persists`.) -/
theorem conc_log_ack_is_durable (g : Good P) (hlim : lim ≤ P.tableFull) (evs : List Ev) (i : Nat)
    (hack : acked (run P lim evs) i = true) (t : Nat) :
    let s := run P lim evs
    ∃ (w : WRet) (grp : List (List Nat)) (b : List Nat) (j : Nat),
      s.wrets[i]? = some w ∧ s.groups[w.round]? = some grp ∧ s.bufs[i]? = some b ∧ b ∈ grp
      ∧ (writeAll P ((merged s).take (w.round + 1)) 0).length ≤ (crashB s.file).length
      ∧ w.round < j ∧ j ≤ (merged s).length
      ∧ (readSome P (s.file.synced ++ s.file.pending.take t) ((merged s).length + 1) 0).1 = (merged s).take j := by
  intro s
  obtain ⟨hA, hB⟩ : InvA P lim s ∧ InvB P s := invAB_run evs
  have hmem : (i, true) ∈ s.answers := by simpa [acked] using hack
  obtain ⟨w, w1, w2⟩ := hB.ans i hmem
  obtain ⟨r1, r2, grp, b, r3, r4, r5⟩ := hB.wret i w w1
  obtain ⟨k, k1, k2, k3⟩ := hB.dur
  have hpos : ∀ m ∈ merged s, 0 < m.length := fun m hm => (hA.sz m hm).1
  have hrk : w.round + 1 ≤ k := by
    rcases Nat.lt_or_ge k (w.round + 1) with hlt | hge
    · have := pay_take_strict (merged s) hpos (w.round + 1) k hlt (by rw [merged_length]; omega)
      omega
    · exact hge
  have hcov : (writeAll P ((merged s).take (w.round + 1)) 0).length ≤ s.file.synced.length :=
    Nat.le_trans (writeAll_take_le (merged s) _ _ 0 hrk) k3
  have hsurv : s.file.synced ++ s.file.pending.take t
      = (writeAll P (merged s) 0).take (s.file.synced.length + t) := by
    rw [← hA.file, List.take_length_add_append]
  obtain ⟨j, j1, j2, j3⟩ := cut_delivers_exactly g (merged s) (w.round + 1) (s.file.synced.length + t)
    (fun m hm => Nat.le_trans (hA.sz m hm).2 hlim) (by omega)
  refine ⟨w, grp, b, j, w1, r3, r4, r5, hcov, ?_, j2, ?_⟩
  · have : w.round + 1 ≤ (merged s).length := by rw [merged_length]; omega
    rw [Nat.min_eq_left this] at j1; omega
  · rw [hsurv]; exact j3

/-! ## nobody is answered twice; a failed `fdatasync` is an error for its members -/

structure InvC (s : St) : Prop where
  fqn : (s.fq.map Prod.fst).Nodup
  part : s.answers.map Prod.fst ++ s.fmem.map Prod.fst = (s.fq.take s.ftaken).map Prod.fst
  ftk : s.ftaken ≤ s.fq.length
  idle : s.fs.flight = none → s.fmem = []

theorem invC_init : InvC init := ⟨by simp [init], by simp [init], by simp [init], fun _ => rfl⟩

theorem invC_step (s : St) (e : Ev) (h : InvC s) : InvC (step P lim s e) := by
  cases e with
  | link buf =>
    simp only [step, stepLink]
    split
    · exact h
    · exact ⟨h.fqn, h.part, h.ftk, h.idle⟩
  | write n =>
    simp only [step, stepWrite]
    split
    · exact h
    · exact ⟨h.fqn, h.part, h.ftk, h.idle⟩
  | flink i =>
    simp only [step, stepFlink]
    split
    · exact h
    · rename_i w hw
      split
      · exact h
      · rename_i hni
        refine ⟨?_, ?_, ?_, h.idle⟩
        · show ((s.fq ++ [(i, w.off)]).map Prod.fst).Nodup
          rw [List.map_append, List.nodup_append]
          refine ⟨h.fqn, by simp, ?_⟩
          intro a ha b hb
          simp at hb; subst hb
          intro hab; subst hab; exact hni ha
        · show _ = ((s.fq ++ [(i, w.off)]).take s.ftaken).map Prod.fst
          rw [List.take_append_of_le_length h.ftk]; exact h.part
        · show s.ftaken ≤ (s.fq ++ [(i, w.off)]).length
          have := h.ftk; simp; omega
  | fenter n =>
    simp only [step, stepFenter]
    split
    · exact h
    · rename_i hc
      have hnf : s.fs.flight = none := by
        cases hfl : s.fs.flight with
        | none => rfl
        | some f => exact absurd (Or.inr (Or.inr (by simp [hfl]))) hc
      have hk : s.ftaken + n ≤ s.fq.length := by
        rcases Nat.lt_or_ge s.fq.length (s.ftaken + n) with h1 | h1
        · exact absurd (Or.inr (Or.inl h1)) hc
        · exact h1
      have hfm := h.idle hnf
      have hpart := h.part
      rw [hfm] at hpart
      simp only [List.map_nil, List.append_nil] at hpart
      obtain ⟨e1, e2, e3, e4⟩ := enter_facts s.fs (((s.fq.drop s.ftaken).take n).map Prod.snd) hnf
      split
      · rename_i a ha
        refine ⟨h.fqn, ?_, hk, ?_⟩
        · show (s.answers ++ ((s.fq.drop s.ftaken).take n).map (fun e => (e.1, a.ok))).map Prod.fst
            ++ s.fmem.map Prod.fst = ((s.fq.take (s.ftaken + n))).map Prod.fst
          rw [hfm, List.take_add, List.map_append, List.map_append, hpart]
          simp [Function.comp_def]
        · intro _; exact hfm
      · split
        · rename_i hsome
          refine ⟨h.fqn, ?_, hk, ?_⟩
          · show s.answers.map Prod.fst ++ ((s.fq.drop s.ftaken).take n).map Prod.fst
              = ((s.fq.take (s.ftaken + n))).map Prod.fst
            rw [List.take_add, List.map_append, hpart]
          · intro hno
            have hno' : (Blue.FsyncCore.rstep s.fs (.enter (((s.fq.drop s.ftaken).take n).map Prod.snd))).1.flight = none := hno
            rw [hno'] at hsome; cases hsome
        · exact h
  | fret ok =>
    simp only [step, stepFret]
    split
    · exact h
    · rename_i a ha
      refine ⟨h.fqn, ?_, h.ftk, fun _ => rfl⟩
      show (s.answers ++ s.fmem.map (fun e => (e.1, a.ok))).map Prod.fst ++ ([] : List (Nat × Nat)).map Prod.fst
        = (s.fq.take s.ftaken).map Prod.fst
      rw [← h.part]
      simp [Function.comp_def]

theorem invC_run (evs : List Ev) : InvC (run P lim evs) := run_induction invC_init invC_step evs

theorem nodup_fst_unique : ∀ (l : List (Nat × Bool)), (l.map Prod.fst).Nodup → ∀ (i : Nat) (a b : Bool),
    (i, a) ∈ l → (i, b) ∈ l → a = b := by
  intro l
  induction l with
  | nil => intro _ i a b h; cases h
  | cons x l ih =>
    intro hn i a b ha hb
    rw [List.map_cons, List.nodup_cons] at hn
    rcases List.mem_cons.1 ha with ha | ha <;> rcases List.mem_cons.1 hb with hb | hb
    · rw [← hb] at ha; exact congrArg Prod.snd ha
    · exact absurd (List.mem_map.2 ⟨(i, b), hb, by rw [← ha]⟩) hn.1
    · exact absurd (List.mem_map.2 ⟨(i, a), ha, by rw [← hb]⟩) hn.1
    · exact ih hn.2 i a b ha hb

/-- every caller is answered at most once -/
theorem answered_once (evs : List Ev) : ((run P lim evs).answers.map Prod.fst).Nodup := by
  have h := invC_run (P := P) (lim := lim) evs
  have h1 : ((run P lim evs).answers.map Prod.fst ++ (run P lim evs).fmem.map Prod.fst).Nodup := by
    rw [h.part, List.map_take]
    exact List.Nodup.sublist (List.take_sublist _ _) h.fqn
  exact List.Nodup.sublist (List.sublist_append_left _ _) h1

/-- answers are never taken back: what a caller was told, it was told -/
theorem answers_prefix (evs evs' : List Ev) :
    ∃ rest, (run P lim (evs ++ evs')).answers = (run P lim evs).answers ++ rest := by
  rw [run_append]
  generalize run P lim evs = s0
  refine foldl_induction (motive := fun s => ∃ rest, s.answers = s0.answers ++ rest) ?_ evs' s0 ⟨[], by simp⟩
  intro s e ⟨rest, hr⟩
  cases e with
  | link buf => simp only [step, stepLink]; split <;> exact ⟨rest, hr⟩
  | write n => simp only [step, stepWrite]; split <;> exact ⟨rest, hr⟩
  | flink i =>
    simp only [step, stepFlink]
    split
    · exact ⟨rest, hr⟩
    · split <;> exact ⟨rest, hr⟩
  | fenter n =>
    simp only [step, stepFenter]
    split
    · exact ⟨rest, hr⟩
    · split
      · exact ⟨rest ++ _, by show s.answers ++ _ = _; rw [hr, List.append_assoc]⟩
      · split <;> exact ⟨rest, hr⟩
  | fret ok =>
    simp only [step, stepFret]
    split
    · exact ⟨rest, hr⟩
    · exact ⟨rest ++ _, by show s.answers ++ _ = _; rw [hr, List.append_assoc]⟩

theorem ack_persists (evs evs' : List Ev) (i : Nat) (b : Bool) (h : (i, b) ∈ (run P lim evs).answers) :
    (i, b) ∈ (run P lim (evs ++ evs')).answers := by
  obtain ⟨rest, hr⟩ := answers_prefix (P := P) (lim := lim) evs evs'
  rw [hr]; exact List.mem_append_left _ h

/-- **a failed `fdatasync` is an error for the callers it covered, and stays one.**
    (i) when the call in flight fails, exactly its members are answered `false`
    (`Err(corruption_fsync_failed)`), the file and the core's `synced` / `durable` do not move;
    (ii) nobody is answered twice, so a caller answered `false` is never acknowledged — not by a later
    successful `fdatasync` either, although that one makes the caller's bytes durable: the caller
    has left the queue with its error (the record stays in the file and will be read back:
    `conc_log_file_is_sequential`);
    (iii) an error is not invented: `false` comes only from `fret false` with the caller among the
    members of the call in flight (the step that adds `(i, false)` is that one) -/
theorem conc_log_failed_sync_not_acked (evs : List Ev) :
    let s := run P lim evs
    (∀ f, s.fs.flight = some f →
        (step P lim s (.fret false)).answers = s.answers ++ s.fmem.map (fun e => (e.1, false))
        ∧ (step P lim s (.fret false)).file = s.file
        ∧ (step P lim s (.fret false)).fs.durable = s.fs.durable
        ∧ (step P lim s (.fret false)).fs.synced = s.fs.synced
        ∧ (step P lim s (.fret false)).fs.flight = none)
    ∧ (∀ i, failed s i = true → acked s i = false)
    ∧ (∀ (e : Ev) (i : Nat), (i, false) ∈ (step P lim s e).answers → (i, false) ∉ s.answers →
        e = .fret false ∧ i ∈ s.fmem.map Prod.fst ∧ s.fs.flight.isSome = true) := by
  intro s
  refine ⟨?_, ?_, ?_⟩
  · intro f hf
    have hr := Blue.FsyncCore.failed_call_answers_false_moves_nothing s.fs f hf
    simp [step, stepFret, hr]
  · intro i hf
    have hf' : (i, false) ∈ s.answers := by simpa [failed] using hf
    cases hacked : acked s i with
    | false => rfl
    | true =>
      have ha' : (i, true) ∈ s.answers := by simpa [acked] using hacked
      have := nodup_fst_unique s.answers (answered_once evs) i false true hf' ha'
      cases this
  · intro e i hi hni
    cases e with
    | link buf =>
      simp only [step, stepLink] at hi; split at hi <;> exact absurd hi hni
    | write n =>
      simp only [step, stepWrite] at hi; split at hi <;> exact absurd hi hni
    | flink j =>
      simp only [step, stepFlink] at hi
      split at hi
      · exact absurd hi hni
      · split at hi <;> exact absurd hi hni
    | fenter n =>
      simp only [step, stepFenter] at hi
      split at hi
      · exact absurd hi hni
      · rename_i hc
        have hnf : s.fs.flight = none := by
          cases hfl : s.fs.flight with
          | none => rfl
          | some f => exact absurd (Or.inr (Or.inr (by simp [hfl]))) hc
        split at hi
        · rename_i a ha
          have hi' : (i, false) ∈ s.answers ++ ((s.fq.drop s.ftaken).take n).map (fun e => (e.1, a.ok)) := hi
          rcases List.mem_append.1 hi' with h1 | h1
          · exact absurd h1 hni
          · obtain ⟨e, _, heq⟩ := List.mem_map.1 h1
            have hok : a.ok = false := congrArg Prod.snd heq
            have := (Blue.FsyncCore.false_only_from_failed_call ha hok).1
            cases this
        · split at hi <;> exact absurd hi hni
    | fret ok =>
      simp only [step, stepFret] at hi
      split at hi
      · exact absurd hi hni
      · rename_i a ha
        have hi' : (i, false) ∈ s.answers ++ s.fmem.map (fun e => (e.1, a.ok)) := hi
        rcases List.mem_append.1 hi' with h1 | h1
        · exact absurd h1 hni
        · obtain ⟨e, he, heq⟩ := List.mem_map.1 h1
          have hok : a.ok = false := congrArg Prod.snd heq
          obtain ⟨h1', f, hf, _⟩ := Blue.FsyncCore.false_only_from_failed_call ha hok
          refine ⟨by cases h1'; rfl, ?_, by simp [hf]⟩
          exact List.mem_map.2 ⟨e, he, congrArg Prod.fst heq⟩

/-- the write queue's link order is never rearranged: later events only append callers -/
theorem bufs_prefix (evs evs' : List Ev) :
    ∃ rest, (run P lim (evs ++ evs')).bufs = (run P lim evs).bufs ++ rest := by
  rw [run_append]
  generalize run P lim evs = s0
  refine foldl_induction (motive := fun s => ∃ rest, s.bufs = s0.bufs ++ rest) ?_ evs' s0 ⟨[], by simp⟩
  intro s e ⟨rest, hr⟩
  cases e with
  | link buf =>
    simp only [step, stepLink]
    split
    · exact ⟨rest, hr⟩
    · exact ⟨rest ++ [buf], by show s.bufs ++ [buf] = _; rw [hr, List.append_assoc]⟩
  | write n => simp only [step, stepWrite]; split <;> exact ⟨rest, hr⟩
  | flink i =>
    simp only [step, stepFlink]
    split
    · exact ⟨rest, hr⟩
    · split <;> exact ⟨rest, hr⟩
  | fenter n =>
    simp only [step, stepFenter]
    split
    · exact ⟨rest, hr⟩
    · split
      · exact ⟨rest, hr⟩
      · split <;> exact ⟨rest, hr⟩
  | fret ok =>
    simp only [step, stepFret]
    split <;> exact ⟨rest, hr⟩

/-- **a crash at any LATER point keeps an acknowledged batch**: the caller was acknowledged after
    `evs`; whatever happens afterwards (`evs'`: more appends, more writes, failing or succeeding
    `fdatasync`s) and wherever the crash falls in the bytes written since the last successful one
    (`t`), the reopened iterator delivers exactly the first `j` records of the link-order sequence
    and the record holding the buffer the caller linked with is among them -/
theorem conc_log_ack_survives_later_crash (g : Good P) (hlim : lim ≤ P.tableFull) (evs evs' : List Ev) (i : Nat)
    (hack : acked (run P lim evs) i = true) (t : Nat) :
    let s' := run P lim (evs ++ evs')
    ∃ (w : WRet) (grp : List (List Nat)) (b : List Nat) (j : Nat),
      (run P lim evs).bufs[i]? = some b ∧ s'.wrets[i]? = some w ∧ s'.groups[w.round]? = some grp ∧ b ∈ grp
      ∧ w.round < j ∧ j ≤ (merged s').length
      ∧ (readSome P (s'.file.synced ++ s'.file.pending.take t) ((merged s').length + 1) 0).1 = (merged s').take j := by
  intro s'
  have hmem : (i, true) ∈ (run P lim evs).answers := by simpa [acked] using hack
  have hack' : acked s' i = true := by
    have := ack_persists (P := P) (lim := lim) evs evs' i true hmem
    simpa [acked] using this
  obtain ⟨_, _, b0, _, _, _, hb0, _⟩ := conc_log_ack_is_durable g hlim evs i hack t
  obtain ⟨w, grp, b, j, h1, h2, h3, h4, _, h6, h7, h8⟩ := conc_log_ack_is_durable g hlim (evs ++ evs') i hack' t
  obtain ⟨rest, hr⟩ := bufs_prefix (P := P) (lim := lim) evs evs'
  have : s'.bufs[i]? = some b0 := by
    show (run P lim (evs ++ evs')).bufs[i]? = some b0
    rw [hr]; exact getElem?_append_some hb0
  rw [h3] at this
  have hbb : b = b0 := Option.some.inj this
  rw [hbb] at h4
  exact ⟨w, grp, b0, j, hb0, h1, h2, h4, h6, h7, h8⟩

end Blue.ConcLog


#print axioms Blue.ConcLog.conc_log_file_is_sequential
#print axioms Blue.ConcLog.conc_log_ack_is_durable
#print axioms Blue.ConcLog.conc_log_failed_sync_not_acked
#print axioms Blue.ConcLog.answered_once
#print axioms Blue.ConcLog.ack_persists
#print axioms Blue.ConcLog.conc_log_ack_survives_later_crash
