import Blue.Proofs.Sigma
/-! The bucket bit vector of `Sigma`: cumulative counts, `select` on it, and the counts of a text
    read off its count table. -/
namespace Blue.Sigma
open Blue.BitVec Blue.Sampled

/-! ### `bucketsFrom` -/

theorem bucketsFrom_length : ∀ (cnts : List Nat) (acc : Nat), (bucketsFrom acc cnts).length = cnts.length + 1
  | [], _ => rfl
  | c :: r, acc => by simp [bucketsFrom, bucketsFrom_length r]

theorem bucketsFrom_getElem? : ∀ (cnts : List Nat) (acc j : Nat), j ≤ cnts.length →
    (bucketsFrom acc cnts)[j]? = some (acc + (cnts.take j).sum)
  | [], acc, j, hj => by
    have : j = 0 := by simpa using hj
    subst this; simp [bucketsFrom]
  | c :: r, acc, 0, _ => by simp [bucketsFrom]
  | c :: r, acc, j + 1, hj => by
    have hj' : j ≤ r.length := by simpa using hj
    unfold bucketsFrom
    rw [List.getElem?_cons_succ, bucketsFrom_getElem? r (acc + c) j hj', List.take_succ_cons, List.sum_cons]
    congr 1; omega

theorem bucketsFrom_ge : ∀ (cnts : List Nat) (acc : Nat), ∀ b ∈ bucketsFrom acc cnts, acc ≤ b
  | [], acc, b, hb => by simp [bucketsFrom] at hb; omega
  | c :: r, acc, b, hb => by
    unfold bucketsFrom at hb
    rcases List.mem_cons.mp hb with rfl | hb
    · exact Nat.le_refl _
    · have := bucketsFrom_ge r (acc + c) b hb; omega

theorem bucketsFrom_pairwise : ∀ (cnts : List Nat) (acc : Nat), (∀ c ∈ cnts, 0 < c) →
    (bucketsFrom acc cnts).Pairwise (· < ·)
  | [], _, _ => by simp [bucketsFrom]
  | c :: r, acc, h => by
    unfold bucketsFrom
    rw [List.pairwise_cons]
    refine ⟨?_, bucketsFrom_pairwise r (acc + c) (fun x hx => h x (List.mem_cons_of_mem _ hx))⟩
    intro b hb
    have := bucketsFrom_ge r (acc + c) b hb
    have := h c List.mem_cons_self
    omega

theorem bucketsFrom_getLastD : ∀ (cnts : List Nat) (acc : Nat), (bucketsFrom acc cnts).getLastD 0 = acc + cnts.sum
  | [], acc => by simp [bucketsFrom]
  | c :: r, acc => by
    unfold bucketsFrom
    have hne : bucketsFrom (acc + c) r ≠ [] := by
      intro h; have := congrArg List.length h; rw [bucketsFrom_length] at this; simp at this
    have ih := bucketsFrom_getLastD r (acc + c)
    cases hh : bucketsFrom (acc + c) r with
    | nil => exact absurd hh hne
    | cons x t =>
      rw [hh] at ih
      simp only [List.getLastD_cons, List.sum_cons] at ih ⊢
      omega

theorem bucketsFrom_le_last (cnts : List Nat) (acc : Nat) : ∀ b ∈ bucketsFrom acc cnts, b ≤ acc + cnts.sum := by
  induction cnts generalizing acc with
  | nil => intro b hb; simp [bucketsFrom] at hb; omega
  | cons c r ih =>
    intro b hb
    unfold bucketsFrom at hb
    simp only [List.sum_cons]
    rcases List.mem_cons.mp hb with rfl | hb
    · omega
    · have := ih (acc + c) b hb; omega

/-! ### `select` on a bit vector given by the positions of its set bits -/

theorem countP_lt_mono (offs : List Nat) (a b : Nat) (h : a ≤ b) :
    offs.countP (fun o => decide (o < a)) ≤ offs.countP (fun o => decide (o < b)) := by
  apply List.countP_mono_left
  intro o _ ho
  simp only [decide_eq_true_eq] at ho ⊢
  omega

theorem select_zero (bits : List Bool) : select bits 0 = some 0 :=
  select_complete bits 0 0 (Nat.zero_le _) (by simp) (fun q hq => by omega)

/-- `select(k)` is one past the `k`-th set bit -/
theorem select_presentBits (len : Nat) (offs : List Nat) (hpw : offs.Pairwise (· < ·))
    (hlt : ∀ o ∈ offs, o < len) (k : Nat) (hk : k < offs.length) :
    select (presentBits len offs) (k + 1) = some (offs[k] + 1) := by
  have hol : offs[k] < len := hlt _ (List.getElem_mem hk)
  apply select_complete
  · rw [presentBits_length]; omega
  · rw [presentBits_rank len offs hpw _ (by omega), countP_lt_succ, countP_lt_getElem offs hpw k hk]
    have h1 := count_le_one_of_pairwise offs hpw offs[k]
    have h2 : 0 < offs.count offs[k] := List.count_pos_iff.mpr (List.getElem_mem hk)
    omega
  · intro q hq
    rw [presentBits_rank len offs hpw q (by omega)]
    have := countP_lt_mono offs q offs[k] (by omega)
    rw [countP_lt_getElem offs hpw k hk] at this
    omega

/-- beyond the number of set bits `select` has no answer -/
theorem select_presentBits_none (len : Nat) (offs : List Nat) (hpw : offs.Pairwise (· < ·))
    (k : Nat) (hk : offs.length < k) :
    select (presentBits len offs) k = none := by
  cases h : select (presentBits len offs) k with
  | none => rfl
  | some p =>
    exfalso
    have := (select_defined_iff (presentBits len offs) k).mp (by rw [h]; rfl)
    have hc : (presentBits len offs).count true = offs.countP (fun o => decide (o < len)) := by
      have := presentBits_rank len offs hpw len (Nat.le_refl _)
      rw [List.take_of_length_le (by rw [presentBits_length]; exact Nat.le_refl _)] at this
      exact this
    have hle : offs.countP (fun o => decide (o < len)) ≤ offs.length := List.countP_le_length
    omega

/-! ### the counts of a text, read off its table -/

theorem sum_map_zero {α : Type} (l : List α) : (l.map (fun _ => 0)).sum = 0 := by
  induction l with
  | nil => rfl
  | cons x t ih => rw [List.map_cons, List.sum_cons, ih]

theorem wsum_lt_getElem : ∀ (cs : List (Nat × Nat)), Table cs → ∀ (j : Nat) (hj : j < cs.length),
    wsum (fun x => decide (x < cs[j].1)) cs = ((cs.map (·.2)).take j).sum
  | [], _, j, hj => by simp at hj
  | (a, c) :: r, h, 0, _ => by
    have hk := h.keys
    rw [List.map_cons, List.pairwise_cons] at hk
    simp only [List.getElem_cons_zero, List.take_zero, List.sum_nil]
    rw [wsum_cons]
    have : wsum (fun x => decide (x < a)) r = 0 := by
      unfold wsum
      have : r.map (fun ac => if (decide (ac.1 < a)) = true then ac.2 else 0) = r.map (fun _ => 0) := by
        apply List.map_congr_left
        intro ac hac
        have := hk.1 ac.1 (List.mem_map.mpr ⟨ac, hac, rfl⟩)
        simp; omega
      rw [this]
      exact sum_map_zero r
    simp [this]
  | (a, c) :: r, h, j + 1, hj => by
    have hk := h.keys
    rw [List.map_cons, List.pairwise_cons] at hk
    have hr : Table r := ⟨hk.2, fun ac hac => h.pos ac (List.mem_cons_of_mem _ hac)⟩
    have hj' : j < r.length := by simpa using hj
    simp only [List.getElem_cons_succ, List.map_cons, List.take_succ_cons, List.sum_cons]
    rw [wsum_cons, wsum_lt_getElem r hr j hj']
    have : a < r[j].1 := hk.1 _ (List.mem_map.mpr ⟨r[j], List.getElem_mem hj', rfl⟩)
    simp [this]

theorem wsum_eq_getElem : ∀ (cs : List (Nat × Nat)), Table cs → ∀ (j : Nat) (hj : j < cs.length),
    wsum (fun x => x == cs[j].1) cs = cs[j].2
  | [], _, j, hj => by simp at hj
  | (a, c) :: r, h, 0, _ => by
    have hk := h.keys
    rw [List.map_cons, List.pairwise_cons] at hk
    simp only [List.getElem_cons_zero]
    rw [wsum_cons]
    have : wsum (fun x => x == a) r = 0 := by
      unfold wsum
      have : r.map (fun ac => if (ac.1 == a) = true then ac.2 else 0) = r.map (fun _ => 0) := by
        apply List.map_congr_left
        intro ac hac
        have := hk.1 ac.1 (List.mem_map.mpr ⟨ac, hac, rfl⟩)
        have hne : ¬ ac.1 = a := by omega
        simp [hne]
      rw [this]
      exact sum_map_zero r
    simp [this]
  | (a, c) :: r, h, j + 1, hj => by
    have hk := h.keys
    rw [List.map_cons, List.pairwise_cons] at hk
    have hr : Table r := ⟨hk.2, fun ac hac => h.pos ac (List.mem_cons_of_mem _ hac)⟩
    have hj' : j < r.length := by simpa using hj
    simp only [List.getElem_cons_succ]
    rw [wsum_cons, wsum_eq_getElem r hr j hj']
    have : a < r[j].1 := hk.1 _ (List.mem_map.mpr ⟨r[j], List.getElem_mem hj', rfl⟩)
    have hne : ¬ a = r[j].1 := by omega
    simp [hne]

theorem wsum_true (cs : List (Nat × Nat)) : wsum (fun _ => true) cs = (cs.map (·.2)).sum := by
  induction cs with
  | nil => rfl
  | cons ac r ih => obtain ⟨a, c⟩ := ac; rw [wsum_cons, ih]; simp

/-- the number of symbols below / equal to the `j`-th code point, and the total -/
theorem countP_lt_key (text : List Nat) (j : Nat) (hj : j < (countsOf text).length) :
    text.countP (fun t => decide (t < (countsOf text)[j].1)) = (((countsOf text).map (·.2)).take j).sum := by
  have := wsum_countsFrom (fun t => decide (t < (countsOf text)[j].1)) text []
  rw [show wsum _ [] = 0 from rfl, Nat.zero_add] at this
  rw [← this]
  exact wsum_lt_getElem _ (table_countsOf text) j hj

theorem countP_eq_key (text : List Nat) (j : Nat) (hj : j < (countsOf text).length) :
    text.countP (fun t => t == (countsOf text)[j].1) = (countsOf text)[j].2 := by
  have := wsum_countsFrom (fun t => t == (countsOf text)[j].1) text []
  rw [show wsum _ [] = 0 from rfl, Nat.zero_add] at this
  rw [← this]
  exact wsum_eq_getElem _ (table_countsOf text) j hj

theorem sum_counts (text : List Nat) : ((countsOf text).map (·.2)).sum = text.length := by
  have := wsum_countsFrom (fun _ => true) text []
  rw [show wsum _ [] = 0 from rfl, Nat.zero_add, wsum_true] at this
  rw [show countsFrom [] text = countsOf text from rfl] at this
  rw [this]
  simp

end Blue.Sigma
