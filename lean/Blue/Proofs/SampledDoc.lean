import Blue.Proofs.SampledSa
import Blue.Proofs.BitVecLaws
/-! `search` and `retrieve` through the sampled containers are the `search` / `retrieve` of
    `Blue.CsaDoc` (whose theorems say they are the plain scan of the text). -/
namespace Blue.Sampled
open Blue.Csa Blue.CsaDoc Blue.BitVec

theorem allSome_map {α β : Type} (f : α → Option β) (g : α → β) : ∀ (xs : List α),
    (∀ x ∈ xs, f x = some (g x)) → allSome (xs.map f) = some (xs.map g)
  | [], _ => rfl
  | x :: t, h => by
    rw [List.map_cons, h x List.mem_cons_self]
    unfold allSome
    rw [allSome_map f g t (fun y hy => h y (List.mem_cons_of_mem _ hy))]
    rfl

/-- `search` through a sampled suffix array that answers exactly is `search` with the exact array -/
theorem searchS_eq (l : List (List Nat)) (s : Ssa) (needle : List Nat)
    (hs : ∀ i, i < l.length → ssaLookup l s i = some (saOf l l.length i))
    (hle : (backwardSearch l (sigmaRange l) needle).2 ≤ l.length) :
    searchS l s needle = some (search l needle) := by
  unfold searchS search
  simp only
  rw [allSome_map (fun d => ssaLookup l s ((backwardSearch l (sigmaRange l) needle).1 + d))
    (fun d => saOf l l.length ((backwardSearch l (sigmaRange l) needle).1 + d))]
  · rfl
  · intro d hd
    rw [List.mem_range] at hd
    exact hs _ (by omega)

/-- `retrieve` through a sampled inverse suffix array that is exact at the record start -/
theorem retrieveS_eq (l : List (List Nat)) (si : SArr) (bits : List Bool) (r : Nat)
    (h : ∀ start, select bits r = some start → sisaLookup si start = some (isa l start)) :
    retrieveS l si bits r = retrieve l bits r := by
  unfold retrieveS retrieve
  cases hsel : select bits r with
  | none => rfl
  | some start =>
    simp only
    rw [h start hsel]

/-- the tabulated ψ is ψ -/
theorem psiTab_psiTable (l : List (List Nat)) : psiTab (psiTable l) = psiAt l := by
  funext idx
  unfold psiTab psiTable psiAt
  by_cases h : idx < l.length
  · rw [if_pos h, List.getElem?_map, List.getElem?_range h]; rfl
  · rw [if_neg h, List.getElem?_eq_none (by simp; omega)]

theorem ssaLookupT_eq (l : List (List Nat)) (s : Ssa) (idx : Nat) :
    ssaLookupT (psiTable l) s idx = ssaLookup l s idx := by
  unfold ssaLookupT ssaLookup
  rw [psiTab_psiTable]
  simp [psiTable]

theorem searchT_eq (l : List (List Nat)) (s : Ssa) (needle : List Nat) :
    searchT (psiTable l) l s needle = searchS l s needle := by
  unfold searchT searchRT searchS
  simp only [ssaLookupT_eq]

theorem pairwise_of_increasing : ∀ (rb : List Nat), increasing rb = true → rb.Pairwise (· < ·)
  | [], _ => List.Pairwise.nil
  | [a], _ => by simp
  | a :: b :: t, h => by
    simp only [increasing, Bool.and_eq_true, decide_eq_true_eq] at h
    have ih := pairwise_of_increasing (b :: t) h.2
    rw [List.pairwise_cons]
    refine ⟨?_, ih⟩
    intro c hc
    rcases List.mem_cons.mp hc with rfl | hc
    · exact h.1
    · have := (List.pairwise_cons.mp ih).1 c hc
      omega

/-- **C19** the index as the code builds and uses it: the sampled suffix array (any stride) over
    the exact suffix array and the sampled inverse suffix array at the record boundaries exist, and
    `search` / `retrieve` through them are the ones over the exact arrays -/
theorem sampled_document (T : List Nat) {l : List (List Nat)} (hperm : l.Perm (suffixes T))
    (hsorted : l.Pairwise (fun a b => lexLt a b = true)) (h0 : (str l 0).length = 1)
    (rb : List Nat) (hadm : admissible (T.length - 1) rb = true) (st : Nat) :
    ∃ s si, ssaConstruct st (saList l) = some s ∧ sisaConstruct l rb = some si
      ∧ (∀ i, i < l.length → ssaLookup l s i = some (saOf l l.length i))
      ∧ (∀ needle, (backwardSearch l (sigmaRange l) needle).2 ≤ l.length →
            searchS l s needle = some (search l needle))
      ∧ (∀ r, retrieveS l si (boundaryBits (T.length - 1) rb) r
            = retrieve l (boundaryBits (T.length - 1) rb) r) := by
  have hlen := length_eq T hperm
  have hadm' := hadm
  simp only [admissible, Bool.and_eq_true, beq_iff_eq, decide_eq_true_eq] at hadm'
  obtain ⟨⟨⟨hne, hinc⟩, _⟩, hlast⟩ := hadm'
  have hrbne : rb ≠ [] := by
    intro h; rw [h] at hne; simp at hne
  have hT : T ≠ [] := by
    intro h; rw [h] at hlast; simp at hlast
  have hb : ∀ b ∈ rb, b < l.length := by
    intro b hb
    have := le_last_of_increasing rb hinc b hb
    omega
  obtain ⟨s, hsc, hsl⟩ := ssaLookup_exact T hperm hsorted hT h0 st
  obtain ⟨si, hic, hil⟩ := sisaLookup_exact l rb hrbne (pairwise_of_increasing rb hinc) hb
  refine ⟨s, si, hsc, hic, hsl, fun needle hle => searchS_eq l s needle hsl hle, ?_⟩
  intro r
  apply retrieveS_eq
  intro start hsel
  -- a defined `select` on the boundary vector is a record boundary
  have hdef := (select_defined_iff (boundaryBits (T.length - 1) rb) r).mp (by rw [hsel]; rfl)
  rw [count_boundaryBits _ rb hadm] at hdef
  have hr : r < rb.length := by
    have : 0 < rb.length := List.length_pos_iff.mpr hrbne
    omega
  have hoff := offsetOf_spec (T.length - 1) rb hadm r hr
  unfold offsetOf at hoff
  rw [hoff] at hsel
  have : start = rb[r] := (Option.some.inj hsel).symm
  rw [hil start, if_pos (by rw [this]; exact List.getElem_mem hr)]

/-- for a text in the code's form (symbols above the end marker, then the end marker), rank 0 is
    the end marker's own suffix — the hypothesis `h0` of the theorems above -/
theorem rank_zero_is_marker (text : List Nat) {l : List (List Nat)}
    (hperm : l.Perm (suffixes (withMarker text)))
    (hsorted : l.Pairwise (fun a b => lexLt a b = true)) : (str l 0).length = 1 := by
  have hs := sorted_of_suffixes _ l hperm hsorted
  have hlen := length_eq _ hperm
  have hTlen : (withMarker text).length = text.length + 1 := by simp [withMarker]
  have hl0 : 0 < l.length := by omega
  obtain ⟨hd, hlt⟩ := str_is_drop _ hperm 0 hl0
  -- the suffix at rank 0
  rcases Nat.lt_or_ge (saOf l (withMarker text).length 0) text.length with hk | hk
  · -- it would start with a symbol ≥ 1, but `[0]` is smaller
    exfalso
    have hm : [0] ∈ l := by
      rw [hperm.mem_iff]
      simp only [suffixes, List.mem_map, List.mem_range]
      refine ⟨text.length, by omega, ?_⟩
      simp [withMarker]
    have hi := List.idxOf_lt_length_iff.mpr hm
    have hstr := str_idxOf hm
    have hdrop := drop_withMarker text (saOf l (withMarker text).length 0) (by omega)
    have hlt0 : lexLt [0] (str l 0) = true := by
      rw [hd, hdrop]
      have : (text.drop (saOf l (withMarker text).length 0)) ≠ [] := by
        intro h
        have := congrArg List.length h
        simp at this; omega
      cases hh : text.drop (saOf l (withMarker text).length 0) with
      | nil => exact absurd hh this
      | cons a t => simp [lexLt]
    rcases Nat.eq_zero_or_pos (l.idxOf [0]) with hz | hp
    · rw [← hstr, hz, lexLt_irrefl] at hlt0; cases hlt0
    · have := str_lt hs hp hi
      rw [hstr] at this
      rw [lexLt_asymm _ _ this] at hlt0; cases hlt0
  · rw [hd, List.length_drop]; omega

end Blue.Sampled

#print axioms Blue.Sampled.lookup_construct
#print axioms Blue.Sampled.ssaLookup_exact
#print axioms Blue.Sampled.sisaLookup_exact
#print axioms Blue.Sampled.sampled_document
#print axioms Blue.Sampled.rank_zero_is_marker
