import Blue.Proofs.BitVec
import Blue.Model.BitVecCf
/-! `rank0` / `select0` and the rank/select inverse laws on `List Bool` (property C19). -/
namespace Blue.BitVec

theorem count_true_add_false : ∀ (l : List Bool), l.count true + l.count false = l.length
  | [] => rfl
  | b :: t => by
    have := count_true_add_false t
    cases b <;> simp <;> omega

theorem rank0_spec (bits : List Bool) (x : Nat) (h : x ≤ bits.length) :
    rank0 bits x = some ((bits.take x).count false) := by
  unfold rank0
  rw [rank_some bits x h]
  have := count_true_add_false (bits.take x)
  rw [List.length_take, Nat.min_eq_left h] at this
  simp only [Option.map_some, Option.some.injEq]
  omega

theorem countf_take_mono (bits : List Bool) {i j : Nat} (h : i ≤ j) :
    (bits.take i).count false ≤ (bits.take j).count false := by
  have : bits.take i = (bits.take j).take i := by rw [List.take_take, Nat.min_eq_left h]
  rw [this]
  exact (List.take_sublist _ _).count_le _

theorem select0_mono (bits : List Bool) (x : Nat) : ∀ i j, 0 ≤ i → i ≤ j → j < bits.length →
    decide ((rank0 bits j).getD 0 < x) = true → decide ((rank0 bits i).getD 0 < x) = true := by
  intro i j _ hij hjl hj
  simp only [decide_eq_true_eq] at hj ⊢
  rw [rank0_spec bits j (by omega)] at hj
  rw [rank0_spec bits i (by omega)]
  simp only [Option.getD_some] at hj ⊢
  have := countf_take_mono bits hij
  omega

/-- the default `select0` is "the least position whose `rank0` is `x`" -/
theorem select0_spec (bits : List Bool) (x p : Nat) (h : select0 bits x = some p) :
    p ≤ bits.length ∧ (bits.take p).count false = x
    ∧ ∀ q, q < p → (bits.take q).count false < x := by
  unfold select0 at h
  simp only at h
  obtain ⟨_, h2, h3, _⟩ := partitionBy_spec _ (bits.length + 1) 0 bits.length (Nat.zero_le _) (by omega)
    (select0_mono bits x)
  generalize partitionBy (fun mid => decide ((rank0 bits mid).getD 0 < x)) (bits.length + 1) 0 bits.length = left at *
  split at h
  · rename_i hr
    cases h
    rw [rank0_spec bits p h2] at hr
    simp only [Option.some.injEq] at hr
    refine ⟨h2, hr, ?_⟩
    intro q hq
    have := h3 q (Nat.zero_le _) hq
    simp only [decide_eq_true_eq] at this
    rw [rank0_spec bits q (by omega)] at this
    simpa using this
  · cases h

theorem select0_complete (bits : List Bool) (x p : Nat) (hp : p ≤ bits.length)
    (hr : (bits.take p).count false = x) (hmin : ∀ q, q < p → (bits.take q).count false < x) :
    select0 bits x = some p := by
  unfold select0
  simp only
  obtain ⟨_, h2, h3, h4⟩ := partitionBy_spec _ (bits.length + 1) 0 bits.length (Nat.zero_le _) (by omega)
    (select0_mono bits x)
  generalize partitionBy (fun mid => decide ((rank0 bits mid).getD 0 < x)) (bits.length + 1) 0 bits.length = left at *
  have hle : left ≤ p := by
    apply Nat.le_of_not_lt
    intro hlt
    have := h3 p (Nat.zero_le _) hlt
    simp only [decide_eq_true_eq] at this
    rw [rank0_spec bits p hp] at this
    simp only [Option.getD_some] at this
    omega
  have hge : p ≤ left := by
    apply Nat.le_of_not_lt
    intro hlt
    have hll : left < bits.length := by omega
    have := h4 left (Nat.le_refl _) hll
    simp only [decide_eq_false_iff_not] at this
    rw [rank0_spec bits left (by omega)] at this
    simp only [Option.getD_some] at this
    have := hmin left hlt
    omega
  have : left = p := by omega
  subst this
  rw [rank0_spec bits left hp, hr]
  simp

/-! ### inverse laws -/

theorem rank_select (bits : List Bool) (k p : Nat) (h : select bits k = some p) : rank bits p = some k := by
  obtain ⟨hp, hc, _⟩ := select_spec bits k p h
  rw [rank_some bits p hp, hc]

theorem count_take_succ (bits : List Bool) (a : Bool) (p : Nat) :
    (bits.take (p + 1)).count a = (bits.take p).count a + (if bits[p]? = some a then 1 else 0) := by
  rw [List.take_add_one, List.count_append]
  cases h : bits[p]? with
  | none => simp
  | some b => cases a <;> cases b <;> simp

/-- the set bit at position `p` is the `(rank p + 1)`-th one, and `select` finds it one past `p` -/
theorem select_rank_of_set (bits : List Bool) (p : Nat) (hp : p < bits.length) (hb : bits[p]? = some true) :
    select bits ((bits.take p).count true + 1) = some (p + 1) := by
  apply select_complete bits _ (p + 1) (by omega)
  · rw [count_take_succ, if_pos hb]
  · intro q hq
    have := count_take_mono bits (show q ≤ p by omega)
    omega

/-- rank climbs from 0 to the number of set bits in steps of at most one, so every `k` up to that
    number is the rank of a least position -/
theorem exists_least_rank (bits : List Bool) : ∀ (n : Nat), n ≤ bits.length → ∀ k, k ≤ (bits.take n).count true →
    ∃ p, p ≤ n ∧ (bits.take p).count true = k ∧ ∀ q, q < p → (bits.take q).count true < k
  | 0, _, k, hk => by
    simp at hk
    subst hk
    exact ⟨0, Nat.le_refl _, by simp, fun q hq => absurd hq (Nat.not_lt_zero q)⟩
  | n + 1, hn, k, hk => by
    by_cases hle : k ≤ (bits.take n).count true
    · obtain ⟨p, h1, h2, h3⟩ := exists_least_rank bits n (by omega) k hle
      exact ⟨p, by omega, h2, h3⟩
    · have hstep := count_take_succ bits true n
      have : (if bits[n]? = some true then 1 else 0) ≤ 1 := by split <;> omega
      refine ⟨n + 1, Nat.le_refl _, by omega, ?_⟩
      intro q hq
      have := count_take_mono bits (show q ≤ n by omega)
      omega

/-- what `select` returns out of range: it is defined exactly for `k ≤` the number of set bits -/
theorem select_defined_iff (bits : List Bool) (k : Nat) :
    (select bits k).isSome = true ↔ k ≤ bits.count true := by
  constructor
  · intro h
    obtain ⟨p, hp⟩ := Option.isSome_iff_exists.mp h
    obtain ⟨_, hc, _⟩ := select_spec bits k p hp
    rw [← hc]
    exact (List.take_sublist _ _).count_le _
  · intro h
    obtain ⟨p, h1, h2, h3⟩ := exists_least_rank bits bits.length (Nat.le_refl _) k (by rw [List.take_length]; exact h)
    rw [select_complete bits k p h1 h2 h3]
    rfl

/-- the cf_rrr defect: `cf_rrr::rank(len)` as it was, at a length that is a positive multiple of the block -/
theorem rankCfOld_defect (bits : List Bool) (h0 : 0 < bits.length) (hb : bits.length % cfBlockBits = 0) :
    rankCfOld bits bits.length = none ∧ rank bits bits.length = some (bits.count true) := by
  constructor
  · unfold rankCfOld
    rw [if_pos ⟨rfl, h0, hb⟩]
  · rw [rank_some bits _ (Nat.le_refl _), List.take_length]

end Blue.BitVec
