import Blue.Model.Compact
import Blue.Proofs.MergingCongr
import Blue.Proofs.CompactTables
/-! **C05** the conservation theorems at the model's OWN entry type and comparator.

`Blue.Compact.entryLt` (= `KeyRef::cmp`: key ascending, timestamp descending) does not look at the
value, so on `Entry = (key, ts, value | tombstone)` it is NOT a strict total order
(`entryLt_not_strictTotal`: two entries with the same key and timestamp and different values are
different and incomparable) and the generic theorems (`merged_is_M`, `pipeline_conserves`, …), which
ask for one, cannot be instantiated with it.  Repair, without touching the model:

* `entryLtFull` — the lexicographic order (key ↑, timestamp ↓, value) IS a strict total order on
  `Entry` (`entryLtFull_strictTotal`) and extends `entryLt`;
* on inputs whose `(key, timestamp)` pairs identify the entries (`KeyTsUnique`: the sequence-number
  discipline of the store) the two orders agree on every pair of entries present
  (`entryLt_agree`), and the merging-cursor model compares nothing else (`merging_run_congr`);
* hence `merged_entries`, `pipeline_conserves_entries`: the pipeline the driver runs
  (`merged entryLt`, `cut`) conserves, for ANY input tables sorted by `entryLt` with unique
  `(key, timestamp)`s and ANY cut vector. -/
namespace Blue.Compact
open Blue.Cursor

/-! ### byte strings -/

theorem bytesLt_nil_right (a : List Nat) : bytesLt a [] = false := by cases a <;> rfl

theorem bytesLt_cons (a b : Nat) (as bs : List Nat) :
    bytesLt (a :: as) (b :: bs) = true ↔ (a < b ∨ (a = b ∧ bytesLt as bs = true)) := by
  simp [bytesLt]

theorem bytesLt_irrefl : ∀ a, bytesLt a a = false
  | [] => rfl
  | a :: as => by
    have := bytesLt_irrefl as
    cases h : bytesLt (a :: as) (a :: as) with
    | false => rfl
    | true =>
      rw [bytesLt_cons] at h
      rcases h with h | ⟨_, h⟩
      · omega
      · rw [this] at h; cases h

theorem bytesLt_trans : ∀ a b c, bytesLt a b = true → bytesLt b c = true → bytesLt a c = true
  | _, [], _, h, _ => by rw [bytesLt_nil_right] at h; cases h
  | _, _ :: _, [], _, h => by rw [bytesLt_nil_right] at h; cases h
  | [], _ :: _, _ :: _, _, _ => rfl
  | a :: as, b :: bs, c :: cs, h1, h2 => by
    rw [bytesLt_cons] at h1 h2 ⊢
    rcases h1 with h1 | ⟨e1, h1⟩
    · rcases h2 with h2 | ⟨e2, _⟩
      · left; omega
      · left; omega
    · rcases h2 with h2 | ⟨e2, h2⟩
      · left; omega
      · right; exact ⟨by omega, bytesLt_trans as bs cs h1 h2⟩

theorem bytesLt_total : ∀ a b, a ≠ b → bytesLt a b = true ∨ bytesLt b a = true
  | [], [], h => absurd rfl h
  | [], _ :: _, _ => Or.inl rfl
  | _ :: _, [], _ => Or.inr rfl
  | a :: as, b :: bs, h => by
    rw [bytesLt_cons, bytesLt_cons]
    rcases Nat.lt_trichotomy a b with hlt | heq | hgt
    · exact Or.inl (Or.inl hlt)
    · subst heq
      have hne : as ≠ bs := fun e => h (by rw [e])
      rcases bytesLt_total as bs hne with h' | h'
      · exact Or.inl (Or.inr ⟨rfl, h'⟩)
      · exact Or.inr (Or.inr ⟨rfl, h'⟩)
    · exact Or.inr (Or.inl hgt)

theorem bytesLt_strictTotal : StrictTotal bytesLt := ⟨bytesLt_irrefl, bytesLt_trans, bytesLt_total⟩

/-! ### values: a tombstone below every value, values in byte order -/

def optLt : Option (List Nat) → Option (List Nat) → Bool
  | none, some _ => true
  | some a, some b => bytesLt a b
  | _, none => false

theorem optLt_strictTotal : StrictTotal optLt where
  irrefl := by
    intro a
    cases a with
    | none => rfl
    | some a => exact bytesLt_irrefl a
  trans := by
    intro a b c h1 h2
    match a, b, c, h1, h2 with
    | none, some _, some _, _, _ => rfl
    | some a, some b, some c, h1, h2 => exact bytesLt_trans a b c h1 h2
    | none, none, _, h1, _ => cases h1
    | some _, none, _, h1, _ => cases h1
    | _, some _, none, _, h2 => cases h2
  total := by
    intro a b h
    match a, b, h with
    | none, none, h => exact absurd rfl h
    | none, some _, _ => exact Or.inl rfl
    | some _, none, _ => exact Or.inr rfl
    | some a, some b, h => exact bytesLt_total a b (fun e => h (by rw [e]))

/-! ### lexicographic product and pull-back of strict total orders -/

def lexLt {A B : Type} [DecidableEq A] (lt1 : A → A → Bool) (lt2 : B → B → Bool) (x y : A × B) : Bool :=
  lt1 x.1 y.1 || (decide (x.1 = y.1) && lt2 x.2 y.2)

theorem lex_strictTotal {A B : Type} [DecidableEq A] {lt1 : A → A → Bool} {lt2 : B → B → Bool}
    (s1 : StrictTotal lt1) (s2 : StrictTotal lt2) : StrictTotal (lexLt lt1 lt2) where
  irrefl := by intro a; simp [lexLt, s1.irrefl, s2.irrefl]
  trans := by
    intro a b c h1 h2
    unfold lexLt at *
    simp only [Bool.or_eq_true, Bool.and_eq_true, decide_eq_true_eq] at *
    rcases h1 with h1 | ⟨e1, h1⟩
    · rcases h2 with h2 | ⟨e2, _⟩
      · exact Or.inl (s1.trans _ _ _ h1 h2)
      · rw [← e2]; exact Or.inl h1
    · rcases h2 with h2 | ⟨e2, h2⟩
      · rw [e1]; exact Or.inl h2
      · exact Or.inr ⟨e1.trans e2, s2.trans _ _ _ h1 h2⟩
  total := by
    intro a b hab
    unfold lexLt
    simp only [Bool.or_eq_true, Bool.and_eq_true, decide_eq_true_eq]
    by_cases h1 : a.1 = b.1
    · have h2 : a.2 ≠ b.2 := fun e => hab (Prod.ext h1 e)
      rcases s2.total _ _ h2 with h | h
      · exact Or.inl (Or.inr ⟨h1, h⟩)
      · exact Or.inr (Or.inr ⟨h1.symm, h⟩)
    · rcases s1.total _ _ h1 with h | h
      · exact Or.inl (Or.inl h)
      · exact Or.inr (Or.inl h)

theorem strictTotal_pullback {A B : Type} {lt : B → B → Bool} (st : StrictTotal lt) (f : A → B)
    (hf : ∀ a b, f a = f b → a = b) : StrictTotal (fun a b => lt (f a) (f b)) where
  irrefl := fun _ => st.irrefl _
  trans := fun _ _ _ => st.trans _ _ _
  total := fun a b h => st.total _ _ (fun e => h (hf a b e))

/-! ### entries -/

/-- an entry as ((key, timestamp), value) -/
def entryCode (e : Entry) : Blue.Spec.Ver (List Nat) × Option (List Nat) := ((e.key, e.ts), e.val)

theorem entryCode_inj (a b : Entry) (h : entryCode a = entryCode b) : a = b := by
  cases a; cases b
  simp only [entryCode, Prod.mk.injEq] at h
  obtain ⟨⟨h1, h2⟩, h3⟩ := h
  subst h1; subst h2; subst h3
  rfl

/-- key ascending, timestamp descending, then the value: a strict total order on `Entry` that
    extends `entryLt` -/
def entryLtFull (a b : Entry) : Bool :=
  lexLt (Blue.Spec.vlt bytesLt) optLt (entryCode a) (entryCode b)

theorem entryLtFull_strictTotal : StrictTotal entryLtFull :=
  strictTotal_pullback (lex_strictTotal (Blue.Spec.vlt_strictTotal bytesLt_strictTotal) optLt_strictTotal)
    entryCode entryCode_inj

/-- `entryLt` is the (key, timestamp) part -/
theorem entryLt_eq_vlt (a b : Entry) :
    entryLt a b = Blue.Spec.vlt bytesLt (a.key, a.ts) (b.key, b.ts) := by
  unfold entryLt Blue.Spec.vlt
  by_cases h : a.key = b.key <;> simp [h]

/-- the comparator of the code is NOT a strict total order on entries: the value is not compared -/
theorem entryLt_not_strictTotal : ¬ StrictTotal entryLt := by
  intro st
  have := st.total ⟨[], 0, none⟩ ⟨[], 0, some []⟩ (by decide)
  revert this; decide

/-- the `(key, timestamp)` pairs identify the entries (sequence numbers are unique: C01/C06) -/
def KeyTsUnique (S : List Entry) : Prop := ∀ a ∈ S, ∀ b ∈ S, a.key = b.key → a.ts = b.ts → a = b

/-- on such entries the two orders agree -/
theorem entryLt_agree (S : List Entry) (hu : KeyTsUnique S) :
    AgreeOn (fun e => e ∈ S) entryLt entryLtFull := by
  intro a b ha hb
  rw [entryLt_eq_vlt]
  unfold entryLtFull lexLt entryCode
  by_cases h : ((a.key, a.ts) : Blue.Spec.Ver (List Nat)) = (b.key, b.ts)
  · have hk : a.key = b.key := congrArg Prod.fst h
    have ht : a.ts = b.ts := congrArg Prod.snd h
    have hab := hu a ha b hb hk ht
    subst hab
    simp [optLt_strictTotal.irrefl]
  · simp [h]

theorem pairwise_agree {S : List Entry} (hag : AgreeOn (fun e => e ∈ S) entryLt entryLtFull)
    {t : List Entry} (hsub : ∀ e ∈ t, e ∈ S) (hs : t.Pairwise (fun a b => entryLt a b = true)) :
    t.Pairwise (fun a b => entryLtFull a b = true) := by
  induction t with
  | nil => exact List.Pairwise.nil
  | cons x t ih =>
    rw [List.pairwise_cons] at hs ⊢
    refine ⟨?_, ih (fun e he => hsub e (List.mem_cons_of_mem _ he)) hs.2⟩
    intro y hy
    rw [← hag x y (hsub x List.mem_cons_self) (hsub y (List.mem_cons_of_mem _ hy))]
    exact hs.1 y hy

/-- the pipeline's merged run under the code's comparator is the run under the full order -/
theorem merged_congr (tables : List (List Entry)) (hu : KeyTsUnique tables.flatten) :
    merged entryLt tables = merged entryLtFull tables := by
  have hag := entryLt_agree tables.flatten hu
  have hcs : ∀ c ∈ tables.map (fun t => (⟨t, 0⟩ : Ref Entry)), Inside (fun e => e ∈ tables.flatten) c := by
    intro c hc
    rw [List.mem_map] at hc
    obtain ⟨t, ht, rfl⟩ := hc
    intro e he
    exact List.mem_flatten.mpr ⟨t, ht, he⟩
  unfold merged
  rw [drainFrom_run, drainFrom_run]
  obtain ⟨h1, h2⟩ := merging_new_congr hag _ hcs
  obtain ⟨h3, h4⟩ := merging_step_congr hag (Merging.new entryLtFull (tables.map fun t => ⟨t, 0⟩)) h2 .first
  have h3' : (Merging.new entryLtFull (tables.map fun t => ⟨t, 0⟩)).seekToFirst entryLt
      = (Merging.new entryLtFull (tables.map fun t => ⟨t, 0⟩)).seekToFirst entryLtFull := h3
  rw [h1, h3']
  exact congrArg someTake (merging_run_congr hag _ _ h4)

/-- **what the compaction loop reads, at the model's own entry type and comparator**: for ANY input
    tables sorted by `entryLt` whose `(key, timestamp)`s identify the entries, the sorted union -/
theorem merged_entries (tables : List (List Entry))
    (hs : ∀ t ∈ tables, t.Pairwise (fun a b => entryLt a b = true)) (hu : KeyTsUnique tables.flatten) :
    merged entryLt tables = mergedList entryLtFull tables := by
  rw [merged_congr tables hu]
  apply merged_eq_tables entryLtFull_strictTotal
  intro t ht
  exact pairwise_agree (entryLt_agree _ hu) (fun e he => List.mem_flatten.mpr ⟨t, ht, he⟩) (hs t ht)

/-- **conservation at the model's own entry type and comparator**: ANY such input tables, ANY cut
    vector — the output pieces are a permutation of the union of the inputs (key, timestamp, value
    or tombstone of every entry, with multiplicity) -/
theorem pipeline_conserves_entries (tables : List (List Entry))
    (hs : ∀ t ∈ tables, t.Pairwise (fun a b => entryLt a b = true)) (hu : KeyTsUnique tables.flatten)
    (cuts : List Nat) :
    ((cut cuts (merged entryLt tables)).flatten).Perm tables.flatten := by
  rw [merged_entries tables hs hu, cut_eq, cut_flatten]
  exact mergedList_perm _ tables

/-- … and the concatenation of the pieces is sorted by the code's comparator (weakly: an entry held
    by several inputs is repeated) -/
theorem pipeline_sorted_entries (tables : List (List Entry))
    (hs : ∀ t ∈ tables, t.Pairwise (fun a b => entryLt a b = true)) (hu : KeyTsUnique tables.flatten)
    (cuts : List Nat) :
    ((cut cuts (merged entryLt tables)).flatten).Pairwise (fun a b => entryLt b a = false) := by
  rw [merged_entries tables hs hu, cut_eq, cut_flatten]
  have hw := mergedList_sortedW entryLtFull_strictTotal tables
  have hmem : ∀ e ∈ mergedList entryLtFull tables, e ∈ tables.flatten :=
    fun e he => (mergedList_perm entryLtFull tables).mem_iff.mp he
  have hag := entryLt_agree tables.flatten hu
  -- transfer pairwise along membership
  have : ∀ (l : List Entry), (∀ e ∈ l, e ∈ tables.flatten) →
      l.Pairwise (fun a b => entryLtFull b a = false) → l.Pairwise (fun a b => entryLt b a = false) := by
    intro l
    induction l with
    | nil => intros; exact List.Pairwise.nil
    | cons x l ih =>
      intro hm hp
      rw [List.pairwise_cons] at hp ⊢
      refine ⟨?_, ih (fun e he => hm e (List.mem_cons_of_mem _ he)) hp.2⟩
      intro y hy
      rw [hag y x (hm y (List.mem_cons_of_mem _ hy)) (hm x List.mem_cons_self)]
      exact hp.1 y hy
  exact this _ hmem hw

end Blue.Compact

#print axioms Blue.Compact.entryLtFull_strictTotal
#print axioms Blue.Compact.entryLt_not_strictTotal
#print axioms Blue.Compact.merged_entries
#print axioms Blue.Compact.pipeline_conserves_entries
#print axioms Blue.Compact.pipeline_sorted_entries
