import Blue.Proofs.StoreHistGcTree
import Blue.Proofs.StoreHistLaterGc
import Blue.Proofs.ConstsTieC05
/-! # C05: which route `Tree::perform_compaction` takes

`perform_compaction` (lsmtk/src/tree/mod.rs) decides in this order: one input →
`apply_moving_compaction` (a move; nothing is rewritten); else `compaction.top_level()`
(`upper_level == NUM_LEVELS - 1`) → `perform_garbage_collection`; else the merging loop.  That the
source HAS this shape is `Blue.ConstsTie.gc_only_at_top_level_from_source` (regenerated from the
source on every run); `performKind` is the decision, and the theorems say which obligation of the
history theorems each route owes. -/
namespace Blue.GcLastLevel
open Blue.Spec Blue.Kvs Blue.NextCompaction Blue.StoreHist Blue.StoreHistTree Blue.StoreHistGc
  Blue.StoreHistLater Blue.StoreHistLaterGc

inductive Kind where
  | move
  | gc
  | merge
deriving DecidableEq, Repr

/-- `Compaction::top_level`, as written: `self.core.upper_level == NUM_LEVELS - 1` -/
def topLevel (numLevels : Nat) (c : Core) : Bool := c.upper == numLevels - 1

/-- the route of `perform_compaction` -/
def performKind (numLevels : Nat) (c : Core) : Kind :=
  if c.inputs.length = 1 then .move else if c.upper + 1 = numLevels then .gc else .merge

theorem topLevel_iff {n : Nat} (hn : 0 < n) (c : Core) : topLevel n c = true ↔ c.upper + 1 = n := by
  unfold topLevel; simp only [beq_iff_eq]; omega

/-- `performKind` with the test as the source writes it (`NUM_LEVELS` is positive) -/
theorem performKind_as_written {n : Nat} (hn : 0 < n) (c : Core) :
    performKind n c = if c.inputs.length = 1 then .move else if topLevel n c then .gc else .merge := by
  unfold performKind
  by_cases h : c.upper + 1 = n
  · simp [h, (topLevel_iff hn c).mpr h]
  · have : topLevel n c = false := by
      cases ht : topLevel n c with
      | false => rfl
      | true => exact absurd ((topLevel_iff hn c).mp ht) h
    simp [h, this]

/-- … at the `NUM_LEVELS` of the source -/
theorem performKind_source (c : Core) :
    performKind Blue.Generated.lsmtkNumLevels c
      = if c.inputs.length = 1 then .move else if topLevel Blue.Generated.lsmtkNumLevels c then .gc else .merge :=
  performKind_as_written (by rw [Blue.ConstsTie.num_levels_from_source]; omega) c

theorem gc_kind_iff (n : Nat) (c : Core) :
    performKind n c = .gc ↔ c.inputs.length ≠ 1 ∧ c.upper + 1 = n := by
  unfold performKind
  by_cases h1 : c.inputs.length = 1
  · simp [h1]
  · by_cases h2 : c.upper + 1 = n <;> simp [h1, h2]

theorem move_kind_iff (n : Nat) (c : Core) : performKind n c = .move ↔ c.inputs.length = 1 := by
  unfold performKind
  by_cases h1 : c.inputs.length = 1
  · simp [h1]
  · by_cases h2 : c.upper + 1 = n <;> simp [h1, h2]

theorem merge_kind_iff (n : Nat) (c : Core) :
    performKind n c = .merge ↔ c.inputs.length ≠ 1 ∧ c.upper + 1 ≠ n := by
  unfold performKind
  by_cases h1 : c.inputs.length = 1
  · simp [h1]
  · by_cases h2 : c.upper + 1 = n <;> simp [h1, h2]

/-- the collector runs only where nothing lies below the outputs: for a tree of `n` levels a
    `.gc` route means the output level is the last one -/
theorem gc_kind_has_nothing_below (t : Tree) (c : Core) (h : performKind t.length c = .gc) :
    belowComps t c.upper = [] :=
  Blue.StoreHistGcTree.belowComps_last t ((gc_kind_iff _ c).mp h).2

/-- contrapositive, the reason the guard matters: where something lies below the output level the
    route is never `.gc` -/
theorem something_below_is_not_gc (t : Tree) (c : Core) (h : belowComps t c.upper ≠ []) :
    performKind t.length c ≠ .gc := fun hk => h (gc_kind_has_nothing_below t c hk)

/-- **the `.gc` route owes `gcInstall`'s obligation** (`store_history_refines_concurrent_gc`): with
    in-flight compaction `i = c` routed `.gc` on the tree it is installed on, the side condition
    `c.upper + 1 = length` of `GOpOk (.gcInstall ..)` holds by the route, and what is left are the
    four hypotheses on the outputs (outputs may DROP versions: `NewestKept` only) -/
theorem gc_kind_obligation (s : LState) (i : Nat) (outs : List File) (c : Core) (hc : s.og[i]? = some c)
    (hk : performKind s.base.tree.length c = .gc) :
    GOpOk s (.gcInstall i outs) ↔
      (OutsOk s.base.tree c outs
        ∧ (∀ x ∈ outs, ∀ e ∈ x.vers, ∃ i f, f ∈ level s.base.tree i ∧ f.id ∈ c.inputs ∧ e ∈ f.vers)
        ∧ NewestKept s.base.pay (inputs (tagTree s.base.tree c)).flatten (comps outs).flatten
        ∧ NewerAbove (comps outs)) := by
  have htop := ((gc_kind_iff _ c).mp hk).2
  constructor
  · intro h
    obtain ⟨a, _, b, d, e⟩ := h c hc
    exact ⟨a, b, d, e⟩
  · rintro ⟨a, b, d, e⟩ c' hc'
    have : c' = c := by rw [hc] at hc'; exact (Option.some.inj hc').symm
    subst this
    exact ⟨a, htop, b, d, e⟩

/-- **the `.merge` route can NOT be installed as a collection and owes conservation**: `gcInstall`'s
    obligation fails on it (its side condition is false), and the obligation of the plain `install`
    (`store_history_refines_concurrent`) is, besides placement, that the outputs hold versions of
    input files only AND every version of every input file — a merge drops nothing -/
theorem merge_kind_drops_nothing_obligation (s : LState) (i : Nat) (outs : List File) (c : Core)
    (hc : s.og[i]? = some c) (hk : performKind s.base.tree.length c = .merge) :
    ¬ GOpOk s (.gcInstall i outs)
    ∧ (GOpOk s (.plain (.install i outs)) ↔
        (OutsOk s.base.tree c outs
          ∧ (∀ x ∈ outs, ∀ e ∈ x.vers, ∃ i f, f ∈ level s.base.tree i ∧ f.id ∈ c.inputs ∧ e ∈ f.vers)
          ∧ (∀ i f, f ∈ level s.base.tree i → f.id ∈ c.inputs → ∀ e ∈ f.vers, ∃ x ∈ outs, e ∈ x.vers)
          ∧ NewerAbove (comps outs))) := by
  have hne := ((merge_kind_iff _ c).mp hk).2
  refine ⟨fun h => hne (h c hc).2.1, ?_⟩
  constructor
  · intro h; exact h c hc
  · intro h c' hc'
    have : c' = c := by rw [hc] at hc'; exact (Option.some.inj hc').symm
    subst this
    exact h

/-- a collection that was installable was not routed `.merge`: `gcInstall` is the `.gc` route, or a
    one-input move into the last level (which the code performs as a move, conserving everything) -/
theorem gcInstall_is_not_merge (s : LState) (i : Nat) (outs : List File) (c : Core)
    (hc : s.og[i]? = some c) (h : GOpOk s (.gcInstall i outs)) :
    performKind s.base.tree.length c = .gc ∨ performKind s.base.tree.length c = .move := by
  have htop := (h c hc).2.1
  by_cases h1 : c.inputs.length = 1
  · exact .inr ((move_kind_iff _ c).mpr h1)
  · exact .inl ((gc_kind_iff _ c).mpr ⟨h1, htop⟩)

end Blue.GcLastLevel

#print axioms Blue.GcLastLevel.gc_kind_iff
#print axioms Blue.GcLastLevel.gc_kind_has_nothing_below
#print axioms Blue.GcLastLevel.gc_kind_obligation
#print axioms Blue.GcLastLevel.merge_kind_drops_nothing_obligation
#print axioms Blue.GcLastLevel.gcInstall_is_not_merge
#print axioms Blue.GcLastLevel.performKind_source
