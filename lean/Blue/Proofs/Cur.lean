import Blue.Model.Cur
/-! Homomorphisms of cursors, behaviours, and the canonical "behaviour" cursor.  A combinator that
    is natural in its child (maps homomorphisms to homomorphisms) cannot tell two children with
    the same behaviour apart.  Everything is relative to a set `A` of admissible seek predicates
    (the refinement theorems only hold for predicates that switch once along the table). -/
namespace Blue.Cursor
variable {E : Type}

@[simp] theorem RefCur_kv (c : Ref E) : (RefCur E).kv c = c.kv := rfl
@[simp] theorem RefCur_next (c : Ref E) : (RefCur E).next c = c.next := rfl
@[simp] theorem RefCur_prev (c : Ref E) : (RefCur E).prev c = c.prev := rfl
@[simp] theorem RefCur_first (c : Ref E) : (RefCur E).first c = c.first := rfl
@[simp] theorem RefCur_last (c : Ref E) : (RefCur E).last c = c.last := rfl
@[simp] theorem RefCur_seek (p : E → Bool) (c : Ref E) : (RefCur E).seek p c = c.seek p := rfl
@[simp] theorem RefCur_ok (c : Ref E) : (RefCur E).ok c = true := rfl

def Op.adm (A : (E → Bool) → Prop) : Op E → Prop
  | .seek p => A p
  | _ => True

def Adm (A : (E → Bool) → Prop) (ops : List (Op E)) : Prop := ∀ op ∈ ops, op.adm A

theorem adm_cons {A : (E → Bool) → Prop} {op : Op E} {ops : List (Op E)} :
    Adm A (op :: ops) ↔ op.adm A ∧ Adm A ops := by
  unfold Adm; simp

structure Hom (A : (E → Bool) → Prop) (C D : Cur E) where
  f : C.σ → D.σ
  first : ∀ s, f (C.first s) = D.first (f s)
  last : ∀ s, f (C.last s) = D.last (f s)
  next : ∀ s, f (C.next s) = D.next (f s)
  prev : ∀ s, f (C.prev s) = D.prev (f s)
  seek : ∀ p, A p → ∀ s, f (C.seek p s) = D.seek p (f s)
  kv : ∀ s, D.kv (f s) = C.kv s
  ok : ∀ s, D.ok (f s) = C.ok s

variable {A : (E → Bool) → Prop}

theorem Hom.step {C D : Cur E} (h : Hom A C D) (s : C.σ) (op : Op E) (ha : op.adm A) :
    h.f (C.step s op) = D.step (h.f s) op := by
  cases op with
  | seek p => exact h.seek p ha s
  | first => exact h.first s
  | last => exact h.last s
  | next => exact h.next s
  | prev => exact h.prev s

theorem Hom.runTo {C D : Cur E} (h : Hom A C D) (ops : List (Op E)) :
    Adm A ops → ∀ s, h.f (C.runTo s ops) = D.runTo (h.f s) ops := by
  induction ops with
  | nil => intro _ s; rfl
  | cons op ops ih =>
    intro ha s
    obtain ⟨h1, h2⟩ := adm_cons.mp ha
    simp only [Cur.runTo, List.foldl_cons] at *
    rw [ih h2, h.step s op h1]

theorem Hom.beh {C D : Cur E} (h : Hom A C D) (s : C.σ) (ops : List (Op E)) (ha : Adm A ops) :
    D.beh (h.f s) ops = C.beh s ops := by
  simp only [Cur.beh, ← h.runTo ops ha, h.kv, h.ok]

/-- same observations under every admissible program -/
def BehEq (A : (E → Bool) → Prop) (C : Cur E) (s : C.σ) (D : Cur E) (t : D.σ) : Prop :=
  ∀ ops, Adm A ops → C.beh s ops = D.beh t ops

/-- the cursor whose states are behaviours -/
def BehCur (E : Type) : Cur E where
  σ := List (Op E) → Option E × Bool
  first := fun b ops => b (.first :: ops)
  last := fun b ops => b (.last :: ops)
  next := fun b ops => b (.next :: ops)
  prev := fun b ops => b (.prev :: ops)
  seek := fun p b ops => b (.seek p :: ops)
  kv := fun b => (b []).1
  ok := fun b => (b []).2

open Classical in
/-- behaviour on admissible programs (a fixed answer elsewhere) -/
noncomputable def behA (A : (E → Bool) → Prop) (C : Cur E) (s : C.σ) : List (Op E) → Option E × Bool :=
  fun ops => if Adm A ops then C.beh s ops else (none, true)

theorem behA_step (C : Cur E) (s : C.σ) (op : Op E) (ha : op.adm A) :
    behA A C (C.step s op) = fun ops => behA A C s (op :: ops) := by
  funext ops
  unfold behA
  have : Adm A (op :: ops) ↔ Adm A ops := by rw [adm_cons]; simp [ha]
  by_cases h : Adm A ops
  · rw [if_pos h, if_pos (this.mpr h)]; rfl
  · rw [if_neg h, if_neg (fun h' => h (this.mp h'))]

/-- every cursor maps homomorphically to its behaviours -/
noncomputable def behHom (A : (E → Bool) → Prop) (C : Cur E) : Hom A C (BehCur E) where
  f := behA A C
  first := fun s => behA_step C s .first trivial
  last := fun s => behA_step C s .last trivial
  next := fun s => behA_step C s .next trivial
  prev := fun s => behA_step C s .prev trivial
  seek := fun p hp s => behA_step C s (.seek p) hp
  kv := fun s => by
    show (behA A C s []).1 = C.kv s
    unfold behA; rw [if_pos (by intro op h; cases h)]; rfl
  ok := fun s => by
    show (behA A C s []).2 = C.ok s
    unfold behA; rw [if_pos (by intro op h; cases h)]; rfl

theorem behA_eq_of_behEq {C D : Cur E} {s : C.σ} {t : D.σ} (h : BehEq A C s D t) :
    behA A C s = behA A D t := by
  funext ops
  unfold behA
  by_cases ha : Adm A ops
  · rw [if_pos ha, if_pos ha, h ops ha]
  · rw [if_neg ha, if_neg ha]

/-- **Substitution of children.**  If `F` is natural in its child — from a homomorphism of
    children it yields a homomorphism of the combined cursors that carries the constructor along —
    then children with equal behaviour yield combined cursors with equal behaviour. -/
theorem behEq_lift {ι : Cur E → Type} (F : Cur E → Cur E) (mk : (C : Cur E) → ι C → (F C).σ)
    (mapι : {C D : Cur E} → Hom A C D → ι C → ι D)
    (lift : {C D : Cur E} → Hom A C D → Hom A (F C) (F D))
    (lift_mk : ∀ {C D : Cur E} (h : Hom A C D) (x : ι C), (lift h).f (mk C x) = mk D (mapι h x))
    {C D : Cur E} (x : ι C) (y : ι D)
    (hxy : mapι (behHom A C) x = mapι (behHom A D) y) :
    BehEq A (F C) (mk C x) (F D) (mk D y) := by
  intro ops ha
  rw [← (lift (behHom A C)).beh (mk C x) ops ha, ← (lift (behHom A D)).beh (mk D y) ops ha,
    lift_mk, lift_mk, hxy]

/-- observations of a program: what `key_value()` shows after each call -/
def Cur.run (C : Cur E) (s : C.σ) : List (Op E) → List (Option E)
  | [] => []
  | op :: ops => C.kv (C.step s op) :: C.run (C.step s op) ops

theorem behEq_step {C D : Cur E} {s : C.σ} {t : D.σ} (h : BehEq A C s D t) (op : Op E) (ha : op.adm A) :
    BehEq A C (C.step s op) D (D.step t op) := by
  intro rest hr
  have := h (op :: rest) (adm_cons.mpr ⟨ha, hr⟩)
  simpa [Cur.beh, Cur.runTo] using this

theorem Cur.run_of_behEq {C D : Cur E} :
    ∀ (ops : List (Op E)) {s : C.σ} {t : D.σ}, BehEq A C s D t → Adm A ops → C.run s ops = D.run t ops := by
  intro ops
  induction ops with
  | nil => intros; rfl
  | cons op ops ih =>
    intro s t h ha
    obtain ⟨h1, h2⟩ := adm_cons.mp ha
    have hstep := behEq_step h op h1
    simp only [Cur.run]
    have hkv : C.kv (C.step s op) = D.kv (D.step t op) := by
      have := hstep [] (by intro o ho; cases ho)
      simp [Cur.beh, Cur.runTo] at this
      exact this.1
    rw [hkv, ih hstep h2]

theorem BehEq.trans {C D F : Cur E} {s : C.σ} {t : D.σ} {u : F.σ} (h1 : BehEq A C s D t)
    (h2 : BehEq A D t F u) : BehEq A C s F u :=
  fun ops ha => (h1 ops ha).trans (h2 ops ha)

theorem BehEq.symm {C D : Cur E} {s : C.σ} {t : D.σ} (h : BehEq A C s D t) : BehEq A D t C s :=
  fun ops ha => (h ops ha).symm

theorem BehEq.mono {A B : (E → Bool) → Prop} (hAB : ∀ p, B p → A p) {C D : Cur E} {s : C.σ} {t : D.σ}
    (h : BehEq A C s D t) : BehEq B C s D t := by
  intro ops hb
  apply h
  intro op hop
  have := hb op hop
  cases op <;> simp [Op.adm] at this ⊢
  exact hAB _ this

end Blue.Cursor
