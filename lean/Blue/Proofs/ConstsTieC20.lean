import Blue.Generated.Consts
import Blue.Proofs.Selector
/-! The limits and thresholds the selector reads, regenerated from the Rust source
    (`impl Default for LsmtkOptions`, `NUM_LEVELS`), tied to the selector model (C20): what the
    D-15 trigger means for the shipped defaults. -/
namespace Blue.ConstsTie
open Blue.Selector

/-- `LsmtkOptions::default()` as the selector model's options -/
def lsmtkDefaults : Opts :=
  ⟨Blue.Generated.lsmtkDefaultMaxOpenFiles, Blue.Generated.lsmtkDefaultMaxCompactionBytes,
   Blue.Generated.lsmtkDefaultMaxCompactionFiles, Blue.Generated.lsmtkDefaultL0MandatoryFiles,
   Blue.Generated.lsmtkDefaultL0MandatoryBytes, Blue.Generated.lsmtkDefaultL0StallFiles,
   Blue.Generated.lsmtkDefaultL0StallBytes⟩

theorem lsmtk_defaults : lsmtkDefaults = ⟨524288, 536870912, 64, 4, 67108864, 12, 268435456⟩ := by decide

/-- `level_curve` of the model distinguishes levels up to 10 and above; the tree has 16 levels -/
theorem lsmtk_num_levels : Blue.Generated.lsmtkNumLevels = 16 := by decide

theorem lsmtk_default_thresholds_ordered :
    lsmtkDefaults.mandFiles ≤ lsmtkDefaults.stallFiles ∧ 0 < lsmtkDefaults.stallFiles
      ∧ lsmtkDefaults.stallFiles ≤ lsmtkDefaults.maxCompactionFiles := by decide

/-- with the defaults, a level 0 at the stall threshold (12 files) is relieved by the hull
    compaction as long as at most 52 level-1 files lie under its hull … -/
theorem default_sel_upto_52 (l0b l1h l1hb : Nat) (full : Bool) (h : l1h ≤ 52) :
    sel lsmtkDefaults ⟨12, l0b, l1h, l1hb, full⟩ = true := by
  apply sel_of_limits
  · show 0 < 12; omega
  · show 12 + l1h ≤ 64; omega
  · show 12 + l1h < 524288; omega
  · left; show 4 ≤ 12; omega

/-- … and from 53 on it is not: `sel` fails although the configuration is the shipped one -/
theorem default_sel_fails_from_53 (l0 l0b l1h l1hb : Nat) (full : Bool) (h0 : 12 ≤ l0) (h : 53 ≤ l1h) :
    sel lsmtkDefaults ⟨l0, l0b, l1h, l1hb, full⟩ = false := by
  apply hull_above_file_limit
  show 64 < l0 + l1h
  omega

end Blue.ConstsTie
