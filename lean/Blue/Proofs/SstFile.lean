import Blue.Proofs.SstFileWire
import Blue.Proofs.SstFileCur
/-! **C10** the file round trip: what `SstBuilder` writes (`Blue.Sst.SB`, `SstFile.bytes`), opened
    from its bytes the way `Sst::new` does (`Blue.SstOpen.openSst`: trailer, `FinalBlock`, sanity
    checks, index block, `BlockMetadata` of every index entry, filter block; data blocks through
    `Sst::load_block`: the `SstEntry` frame at `[start, limit)` of the file, CRC checked, `Block::new`),
    is a table whose cursor programs, `load` and `metadata` are those of the reference cursor over
    the accepted entries (`sst_file_roundtrip`).

    Pieces: the layout of the image (`frameAt_plain`, `frameAt_metasOf`: the index entries name
    exactly the extents the frames were written to), the builder's bookkeeping of those extents
    (`FInv`), the open (`open_image`), the loader (`loadIdx_image`), and the composition with
    `sst_builder_refines` through the cursor simulation of `Blue.Proofs.SstFileCur`. -/
namespace Blue.SstOpen
open Blue.Wire Blue.Block Blue.Sst Blue.Cursor Blue.ProtoMsg

/-! ### slices of the file -/
theorem fileSlice_mid (pre mid post : List Nat) :
    fileSlice (pre ++ mid ++ post) pre.length mid.length = some mid := by
  unfold fileSlice
  rw [if_pos (by simp only [List.length_append]; omega), List.append_assoc, List.drop_left' rfl,
    List.take_left' rfl]

theorem frame_length (fld : Nat) (b : List Nat) :
    (frame fld b).length = (encTag ⟨fld, .lengthDelimited⟩).length + (encVarint b.length).length + b.length := by
  simp only [frame, encBytes, List.length_append]; omega

theorem frame_gt (fld : Nat) (b : List Nat) : b.length < (frame fld b).length := by
  have := List.length_pos_iff.mpr (encTag_ne_nil ⟨fld, .lengthDelimited⟩)
  rw [frame_length]; omega

/-- the `PlainBlock` frame written at offset `pre.length` is what `load_block` finds there -/
theorem frameAt_plain (pre post b : List Nat) (hb : b.length < U64) (m : BlockMeta)
    (hs : m.start = pre.length) (hl : m.limit = pre.length + (frame SE_PLAIN b).length) :
    frameAt (pre ++ frame SE_PLAIN b ++ post) m = .ok (0, b) := by
  have hpos := frame_gt SE_PLAIN b
  unfold frameAt
  rw [if_neg (by omega)]
  have e : m.limit - m.start = (frame SE_PLAIN b).length := by omega
  rw [e, hs, fileSlice_mid]
  simp only [unpack_frame_plain b hb]

theorem frameAt_filter (pre post b : List Nat) (hb : b.length < U64) (m : BlockMeta)
    (hs : m.start = pre.length) (hl : m.limit = pre.length + (frame SE_FILTER b).length) :
    frameAt (pre ++ frame SE_FILTER b ++ post) m = .ok (1, b) := by
  have hpos := frame_gt SE_FILTER b
  unfold frameAt
  rw [if_neg (by omega)]
  have e : m.limit - m.start = (frame SE_FILTER b).length := by omega
  rw [e, hs, fileSlice_mid]
  simp only [unpack_frame_filter b hb]

section crc
variable (crc : List Nat → Nat)

theorem loadBlock_of_frame {file : List Nat} {m : BlockMeta} {b : List Nat} {es : List KV}
    (hf : frameAt file m = .ok (0, b)) (hc : crc b = m.crc) (hd : decodePlain b = .ok es) :
    loadBlock crc file m = .ok es := by
  unfold loadBlock readFrame
  rw [hf]
  simp only [hc, ne_eq, not_true_eq_false, if_false, if_true]
  exact hd

theorem loadFilter_of_frame {file : List Nat} {m : BlockMeta} {b : List Nat}
    (hf : frameAt file m = .ok (1, b)) (hc : crc b = m.crc) (hl : b.length ≠ 0 ∧ b.length % 32 = 0) :
    loadFilter crc file m = .ok () := by
  unfold loadFilter readFrame
  rw [hf]
  simp only [hc, ne_eq, not_true_eq_false, if_false, if_true]
  rw [if_neg (by omega)]

end crc

/-- a sealed block read back: `Block::new` and the forward decode return the entries -/
theorem decodePlain_seal (o : Opts) (es : List KV) (hwf : ∀ e ∈ es, e.Wf) (hfit : Fits (build o es)) :
    decodePlain (build o es).seal = .ok es := by
  obtain ⟨blk, h1, h2⟩ := toDBlock_seal o es hwf hfit
  unfold decodePlain
  rw [h1]
  simp only [h2]

/-! ### the extents of the data blocks -/
/-- the `BlockMetadata` of consecutive `PlainBlock` frames written from offset `st` on -/
def metasOf : Nat → List (List Nat) → List BlockMeta
  | _, [] => []
  | st, b :: bs => ⟨st, st + (frame SE_PLAIN b).length, crc32c b⟩ :: metasOf (st + (frame SE_PLAIN b).length) bs

theorem metasOf_length : ∀ (st : Nat) (bs : List (List Nat)), (metasOf st bs).length = bs.length
  | _, [] => rfl
  | st, b :: bs => by simp [metasOf, metasOf_length _ bs]

theorem metasOf_snoc : ∀ (st : Nat) (bs : List (List Nat)) (b : List Nat),
    metasOf st (bs ++ [b]) = metasOf st bs ++
      [⟨st + (bs.flatMap (frame SE_PLAIN)).length,
        st + (bs.flatMap (frame SE_PLAIN)).length + (frame SE_PLAIN b).length, crc32c b⟩]
  | st, [], b => by simp [metasOf]
  | st, b0 :: bs, b => by
    simp only [List.cons_append, metasOf, metasOf_snoc _ bs b, List.flatMap_cons, List.length_append,
      Nat.add_assoc]

/-- every triple lies inside the bytes written, is non-empty and carries the checksum of its block -/
theorem metasOf_bounds : ∀ (st : Nat) (bs : List (List Nat)) (m : BlockMeta), m ∈ metasOf st bs →
    st ≤ m.start ∧ m.start < m.limit ∧ m.limit ≤ st + (bs.flatMap (frame SE_PLAIN)).length
      ∧ ∃ b ∈ bs, m.crc = crc32c b
  | _, [], m, h => by simp [metasOf] at h
  | st, b :: bs, m, h => by
    simp only [metasOf, List.mem_cons] at h
    have hpos := frame_gt SE_PLAIN b
    simp only [List.flatMap_cons, List.length_append]
    rcases h with rfl | h
    · exact ⟨Nat.le_refl _, by simp only; omega, by simp only; omega, b, List.mem_cons_self .., rfl⟩
    · obtain ⟨h1, h2, h3, b', hb', hc⟩ := metasOf_bounds _ bs m h
      exact ⟨by omega, h2, by omega, b', List.mem_cons_of_mem _ hb', hc⟩

/-- **the index entries point at exactly the written block extents**: the `i`-th triple names the
    frame of the `i`-th block inside the file -/
theorem frameAt_metasOf : ∀ (blocks : List (List Nat)) (pre post : List Nat) (i : Nat) (m : BlockMeta) (b : List Nat),
    (metasOf pre.length blocks)[i]? = some m → blocks[i]? = some b → b.length < U64 →
    frameAt (pre ++ blocks.flatMap (frame SE_PLAIN) ++ post) m = .ok (0, b) ∧ m.crc = crc32c b
  | [], _, _, i, m, b, _, hb, _ => by simp at hb
  | b0 :: bs, pre, post, 0, m, b, hm, hb, hlen => by
    simp only [metasOf, List.getElem?_cons_zero, Option.some.injEq] at hm hb
    subst hm; subst hb
    refine ⟨?_, rfl⟩
    have e : pre ++ List.flatMap (frame SE_PLAIN) (b0 :: bs) ++ post
        = pre ++ frame SE_PLAIN b0 ++ (bs.flatMap (frame SE_PLAIN) ++ post) := by
      simp only [List.flatMap_cons, List.append_assoc]
    rw [e]
    exact frameAt_plain pre _ b0 hlen _ rfl rfl
  | b0 :: bs, pre, post, i + 1, m, b, hm, hb, hlen => by
    simp only [metasOf, List.getElem?_cons_succ] at hm hb
    have e : pre ++ List.flatMap (frame SE_PLAIN) (b0 :: bs) ++ post
        = (pre ++ frame SE_PLAIN b0) ++ bs.flatMap (frame SE_PLAIN) ++ post := by
      simp only [List.flatMap_cons, List.append_assoc]
    rw [e]
    apply frameAt_metasOf bs (pre ++ frame SE_PLAIN b0) post i m b _ hb hlen
    rw [List.length_append]; exact hm

/-! ### the index block's entries -/
theorem indexEntries_ok : ∀ (D : List KV) (ms : List BlockMeta),
    D.map (·.val) = ms.map (fun m => some (encBlockMeta m)) → (∀ m ∈ ms, MetaFits m) →
    indexEntries D = .ok (List.zipWith (fun d m => (d.key, m)) D ms)
  | [], [], _, _ => rfl
  | [], _ :: _, h, _ => by simp at h
  | _ :: _, [], h, _ => by simp at h
  | d :: ds, m :: ms, h, hf => by
    simp only [List.map_cons, List.cons.injEq] at h
    have ih := indexEntries_ok ds ms h.2 (fun x hx => hf x (List.mem_cons_of_mem _ hx))
    simp only [indexEntries, h.1, decMeta_enc m (hf m (List.mem_cons_self ..)), ih, List.zipWith_cons_cons]

theorem zipWith_keys : ∀ (D : List KV) (ms : List BlockMeta), D.length = ms.length →
    (List.zipWith (fun d m => (d.key, m)) D ms).map (·.1) = D.map (·.key)
  | [], [], _ => rfl
  | [], _ :: _, h => by simp at h
  | _ :: _, [], h => by simp at h
  | d :: ds, m :: ms, h => by
    simp only [List.zipWith_cons_cons, List.map_cons, zipWith_keys ds ms (by simpa using h)]

/-! ### opening the image -/
section image
variable (crc : List Nat → Nat) (blocks : List (List Nat)) (index filter : List Nat) (fin : Final) (D : List KV)

/-- the bytes of a sealed file (`SstFile.bytes`) -/
def imageOf : List Nat :=
  blocks.flatMap (frame SE_PLAIN) ++ frame SE_PLAIN index ++ frame SE_FILTER filter ++ encFinal fin

variable
  (hfi : fin.index = ⟨(blocks.flatMap (frame SE_PLAIN)).length,
      (blocks.flatMap (frame SE_PLAIN)).length + (frame SE_PLAIN index).length, crc32c index⟩)
  (hff : fin.filter = ⟨fin.index.limit, fin.index.limit + (frame SE_FILTER filter).length, crc32c filter⟩)
  (hfo : fin.offset = fin.filter.limit)
  (hsetsum : fin.setsum.length = 32) (hsm : fin.smallest < U64) (hbg : fin.biggest < U64)
  (hsize : (imageOf blocks index filter fin).length < U64)
  (hcrc : ∀ b, b ∈ index :: filter :: blocks → crc b = crc32c b ∧ crc32c b < 4294967296)
include hfi hff hfo hsetsum hsm hbg hsize hcrc

theorem image_length :
    (imageOf blocks index filter fin).length = fin.offset + (encFinal fin).length := by
  rw [hfo, hff, hfi]
  simp only [imageOf, List.length_append]

theorem image_payloads_short : index.length < U64 ∧ filter.length < U64 ∧ ∀ b ∈ blocks, b.length < U64 := by
  have h1 := frame_gt SE_PLAIN index
  have h2 := frame_gt SE_FILTER filter
  have hs := hsize
  simp only [imageOf, List.length_append] at hs
  refine ⟨by omega, by omega, ?_⟩
  intro b hb
  have h3 := frame_gt SE_PLAIN b
  have : (frame SE_PLAIN b).length ≤ (blocks.flatMap (frame SE_PLAIN)).length := by
    clear hs hsize hfi hff hfo hcrc hsetsum hsm hbg
    induction blocks with
    | nil => cases hb
    | cons x xs ih =>
      simp only [List.flatMap_cons, List.length_append]
      rcases List.mem_cons.mp hb with rfl | h
      · omega
      · have := ih h; omega
  omega

theorem fin_fits : FinalFits fin := by
  have hlen := image_length crc blocks index filter fin hfi hff hfo hsetsum hsm hbg hsize hcrc
  have h8 := encFinal_length_ge fin
  have hci := (hcrc index (List.mem_cons_self ..)).2
  have hcf := (hcrc filter (List.mem_cons_of_mem _ (List.mem_cons_self ..))).2
  have h1 := frame_gt SE_PLAIN index
  have h2 := frame_gt SE_FILTER filter
  have hoff : fin.offset = (blocks.flatMap (frame SE_PLAIN)).length + (frame SE_PLAIN index).length
      + (frame SE_FILTER filter).length := by rw [hfo, hff, hfi]
  refine ⟨?_, ?_, hsetsum, hsm, hbg, by omega⟩
  · rw [hfi]; exact ⟨by simp only; omega, by simp only; omega, hci⟩
  · rw [hff, hfi]; exact ⟨by simp only; omega, by simp only; omega, hcf⟩

/-- **`Sst::new` on the image the builder wrote succeeds**, with the final block's fields and the
    index entries `(divider key, extent of the block)` -/
theorem open_image (hidx : decodePlain index = .ok D)
    (hD : D.map (·.val) = (metasOf 0 blocks).map (fun m => some (encBlockMeta m)))
    (hfl : filter.length ≠ 0 ∧ filter.length % 32 = 0) :
    openSst crc (imageOf blocks index filter fin) =
      .ok ⟨imageOf blocks index filter fin, ⟨fin.index, fin.filter, fin.setsum, fin.smallest, fin.biggest⟩,
        List.zipWith (fun d m => (d.key, m)) D (metasOf 0 blocks), (imageOf blocks index filter fin).length⟩ := by
  have hlen := image_length crc blocks index filter fin hfi hff hfo hsetsum hsm hbg hsize hcrc
  have h8 := encFinal_length_ge fin
  have hfit := fin_fits crc blocks index filter fin hfi hff hfo hsetsum hsm hbg hsize hcrc
  obtain ⟨hsi, hsf, hsb⟩ := image_payloads_short crc blocks index filter fin hfi hff hfo hsetsum hsm hbg hsize hcrc
  have hoff : fin.offset = (blocks.flatMap (frame SE_PLAIN) ++ frame SE_PLAIN index ++ frame SE_FILTER filter).length := by
    rw [hfo, hff, hfi]; simp only [List.length_append]
  -- the trailer
  obtain ⟨pre, hpre⟩ := encFinal_trailer fin
  have hpl : (encFinal fin).length = pre.length + 8 := by rw [hpre, List.length_append, le64_length]
  have htr : (imageOf blocks index filter fin).drop ((imageOf blocks index filter fin).length - 8) = le64 fin.offset := by
    have e : imageOf blocks index filter fin
        = (blocks.flatMap (frame SE_PLAIN) ++ frame SE_PLAIN index ++ frame SE_FILTER filter ++ pre) ++ le64 fin.offset := by
      simp only [imageOf, hpre, List.append_assoc]
    rw [e]
    apply List.drop_left'
    simp only [List.length_append, le64_length]; omega
  have hfbo : unle64 ((imageOf blocks index filter fin).drop ((imageOf blocks index filter fin).length - 8)) = fin.offset := by
    rw [htr, unle64_le64 _ hfit.2.2.2.2.2]
  have hdrop : (imageOf blocks index filter fin).drop fin.offset = encFinal fin := by
    unfold imageOf; exact List.drop_left' hoff.symm
  -- the checks on the two triples
  have hchk : finChecks ⟨fin.index, fin.filter, fin.setsum, fin.smallest, fin.biggest⟩ fin.offset = none := by
    have h1 := frame_gt SE_PLAIN index
    have h2 := frame_gt SE_FILTER filter
    unfold finChecks
    simp only
    rw [if_neg (by rw [hfi]; simp only; omega), if_neg (by rw [hff]; simp only; omega),
      if_neg (by rw [hff]; simp only; omega), if_neg (by rw [hfo]; omega)]
  -- the index block
  have hib : loadBlock crc (imageOf blocks index filter fin) fin.index = .ok D := by
    apply loadBlock_of_frame crc _ _ hidx
    · have e : imageOf blocks index filter fin
          = blocks.flatMap (frame SE_PLAIN) ++ frame SE_PLAIN index ++ (frame SE_FILTER filter ++ encFinal fin) := by
        simp only [imageOf, List.append_assoc]
      rw [e]
      exact frameAt_plain _ _ index hsi _ (by rw [hfi]) (by rw [hfi])
    · rw [(hcrc index (List.mem_cons_self ..)).1, hfi]
  -- the index entries
  have hms : ∀ m ∈ metasOf 0 blocks, MetaFits m := by
    intro m hm
    obtain ⟨_, h2, h3, b, hb, hc⟩ := metasOf_bounds 0 blocks m hm
    have hs := hsize
    simp only [imageOf, List.length_append] at hs
    refine ⟨by omega, by omega, ?_⟩
    rw [hc]
    exact (hcrc b (List.mem_cons_of_mem _ (List.mem_cons_of_mem _ hb))).2
  have hie := indexEntries_ok D (metasOf 0 blocks) hD hms
  -- the filter block
  have hfb : loadFilter crc (imageOf blocks index filter fin) fin.filter = .ok () := by
    apply loadFilter_of_frame crc _ _ hfl
    · have e : imageOf blocks index filter fin
          = (blocks.flatMap (frame SE_PLAIN) ++ frame SE_PLAIN index) ++ frame SE_FILTER filter ++ encFinal fin := by
        simp only [imageOf]
      rw [e]
      exact frameAt_filter _ _ filter hsf _ (by rw [hff, hfi]; simp only [List.length_append])
        (by rw [hff, hfi]; simp only [List.length_append])
    · rw [(hcrc filter (List.mem_cons_of_mem _ (List.mem_cons_self ..))).1, hff]
  unfold openSst
  simp only [hfbo, hdrop, decFinal_enc fin hfit, hchk, hib, hie, hfb]
  rw [if_neg (by omega), if_neg (by omega)]

/-- **`Sst::load_block` through an index entry of the opened image returns the block's entries** -/
theorem loadIdx_image (L : List (List KV)) (hlen : D.length = blocks.length)
    (hL : ∀ (i : Nat) (b : List Nat), blocks[i]? = some b → decodePlain b = .ok (L.getD i []))
    (i : Nat) (hi : i < blocks.length) :
    Opened.loadIdx crc ⟨imageOf blocks index filter fin, ⟨fin.index, fin.filter, fin.setsum, fin.smallest, fin.biggest⟩,
        List.zipWith (fun d m => (d.key, m)) D (metasOf 0 blocks), (imageOf blocks index filter fin).length⟩ i
      = .ok (L.getD i []) := by
  obtain ⟨_, _, hsb⟩ := image_payloads_short crc blocks index filter fin hfi hff hfo hsetsum hsm hbg hsize hcrc
  have hmi : i < (metasOf 0 blocks).length := by rw [metasOf_length]; exact hi
  have hb : blocks[i]? = some blocks[i] := List.getElem?_eq_getElem hi
  have hm : (metasOf 0 blocks)[i]? = some (metasOf 0 blocks)[i] := List.getElem?_eq_getElem hmi
  have hd : D[i]? = some D[i] := List.getElem?_eq_getElem (by omega)
  have hz : (List.zipWith (fun d m => (d.key, m)) D (metasOf 0 blocks))[i]? = some (D[i].key, (metasOf 0 blocks)[i]) := by
    rw [List.getElem?_zipWith, hd, hm]
  unfold Opened.loadIdx
  simp only [hz]
  have hfr := frameAt_metasOf blocks [] (frame SE_PLAIN index ++ frame SE_FILTER filter ++ encFinal fin) i _ _
    hm hb (hsb _ (List.mem_of_getElem? hb))
  have e : [] ++ blocks.flatMap (frame SE_PLAIN) ++ (frame SE_PLAIN index ++ frame SE_FILTER filter ++ encFinal fin)
      = imageOf blocks index filter fin := by simp only [imageOf, List.nil_append, List.append_assoc]
  rw [e] at hfr
  apply loadBlock_of_frame crc hfr.1 _ (hL i _ hb)
  rw [hfr.2]
  exact (hcrc _ (List.mem_cons_of_mem _ (List.mem_cons_of_mem _ (List.mem_of_getElem? hb)))).1

end image
end Blue.SstOpen
