import Blue.Proofs.BoundsMain
import Blue.Proofs.BoundsNat
/-! The generic bounds cursor over the reference child is the cursor `bounds_refines` is about. -/
namespace Blue.Cursor
variable {E : Type} (cfg : BoundsCfg E) (n : Nat)

namespace BoundsLink

def ofSpec (b : Bounds E) : BoundsC (RefCur E) := ⟨b.c, b.st⟩

theorem key_ref (b : Bounds E) : BoundsC.key (RefCur E) (ofSpec b) = b.key := rfl

theorem checkStart_ref (b : Bounds E) :
    BoundsC.checkStart (RefCur E) cfg (ofSpec b) = ofSpec (Bounds.checkStart cfg b) := by
  simp only [BoundsC.checkStart, Bounds.checkStart, key_ref]
  cases b.key with
  | none => rfl
  | some e => simp only; split <;> rfl

theorem checkEnd_ref (b : Bounds E) :
    BoundsC.checkEnd (RefCur E) cfg (ofSpec b) = ofSpec (Bounds.checkEnd cfg b) := by
  simp only [BoundsC.checkEnd, Bounds.checkEnd, key_ref]
  cases b.key with
  | none => rfl
  | some e => simp only; split <;> rfl

theorem skipEq_ref : ∀ (f : Nat) (c : Ref E), BoundsC.skipEq (RefCur E) cfg f c = Bounds.skipEq cfg f c := by
  intro f; induction f with
  | zero => intros; rfl
  | succ f ih =>
    intro c
    simp only [BoundsC.skipEq, Bounds.skipEq]
    cases c.kv with
    | none => rfl
    | some e => simp only; split
                · exact ih _
                · rfl

theorem nextLoop_ref : ∀ (f : Nat) (b : Bounds E),
    BoundsC.nextLoop (RefCur E) cfg f (ofSpec b) = ofSpec (Bounds.nextLoop cfg f b) := by
  intro f; induction f with
  | zero => intros; rfl
  | succ f ih =>
    intro b
    simp only [BoundsC.nextLoop, Bounds.nextLoop]
    have e : (⟨(RefCur E).next (ofSpec b).c, .positioned⟩ : BoundsC (RefCur E)) = ofSpec ⟨b.c.next, .positioned⟩ := rfl
    rw [e, checkStart_ref, checkEnd_ref]
    have hst : ∀ x : Bounds E, (ofSpec x).st = x.st := fun _ => rfl
    rw [hst]
    split
    · rfl
    · rw [hst]
      split
      · rfl
      · rw [ih]

theorem prevLoop_ref : ∀ (f : Nat) (b : Bounds E),
    BoundsC.prevLoop (RefCur E) cfg f (ofSpec b) = ofSpec (Bounds.prevLoop cfg f b) := by
  intro f; induction f with
  | zero => intros; rfl
  | succ f ih =>
    intro b
    simp only [BoundsC.prevLoop, Bounds.prevLoop]
    have e : (⟨(RefCur E).prev (ofSpec b).c, .positioned⟩ : BoundsC (RefCur E)) = ofSpec ⟨b.c.prev, .positioned⟩ := rfl
    rw [e, checkEnd_ref, checkStart_ref]
    have hst : ∀ x : Bounds E, (ofSpec x).st = x.st := fun _ => rfl
    rw [hst]
    split
    · rfl
    · rw [hst]
      split
      · rfl
      · rw [ih]

theorem seekToFirst_ref (b : Bounds E) :
    BoundsC.seekToFirst (RefCur E) cfg (ofSpec b) = ofSpec (Bounds.seekToFirst cfg b) := by
  simp only [BoundsC.seekToFirst, Bounds.seekToFirst]
  exact checkEnd_ref cfg ⟨_, .beforeStart⟩

theorem seekToLast_ref (b : Bounds E) :
    BoundsC.seekToLast (RefCur E) cfg n (ofSpec b) = ofSpec (Bounds.seekToLast cfg n b) := by
  simp only [BoundsC.seekToLast, Bounds.seekToLast, skipEq_ref]
  exact checkStart_ref cfg ⟨_, .afterEnd⟩

theorem seek_ref (pred : E → Bool) (b : Bounds E) :
    BoundsC.seek (RefCur E) cfg n pred (ofSpec b) = ofSpec (Bounds.seek cfg n pred b) := by
  simp only [BoundsC.seek, Bounds.seek]
  have e : (⟨(RefCur E).seek pred (ofSpec b).c, .positioned⟩ : BoundsC (RefCur E)) = ofSpec ⟨b.c.seek pred, .positioned⟩ := rfl
  rw [e, checkEnd_ref, checkStart_ref]
  have hst : ∀ x : Bounds E, (ofSpec x).st = x.st := fun _ => rfl
  rw [hst]
  split
  · rw [seekToFirst_ref]
    exact nextLoop_ref cfg n _
  · rfl

theorem step_ref (b : Bounds E) (op : Op E) :
    (BoundsC.cur (RefCur E) cfg n).step (ofSpec b) op = ofSpec (Bounds.step cfg n b op) := by
  cases op with
  | first => exact seekToFirst_ref cfg b
  | last => exact seekToLast_ref cfg n b
  | next => exact nextLoop_ref cfg n b
  | prev => exact prevLoop_ref cfg n b
  | seek pred => exact seek_ref cfg n pred b

end BoundsLink

open BoundsLink in
/-- **C11, bounds cursor, behavioural form.** -/
theorem boundsC_ref_behEq (xs : List E) {lo hi : Nat} (ok : BoundsOk cfg xs lo hi) (hn : xs.length + 2 ≤ n)
    (A : (E → Bool) → Prop) (hA : ∀ pred, A pred → MonoAlong xs pred) :
    ∀ (b : Bounds E) (pos : Nat), BRel xs lo hi b pos →
      BehEq A (BoundsC.cur (RefCur E) cfg n) (ofSpec b) (RefCur E) ⟨window xs lo hi, pos⟩ := by
  intro b pos h ops
  induction ops generalizing b pos with
  | nil =>
    intro _
    simp only [Cur.beh, Cur.runTo, List.foldl_nil]
    exact Prod.ext (brel_kv cfg xs ok h) rfl
  | cons op ops ih =>
    intro ha
    obtain ⟨ha1, ha2⟩ := adm_cons.mp ha
    have hstep : BRel xs lo hi (Bounds.step cfg n b op) ((Ref.mk (window xs lo hi) pos).step op).pos
        ∧ ((Ref.mk (window xs lo hi) pos).step op).xs = window xs lo hi := by
      cases op with
      | first => exact ⟨brel_first cfg xs ok h, rfl⟩
      | last => exact ⟨by simpa [Ref.step, Ref.last, Bounds.step] using brel_last cfg xs ok n hn h, rfl⟩
      | next => exact ⟨brel_next cfg xs ok n hn h, by simp only [Ref.step, Ref.next]; split <;> rfl⟩
      | prev => exact ⟨brel_prev cfg xs ok n hn h, by simp only [Ref.step, Ref.prev]; split <;> rfl⟩
      | seek pred => exact ⟨brel_seek cfg xs ok n hn h pred (hA pred ha1), rfl⟩
    obtain ⟨h1, h2⟩ := hstep
    have hc : (Ref.mk (window xs lo hi) pos).step op
        = ⟨window xs lo hi, ((Ref.mk (window xs lo hi) pos).step op).pos⟩ := by
      cases hs : (Ref.mk (window xs lo hi) pos).step op with
      | mk a c => rw [hs] at h2; simp at h2; simp [h2]
    show (BoundsC.cur (RefCur E) cfg n).beh ((BoundsC.cur (RefCur E) cfg n).step (ofSpec b) op) ops
      = (RefCur E).beh ((RefCur E).step ⟨window xs lo hi, pos⟩ op) ops
    rw [step_ref]
    have hr : (RefCur E).step ⟨window xs lo hi, pos⟩ op
        = ⟨window xs lo hi, ((Ref.mk (window xs lo hi) pos).step op).pos⟩ := by
      rw [← hc]; cases op <;> rfl
    rw [hr]
    exact ih _ _ h1 ha2

/-- children with the same behaviour give bounds cursors with the same behaviour -/
theorem bounds_subst {A : (E → Bool) → Prop} (hs : A cfg.geStart) (he : A cfg.geEnd)
    {C D : Cur E} {c : C.σ} {d : D.σ} (h : BehEq A C c D d) (st : BState) :
    BehEq A (BoundsC.cur C cfg n) ⟨c, st⟩ (BoundsC.cur D cfg n) ⟨d, st⟩ :=
  behEq_lift (A := A) (ι := fun C => C.σ) (fun C => BoundsC.cur C cfg n)
    (fun C c => (⟨c, st⟩ : BoundsC C)) (fun h => h.f) (fun h => BoundsC.hom h cfg n hs he)
    (fun h x => rfl) c d (behA_eq_of_behEq h)

/-- **Bounds over any table-like child.** -/
theorem bounds_over (xs : List E) {lo hi : Nat} (ok : BoundsOk cfg xs lo hi) (hn : xs.length + 2 ≤ n)
    {A : (E → Bool) → Prop} (hA : ∀ pred, A pred → MonoAlong xs pred)
    (hs : A cfg.geStart) (he : A cfg.geEnd)
    {C : Cur E} {c : C.σ} {q : Nat} (hc : BehEq A C c (RefCur E) ⟨xs, q⟩)
    (st : BState) (pos : Nat) (hrel : BRel xs lo hi ⟨⟨xs, q⟩, st⟩ pos) :
    BehEq A (BoundsC.cur C cfg n) ⟨c, st⟩ (RefCur E) ⟨window xs lo hi, pos⟩ :=
  (bounds_subst cfg n hs he hc st).trans (boundsC_ref_behEq cfg n xs ok hn A hA ⟨⟨xs, q⟩, st⟩ pos hrel)

end Blue.Cursor

#print axioms Blue.Cursor.bounds_over
