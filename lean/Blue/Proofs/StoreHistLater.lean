import Blue.Proofs.ApplyLater
import Blue.Proofs.StoreHistTree
/-! # The composed store history with compactions IN FLIGHT

`Blue.StoreHistTree` applies a compaction atomically to the tree it was chosen on.  Here choosing
and installing are separate operations, as in `Tree::compaction_thread`:

* `choose n o`: `next_compaction` on the current tree with the compactions in flight as `ongoing`;
  the answer is pushed onto the in-flight list (`emit_compaction`) — the tree does not change;
* `install i outs`: `Version::apply_compaction` of in-flight compaction `i` to the CURRENT tree
  (`apply_manifest_compaction` takes a fresh snapshot under the `compaction` mutex), which also
  removes it from the list;
* `moveInstall i`: the same for a compaction with one input (`apply_moving_compaction`);
* writes, rollovers and flushes (`Version::ingest`) in between, in any order.

Any number of compactions may be in flight.  The invariant carried along: every compaction in
flight is still `Chosen` on the current tree, and no two of them are `overlapping`
(`may_choose_compaction`).  `chosen_stable_under_ingest` and `chosen_stable_under_disjoint_apply`
keep it.  (`Vec::swap_remove` is modelled by `List.eraseIdx`: the invariant does not depend on the
order of the list.  Garbage-collecting installs — output level the last — are added in
`Blue.Proofs.StoreHistLaterGc`.
A failed compaction, `release_compaction`, is `abort i`.) -/
namespace Blue.StoreHistLater
open Blue.Spec Blue.Kvs Blue.NextCompaction Blue.StoreHist Blue.StoreHistTree

structure LState where
  base : TState
  /-- `Version::ongoing` -/
  og : List Core

def linit (k : Nat) : LState := ⟨tinit k, []⟩

inductive LOp where
  | write (batch : List (Nat × Payload))
  | rollover
  | flush (id size : Nat)
  /-- `next_compaction` on the current tree, the in-flight list as `ongoing`; the answer joins it -/
  | choose (n : Num) (o : Opts)
  /-- `apply_compaction` of in-flight compaction `i` with the merge's outputs, on the current tree -/
  | install (i : Nat) (outs : List File)
  /-- `apply_moving_compaction` of in-flight compaction `i` -/
  | moveInstall (i : Nat)
  /-- `release_compaction`: the compaction thread failed -/
  | abort (i : Nat)

def lapply (s : LState) : LOp → LState
  | .write b => ⟨tapply s.base (.write b), s.og⟩
  | .rollover => ⟨tapply s.base .rollover, s.og⟩
  | .flush id size => ⟨tapply s.base (.flush id size), s.og⟩
  | .choose n o =>
    match nextCompaction n o s.base.tree s.og with
    | none => s
    | some c => ⟨s.base, s.og ++ [c]⟩
  | .install i outs =>
    match s.og[i]? with
    | none => s
    | some c => ⟨{ s.base with tree := applyCompaction s.base.tree c outs }, s.og.eraseIdx i⟩
  | .moveInstall i =>
    match s.og[i]? with
    | none => s
    | some c =>
      match moveFile s.base.tree c with
      | none => s
      | some f => ⟨{ s.base with tree := applyTrivialMove s.base.tree c f }, s.og.eraseIdx i⟩
  | .abort i => ⟨s.base, s.og.eraseIdx i⟩

/-- what is left to assume of a step: as `TOpOk`, with the hypotheses on the outputs of a merge
    stated on the tree the compaction is INSTALLED on -/
def LOpOk (s : LState) : LOp → Prop
  | .flush id _ => ∀ v i, s.base.imm = some (v :: i) → ∀ l g, g ∈ level s.base.tree l → g.id ≠ id
  | .install i outs => ∀ c, s.og[i]? = some c →
      OutsOk s.base.tree c outs
      ∧ (∀ x ∈ outs, ∀ e ∈ x.vers, ∃ i f, f ∈ level s.base.tree i ∧ f.id ∈ c.inputs ∧ e ∈ f.vers)
      ∧ (∀ i f, f ∈ level s.base.tree i → f.id ∈ c.inputs → ∀ e ∈ f.vers, ∃ x ∈ outs, e ∈ x.vers)
      ∧ NewerAbove (comps outs)
  | _ => True

def LValid : LState → List LOp → Prop
  | _, [] => True
  | s, op :: ops => LOpOk s op ∧ LValid (lapply s op) ops

def lrun (s : LState) (ops : List LOp) : LState := ops.foldl lapply s

def ltoOp : LOp → Op
  | .write b => .write b
  | .rollover => .rollover
  | .flush _ _ => .flush
  | _ => .compact [] []

def lrunSpec : LState → SpecMap → List LOp → SpecMap
  | _, m, [] => m
  | s, m, op :: ops => lrunSpec (lapply s op) (specStep m (s.base.seq + 1) (ltoOp op)) ops

/-- the specification (key ↦ sequence number and payload of its last accepted write) after `ops` -/
def lspec (k : Nat) (ops : List LOp) : SpecMap := lrunSpec (linit k) (fun _ => none) ops

/-- `TInv` of the store, and of the compactions in flight: each is admissible on the CURRENT tree,
    no two overlap -/
structure LInv (s : LState) : Prop where
  base : TInv s.base
  chosen : ∀ c ∈ s.og, Chosen s.base.tree c
  apart : s.og.Pairwise (fun a b => overlapping a b = false)

theorem apart_of_ne {og : List Core} (h : og.Pairwise (fun a b => overlapping a b = false)) {i j : Nat}
    (hi : i < og.length) (hj : j < og.length) (hne : i ≠ j) : overlapping og[i] og[j] = false := by
  rw [List.pairwise_iff_getElem] at h
  rcases Nat.lt_or_gt_of_ne hne with hlt | hgt
  · exact h i j hi hj hlt
  · rw [overlapping_symm]; exact h j i hj hi hgt

/-- installing in-flight compaction `i` keeps the in-flight invariant for the others -/
theorem linv_install {s : LState} (inv : LInv s) {i : Nat} {c : Core} (hc : s.og[i]? = some c)
    {outs : List File} (ho : OutsOk s.base.tree c outs) :
    (∀ g ∈ s.og.eraseIdx i, Chosen (applyCompaction s.base.tree c outs) g)
      ∧ (s.og.eraseIdx i).Pairwise (fun a b => overlapping a b = false) := by
  obtain ⟨hi, rfl⟩ := List.getElem?_eq_some_iff.mp hc
  refine ⟨?_, inv.apart.sublist (List.eraseIdx_sublist _ _)⟩
  intro g hg
  obtain ⟨j, hj, hne, rfl⟩ := List.mem_eraseIdx_iff_getElem.mp hg
  exact chosen_stable_under_disjoint_apply inv.base.tree (inv.chosen _ (List.getElem_mem hi)) ho
    (inv.chosen _ (List.getElem_mem hj)) (apart_of_ne inv.apart hi hj (Ne.symm hne))

theorem lapply_choose_none (s : LState) (n : Num) (o : Opts) (h : nextCompaction n o s.base.tree s.og = none) :
    lapply s (.choose n o) = s := by
  rw [lapply.eq_4]; simp only [h]

theorem lapply_choose_some (s : LState) (n : Num) (o : Opts) {c : Core}
    (h : nextCompaction n o s.base.tree s.og = some c) : lapply s (.choose n o) = ⟨s.base, s.og ++ [c]⟩ := by
  rw [lapply.eq_4]; simp only [h]

theorem lapply_install_none (s : LState) {i : Nat} (outs : List File) (h : s.og[i]? = none) :
    lapply s (.install i outs) = s := by
  rw [lapply.eq_5]; simp only [h]

theorem lapply_install_some (s : LState) {i : Nat} (outs : List File) {c : Core} (h : s.og[i]? = some c) :
    lapply s (.install i outs) = ⟨{ s.base with tree := applyCompaction s.base.tree c outs }, s.og.eraseIdx i⟩ := by
  rw [lapply.eq_5]; simp only [h]

theorem lapply_move_none (s : LState) {i : Nat} (h : s.og[i]? = none) : lapply s (.moveInstall i) = s := by
  rw [lapply.eq_6]; simp only [h]

theorem lapply_move_nofile (s : LState) {i : Nat} {c : Core} (h : s.og[i]? = some c)
    (hf : moveFile s.base.tree c = none) : lapply s (.moveInstall i) = s := by
  rw [lapply.eq_6]; simp only [h, hf]

theorem lapply_move_some (s : LState) {i : Nat} {c : Core} {f : File} (h : s.og[i]? = some c)
    (hf : moveFile s.base.tree c = some f) :
    lapply s (.moveInstall i) = ⟨{ s.base with tree := applyTrivialMove s.base.tree c f }, s.og.eraseIdx i⟩ := by
  rw [lapply.eq_6]; simp only [h, hf]

/-- `choose` keeps the in-flight invariant and does not touch the store -/
theorem linv_choose {s : LState} (inv : LInv s) (n : Num) (o : Opts) :
    LInv (lapply s (.choose n o)) ∧ (lapply s (.choose n o)).base = s.base := by
  cases hsel : nextCompaction n o s.base.tree s.og with
  | none => rw [lapply_choose_none s n o hsel]; exact ⟨inv, rfl⟩
  | some c =>
    rw [lapply_choose_some s n o hsel]
    refine ⟨⟨inv.base, ?_, ?_⟩, rfl⟩
    · intro g hg
      rcases List.mem_append.mp hg with hg | hg
      · exact inv.chosen g hg
      · simp only [List.mem_singleton] at hg
        subst hg
        exact nextCompaction_chosen n o s.base.tree s.og inv.base.tree hsel
    · show (s.og ++ [c]).Pairwise _
      rw [List.pairwise_append]
      refine ⟨inv.apart, List.pairwise_singleton _ _, ?_⟩
      intro a ha b hb
      simp only [List.mem_singleton] at hb
      subst hb
      exact nextCompaction_not_overlapping n o s.base.tree s.og hsel a ha

/-- `abort` keeps the in-flight invariant and does not touch the store -/
theorem linv_abort {s : LState} (inv : LInv s) (i : Nat) :
    LInv (lapply s (.abort i)) ∧ (lapply s (.abort i)).base = s.base :=
  ⟨⟨inv.base, fun g hg => inv.chosen g ((List.eraseIdx_sublist _ _).subset hg),
    inv.apart.sublist (List.eraseIdx_sublist _ _)⟩, rfl⟩

/-- a fixed `TOp` whose `toOp` is the compaction step (only `toOp op` of it is looked at) -/
def dummyOp : TOp := .moveSel ⟨fun _ => 0, fun _ x => x⟩ ⟨0, 0, 0, 0, 0⟩ []

theorem lstep (s : LState) (op : LOp) (m : SpecMap) (ok : LOpOk s op) (inv : LInv s) (r : Rel s.base.toH m) :
    LInv (lapply s op) ∧ Rel (lapply s op).base.toH (specStep m (s.base.seq + 1) (ltoOp op)) := by
  cases op with
  | write b =>
    obtain ⟨i', r'⟩ := tstep s.base (.write b) m trivial inv.base r
    refine ⟨⟨i', ?_, inv.apart⟩, r'⟩
    show ∀ c ∈ s.og, Chosen (tapply s.base (.write b)).tree c
    rw [(toH_write s.base b).2]; exact inv.chosen
  | rollover =>
    obtain ⟨i', r'⟩ := tstep s.base .rollover m trivial inv.base r
    refine ⟨⟨i', ?_, inv.apart⟩, r'⟩
    show ∀ c ∈ s.og, Chosen (tapply s.base .rollover).tree c
    rw [(toH_rollover s.base).2]; exact inv.chosen
  | flush id size =>
    obtain ⟨i', r'⟩ := tstep s.base (.flush id size) m ok inv.base r
    refine ⟨⟨i', ?_, inv.apart⟩, r'⟩
    show ∀ c ∈ s.og, Chosen (tapply s.base (.flush id size)).tree c
    cases hi : s.base.imm with
    | none => rw [tapply_flush_none s.base id size hi]; exact inv.chosen
    | some i0 =>
      cases i0 with
      | nil => rw [tapply_flush_nil s.base id size hi]; exact inv.chosen
      | cons v i =>
        rw [tapply_flush_cons s.base id size hi]
        intro c hc
        have hi' : s.base.toH.st.imm = some (v :: i) := hi
        refine chosen_stable_under_ingest (inv.chosen c hc) (fun l g hg => ok v i hi l g hg) ?_
        intro g hg
        exact flush_bts inv.base.hist hi' (toK g) (List.mem_map.mpr ⟨g, hg, rfl⟩)
  | choose n o =>
    show LInv (match nextCompaction n o s.base.tree s.og with | none => s | some c => ⟨s.base, s.og ++ [c]⟩)
      ∧ Rel (match nextCompaction n o s.base.tree s.og with | none => s | some c => ⟨s.base, s.og ++ [c]⟩).base.toH m
    cases hsel : nextCompaction n o s.base.tree s.og with
    | none => exact ⟨inv, r⟩
    | some c =>
      refine ⟨⟨inv.base, ?_, ?_⟩, r⟩
      · intro g hg
        rcases List.mem_append.mp hg with hg | hg
        · exact inv.chosen g hg
        · simp only [List.mem_singleton] at hg
          subst hg
          exact nextCompaction_chosen n o s.base.tree s.og inv.base.tree hsel
      · show (s.og ++ [c]).Pairwise _
        rw [List.pairwise_append]
        refine ⟨inv.apart, List.pairwise_singleton _ _, ?_⟩
        intro a ha b hb
        simp only [List.mem_singleton] at hb
        subst hb
        exact nextCompaction_not_overlapping n o s.base.tree s.og hsel a ha
  | install i outs =>
    show LInv (match s.og[i]? with | none => s | some c => ⟨{ s.base with tree := applyCompaction s.base.tree c outs }, s.og.eraseIdx i⟩)
      ∧ Rel (match s.og[i]? with | none => s | some c => ⟨{ s.base with tree := applyCompaction s.base.tree c outs }, s.og.eraseIdx i⟩).base.toH m
    cases hc : s.og[i]? with
    | none => exact ⟨inv, r⟩
    | some c =>
      obtain ⟨h1, h2, h3, h4⟩ := ok c hc
      have hch : Chosen s.base.tree c := inv.chosen c (List.mem_of_getElem? hc)
      obtain ⟨i', r'⟩ := tstep_tree (s := s.base) (op := dummyOp) rfl
        (compactionOk_of_chosen s.base.mem s.base.imm inv.base.tree hch h1 h2 h3 h4)
        (apply_preserves_inv inv.base.tree hch h1) (length_apply _ _ _) inv.base r
      obtain ⟨k1, k2⟩ := linv_install inv hc h1
      exact ⟨⟨i', k1, k2⟩, r'⟩
  | moveInstall i =>
    cases hc : s.og[i]? with
    | none => rw [lapply_move_none s hc]; exact ⟨inv, r⟩
    | some c =>
      cases hmf : moveFile s.base.tree c with
      | none => rw [lapply_move_nofile s hc hmf]; exact ⟨inv, r⟩
      | some f =>
        rw [lapply_move_some s hc hmf]
        have hfm : f ∈ s.base.tree.flatten := List.mem_of_find?_eq_some hmf
        have hone : c.inputs = [f.id] := by
          have := List.find?_some hmf
          exact of_decide_eq_true this
        obtain ⟨l, hfl⟩ := mem_flatten_level.mp hfm
        have hch : Chosen s.base.tree c := inv.chosen c (List.mem_of_getElem? hc)
        obtain ⟨h1, h2, h3⟩ := move_outs_ok inv.base.tree hch hfl hone
        have hsup : ∀ i g, g ∈ level s.base.tree i → g.id ∈ c.inputs → ∀ e ∈ g.vers, ∃ x ∈ [f], e ∈ x.vers := by
          intro i g hg hid e he
          rw [hone, List.mem_singleton] at hid
          obtain ⟨_, rfl⟩ := inv.base.tree.ids_unique hg hfl hid
          exact ⟨g, List.mem_singleton.mpr rfl, he⟩
        obtain ⟨i', r'⟩ := tstep_tree (s := s.base) (t' := applyTrivialMove s.base.tree c f) (op := dummyOp) rfl
          (compactionOk_of_chosen s.base.mem s.base.imm inv.base.tree hch h1 h2 hsup h3)
          (apply_preserves_inv inv.base.tree hch h1) (length_apply _ _ _) inv.base r
        obtain ⟨k1, k2⟩ := linv_install inv hc h1
        exact ⟨⟨i', k1, k2⟩, r'⟩
  | abort i =>
    refine ⟨⟨inv.base, ?_, inv.apart.sublist (List.eraseIdx_sublist _ _)⟩, r⟩
    intro g hg
    exact inv.chosen g ((List.eraseIdx_sublist _ _).subset hg)

theorem lrun_cons (s : LState) (op : LOp) (ops : List LOp) : lrun s (op :: ops) = lrun (lapply s op) ops := rfl

theorem lrun_inv_rel : ∀ (ops : List LOp) (s : LState) (m : SpecMap), LValid s ops → LInv s → Rel s.base.toH m →
    LInv (lrun s ops) ∧ Rel (lrun s ops).base.toH (lrunSpec s m ops)
  | [], _, _, _, inv, r => ⟨inv, r⟩
  | op :: ops, s, m, hv, inv, r => by
    rw [lrun_cons, lrunSpec]
    obtain ⟨i', r'⟩ := lstep s op m hv.1 inv r
    exact lrun_inv_rel ops (lapply s op) _ hv.2 i' r'

theorem linv_init (k : Nat) : LInv (linit k) :=
  ⟨tinv_init k, fun _ h => (by cases h), List.Pairwise.nil⟩

theorem lrunSpec_payload : ∀ (ops : List LOp) (s : LState) (m : SpecMap) (k : Nat),
    (lrunSpec s m ops k).map (·.2) = (ops.map ltoOp).foldl valStep (fun k => (m k).map (·.2)) k
  | [], _, _, _ => rfl
  | op :: ops, s, m, k => by
    rw [lrunSpec, List.map_cons, List.foldl_cons, ← valStep_of_specStep m (s.base.seq + 1) (ltoOp op)]
    exact lrunSpec_payload ops (lapply s op) _ k

theorem concurrent_invariant (k : Nat) (ops : List LOp) (hv : LValid (linit k) ops) : LInv (lrun (linit k) ops) :=
  (lrun_inv_rel ops (linit k) _ hv (linv_init k) (rel_tinit k)).1

theorem concurrent_rel (k : Nat) (ops : List LOp) (hv : LValid (linit k) ops) :
    Rel (lrun (linit k) ops).base.toH (lspec k ops) :=
  (lrun_inv_rel ops (linit k) _ hv (linv_init k) (rel_tinit k)).2

/-- **store_history_refines_concurrent**: after ANY list of writes, rollovers, flushes, `choose`s
    (the selector's answer on the current tree joins the compactions in flight), `install`s /
    `moveInstall`s (a compaction in flight is applied to the CURRENT tree — whatever flushes and
    installs of other compactions happened since it was chosen) and aborts, from the empty store:
    the point-read model on the state reached returns, at the published sequence number or later,
    the version of the last accepted write naming the key; the payload map gives its payload; both
    invariants hold; every compaction still in flight is admissible on the current tree and no
    two overlap. -/
theorem store_history_refines_concurrent (k : Nat) (ops : List LOp) (hv : LValid (linit k) ops) (key t : Nat)
    (ht : (lrun (linit k) ops).base.vis ≤ t) :
    kvsLoad (toKState (lrun (linit k) ops).base.mem (lrun (linit k) ops).base.imm (lrun (linit k) ops).base.tree) key t
        = (lspec k ops key).map (fun e => (key, e.1))
    ∧ (∀ ts p, lspec k ops key = some (ts, p) → (lrun (linit k) ops).base.pay key ts = some p)
    ∧ LInv (lrun (linit k) ops) :=
  ⟨kvsLoad_of_rel (concurrent_invariant k ops hv).base.hist (concurrent_rel k ops hv) key t ht,
   fun ts p hk => ((concurrent_rel k ops hv).present key ts p hk).2.2,
   concurrent_invariant k ops hv⟩

/-- the answer of `load`, as payload, is the payload of the last accepted write of the history -/
theorem concurrent_reads_last_write (k : Nat) (ops : List LOp) (hv : LValid (linit k) ops) (key : Nat) :
    read (lrun (linit k) ops).base.toH key = lastWrite (ops.map ltoOp) key := by
  rw [read_of_rel (concurrent_invariant k ops hv).base.hist (concurrent_rel k ops hv) key]
  exact lrunSpec_payload ops (linit k) (fun _ => none) key

/-- the atomic history is the special case `choose` immediately followed by `install` of the
    compaction just pushed: the successor trees agree -/
theorem atomic_is_choose_then_install (s : LState) (n : Num) (o : Opts) (outs : List File) :
    (lapply (lapply s (.choose n o)) (.install s.og.length outs)).base.tree
      = (tapply s.base (.compactSel n o s.og outs)).tree := by
  show (lapply (match nextCompaction n o s.base.tree s.og with | none => s | some c => ⟨s.base, s.og ++ [c]⟩)
    (.install s.og.length outs)).base.tree = _
  cases hsel : nextCompaction n o s.base.tree s.og with
  | none =>
    rw [tapply_compact_none s.base n o s.og outs hsel]
    show (match s.og[s.og.length]? with | none => s | some c => _).base.tree = _
    rw [List.getElem?_eq_none (Nat.le_refl _)]
  | some c =>
    rw [tapply_compact_some s.base n o s.og outs hsel]
    show (match (s.og ++ [c])[s.og.length]? with
      | none => (⟨s.base, s.og ++ [c]⟩ : LState)
      | some c' => ⟨{ s.base with tree := applyCompaction s.base.tree c' outs }, (s.og ++ [c]).eraseIdx s.og.length⟩).base.tree = _
    rw [List.getElem?_append_right (Nat.le_refl _)]
    simp

end Blue.StoreHistLater

#print axioms Blue.StoreHistLater.lstep
#print axioms Blue.StoreHistLater.store_history_refines_concurrent
#print axioms Blue.StoreHistLater.concurrent_reads_last_write
#print axioms Blue.StoreHistLater.atomic_is_choose_then_install
