import Blue.Proofs.LogCrash
import Blue.Proofs.LogAny
/-! `crash_prefix` without the `MAX_BATCH_SIZE` hypothesis (same proof over `log_roundtrip_any`). -/
namespace Blue.LogCrash
open Blue.Log
variable {P : Params}

/-- **C02 / C12** crash between any two system calls of `write; fdatasync; ack`, for every batch
    size the reader accepts -/
theorem crash_prefix_any (g : Good P) :
    ∀ (bufs done : List (List Nat)) (st : FileSt) (k : Nat),
      (∀ b ∈ done ++ bufs, b.length ≤ P.tableFull) →
      st.synced = writeAll P done 0 → st.pending = [] →
      let evs := (protocol P bufs st.synced.length done.length).take k
      let st' := evs.foldl FileSt.apply st
      ∃ ja jb, readAll P (crashA st') (ja + 1) 0 = some ((done ++ bufs).take ja)
        ∧ readAll P (crashB st') (jb + 1) 0 = some ((done ++ bufs).take jb)
        ∧ done.length + acked evs ≤ jb ∧ jb ≤ ja ∧ ja ≤ done.length + acked evs + 1 := by
  intro bufs
  induction bufs with
  | nil =>
    intro done st k hsz hs hp
    simp only [protocol, List.take_nil, List.foldl_nil, List.append_nil]
    refine ⟨done.length, done.length, ?_, ?_, by simp [acked], Nat.le_refl _, by omega⟩
    · have := log_roundtrip_any g done [] (fun b hb => hsz b (by simpa using hb))
      simp only [List.nil_append, List.length_nil] at this
      simp only [crashA, hs, hp, List.append_nil, List.take_length]
      exact this
    · have := log_roundtrip_any g done [] (fun b hb => hsz b (by simpa using hb))
      simp only [List.nil_append, List.length_nil] at this
      simp only [crashB, hs, List.take_length]
      exact this
  | cons b bs ih =>
    intro done st k hsz hs hp
    have hdone := log_roundtrip_any g done [] (fun x hx => hsz x (List.mem_append_left _ hx))
    simp only [List.nil_append, List.length_nil] at hdone
    have hdone1 := log_roundtrip_any g (done ++ [b]) [] (fun x hx => hsz x (by
      rw [List.mem_append] at hx ⊢
      rcases hx with hx | hx
      · exact Or.inl hx
      · simp at hx; subst hx; exact Or.inr (List.mem_cons_self ..)))
    simp only [List.nil_append, List.length_nil] at hdone1
    have hw1 : writeAll P (done ++ [b]) 0 = st.synced ++ appendAt P 2 st.synced.length b := by
      rw [writeAll_append, ← hs]
      simp [writeAll]
    have htake0 : (done ++ b :: bs).take done.length = done := by simp
    have htake1 : (done ++ b :: bs).take (done.length + 1) = done ++ [b] := by
      have : done ++ b :: bs = (done ++ [b]) ++ bs := by simp
      rw [this, List.take_left' (by simp)]
    -- how far did the writer get?
    match k with
    | 0 =>
      simp only [List.take_zero, List.foldl_nil]
      refine ⟨done.length, done.length, ?_, ?_, by simp [acked], Nat.le_refl _, by omega⟩
      · simp only [crashA, hs, hp, List.append_nil, htake0]; exact hdone
      · simp only [crashB, hs, htake0]; exact hdone
    | 1 =>
      -- written, not synced
      simp only [protocol, List.take_succ_cons, List.take_zero, List.foldl_cons, List.foldl_nil, FileSt.apply]
      refine ⟨done.length + 1, done.length, ?_, ?_, by simp [acked], by omega, by simp [acked]⟩
      · simp only [crashA, hp, List.nil_append, htake1, ← hw1]
        have := hdone1; simp only [List.length_append, List.length_cons, List.length_nil] at this
        exact this
      · simp only [crashB, hs, htake0]; exact hdone
    | 2 =>
      -- synced, not acknowledged
      simp only [protocol, List.take_succ_cons, List.take_zero, List.foldl_cons, List.foldl_nil, FileSt.apply]
      refine ⟨done.length + 1, done.length + 1, ?_, ?_, by simp [acked], Nat.le_refl _, by simp [acked]⟩
      · simp only [crashA, hp, List.nil_append, List.append_nil, htake1, ← hw1]
        have := hdone1; simp only [List.length_append, List.length_cons, List.length_nil] at this
        exact this
      · simp only [crashB, hp, List.nil_append, htake1, ← hw1]
        have := hdone1; simp only [List.length_append, List.length_cons, List.length_nil] at this
        exact this
    | k + 3 =>
      -- this batch is acknowledged; continue with the next
      simp only [protocol, List.take_succ_cons, List.foldl_cons, FileSt.apply]
      have hst : (⟨st.synced ++ (st.pending ++ appendAt P 2 st.synced.length b), []⟩ : FileSt).synced
          = writeAll P (done ++ [b]) 0 := by rw [hw1, hp]; simp
      have := ih (done ++ [b]) ⟨st.synced ++ (st.pending ++ appendAt P 2 st.synced.length b), []⟩ k
        (fun x hx => hsz x (by simpa using hx)) hst rfl
      simp only [hp, List.nil_append, List.length_append, List.length_cons, List.length_nil, List.append_assoc,
        List.cons_append] at this ⊢
      obtain ⟨ja, jb, h1, h2, h3, h4, h5⟩ := this
      refine ⟨ja, jb, h1, h2, ?_, h4, ?_⟩
      · simp only [acked, List.filter_cons] at h3 ⊢; simp at h3 ⊢; omega
      · simp only [acked, List.filter_cons] at h5 ⊢; simp at h5 ⊢; omega

end Blue.LogCrash

#print axioms Blue.LogCrash.crash_prefix_any
