import Blue.Proofs.ManiAlgebra
/-! C13's chain clause: every fragment after the first starts with the roll-up of the state its
    predecessor replays to (`Manifest::verify`'s check, `chainOk`).  It holds after every history of
    edits and rollovers, and — with `Manifest::open` finishing an interrupted rollover (D-13
    repaired, `reopenOps`) — after a crash at any system call under either persistence model
    followed by the reopen's rollover. -/
namespace Blue.Mani
open Blue.ManiCrash

abbrev rollupOf (es : List Edit) : Edit := maniAlgebra.rollup (replay maniAlgebra es)

theorem chainOk_cons2 (a b : List Edit) (rest : List (List Edit)) :
    chainOk (a :: b :: rest) = (decide (b.head? = some (rollupOf a)) && chainOk (b :: rest)) := rfl

theorem chainOk_single (a : List Edit) : chainOk [a] = true := rfl

/-- appending a fragment that starts with the roll-up of the last one keeps the chain -/
theorem chainOk_snoc_link : ∀ (l : List (List Edit)) (a b : List Edit),
    chainOk (l ++ [a]) = true → b.head? = some (rollupOf a) → chainOk (l ++ [a, b]) = true
  | [], a, b, _, hb => by
    simp only [List.nil_append, chainOk_cons2, chainOk_single, hb, decide_true, Bool.and_self]
  | [x], a, b, h, hb => by
    simp only [List.cons_append, List.nil_append, chainOk_cons2, chainOk_single, Bool.and_true,
      decide_eq_true_eq] at h ⊢
    simp only [h, hb, decide_true, Bool.and_self]
  | x :: y :: t, a, b, h, hb => by
    simp only [List.cons_append, chainOk_cons2, Bool.and_eq_true] at h ⊢
    exact ⟨h.1, chainOk_snoc_link (y :: t) a b h.2 hb⟩

theorem head?_append_of_ne_nil (d es : List Edit) (h : d ≠ []) : (d ++ es).head? = d.head? := by
  cases d with
  | nil => exact absurd rfl h
  | cons a t => rfl

/-- appending edits to the newest fragment keeps the chain (its first edit does not change) -/
theorem chainOk_snoc_extend : ∀ (l : List (List Edit)) (d es : List Edit),
    chainOk (l ++ [d]) = true → (l = [] ∨ d ≠ []) → chainOk (l ++ [d ++ es]) = true
  | [], _, _, _, _ => rfl
  | [x], d, es, h, hne => by
    have hd : d ≠ [] := by
      rcases hne with h | h
      · cases h
      · exact h
    simp only [List.cons_append, List.nil_append, chainOk_cons2, chainOk_single, Bool.and_true] at h ⊢
    rw [head?_append_of_ne_nil d es hd]; exact h
  | x :: y :: t, d, es, h, hne => by
    have hd : d ≠ [] := by
      rcases hne with h | h
      · cases h
      · exact h
    simp only [List.cons_append, chainOk_cons2, Bool.and_eq_true] at h ⊢
    exact ⟨h.1, chainOk_snoc_extend (y :: t) d es h.2 (Or.inr hd)⟩

/-- what holds between two client calls -/
structure CInv (fs : Fs Edit) (sofar : List Edit) : Prop where
  pend : fs.mani.pending = []
  same : replay maniAlgebra fs.mani.durable = replay maniAlgebra sofar
  chain : chainOk (fs.backups ++ [fs.mani.durable]) = true
  ne : fs.backups = [] ∨ fs.mani.durable ≠ []
  unlinked : fs.linked = false

theorem replay_rollup (es : List Edit) : replay maniAlgebra [rollupOf es] = replay maniAlgebra es := by
  unfold replay
  simp only [List.foldl_cons, List.foldl_nil]
  exact maniAlgebra_lawful es

theorem cinv_block (fs : Fs Edit) (sofar : List Edit) (c : Client Edit) (h : CInv fs sofar) :
    CInv (run fs (block maniAlgebra sofar c)) (sofarAfter sofar c) := by
  obtain ⟨⟨d, p⟩, tmp, bs, linked⟩ := fs
  obtain ⟨hp, hs, hc, hne, hl⟩ := h
  simp only at hp hs hc hne hl
  subst hp; subst hl
  cases c with
  | edit e =>
    simp only [block, run, List.foldl_cons, List.foldl_nil, step, List.nil_append, List.append_nil, sofarAfter]
    exact ⟨rfl, by simp only [replay_snoc, hs], chainOk_snoc_extend bs d [e] hc hne, Or.inr (by simp), rfl⟩
  | rollover =>
    simp only [block, run, List.foldl_cons, List.foldl_nil, step, Option.map_some, List.nil_append,
      List.append_nil, sofarAfter]
    refine ⟨rfl, replay_rollup sofar, ?_, Or.inr (by simp), rfl⟩
    simp only [List.append_assoc, List.cons_append, List.nil_append]
    apply chainOk_snoc_link bs d _ hc
    simp only [List.head?_cons, rollupOf, hs]
  | editRoll e =>
    simp only [block, run, List.foldl_cons, List.foldl_nil, step, Option.map_some, List.nil_append,
      List.append_nil, sofarAfter]
    have hse : replay maniAlgebra (d ++ [e]) = replay maniAlgebra (sofar ++ [e]) := by
      simp only [replay_snoc, hs]
    refine ⟨rfl, replay_rollup (sofar ++ [e]), ?_, Or.inr (by simp), rfl⟩
    simp only [List.append_assoc, List.cons_append, List.nil_append]
    apply chainOk_snoc_link bs (d ++ [e]) _ (chainOk_snoc_extend bs d [e] hc hne)
    simp only [List.head?_cons, rollupOf, hse]

theorem cinv_run : ∀ (h : List (Client Edit)) (fs : Fs Edit) (sofar : List Edit), CInv fs sofar →
    CInv (run fs (opsOf maniAlgebra h sofar)) (sofar ++ editsOf h)
  | [], fs, sofar, hi => by simpa [opsOf, run, editsOf] using hi
  | c :: cs, fs, sofar, hi => by
    simp only [opsOf, run_append]
    have := cinv_run cs _ _ (cinv_block fs sofar c hi)
    cases c <;> simpa [sofarAfter, editsOf] using this

theorem cinv_empty : CInv emptyFs [] := ⟨rfl, rfl, rfl, Or.inl rfl, rfl⟩

/-- **C13** chain clause, crash-free: after any history of edits and rollovers the fragments chain -/
theorem chain_crash_free (h : List (Client Edit)) :
    chainOk (fragments (run emptyFs (opsOf maniAlgebra h []))) = true := by
  have hi := cinv_run h emptyFs [] cinv_empty
  unfold fragments
  rw [hi.pend, List.append_nil]
  exact hi.chain

/-- the directory chains after the reopen's rollover -/
def Good (g : Fs Edit) : Prop := chainOk (fragments (run g (reopenOps maniAlgebra g))) = true

/-- MANIFEST is its own file: the reopen links it to a new backup and replaces it by its roll-up -/
theorem good_U (m : List Edit) (tmp : Option (FileSt Edit)) (bs : List (List Edit))
    (hc : chainOk (bs ++ [m]) = true) : Good ⟨⟨m, []⟩, tmp, bs, false⟩ := by
  unfold Good
  have hr : run (⟨⟨m, []⟩, tmp, bs, false⟩ : Fs Edit) (reopenOps maniAlgebra ⟨⟨m, []⟩, tmp, bs, false⟩)
      = ⟨⟨[rollupOf m], []⟩, none, bs ++ [m], false⟩ := by
    simp [reopenOps, run, step, rollupOf]
  rw [hr]
  unfold fragments
  simp only [List.append_nil, List.append_assoc, List.cons_append, List.nil_append]
  exact chainOk_snoc_link bs m [rollupOf m] hc rfl

/-- MANIFEST and the newest backup are the same file (the crash hit a rollover between `link` and
    `rename`): the reopen finishes that rollover -/
theorem good_L (m : List Edit) (tmp : Option (FileSt Edit)) (bs : List (List Edit))
    (hc : chainOk (bs ++ [m]) = true) : Good ⟨⟨m, []⟩, tmp, bs ++ [m], true⟩ := by
  unfold Good
  have hr : run (⟨⟨m, []⟩, tmp, bs ++ [m], true⟩ : Fs Edit) (reopenOps maniAlgebra ⟨⟨m, []⟩, tmp, bs ++ [m], true⟩)
      = ⟨⟨[rollupOf m], []⟩, none, bs ++ [m], false⟩ := by
    simp [reopenOps, run, step, rollupOf]
  rw [hr]
  unfold fragments
  simp only [List.append_nil, List.append_assoc, List.cons_append, List.nil_append]
  exact chainOk_snoc_link bs m [rollupOf m] hc rfl

theorem chain_crash_aux : ∀ (h : List (Client Edit)) (fs : Fs Edit) (sofar : List Edit), CInv fs sofar → ∀ n,
    Good (crashA (run fs ((opsOf maniAlgebra h sofar).take n)))
    ∧ Good (crashB (run fs ((opsOf maniAlgebra h sofar).take n))) := by
  intro h
  induction h with
  | nil =>
    intro fs sofar hi n
    obtain ⟨⟨d, p⟩, tmp, bs, linked⟩ := fs
    obtain ⟨hp, _, hc, _, hl⟩ := hi
    simp only at hp hc hl
    subst hp; subst hl
    simp only [opsOf, List.take_nil, run, List.foldl_nil, crashA, crashB, List.append_nil]
    exact ⟨good_U d _ bs hc, good_U d _ bs hc⟩
  | cons c cs ih =>
    intro fs sofar hi n
    simp only [opsOf]
    rw [List.take_append]
    rcases Nat.lt_or_ge n (block maniAlgebra sofar c).length with hn | hn
    · have h0 : n - (block maniAlgebra sofar c).length = 0 := by omega
      rw [h0, List.take_zero, List.append_nil]
      obtain ⟨⟨d, p⟩, tmp, bs, linked⟩ := fs
      obtain ⟨hp, hs, hc, hne, hl⟩ := hi
      simp only at hp hs hc hne hl
      subst hp; subst hl
      cases c with
      | edit e =>
        have hlen : (block maniAlgebra sofar (Client.edit e)).length = 3 := rfl
        rw [hlen] at hn
        have hce := chainOk_snoc_extend bs d [e] hc hne
        rcases n with _ | _ | _ | n
        · simp only [List.take_zero, run, List.foldl_nil, crashA, crashB, List.append_nil]
          exact ⟨good_U d _ bs hc, good_U d _ bs hc⟩
        · simp only [block, List.take, run, List.foldl_cons, List.foldl_nil, step, crashA, crashB,
            List.nil_append, List.append_nil]
          exact ⟨good_U (d ++ [e]) _ bs hce, good_U d _ bs hc⟩
        · simp only [block, List.take, run, List.foldl_cons, List.foldl_nil, step, crashA, crashB,
            List.nil_append, List.append_nil]
          exact ⟨good_U (d ++ [e]) _ bs hce, good_U (d ++ [e]) _ bs hce⟩
        · omega
      | rollover =>
        have hlen : (block maniAlgebra sofar Client.rollover).length = 5 := rfl
        rw [hlen] at hn
        rcases n with _ | _ | _ | _ | _ | n
        · simp only [List.take_zero, run, List.foldl_nil, crashA, crashB, List.append_nil]
          exact ⟨good_U d _ bs hc, good_U d _ bs hc⟩
        · simp only [block, List.take, run, List.foldl_cons, List.foldl_nil, step, crashA, crashB,
            List.nil_append, List.append_nil]
          exact ⟨good_L d _ bs hc, good_L d _ bs hc⟩
        · simp only [block, List.take, run, List.foldl_cons, List.foldl_nil, step, crashA, crashB,
            List.nil_append, List.append_nil]
          exact ⟨good_L d _ bs hc, good_L d _ bs hc⟩
        · simp only [block, List.take, run, List.foldl_cons, List.foldl_nil, step, crashA, crashB,
            List.nil_append, List.append_nil]
          exact ⟨good_L d _ bs hc, good_L d _ bs hc⟩
        · simp only [block, List.take, run, List.foldl_cons, List.foldl_nil, step, crashA, crashB,
            List.nil_append, List.append_nil]
          exact ⟨good_L d _ bs hc, good_L d _ bs hc⟩
        · omega
      | editRoll e =>
        have hlen : (block maniAlgebra sofar (Client.editRoll e)).length = 8 := rfl
        rw [hlen] at hn
        have hce := chainOk_snoc_extend bs d [e] hc hne
        have hse : replay maniAlgebra (d ++ [e]) = replay maniAlgebra (sofar ++ [e]) := by
          simp only [replay_snoc, hs]
        have hcr : chainOk ((bs ++ [d ++ [e]]) ++ [[rollupOf (sofar ++ [e])]]) = true := by
          simp only [List.append_assoc, List.cons_append, List.nil_append]
          apply chainOk_snoc_link bs (d ++ [e]) _ hce
          simp only [List.head?_cons, rollupOf, hse]
        rcases n with _ | _ | _ | _ | _ | _ | _ | _ | n
        · simp only [List.take_zero, run, List.foldl_nil, crashA, crashB, List.append_nil]
          exact ⟨good_U d _ bs hc, good_U d _ bs hc⟩
        · simp only [block, List.take, run, List.foldl_cons, List.foldl_nil, step, crashA, crashB,
            List.nil_append, List.append_nil]
          exact ⟨good_U (d ++ [e]) _ bs hce, good_U d _ bs hc⟩
        · simp only [block, List.take, run, List.foldl_cons, List.foldl_nil, step, crashA, crashB,
            List.nil_append, List.append_nil]
          exact ⟨good_U (d ++ [e]) _ bs hce, good_U (d ++ [e]) _ bs hce⟩
        · simp only [block, List.take, run, List.foldl_cons, List.foldl_nil, step, crashA, crashB,
            List.nil_append, List.append_nil, Option.map_some]
          exact ⟨good_L (d ++ [e]) _ bs hce, good_L (d ++ [e]) _ bs hce⟩
        · simp only [block, List.take, run, List.foldl_cons, List.foldl_nil, step, crashA, crashB,
            List.nil_append, List.append_nil, Option.map_some]
          exact ⟨good_L (d ++ [e]) _ bs hce, good_L (d ++ [e]) _ bs hce⟩
        · simp only [block, List.take, run, List.foldl_cons, List.foldl_nil, step, crashA, crashB,
            List.nil_append, List.append_nil, Option.map_some]
          exact ⟨good_L (d ++ [e]) _ bs hce, good_L (d ++ [e]) _ bs hce⟩
        · simp only [block, List.take, run, List.foldl_cons, List.foldl_nil, step, crashA, crashB,
            List.nil_append, List.append_nil, Option.map_some]
          exact ⟨good_L (d ++ [e]) _ bs hce, good_L (d ++ [e]) _ bs hce⟩
        · simp only [block, List.take, run, List.foldl_cons, List.foldl_nil, step, crashA, crashB,
            List.nil_append, List.append_nil, Option.map_some]
          exact ⟨good_U [rollupOf (sofar ++ [e])] _ (bs ++ [d ++ [e]]) hcr, good_U [rollupOf (sofar ++ [e])] _ (bs ++ [d ++ [e]]) hcr⟩
        · omega
    · have htake : (block maniAlgebra sofar c).take n = block maniAlgebra sofar c :=
        List.take_of_length_le hn
      rw [htake, run_append]
      exact ih _ _ (cinv_block fs sofar c hi) (n - (block maniAlgebra sofar c).length)

/-- **C13** chain clause across a crash (D-13 repaired): for every history, every crash point and both
    persistence models, after the reopen's rollover the fragments chain -/
theorem chain_after_crash_and_reopen (h : List (Client Edit)) (n : Nat) :
    let fs := run emptyFs ((opsOf maniAlgebra h []).take n)
    chainOk (fragments (run (crashA fs) (reopenOps maniAlgebra (crashA fs)))) = true
    ∧ chainOk (fragments (run (crashB fs) (reopenOps maniAlgebra (crashB fs)))) = true :=
  chain_crash_aux h emptyFs [] cinv_empty n

end Blue.Mani
