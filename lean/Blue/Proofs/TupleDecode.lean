import Blue.Model.TupleKey1
/-! **C16** decoders of the field-numbered integer elements: decoding an encoding gives the value
    back; anything that is not exactly the element's width is rejected. -/
namespace Blue.TupleKey1

theorem decU32_enc (x : Nat) (hx : x < 4294967296) : decU32 (encU32 x) = some x := by
  unfold encU32 decU32 or1
  simp only [Option.some.injEq]
  omega

theorem decU64_enc (x : Nat) (hx : x < 18446744073709551616) : decU64 (encU64 x) = some x := by
  unfold encU64 decU64 or1
  simp only [Option.some.injEq]
  omega

theorem decI32_enc (x : Int) (h1 : -2147483648 ≤ x) (h2 : x < 2147483648) : decI32 (encI32 x) = some x := by
  unfold decI32 encI32
  rw [decU32_enc _ (by unfold offsetI32; omega)]
  show some (((offsetI32 x : Nat) : Int) - 2147483648) = some x
  congr 1
  unfold offsetI32; omega

theorem decI64_enc (x : Int) (h1 : -9223372036854775808 ≤ x) (h2 : x < 9223372036854775808) :
    decI64 (encI64 x) = some x := by
  unfold decI64 encI64
  rw [decU64_enc _ (by unfold offsetI64; omega)]
  show some (((offsetI64 x : Nat) : Int) - 9223372036854775808) = some x
  congr 1
  unfold offsetI64; omega

/-- wrong widths are rejected, never a panic -/
theorem decU32_width (bs : List Nat) (h : bs.length ≠ 5) : decU32 bs = none := by
  match bs with
  | [] | [_] | [_, _] | [_, _, _] | [_, _, _, _] => rfl
  | [_, _, _, _, _] => simp at h
  | _ :: _ :: _ :: _ :: _ :: _ :: _ => rfl

end Blue.TupleKey1

#print axioms Blue.TupleKey1.decU64_enc
#print axioms Blue.TupleKey1.decI64_enc
