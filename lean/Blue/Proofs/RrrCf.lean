import Blue.Proofs.RrrCfQuery
import Blue.Proofs.RrrCfLayout
import Blue.Proofs.RrrCfExamples
/-! **C19, cf_rrr**: the executable model of `scrunch::bit_vector::cf_rrr::BitVector`
    (`Blue.Model.RrrCf`: `construct` writes the encoded arrays, the queries read them back through
    `load` / the `FixedWidthIterator` / `decode`) answers `access`, `rank`, `access_rank`, `select`,
    `select0` exactly as the plain bit array (`Blue.BitVec`), for every bit pattern and every
    argument, in range or not.  Every theorem takes the word-level facts `ws : Blue.Rrr.WordSpec`
    (proved in `Blue.Proofs.RrrWord`) as a hypothesis.

    Proof structure: `RrrCfLayout.construct_layout` (what `construct` wrote: `Layout bits (construct bits)`),
    `RrrCfQuery.*_spec` (what the queries answer on any vector with that layout). -/
namespace Blue.RrrCf
open Blue.BitArr Blue.Rrr

theorem len_construct (bits : List Bool) : len (construct bits) = bits.length := rfl

theorem accessRank_construct (ws : WordSpec) (bits : List Bool) (x : Nat) :
    accessRank (construct bits) x
      = if x ≤ bits.length then some (bits.getD x false, (bits.take x).count true) else none :=
  accessRank_spec ws (construct_layout ws bits) x

theorem access_construct (ws : WordSpec) (bits : List Bool) (x : Nat) :
    access (construct bits) x = Blue.BitVec.access bits x :=
  access_spec ws (construct_layout ws bits) x

theorem rank_construct (ws : WordSpec) (bits : List Bool) (x : Nat) :
    rank (construct bits) x = Blue.BitVec.rank bits x :=
  rank_spec ws (construct_layout ws bits) x

/-- `select_helper` never panics on a constructed vector (neither `assert!(rank <= x)` nor the
    `usize` subtraction of `select0`'s `load_rank`), and returns the reference answer -/
theorem selectRes_construct (ws : WordSpec) (bits : List Bool) (zero : Bool) (x : Nat) :
    selectRes (construct bits) zero x = Res.ok (selRef zero bits x) :=
  selectRes_spec ws (construct_layout ws bits) zero x

theorem select_construct (ws : WordSpec) (bits : List Bool) (x : Nat) :
    select (construct bits) x = Blue.BitVec.select bits x := by
  unfold select; rw [selectRes_construct ws]; rfl

theorem select0_construct (ws : WordSpec) (bits : List Bool) (x : Nat) :
    select0 (construct bits) x = Blue.BitVec.select0 bits x := by
  unfold select0; rw [selectRes_construct ws]; rfl

/-- the widths `construct` chooses are at least a byte (so a field index beyond an array fails to
    load even through the zero padding of `seal`) -/
theorem construct_widths (bits : List Bool) : 8 ≤ (construct bits).rWidth ∧ 8 ≤ (construct bits).pWidth :=
  ⟨calcWidth_ge _, calcWidth_ge _⟩

/-- `assert!(next_select1 >= rank)` at the head of every iteration of `construct`'s loop holds -/
theorem construct_assert_next1 (rw : Nat) (bits : List Bool) (k : Nat) (st : CState) (inv : Inv rw bits k st) :
    st.next1 ≥ st.rank := by
  obtain ⟨S, _, hn, h0, hpos, _⟩ := inv.s1
  rw [inv.rank, hn]
  rcases Nat.eq_zero_or_pos k with hk | hk
  · subst hk; rw [ones_zero]; omega
  · have := hpos hk
    unfold A1 at this
    omega

end Blue.RrrCf

#print axioms Blue.RrrCf.accessRank_construct
#print axioms Blue.RrrCf.access_construct
#print axioms Blue.RrrCf.rank_construct
#print axioms Blue.RrrCf.selectRes_construct
#print axioms Blue.RrrCf.select_construct
#print axioms Blue.RrrCf.select0_construct
