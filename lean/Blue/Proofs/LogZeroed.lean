import Blue.Proofs.LogAny
import Blue.Proofs.LogDamage
import Blue.Proofs.LogHeader
/-! **C09 (log), after the repair of D-11**: a header-length byte overwritten with zero is detected.

The reader takes a zero where a header length is expected for the writer's padding.  Since the
repair it reads the bytes it skips and insists that they are zero, so a frame whose length byte was
zeroed can no longer be stepped over: the byte after the length byte is the first byte of the
packed `Header`, the tag of its first field, which is neither zero nor a header length.

* `zero_then_big_is_error`: the byte-level fact, for any file;
* `nextBatch_zeroed`: for what one `append` wrote, wherever it falls in its block;
* `zeroed_header_length_detected`: in a log of any appended batches, the batches before the damaged
  frame are delivered unchanged and then the reader reports an error — nothing after it is
  delivered, nothing is dropped silently. -/
namespace Blue.Log
variable {P : Params}

/-- every header the codec writes starts with a byte that cannot be a header length: it is larger
    than `HEADER_MAX_SIZE` (the real codec starts with the tag of field 10, the byte 80) -/
def BigTag (P : Params) : Prop := ∀ h : Hdr, ∃ b rest, P.encH h = b :: rest ∧ b > P.H

theorem bigTag_real (crc : List Nat → Nat) : BigTag (realParams crc) := by
  intro h
  have t10 : Blue.Wire.encVarint (10 * 8 + Blue.Wire.WT.varint.bits) = [80] :=
    Blue.Wire.encVarint_lt (by decide)
  refine ⟨80, Blue.Wire.encVarint h.size ++ (Blue.Wire.encTag ⟨11, .varint⟩ ++ (Blue.Wire.encVarint h.disc ++
    (Blue.Wire.encTag ⟨12, .thirtyTwo⟩ ++ le32 h.crc))), ?_, by show 80 > 19; omega⟩
  show encHdr h = _
  unfold encHdr
  rw [show Blue.Wire.encTag ⟨10, .varint⟩ = [80] from t10]
  simp only [List.append_assoc, List.cons_append, List.nil_append]

/-- **a zero length byte followed by a byte larger than `HEADER_MAX_SIZE` is an error**, wherever
    it stands: too far from the block boundary for padding, or the padding check sees the byte, or
    (the zero was the last byte of its block) the byte is read as a header length and refused -/
theorem zero_then_big_is_error (hB : 0 < P.B) (file : List Nat) (fuel off b : Nat)
    (h0 : file[off]? = some 0) (h1 : file[off + 1]? = some b) (hb : b > P.H) :
    nextHeader P file fuel off = .err := by
  cases fuel with
  | zero => simp [nextHeader]
  | succ f =>
    rw [nextHeader_succ, h0]
    simp only [if_true]
    by_cases ht : trueUp P (off + 1) - (off + 1) > P.H
    · rw [if_pos ht]
    · rw [if_neg ht]
      cases hp : padZero file (off + 1) (trueUp P (off + 1)) with
      | false => simp
      | true =>
        simp only [Bool.not_true, Bool.false_eq_true, if_false]
        have hge := trueUp_ge hB (off + 1)
        by_cases heq : trueUp P (off + 1) = off + 1
        · rw [heq]
          cases f with
          | zero => simp [nextHeader]
          | succ f' =>
            rw [nextHeader_succ, h1]
            simp only
            rw [if_neg (by omega), if_pos hb]
        · have := (padZero_iff file _ _).1 hp (off + 1) b (Nat.le_refl _) (by omega) h1
          omega

theorem nextBatch_of_header_err (file : List Nat) (fuel off : Nat)
    (h : nextHeader P file fuel off = .err) : nextBatch P file fuel off = .err := by
  unfold nextBatch nextFrame; rw [h]

theorem frame_head (hbig : BigTag P) (d : Nat) (p : List Nat) :
    ∃ l b tl, frame P d p = l :: b :: tl ∧ b > P.H := by
  obtain ⟨b, rest, he, hb⟩ := hbig ⟨p.length, d, P.crc p⟩
  refine ⟨rest.length + 1, b, rest ++ p, ?_, hb⟩
  unfold frame
  simp only [he, List.length_cons, List.cons_append]

/-- when the writer does not pad first, what it writes starts with a frame -/
theorem appendAt_head (hbig : BigTag P) (f pos : Nat) (buf : List Nat)
    (hno : ¬ (pos + (frame P WHOLE buf).length > nextBoundary P pos ∧ nextBoundary P pos - pos ≤ P.H)) :
    ∃ l b tl, appendAt P (f + 1) pos buf = l :: b :: tl ∧ b > P.H := by
  rw [appendAt_succ]
  by_cases hfit : pos + (frame P WHOLE buf).length > nextBoundary P pos
  · have hround : ¬ (nextBoundary P pos - pos ≤ P.H) := fun h => hno ⟨hfit, h⟩
    rw [if_pos hfit, if_neg hround]
    obtain ⟨l, b, tl, he, hb⟩ := frame_head hbig FIRST (buf.take (nextBoundary P pos - pos - P.H))
    rw [he]
    exact ⟨l, b, _, rfl, hb⟩
  · rw [if_neg hfit]; exact frame_head hbig WHOLE buf

theorem set_head_get (pre tl suf : List Nat) (l b : Nat) :
    ((pre ++ l :: b :: tl ++ suf).set pre.length 0)[pre.length]? = some 0
    ∧ ((pre ++ l :: b :: tl ++ suf).set pre.length 0)[pre.length + 1]? = some b := by
  constructor
  · rw [List.getElem?_set_self (by simp)]
  · rw [List.getElem?_set_ne (by omega)]
    rw [List.append_assoc, List.getElem?_append_right (by omega)]
    simp

/-- offset of the header-length byte of the first frame an `append` of `buf` at `pos` writes: at
    `pos`, or at the block boundary when the writer pads first -/
def headOff (P : Params) (pos : Nat) (buf : List Nat) : Nat :=
  if pos + (frame P WHOLE buf).length > nextBoundary P pos ∧ nextBoundary P pos - pos ≤ P.H
  then nextBoundary P pos else pos

/-- what one `append` wrote, with the header-length byte of its (first) frame overwritten with
    zero, is an error — whether the frame is whole or the first half of a split one, and whether
    or not it comes after padding -/
theorem nextBatch_zeroed (g : Good P) (hbig : BigTag P) (pre buf suf : List Nat) :
    nextBatch P ((pre ++ appendAt P 2 pre.length buf ++ suf).set (headOff P pre.length buf) 0) 2 pre.length
      = .err := by
  have hB : 0 < P.B := by have := g.hB; omega
  have hBH : P.H < P.B := by have := g.hB; omega
  unfold headOff
  by_cases hpad : pre.length + (frame P WHOLE buf).length > nextBoundary P pre.length
            ∧ nextBoundary P pre.length - pre.length ≤ P.H
  · rw [if_pos hpad]
    obtain ⟨hfit, hround⟩ := hpad
    obtain ⟨q, m, hpos, hm⟩ := block_decomp (P := P) hB pre.length
    have hnb : nextBoundary P pre.length = q * P.B + P.B :=
      nextBoundary_block hB q pre.length (by omega) (by omega)
    have hout : appendAt P 2 pre.length buf
        = zeros (q * P.B + P.B - pre.length) ++ appendAt P 1 (q * P.B + P.B) buf := by
      rw [show (2 : Nat) = 1 + 1 from rfl, appendAt_succ]
      rw [if_pos hfit, if_pos hround, hnb]
    rw [hout, hnb]
    generalize hr : q * P.B + P.B - pre.length = r at *
    have hr1 : 1 ≤ r := by omega
    have hrH : r ≤ P.H := by rw [hnb] at hround; omega
    -- at the boundary the writer does not pad again
    have hnb2 : nextBoundary P (q * P.B + P.B) = (q + 1) * P.B + P.B :=
      nextBoundary_block hB (q + 1) _ (by rw [Nat.add_mul, Nat.one_mul]; omega)
        (by rw [Nat.add_mul, Nat.one_mul]; omega)
    have hno : ¬ (q * P.B + P.B + (frame P WHOLE buf).length > nextBoundary P (q * P.B + P.B)
              ∧ nextBoundary P (q * P.B + P.B) - (q * P.B + P.B) ≤ P.H) := by
      rw [hnb2, Nat.add_mul, Nat.one_mul]
      intro h
      omega
    obtain ⟨l, b, tl, hX, hb⟩ := appendAt_head hbig 0 (q * P.B + P.B) buf hno
    rw [show (0 : Nat) + 1 = 1 from rfl] at hX
    rw [hX]
    have hFlen : (pre ++ zeros r).length = q * P.B + P.B := by simp [zeros_length]; omega
    have hfile : pre ++ (zeros r ++ l :: b :: tl) ++ suf = (pre ++ zeros r) ++ l :: b :: tl ++ suf := by simp
    rw [hfile, ← hFlen]
    obtain ⟨hg0, hg1⟩ := set_head_get (pre ++ zeros r) tl suf l b
    generalize hfile' : ((pre ++ zeros r) ++ l :: b :: tl ++ suf).set (pre ++ zeros r).length 0 = file' at *
    have hne : ∀ i, i < q * P.B + P.B → file'[i]? = ((pre ++ zeros r) ++ l :: b :: tl ++ suf)[i]? := by
      intro i hi
      rw [← hfile', List.getElem?_set_ne (by omega)]
    -- the padding is still the writer's zeros
    have hpad0 : padZero ((pre ++ zeros r) ++ l :: b :: tl ++ suf) pre.length (q * P.B + P.B) = true :=
      padZero_zeros _ pre (l :: b :: tl ++ suf) r _ _ (by simp) (Nat.le_refl _) (by omega)
    have hget : file'[pre.length]? = some 0 := by
      rw [hne _ (by omega)]
      obtain ⟨r', rfl⟩ : ∃ r', r = r' + 1 := ⟨r - 1, by omega⟩
      simp [zeros, List.replicate_succ]
    have hpadz : padZero file' (pre.length + 1) (q * P.B + P.B) = true := by
      rw [padZero_iff]
      intro i x hi1 hi2 hx
      rw [hne i hi2] at hx
      exact (padZero_iff _ _ _).1 hpad0 i x (by omega) hi2 hx
    have hskip := nextHeader_padding g file' 1 pre.length q r hget (by omega) (by omega) hr1 hrH (by omega) hpadz
    apply nextBatch_of_header_err
    rw [hskip]
    rw [hFlen] at hg0 hg1
    exact zero_then_big_is_error hB file' 1 _ b hg0 hg1 hb
  · rw [if_neg hpad]
    obtain ⟨l, b, tl, hX, hb⟩ := appendAt_head hbig 1 pre.length buf hpad
    rw [show (1 : Nat) + 1 = 2 from rfl] at hX
    rw [hX]
    obtain ⟨hg0, hg1⟩ := set_head_get pre tl suf l b
    apply nextBatch_of_header_err
    exact zero_then_big_is_error hB _ 2 _ b hg0 hg1 hb

/-- the batches written before the damage are delivered, then the error -/
theorem readSome_prefix_then_err (g : Good P) (file' : List Nat) (k : Nat) :
    ∀ (bufs : List (List Nat)) (pre : List Nat),
      (∀ b ∈ bufs, b.length ≤ P.tableFull) →
      file'.take (pre.length + (writeAll P bufs pre.length).length) = pre ++ writeAll P bufs pre.length →
      nextBatch P file' 2 (pre.length + (writeAll P bufs pre.length).length) = .err →
      readSome P file' (bufs.length + 1 + k) pre.length = (bufs, true) := by
  have hB : 0 < P.B := by have := g.hB; omega
  intro bufs
  induction bufs with
  | nil =>
    intro pre _ _ herr
    simp only [writeAll, List.length_nil, Nat.add_zero] at herr
    rw [show ([] : List (List Nat)).length + 1 + k = k + 1 by simp only [List.length_nil]; omega, readSome_succ, herr]
  | cons x xs ih =>
    intro pre hsz hsame herr
    simp only [writeAll] at hsame herr
    generalize hA : appendAt P 2 pre.length x = A at *
    generalize hW : writeAll P xs (pre.length + A.length) = W at *
    have hread := append_read_any g pre x W (hsz x (List.mem_cons_self ..))
    rw [hA] at hread
    have hagree : (pre ++ A ++ W).take (pre.length + (A ++ W).length) = file'.take (pre.length + (A ++ W).length) := by
      rw [hsame, List.take_of_length_le (by simp only [List.length_append]; omega)]
      simp
    have hread' := reads_agree_before_damage hB _ file' _ hagree 2 pre.length _ hread
      (by simp only [List.length_append]; omega)
    rw [show (x :: xs).length + 1 + k = (xs.length + 1 + k) + 1 by simp only [List.length_cons]; omega,
      readSome_succ, hread']
    simp only
    have hlen : (pre ++ A).length = pre.length + A.length := List.length_append
    have := ih (pre ++ A) (fun b hb => hsz b (List.mem_cons_of_mem _ hb))
      (by rw [hlen, hW]; simpa only [List.length_append, Nat.add_assoc, List.append_assoc] using hsame)
      (by rw [hlen, hW]; simpa only [List.length_append, Nat.add_assoc] using herr)
    rw [hlen] at this
    rw [this]

theorem writeAll_append : ∀ (xs ys : List (List Nat)) (pos : Nat),
    writeAll P (xs ++ ys) pos = writeAll P xs pos ++ writeAll P ys (pos + (writeAll P xs pos).length)
  | [], ys, pos => by simp [writeAll]
  | x :: xs, ys, pos => by
    simp only [List.cons_append, writeAll, List.append_assoc, List.length_append]
    rw [writeAll_append xs ys, Nat.add_assoc]

/-- **C09 (log), D-11 repaired**: in the log of any appended batches, overwrite with zero the
    header-length byte of the frame (the first frame, if it was split) of any one append: the
    reader delivers exactly the batches appended before it and then reports an error.  The damaged
    frame is never skipped — wherever it lies relative to the block boundaries. -/
theorem zeroed_header_length_detected (g : Good P) (hbig : BigTag P)
    (bufs1 : List (List Nat)) (b : List Nat) (bufs2 : List (List Nat))
    (hsz : ∀ x ∈ bufs1, x.length ≤ P.tableFull) (k : Nat) :
    readSome P ((writeAll P (bufs1 ++ b :: bufs2) 0).set (headOff P (writeAll P bufs1 0).length b) 0)
      (bufs1.length + 1 + k) 0 = (bufs1, true) := by
  have hB : 0 < P.B := by have := g.hB; omega
  rw [writeAll_append]
  simp only [writeAll, Nat.zero_add]
  generalize hpre : writeAll P bufs1 0 = pre
  generalize hsuf : writeAll P bufs2 (pre.length + (appendAt P 2 pre.length b).length) = suf
  have hfile : pre ++ (appendAt P 2 pre.length b ++ suf) = pre ++ appendAt P 2 pre.length b ++ suf := by simp
  rw [hfile]
  have herr := nextBatch_zeroed g hbig pre b suf
  have hoff : pre.length ≤ headOff P pre.length b := by
    unfold headOff
    split
    · obtain ⟨q, m, hpos, hm⟩ := block_decomp (P := P) hB pre.length
      rw [nextBoundary_block hB q pre.length (by omega) (by omega)]
      omega
    · exact Nat.le_refl _
  have h := readSome_prefix_then_err g
    ((pre ++ appendAt P 2 pre.length b ++ suf).set (headOff P pre.length b) 0) k bufs1 [] hsz
  simp only [List.length_nil, Nat.zero_add, List.nil_append, hpre] at h
  apply h
  · rw [List.take_set_of_le hoff, List.append_assoc, List.take_left]
  · exact herr

end Blue.Log

#print axioms Blue.Log.zero_then_big_is_error
#print axioms Blue.Log.nextBatch_zeroed
#print axioms Blue.Log.zeroed_header_length_detected
