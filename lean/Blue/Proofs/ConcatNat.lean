import Blue.Model.ConcatC
import Blue.Proofs.Cur
/-! The generic concatenating cursor is natural in its children. -/
namespace Blue.Cursor
namespace ConcatC
variable {E : Type} {A : (E → Bool) → Prop} {C D : Cur E} (h : Hom A C D)

def map (m : ConcatC C) : ConcatC D := ⟨m.cs.map h.f, m.position⟩

theorem modifyAt_nat (cs : List C.σ) (i : Nat) (g : C.σ → C.σ) (g' : D.σ → D.σ)
    (hg : ∀ c, h.f (g c) = g' (h.f c)) :
    modifyAt D (cs.map h.f) i g' = (modifyAt C cs i g).map h.f := by
  unfold modifyAt
  rw [List.getElem?_map]
  cases cs[i]? with
  | none => rfl
  | some c => simp [List.map_set, hg]

theorem reposition_nat (m : ConcatC C) (idx : Nat) :
    reposition D (map h m) idx = map h (reposition C m idx) := by
  unfold reposition
  by_cases hp : m.position ≠ idx
  · have : (map h m).position ≠ idx := hp
    rw [if_pos hp, if_pos this]
    simp only [map, modifyAt_nat h m.cs m.position C.first D.first h.first]
  · have : ¬ (map h m).position ≠ idx := hp
    rw [if_neg hp, if_neg this]

theorem kv_nat (m : ConcatC C) : kv D (map h m) = kv C m := by
  unfold kv map
  simp only [List.getElem?_map]
  cases m.cs[m.position]? with
  | none => rfl
  | some c => simp [h.kv]

theorem map_mk (cs : List C.σ) (p : Nat) : map h ⟨cs, p⟩ = ⟨cs.map h.f, p⟩ := rfl

theorem step_modify (m : ConcatC C) (g : C.σ → C.σ) (g' : D.σ → D.σ) (hg : ∀ c, h.f (g c) = g' (h.f c)) :
    (⟨modifyAt D (map h m).cs (map h m).position g', (map h m).position⟩ : ConcatC D)
      = map h ⟨modifyAt C m.cs m.position g, m.position⟩ := by
  simp only [map, modifyAt_nat h m.cs m.position g g' hg]

theorem map_length (m : ConcatC C) : (map h m).cs.length = m.cs.length := by simp [map]
theorem map_position (m : ConcatC C) : (map h m).position = m.position := rfl

theorem modifyAt_length (X : Cur E) (cs : List X.σ) (i : Nat) (g : X.σ → X.σ) :
    (modifyAt X cs i g).length = cs.length := by
  unfold modifyAt; split <;> simp

theorem nextLoop_nat : ∀ (n : Nat) (m : ConcatC C), nextLoop D n (map h m) = map h (nextLoop C n m) := by
  intro n
  induction n with
  | zero => intros; rfl
  | succ n ih =>
    intro m
    have e1 := step_modify h m C.next D.next h.next
    simp only [nextLoop]
    simp only [e1]
    simp only [kv_nat, map_length, map_position, modifyAt_length]
    split
    · have e2 := fun x => step_modify h x C.first D.first h.first
      simp only [reposition_nat]
      simp only [e2, ih]
    · rfl

theorem prevLoop_nat : ∀ (n : Nat) (m : ConcatC C), prevLoop D n (map h m) = map h (prevLoop C n m) := by
  intro n
  induction n with
  | zero => intros; rfl
  | succ n ih =>
    intro m
    have e1 := step_modify h m C.prev D.prev h.prev
    simp only [prevLoop]
    simp only [e1]
    simp only [kv_nat, map_position]
    split
    · rename_i hc
      have e2 := fun x => step_modify h x C.last D.last h.last
      simp only [reposition_nat]
      simp only [e2, ih]
      split
      · rfl
      · rename_i hn; exact absurd hc hn
    · rename_i hc
      split
      · rename_i hp; exact absurd hp hc
      · rfl

theorem peekLast_nat (c : C.σ) : peekLast D (h.f c) = peekLast C c := by
  unfold peekLast
  rw [← h.last, ← h.prev, h.kv]

theorem probeDown_eq (X : Cur E) (cs : List X.σ) (left probe : Nat) :
    probeDown X cs left probe =
      match cs[probe]? with
      | none => none
      | some c =>
        match peekLast X c with
        | some e => some (probe, e)
        | none => if left < probe then probeDown X cs left (probe - 1) else none := by
  rw [probeDown]; rfl

theorem probeDown_nat (cs : List C.σ) (left : Nat) :
    ∀ probe, probeDown D (cs.map h.f) left probe = probeDown C cs left probe := by
  intro probe
  induction probe using Nat.strongRecOn with
  | _ probe ih =>
    rw [probeDown_eq D, probeDown_eq C]
    simp only [List.getElem?_map]
    cases cs[probe]? with
    | none => rfl
    | some c =>
      simp only [Option.map_some, peekLast_nat]
      cases peekLast C c with
      | some e => rfl
      | none =>
        simp only
        split
        · exact ih (probe - 1) (by omega)
        · rfl

theorem searchLoop_nat (cs : List C.σ) (pred : E → Bool) :
    ∀ (n l r : Nat), searchLoop D (cs.map h.f) pred n l r = searchLoop C cs pred n l r := by
  intro n
  induction n with
  | zero => intros; rfl
  | succ n ih =>
    intro l r
    simp only [searchLoop, probeDown_nat]
    split
    · cases probeDown C cs l ((l + r) / 2) with
      | none => exact ih _ _
      | some je =>
        obtain ⟨j, e⟩ := je
        simp only
        split
        · exact ih _ _
        · exact ih _ _
    · rfl

def hom : Hom A (cur C) (cur D) where
  f := map h
  first := fun (m : ConcatC C) => by
    show map h (seekToFirst C m) = seekToFirst D (map h m)
    simp only [seekToFirst]
    rw [reposition_nat, step_modify h _ C.first D.first h.first]
  last := fun (m : ConcatC C) => by
    show map h (seekToLast C m) = seekToLast D (map h m)
    simp only [seekToLast]
    have : (map h m).cs.length = m.cs.length := by simp [map]
    rw [this, reposition_nat, step_modify h _ C.last D.last h.last]
  next := fun (m : ConcatC C) => by
    show map h (next C m) = next D (map h m)
    simp only [next]
    have : (map h m).cs.length = m.cs.length := by simp [map]
    rw [this, nextLoop_nat]
  prev := fun (m : ConcatC C) => by
    show map h (prev C m) = prev D (map h m)
    simp only [prev]
    have : (map h m).cs.length = m.cs.length := by simp [map]
    rw [this, prevLoop_nat]
  seek := fun pred hp (m : ConcatC C) => by
    show map h (seek C pred m) = seek D pred (map h m)
    simp only [seek]
    have hl : (map h m).cs.length = m.cs.length := by simp [map]
    have hc : (map h m).cs = m.cs.map h.f := rfl
    rw [hl, hc, searchLoop_nat, reposition_nat, step_modify h _ (C.seek pred) (D.seek pred) (h.seek pred hp)]
  kv := fun (m : ConcatC C) => kv_nat h m
  ok := fun (m : ConcatC C) => by
    show (m.cs.map h.f).all D.ok = m.cs.all C.ok
    simp [List.all_map, Function.comp_def, h.ok]

end ConcatC
end Blue.Cursor
